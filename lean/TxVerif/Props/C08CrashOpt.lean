/-
  C08 (crash part), second discipline: failing syncs under the OPTIMISTIC file-system assumption,
  with the failure paths the repaired implementation is observed to take.
  Model: Model/CrashFailOpt.lean (`OCfg.step` / `OCfg.run` executable acceptor, `DurStepOpt` /
  `ExecOpt` real file). Lemmas: Proofs/CrashFailOpt.lean (invariant `OSafe`).
  Props/C08Crash.lean (pessimistic assumption, stricter discipline) is unchanged.

  ASSUMPTION (optimistic): a failing sync makes an unknown subset of the pending operations durable
  (any crash image, header writes possibly torn) and the operations STAY pending; a later sync that
  succeeds makes all pending operations durable in issue order. Applying an operation twice is
  harmless: `reapply_after_failed_sync`. After every completed sync the durable image is known
  exactly: `completed_sync_exact`.

  DISCIPLINE (`OCfg.step`): everything `Cfg.step` of Model/Crash.lean accepts
  (`cfg_traces_accepted`), plus
    F1'  a failing data sync: all stays pending, committed state unchanged, more page writes and
         further syncs may follow; a commit header as in `Cfg.step`: the state's pages durable as of the
         last completed sync and untouched by everything pending (normally nothing is pending);
    P1   idempotent restore: with no header in flight, a header write into the inactive slot with
         exactly the contents that slot durably holds (`pattern1_accepted`); joins the pending list;
    F2'  after a failed final sync: only `restore` of the saved old contents of the in-flight slot,
         `sync`, `syncFail`; after the restore is written only `sync`, `syncFail`, until a sync
         SUCCEEDS (`failure_path_locked_opt`); that sync ends the failure path
         (`restore_completes_opt`). Page writes, truncates, a new header: only after it.

  GUARANTEE per phase (`crash_recovers_opt`): normal without header in flight - the committed state
  (`crash_committed_only_opt`; includes failed data syncs and pending idempotent restores); header
  in flight / `failed` / `restoring` - the committed state or the state of the (failed) commit,
  whichever is recovered is complete; after the completing sync - the old committed state only, as
  long as no later commit is in flight or completed (`failed_attempt_never_resurfaces_opt`), with
  `Safe` of Model/Crash.lean holding of the acceptor's configuration (`restore_completes_opt`).

  COUNTEREXAMPLE (`lax_opt_not_crash_safe`): going on with a page write after
  `hdr new; syncFail; restore; syncFail` WITHOUT any successful sync is not crash safe under the
  optimistic assumption either.
-/
import TxVerif.Proofs.CrashFailOpt
import TxVerif.Props.C08Crash
namespace TxVerif

theorem opendingSt_normal (b : Cfg) : (⟨b, .normal⟩ : OCfg).pendingSt = b.inflight := rfl
theorem opendingSt_failed (b : Cfg) (st' : Nat) (prev : Option (Nat × Nat)) :
    (⟨b, .failed st' prev⟩ : OCfg).pendingSt = some st' := rfl
theorem opendingSt_restoring (b : Cfg) (st' : Nat) (prev : Nat × Nat) :
    (⟨b, .restoring st' prev⟩ : OCfg).pendingSt = some st' := rfl

/-- **reapply_after_failed_sync**: a sync that succeeds after failed ones applies the whole pending
    list over an image that may already contain any part of it (possibly torn headers); the result
    is the same as applying the list once to the image before the failed syncs -/
theorem reapply_after_failed_sync (d i : Img) (ops : List TOp) (hc : CrashImg d ops i) :
    ops.foldl applyOp i = ops.foldl applyOp d :=
  reapply_crash d i ops hc

/-- **completed_sync_exact**: after every completed sync - whatever failed before - the real durable
    image is exactly the image the acceptor holds -/
theorem completed_sync_exact (reachOf : Nat → List (Nat × Hash)) (c c' : OCfg) (d d' : Img)
    (hs : OSafe reachOf c d) (h : c.step reachOf (.op .sync) = some c') (hd : DurStepOpt c d (.op .sync) d') :
    d' = c'.base.durable :=
  sync_exact reachOf c c' d d' hs h hd

/-- **crash_recovers_opt**: the analogue of `crash_recovers_fail` for the optimistic assumption and
    the permissive discipline: every crash image at every point of every execution of an accepted
    trace recovers the committed state or the in-flight / failed state (`ck.pendingSt`), complete. -/
theorem crash_recovers_opt (reachOf : Nat → List (Nat × Hash)) (c0 : OCfg) (d0 : Img) (h0 : OSafe reachOf c0 d0)
    (trace : List FOp) (cEnd : OCfg) (hacc : c0.run reachOf trace = some cEnd) (k : Nat) :
    ∃ ck, c0.run reachOf (trace.take k) = some ck ∧
      (∃ dk, ExecOpt (OCfg.step reachOf) c0 d0 (trace.take k) ck dk) ∧
      ∀ ck' dk, ExecOpt (OCfg.step reachOf) c0 d0 (trace.take k) ck' dk → ck' = ck ∧
        ∀ img, CrashImg dk ck.base.pending img →
          ∃ st, recover img = some st ∧ (st = ck.base.aSt ∨ ck.pendingSt = some st) ∧
            ∀ p h, (p, h) ∈ reachOf st → img.pages p = some h := by
  obtain ⟨ck, hk⟩ := orun_prefix reachOf trace c0 cEnd k hacc
  refine ⟨ck, hk, oexec_of_run reachOf _ c0 ck d0 hk, ?_⟩
  intro ck' dk hex
  have he : ck' = ck := by have := oexec_run reachOf hex; rw [hk] at this; cases this; rfl
  subst he
  exact ⟨rfl, fun img hc => osafe_crash reachOf ck' dk (osafe_exec reachOf hex h0) img hc⟩

/-- with no header in flight and no failed commit awaiting its restore (in particular after failed
    data syncs, and with idempotent restores pending) every crash image recovers the committed state -/
theorem crash_committed_only_opt (reachOf : Nat → List (Nat × Hash)) (c : OCfg) (d : Img) (hs : OSafe reachOf c d)
    (hph : c.phase = .normal) (hi : c.base.inflight = none) (img : Img) (hc : CrashImg d c.base.pending img) :
    recover img = some c.base.aSt ∧ ∀ p h, (p, h) ∈ reachOf c.base.aSt → img.pages p = some h := by
  obtain ⟨st, hr, hst, hpg⟩ := osafe_crash reachOf c d hs img hc
  have hn : c.pendingSt = none := by
    rcases c with ⟨b, ph⟩
    simp only at hph hi; subst hph; exact hi
  rcases hst with rfl | hst
  · exact ⟨hr, hpg⟩
  · rw [hn] at hst; cases hst

/-- **pattern1_accepted** (P1): in a safe configuration with no header in flight, the header write
    that rewrites the inactive slot with what it durably holds is accepted - marked as `restore` or
    unmarked - whatever is pending; it only joins the pending operations -/
theorem pattern1_accepted (reachOf : Nat → List (Nat × Hash)) (c : OCfg) (d : Img) (hs : OSafe reachOf c d)
    (hph : c.phase = .normal) (hi : c.base.inflight = none) (t st : Nat)
    (hm : c.base.durable.slots (1 - c.base.aSlot) = some (t, st)) :
    let c' : OCfg := { c with base := { c.base with pending := c.base.pending ++ [.hdr (1 - c.base.aSlot) t st] } }
    c.step reachOf (.restore (1 - c.base.aSlot) t st) = some c' ∧
    c.step reachOf (.op (.hdr (1 - c.base.aSlot) t st)) = some c' := by
  rcases c with ⟨b, ph⟩
  simp only at hph hi hm; subst hph
  have hlt : t < b.aTx := hs.mprev rfl t st hm
  have hne : (t == b.aTx + 1) = false := by simp; omega
  have hidem : (⟨b, .normal⟩ : OCfg).idemRestore (1 - b.aSlot) t st =
      some { base := { b with pending := b.pending ++ [.hdr (1 - b.aSlot) t st] }, phase := .normal } := by
    simp [OCfg.idemRestore, hi, hm]
  refine ⟨?_, ?_⟩
  · simp only [OCfg.step]; exact hidem
  · have hb : b.step reachOf (.hdr (1 - b.aSlot) t st) = none := by
      simp [Cfg.step, hne]
    simp only [OCfg.step, hb]; exact hidem

/-- F2' as a theorem about the acceptor -/
theorem failure_path_locked_opt (reachOf : Nat → List (Nat × Hash)) (c c' : OCfg) (op : FOp)
    (h : c.step reachOf op = some c') :
    (∀ st' prev, c.phase = .failed st' prev →
        (op = .op .sync ∨ op = .syncFail) ∨
        ∃ t st, (op = .restore (1 - c.base.aSlot) t st ∨ op = .op (.hdr (1 - c.base.aSlot) t st)) ∧
          prev = some (t, st) ∧ c'.phase = .restoring st' (t, st)) ∧
    (∀ st' prev, c.phase = .restoring st' prev → op = .op .sync ∨ op = .syncFail) := by
  rcases c with ⟨b, ph⟩
  have hr : ∀ st' prev s t st, (⟨b, .failed st' prev⟩ : OCfg).restoreStep s t st = some c' →
      s = 1 - b.aSlot ∧ prev = some (t, st) ∧ c'.phase = .restoring st' (t, st) := by
    intro st' prev s t st hh
    simp only [OCfg.restoreStep] at hh
    split at hh
    · rename_i hc
      simp only [Bool.and_eq_true, beq_iff_eq] at hc
      simp only [Option.some.injEq] at hh; subst hh
      exact ⟨hc.1, hc.2, rfl⟩
    · cases hh
  constructor
  · intro st' prev hph
    simp only at hph; subst hph
    cases op with
    | op o =>
      cases o with
      | hdr s t st =>
        obtain ⟨rfl, h2, h3⟩ := hr st' prev s t st (by simpa [OCfg.step] using h)
        exact Or.inr ⟨t, st, Or.inr rfl, h2, h3⟩
      | write p hh => simp [OCfg.step] at h
      | trunc n => simp [OCfg.step] at h
      | sync => exact Or.inl (Or.inl rfl)
    | syncFail => exact Or.inl (Or.inr rfl)
    | restore s t st =>
      obtain ⟨rfl, h2, h3⟩ := hr st' prev s t st (by simpa [OCfg.step] using h)
      exact Or.inr ⟨t, st, Or.inl rfl, h2, h3⟩
  · intro st' prev hph
    simp only at hph; subst hph
    cases op with
    | op o =>
      cases o with
      | sync => exact Or.inl rfl
      | hdr s t st => simp [OCfg.step] at h
      | write p hh => simp [OCfg.step] at h
      | trunc n => simp [OCfg.step] at h
    | syncFail => exact Or.inr rfl
    | restore s t st => simp [OCfg.step] at h

/-- **restore_completes_opt**: the first sync that succeeds after the restore was written (any number
    of failing syncs before it) ends the failure path: normal phase, committed (slot, txid, state)
    unchanged, nothing in flight, nothing pending; the real durable image IS the acceptor's image,
    its in-flight slot holds the restored old contents, and `Safe` of Model/Crash.lean holds of the
    acceptor's configuration - so `safe_run` / `crash_recovers` (C01) apply to the continuation. -/
theorem restore_completes_opt (reachOf : Nat → List (Nat × Hash)) (c : OCfg) (d : Img) (st' : Nat) (prev : Nat × Nat)
    (hs : OSafe reachOf c d) (hph : c.phase = .restoring st' prev) :
    ∃ c1, c.step reachOf (.op .sync) = some c1 ∧
      c1.phase = .normal ∧ c1.base.inflight = none ∧ c1.base.pending = [] ∧
      c1.base.aSlot = c.base.aSlot ∧ c1.base.aTx = c.base.aTx ∧ c1.base.aSt = c.base.aSt ∧
      ∀ d1, DurStepOpt c d (.op .sync) d1 →
        OSafe reachOf c1 d1 ∧ d1 = c1.base.durable ∧ d1.slots (1 - c.base.aSlot) = some prev ∧
        Safe reachOf c1.base := by
  rcases c with ⟨b, ph⟩
  simp only at hph; subst hph
  refine ⟨_, rfl, rfl, rfl, rfl, rfl, rfl, rfl, ?_⟩
  intro d1 hd1
  have hs1 := osafe_step reachOf _ _ d d1 (.op .sync) hs rfl hd1
  obtain ⟨he, hsafe⟩ := safe_of_osafe reachOf _ d1 hs1 rfl rfl
  refine ⟨hs1, he, ?_, hsafe⟩
  obtain ⟨tp, sp⟩ := prev
  obtain ⟨_, l, hp, _⟩ := hs.restP st' tp sp rfl
  simp only at hp
  simp only [DurStepOpt] at hd1
  rw [hd1, hp, List.foldl_append]
  simp [applyOp]

/-- **failed_attempt_never_resurfaces_opt**: after the completing sync, in every execution of every
    accepted continuation, at every point where no later commit has completed (same txid) and none
    is in flight, every crash image recovers the OLD committed state, complete. -/
theorem failed_attempt_never_resurfaces_opt (reachOf : Nat → List (Nat × Hash)) (c : OCfg) (d : Img)
    (st' : Nat) (prev : Nat × Nat) (hs : OSafe reachOf c d) (hph : c.phase = .restoring st' prev)
    (c1 : OCfg) (d1 : Img) (h1 : c.step reachOf (.op .sync) = some c1) (hd1 : DurStepOpt c d (.op .sync) d1)
    (ops : List FOp) (ck : OCfg) (dk : Img) (hex : ExecOpt (OCfg.step reachOf) c1 d1 ops ck dk)
    (hn : ck.phase = .normal) (hi : ck.base.inflight = none) (htx : ck.base.aTx = c.base.aTx)
    (img : Img) (hc : CrashImg dk ck.base.pending img) :
    recover img = some c.base.aSt ∧ ∀ p h, (p, h) ∈ reachOf c.base.aSt → img.pages p = some h := by
  obtain ⟨c1', h1', _, _, _, _, htx1, hst1, _⟩ := restore_completes_opt reachOf c d st' prev hs hph
  rw [h1] at h1'; cases h1'
  have hs1 := osafe_step reachOf _ _ d d1 (.op .sync) hs h1 hd1
  obtain ⟨_, heq⟩ := oexec_tx reachOf hex
  obtain ⟨kst, _⟩ := heq (by omega)
  have := crash_committed_only_opt reachOf ck dk (osafe_exec reachOf hex hs1) hn hi img hc
  rw [kst, hst1] at this
  exact this

/-- **continuation_crash_safe_opt**: after the completing sync every continuation that follows the
    discipline of Model/Crash.lean from the acceptor's configuration (= the real file) is crash safe
    in the sense of C01; the next commit takes slot `1 - aSlot` and txid `aTx + 1` again. -/
theorem continuation_crash_safe_opt (reachOf : Nat → List (Nat × Hash)) (c : OCfg) (d : Img)
    (st' : Nat) (prev : Nat × Nat) (hs : OSafe reachOf c d) (hph : c.phase = .restoring st' prev)
    (c1 : OCfg) (h1 : c.step reachOf (.op .sync) = some c1)
    (ops : List TOp) (cEnd : Cfg) (hacc : c1.base.run reachOf ops = some cEnd) (k : Nat) :
    ∃ ck, c1.base.run reachOf (ops.take k) = some ck ∧
      ∀ img, CrashImg ck.durable ck.pending img →
        ∃ st, recover img = some st ∧ (st = ck.aSt ∨ ck.inflight = some st) ∧
          ∀ p h, (p, h) ∈ reachOf st → img.pages p = some h := by
  obtain ⟨c1', h1', _, _, _, _, _, _, hall⟩ := restore_completes_opt reachOf c d st' prev hs hph
  rw [h1] at h1'; cases h1'
  obtain ⟨d1, hd1⟩ := odurStep_total c d (.op .sync)
  exact crash_recovers reachOf _ (hall d1 hd1).2.2.2 ops cEnd hacc k

/-- **cfg_traces_accepted**: every trace accepted by `Cfg.run` (no failures) is accepted by the new
    acceptor, ending in the same configuration -/
theorem cfg_traces_accepted (reachOf : Nat → List (Nat × Hash)) (c cEnd : Cfg) (ops : List TOp)
    (hacc : c.run reachOf ops = some cEnd) :
    (OCfg.ofCfg c).run reachOf (ops.map .op) = some (OCfg.ofCfg cEnd) :=
  orun_lift reachOf ops c cEnd hacc

theorem osafe_preserved (reachOf : Nat → List (Nat × Hash)) (c c' : OCfg) (d d' : Img) (ops : List FOp)
    (hs : OSafe reachOf c d) (hex : ExecOpt (OCfg.step reachOf) c d ops c' d') : OSafe reachOf c' d' :=
  osafe_exec reachOf hex hs

theorem osafe_start (reachOf : Nat → List (Nat × Hash)) (c : Cfg) (hs : Safe reachOf c) :
    OSafe reachOf (OCfg.ofCfg c) c.durable :=
  osafe_of_safe reachOf c hs

/-- closing the file anywhere on a failure path, or crashing: the file found at the next open is a
    safe starting configuration whose committed state is the recovered one -/
theorem recovered_operational_opt (reachOf : Nat → List (Nat × Hash)) (c : OCfg) (d : Img)
    (hs : OSafe reachOf c d) (img : Img) (hc : CrashImg d c.base.pending img) :
    ∃ a tx st, recover img = some st ∧ (st = c.base.aSt ∨ c.pendingSt = some st) ∧
      Safe reachOf { durable := img, pending := [], aSlot := a, aTx := tx, aSt := st, inflight := none } :=
  imgOk_restart hs.slotLe (hs.crashOk hc)

/-! ### the observed patterns are accepted -/

def oxInit : OCfg := OCfg.ofCfg (initCfg (fun _ => none))

theorem oxInit_safe : OSafe fxReach oxInit (initCfg (fun _ => none)).durable :=
  osafe_start fxReach _ (safe_init fxReach _ (by intro p hh h; simp [fxReach] at h))

/-- PATTERN 1: a page write of the commit fails (nothing further is logged), `restoreMeta` rewrites
    the inactive slot (0, 0) with its own contents - unmarked and marked -, the sync fails or not,
    and the next transaction commits normally -/
example : (oxInit.run fxReach [.op (.write 5 77), .op (.hdr 1 0 0), .op .sync,
    .op (.write 5 77), .op .sync, .op (.hdr 1 2 1), .op .sync]).isSome = true := by decide
example : (oxInit.run fxReach [.op (.write 5 77), .restore 1 0 0, .syncFail, .op (.write 5 77), .syncFail, .op .sync,
    .op (.hdr 1 2 1), .op .sync]).isSome = true := by decide
/-- ... but a commit header is not accepted while the idempotent restore is still pending -/
example : (oxInit.run fxReach [.op (.write 5 77), .op .sync, .restore 1 0 0, .op (.hdr 1 2 1)]).isSome = false := by
  decide

/-- PATTERN 2: `hdr new; syncFail; restore; syncFail; sync`, then truncate / page writes / next commit
    (which overwrites page 5 of the failed attempt and takes txid 2 and slot 1 again) -/
def oxTrace2 : List FOp :=
  [.op (.write 5 77), .op .sync, .op (.hdr 1 2 1), .syncFail, .restore 1 0 0, .syncFail, .op .sync,
   .op (.trunc 8), .op (.write 5 99), .op (.write 6 11), .op .sync, .op (.hdr 1 2 2), .op .sync]
example : (oxInit.run fxReach oxTrace2).map (fun c => (c.base.aSlot, c.base.aTx, c.base.aSt, c.phase)) =
    some (1, 2, 2, .normal) := by decide
/-- PATTERN 3: the same with more failing syncs in between -/
example : (oxInit.run fxReach [.op (.write 5 77), .op .sync, .op (.hdr 1 2 1), .syncFail, .op (.hdr 1 0 0),
    .syncFail, .syncFail, .syncFail, .op .sync, .op (.write 5 99), .op (.write 6 11), .op .sync,
    .op (.hdr 1 2 2), .op .sync]).isSome = true := by decide
/-- F1': the data sync fails, the transaction writes on and retries the sync -/
example : (oxInit.run fxReach [.op (.write 5 77), .syncFail, .op (.write 6 1), .syncFail, .op .sync,
    .op (.hdr 1 2 1), .op .sync]).isSome = true := by decide
/-- rejected: header right after a failed data sync (page 5 of state 1 is pending, not durable) -/
example : (oxInit.run fxReach [.op (.write 5 77), .syncFail, .op (.hdr 1 2 1)]).isSome = false := by decide
/-- the open-time max-size update (a header for the ACTIVE state, no sync before it) with a rollback's
    truncate still pending, also across a failing sync -/
example : ((OCfg.ofCfg mxInit).run mxReach [.op (.trunc 6), .op (.hdr 1 2 0), .op .sync]).isSome = true := by decide
example : ((OCfg.ofCfg mxInit).run mxReach [.op (.trunc 6), .syncFail, .op (.hdr 1 2 0), .syncFail, .restore 1 0 0,
    .op .sync, .op (.write 8 1)]).isSome = true := by decide
example : ((OCfg.ofCfg mxInit).run mxReach [.op (.write 3 99), .op (.hdr 1 2 0)]).isSome = false := by decide
/-- rejected: a page write before any sync has succeeded after the restore -/
example : (oxInit.run fxReach cxTrace).isSome = false := by decide
/-- rejected: restoring a copy of the active header -/
example : (oxInit.run fxReach [.op (.write 5 77), .op .sync, .op (.hdr 1 2 1), .syncFail, .restore 1 1 0]).isSome = false := by
  decide

/-! ### counterexample: no successful sync after the restore -/

/-- the lax variant (`OCfg.stepLax`: the engine goes on in phase `restoring`) accepts `cxTrace` =
    `write 5 77; sync; hdr 1 2 1; syncFail; restore 1 0 0; syncFail; write 5 99` -/
example : (oxInit.runLax fxReach cxTrace).isSome = true := by decide

/-- **lax_opt_not_crash_safe**: under the OPTIMISTIC assumption: the first failing sync makes the new
    header durable (`cxD2`), the second one makes nothing durable, the engine writes page 5 of the
    rolled-back transaction again; pending is `[hdr 1 2 1, hdr 1 0 0, write 5 99]`; a crash that
    keeps only the page write leaves an image in which recovery selects state 1 (the failed commit)
    with page 5 = 99 instead of 77. -/
theorem lax_opt_not_crash_safe :
    ∃ ck, ExecOpt (OCfg.stepLax fxReach) oxInit cxD0 cxTrace ck cxD2 ∧
      ck.base.pending = [.hdr 1 2 1, .hdr 1 0 0, .write 5 99] ∧
      CrashImg cxD2 ck.base.pending cxImg ∧
      recover cxImg = some 1 ∧ ck.base.aSt = 0 ∧ (5, 77) ∈ fxReach 1 ∧ cxImg.pages 5 = some 99 := by
  apply Exists.intro
  refine ⟨?_, ?_, ?_, by decide, ?_, by decide, by decide⟩
  · exact .cons rfl rfl (.cons rfl rfl (.cons rfl rfl
      (.cons rfl (.keep (.nil _)) (.cons rfl rfl
      (.cons rfl (.drop (.drop (.nil _))) (.cons rfl rfl (.nil _ _)))))))
  · rfl
  · exact .drop (.drop (.keep (.nil _)))
  · rfl

end TxVerif
