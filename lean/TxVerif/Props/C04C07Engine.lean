/-
  C04 and C07 at the level of the engine model, derived from the refinement machinery of C03
  (Proofs/Refine.lean: `EngInv`, `TxInv`, `runEOps`; Proofs/RefineMore.lean: the helper lemmas used here).

  A write transaction is `ERunSt.start f live ov g wl` followed by any list of operations `EOp`
  (Props/C03Refine.lean); `live` are the pages the client owns in the committed state `f`.

  C04  exclusive page ownership
    c04_alloc_fresh                   in every reachable state of a transaction `txAlloc` returns only unused pages
    c04_owned_never_returned          in particular never a page the client owns (no id twice while in use)
    c04_content_only_by_write         commit: a live page no operation writes or frees keeps its content
    c04_content_only_by_write_abort   abort: every live page keeps its content
    c04_content_only_by_write_failed  failed commit: every live page keeps its content
    c04_history_alloc_fresh_partial   the same freshness in every transaction of a history (overflow = false)

  C07  Rollback / Close without Commit / failed Commit leave no trace
    c07_abort_identity_engine         abort: every field of the file state except `disk` is restored; the disk is
                                      restored at every page a live page id is read from
    c07_failed_commit_identity_engine the same for a failing commit
    c07_next_tx_identical             the next transaction on the aborted state: same `TxSt` at begin, and after any
                                      operation list the same observation (`ERunSt.obs`: transaction state, owned
                                      pages, abstract store on the owned pages, file state without the disk)
    c07_next_tx_identical_failed      the same after a failing commit
    c07_next_tx_reads / _allocs       `Page.Bytes` returns the same content, `Alloc` the same ids
    c07_next_tx_commit                the final flush and the commit of the next transaction have the same outcome

  What is NOT restored: `disk` at pages no live page id is read from (pages the aborted transaction
  allocated and flushed, overwrite pages it wrote, original pages a checkpoint copied back to — see the
  example at the end of the C07 part). Such a page is never read by a later transaction before that
  transaction writes it; the one observable consequence: a page that a later transaction allocates and
  commits WITHOUT writing it has undetermined content (`σ = none` in the abstract store).
-/
import TxVerif.Proofs.RefineMore
import TxVerif.Props.C03Refine
namespace TxVerif

/-! ## C04 -/

/-- **C04, freshness of allocated pages**: in every state `s` a write transaction can reach from a
    committed state satisfying `EngInv`, `Tx.Alloc/AllocN` (`txAlloc`) returns exactly `n` pairwise
    distinct page ids, each of them
    * not a header page (`2 ≤ x`),
    * not owned by the client now (`s.cur` = live + allocated − freed),
    * not a page of the committed state (`live`) — hence not a committed page this transaction freed,
    * not used internally by the committed state (overwrite pages, mapping pages, free-list pages),
    * not an overwrite page taken by the running transaction,
    * not a page the running transaction freed and that is still waiting for the commit. -/
theorem c04_alloc_fresh (f : FileSt) (live : List Nat) (he : EngInv f live) (ov : Bool) (g wl : Nat)
    (ops : List EOp) (n : Nat) (f' : FileSt) (tx' : TxSt) (ids : List Nat)
    (h : txAlloc (runEOps (ERunSt.start f live ov g wl) ops).f (runEOps (ERunSt.start f live ov g wl) ops).tx n
      = .ok (f', tx', ids)) :
    let s := runEOps (ERunSt.start f live ov g wl) ops
    ids.length = n ∧ ids.Nodup ∧
    ∀ x ∈ ids, 2 ≤ x ∧ x ∉ s.cur ∧ x ∉ live ∧
      x ∉ f.walMap.map (·.2) ∧ x ∉ f.walPages ∧ x ∉ f.alloc.freelistPages ∧
      x ∉ s.tx.walNew.map (·.2) ∧ x ∉ s.tx.ta.data.freed := by
  intro s
  have hr := runinv_ops he ops _ (runInv_start f live he ov g wl)
  obtain ⟨h1, h2, h3⟩ := alloc_fresh_tx he hr.tx n f' tx' ids h
  refine ⟨h1, h2, fun x hx => ?_⟩
  obtain ⟨a, b, c, d, e, g', -⟩ := h3 x hx
  have hi := fun hc => d ((mem_internal f x).mpr hc)
  exact ⟨a, b, c, fun hc => hi (Or.inl hc), fun hc => hi (Or.inr (Or.inl hc)),
    fun hc => hi (Or.inr (Or.inr hc)), e, g'⟩

/-- **C04, no id twice while in use**: a page the client owns (allocated earlier in this transaction
    or live in the committed state, and not freed since) is never returned by a later allocation. -/
theorem c04_owned_never_returned (f : FileSt) (live : List Nat) (he : EngInv f live) (ov : Bool) (g wl : Nat)
    (ops : List EOp) (n : Nat) (f' : FileSt) (tx' : TxSt) (ids : List Nat)
    (h : txAlloc (runEOps (ERunSt.start f live ov g wl) ops).f (runEOps (ERunSt.start f live ov g wl) ops).tx n
      = .ok (f', tx', ids)) :
    ∀ x ∈ (runEOps (ERunSt.start f live ov g wl) ops).cur, x ∉ ids :=
  fun x hx hc => ((c04_alloc_fresh f live he ov g wl ops n f' tx' ids h).2.2 x hc).2.1 hx

/-- **C04, content changes only through a write (commit)**: across a whole transaction that commits, a
    page of the committed state that no operation of the transaction writes or frees (`EOp.touches`)
    reads the same afterwards — whatever was allocated, flushed, redirected or checkpointed meanwhile.
    (This is `c03_untouched_kept`.) -/
theorem c04_content_only_by_write (f : FileSt) (live : List Nat) (he : EngInv f live) (ov : Bool) (g wl : Nat)
    (ops : List EOp) (order : List Nat) (f2 : FileSt) (tx2 : TxSt) (ws : List (Nat × Nat))
    (hflush : flushList (runEOps (ERunSt.start f live ov g wl) ops).f (runEOps (ERunSt.start f live ov g wl) ops).tx
      order = .ok (f2, tx2, ws))
    (hall : tx2.unflushed = []) (hok : (commitAfterFlush f2 tx2).2.1 = .ok)
    (id : Nat) (hid : id ∈ live) (hun : ∀ op ∈ ops, op.touches id = false) :
    (commitAfterFlush f2 tx2).1.readPage id = f.readPage id :=
  c03_untouched_kept f live he ov g wl ops order f2 tx2 ws hflush hall hok id hid hun

/-- **C04, abort**: a transaction that ends without commit changes no live page, whatever it wrote. -/
theorem c04_content_only_by_write_abort (f : FileSt) (live : List Nat) (he : EngInv f live) (ov : Bool)
    (g wl : Nat) (ops : List EOp) :
    let s := runEOps (ERunSt.start f live ov g wl) ops
    ∀ id ∈ live, (txAbort s.f s.tx).readPage id = f.readPage id :=
  (c03_abort_restores f live he ov g wl ops).2.2.2

/-- **C04, failed commit**: a transaction whose commit fails changes no live page. -/
theorem c04_content_only_by_write_failed (f : FileSt) (live : List Nat) (he : EngInv f live) (ov : Bool)
    (g wl : Nat) (ops : List EOp) (order : List Nat) (f2 : FileSt) (tx2 : TxSt) (ws : List (Nat × Nat))
    (hflush : flushList (runEOps (ERunSt.start f live ov g wl) ops).f (runEOps (ERunSt.start f live ov g wl) ops).tx
      order = .ok (f2, tx2, ws))
    (hall : tx2.unflushed = []) (hfail : (commitAfterFlush f2 tx2).2.1 ≠ .ok) :
    ∀ id ∈ live, (commitAfterFlush f2 tx2).1.readPage id = f.readPage id :=
  (c03_failed_commit_restores f live he ov g wl ops order f2 tx2 ws hflush hall hfail).2.2

/-- **C04 over histories** (partial in the sense of `c03_history_partial`: every transaction of the
    history is begun with `overflow = false`): after any history `pre` of write transactions (committed,
    failed or rolled back), every allocation at any point `ops` of the next transaction is fresh with
    respect to the committed state reached and the pages the client owns then. -/
theorem c04_history_alloc_fresh_partial (s0 : FileSt × List Nat) (he : EngInv s0.1 s0.2) (pre : List Txn)
    (g wl : Nat) (ops : List EOp) (n : Nat) (f' : FileSt) (tx' : TxSt) (ids : List Nat)
    (h : txAlloc (runEOps (ERunSt.start (runHistory s0 pre).1 (runHistory s0 pre).2 false g wl) ops).f
      (runEOps (ERunSt.start (runHistory s0 pre).1 (runHistory s0 pre).2 false g wl) ops).tx n = .ok (f', tx', ids)) :
    let c := runHistory s0 pre
    let s := runEOps (ERunSt.start c.1 c.2 false g wl) ops
    ids.length = n ∧ ids.Nodup ∧
    ∀ x ∈ ids, 2 ≤ x ∧ x ∉ s.cur ∧ x ∉ c.2 ∧
      x ∉ c.1.walMap.map (·.2) ∧ x ∉ c.1.walPages ∧ x ∉ c.1.alloc.freelistPages ∧
      x ∉ s.tx.walNew.map (·.2) ∧ x ∉ s.tx.ta.data.freed :=
  c04_alloc_fresh _ _ (c03_history_partial s0 he pre) false g wl ops n f' tx' ids h

/-! ## C07 -/

theorem sameCommitted_of_abort (f : FileSt) (live : List Nat) (he : EngInv f live) (ov : Bool) (g wl : Nat)
    (ops : List EOp) :
    SameCommitted f live (txAbort (runEOps (ERunSt.start f live ov g wl) ops).f
      (runEOps (ERunSt.start f live ov g wl) ops).tx) :=
  sameCommitted_abort he (runinv_ops he ops _ (runInv_start f live he ov g wl)).tx
    (runOps_hdr ops (ERunSt.start f live ov g wl))

theorem sameCommitted_of_failed (f : FileSt) (live : List Nat) (he : EngInv f live) (ov : Bool) (g wl : Nat)
    (ops : List EOp) (order : List Nat) (f2 : FileSt) (tx2 : TxSt) (ws : List (Nat × Nat))
    (hflush : flushList (runEOps (ERunSt.start f live ov g wl) ops).f (runEOps (ERunSt.start f live ov g wl) ops).tx
      order = .ok (f2, tx2, ws))
    (hall : tx2.unflushed = []) (hfail : (commitAfterFlush f2 tx2).2.1 ≠ .ok) :
    SameCommitted f live (commitAfterFlush f2 tx2).1 := by
  have hr := runinv_ops he ops _ (runInv_start f live he ov g wl)
  obtain ⟨h2, -⟩ := txinv_flushList he order _ _ hr.tx f2 tx2 ws hflush
  exact sameCommitted_failed he h2
    (sameHdr_trans (runOps_hdr ops (ERunSt.start f live ov g wl)) (flushList_hdr order _ _ _ _ _ hflush))
    (allFlushed_of_unflushed tx2 hall) hfail

/-- what "as if the transaction had never run" means for a file state `f1` compared with `f`: all fields
    but the disk are equal, the disk is equal at every page a live page id is read from (so every live
    page reads the same), and the invariant of a committed state holds -/
def Restored (f : FileSt) (live : List Nat) (f1 : FileSt) : Prop :=
  f1.alloc = f.alloc ∧ f1.walMap = f.walMap ∧ f1.walPages = f.walPages ∧ f1.root = f.root ∧
  f1.txid = f.txid ∧ f1.statData = f.statData ∧
  (∀ id ∈ live, f1.diskAt (f.physOf id) = f.diskAt (f.physOf id)) ∧
  (∀ id ∈ live, f1.readPage id = f.readPage id) ∧ EngInv f1 live

theorem restored_of_same {f : FileSt} {live : List Nat} {f1 : FileSt} (he : EngInv f live)
    (h : SameCommitted f live f1) : Restored f live f1 :=
  ⟨h.alloc, h.walMap, h.hdr.2.2.2, h.hdr.1, h.hdr.2.1, h.hdr.2.2.1, h.disk, sameCommitted_read h,
    sameCommitted_engInv he h⟩

/-- **C07, abort is the identity (engine)**: ending a write transaction without commit — Rollback or
    Close, after any operations, flushes and checkpoints — restores the allocator (free lists, end
    markers, meta area), the overwrite mapping, the mapping pages, root, transaction id and statistic
    exactly, and the disk at every page a live page id is read from. The disk content of other pages
    (pages the transaction allocated, overwrite pages it took, original pages a checkpoint copied back
    to) is NOT restored; no live page id is read from such a page. -/
theorem c07_abort_identity_engine (f : FileSt) (live : List Nat) (he : EngInv f live) (ov : Bool) (g wl : Nat)
    (ops : List EOp) :
    let s := runEOps (ERunSt.start f live ov g wl) ops
    Restored f live (txAbort s.f s.tx) :=
  restored_of_same he (sameCommitted_of_abort f live he ov g wl ops)

/-- **C07, a failed commit is the identity (engine)**: the same when `commitAfterFlush` fails (no space
    for the mapping or the free lists), also when it already ran its checkpoint. -/
theorem c07_failed_commit_identity_engine (f : FileSt) (live : List Nat) (he : EngInv f live) (ov : Bool)
    (g wl : Nat) (ops : List EOp) (order : List Nat) (f2 : FileSt) (tx2 : TxSt) (ws : List (Nat × Nat))
    (hflush : flushList (runEOps (ERunSt.start f live ov g wl) ops).f (runEOps (ERunSt.start f live ov g wl) ops).tx
      order = .ok (f2, tx2, ws))
    (hall : tx2.unflushed = []) (hfail : (commitAfterFlush f2 tx2).2.1 ≠ .ok) :
    Restored f live (commitAfterFlush f2 tx2).1 :=
  restored_of_same he (sameCommitted_of_failed f live he ov g wl ops order f2 tx2 ws hflush hall hfail)

/-! ### the next transaction -/

/-- what can be observed of a running transaction: the whole in-memory transaction state, the pages the
    client owns, the abstract store on those pages, and the file state with the disk erased (allocator,
    mapping, mapping pages, root, transaction id, statistic) -/
structure EObs where
  tx : TxSt
  cur : List Nat
  view : List (Option Content)
  file : FileSt

def ERunSt.obs (s : ERunSt) : EObs :=
  { tx := s.tx, cur := s.cur, view := s.cur.map s.σ, file := s.f.wd [] }

theorem obs_of_sim {S : Nat → Prop} {s1 s2 : ERunSt} (h : Sim S s1 s2) : s1.obs = s2.obs := by
  have e : s1.f.wd [] = s2.f.wd [] := congrArg (fun x => x.wd []) h.f
  have v : s1.cur.map s1.σ = s2.cur.map s2.σ := by
    rw [h.cur]; exact List.map_congr_left h.σ
  unfold ERunSt.obs
  rw [h.tx, e, v, h.cur]

/-- a transaction on a restored state runs in lockstep with the same transaction on the original state -/
theorem next_tx_sim {f : FileSt} {live : List Nat} {f1 : FileSt} (he : EngInv f live)
    (h : SameCommitted f live f1) (ov : Bool) (g wl : Nat) (ops2 : List EOp) :
    Sim (liveAt f live) (runEOps (ERunSt.start f1 live ov g wl) ops2)
      (runEOps (ERunSt.start f live ov g wl) ops2) :=
  sim_run he ops2 _ _ (runInv_start f live he ov g wl) (sim_start h ov g wl)

/-- **C07, the next transaction is identical**: after a transaction that ended without commit, a new
    write transaction (any options `ov2 g2 wl2`) starts with the same in-memory state as on the
    original file, and after every operation list `ops2` everything observable is the same: the
    transaction state (pages, allocator undo state, overwrite pages), the pages the client owns — so
    every allocation returned the same ids —, the content of every owned page as the transaction sees
    it, and all of the file state except the disk. -/
theorem c07_next_tx_identical (f : FileSt) (live : List Nat) (he : EngInv f live) (ov : Bool) (g wl : Nat)
    (ops : List EOp) (ov2 : Bool) (g2 wl2 : Nat) :
    let s := runEOps (ERunSt.start f live ov g wl) ops
    (txAbort s.f s.tx).beginTx ov2 g2 wl2 = f.beginTx ov2 g2 wl2 ∧
    ∀ ops2 : List EOp, (runEOps (ERunSt.start (txAbort s.f s.tx) live ov2 g2 wl2) ops2).obs =
      (runEOps (ERunSt.start f live ov2 g2 wl2) ops2).obs := by
  intro s
  have h := sameCommitted_of_abort f live he ov g wl ops
  exact ⟨sameCommitted_begin h ov2 g2 wl2, fun ops2 => obs_of_sim (next_tx_sim he h ov2 g2 wl2 ops2)⟩

/-- **C07, the next transaction after a failed commit is identical** -/
theorem c07_next_tx_identical_failed (f : FileSt) (live : List Nat) (he : EngInv f live) (ov : Bool)
    (g wl : Nat) (ops : List EOp) (order : List Nat) (f2 : FileSt) (tx2 : TxSt) (ws : List (Nat × Nat))
    (hflush : flushList (runEOps (ERunSt.start f live ov g wl) ops).f (runEOps (ERunSt.start f live ov g wl) ops).tx
      order = .ok (f2, tx2, ws))
    (hall : tx2.unflushed = []) (hfail : (commitAfterFlush f2 tx2).2.1 ≠ .ok) (ov2 : Bool) (g2 wl2 : Nat) :
    (commitAfterFlush f2 tx2).1.beginTx ov2 g2 wl2 = f.beginTx ov2 g2 wl2 ∧
    ∀ ops2 : List EOp, (runEOps (ERunSt.start (commitAfterFlush f2 tx2).1 live ov2 g2 wl2) ops2).obs =
      (runEOps (ERunSt.start f live ov2 g2 wl2) ops2).obs := by
  have h := sameCommitted_of_failed f live he ov g wl ops order f2 tx2 ws hflush hall hfail
  exact ⟨sameCommitted_begin h ov2 g2 wl2, fun ops2 => obs_of_sim (next_tx_sim he h ov2 g2 wl2 ops2)⟩

theorem sameCommitted_of_restored {f : FileSt} {live : List Nat} {f1 : FileSt} (h : Restored f live f1) :
    SameCommitted f live f1 :=
  ⟨h.1, h.2.1, ⟨h.2.2.2.1, h.2.2.2.2.1, h.2.2.2.2.2.1, h.2.2.1⟩, h.2.2.2.2.2.2.1⟩

/-- **C07, same reads**: on a restored file state `f1` (what `c07_abort_identity_engine` /
    `c07_failed_commit_identity_engine` deliver), at every point `ops2` of the next transaction,
    `Page.Bytes` of an owned page returns the same result (content or error) as on the original file. -/
theorem c07_next_tx_reads (f : FileSt) (live : List Nat) (he : EngInv f live) (f1 : FileSt)
    (hr : Restored f live f1) (ov : Bool) (g wl : Nat) (ops2 : List EOp) (id : Nat)
    (hid : id ∈ (runEOps (ERunSt.start f live ov g wl) ops2).cur) :
    txRead (runEOps (ERunSt.start f1 live ov g wl) ops2).f (runEOps (ERunSt.start f1 live ov g wl) ops2).tx id =
    txRead (runEOps (ERunSt.start f live ov g wl) ops2).f (runEOps (ERunSt.start f live ov g wl) ops2).tx id := by
  have hs := next_tx_sim he (sameCommitted_of_restored hr) ov g wl ops2
  have hi := runinv_ops he ops2 _ (runInv_start f live he ov g wl)
  rw [hs.tx, hs.f]
  refine txRead_wd hi.tx _ (fun i hi' => ?_) id hid
  rw [← hs.f]
  exact hs.disk _ ⟨i, hi', rfl⟩

/-- **C07, same page ids**: at every point of the next transaction `Alloc/AllocN` fails in the same way
    or returns the same page ids and the same transaction state as on the original file. -/
theorem c07_next_tx_allocs (f : FileSt) (live : List Nat) (he : EngInv f live) (f1 : FileSt)
    (hr : Restored f live f1) (ov : Bool) (g wl : Nat) (ops2 : List EOp) (n : Nat) :
    let s1 := runEOps (ERunSt.start f1 live ov g wl) ops2
    let s2 := runEOps (ERunSt.start f live ov g wl) ops2
    (∀ e, txAlloc s2.f s2.tx n = .error e → txAlloc s1.f s1.tx n = .error e) ∧
    (∀ f' tx' ids, txAlloc s2.f s2.tx n = .ok (f', tx', ids) →
      ∃ f1', txAlloc s1.f s1.tx n = .ok (f1', tx', ids) ∧ f1'.wd [] = f'.wd []) := by
  intro s1 s2
  have hs : Sim (liveAt f live) s1 s2 := next_tx_sim he (sameCommitted_of_restored hr) ov g wl ops2
  have h1 := txAlloc_wd s2.f s1.f.disk s2.tx n
  rw [hs.tx, hs.f]
  constructor
  · intro e h
    rw [h] at h1
    exact h1
  · intro f' tx' ids h
    rw [h] at h1
    obtain ⟨d', e1, -⟩ := h1
    exact ⟨_, e1, rfl⟩

/-- **C07, same commit**: the final flush (any order) and the commit of the next transaction on a
    restored file state have the same outcome as on the original file: same error, or the same
    transaction state, written pages, commit result and copied-back pages; the committed file states are
    equal up to the disk, and after a successful commit every owned page whose content the transaction
    determined (`σ id = some c`: written, or untouched committed page) reads `c` on both.
    (An owned page that was allocated and never written has no determined content.) -/
theorem c07_next_tx_commit (f : FileSt) (live : List Nat) (he : EngInv f live) (f1 : FileSt)
    (hr : Restored f live f1) (ov : Bool) (g wl : Nat) (ops2 : List EOp) (order : List Nat) :
    let s1 := runEOps (ERunSt.start f1 live ov g wl) ops2
    let s2 := runEOps (ERunSt.start f live ov g wl) ops2
    (∀ e, flushList s2.f s2.tx order = .error e → flushList s1.f s1.tx order = .error e) ∧
    (∀ f2 tx2 ws, flushList s2.f s2.tx order = .ok (f2, tx2, ws) →
      ∃ f2', flushList s1.f s1.tx order = .ok (f2', tx2, ws) ∧ f2'.wd [] = f2.wd [] ∧
        (commitAfterFlush f2' tx2).2 = (commitAfterFlush f2 tx2).2 ∧
        (commitAfterFlush f2' tx2).1.wd [] = (commitAfterFlush f2 tx2).1.wd [] ∧
        (tx2.unflushed = [] → (commitAfterFlush f2 tx2).2.1 = .ok →
          ∀ id ∈ s2.cur, ∀ c, s2.σ id = some c →
            (commitAfterFlush f2' tx2).1.readPage id = c ∧ (commitAfterFlush f2 tx2).1.readPage id = c)) := by
  intro s1 s2
  have hs : Sim (liveAt f live) s1 s2 := next_tx_sim he (sameCommitted_of_restored hr) ov g wl ops2
  have hi : RunInv f live s2 := runinv_ops he ops2 _ (runInv_start f live he ov g wl)
  have h1 := flushList_wd order s2.f s1.f.disk s2.tx
  have hd : ∀ y, liveAt f live y → (s2.f.wd s1.f.disk).diskAt y = s2.f.diskAt y := by
    intro y hy; rw [← hs.f]; exact hs.disk y hy
  constructor
  · intro e h
    rw [h] at h1
    rw [hs.tx, hs.f]; exact h1
  · intro f2 tx2 ws h
    rw [h] at h1
    obtain ⟨d', e1, a1⟩ := h1
    have hfl1 : flushList s1.f s1.tx order = .ok (f2.wd d', tx2, ws) := by rw [hs.tx, hs.f]; exact e1
    have hmap : f2.walMap = f.walMap := (txinv_flushList he order _ _ hi.tx f2 tx2 ws h).1.sameMap
    obtain ⟨d'', e2, -⟩ := commit_wd (liveAt f live) f2 d' tx2 (by rw [hmap]; exact walMap_liveAt he)
      (fun y hy => a1 y (hd y hy))
    refine ⟨f2.wd d', hfl1, rfl, by rw [e2], by rw [e2]; rfl, ?_⟩
    intro hall hok id hid c hc
    have hok1 : (commitAfterFlush (f2.wd d') tx2).2.1 = .ok := by rw [e2]; exact hok
    have hid1 : id ∈ s1.cur := by rw [hs.cur]; exact hid
    have hc1 : s1.σ id = some c := by rw [hs.σ id hid]; exact hc
    exact ⟨c03_commit_publishes f1 live hr.2.2.2.2.2.2.2.2 ov g wl ops2 order (f2.wd d') tx2 ws hfl1 hall hok1
        id hid1 c hc1,
      c03_commit_publishes f live he ov g wl ops2 order f2 tx2 ws h hall hok id hid c hc⟩

/-! ### what is not restored: a concrete run -/

/-- a transaction on `exFile` (Props/C03Refine.lean) that allocates page 8, writes and flushes it, and is
    rolled back -/
def exAborted : FileSt :=
  let s := runEOps (ERunSt.start exFile [3, 4] false 0 0) [.alloc 1, .write 8 .full 5, .flushPage 8]
  txAbort s.f s.tx

/-- the allocator is restored, the disk is not: page 8 keeps what the rolled back transaction wrote -/
example : exAborted.alloc = exFile.alloc ∧ exAborted.disk ≠ exFile.disk ∧
    exAborted.diskAt 8 = Content.full 8 5 ∧ exFile.diskAt 8 = {} := by decide

/-- the only observable trace: the next transaction gets the same page id 8 on both files; if it commits
    the page without writing it, the page reads differently. Its content is not determined by the
    transaction (`σ 8 = none`), so no theorem above is contradicted. -/
example :
    let r1 := runEOps (ERunSt.start exAborted [3, 4] false 0 0) [.alloc 1]
    let r2 := runEOps (ERunSt.start exFile [3, 4] false 0 0) [.alloc 1]
    decide (r1.cur = [3, 4, 8]) && decide (r2.cur = [3, 4, 8]) && decide (r1.tx = r2.tx) &&
    decide (r2.σ 8 = none) &&
    decide ((commitAfterFlush r1.f r1.tx).2.1 = .ok) && decide ((commitAfterFlush r2.f r2.tx).2.1 = .ok) &&
    decide ((commitAfterFlush r1.f r1.tx).1.readPage 8 = Content.full 8 5) &&
    decide ((commitAfterFlush r2.f r2.tx).1.readPage 8 = {}) = true := by decide

end TxVerif
