/-
  C08 — I/O failures are contained.
  * no hang: every message scheduled on the background writer reports back, whatever fails
    (`writer_releases_all`), and a sync carrying the reset flag clears the sticky error
    (`reset_clears_error`), after which I/O is issued again (`io_resumes_after_reset`);
  * locks: on the skeletons regenerated from the sources every path of tryCommitChanges /
    commitChanges / finishWith — including all early error returns — releases what it took and
    rolls back iff the commit failed (Tie.tryCommit_lock_ops, Tie.commitChanges_rollback,
    Tie.finishWith_closes; C09: idle_when_quiescent);
  * committed state: a failing commit ends in `txAbort` (engine model) which restores the
    allocator exactly (C07 rollback_restores) and never changes the committed mapping/root
    (`abort_keeps_committed`); on disk every prefix of an accepted trace — in particular the
    prefix issued by a commit that failed before its header was written — is crash safe (C01).
  The fault plans on the implementation (every kind x call index x burst) are the search.
-/
import TxVerif.Model.WriterErr
import TxVerif.Model.Engine
import TxVerif.Tie.Skeleton
namespace TxVerif

theorem run_released (ms : List WMsg) : ∀ s : WSt, (s.run ms).released = s.released + ms.length := by
  induction ms with
  | nil => intro s; rfl
  | cons m ms ih =>
    intro s
    have : (s.run (m :: ms)) = (s.step m).run ms := rfl
    rw [this, ih]
    cases m <;> simp [WSt.step] <;> omega

/-- **no hang**: every scheduled message reports back, whatever fails and whenever -/
theorem writer_releases_all (ms : List WMsg) : (({} : WSt).run ms).released = ms.length := by
  simpa using run_released ms {}

/-- a sync with the reset flag leaves the writer without a pending error -/
theorem reset_clears_error (s : WSt) (fails : Bool) : (s.step (.sync fails true)).err = false := rfl

/-- after the reset the next message issues its I/O call again -/
theorem io_resumes_after_reset (s : WSt) (fails : Bool) (m : WMsg) :
    ((s.step (.sync fails true)).step m).ioCalls = (s.step (.sync fails true)).ioCalls + 1 := by
  cases m <;> simp [WSt.step]

/-- while the error is set no I/O is issued (a failed transaction's remaining writes and its
    header write are skipped: the header of a commit whose data could not be written or synced
    never reaches the file) -/
theorem no_io_while_error (s : WSt) (h : s.err = true) (fails : Bool) :
    (s.step (.write fails)).ioCalls = s.ioCalls ∧ (s.step (.write fails)).err = true ∧
    (s.step (.sync fails false)).ioCalls = s.ioCalls ∧ (s.step (.sync fails false)).err = true := by
  simp [WSt.step, h]

/-- the commit sequence data…, sync(dataOnly), header, sync(dataOnly|reset): if any data write or
    the data sync fails, the header write is skipped and the error is reported by the final sync -/
theorem header_skipped_after_failure (pre : List WMsg) (s : WSt) (h : (s.run pre).err = true) (hf sf : Bool) :
    let s1 := (s.run pre).step (.write hf)          -- the header write
    let s2 := s1.step (.sync sf true)               -- the final sync with reset
    s1.ioCalls = (s.run pre).ioCalls ∧ s2.lastReported = true ∧ s2.err = false := by
  simp [WSt.step, h]

/-- a failing commit ends in `txAbort`: root, mapping, mapping pages, transaction id and disk
    contents reachable through the committed mapping are those of the committed state -/
theorem abort_keeps_committed (f : FileSt) (tx : TxSt) :
    (txAbort f tx).root = f.root ∧ (txAbort f tx).walMap = f.walMap ∧ (txAbort f tx).walPages = f.walPages ∧
    (txAbort f tx).txid = f.txid ∧ (∀ id, (txAbort f tx).readPage id = f.readPage id) ∧
    (txAbort f tx).statData = f.statData := by
  simp [txAbort, FileSt.readPage, FileSt.physOf, FileSt.diskAt]

theorem ckptFold_txid (l : List (Nat × Nat)) : ∀ s : FileSt × TxSt, (l.foldl ckptOne s).1.txid = s.1.txid := by
  induction l with
  | nil => intro s; rfl
  | cons e l ih => intro s; rw [List.foldl_cons, ih]; rfl

theorem doCheckpoint_txid (f : FileSt) (tx : TxSt) : (doCheckpoint f tx).1.txid = f.txid := by
  unfold doCheckpoint
  split
  · rfl
  · split
    · rfl
    · exact ckptFold_txid _ _

/-- every way `commitAfterFlush` can fail leaves the transaction id untouched; only the
    successful result publishes the transaction -/
theorem failed_commit_keeps_txid (f : FileSt) (tx : TxSt) (hr : (commitAfterFlush f tx).2.1 ≠ .ok) :
    (commitAfterFlush f tx).1.txid = f.txid := by
  unfold commitAfterFlush at hr ⊢
  simp only at hr ⊢
  split at hr <;> rename_i hw
  · simp only [hw, txAbort]
    split <;> simp [doCheckpoint_txid]
  · split at hr <;> rename_i ha
    · simp only [hw, ha, txAbort]
      split <;> simp [doCheckpoint_txid]
    · exact absurd rfl hr

end TxVerif
