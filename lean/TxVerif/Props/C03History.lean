/-
  C03 / C04 / C07 over histories of write transactions WITH the overflow area
  (`TxOptions.EnableOverflowArea`; the queue's ACK transactions use it).

  Props/C03Refine.lean proves the per-transaction statements for any overflow flag, but re-establishes
  the invariant `EngInv` after a successful commit only for `overflow = false`
  (`c03_commit_invariant_partial`, `c03_history_partial`): a committed overflow transaction leaves meta
  pages beyond `maxPages` (`EngInv.noOv` fails) and, once a later commit releases a part of the overflow
  area, even `data.endMarker > maxPages` (`WF.limit` fails; the data end marker may then also lie above
  the meta end marker).  This file removes the restriction.

  `EngInvO f live` (= `Ov.EngInv`, Proofs/RefineOv1.lean) is the generalised invariant:
    * the limit clauses `data.endMarker ≤ maxPages` and `mta.endMarker ≤ maxPages` are gone; instead every
      free data page and every page the client owns lies below the limit (`wf.limit`, `liveLim`),
    * `ends` has a third alternative (both end markers at or above the limit),
    * "internal pages / free meta pages are not header pages" is kept under `Ov.HdrCfg`
      (`maxPages = 0 ∨ 2 < maxPages`: every file that can hold a data page at all), `lim2` is configuration.
  Everything else (`InUse` frame, mapping sanity, accounting `total`) is as in `EngInv`.

  Theorems
    engInvO_of_engInv                 (1) `EngInv → EngInvO`
    engInvO_create_any                (2) created files
    c03o_commit_invariant             (3) successful commit, ANY overflow flag  (the missing case)
    c03o_abort_restores, c03o_failed_commit_restores    (3) rollback / failing commit
    c03_history                       (3) `EngInvO` along any history of transactions, each with its own flag
    c03o_commit_publishes, c03o_last_write(_full), c03o_untouched_kept          (4) per transaction, from `EngInvO`
    c04o_alloc_fresh, c04o_owned_never_returned, c07o_abort_identity_engine,
    c07o_failed_commit_identity_engine, c07o_next_tx_identical(_failed)          (4)
    c03_history_publishes / c03_history_untouched      C03 for every transaction of a history
    c04_history_alloc_fresh                            C04 for every transaction of a history
    c07_history_restored / c07_history_next_identical  C07 for every transaction of a history
    examples: a full bounded file; an overflow transaction commits with meta pages beyond the limit; a later
    transaction leaves `data.endMarker > maxPages`; a later transaction releases the overflow pages again;
    `EngInvO` holds in all these states (by `decide`), `EngInv` does not.

  The proofs are the proofs of Proofs/Rollback.lean, Proofs/Refine.lean, Proofs/RefineMore.lean re-run against
  the weaker invariants (Proofs/RollbackOv.lean, RefineOv1.lean, RefineOv2.lean, RefineMoreOv.lean, namespace
  `TxVerif.Ov`); new is the commit: `Ov.relShape_engInv` (release of the free pages at the end of the overflow
  area preserves the invariant) and `Ov.commit_engInv`.
-/
import TxVerif.Proofs.RefineMoreOv
import TxVerif.Proofs.RefineOvCheck
import TxVerif.Props.C04C07Engine
namespace TxVerif

/-- the invariant of a committed state, overflow area allowed; `live` are the data pages the client owns.
    Fields: see `Ov.EngInv` (Proofs/RefineOv1.lean) and `Ov.WF` (Proofs/RollbackOv.lean). -/
abbrev EngInvO (f : FileSt) (live : List Nat) : Prop := Ov.EngInv f live

/-- **(1)** the generalised invariant is implied by `EngInv` -/
theorem engInvO_of_engInv (f : FileSt) (live : List Nat) (h : EngInv f live) : EngInvO f live := by
  have hd := h.wf.dataEnd
  have hl := h.wf.limit
  refine ⟨Ov.wf_of_wf _ h.wf, ?_, h.keys, h.liveOk, h.mapKey, h.mapInj,
    fun x hx => ⟨fun _ => (h.intOk x hx).1, (h.intOk x hx).2⟩, h.intNodup, h.total, ?_,
    fun _ x hx => (h.wf.metaRange x hx).1, by omega⟩
  · rcases h.ends with he | he
    · exact Or.inl he
    · exact Or.inr (Or.inl he)
  · intro id hid
    have := (h.liveOk id hid).2.1
    omega

/-- **(2)** every file `FileSt.create` produces (with a page limit that leaves room for it) satisfies the
    invariant -/
theorem engInvO_create_any (ps mp im : Nat) (hmp : mp = 0 ∨ 2 + im ≤ mp) : EngInvO (FileSt.create ps mp im) [] :=
  engInvO_of_engInv _ _ (engInv_create_any ps mp im hmp)

/-- what `EngInvO` says about the header pages: in every file that can hold a data page at all, no internal
    page (overwrite page, mapping page, free-list page) and no free meta page is a header page -/
theorem engInvO_hdr (f : FileSt) (live : List Nat) (h : EngInvO f live)
    (hc : f.alloc.maxPages = 0 ∨ 2 < f.alloc.maxPages) :
    (∀ x ∈ f.internal, 2 ≤ x) ∧ ∀ x ∈ f.alloc.mta.free, 2 ≤ x :=
  ⟨fun x hx => (h.intOk x hx).1 hc, h.hdr hc⟩

theorem runInvO_start (f : FileSt) (live : List Nat) (he : EngInvO f live) (ov : Bool) (g wl : Nat) :
    Ov.RunInv f live (ERunSt.start f live ov g wl) :=
  ⟨Ov.txinv_begin f live he ov g wl, fun _ _ => by simp [ERunSt.start, txView, FileSt.beginTx, Assoc.get?]⟩

/-! ## the per-transaction statements, from `EngInvO` -/

/-- **C03 (3a, 3b)** from `EngInvO`: a successful commit publishes exactly the abstract store of the
    transaction (statement as `c03_commit_publishes`) -/
theorem c03o_commit_publishes (f : FileSt) (live : List Nat) (he : EngInvO f live) (ov : Bool) (g wl : Nat)
    (ops : List EOp) (order : List Nat) (f2 : FileSt) (tx2 : TxSt) (ws : List (Nat × Nat))
    (hflush : flushList (runEOps (ERunSt.start f live ov g wl) ops).f (runEOps (ERunSt.start f live ov g wl) ops).tx
      order = .ok (f2, tx2, ws))
    (hall : tx2.unflushed = []) (hok : (commitAfterFlush f2 tx2).2.1 = .ok) :
    ∀ id ∈ (runEOps (ERunSt.start f live ov g wl) ops).cur, ∀ c,
      (runEOps (ERunSt.start f live ov g wl) ops).σ id = some c → (commitAfterFlush f2 tx2).1.readPage id = c := by
  have hr := Ov.runinv_ops he ops _ (runInvO_start f live he ov g wl)
  obtain ⟨h2, v2⟩ := Ov.txinv_flushList he order _ _ hr.tx f2 tx2 ws hflush
  intro id hid c hc
  apply (Ov.commit_data he h2 (allFlushed_of_unflushed tx2 hall)).1 hok id hid c
  rw [v2 id, ← hr.view id hid]; exact hc

/-- **C03 (3d), abort** from `EngInvO` (statement as `c03_abort_restores`) -/
theorem c03o_abort_restores (f : FileSt) (live : List Nat) (he : EngInvO f live) (ov : Bool) (g wl : Nat)
    (ops : List EOp) :
    let s := runEOps (ERunSt.start f live ov g wl) ops
    EngInvO (txAbort s.f s.tx) live ∧ (txAbort s.f s.tx).alloc = f.alloc ∧ (txAbort s.f s.tx).walMap = f.walMap ∧
    ∀ id ∈ live, (txAbort s.f s.tx).readPage id = f.readPage id :=
  Ov.abort_spec he (Ov.runinv_ops he ops _ (runInvO_start f live he ov g wl)).tx

/-- **C03 (3d), failed commit** from `EngInvO` (statement as `c03_failed_commit_restores`) -/
theorem c03o_failed_commit_restores (f : FileSt) (live : List Nat) (he : EngInvO f live) (ov : Bool) (g wl : Nat)
    (ops : List EOp) (order : List Nat) (f2 : FileSt) (tx2 : TxSt) (ws : List (Nat × Nat))
    (hflush : flushList (runEOps (ERunSt.start f live ov g wl) ops).f (runEOps (ERunSt.start f live ov g wl) ops).tx
      order = .ok (f2, tx2, ws))
    (hall : tx2.unflushed = []) (hfail : (commitAfterFlush f2 tx2).2.1 ≠ .ok) :
    EngInvO (commitAfterFlush f2 tx2).1 live ∧ (commitAfterFlush f2 tx2).1.alloc = f.alloc ∧
    ∀ id ∈ live, (commitAfterFlush f2 tx2).1.readPage id = f.readPage id := by
  have hr := Ov.runinv_ops he ops _ (runInvO_start f live he ov g wl)
  obtain ⟨h2, -⟩ := Ov.txinv_flushList he order _ _ hr.tx f2 tx2 ws hflush
  obtain ⟨r1, r2, -, r4⟩ := (Ov.commit_data he h2 (allFlushed_of_unflushed tx2 hall)).2 hfail
  exact ⟨r1, r2, r4⟩

/-- **C03 (3c), full strength**: after a successful commit of a transaction with ANY overflow flag `ov`,
    begun in a committed state that may itself use the overflow area, the invariant of a committed state
    holds again for the pages the client owns now (live + allocated − freed).
    (`c03_commit_invariant_partial` is the case `ov = false` from the stronger `EngInv`.) -/
theorem c03o_commit_invariant (f : FileSt) (live : List Nat) (he : EngInvO f live) (ov : Bool) (g wl : Nat)
    (ops : List EOp) (order : List Nat) (f2 : FileSt) (tx2 : TxSt) (ws : List (Nat × Nat))
    (hflush : flushList (runEOps (ERunSt.start f live ov g wl) ops).f
      (runEOps (ERunSt.start f live ov g wl) ops).tx order = .ok (f2, tx2, ws))
    (hall : tx2.unflushed = []) (hok : (commitAfterFlush f2 tx2).2.1 = .ok) :
    EngInvO (commitAfterFlush f2 tx2).1 (runEOps (ERunSt.start f live ov g wl) ops).cur := by
  have hr := Ov.runinv_ops he ops _ (runInvO_start f live he ov g wl)
  obtain ⟨h2, -⟩ := Ov.txinv_flushList he order _ _ hr.tx f2 tx2 ws hflush
  exact Ov.commit_engInv he h2 (allFlushed_of_unflushed tx2 hall) hok

/-- **C03 (3b)** from `EngInvO`: a committed page that no operation of the transaction writes or frees keeps
    its content -/
theorem c03o_untouched_kept (f : FileSt) (live : List Nat) (he : EngInvO f live) (ov : Bool) (g wl : Nat)
    (ops : List EOp) (order : List Nat) (f2 : FileSt) (tx2 : TxSt) (ws : List (Nat × Nat))
    (hflush : flushList (runEOps (ERunSt.start f live ov g wl) ops).f (runEOps (ERunSt.start f live ov g wl) ops).tx
      order = .ok (f2, tx2, ws))
    (hall : tx2.unflushed = []) (hok : (commitAfterFlush f2 tx2).2.1 = .ok)
    (id : Nat) (hid : id ∈ live) (hun : ∀ op ∈ ops, op.touches id = false) :
    (commitAfterFlush f2 tx2).1.readPage id = f.readPage id := by
  obtain ⟨h1, h2⟩ := Ov.runOps_untouched he ops _ (runInvO_start f live he ov g wl) id hid hun
  exact c03o_commit_publishes f live he ov g wl ops order f2 tx2 ws hflush hall hok id h2 _ h1

/-- **C03 (3a)** from `EngInvO`: last write wins (statement as `c03_last_write`) -/
theorem c03o_last_write (f : FileSt) (live : List Nat) (he : EngInvO f live) (ov : Bool) (g wl : Nat)
    (pre post : List EOp) (id : Nat) (mode : WMode) (st : Nat) (tx' : TxSt)
    (hid : id ∈ (runEOps (ERunSt.start f live ov g wl) pre).cur)
    (hw : txWrite (runEOps (ERunSt.start f live ov g wl) pre).f (runEOps (ERunSt.start f live ov g wl) pre).tx
      id mode st = .ok tx')
    (hun : ∀ op ∈ post, op.touches id = false)
    (order : List Nat) (f2 : FileSt) (tx2 : TxSt) (ws : List (Nat × Nat))
    (hflush : flushList (runEOps (ERunSt.start f live ov g wl) (pre ++ [EOp.write id mode st] ++ post)).f
      (runEOps (ERunSt.start f live ov g wl) (pre ++ [EOp.write id mode st] ++ post)).tx order = .ok (f2, tx2, ws))
    (hall : tx2.unflushed = []) (hok : (commitAfterFlush f2 tx2).2.1 = .ok) :
    (commitAfterFlush f2 tx2).1.readPage id =
      wr mode id st (((runEOps (ERunSt.start f live ov g wl) pre).σ id).getD {}) := by
  have hr1 := Ov.runinv_ops he pre _ (runInvO_start f live he ov g wl)
  obtain ⟨w1, w2⟩ := step_write_ok _ id mode st tx' hid hw
  have hr2 := Ov.runinv_step he _ (EOp.write id mode st) hr1
  obtain ⟨u1, u2⟩ := Ov.runOps_untouched he post _ hr2 id (w2 ▸ hid) hun
  have e : runEOps (ERunSt.start f live ov g wl) (pre ++ [EOp.write id mode st] ++ post) =
      runEOps ((EOp.write id mode st).step (runEOps (ERunSt.start f live ov g wl) pre)) post := by
    rw [runOps_append, runOps_append]; rfl
  apply c03o_commit_publishes f live he ov g wl _ order f2 tx2 ws hflush hall hok id
  · rw [e]; exact u2
  · rw [e, u1, w1]

/-- special case: a full `SetBytes` -/
theorem c03o_last_write_full (f : FileSt) (live : List Nat) (he : EngInvO f live) (ov : Bool) (g wl : Nat)
    (pre post : List EOp) (id st : Nat) (tx' : TxSt)
    (hid : id ∈ (runEOps (ERunSt.start f live ov g wl) pre).cur)
    (hw : txWrite (runEOps (ERunSt.start f live ov g wl) pre).f (runEOps (ERunSt.start f live ov g wl) pre).tx
      id .full st = .ok tx')
    (hun : ∀ op ∈ post, op.touches id = false)
    (order : List Nat) (f2 : FileSt) (tx2 : TxSt) (ws : List (Nat × Nat))
    (hflush : flushList (runEOps (ERunSt.start f live ov g wl) (pre ++ [EOp.write id .full st] ++ post)).f
      (runEOps (ERunSt.start f live ov g wl) (pre ++ [EOp.write id .full st] ++ post)).tx order = .ok (f2, tx2, ws))
    (hall : tx2.unflushed = []) (hok : (commitAfterFlush f2 tx2).2.1 = .ok) :
    (commitAfterFlush f2 tx2).1.readPage id = Content.full id st :=
  c03o_last_write f live he ov g wl pre post id .full st tx' hid hw hun order f2 tx2 ws hflush hall hok

/-! ### C04 from `EngInvO` -/

/-- **C04, freshness of allocated pages** from `EngInvO` (statement as `c04_alloc_fresh`): in every state a
    write transaction (any overflow flag) can reach from a committed state satisfying `EngInvO`, `txAlloc`
    returns exactly `n` pairwise distinct page ids, none of them a header page, a page the client owns, a
    page of the committed state, an internal page of the committed state (overwrite / mapping / free-list
    page — in the overflow area or not), an overwrite page taken by the running transaction, or a page the
    running transaction freed -/
theorem c04o_alloc_fresh (f : FileSt) (live : List Nat) (he : EngInvO f live) (ov : Bool) (g wl : Nat)
    (ops : List EOp) (n : Nat) (f' : FileSt) (tx' : TxSt) (ids : List Nat)
    (h : txAlloc (runEOps (ERunSt.start f live ov g wl) ops).f (runEOps (ERunSt.start f live ov g wl) ops).tx n
      = .ok (f', tx', ids)) :
    let s := runEOps (ERunSt.start f live ov g wl) ops
    ids.length = n ∧ ids.Nodup ∧
    ∀ x ∈ ids, 2 ≤ x ∧ x ∉ s.cur ∧ x ∉ live ∧
      x ∉ f.walMap.map (·.2) ∧ x ∉ f.walPages ∧ x ∉ f.alloc.freelistPages ∧
      x ∉ s.tx.walNew.map (·.2) ∧ x ∉ s.tx.ta.data.freed := by
  intro s
  have hr := Ov.runinv_ops he ops _ (runInvO_start f live he ov g wl)
  obtain ⟨h1, h2, h3⟩ := Ov.alloc_fresh_tx he hr.tx n f' tx' ids h
  refine ⟨h1, h2, fun x hx => ?_⟩
  obtain ⟨a, b, c, d, e, g', -⟩ := h3 x hx
  have hi := fun hc => d ((mem_internal f x).mpr hc)
  exact ⟨a, b, c, fun hc => hi (Or.inl hc), fun hc => hi (Or.inr (Or.inl hc)),
    fun hc => hi (Or.inr (Or.inr hc)), e, g'⟩

/-- **C04, no id twice while in use** from `EngInvO` -/
theorem c04o_owned_never_returned (f : FileSt) (live : List Nat) (he : EngInvO f live) (ov : Bool) (g wl : Nat)
    (ops : List EOp) (n : Nat) (f' : FileSt) (tx' : TxSt) (ids : List Nat)
    (h : txAlloc (runEOps (ERunSt.start f live ov g wl) ops).f (runEOps (ERunSt.start f live ov g wl) ops).tx n
      = .ok (f', tx', ids)) :
    ∀ x ∈ (runEOps (ERunSt.start f live ov g wl) ops).cur, x ∉ ids :=
  fun x hx hc => ((c04o_alloc_fresh f live he ov g wl ops n f' tx' ids h).2.2 x hc).2.1 hx

/-- **C04**: a bounded file never hands out a data page at or beyond its limit, also while meta pages
    live beyond the limit -/
theorem c04o_alloc_below_limit (f : FileSt) (live : List Nat) (he : EngInvO f live) (ov : Bool) (g wl : Nat)
    (ops : List EOp) (n : Nat) (f' : FileSt) (tx' : TxSt) (ids : List Nat)
    (h : txAlloc (runEOps (ERunSt.start f live ov g wl) ops).f (runEOps (ERunSt.start f live ov g wl) ops).tx n
      = .ok (f', tx', ids)) :
    ∀ x ∈ ids, f.alloc.maxPages = 0 ∨ x < f.alloc.maxPages := by
  have hr := Ov.runinv_ops he ops _ (runInvO_start f live he ov g wl)
  obtain ⟨h1, -, -⟩ := Ov.txinv_alloc he hr.tx n f' tx' ids h
  intro x hx
  exact (h1.curOk x (List.mem_append_right _ hx)).2.1

/-! ### C07 from `EngInvO` -/

/-- "as if the transaction had never run" (`Restored` with the generalised invariant) -/
def RestoredO (f : FileSt) (live : List Nat) (f1 : FileSt) : Prop :=
  f1.alloc = f.alloc ∧ f1.walMap = f.walMap ∧ f1.walPages = f.walPages ∧ f1.root = f.root ∧
  f1.txid = f.txid ∧ f1.statData = f.statData ∧
  (∀ id ∈ live, f1.diskAt (f.physOf id) = f.diskAt (f.physOf id)) ∧
  (∀ id ∈ live, f1.readPage id = f.readPage id) ∧ EngInvO f1 live

theorem restoredO_of_same {f : FileSt} {live : List Nat} {f1 : FileSt} (he : EngInvO f live)
    (h : SameCommitted f live f1) : RestoredO f live f1 :=
  ⟨h.alloc, h.walMap, h.hdr.2.2.2, h.hdr.1, h.hdr.2.1, h.hdr.2.2.1, h.disk, sameCommitted_read h,
    Ov.sameCommitted_engInv he h⟩

theorem sameCommittedO_of_abort (f : FileSt) (live : List Nat) (he : EngInvO f live) (ov : Bool) (g wl : Nat)
    (ops : List EOp) :
    SameCommitted f live (txAbort (runEOps (ERunSt.start f live ov g wl) ops).f
      (runEOps (ERunSt.start f live ov g wl) ops).tx) :=
  Ov.sameCommitted_abort he (Ov.runinv_ops he ops _ (runInvO_start f live he ov g wl)).tx
    (runOps_hdr ops (ERunSt.start f live ov g wl))

theorem sameCommittedO_of_failed (f : FileSt) (live : List Nat) (he : EngInvO f live) (ov : Bool) (g wl : Nat)
    (ops : List EOp) (order : List Nat) (f2 : FileSt) (tx2 : TxSt) (ws : List (Nat × Nat))
    (hflush : flushList (runEOps (ERunSt.start f live ov g wl) ops).f (runEOps (ERunSt.start f live ov g wl) ops).tx
      order = .ok (f2, tx2, ws))
    (hall : tx2.unflushed = []) (hfail : (commitAfterFlush f2 tx2).2.1 ≠ .ok) :
    SameCommitted f live (commitAfterFlush f2 tx2).1 := by
  have hr := Ov.runinv_ops he ops _ (runInvO_start f live he ov g wl)
  obtain ⟨h2, -⟩ := Ov.txinv_flushList he order _ _ hr.tx f2 tx2 ws hflush
  exact Ov.sameCommitted_failed he h2
    (sameHdr_trans (runOps_hdr ops (ERunSt.start f live ov g wl)) (flushList_hdr order _ _ _ _ _ hflush))
    (allFlushed_of_unflushed tx2 hall) hfail

/-- a final flush that fails half way: the transaction is rolled back from the state the flush reached
    (`flushList` returns no state on error; the abort is the same: see `runTxnO`) -/
theorem sameCommittedO_of_abort_after_flush (f : FileSt) (live : List Nat) (he : EngInvO f live) (ov : Bool)
    (g wl : Nat) (ops : List EOp) (order : List Nat) (f2 : FileSt) (tx2 : TxSt) (ws : List (Nat × Nat))
    (hflush : flushList (runEOps (ERunSt.start f live ov g wl) ops).f (runEOps (ERunSt.start f live ov g wl) ops).tx
      order = .ok (f2, tx2, ws)) :
    SameCommitted f live (txAbort f2 tx2) := by
  have hr := Ov.runinv_ops he ops _ (runInvO_start f live he ov g wl)
  obtain ⟨h2, -⟩ := Ov.txinv_flushList he order _ _ hr.tx f2 tx2 ws hflush
  exact Ov.sameCommitted_abort he h2
    (sameHdr_trans (runOps_hdr ops (ERunSt.start f live ov g wl)) (flushList_hdr order _ _ _ _ _ hflush))

/-- **C07, abort is the identity (engine)** from `EngInvO` (statement as `c07_abort_identity_engine`) -/
theorem c07o_abort_identity_engine (f : FileSt) (live : List Nat) (he : EngInvO f live) (ov : Bool) (g wl : Nat)
    (ops : List EOp) :
    let s := runEOps (ERunSt.start f live ov g wl) ops
    RestoredO f live (txAbort s.f s.tx) :=
  restoredO_of_same he (sameCommittedO_of_abort f live he ov g wl ops)

/-- **C07, a failed commit is the identity (engine)** from `EngInvO` -/
theorem c07o_failed_commit_identity_engine (f : FileSt) (live : List Nat) (he : EngInvO f live) (ov : Bool)
    (g wl : Nat) (ops : List EOp) (order : List Nat) (f2 : FileSt) (tx2 : TxSt) (ws : List (Nat × Nat))
    (hflush : flushList (runEOps (ERunSt.start f live ov g wl) ops).f (runEOps (ERunSt.start f live ov g wl) ops).tx
      order = .ok (f2, tx2, ws))
    (hall : tx2.unflushed = []) (hfail : (commitAfterFlush f2 tx2).2.1 ≠ .ok) :
    RestoredO f live (commitAfterFlush f2 tx2).1 :=
  restoredO_of_same he (sameCommittedO_of_failed f live he ov g wl ops order f2 tx2 ws hflush hall hfail)

/-- a transaction on a restored state runs in lockstep with the same transaction on the original state -/
theorem next_tx_simO {f : FileSt} {live : List Nat} {f1 : FileSt} (he : EngInvO f live)
    (h : SameCommitted f live f1) (ov : Bool) (g wl : Nat) (ops2 : List EOp) :
    Sim (liveAt f live) (runEOps (ERunSt.start f1 live ov g wl) ops2)
      (runEOps (ERunSt.start f live ov g wl) ops2) :=
  Ov.sim_run he ops2 _ _ (runInvO_start f live he ov g wl) (sim_start h ov g wl)

/-- **C07, the next transaction is identical** from `EngInvO` (statement as `c07_next_tx_identical`) -/
theorem c07o_next_tx_identical (f : FileSt) (live : List Nat) (he : EngInvO f live) (ov : Bool) (g wl : Nat)
    (ops : List EOp) (ov2 : Bool) (g2 wl2 : Nat) :
    let s := runEOps (ERunSt.start f live ov g wl) ops
    (txAbort s.f s.tx).beginTx ov2 g2 wl2 = f.beginTx ov2 g2 wl2 ∧
    ∀ ops2 : List EOp, (runEOps (ERunSt.start (txAbort s.f s.tx) live ov2 g2 wl2) ops2).obs =
      (runEOps (ERunSt.start f live ov2 g2 wl2) ops2).obs := by
  intro s
  have h := sameCommittedO_of_abort f live he ov g wl ops
  exact ⟨sameCommitted_begin h ov2 g2 wl2, fun ops2 => obs_of_sim (next_tx_simO he h ov2 g2 wl2 ops2)⟩

/-- **C07, the next transaction after a failed commit is identical** from `EngInvO` -/
theorem c07o_next_tx_identical_failed (f : FileSt) (live : List Nat) (he : EngInvO f live) (ov : Bool)
    (g wl : Nat) (ops : List EOp) (order : List Nat) (f2 : FileSt) (tx2 : TxSt) (ws : List (Nat × Nat))
    (hflush : flushList (runEOps (ERunSt.start f live ov g wl) ops).f (runEOps (ERunSt.start f live ov g wl) ops).tx
      order = .ok (f2, tx2, ws))
    (hall : tx2.unflushed = []) (hfail : (commitAfterFlush f2 tx2).2.1 ≠ .ok) (ov2 : Bool) (g2 wl2 : Nat) :
    (commitAfterFlush f2 tx2).1.beginTx ov2 g2 wl2 = f.beginTx ov2 g2 wl2 ∧
    ∀ ops2 : List EOp, (runEOps (ERunSt.start (commitAfterFlush f2 tx2).1 live ov2 g2 wl2) ops2).obs =
      (runEOps (ERunSt.start f live ov2 g2 wl2) ops2).obs := by
  have h := sameCommittedO_of_failed f live he ov g wl ops order f2 tx2 ws hflush hall hfail
  exact ⟨sameCommitted_begin h ov2 g2 wl2, fun ops2 => obs_of_sim (next_tx_simO he h ov2 g2 wl2 ops2)⟩

/-! ## histories of transactions, each with its own overflow flag -/

/-- one write transaction of a history: its options (among them the overflow flag), its operations and the
    order of the final flush -/
structure TxnO where
  overflow : Bool := false
  growPct : Nat := 0
  walLimit : Nat := 0
  ops : List EOp := []
  order : List Nat := []

/-- the transaction `t` on the committed state `s.1` whose client owns `s.2`, after its operations -/
def TxnO.run (s : FileSt × List Nat) (t : TxnO) : ERunSt :=
  runEOps (ERunSt.start s.1 s.2 t.overflow t.growPct t.walLimit) t.ops

/-- run one transaction to its end: commit if the final flush succeeds and leaves nothing unflushed,
    rollback otherwise. Returns the committed state and the pages the client owns. (`runTxn` with the
    transaction's own overflow flag.) -/
def runTxnO (s : FileSt × List Nat) (t : TxnO) : FileSt × List Nat :=
  let r := t.run s
  match flushList r.f r.tx t.order with
  | .error _ => (txAbort r.f r.tx, s.2)
  | .ok (f2, tx2, _) =>
    if tx2.unflushed = [] then
      if (commitAfterFlush f2 tx2).2.1 = .ok then ((commitAfterFlush f2 tx2).1, r.cur)
      else ((commitAfterFlush f2 tx2).1, s.2)
    else (txAbort f2 tx2, s.2)

def runHistoryO (s : FileSt × List Nat) (ts : List TxnO) : FileSt × List Nat := ts.foldl runTxnO s

theorem runHistoryO_snoc (s : FileSt × List Nat) (pre : List TxnO) (t : TxnO) :
    runHistoryO s (pre ++ [t]) = runTxnO (runHistoryO s pre) t := by
  unfold runHistoryO; rw [List.foldl_append]; rfl

/-- a history of `Txn` (overflow flag false) is a history of `TxnO` -/
def Txn.toO (t : Txn) : TxnO := { overflow := false, growPct := t.growPct, walLimit := t.walLimit, ops := t.ops, order := t.order }

theorem runTxnO_toO (s : FileSt × List Nat) (t : Txn) : runTxnO s t.toO = runTxn s t := rfl

theorem runHistoryO_toO (s : FileSt × List Nat) (ts : List Txn) : runHistoryO s (ts.map Txn.toO) = runHistory s ts := by
  induction ts generalizing s with
  | nil => rfl
  | cons t ts ih =>
    show runHistoryO (runTxnO s t.toO) (ts.map Txn.toO) = runHistory (runTxn s t) ts
    rw [runTxnO_toO, ih]

/-- the transaction commits: the final flush succeeds, leaves nothing unflushed, and `commitAfterFlush`
    returns `.ok` -/
def TxnO.commits (s : FileSt × List Nat) (t : TxnO) : Prop :=
  ∃ f2 tx2 ws, flushList (t.run s).f (t.run s).tx t.order = .ok (f2, tx2, ws) ∧ tx2.unflushed = [] ∧
    (commitAfterFlush f2 tx2).2.1 = .ok

theorem runTxnO_of_commits (s : FileSt × List Nat) (t : TxnO) (f2 : FileSt) (tx2 : TxSt) (ws : List (Nat × Nat))
    (hfl : flushList (t.run s).f (t.run s).tx t.order = .ok (f2, tx2, ws)) (hall : tx2.unflushed = [])
    (hok : (commitAfterFlush f2 tx2).2.1 = .ok) :
    runTxnO s t = ((commitAfterFlush f2 tx2).1, (t.run s).cur) := by
  unfold runTxnO
  simp only [hfl, hall, hok, if_true]

theorem runTxnO_inv (s : FileSt × List Nat) (he : EngInvO s.1 s.2) (t : TxnO) :
    EngInvO (runTxnO s t).1 (runTxnO s t).2 := by
  have hr := Ov.runinv_ops he t.ops _ (runInvO_start s.1 s.2 he t.overflow t.growPct t.walLimit)
  unfold runTxnO TxnO.run
  dsimp only
  split
  · exact (Ov.abort_spec he hr.tx).1
  · rename_i f2 tx2 ws hfl
    obtain ⟨h2, -⟩ := Ov.txinv_flushList he t.order _ _ hr.tx f2 tx2 ws hfl
    split
    · rename_i hall
      split
      · rename_i hok
        exact c03o_commit_invariant s.1 s.2 he t.overflow t.growPct t.walLimit t.ops t.order f2 tx2 ws hfl hall hok
      · rename_i hfail
        exact ((Ov.commit_data he h2 (allFlushed_of_unflushed tx2 hall)).2 hfail).1
    · exact (Ov.abort_spec he h2).1

/-- **C03, histories, full strength**: along any history of write transactions — each with its own overflow
    flag, committed, failed or rolled back — the invariant of the committed state holds. So all the
    per-transaction statements above apply to every transaction of the history.
    (`c03_history_partial` is the special case of histories of `overflow = false` transactions from `EngInv`:
    `runHistoryO_toO`, `engInvO_of_engInv`.) -/
theorem c03_history (s : FileSt × List Nat) (he : EngInvO s.1 s.2) (ts : List TxnO) :
    EngInvO (runHistoryO s ts).1 (runHistoryO s ts).2 := by
  induction ts generalizing s with
  | nil => exact he
  | cons t ts ih => exact ih (runTxnO s t) (runTxnO_inv s he t)

/-- a transaction that does not commit leaves the committed state as it was (up to the disk content of pages
    no owned page is read from) and the owned pages unchanged -/
theorem runTxnO_of_not_commits (s : FileSt × List Nat) (he : EngInvO s.1 s.2) (t : TxnO) (hn : ¬ t.commits s) :
    RestoredO s.1 s.2 (runTxnO s t).1 ∧ (runTxnO s t).2 = s.2 ∧ SameCommitted s.1 s.2 (runTxnO s t).1 := by
  have key : SameCommitted s.1 s.2 (runTxnO s t).1 ∧ (runTxnO s t).2 = s.2 := by
    unfold runTxnO
    dsimp only
    split
    · exact ⟨sameCommittedO_of_abort s.1 s.2 he t.overflow t.growPct t.walLimit t.ops, rfl⟩
    · rename_i f2 tx2 ws hfl
      split
      · rename_i hall
        split
        · rename_i hok
          exact absurd ⟨f2, tx2, ws, hfl, hall, hok⟩ hn
        · rename_i hfail
          exact ⟨sameCommittedO_of_failed s.1 s.2 he t.overflow t.growPct t.walLimit t.ops t.order f2 tx2 ws hfl hall
            hfail, rfl⟩
      · exact ⟨sameCommittedO_of_abort_after_flush s.1 s.2 he t.overflow t.growPct t.walLimit t.ops t.order f2 tx2 ws
          hfl, rfl⟩
  exact ⟨restoredO_of_same he key.1, key.2, key.1⟩

/-! ### the history corollaries -/

/-- **C03 over histories**: every committed state of a history reads back the abstract store of the
    transaction that produced it. After any history `pre` (overflow transactions included), if the next
    transaction `t` (any overflow flag) commits, the state reached by `pre ++ [t]` reads, for every page
    the client owns then, the content the abstract store `σ` of `t` holds for it. -/
theorem c03_history_publishes (s0 : FileSt × List Nat) (he : EngInvO s0.1 s0.2) (pre : List TxnO) (t : TxnO)
    (hc : t.commits (runHistoryO s0 pre)) :
    (runHistoryO s0 (pre ++ [t])).2 = (t.run (runHistoryO s0 pre)).cur ∧
    ∀ id ∈ (runHistoryO s0 (pre ++ [t])).2, ∀ c, (t.run (runHistoryO s0 pre)).σ id = some c →
      (runHistoryO s0 (pre ++ [t])).1.readPage id = c := by
  obtain ⟨f2, tx2, ws, hfl, hall, hok⟩ := hc
  have hi := c03_history s0 he pre
  rw [runHistoryO_snoc, runTxnO_of_commits _ t f2 tx2 ws hfl hall hok]
  refine ⟨rfl, ?_⟩
  intro id hid c hcv
  exact c03o_commit_publishes _ _ hi t.overflow t.growPct t.walLimit t.ops t.order f2 tx2 ws hfl hall hok id hid c hcv

/-- **C03 over histories, untouched pages**: a page the client owns after `pre` and that the committing
    transaction `t` neither writes nor frees reads the same before and after `t` -/
theorem c03_history_untouched (s0 : FileSt × List Nat) (he : EngInvO s0.1 s0.2) (pre : List TxnO) (t : TxnO)
    (hc : t.commits (runHistoryO s0 pre)) (id : Nat) (hid : id ∈ (runHistoryO s0 pre).2)
    (hun : ∀ op ∈ t.ops, op.touches id = false) :
    (runHistoryO s0 (pre ++ [t])).1.readPage id = (runHistoryO s0 pre).1.readPage id := by
  obtain ⟨f2, tx2, ws, hfl, hall, hok⟩ := hc
  have hi := c03_history s0 he pre
  rw [runHistoryO_snoc, runTxnO_of_commits _ t f2 tx2 ws hfl hall hok]
  exact c03o_untouched_kept _ _ hi t.overflow t.growPct t.walLimit t.ops t.order f2 tx2 ws hfl hall hok id hid hun

/-- **C04 over histories, full strength**: after any history `pre` of write transactions (each with its own
    overflow flag; committed, failed or rolled back), every allocation at any point `ops` of the next
    transaction (any overflow flag `ov`) hands out `n` pairwise distinct ids that are fresh with respect to
    the committed state reached: not header pages, not owned by the client, not live, not internal
    (overwrite pages, mapping pages, free-list pages — wherever they live, overflow area included), not
    overwrite pages or freed pages of the running transaction. -/
theorem c04_history_alloc_fresh (s0 : FileSt × List Nat) (he : EngInvO s0.1 s0.2) (pre : List TxnO)
    (ov : Bool) (g wl : Nat) (ops : List EOp) (n : Nat) (f' : FileSt) (tx' : TxSt) (ids : List Nat)
    (h : txAlloc (runEOps (ERunSt.start (runHistoryO s0 pre).1 (runHistoryO s0 pre).2 ov g wl) ops).f
      (runEOps (ERunSt.start (runHistoryO s0 pre).1 (runHistoryO s0 pre).2 ov g wl) ops).tx n = .ok (f', tx', ids)) :
    let c := runHistoryO s0 pre
    let s := runEOps (ERunSt.start c.1 c.2 ov g wl) ops
    ids.length = n ∧ ids.Nodup ∧
    ∀ x ∈ ids, 2 ≤ x ∧ x ∉ s.cur ∧ x ∉ c.2 ∧
      x ∉ c.1.walMap.map (·.2) ∧ x ∉ c.1.walPages ∧ x ∉ c.1.alloc.freelistPages ∧
      x ∉ s.tx.walNew.map (·.2) ∧ x ∉ s.tx.ta.data.freed ∧
      (c.1.alloc.maxPages = 0 ∨ x < c.1.alloc.maxPages) := by
  intro c s
  have hi := c03_history s0 he pre
  obtain ⟨h1, h2, h3⟩ := c04o_alloc_fresh _ _ hi ov g wl ops n f' tx' ids h
  have h4 := c04o_alloc_below_limit _ _ hi ov g wl ops n f' tx' ids h
  refine ⟨h1, h2, fun x hx => ?_⟩
  obtain ⟨a1, a2, a3, a4, a5, a6, a7, a8⟩ := h3 x hx
  exact ⟨a1, a2, a3, a4, a5, a6, a7, a8, h4 x hx⟩

/-- **C07 over histories, full strength**: a transaction anywhere in a history (any overflow flag, begun in a
    state that may use the overflow area) that does not commit — the final flush fails, pages stay
    unflushed, or the commit fails — restores the state: allocator (free lists, end markers — also those
    above the limit —, meta area), overwrite mapping, mapping pages, root, transaction id and statistic are
    exactly those before the transaction, every owned page reads as before, the client owns the same pages. -/
theorem c07_history_restored (s0 : FileSt × List Nat) (he : EngInvO s0.1 s0.2) (pre : List TxnO) (t : TxnO)
    (hn : ¬ t.commits (runHistoryO s0 pre)) :
    RestoredO (runHistoryO s0 pre).1 (runHistoryO s0 pre).2 (runHistoryO s0 (pre ++ [t])).1 ∧
    (runHistoryO s0 (pre ++ [t])).2 = (runHistoryO s0 pre).2 := by
  rw [runHistoryO_snoc]
  obtain ⟨r1, r2, -⟩ := runTxnO_of_not_commits _ (c03_history s0 he pre) t hn
  exact ⟨r1, r2⟩

/-- **C07 over histories, the next transaction is identical**: after a transaction `t` of the history that
    did not commit, a new write transaction (any options) begins with the same in-memory state and, after
    every operation list, shows the same observation (transaction state, owned pages — so every allocation
    returned the same ids —, content of the owned pages, file state without the disk) as if `t` had never run -/
theorem c07_history_next_identical (s0 : FileSt × List Nat) (he : EngInvO s0.1 s0.2) (pre : List TxnO) (t : TxnO)
    (hn : ¬ t.commits (runHistoryO s0 pre)) (ov2 : Bool) (g2 wl2 : Nat) :
    (runHistoryO s0 (pre ++ [t])).1.beginTx ov2 g2 wl2 = (runHistoryO s0 pre).1.beginTx ov2 g2 wl2 ∧
    ∀ ops2 : List EOp,
      (runEOps (ERunSt.start (runHistoryO s0 (pre ++ [t])).1 (runHistoryO s0 (pre ++ [t])).2 ov2 g2 wl2) ops2).obs =
      (runEOps (ERunSt.start (runHistoryO s0 pre).1 (runHistoryO s0 pre).2 ov2 g2 wl2) ops2).obs := by
  have hi := c03_history s0 he pre
  rw [runHistoryO_snoc]
  obtain ⟨-, r2, r3⟩ := runTxnO_of_not_commits _ hi t hn
  rw [r2]
  exact ⟨sameCommitted_begin r3 ov2 g2 wl2, fun ops2 => obs_of_sim (next_tx_simO hi r3 ov2 g2 wl2 ops2)⟩

/-! ## examples: the hypotheses are satisfiable, the new invariant holds where the old one fails -/

/-- executable form of `TxnO.commits` -/
def TxnO.commitsB (s : FileSt × List Nat) (t : TxnO) : Bool :=
  match flushList (t.run s).f (t.run s).tx t.order with
  | .ok (f2, tx2, _) => decide (tx2.unflushed = []) && decide ((commitAfterFlush f2 tx2).2.1 = .ok)
  | .error _ => false

theorem commits_iff (s : FileSt × List Nat) (t : TxnO) : t.commits s ↔ t.commitsB s = true := by
  unfold TxnO.commits TxnO.commitsB
  cases h : flushList (t.run s).f (t.run s).tx t.order with
  | error e => simp
  | ok r =>
    obtain ⟨f2, tx2, ws⟩ := r
    simp only [Except.ok.injEq, Prod.mk.injEq, Bool.and_eq_true, decide_eq_true_eq]
    constructor
    · rintro ⟨f2', tx2', ws', ⟨rfl, rfl, -⟩, h1, h2⟩
      exact ⟨h1, h2⟩
    · rintro ⟨h1, h2⟩
      exact ⟨f2, tx2, ws, ⟨rfl, rfl, rfl⟩, h1, h2⟩

instance (s : FileSt × List Nat) (t : TxnO) : Decidable (t.commits s) :=
  decidable_of_iff _ (commits_iff s t).symm

/-- a new bounded file: 8 pages, 2 of them meta pages -/
def exO0 : FileSt × List Nat := (FileSt.create 4096 8 2, [])
/-- fills the file: the 4 remaining pages are allocated and written -/
def exFill : TxnO :=
  { ops := [.alloc 4, .write 4 .full 1, .write 5 .full 1, .write 6 .full 1, .write 7 .full 1], order := [4, 5, 6, 7] }
/-- overwrites two pages; the overwrite pages, the mapping page and the free-list page need meta pages -/
def exOv : TxnO := { overflow := true, ops := [.write 4 .full 2, .write 5 .full 2], order := [4, 5] }
/-- the same without the overflow flag -/
def exNoOv : TxnO := { overflow := false, ops := [.write 4 .full 2, .write 5 .full 2], order := [4, 5] }
def exOv2 : TxnO := { overflow := true, ops := [.write 4 .full 3], order := [4] }
/-- a commit with a checkpoint (`walLimit = 1`) -/
def exOv3 : TxnO := { overflow := true, walLimit := 1, ops := [.write 6 .full 3], order := [6] }
/-- a transaction that only checkpoints, without the overflow flag -/
def exCkpt : TxnO := { overflow := false, walLimit := 1, ops := [.checkpoint], order := [] }

example : EngInvO exO0.1 exO0.2 := engInvO_create_any 4096 8 2 (by decide)

/-- the file is full: data and meta area end at the limit, nothing is free in the data area -/
example :
    let c := runHistoryO exO0 [exFill]
    c.1.alloc.maxPages = 8 ∧ c.1.alloc.data.endMarker = 8 ∧ c.1.alloc.mta.endMarker = 8 ∧ c.1.alloc.data.free = [] ∧
    c.2 = [4, 5, 6, 7] ∧ c.1.alloc.dataAvail = 0 := by decide

example : EngInvO (runHistoryO exO0 [exFill]).1 (runHistoryO exO0 [exFill]).2 := Ov.engInvB_spec _ _ (by decide)

/-- on the full file the overflow transaction commits with meta pages BEYOND the limit: pages 8, 9, 10 hold an
    overwrite page, the mapping and the free list; the meta end marker is 11 > 8 -/
example :
    let c := runHistoryO exO0 [exFill, exOv]
    exOv.commits (runHistoryO exO0 [exFill]) ∧
    c.1.alloc.data.endMarker = 8 ∧ c.1.alloc.mta.endMarker = 11 ∧ c.1.walMap = [(4, 2), (5, 8)] ∧
    c.1.walPages = [9] ∧ c.1.alloc.freelistPages = [10] ∧ c.1.alloc.metaTotal = 5 ∧
    c.1.readPage 4 = Content.full 4 2 ∧ c.1.readPage 5 = Content.full 5 2 ∧ c.1.readPage 6 = Content.full 6 1 := by
  decide

/-- the new invariant holds after the overflow commit … -/
example : EngInvO (runHistoryO exO0 [exFill, exOv]).1 (runHistoryO exO0 [exFill, exOv]).2 :=
  Ov.engInvB_spec _ _ (by decide)

/-- … the old one does not (`noOv`) -/
example : ¬ EngInv (runHistoryO exO0 [exFill, exOv]).1 (runHistoryO exO0 [exFill, exOv]).2 :=
  fun h => absurd h.noOv (by decide)

/-- without the overflow flag the same transaction cannot get its overwrite pages: it is rolled back and the
    state is restored (`c07_history_restored`) -/
example : ¬ exNoOv.commits (runHistoryO exO0 [exFill]) ∧
    (runHistoryO exO0 [exFill, exNoOv]).1.alloc = (runHistoryO exO0 [exFill]).1.alloc := by decide

/-- two more overflow transactions: the second one releases only the last page of the overflow area
    (`releaseOverflow`), after which the DATA end marker is 11 > 8 = `maxPages` — the state the engine driver
    excludes from its `allocWF` check. The new invariant holds, `WF` / `allocWF` do not. -/
example :
    let c := runHistoryO exO0 [exFill, exOv, exOv2, exOv3]
    exOv2.commits (runHistoryO exO0 [exFill, exOv]) ∧ exOv3.commits (runHistoryO exO0 [exFill, exOv, exOv2]) ∧
    (runHistoryO exO0 [exFill, exOv, exOv2]).1.alloc.mta.endMarker = 12 ∧
    c.1.alloc.maxPages = 8 ∧ c.1.alloc.data.endMarker = 11 ∧ c.1.alloc.mta.endMarker = 11 ∧
    c.1.alloc.mta.free = [3, 8] ∧ c.1.walMap = [(6, 2)] ∧ c.1.walPages = [10] ∧ c.1.alloc.freelistPages = [9] ∧
    allocWF c.1.alloc = false ∧
    c.1.readPage 4 = Content.full 4 3 ∧ c.1.readPage 5 = Content.full 5 2 ∧ c.1.readPage 6 = Content.full 6 3 := by
  decide

example : EngInvO (runHistoryO exO0 [exFill, exOv, exOv2, exOv3]).1 (runHistoryO exO0 [exFill, exOv, exOv2, exOv3]).2 :=
  Ov.engInvB_spec _ _ (by decide)

example : ¬ EngInv (runHistoryO exO0 [exFill, exOv, exOv2, exOv3]).1 (runHistoryO exO0 [exFill, exOv, exOv2, exOv3]).2 :=
  fun h => absurd h.wf.limit (by decide)

/-- in that state the data end marker may even end up above the meta end marker: a checkpoint transaction
    releases two more overflow pages (meta end marker 9, data end marker still 11) -/
example :
    let c := runHistoryO exO0 [exFill, exOv, exOv2, exOv3, exCkpt]
    c.1.alloc.data.endMarker = 11 ∧ c.1.alloc.mta.endMarker = 9 ∧ c.1.alloc.mta.free = [2, 3] ∧
    c.1.walMap = [] ∧ c.1.alloc.freelistPages = [8] ∧ c.1.alloc.metaTotal = 3 := by decide

example : EngInvO (runHistoryO exO0 [exFill, exOv, exOv2, exOv3, exCkpt]).1
    (runHistoryO exO0 [exFill, exOv, exOv2, exOv3, exCkpt]).2 := Ov.engInvB_spec _ _ (by decide)

/-- a later transaction releases the overflow pages again: after the overflow commit `exOv`, a transaction
    that checkpoints (no overflow flag needed) frees the overwrite pages, the mapping page and the old
    free-list page; `fileCommitAlloc` drops pages 8, 9, 10 from the meta free list and the file is back
    inside its limit — where also the old invariant `EngInv` holds again -/
example :
    let c := runHistoryO exO0 [exFill, exOv, exCkpt]
    exCkpt.commits (runHistoryO exO0 [exFill, exOv]) ∧
    c.1.alloc.data.endMarker = 8 ∧ c.1.alloc.mta.endMarker = 8 ∧ c.1.alloc.mta.free = [2] ∧
    c.1.alloc.freelistPages = [3] ∧ c.1.alloc.metaTotal = 2 ∧ c.1.walMap = [] ∧ c.1.walPages = [] ∧
    allocWF c.1.alloc = true ∧ c.2 = [4, 5, 6, 7] ∧
    c.1.readPage 4 = Content.full 4 2 ∧ c.1.readPage 5 = Content.full 5 2 ∧ c.1.readPage 7 = Content.full 7 1 := by
  decide

example : EngInvO (runHistoryO exO0 [exFill, exOv, exCkpt]).1 (runHistoryO exO0 [exFill, exOv, exCkpt]).2 :=
  Ov.engInvB_spec _ _ (by decide)

/-- the history theorem on this history (all states above are instances) -/
example (ts : List TxnO) : EngInvO (runHistoryO exO0 ts).1 (runHistoryO exO0 ts).2 :=
  c03_history exO0 (engInvO_create_any 4096 8 2 (by decide)) ts

/-- C04 in an overflow state: with the data end marker above the limit (`exOv3`) and a page freed, the next
    allocation hands out the freed page 7 — not one of the meta pages 8, 9, 10 below the data end marker -/
example :
    let c := runHistoryO exO0 [exFill, exOv, exOv2, exOv3, { overflow := true, ops := [.free 7] }]
    c.1.alloc.data.endMarker = 11 ∧ c.1.alloc.data.free = [7] ∧ c.2 = [4, 5, 6] ∧
    (match txAlloc (ERunSt.start c.1 c.2 true 0 0).f (ERunSt.start c.1 c.2 true 0 0).tx 1 with
     | .ok (_, _, ids) => decide (ids = [7]) | .error _ => false) = true ∧
    (match txAlloc (ERunSt.start c.1 c.2 true 0 0).f (ERunSt.start c.1 c.2 true 0 0).tx 2 with
     | .ok _ => false | .error e => decide (e = Err.oom)) = true := by decide

end TxVerif
