/-
  C13, stale ACK plans.  `acker.cleanup` computes the plan (`initACK`: pages to free, new head,
  new read position) in a read transaction and applies it in a later write transaction without
  looking at the chain again.  In between the producer may flush any number of times
  (`Extends`, Model/PQConc.lean).  The theorems compare the stale plan (computed on `old`) with
  the chain `new` it is applied to.
-/
import TxVerif.Proofs.PQConc
namespace TxVerif

/-- **Stale plan, structure.**  No assumption on ids or on `endID`.  The pages the stale plan
    frees are a prefix of the extended chain, unchanged; the fresh plan would free them too; those
    with event headers hold only acknowledged events (`last + 1 < endID`); the stale plan does not
    even free the OLD last page, hence not the writer's page of `new`; and the plans free the same
    pages unless the stale walk stopped at the old last page and pages were appended. -/
theorem stale_plan_prefix (old new : List QPage) (endID : Nat) (hx : Extends old new) (hne : old ≠ []) :
    (ackPlan old endID).1 ≤ (ackPlan new endID).1 ∧
    old.take (ackPlan old endID).1 = new.take (ackPlan old endID).1 ∧
    (∀ k < (ackPlan old endID).1, ∀ p, new[k]? = some p → p.off ≠ 0 → p.last + 1 < endID) ∧
    (ackPlan old endID).1 + 1 ≤ old.length ∧ old.length ≤ new.length ∧
    ((ackPlan old endID).1 = (ackPlan new endID).1 ∨
      ((ackPlan old endID).1 + 1 = old.length ∧ old.length < new.length)) := by
  have hc := hx.chainExt hne
  obtain ⟨a, b, c⟩ := ackWalk_ext hc endID 0 0
  refine ⟨a, hc.take_eq _ b, ?_, b, hc.length_le, c⟩
  intro k hk p hp hoff
  exact ackPlan_freed_acked new endID k (Nat.lt_of_lt_of_le hk a) p hp hoff

/-- **Stale plan = fresh plan.**  On a chain with consecutive ids `a … b-1` (`b` = tail id when the
    plan was computed) and `endID ≤ b` (`initACK`: `ACKTooMany`; the consumer can only acknowledge
    what it has read) the stale plan is exactly the plan a fresh walk over `new` computes. -/
theorem stale_plan_eq (old new : List QPage) (a b endID : Nat) (hx : Extends old new)
    (hr : IdRanges a old b) (hab : a < b) (he : endID ≤ b) :
    ackPlan new endID = ackPlan old endID := by
  have hne : old ≠ [] := by intro h; subst h; simp only [IdRanges] at hr; omega
  exact ackPlan_ext_eq (hx.chainExt hne) a b endID hr hab he

/-- **No leak.**  The pages the stale plan keeps stay in the chain behind the new head
    (`applyAck new k`), and a later ACK (`endID ≤ endID2`) walking from the new head frees exactly
    what a walk over the whole of `new` would free beyond the `k` pages already freed. -/
theorem stale_no_leak (old new : List QPage) (endID endID2 : Nat) (hx : Extends old new) (hne : old ≠ [])
    (h2 : endID ≤ endID2) :
    (ackPlan new endID2).1 = (ackPlan (applyAck new (ackPlan old endID).1) endID2).1 + (ackPlan old endID).1 ∧
    (ackPlan new endID2).2 = (ackPlan (applyAck new (ackPlan old endID).1) endID2).2 := by
  have hc := hx.chainExt hne
  have h1 := (ackWalk_ext hc endID 0 0).1
  have h3 := ackWalk_mono new endID endID2 0 0 h2
  obtain ⟨l', a, b, _⟩ := ackWalk_drop (ackWalk old endID 0).freed new endID2 0 (Nat.le_trans h1 h3)
  obtain ⟨i1, i2⟩ := ackWalk_indep (new.drop (ackWalk old endID 0).freed) endID2 l' 0
  simp only [ackPlan, applyAck]
  exact ⟨by rw [a, i1], by rw [b, i2]⟩

/-! ## `cleanAll`

  `cleanup` does not re-check a `cleanAll` plan either: it frees `state.free` and writes
  `head = read = endPos` (the tail position of the planning transaction), `tail` is left alone.
  `stale_cleanAll`: under the conditions `initACK` runs in (`endID ≤ tail id`, non-empty id range)
  neither the stale nor a fresh walk ends in `cleanAll`, so a stale `cleanAll` plan cannot occur.
  `stale_cleanAll_beyond_tail`: `cleanAll` needs `endID` BEYOND the tail id.
  `stale_cleanAll_shape`: even such a plan collects exactly the pages before the old last page; by
  `stale_plan_prefix` (which does not exclude `cleanAll`) these are unchanged pages of `new` with
  acknowledged events only, and the writer's page is kept.  No scenario losing events exists. -/

theorem stale_cleanAll (old new : List QPage) (a b endID : Nat) (hx : Extends old new)
    (hr : IdRanges a old b) (hab : a < b) (he : endID ≤ b) :
    (ackPlan old endID).2 = false ∧ (ackPlan new endID).2 = false := by
  have h1 : (ackPlan old endID).2 = false := ackWalk_no_cleanAll old a b endID 0 hr hab he
  rw [stale_plan_eq old new a b endID hx hr hab he]
  exact ⟨h1, h1⟩

theorem stale_cleanAll_beyond_tail (old : List QPage) (a b endID : Nat) (hr : IdRanges a old b) (hab : a < b)
    (h : (ackPlan old endID).2 = true) : b < endID := by
  apply Decidable.byContradiction
  intro hn
  have := ackWalk_no_cleanAll old a b endID 0 hr hab (by omega)
  simp only [ackPlan] at h
  rw [this] at h
  exact absurd h (by simp)

theorem stale_cleanAll_shape (old : List QPage) (endID : Nat) (h : (ackPlan old endID).2 = true) :
    (ackPlan old endID).1 + 1 = old.length ∧ ∃ w, old.getLast? = some w ∧ w.off = 0 :=
  ackWalk_cleanAll_shape old endID 0 h

/-! ## head and read position -/

/-- **Stale positions are valid.**  `initACK` on `old` succeeded with state `st`.  Then `initACK` on
    the extended chain yields a state denoting the same positions (`SamePositions`: same page
    indices and offsets for head and read position, same head id), the page at the head index of
    `new` has event headers and carries the head offset and id in its header, and from the new
    head on the ids of `new` are consecutive again (the next ACK starts from a well-formed chain). -/
theorem stale_positions_valid (P : Nat) (old new : List QPage) (a b b' endID : Nat) (hx : Extends old new)
    (hr : IdRanges a old b) (hab : a < b) (he : endID ≤ b) (hr' : IdRanges a new b')
    (st : AckState) (h : ackInit P old endID = some st) :
    ∃ st', ackInit P new endID = some st' ∧ SamePositions old new st st' ∧
      ∃ K', new[st.freed]? = some K' ∧ K'.off ≠ 0 ∧ K'.off = st.headOff ∧ K'.first = st.headId ∧
        a ≤ st.headId ∧ IdRanges st.headId (applyAck new st.freed) b' := by
  have hne : old ≠ [] := by intro h; subst h; simp only [IdRanges] at hr; omega
  obtain ⟨st', h1, h2⟩ := ackInit_ext P (hx.chainExt hne) a b endID hr hab he st h
  obtain ⟨f1, _, K', ks', d1, _, d3, d4, d5⟩ := ackInit_head P new endID st' h1
  obtain ⟨s1, s2, s3, _⟩ := h2
  rw [s1] at d1
  have hK : new[st.freed]? = some K' := by
    have := congrArg (fun l => l[0]?) d1
    simpa using this
  obtain ⟨i1, i2⟩ := IdRanges_drop new a b' st.freed K' hr' hK d5
  refine ⟨st', h1, ⟨s1, s2, s3, ‹_›⟩, K', hK, d5, by rw [← d3, s2], by rw [← d4, s3], ?_, ?_⟩
  · rw [← s3, d4]; exact i1
  · rw [← s3, d4]; exact i2

/-! ## chains the writer produces: nothing lost, nothing delivered twice -/

/-- **C13, stale ACK on the writer's chains.**  The producer has written `evs` (ids `id …`) when the
    consumer plans the ACK of the events `< endID`, and `evs ++ suf` when the plan is applied.
    The chains are related by `Extends`; the stale state `st` is applied to `new`:
    a reader entering `new` at the stale head `(page st.freed, st.headOff, st.headId)` is delivered
    the events `st.headId, …` up to the new tail, and a reader continuing at the stale read position
    `(page j, st.readOff)` is delivered exactly the events `endID, endID + 1, …` up to the new tail,
    each once and in order: all events not acknowledged, including those appended meanwhile. -/
theorem stale_ack_delivers (P S : Nat) (hS : S + 28 = P) (h4 : 4 ≤ S) (c : QPage) (id : Nat)
    (evs suf : List (List UInt8)) (hc : Chain S c id) (hne : evs ≠ [])
    (hsz : ∀ e ∈ evs ++ suf, e.length < 2 ^ 32) (endID : Nat) (h1 : id ≤ endID) (h2 : endID ≤ id + evs.length) :
    Extends (layoutFrom S c id evs) (layoutFrom S c id (evs ++ suf)) ∧
    ∃ (st : AckState) (j : Nat),
      ackInit P (layoutFrom S c id evs) endID = some st ∧
      st.freed = (ackPlan (layoutFrom S c id (evs ++ suf)) endID).1 ∧
      st.headPages = (layoutFrom S c id evs).drop st.freed ∧
      st.readPages = (layoutFrom S c id evs).drop j ∧ st.freed ≤ j ∧ j < (layoutFrom S c id evs).length ∧
      id ≤ st.headId ∧ st.headId ≤ endID ∧
      parseFrom P ((layoutFrom S c id (evs ++ suf)).drop st.freed) st.headOff
          (id + (evs ++ suf).length - st.headId) = some ((evs ++ suf).drop (st.headId - id)) ∧
      parseFrom P ((layoutFrom S c id (evs ++ suf)).drop j) st.readOff
          (id + (evs ++ suf).length - endID) = some ((evs ++ suf).drop (endID - id)) := by
  have hn : 0 < evs.length := List.length_pos_iff.mpr hne
  have hcE := layoutFrom_chainExt S h4 c id evs suf hc.1
  refine ⟨hcE.extends, ?_⟩
  obtain ⟨st, K, i1, _, _, _, _, i6, i7, i8, _, _⟩ :=
    ackInit_chain P S hS h4 c id evs hc hne (fun e he => hsz e (List.mem_append_left _ he)) endID h1 h2
  obtain ⟨st2, K2, n1, n2, _, _, _, _, _, _, n9, n10⟩ :=
    ackInit_chain P S hS h4 c id (evs ++ suf) hc (by simp [hne]) hsz endID h1
      (by simp only [List.length_append]; omega)
  have hids := (layoutFrom_ids S h4 evs c id hc.1).1
  have hstart : startId c id = id := by simp [startId, hc.2.1]
  rw [hstart] at hids
  obtain ⟨st', e1, s1, s2, s3, s4, s5, s6, j, j1, j2, j3, j4⟩ :=
    ackInit_ext P hcE id (id + evs.length) endID hids (by omega) h2 st i1
  rw [n1] at e1
  simp only [Option.some.injEq] at e1
  subst e1
  refine ⟨st, j, i1, by rw [← s1, n2], s5, j3, j1, j2, by rw [i6]; exact i7, by rw [i6]; exact i8, ?_, ?_⟩
  · rw [← s6, ← s2, ← s3]; exact n9
  · rw [← j4, ← s4]; exact n10

/-! ## concrete instances (P = 64)

  old chain: events 10 … 15 (sizes 20, 10, 10, 10, 20, 5) on 3 pages, tail id 16.
  The producer then writes events 16, 17 (sizes 3, 40): the last page is rewritten
  (`last` 15 → 16, 27 → 36 payload bytes) and 2 pages are appended. -/

abbrev c13Old : List (List UInt8) := [ev 20 1, ev 10 2, ev 10 3, ev 10 4, ev 20 5, ev 5 6]
abbrev c13Suf : List (List UInt8) := [ev 3 7, ev 40 8]

set_option maxRecDepth 100000 in
example : pageSummary (layout 64 10 c13Old) = [(10, 11, 28, 36), (12, 14, 30, 36), (15, 15, 46, 27)] ∧
    pageSummary (layout 64 10 (c13Old ++ c13Suf))
      = [(10, 11, 28, 36), (12, 14, 30, 36), (15, 16, 46, 36), (17, 17, 28, 36), (0, 0, 0, 8)] := by
  decide +kernel

/-- the hypotheses of the theorems hold for this pair of chains -/
example : Extends (layout 64 10 c13Old) (layout 64 10 (c13Old ++ c13Suf)) ∧
    IdRanges 10 (layout 64 10 c13Old) 16 := by
  refine ⟨?_, by simpa using (layout_header_fields 64 (by omega) 10 c13Old).2⟩
  rw [layout_eq_layoutFrom 64 10 c13Old (by simp), layout_eq_layoutFrom 64 10 (c13Old ++ c13Suf) (by simp)]
  exact layoutFrom_extends 36 (by omega) QPage.fresh 10 c13Old c13Suf (WInv_fresh _ _)

-- stale and fresh plan for every `endID` the consumer may acknowledge (10 … 16, the old tail id):
-- equal.  `endID = 13` acknowledges into the middle of page 1 (events 12 … 14): page 0 is freed.
set_option maxRecDepth 100000 in
example : (List.range 7).map (fun i => ackPlan (layout 64 10 c13Old) (10 + i))
      = [(0, false), (0, false), (0, false), (1, false), (1, false), (1, false), (2, false)] ∧
    (List.range 7).map (fun i => ackPlan (layout 64 10 (c13Old ++ c13Suf)) (10 + i))
      = [(0, false), (0, false), (0, false), (1, false), (1, false), (1, false), (2, false)] := by
  decide +kernel

-- the condition `endID ≤ old tail id` of `stale_plan_eq` is needed: for `endID = 18` (rejected by
-- `initACK` on the old chain, ACKTooMany) the stale walk stops at the old last page (2 pages), a
-- fresh walk also collects the rewritten page (3 pages): second case of `stale_plan_prefix`
set_option maxRecDepth 100000 in
example : ackPlan (layout 64 10 c13Old) 18 = (2, false) ∧
    ackPlan (layout 64 10 (c13Old ++ c13Suf)) 18 = (3, false) := by decide +kernel

-- stale and fresh `initACK` state for `endID = 13`: same head (page 1, offset 30, id 12) and same
-- read position (page 1 = 3 - 2 = 5 - 4, offset 44)
set_option maxRecDepth 100000 in
example : (ackInit 64 (layout 64 10 c13Old) 13).map
      (fun st => (st.freed, st.headOff, st.headId, st.readPages.length, st.readOff)) = some (1, 30, 12, 2, 44) ∧
    (ackInit 64 (layout 64 10 (c13Old ++ c13Suf)) 13).map
      (fun st => (st.freed, st.headOff, st.headId, st.readPages.length, st.readOff)) = some (1, 30, 12, 4, 44) := by
  decide +kernel

-- a reader at the stale read position (page 1, offset 44) of the NEW chain is delivered the events
-- 13 … 17; everything acknowledged (`endID = 16`): stale read position (page 2, offset 55) = old
-- tail, the reader gets the two new events
set_option maxRecDepth 100000 in
example : parseFrom 64 ((layout 64 10 (c13Old ++ c13Suf)).drop 1) 44 5 = some ((c13Old ++ c13Suf).drop 3) ∧
    (ackInit 64 (layout 64 10 c13Old) 16).map
      (fun st => (st.freed, st.headOff, st.headId, st.readPages.length, st.readOff)) = some (2, 46, 15, 1, 55) ∧
    parseFrom 64 ((layout 64 10 (c13Old ++ c13Suf)).drop 2) 55 2 = some c13Suf := by
  decide +kernel

-- `cleanAll`: one event of 70 bytes (id 0, tail id 1) on 3 pages, the last one data-only.  Every
-- `endID` `initACK` accepts (0, 1) gives no `cleanAll`; only `endID = 2` (ACKTooMany in `initACK`)
-- does.  Even that plan, applied after the producer has added event 1 (its header starts in the
-- rewritten last page), frees pages 0 and 1 only; the page with event 1 is kept.
set_option maxRecDepth 100000 in
example : pageSummary (layout 64 0 [ev 70 5]) = [(0, 0, 28, 36), (0, 0, 0, 36), (0, 0, 0, 2)] ∧
    pageSummary (layout 64 0 [ev 70 5, ev 3 6]) = [(0, 0, 28, 36), (0, 0, 0, 36), (1, 1, 30, 9)] ∧
    ackPlan (layout 64 0 [ev 70 5]) 0 = (0, false) ∧ ackPlan (layout 64 0 [ev 70 5]) 1 = (0, false) ∧
    ackPlan (layout 64 0 [ev 70 5]) 2 = (2, true) ∧
    ackPlan (layout 64 0 [ev 70 5, ev 3 6]) 2 = (2, false) := by decide +kernel

end TxVerif
