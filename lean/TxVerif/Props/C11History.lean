/-
  C11 — space is conserved, over whole transactions and histories.
  "On a bounded file (maxPages > 0) not using the overflow area, at every quiescent point:
   allocatable pages + live pages + meta-area pages + 2 header pages = maxPages; across any
   sequence of transactions, committed or rolled back."

  The specification keeps a ledger `(L, M)`: `L` the data pages owned by the user, `M` the pages of
  the meta area in use (`AOp.ledger`: allocated pages join `L`; a page allocated freshly by the
  running transaction leaves `L` when it is freed, a committed page when the transaction commits;
  overwrite / free-list pages join `M`). The caller's discipline (`AOp.owned`): only pages in `L`
  are freed, only pages in `M` are released. `TInv a st L M` is `Accounted a L.length` strengthened
  by what is needed to carry it through a transaction; `Quiet a L M` the same between transactions.
  Definitions and proofs: `TxVerif/Proofs/Account.lean`.
-/
import TxVerif.Props.C11
import TxVerif.Proofs.Account
namespace TxVerif

theorem TInv.accounted {a : Alloc} {st : TxAlloc} {L M : List Nat} (h : TInv a st L M) : Accounted a L.length := h.acc
theorem Quiet.accounted {a : Alloc} {L M : List Nat} (h : Quiet a L M) : Accounted a L.length := h.acc

/-- (a) EVERY allocator operation of a transaction keeps the invariant, hence the accounting
    equation with the ledger's live count -/
theorem op_keeps_invariant (s : Alloc × TxAlloc) (lg : List Nat × List Nat) (op : AOp)
    (h : TInv s.1 s.2 lg.1 lg.2) (ho : op.owned lg.1 lg.2) :
    TInv (op.apply s).1 (op.apply s).2 (op.ledger s lg).1 (op.ledger s lg).2 ∧
    Accounted (op.apply s).1 (op.ledger s lg).1.length :=
  ⟨tinv_apply s lg op h ho, (tinv_apply s lg op h ho).acc⟩

/-- (a) the live count moves in the obvious way: `+n` for an allocation of `n` pages, `-1` when a
    page allocated by this transaction is freed (a committed page stays live until the commit),
    unchanged by failing operations and by the operations of the meta area -/
theorem live_count (s : Alloc × TxAlloc) (lg : List Nat × List Nat) (op : AOp)
    (h : TInv s.1 s.2 lg.1 lg.2) (ho : op.owned lg.1 lg.2) :
    (op.ledger s lg).1.length =
      match op with
      | .allocData n => if (dataAllocRegions s.1 s.2 n).isSome then lg.1.length + n else lg.1.length
      | .freeData id => if s.2.data.new_.contains id then lg.1.length - 1 else lg.1.length
      | _ => lg.1.length := ledger_length s lg op h ho

/-- (a) for operation lists -/
theorem ops_keep_invariant (ops : List AOp) (s : Alloc × TxAlloc) (lg : List Nat × List Nat)
    (h : TInv s.1 s.2 lg.1 lg.2) (hd : Disciplined s lg ops) :
    (runLedger s lg ops).1 = runAOps s ops ∧
    TInv (runAOps s ops).1 (runAOps s ops).2 (runLedger s lg ops).2.1 (runLedger s lg ops).2.2 ∧
    Accounted (runAOps s ops).1 (runLedger s lg ops).2.1.length := by
  have := tinv_run ops s lg h hd
  rw [runLedger_fst] at this
  exact ⟨runLedger_fst s lg ops, this, this.acc⟩

/-- (b) the commit: the pages freed by the transaction become allocatable, the live count drops by
    their number. Needs (all part of `TInv`): bounded file, end markers within the limit
    (`a.data.endMarker ≤ a.maxPages`, `a.mta.endMarker ≤ a.maxPages`: no overflow area),
    `st.overflow = false`, the freed pages are owned and not free; `hupd`: the engine commits the
    allocator state if the transaction changed it. -/
theorem commit_accounting (a : Alloc) (st : TxAlloc) (L M : List Nat) (upd : Bool) (a1 : Alloc) (st1 : TxAlloc)
    (cs : AllocCommit) (h : TInv a st L M) (hupd : st.updated = true → upd = true)
    (hc : fileCommitAlloc a st upd = some (a1, st1, cs)) :
    Accounted (a1.commit cs) (L.length - st.data.freed.length) ∧ st.data.freed.length ≤ L.length ∧
    Quiet (a1.commit cs) (removeIds L st.data.freed) (removeIds (cs.allocRegions ++ M) st1.mta.freed) :=
  tinv_commit_count a st L M upd a1 st1 cs h hupd hc

/-- (b) with the minimal hypotheses, on the state after the pages for the free list were allocated -/
theorem commit_accounting_min (a : Alloc) (st : TxAlloc) (a1 : Alloc) (st1 : TxAlloc) (cs : AllocCommit) (live : Nat)
    (hc : fileCommitAlloc a st true = some (a1, st1, cs)) (hacc : Accounted a1 live)
    (hd : a1.data.endMarker ≤ a1.maxPages) (hm : a1.mta.endMarker ≤ a1.maxPages)
    (hnd : st1.data.freed.Nodup) (hdisj : ∀ x ∈ st1.data.freed, x ∉ a1.data.free)
    (hle : st1.data.freed.length ≤ live) :
    Accounted (a1.commit cs) (live - st1.data.freed.length) :=
  commit_count_min a st a1 st1 cs live hc hacc hd hm hnd hdisj hle

/-- (c) rollback: the state (and the ledger) of the begin of the transaction -/
theorem rollback_accounting_ledger (a0 : Alloc) (L M : List Nat) (hq : Quiet a0 L M) (pct : Nat) (ops : List AOp) :
    let s := runAOps (a0, a0.beginTx false pct) ops
    s.1.rollback s.2 = a0 ∧ Accounted (s.1.rollback s.2) L.length :=
  ⟨rollback_restores a0 hq.allocWF false pct ops, rollback_accounting a0 hq.allocWF false pct ops L.length hq.acc⟩

/-- the quiescent invariant implies the well-formedness the other allocator theorems assume -/
theorem quiet_allocWF (a : Alloc) (L M : List Nat) (hq : Quiet a L M) : allocWF a = true := hq.allocWF

/-- (d) one whole transaction (`runTx`: begin, operations, commit — a commit that runs out of space
    rolls back — or rollback) keeps the quiescent invariant -/
theorem tx_keeps_quiet (q : QState) (t : Tx) (hq : Quiet q.1 q.2.1 q.2.2)
    (hd : Disciplined (q.1, q.1.beginTx false t.growPct) (q.2.1, q.2.2) t.ops) :
    Quiet (runTx q t).1 (runTx q t).2.1 (runTx q t).2.2 := quiet_runTx q t hq hd

/-- (d) histories: after every transaction of a disciplined history the quiescent invariant holds,
    in particular `Accounted` with the ledger's live count and `allocWF` -/
theorem history_accounted (h : List Tx) (q0 : QState) (hq : Quiet q0.1 q0.2.1 q0.2.2) (hd : HistDisciplined q0 h) (k : Nat) :
    Quiet (runHist q0 (h.take k)).1 (runHist q0 (h.take k)).2.1 (runHist q0 (h.take k)).2.2 ∧
    Accounted (runHist q0 (h.take k)).1 (runHist q0 (h.take k)).2.1.length ∧
    allocWF (runHist q0 (h.take k)).1 = true := by
  have := quiet_runHist (h.take k) q0 hq (histDisciplined_take h q0 k hd)
  exact ⟨this, this.acc, this.allocWF⟩

/-- **C11**: at every quiescent point of a disciplined history of a bounded file not using the
    overflow area: allocatable + live + meta area + 2 header pages = maxPages -/
theorem history_space_eq (h : List Tx) (q0 : QState) (hq : Quiet q0.1 q0.2.1 q0.2.2) (hd : HistDisciplined q0 h) (k : Nat) :
    (runHist q0 (h.take k)).1.dataAvail + (runHist q0 (h.take k)).2.1.length + (runHist q0 (h.take k)).1.metaTotal + 2
      = (runHist q0 (h.take k)).1.maxPages := by
  have := (history_accounted h q0 hq hd k).1
  exact space_eq _ _ this.maxPos this.dLim this.acc

/-! ### the hypotheses are satisfiable -/

/-- a freshly created file, and a file in the middle of its life -/
example : Quiet (FileSt.create 1024 64 4).alloc [] [2] := by decide
example : Quiet { maxPages := 40, pageSize := 1024, data := { endMarker := 30, free := [3, 4, 5, 9, 10, 20, 29] },
                  mta := { endMarker := 30, free := [6, 7, 15] }, metaTotal := 5, freelistPages := [8] }
    [2, 11, 12, 13, 14, 16, 17, 18, 19, 21, 22, 23, 24, 25, 26, 27] [8, 28] := by decide

/-- a history on the fresh file: commit with frees of new and committed pages and growth of the meta
    area, a rollback, a commit that frees committed pages, a transaction that fills the file (its
    second allocation fails). The discipline holds; live counts 0, 4, 4, 3, 53. -/
def exampleHistory : List Tx := [
  { ops := [.allocData 5, .walAlloc, .freeData 8, .metaFree 2, .metaAlloc 1], fin := .commit false },
  { ops := [.freeData 6, .allocData 2, .freeData 15, .walAlloc], fin := .rollback },
  { ops := [.freeData 7, .freeData 9, .allocData 1, .metaFree 5, .metaFree 14], fin := .commit false },
  { ops := [.allocData 50, .allocData 60, .metaFree 13], fin := .commit true } ]

example : HistDisciplined ((FileSt.create 1024 64 4).alloc, [], [2]) exampleHistory := by decide
example : (List.range 5).map (fun k =>
      let q := runHist ((FileSt.create 1024 64 4).alloc, [], [2]) (exampleHistory.take k)
      (q.1.dataAvail, q.2.1.length, q.1.metaTotal, q.1.data.endMarker)) =
    [(58, 0, 4, 6), (50, 4, 8, 15), (50, 4, 8, 15), (51, 3, 8, 15), (1, 53, 8, 63)] := by decide

/-- the hypotheses of `commit_accounting` on a non-trivial state: the third transaction of the example
    history before its commit — two committed pages pending, 4 pages live, 2 after the commit -/
example :
    let q := runHist ((FileSt.create 1024 64 4).alloc, [], [2]) (exampleHistory.take 2)
    let r := runLedger (q.1, q.1.beginTx false 80) (q.2.1, q.2.2) [.freeData 7, .freeData 9, .metaFree 5, .metaFree 14]
    TInv r.1.1 r.1.2 r.2.1 r.2.2 ∧ r.1.2.data.freed = [7, 9] ∧ r.2.1.length = 4 ∧
    (fileCommitAlloc r.1.1 r.1.2 true).map (fun c => (c.1.commit c.2.2).data.free) = some [7, 8, 9] := by
  refine ⟨tinv_run _ _ _ (Quiet.begin (by decide) 80) (by decide), by decide, by decide, by decide⟩

/-! ### the hypotheses are needed -/

/-- with the overflow area enabled the equation breaks: a full bounded file gets its overwrite page
    from beyond the limit, `metaTotal` grows, the data area does not -/
example :
    let a : Alloc := { maxPages := 6, data := { endMarker := 6 }, mta := { endMarker := 6 }, metaTotal := 1 }
    Accounted a 3 ∧
    (walAlloc a (a.beginTx true 80)).map (fun r => (r.1.data.endMarker, r.1.data.free, r.1.metaTotal, r.2.2))
      = some (6, [], 2, 6) := by
  unfold Accounted; decide

/-- a file with an overflow area `[6, 8)`: the commit that releases the overflow page 7 moves the
    data end marker to 7, beyond the limit 6 (`space_eq` and `allocWF` need `endMarker ≤ maxPages`) -/
example :
    let a : Alloc := { maxPages := 6, data := { endMarker := 6 }, mta := { endMarker := 8, free := [3] }, metaTotal := 4 }
    let st : TxAlloc := { a.beginTx true 80 with mta := { end0 := 8, freed := [7] } }
    (fileCommitAlloc a st true).map (fun r => ((r.1.commit r.2.2).data.endMarker, (r.1.commit r.2.2).maxPages,
      allocWF (r.1.commit r.2.2))) = some (7, 6, false) := by decide

instance (a : Alloc) (live : Nat) : Decidable (Accounted a live) := by unfold Accounted; infer_instance

/-- freeing a page that is not owned (here: page 5, which is free) breaks the count, the discipline
    is needed: the transaction "freed" one page, but the live count stays 5 -/
example :
    let a : Alloc := { maxPages := 40, data := { endMarker := 12, free := [5] }, mta := { endMarker := 12, free := [3, 4, 11] },
                       metaTotal := 4 }
    let s := AOp.apply (a, a.beginTx false 80) (.freeData 5)
    Quiet a [6, 7, 8, 9, 10] [2] ∧ ¬ (AOp.freeData 5).owned [6, 7, 8, 9, 10] [2] ∧
    (fileCommitAlloc s.1 s.2 true).map (fun r => (r.2.1.data.freed, (r.1.commit r.2.2).data.free,
      decide (Accounted (r.1.commit r.2.2) (5 - 1)), decide (Accounted (r.1.commit r.2.2) 5)))
      = some ([5], [5], false, true) := by decide

end TxVerif
