/-
  ONE invariant for whole file lifetimes: histories that interleave write transactions (any overflow flag;
  committed, failed, rolled back), close + reopen (`FileSt.reopenP`) and open-time limit changes
  (`FileSt.resize n`, Model/Resize.lean: grow, shrink, remove the limit, bound an unbounded file).

  `EngInvU f live` (= `U.EngInv`, Proofs/LifetimeRefine1.lean; `U.WF`, Proofs/LifetimeRollback.lean) is `EngInvO`
  WITHOUT the clauses that relate the data area to the page limit — they are genuinely false after a shrink:
      `liveLim`  (live pages below the limit)        live pages stay where they are when the limit is lowered
      `wf.limit` (free data pages below the limit)   free pages at or beyond the new limit stay in the free list until
                                                     a commit / the release transaction drops those at the END of the area
      `ends`     (order of the end markers / limit)  replaced by `wf.limit : free data pages lie below the META end marker`
      `hdr`, `2 ≤ x` for internal pages              the conditional header clauses are not stable under limit changes
                                                     (kept: `2 ≤ x` for every live page and every free data page)
  kept: free lists well formed and disjoint; every live page and every internal page (overwrite pages, mapping pages,
  free-list pages) is `InUse` — in neither free list, below the meta end marker, and below the data end marker or
  at / beyond the limit (so the data area can never grow into it) —; the mapping sane; the accounting of the meta
  area; `lim2` (a limit covers the two header pages).

  Preserved by ALL step kinds (`lifetime_invariant`):
    (1) every outcome of a write transaction, any overflow flag         `runTxnO_invU`   (U.commit_engInv: the commit
        now also releases free DATA pages at the end of the file beyond the limit, `U.relShape`)
    (2) `reopenP`                                                        `U.engInv_reopenP` (identity up to the statistic)
    (3) `resize n` / `resizeWith k n`, every decision kind, every `n` with `n = 0 ∨ 2 ≤ n`   `U.engInv_resizeWith`
        — no `ResizeOK` / `RKind.pre` hypothesis: the corner left open by `c14e_resize_invariant_partial` (meta end marker
        above the data end marker with nothing in between, limit lowered below the data end marker) is covered.
  Strong enough for the data theorems (re-derived from `EngInvU`): C03 `c03u_*`, C04 `c04u_*`, C07 `c07u_*`, and the
  frames of reopen / resize (`c10p_reopen_logical`, `c14e_resize_frame` need no invariant).
  Lifetime theorems: `lifetime_invariant`, `lifetime_commit_publishes`, `lifetime_untouched`, `lifetime_alloc_fresh`,
  `lifetime_abort_restores`, `lifetime_alloc_no_extension`.
-/
import TxVerif.Proofs.LifetimeResize
import TxVerif.Proofs.LifetimeCheck
import TxVerif.Props.C10Precise
import TxVerif.Props.C14Engine
namespace TxVerif

/-- the invariant of a committed state at any point of a file lifetime; `live` are the data pages the client owns.
    Fields: see `U.EngInv` (Proofs/LifetimeRefine1.lean) and `U.WF` (Proofs/LifetimeRollback.lean). -/
abbrev EngInvU (f : FileSt) (live : List Nat) : Prop := U.EngInv f live

/-- `EngInvU` is implied by `EngInvO` … -/
theorem engInvU_of_engInvO (f : FileSt) (live : List Nat) (h : EngInvO f live) : EngInvU f live :=
  U.engInv_of_ov h

/-- … hence by `EngInv` -/
theorem engInvU_of_engInv (f : FileSt) (live : List Nat) (h : EngInv f live) : EngInvU f live :=
  U.engInv_of_ov (engInvO_of_engInv f live h)

/-- every file `FileSt.create` produces satisfies it -/
theorem engInvU_create_any (ps mp im : Nat) (hmp : mp = 0 ∨ 2 + im ≤ mp) : EngInvU (FileSt.create ps mp im) [] :=
  U.engInv_of_ov (engInvO_create_any ps mp im hmp)

theorem runInvU_start (f : FileSt) (live : List Nat) (he : EngInvU f live) (ov : Bool) (g wl : Nat) :
    U.RunInv f live (ERunSt.start f live ov g wl) :=
  ⟨U.txinv_begin f live he ov g wl, fun _ _ => by simp [ERunSt.start, txView, FileSt.beginTx, Assoc.get?]⟩

/-! ## the per-transaction statements, from `EngInvU` -/

/-- **C03 (3a, 3b)** from `EngInvU`: a successful commit publishes exactly the abstract store of the
    transaction (statement as `c03_commit_publishes`) -/
theorem c03u_commit_publishes (f : FileSt) (live : List Nat) (he : EngInvU f live) (ov : Bool) (g wl : Nat)
    (ops : List EOp) (order : List Nat) (f2 : FileSt) (tx2 : TxSt) (ws : List (Nat × Nat))
    (hflush : flushList (runEOps (ERunSt.start f live ov g wl) ops).f (runEOps (ERunSt.start f live ov g wl) ops).tx
      order = .ok (f2, tx2, ws))
    (hall : tx2.unflushed = []) (hok : (commitAfterFlush f2 tx2).2.1 = .ok) :
    ∀ id ∈ (runEOps (ERunSt.start f live ov g wl) ops).cur, ∀ c,
      (runEOps (ERunSt.start f live ov g wl) ops).σ id = some c → (commitAfterFlush f2 tx2).1.readPage id = c := by
  have hr := U.runinv_ops he ops _ (runInvU_start f live he ov g wl)
  obtain ⟨h2, v2⟩ := U.txinv_flushList he order _ _ hr.tx f2 tx2 ws hflush
  intro id hid c hc
  apply (U.commit_data he h2 (allFlushed_of_unflushed tx2 hall)).1 hok id hid c
  rw [v2 id, ← hr.view id hid]; exact hc

/-- **C03 (3d), abort** from `EngInvU` (statement as `c03_abort_restores`) -/
theorem c03u_abort_restores (f : FileSt) (live : List Nat) (he : EngInvU f live) (ov : Bool) (g wl : Nat)
    (ops : List EOp) :
    let s := runEOps (ERunSt.start f live ov g wl) ops
    EngInvU (txAbort s.f s.tx) live ∧ (txAbort s.f s.tx).alloc = f.alloc ∧ (txAbort s.f s.tx).walMap = f.walMap ∧
    ∀ id ∈ live, (txAbort s.f s.tx).readPage id = f.readPage id :=
  U.abort_spec he (U.runinv_ops he ops _ (runInvU_start f live he ov g wl)).tx

/-- **C03 (3d), failed commit** from `EngInvU` (statement as `c03_failed_commit_restores`) -/
theorem c03u_failed_commit_restores (f : FileSt) (live : List Nat) (he : EngInvU f live) (ov : Bool) (g wl : Nat)
    (ops : List EOp) (order : List Nat) (f2 : FileSt) (tx2 : TxSt) (ws : List (Nat × Nat))
    (hflush : flushList (runEOps (ERunSt.start f live ov g wl) ops).f (runEOps (ERunSt.start f live ov g wl) ops).tx
      order = .ok (f2, tx2, ws))
    (hall : tx2.unflushed = []) (hfail : (commitAfterFlush f2 tx2).2.1 ≠ .ok) :
    EngInvU (commitAfterFlush f2 tx2).1 live ∧ (commitAfterFlush f2 tx2).1.alloc = f.alloc ∧
    ∀ id ∈ live, (commitAfterFlush f2 tx2).1.readPage id = f.readPage id := by
  have hr := U.runinv_ops he ops _ (runInvU_start f live he ov g wl)
  obtain ⟨h2, -⟩ := U.txinv_flushList he order _ _ hr.tx f2 tx2 ws hflush
  obtain ⟨r1, r2, -, r4⟩ := (U.commit_data he h2 (allFlushed_of_unflushed tx2 hall)).2 hfail
  exact ⟨r1, r2, r4⟩

/-- **C03 (3c), full strength**: after a successful commit of a transaction with ANY overflow flag `ov`,
    begun in a committed state that may itself use the overflow area, the invariant of a committed state
    holds again for the pages the client owns now (live + allocated − freed).
    (`c03_commit_invariant_partial` is the case `ov = false` from the stronger `EngInv`.) -/
theorem c03u_commit_invariant (f : FileSt) (live : List Nat) (he : EngInvU f live) (ov : Bool) (g wl : Nat)
    (ops : List EOp) (order : List Nat) (f2 : FileSt) (tx2 : TxSt) (ws : List (Nat × Nat))
    (hflush : flushList (runEOps (ERunSt.start f live ov g wl) ops).f
      (runEOps (ERunSt.start f live ov g wl) ops).tx order = .ok (f2, tx2, ws))
    (hall : tx2.unflushed = []) (hok : (commitAfterFlush f2 tx2).2.1 = .ok) :
    EngInvU (commitAfterFlush f2 tx2).1 (runEOps (ERunSt.start f live ov g wl) ops).cur := by
  have hr := U.runinv_ops he ops _ (runInvU_start f live he ov g wl)
  obtain ⟨h2, -⟩ := U.txinv_flushList he order _ _ hr.tx f2 tx2 ws hflush
  exact U.commit_engInv he h2 (allFlushed_of_unflushed tx2 hall) hok

/-- **C03 (3b)** from `EngInvU`: a committed page that no operation of the transaction writes or frees keeps
    its content -/
theorem c03u_untouched_kept (f : FileSt) (live : List Nat) (he : EngInvU f live) (ov : Bool) (g wl : Nat)
    (ops : List EOp) (order : List Nat) (f2 : FileSt) (tx2 : TxSt) (ws : List (Nat × Nat))
    (hflush : flushList (runEOps (ERunSt.start f live ov g wl) ops).f (runEOps (ERunSt.start f live ov g wl) ops).tx
      order = .ok (f2, tx2, ws))
    (hall : tx2.unflushed = []) (hok : (commitAfterFlush f2 tx2).2.1 = .ok)
    (id : Nat) (hid : id ∈ live) (hun : ∀ op ∈ ops, op.touches id = false) :
    (commitAfterFlush f2 tx2).1.readPage id = f.readPage id := by
  obtain ⟨h1, h2⟩ := U.runOps_untouched he ops _ (runInvU_start f live he ov g wl) id hid hun
  exact c03u_commit_publishes f live he ov g wl ops order f2 tx2 ws hflush hall hok id h2 _ h1

/-- **C03 (3a)** from `EngInvU`: last write wins (statement as `c03_last_write`) -/
theorem c03u_last_write (f : FileSt) (live : List Nat) (he : EngInvU f live) (ov : Bool) (g wl : Nat)
    (pre post : List EOp) (id : Nat) (mode : WMode) (st : Nat) (tx' : TxSt)
    (hid : id ∈ (runEOps (ERunSt.start f live ov g wl) pre).cur)
    (hw : txWrite (runEOps (ERunSt.start f live ov g wl) pre).f (runEOps (ERunSt.start f live ov g wl) pre).tx
      id mode st = .ok tx')
    (hun : ∀ op ∈ post, op.touches id = false)
    (order : List Nat) (f2 : FileSt) (tx2 : TxSt) (ws : List (Nat × Nat))
    (hflush : flushList (runEOps (ERunSt.start f live ov g wl) (pre ++ [EOp.write id mode st] ++ post)).f
      (runEOps (ERunSt.start f live ov g wl) (pre ++ [EOp.write id mode st] ++ post)).tx order = .ok (f2, tx2, ws))
    (hall : tx2.unflushed = []) (hok : (commitAfterFlush f2 tx2).2.1 = .ok) :
    (commitAfterFlush f2 tx2).1.readPage id =
      wr mode id st (((runEOps (ERunSt.start f live ov g wl) pre).σ id).getD {}) := by
  have hr1 := U.runinv_ops he pre _ (runInvU_start f live he ov g wl)
  obtain ⟨w1, w2⟩ := step_write_ok _ id mode st tx' hid hw
  have hr2 := U.runinv_step he _ (EOp.write id mode st) hr1
  obtain ⟨u1, u2⟩ := U.runOps_untouched he post _ hr2 id (w2 ▸ hid) hun
  have e : runEOps (ERunSt.start f live ov g wl) (pre ++ [EOp.write id mode st] ++ post) =
      runEOps ((EOp.write id mode st).step (runEOps (ERunSt.start f live ov g wl) pre)) post := by
    rw [runOps_append, runOps_append]; rfl
  apply c03u_commit_publishes f live he ov g wl _ order f2 tx2 ws hflush hall hok id
  · rw [e]; exact u2
  · rw [e, u1, w1]

/-- special case: a full `SetBytes` -/
theorem c03u_last_write_full (f : FileSt) (live : List Nat) (he : EngInvU f live) (ov : Bool) (g wl : Nat)
    (pre post : List EOp) (id st : Nat) (tx' : TxSt)
    (hid : id ∈ (runEOps (ERunSt.start f live ov g wl) pre).cur)
    (hw : txWrite (runEOps (ERunSt.start f live ov g wl) pre).f (runEOps (ERunSt.start f live ov g wl) pre).tx
      id .full st = .ok tx')
    (hun : ∀ op ∈ post, op.touches id = false)
    (order : List Nat) (f2 : FileSt) (tx2 : TxSt) (ws : List (Nat × Nat))
    (hflush : flushList (runEOps (ERunSt.start f live ov g wl) (pre ++ [EOp.write id .full st] ++ post)).f
      (runEOps (ERunSt.start f live ov g wl) (pre ++ [EOp.write id .full st] ++ post)).tx order = .ok (f2, tx2, ws))
    (hall : tx2.unflushed = []) (hok : (commitAfterFlush f2 tx2).2.1 = .ok) :
    (commitAfterFlush f2 tx2).1.readPage id = Content.full id st :=
  c03u_last_write f live he ov g wl pre post id .full st tx' hid hw hun order f2 tx2 ws hflush hall hok

/-! ### C04 from `EngInvU` -/

/-- **C04, freshness of allocated pages** from `EngInvU` (statement as `c04_alloc_fresh`): in every state a
    write transaction (any overflow flag) can reach from a committed state satisfying `EngInvU`, `txAlloc`
    returns exactly `n` pairwise distinct page ids, none of them a header page, a page the client owns, a
    page of the committed state, an internal page of the committed state (overwrite / mapping / free-list
    page — in the overflow area or not), an overwrite page taken by the running transaction, or a page the
    running transaction freed -/
theorem c04u_alloc_fresh (f : FileSt) (live : List Nat) (he : EngInvU f live) (ov : Bool) (g wl : Nat)
    (ops : List EOp) (n : Nat) (f' : FileSt) (tx' : TxSt) (ids : List Nat)
    (h : txAlloc (runEOps (ERunSt.start f live ov g wl) ops).f (runEOps (ERunSt.start f live ov g wl) ops).tx n
      = .ok (f', tx', ids)) :
    let s := runEOps (ERunSt.start f live ov g wl) ops
    ids.length = n ∧ ids.Nodup ∧
    ∀ x ∈ ids, 2 ≤ x ∧ x ∉ s.cur ∧ x ∉ live ∧
      x ∉ f.walMap.map (·.2) ∧ x ∉ f.walPages ∧ x ∉ f.alloc.freelistPages ∧
      x ∉ s.tx.walNew.map (·.2) ∧ x ∉ s.tx.ta.data.freed := by
  intro s
  have hr := U.runinv_ops he ops _ (runInvU_start f live he ov g wl)
  obtain ⟨h1, h2, h3⟩ := U.alloc_fresh_tx he hr.tx n f' tx' ids h
  refine ⟨h1, h2, fun x hx => ?_⟩
  obtain ⟨a, b, c, d, e, g', -⟩ := h3 x hx
  have hi := fun hc => d ((mem_internal f x).mpr hc)
  exact ⟨a, b, c, fun hc => hi (Or.inl hc), fun hc => hi (Or.inr (Or.inl hc)),
    fun hc => hi (Or.inr (Or.inr hc)), e, g'⟩

/-- **C04, no id twice while in use** from `EngInvU` -/
theorem c04u_owned_never_returned (f : FileSt) (live : List Nat) (he : EngInvU f live) (ov : Bool) (g wl : Nat)
    (ops : List EOp) (n : Nat) (f' : FileSt) (tx' : TxSt) (ids : List Nat)
    (h : txAlloc (runEOps (ERunSt.start f live ov g wl) ops).f (runEOps (ERunSt.start f live ov g wl) ops).tx n
      = .ok (f', tx', ids)) :
    ∀ x ∈ (runEOps (ERunSt.start f live ov g wl) ops).cur, x ∉ ids :=
  fun x hx hc => ((c04u_alloc_fresh f live he ov g wl ops n f' tx' ids h).2.2 x hc).2.1 hx

/-- **C04, no extension**: on a bounded file, at every point of a transaction begun in any state of a lifetime
    (the limit may lie below the data end marker after a shrink), `Tx.Alloc` never returns a page at or beyond
    max(limit, data end marker) and never moves the data end marker beyond that bound; once the data area reaches
    the limit, pages come from the free list only (`alloc_no_extension`, Props/C14Engine.lean, from `EngInvU`) -/
theorem c04u_alloc_no_extension (f : FileSt) (live : List Nat) (he : EngInvU f live) (ov : Bool) (g wl : Nat)
    (ops : List EOp) (n : Nat) (f' : FileSt) (tx' : TxSt) (ids : List Nat)
    (hpos : 0 < f.alloc.maxPages)
    (h : txAlloc (runEOps (ERunSt.start f live ov g wl) ops).f (runEOps (ERunSt.start f live ov g wl) ops).tx n
      = .ok (f', tx', ids)) :
    let s := runEOps (ERunSt.start f live ov g wl) ops
    (∀ x ∈ ids, x < max f.alloc.maxPages s.f.alloc.data.endMarker) ∧
    f'.alloc.data.endMarker ≤ max f.alloc.maxPages s.f.alloc.data.endMarker ∧
    (f.alloc.maxPages ≤ s.f.alloc.data.endMarker → f'.alloc.data.endMarker = s.f.alloc.data.endMarker ∧
      ∀ x ∈ ids, x ∈ s.f.alloc.data.free) := by
  intro s
  have hr := U.runinv_ops he ops _ (runInvU_start f live he ov g wl)
  have hmx : s.f.alloc.maxPages = f.alloc.maxPages := hr.tx.inv.cfgMax
  have := alloc_no_extension s.f s.tx n f' tx' ids (by rw [hmx]; exact hpos)
    (fun x hx => (hr.tx.aok.dRange x hx).2) h
  rw [hmx] at this
  exact this

/-! ### C07 from `EngInvU` -/

/-- "as if the transaction had never run" (`Restored` with the generalised invariant) -/
def RestoredU (f : FileSt) (live : List Nat) (f1 : FileSt) : Prop :=
  f1.alloc = f.alloc ∧ f1.walMap = f.walMap ∧ f1.walPages = f.walPages ∧ f1.root = f.root ∧
  f1.txid = f.txid ∧ f1.statData = f.statData ∧
  (∀ id ∈ live, f1.diskAt (f.physOf id) = f.diskAt (f.physOf id)) ∧
  (∀ id ∈ live, f1.readPage id = f.readPage id) ∧ EngInvU f1 live

theorem restoredU_of_same {f : FileSt} {live : List Nat} {f1 : FileSt} (he : EngInvU f live)
    (h : SameCommitted f live f1) : RestoredU f live f1 :=
  ⟨h.alloc, h.walMap, h.hdr.2.2.2, h.hdr.1, h.hdr.2.1, h.hdr.2.2.1, h.disk, sameCommitted_read h,
    U.sameCommitted_engInv he h⟩

theorem sameCommittedU_of_abort (f : FileSt) (live : List Nat) (he : EngInvU f live) (ov : Bool) (g wl : Nat)
    (ops : List EOp) :
    SameCommitted f live (txAbort (runEOps (ERunSt.start f live ov g wl) ops).f
      (runEOps (ERunSt.start f live ov g wl) ops).tx) :=
  U.sameCommitted_abort he (U.runinv_ops he ops _ (runInvU_start f live he ov g wl)).tx
    (runOps_hdr ops (ERunSt.start f live ov g wl))

theorem sameCommittedU_of_failed (f : FileSt) (live : List Nat) (he : EngInvU f live) (ov : Bool) (g wl : Nat)
    (ops : List EOp) (order : List Nat) (f2 : FileSt) (tx2 : TxSt) (ws : List (Nat × Nat))
    (hflush : flushList (runEOps (ERunSt.start f live ov g wl) ops).f (runEOps (ERunSt.start f live ov g wl) ops).tx
      order = .ok (f2, tx2, ws))
    (hall : tx2.unflushed = []) (hfail : (commitAfterFlush f2 tx2).2.1 ≠ .ok) :
    SameCommitted f live (commitAfterFlush f2 tx2).1 := by
  have hr := U.runinv_ops he ops _ (runInvU_start f live he ov g wl)
  obtain ⟨h2, -⟩ := U.txinv_flushList he order _ _ hr.tx f2 tx2 ws hflush
  exact U.sameCommitted_failed he h2
    (sameHdr_trans (runOps_hdr ops (ERunSt.start f live ov g wl)) (flushList_hdr order _ _ _ _ _ hflush))
    (allFlushed_of_unflushed tx2 hall) hfail

/-- a final flush that fails half way: the transaction is rolled back from the state the flush reached
    (`flushList` returns no state on error; the abort is the same: see `runTxnO`) -/
theorem sameCommittedU_of_abort_after_flush (f : FileSt) (live : List Nat) (he : EngInvU f live) (ov : Bool)
    (g wl : Nat) (ops : List EOp) (order : List Nat) (f2 : FileSt) (tx2 : TxSt) (ws : List (Nat × Nat))
    (hflush : flushList (runEOps (ERunSt.start f live ov g wl) ops).f (runEOps (ERunSt.start f live ov g wl) ops).tx
      order = .ok (f2, tx2, ws)) :
    SameCommitted f live (txAbort f2 tx2) := by
  have hr := U.runinv_ops he ops _ (runInvU_start f live he ov g wl)
  obtain ⟨h2, -⟩ := U.txinv_flushList he order _ _ hr.tx f2 tx2 ws hflush
  exact U.sameCommitted_abort he h2
    (sameHdr_trans (runOps_hdr ops (ERunSt.start f live ov g wl)) (flushList_hdr order _ _ _ _ _ hflush))

/-- **C07, abort is the identity (engine)** from `EngInvU` (statement as `c07_abort_identity_engine`) -/
theorem c07u_abort_identity_engine (f : FileSt) (live : List Nat) (he : EngInvU f live) (ov : Bool) (g wl : Nat)
    (ops : List EOp) :
    let s := runEOps (ERunSt.start f live ov g wl) ops
    RestoredU f live (txAbort s.f s.tx) :=
  restoredU_of_same he (sameCommittedU_of_abort f live he ov g wl ops)

/-- **C07, a failed commit is the identity (engine)** from `EngInvU` -/
theorem c07u_failed_commit_identity_engine (f : FileSt) (live : List Nat) (he : EngInvU f live) (ov : Bool)
    (g wl : Nat) (ops : List EOp) (order : List Nat) (f2 : FileSt) (tx2 : TxSt) (ws : List (Nat × Nat))
    (hflush : flushList (runEOps (ERunSt.start f live ov g wl) ops).f (runEOps (ERunSt.start f live ov g wl) ops).tx
      order = .ok (f2, tx2, ws))
    (hall : tx2.unflushed = []) (hfail : (commitAfterFlush f2 tx2).2.1 ≠ .ok) :
    RestoredU f live (commitAfterFlush f2 tx2).1 :=
  restoredU_of_same he (sameCommittedU_of_failed f live he ov g wl ops order f2 tx2 ws hflush hall hfail)

/-- a transaction on a restored state runs in lockstep with the same transaction on the original state -/
theorem next_tx_simU {f : FileSt} {live : List Nat} {f1 : FileSt} (he : EngInvU f live)
    (h : SameCommitted f live f1) (ov : Bool) (g wl : Nat) (ops2 : List EOp) :
    Sim (liveAt f live) (runEOps (ERunSt.start f1 live ov g wl) ops2)
      (runEOps (ERunSt.start f live ov g wl) ops2) :=
  U.sim_run he ops2 _ _ (runInvU_start f live he ov g wl) (sim_start h ov g wl)

/-- **C07, the next transaction is identical** from `EngInvU` (statement as `c07_next_tx_identical`) -/
theorem c07u_next_tx_identical (f : FileSt) (live : List Nat) (he : EngInvU f live) (ov : Bool) (g wl : Nat)
    (ops : List EOp) (ov2 : Bool) (g2 wl2 : Nat) :
    let s := runEOps (ERunSt.start f live ov g wl) ops
    (txAbort s.f s.tx).beginTx ov2 g2 wl2 = f.beginTx ov2 g2 wl2 ∧
    ∀ ops2 : List EOp, (runEOps (ERunSt.start (txAbort s.f s.tx) live ov2 g2 wl2) ops2).obs =
      (runEOps (ERunSt.start f live ov2 g2 wl2) ops2).obs := by
  intro s
  have h := sameCommittedU_of_abort f live he ov g wl ops
  exact ⟨sameCommitted_begin h ov2 g2 wl2, fun ops2 => obs_of_sim (next_tx_simU he h ov2 g2 wl2 ops2)⟩

/-- **C07, the next transaction after a failed commit is identical** from `EngInvU` -/
theorem c07u_next_tx_identical_failed (f : FileSt) (live : List Nat) (he : EngInvU f live) (ov : Bool)
    (g wl : Nat) (ops : List EOp) (order : List Nat) (f2 : FileSt) (tx2 : TxSt) (ws : List (Nat × Nat))
    (hflush : flushList (runEOps (ERunSt.start f live ov g wl) ops).f (runEOps (ERunSt.start f live ov g wl) ops).tx
      order = .ok (f2, tx2, ws))
    (hall : tx2.unflushed = []) (hfail : (commitAfterFlush f2 tx2).2.1 ≠ .ok) (ov2 : Bool) (g2 wl2 : Nat) :
    (commitAfterFlush f2 tx2).1.beginTx ov2 g2 wl2 = f.beginTx ov2 g2 wl2 ∧
    ∀ ops2 : List EOp, (runEOps (ERunSt.start (commitAfterFlush f2 tx2).1 live ov2 g2 wl2) ops2).obs =
      (runEOps (ERunSt.start f live ov2 g2 wl2) ops2).obs := by
  have h := sameCommittedU_of_failed f live he ov g wl ops order f2 tx2 ws hflush hall hfail
  exact ⟨sameCommitted_begin h ov2 g2 wl2, fun ops2 => obs_of_sim (next_tx_simU he h ov2 g2 wl2 ops2)⟩


/-! ## one transaction of a lifetime -/

theorem runTxnO_invU (s : FileSt × List Nat) (he : EngInvU s.1 s.2) (t : TxnO) :
    EngInvU (runTxnO s t).1 (runTxnO s t).2 := by
  have hr := U.runinv_ops he t.ops _ (runInvU_start s.1 s.2 he t.overflow t.growPct t.walLimit)
  unfold runTxnO TxnO.run
  dsimp only
  split
  · exact (U.abort_spec he hr.tx).1
  · rename_i f2 tx2 ws hfl
    obtain ⟨h2, -⟩ := U.txinv_flushList he t.order _ _ hr.tx f2 tx2 ws hfl
    split
    · rename_i hall
      split
      · rename_i hok
        exact c03u_commit_invariant s.1 s.2 he t.overflow t.growPct t.walLimit t.ops t.order f2 tx2 ws hfl hall hok
      · rename_i hfail
        exact ((U.commit_data he h2 (allFlushed_of_unflushed tx2 hall)).2 hfail).1
    · exact (U.abort_spec he h2).1

/-- **C03, histories, full strength**: along any history of write transactions — each with its own overflow
    flag, committed, failed or rolled back — the invariant of the committed state holds. So all the
    per-transaction statements above apply to every transaction of the history.
    (`c03_history_partial` is the special case of histories of `overflow = false` transactions from `EngInv`:
    no owned page is read from) and the owned pages unchanged -/
theorem runTxnO_of_not_commitsU (s : FileSt × List Nat) (he : EngInvU s.1 s.2) (t : TxnO) (hn : ¬ t.commits s) :
    RestoredU s.1 s.2 (runTxnO s t).1 ∧ (runTxnO s t).2 = s.2 ∧ SameCommitted s.1 s.2 (runTxnO s t).1 := by
  have key : SameCommitted s.1 s.2 (runTxnO s t).1 ∧ (runTxnO s t).2 = s.2 := by
    unfold runTxnO
    dsimp only
    split
    · exact ⟨sameCommittedU_of_abort s.1 s.2 he t.overflow t.growPct t.walLimit t.ops, rfl⟩
    · rename_i f2 tx2 ws hfl
      split
      · rename_i hall
        split
        · rename_i hok
          exact absurd ⟨f2, tx2, ws, hfl, hall, hok⟩ hn
        · rename_i hfail
          exact ⟨sameCommittedU_of_failed s.1 s.2 he t.overflow t.growPct t.walLimit t.ops t.order f2 tx2 ws hfl hall
            hfail, rfl⟩
      · exact ⟨sameCommittedU_of_abort_after_flush s.1 s.2 he t.overflow t.growPct t.walLimit t.ops t.order f2 tx2 ws
          hfl, rfl⟩
  exact ⟨restoredU_of_same he key.1, key.2, key.1⟩


/-! ## lifetimes -/

/-- one step of a file lifetime: a write transaction (with its own overflow flag; it commits, fails or is rolled
    back), close + reopen, or `Open` with `FlagUpdMaxSize` and a new limit of `n` pages (0: no limit) -/
inductive LStep
  | txn (t : TxnO)
  | reopen
  | resize (n : Nat)

/-- a new limit covers at least the two header pages (`Options.Validate` demands `MaxSize ≥ 64KB`) -/
def LStep.valid : LStep → Prop
  | .resize n => n = 0 ∨ 2 ≤ n
  | _ => True

instance (st : LStep) : Decidable st.valid := by cases st <;> unfold LStep.valid <;> exact inferInstance

/-- does the step write or free the page? (only transactions do) -/
def LStep.touches (id : Nat) : LStep → Bool
  | .txn t => t.ops.any (fun op => op.touches id)
  | _ => false

/-- one step on the committed state `s.1` whose client owns the pages `s.2` -/
def runLStep (s : FileSt × List Nat) : LStep → FileSt × List Nat
  | .txn t => runTxnO s t
  | .reopen => (s.1.reopenP, s.2)
  | .resize n => (s.1.resize n, s.2)

def runLife (s : FileSt × List Nat) (steps : List LStep) : FileSt × List Nat := steps.foldl runLStep s

theorem runLife_snoc (s : FileSt × List Nat) (pre : List LStep) (st : LStep) :
    runLife s (pre ++ [st]) = runLStep (runLife s pre) st := by
  unfold runLife; rw [List.foldl_append]; rfl

/-- a history of transactions is a lifetime -/
theorem runLife_txns (s : FileSt × List Nat) (ts : List TxnO) : runLife s (ts.map LStep.txn) = runHistoryO s ts := by
  induction ts generalizing s with
  | nil => rfl
  | cons t ts ih => exact ih (runTxnO s t)

theorem runLStep_inv (s : FileSt × List Nat) (he : EngInvU s.1 s.2) (st : LStep) (hv : st.valid) :
    EngInvU (runLStep s st).1 (runLStep s st).2 := by
  cases st with
  | txn t => exact runTxnO_invU s he t
  | reopen => exact U.engInv_reopenP he
  | resize n => exact U.engInv_resize he n hv

/-- **the lifetime invariant**: along ANY lifetime — write transactions with any overflow flags (committed, failed,
    rolled back), close + reopen, limit changes in both directions (every new limit that covers the header pages),
    in any order — the invariant `EngInvU` of the committed state holds. Hence every per-step theorem of this file
    applies at every point of every lifetime. -/
theorem lifetime_invariant (s : FileSt × List Nat) (he : EngInvU s.1 s.2) (steps : List LStep)
    (hv : ∀ st ∈ steps, st.valid) : EngInvU (runLife s steps).1 (runLife s steps).2 := by
  induction steps generalizing s with
  | nil => exact he
  | cons st steps ih =>
    exact ih (runLStep s st) (runLStep_inv s he st (hv st List.mem_cons_self))
      (fun u hu => hv u (List.mem_cons_of_mem _ hu))

/-- … in particular from every created file -/
theorem lifetime_invariant_created (ps mp im : Nat) (hmp : mp = 0 ∨ 2 + im ≤ mp) (steps : List LStep)
    (hv : ∀ st ∈ steps, st.valid) :
    EngInvU (runLife (FileSt.create ps mp im, []) steps).1 (runLife (FileSt.create ps mp im, []) steps).2 :=
  lifetime_invariant _ (engInvU_create_any ps mp im hmp) steps hv

/-- **C14 from `EngInvU`, every decision kind** (`same`, `bound`, `grow`, `shrink`, `boundShrink` — also the one `openWith`
    takes on unaligned byte sizes), every new limit covering the header pages, every state of a lifetime: the invariant
    holds afterwards. No `ResizeOK` / `RKind.pre`: closes the corner of `c14e_resize_invariant_partial`. -/
theorem c14u_resizeWith_invariant (f : FileSt) (live : List Nat) (he : EngInvU f live) (k : RKind) (n : Nat)
    (hn : n = 0 ∨ 2 ≤ n) : EngInvU (f.resizeWith k n).1 live :=
  U.engInv_resizeWith he k n hn

/-- **C10 from `EngInvU`**: at every point of a lifetime close + reopen is the identity up to the statistic (the
    allocator, the mapping, the disk and the root are unchanged) -/
theorem c10u_reopen_state (f : FileSt) (live : List Nat) (he : EngInvU f live) : f.reopenP = f.ws f.openStat :=
  U.reopenP_ws he

/-- no meta page can be reached by the data area at any point of a lifetime: every meta page (free meta page,
    free-list page, mapping page, overwrite page) lies below the data end marker or at / beyond the limit -/
theorem c10u_no_collision (f : FileSt) (live : List Nat) (he : EngInvU f live) (p : Nat) (hp : p ∈ f.metaPages) :
    p < f.alloc.mta.endMarker ∧ (p < f.alloc.data.endMarker ∨ (0 < f.alloc.maxPages ∧ f.alloc.maxPages ≤ p)) :=
  U.metaPages_ok he p hp

/-! ### the frame of the steps that are not transactions -/

/-- reopen and resize change no page content, no root, no mapping, and not the pages the client owns -/
theorem lstep_frame (s : FileSt × List Nat) (st : LStep) (hnt : ∀ t, st ≠ .txn t) :
    (runLStep s st).2 = s.2 ∧ (runLStep s st).1.root = s.1.root ∧ (runLStep s st).1.walMap = s.1.walMap ∧
    (runLStep s st).1.disk = s.1.disk ∧ ∀ id, (runLStep s st).1.readPage id = s.1.readPage id := by
  cases st with
  | txn t => exact absurd rfl (hnt t)
  | reopen =>
    obtain ⟨l1, -, l3, -, l5, l6, -⟩ := c10p_reopen_logical s.1
    exact ⟨rfl, l1, l3, l5, l6⟩
  | resize n =>
    obtain ⟨r1, r2, -, r4, -, r6⟩ := c14e_resize_frame s.1 (rkindPages s.1.alloc.maxPages n) n
    exact ⟨rfl, r1, r2, r4, r6⟩

/-! ### the lifetime corollaries -/

/-- **C03 over lifetimes**: after any lifetime `pre`, if the next transaction `t` (any overflow flag) commits, the
    state reached reads, for every page the client owns then, the content the abstract store `σ` of `t` holds -/
theorem lifetime_commit_publishes (s0 : FileSt × List Nat) (he : EngInvU s0.1 s0.2) (pre : List LStep)
    (hv : ∀ st ∈ pre, st.valid) (t : TxnO) (hc : t.commits (runLife s0 pre)) :
    (runLife s0 (pre ++ [.txn t])).2 = (t.run (runLife s0 pre)).cur ∧
    ∀ id ∈ (runLife s0 (pre ++ [.txn t])).2, ∀ c, (t.run (runLife s0 pre)).σ id = some c →
      (runLife s0 (pre ++ [.txn t])).1.readPage id = c := by
  obtain ⟨f2, tx2, ws, hfl, hall, hok⟩ := hc
  have hi := lifetime_invariant s0 he pre hv
  have e : runLStep (runLife s0 pre) (.txn t) = ((commitAfterFlush f2 tx2).1, (t.run (runLife s0 pre)).cur) :=
    runTxnO_of_commits _ t f2 tx2 ws hfl hall hok
  rw [runLife_snoc, e]
  refine ⟨rfl, ?_⟩
  intro id hid c hcv
  exact c03u_commit_publishes _ _ hi t.overflow t.growPct t.walLimit t.ops t.order f2 tx2 ws hfl hall hok id hid c hcv

/-- one step leaves an owned page that it does not touch owned and unchanged -/
theorem lstep_untouched (s : FileSt × List Nat) (he : EngInvU s.1 s.2) (st : LStep) (id : Nat) (hid : id ∈ s.2)
    (hun : st.touches id = false) :
    id ∈ (runLStep s st).2 ∧ (runLStep s st).1.readPage id = s.1.readPage id := by
  cases st with
  | txn t =>
    have hun' : ∀ op ∈ t.ops, op.touches id = false := by
      intro op hop
      simp only [LStep.touches, List.any_eq_false] at hun
      have := hun op hop
      simpa using this
    show id ∈ (runTxnO s t).2 ∧ (runTxnO s t).1.readPage id = s.1.readPage id
    by_cases hc : t.commits s
    · obtain ⟨f2, tx2, ws, hfl, hall, hok⟩ := hc
      rw [runTxnO_of_commits s t f2 tx2 ws hfl hall hok]
      exact ⟨(U.runOps_untouched he t.ops _ (runInvU_start s.1 s.2 he t.overflow t.growPct t.walLimit) id hid hun').2,
        c03u_untouched_kept s.1 s.2 he t.overflow t.growPct t.walLimit t.ops t.order f2 tx2 ws hfl hall hok id hid hun'⟩
    · obtain ⟨r1, r2, -⟩ := runTxnO_of_not_commitsU s he t hc
      rw [r2]
      exact ⟨hid, r1.2.2.2.2.2.2.2.1 id hid⟩
  | reopen => exact ⟨hid, (lstep_frame s .reopen (fun t h => nomatch h)).2.2.2.2 id⟩
  | resize n => exact ⟨hid, (lstep_frame s (.resize n) (fun t h => nomatch h)).2.2.2.2 id⟩

/-- **untouched pages over lifetimes**: a page the client owns that no transaction of the lifetime writes or frees
    is still owned and reads exactly the same at the end — across any number of commits, failed commits, rollbacks,
    reopens and limit changes (also when the limit is lowered below the page) -/
theorem lifetime_untouched (s : FileSt × List Nat) (he : EngInvU s.1 s.2) (steps : List LStep)
    (hv : ∀ st ∈ steps, st.valid) (id : Nat) (hid : id ∈ s.2) (hun : ∀ st ∈ steps, st.touches id = false) :
    id ∈ (runLife s steps).2 ∧ (runLife s steps).1.readPage id = s.1.readPage id := by
  induction steps generalizing s with
  | nil => exact ⟨hid, rfl⟩
  | cons st steps ih =>
    obtain ⟨h1, h2⟩ := lstep_untouched s he st id hid (hun st List.mem_cons_self)
    obtain ⟨h3, h4⟩ := ih (runLStep s st) (runLStep_inv s he st (hv st List.mem_cons_self))
      (fun u hu => hv u (List.mem_cons_of_mem _ hu)) h1 (fun u hu => hun u (List.mem_cons_of_mem _ hu))
    exact ⟨h3, h4.trans h2⟩

/-- **C04 over lifetimes**: after any lifetime `pre`, every allocation at any point `ops` of the next transaction
    (any overflow flag) hands out `n` pairwise distinct ids that are fresh: not header pages, not owned by the client,
    not live, not internal pages of the committed state (overwrite pages, mapping pages, free-list pages — wherever
    they lie), not overwrite pages or freed pages of the running transaction -/
theorem lifetime_alloc_fresh (s0 : FileSt × List Nat) (he : EngInvU s0.1 s0.2) (pre : List LStep)
    (hv : ∀ st ∈ pre, st.valid) (ov : Bool) (g wl : Nat) (ops : List EOp) (n : Nat) (f' : FileSt) (tx' : TxSt)
    (ids : List Nat)
    (h : txAlloc (runEOps (ERunSt.start (runLife s0 pre).1 (runLife s0 pre).2 ov g wl) ops).f
      (runEOps (ERunSt.start (runLife s0 pre).1 (runLife s0 pre).2 ov g wl) ops).tx n = .ok (f', tx', ids)) :
    let c := runLife s0 pre
    let s := runEOps (ERunSt.start c.1 c.2 ov g wl) ops
    ids.length = n ∧ ids.Nodup ∧
    ∀ x ∈ ids, 2 ≤ x ∧ x ∉ s.cur ∧ x ∉ c.2 ∧
      x ∉ c.1.walMap.map (·.2) ∧ x ∉ c.1.walPages ∧ x ∉ c.1.alloc.freelistPages ∧
      x ∉ s.tx.walNew.map (·.2) ∧ x ∉ s.tx.ta.data.freed :=
  c04u_alloc_fresh _ _ (lifetime_invariant s0 he pre hv) ov g wl ops n f' tx' ids h

/-- **C04 over lifetimes, no extension**: on a bounded file no allocation returns a page at or beyond
    max(limit, data end marker), whatever happened to the limit before -/
theorem lifetime_alloc_no_extension (s0 : FileSt × List Nat) (he : EngInvU s0.1 s0.2) (pre : List LStep)
    (hv : ∀ st ∈ pre, st.valid) (ov : Bool) (g wl : Nat) (ops : List EOp) (n : Nat) (f' : FileSt) (tx' : TxSt)
    (ids : List Nat) (hpos : 0 < (runLife s0 pre).1.alloc.maxPages)
    (h : txAlloc (runEOps (ERunSt.start (runLife s0 pre).1 (runLife s0 pre).2 ov g wl) ops).f
      (runEOps (ERunSt.start (runLife s0 pre).1 (runLife s0 pre).2 ov g wl) ops).tx n = .ok (f', tx', ids)) :
    let c := runLife s0 pre
    let s := runEOps (ERunSt.start c.1 c.2 ov g wl) ops
    ∀ x ∈ ids, x < max c.1.alloc.maxPages s.f.alloc.data.endMarker :=
  (c04u_alloc_no_extension _ _ (lifetime_invariant s0 he pre hv) ov g wl ops n f' tx' ids hpos h).1

/-- **C07 over lifetimes**: a transaction anywhere in a lifetime that does not commit restores the state: allocator,
    mapping, mapping pages, root, transaction id and statistic are exactly those before the transaction, every owned
    page reads as before, the client owns the same pages -/
theorem lifetime_abort_restores (s0 : FileSt × List Nat) (he : EngInvU s0.1 s0.2) (pre : List LStep)
    (hv : ∀ st ∈ pre, st.valid) (t : TxnO) (hn : ¬ t.commits (runLife s0 pre)) :
    RestoredU (runLife s0 pre).1 (runLife s0 pre).2 (runLife s0 (pre ++ [.txn t])).1 ∧
    (runLife s0 (pre ++ [.txn t])).2 = (runLife s0 pre).2 := by
  rw [runLife_snoc]
  obtain ⟨r1, r2, -⟩ := runTxnO_of_not_commitsU _ (lifetime_invariant s0 he pre hv) t hn
  exact ⟨r1, r2⟩

/-! ## examples -/

/-- a transaction that frees the given pages -/
def exFree (ids : List Nat) (ov : Bool := false) : TxnO := { overflow := ov, ops := ids.map EOp.free }

/-- the invariant (checked executably) holds after every prefix of a lifetime -/
def lifeInvB (s : FileSt × List Nat) (steps : List LStep) : Bool :=
  (List.range (steps.length + 1)).all fun i => U.engInvB (runLife s (steps.take i)).1 (runLife s (steps.take i)).2

/-- **the lifetime of the task description** on the bounded file `exO0` (8 pages, Props/C03History.lean):
    fill the file → overflow commit (meta pages 8, 9, 10 beyond the limit) → shrink to 6 pages, BELOW the live pages
    6 and 7 → an overflow transaction frees pages 7 and 6 (its commit releases the last overflow page) → a
    checkpoint transaction (releases two more meta pages) → the same limit again (plain open) → grow to 12 pages →
    reopen → allocate 3 pages. -/
def exLife : List LStep :=
  [.txn exFill, .txn exOv, .resize 6, .txn (exFree [7, 6] true), .txn exCkpt, .resize 6, .resize 12, .reopen,
   .txn { ops := [.alloc 3] }]

example : ∀ st ∈ exLife, st.valid := by decide

set_option maxRecDepth 16384 in
/-- the states along `exLife`: after the shrink the limit 6 lies below the live pages 6, 7 and below both end markers;
    after the frees the data end marker 10 lies above the meta end marker 8 and the free data page 7 lies beyond
    the limit; the grow and the reopen change nothing but the limit; the last allocation takes the free page 7 and
    pages 10, 11 from the end of the file — never one of the meta pages 2, 3, 6 -/
example :
    let c3 := runLife exO0 (exLife.take 3)
    let c5 := runLife exO0 (exLife.take 5)
    let c8 := runLife exO0 (exLife.take 8)
    let c9 := runLife exO0 exLife
    c3.1.alloc.maxPages = 6 ∧ c3.1.alloc.data.endMarker = 8 ∧ c3.1.alloc.mta.endMarker = 11 ∧ c3.2 = [4, 5, 6, 7] ∧
    c5.1.alloc.maxPages = 6 ∧ c5.1.alloc.data.endMarker = 10 ∧ c5.1.alloc.mta.endMarker = 8 ∧
    c5.1.alloc.data.free = [7] ∧ c5.1.alloc.mta.free = [2, 3] ∧ c5.1.alloc.freelistPages = [6] ∧ c5.2 = [4, 5] ∧
    c8.1.alloc.maxPages = 12 ∧ c8.1.alloc.data.endMarker = 10 ∧ c8.1.alloc.mta.endMarker = 8 ∧
    c9.2 = [4, 5, 7, 10, 11] ∧ c9.1.alloc.data.endMarker = 12 ∧
    c9.1.readPage 4 = Content.full 4 2 ∧ c9.1.readPage 5 = Content.full 5 2 := by decide

set_option maxRecDepth 16384 in
/-- `EngInvU` holds after every step of `exLife` (checked executably; the general reason is `lifetime_invariant`) … -/
example : lifeInvB exO0 exLife = true := by decide

set_option maxRecDepth 16384 in
/-- … while `EngInvO` fails after the shrink (a live page at the limit) -/
example : ¬ EngInvO (runLife exO0 (exLife.take 3)).1 (runLife exO0 (exLife.take 3)).2 :=
  fun h => absurd (h.liveLim 6 (by decide)) (by decide)

example : EngInvU (runLife exO0 exLife).1 (runLife exO0 exLife).2 :=
  lifetime_invariant exO0 (engInvU_create_any 4096 8 2 (by decide)) exLife (by decide)

/-- **a commit releases free DATA pages beyond a lowered limit**: fill, shrink to 6 (live pages 6, 7 beyond the limit,
    data end marker 8), free pages 7 and 6: `fileCommitAlloc` drops them from the data free list and lowers the data
    end marker to the limit; growing to 16 and reopening afterwards changes nothing, the next allocation extends
    the file from page 6 on -/
def exLifeA : List LStep :=
  [.txn exFill, .resize 6, .txn (exFree [7, 6]), .resize 16, .reopen, .txn { ops := [.alloc 2] }]

set_option maxRecDepth 16384 in
example :
    let c2 := runLife exO0 (exLifeA.take 2)
    let c3 := runLife exO0 (exLifeA.take 3)
    let c6 := runLife exO0 exLifeA
    c2.1.alloc.maxPages = 6 ∧ c2.1.alloc.data.endMarker = 8 ∧ c2.2 = [4, 5, 6, 7] ∧
    c3.1.alloc.data.endMarker = 6 ∧ c3.1.alloc.mta.endMarker = 6 ∧ c3.1.alloc.data.free = [] ∧ c3.2 = [4, 5] ∧
    c6.2 = [4, 5, 6, 7] ∧ c6.1.readPage 4 = Content.full 4 1 ∧ c6.1.readPage 5 = Content.full 5 1 ∧
    lifeInvB exO0 exLifeA = true := by decide

/-- pages 4 and 5 are touched by no transaction after the fill: `lifetime_untouched` -/
example : 4 ∈ (runLife (runLife exO0 [.txn exFill]) exLifeA.tail).2 ∧
    (runLife (runLife exO0 [.txn exFill]) exLifeA.tail).1.readPage 4 = (runLife exO0 [.txn exFill]).1.readPage 4 :=
  lifetime_untouched _ (lifetime_invariant exO0 (engInvU_create_any 4096 8 2 (by decide)) [.txn exFill] (by decide))
    exLifeA.tail (by decide) 4 (by decide) (by decide)

/-- **the release transaction of `shrinkFile`** and an unbounded phase: fill, free pages 7 and 6 (they stay in the free
    list: the file is within its limit 8), shrink to 6 — the last free data region ends at the data end marker beyond
    the new limit, `initTxReleaseRegions` runs (txid + 2; it takes the two pages for the meta area, the known
    `c14e_release_pins_page_beyond_limit`) — reopen, remove the limit, allocate -/
def exLifeB : List LStep :=
  [.txn exFill, .txn (exFree [7, 6]), .resize 6, .reopen, .resize 0, .txn { ops := [.alloc 2] }]

set_option maxRecDepth 16384 in
example :
    let c2 := runLife exO0 (exLifeB.take 2)
    let c3 := runLife exO0 (exLifeB.take 3)
    let c6 := runLife exO0 exLifeB
    c2.1.alloc.data.free = [6, 7] ∧ c2.1.txid = 3 ∧
    c3.1.alloc.maxPages = 6 ∧ c3.1.txid = 5 ∧ c3.1.alloc.data.free = [] ∧ c3.1.alloc.mta.free = [3, 6] ∧
    c3.1.alloc.freelistPages = [7] ∧
    c6.1.alloc.maxPages = 0 ∧ c6.2 = [4, 5, 8, 9] ∧ lifeInvB exO0 exLifeB = true := by decide

end TxVerif
