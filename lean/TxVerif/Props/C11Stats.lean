/-
  C11, last clause — the reported FileStats match reality — for the ENGINE model, over whole histories
  (write transactions committed / rolled back / failing in commit, close + reopen anywhere), on files
  WITH and WITHOUT a page limit, as long as no transaction enables the overflow area.

  What the implementation reports (observe.go `FileStats`, tx.go `onCommit`, file.go `reportOpen`) and its
  counterpart in the model (Model/Engine.lean, Model/AbsorbP.lean):
    DataAllocated  `FileSt.statData`   commit:  += sAlloc − sFreed − sToMeta      (`commitAfterFlush`)
                                       open:    max(dataEnd, metaEnd) − 2 − metaTotal − |data free list|
                                                (`FileSt.openStat`, installed by `FileSt.reopenP`)
    MetaArea       `alloc.metaTotal`
    MetaAllocated  `alloc.metaTotal − |alloc.mta.free|`
  "Reality": the pages the client owns (`live`, as tracked by the history theorems) and the internal
  pages of the committed state (`FileSt.internal`: overwrite pages of the mapping, mapping pages,
  free-list pages).

  Invariant `EngStat f live`: `EngInv f live` ∧ `AU.Quiet f.alloc live f.internal` (the ledger invariant of
  Props/C11Engine.lean without the demand `0 < maxPages`: Proofs/AccountU.lean, Proofs/EngAccountU.lean)
  ∧ `NoGap f.alloc` (the meta end marker is not above the data end marker) ∧ `f.statData = live.length`.

  Theorems
    engStat_dataAllocated, engStat_metaAllocated, engStat_openStat    what the invariant says about the three numbers
    engStat_create                      (1) every created file, bounded or not
    engStat_of_engAcc                       on bounded files: `EngAcc` + `NoGap` + truthful statistic
    c11_stats_in_tx                         the counter invariant inside a transaction
    c11_stats_tx_commit                 (2) commit:  DataAllocated = owned before + allocated − freed = owned now
    c11_stats_tx_abort / _abort_flushed / _failed_commit   (2) rollback, failing commit: unchanged and still truthful
    c11_stats_runTxn
    c11_stats_reopen                    (3) `reopenP`: the statistic recomputed from the header is the live count
    c11_stats_lifetime                      every lifetime of plain transactions and reopens keeps `EngStat`
    c11_stats_history                   **C11 (stats)** at every quiescent point: DataAllocated = |live|,
                                        MetaAllocated = |internal|, reopening would report the same
    c11_stats_history_created           the same from file creation
    c11_stats_space_eq                      bounded files: together with the space equation of `c11_engine_space_eq`,
                                            now also across reopens
  Observations outside the hypotheses (C11 excludes these states; the harness skips the comparison once a
  transaction has used the overflow area or the limit was changed: `!s.everOverflow() && !s.resized`):
    c11_stats_overflow_commit_underreports_observed   an overflow commit lowers DataAllocated by the pages taken from
                                                      the overflow area (they are counted in `toMeta`, never in `alloc`)
    c11_stats_overflow_reopen_restores_observed       reopening that state recomputes the live count
    c11_stats_overflow_release_overreports_observed   after the overflow area was partly released (data end marker beyond
                                                      the limit) even the statistic recomputed at open is NOT the live count
    c11_stats_shrink_observed                         lowered limits alone (no overflow area): DataAllocated truthful in the
                                                      examples; MetaAllocated one too high after the release transaction of
                                                      `shrinkFile` (it leaks the old free-list page); not covered by the theorems
-/
import TxVerif.Proofs.EngStats
import TxVerif.Props.C11Engine
import TxVerif.Props.Lifetime
namespace TxVerif

/-- the quiescent invariant with truthful statistics; `live` are the data pages the client owns -/
structure EngStat (f : FileSt) (live : List Nat) : Prop where
  inv : EngInv f live
  quiet : AU.Quiet f.alloc live f.internal
  noGap : NoGap f.alloc
  stat : f.statData = live.length

/-- `FileStats.DataAllocated` is the number of pages the client owns -/
theorem engStat_dataAllocated {f : FileSt} {live : List Nat} (h : EngStat f live) : f.statData = live.length := h.stat

/-- `FileStats.MetaAllocated` (`MetaArea` minus the free meta pages) is the number of internal pages in use -/
theorem engStat_metaAllocated {f : FileSt} {live : List Nat} (h : EngStat f live) :
    f.alloc.metaTotal - f.alloc.mta.free.length = f.internal.length := by
  have := h.quiet.mtot; omega

/-- `FileStats.MetaArea` = free meta pages + internal pages -/
theorem engStat_metaArea {f : FileSt} {live : List Nat} (h : EngStat f live) :
    f.alloc.metaTotal = f.alloc.mta.free.length + f.internal.length := h.quiet.mtot

/-- what `reportOpen` computes from the header is the number of pages the client owns -/
theorem engStat_openStat {f : FileSt} {live : List Nat} (h : EngStat f live) : f.openStat = live.length := by
  have h1 := noGap_le h.inv h.noGap
  have h2 := h.quiet.acc
  unfold FileSt.openStat
  omega

/-! ### (1) created files -/

theorem quietU_create (ps mp im : Nat) (hmp : mp = 0 ∨ 2 + im ≤ mp) :
    AU.Quiet (FileSt.create ps mp im).alloc [] (FileSt.create ps mp im).internal := by
  by_cases him : im = 0
  · subst him
    unfold FileSt.create
    rw [if_pos rfl]
    refine ⟨rfl, rfl, asc_nil, asc_nil, List.nodup_nil, List.nodup_nil, ?_, ?_, ?_, ?_, ?_, ?_, ?_, by dsimp only; omega,
      Or.inr ⟨rfl, rfl⟩⟩
    all_goals (intro x hx; cases hx)
  · unfold FileSt.create
    rw [if_neg him]
    show AU.Quiet _ [] [2]
    refine ⟨by simp, ?_, asc_nil, asc_idRange _ _, List.nodup_nil, by simp, ?_, ?_, ?_, ?_, ?_, ?_, ?_,
      by dsimp only; omega, Or.inl (Nat.le_refl _)⟩
    · simp only [length_idRange, List.length_singleton]; omega
    · intro x hx; cases hx
    · intro x hx; cases hx
    · intro x hx
      dsimp only at hx ⊢
      rw [mem_idRange] at hx
      omega
    · intro x hx
      simp only [List.mem_singleton] at hx
      subst hx
      dsimp only; omega
    · intro x hx; cases hx
    · intro x hx; cases hx
    · intro x hx
      dsimp only at hx
      rw [mem_idRange] at hx
      simp only [List.mem_singleton]
      omega

/-- **(1)** every file `FileSt.create` produces — without limit (`mp = 0`) or with a limit that leaves room for
    the header pages and the initial meta area — satisfies the invariant: all three statistics are truthful
    (`DataAllocated = 0`) -/
theorem engStat_create (ps mp im : Nat) (hmp : mp = 0 ∨ 2 + im ≤ mp) : EngStat (FileSt.create ps mp im) [] := by
  refine ⟨engInv_create_any ps mp im hmp, quietU_create ps mp im hmp, ?_, ?_⟩
  · unfold NoGap FileSt.create
    split
    · exact Or.inl (Nat.zero_le _)
    · exact Or.inl (Nat.le_refl _)
  · unfold FileSt.create
    split <;> rfl

example : EngStat (FileSt.create 4096 64 4) [] := engStat_create 4096 64 4 (by decide)
example : EngStat (FileSt.create 4096 0 4) [] := engStat_create 4096 0 4 (by decide)
example : EngStat (FileSt.create 4096 0 0) [] := engStat_create 4096 0 0 (by decide)

/-- on bounded files the ledger part is `EngAcc` of Props/C11Engine.lean -/
theorem engStat_of_engAcc {f : FileSt} {live : List Nat} (h : EngAcc f live) (hg : NoGap f.alloc)
    (hs : f.statData = live.length) : EngStat f live :=
  ⟨h.inv, AU.quiet_of_bounded h.quiet, hg, hs⟩

theorem EngStat.engAcc {f : FileSt} {live : List Nat} (h : EngStat f live) (hb : 0 < f.alloc.maxPages) :
    EngAcc f live := ⟨h.inv, h.quiet.bounded hb⟩

/-! ### (2) one transaction -/

/-- **the counters inside a transaction**: after any operations of a write transaction (overflow flag off) on a
    state with truthful statistics, the pages the client owns now are counted by the value the commit would
    install: `DataAllocated + alloc = owned now + freed + toMeta` -/
theorem c11_stats_in_tx (f : FileSt) (live : List Nat) (h : EngStat f live) (g wl : Nat) (ops : List EOp) :
    f.statData + (runEOps (ERunSt.start f live false g wl) ops).tx.ta.sAlloc =
      (runEOps (ERunSt.start f live false g wl) ops).cur.length +
        (runEOps (ERunSt.start f live false g wl) ops).tx.ta.sFreed +
        (runEOps (ERunSt.start f live false g wl) ops).tx.ta.sToMeta ∧
    (runEOps (ERunSt.start f live false g wl) ops).f.statData = f.statData := by
  have hc := scnt_ops h.inv ops _ (runInv_start f live h.inv false g wl) rfl (scnt_begin f live h.quiet.ndL false g wl)
  have := hc.cnt
  refine ⟨?_, (runOps_hdr ops (ERunSt.start f live false g wl)).2.2.1⟩
  rw [h.stat]; omega

/-- everything known after the final flush of a transaction -/
theorem engStat_flushed (f : FileSt) (live : List Nat) (h : EngStat f live) (g wl : Nat)
    (ops : List EOp) (order : List Nat) (f2 : FileSt) (tx2 : TxSt) (ws : List (Nat × Nat))
    (hflush : flushList (runEOps (ERunSt.start f live false g wl) ops).f
      (runEOps (ERunSt.start f live false g wl) ops).tx order = .ok (f2, tx2, ws)) :
    TxInv f live f2 tx2 (runEOps (ERunSt.start f live false g wl) ops).cur ∧
    (∃ L M, AU.EAcc f f2 tx2 (runEOps (ERunSt.start f live false g wl) ops).cur L M) ∧ EExact f tx2 ∧
    SCnt live (runEOps (ERunSt.start f live false g wl) ops).cur tx2.ta ∧ tx2.ta.overflow = false ∧
    f2.statData = f.statData ∧ GapOK f.alloc.data.endMarker f2.alloc := by
  have hr := runinv_ops h.inv ops _ (runInv_start f live h.inv false g wl)
  obtain ⟨h2, -⟩ := txinv_flushList h.inv order _ _ hr.tx f2 tx2 ws hflush
  obtain ⟨b1, b2⟩ := AU.eacc_begin f live h.quiet g wl
  obtain ⟨⟨L, M, ha⟩, hx⟩ := AU.eacc_ops h.inv ops _ (runInv_start f live h.inv false g wl) ⟨live, f.internal, b1⟩ b2
  obtain ⟨⟨M2, ha2⟩, hx2⟩ := AU.eacc_flushList h.inv order _ _ M hr.tx ha hx f2 tx2 ws hflush
  have hov0 : (ERunSt.start f live false g wl).tx.ta.overflow = false := rfl
  have hovr := (runOps_ovf ops (ERunSt.start f live false g wl)).trans hov0
  have hov2 : tx2.ta.overflow = false := (flushList_ovf order _ _ f2 tx2 ws hflush).trans hovr
  have hc := scnt_ops h.inv ops _ (runInv_start f live h.inv false g wl) rfl (scnt_begin f live h.quiet.ndL false g wl)
  have hc2 := scnt_sbal hc (sbal_flushList h.inv order _ _ hr.tx hovr f2 tx2 ws hflush)
  have hst : f2.statData = f.statData :=
    (flushList_hdr order _ _ f2 tx2 ws hflush).2.2.1.trans (runOps_hdr ops (ERunSt.start f live false g wl)).2.2.1
  have hm := noGap_le h.inv h.noGap
  have hgr := run_gap h.inv ops _ (runInv_start f live h.inv false g wl) hov0 hm ⟨hm, Or.inr hm⟩
  have hg2 := flushList_gap _ order _ _ f2 tx2 ws hflush hgr hovr
  exact ⟨h2, ⟨L, M2, ha2⟩, hx2, hc2, hov2, hst, hg2⟩

/-- **(2) commit**: after a successful commit the invariant holds for the pages the client owns now; in
    particular `DataAllocated` = owned before + allocated − freed = owned now, `MetaAllocated` = internal pages -/
theorem c11_stats_tx_commit (f : FileSt) (live : List Nat) (h : EngStat f live) (g wl : Nat)
    (ops : List EOp) (order : List Nat) (f2 : FileSt) (tx2 : TxSt) (ws : List (Nat × Nat))
    (hflush : flushList (runEOps (ERunSt.start f live false g wl) ops).f
      (runEOps (ERunSt.start f live false g wl) ops).tx order = .ok (f2, tx2, ws))
    (hall : tx2.unflushed = []) (hok : (commitAfterFlush f2 tx2).2.1 = .ok) :
    EngStat (commitAfterFlush f2 tx2).1 (runEOps (ERunSt.start f live false g wl) ops).cur := by
  obtain ⟨h2, ⟨L, M, ha⟩, hx, hc, hov, hst, hg⟩ := engStat_flushed f live h g wl ops order f2 tx2 ws hflush
  have hfl := allFlushed_of_unflushed tx2 hall
  exact ⟨c03_commit_invariant_partial f live h.inv g wl ops order f2 tx2 ws hflush hall hok,
    AU.eacc_commit h.inv h2 hfl ha hx hok,
    gapOK_noGap (commit_gap h.inv h2 hfl hov hok _ hg),
    commit_statData h.inv h2 hfl hov (hst.trans h.stat) hc hok⟩

/-- **(2) rollback** at any point: nothing changes, the statistics stay truthful -/
theorem c11_stats_tx_abort (f : FileSt) (live : List Nat) (h : EngStat f live) (g wl : Nat) (ops : List EOp) :
    let s := runEOps (ERunSt.start f live false g wl) ops
    EngStat (txAbort s.f s.tx) live ∧ (txAbort s.f s.tx).statData = f.statData := by
  intro s
  have hr := runinv_ops h.inv ops _ (runInv_start f live h.inv false g wl)
  obtain ⟨r1, r2, r3, -⟩ := abort_spec h.inv hr.tx
  have hst : (txAbort s.f s.tx).statData = f.statData := (runOps_hdr ops (ERunSt.start f live false g wl)).2.2.1
  exact ⟨⟨r1, AU.quiet_of_same h.quiet r2 r3 hr.tx.sameWP, r2 ▸ h.noGap, hst.trans h.stat⟩, hst⟩

/-- **(2) rollback** after the final flush -/
theorem c11_stats_tx_abort_flushed (f : FileSt) (live : List Nat) (h : EngStat f live) (g wl : Nat)
    (ops : List EOp) (order : List Nat) (f2 : FileSt) (tx2 : TxSt) (ws : List (Nat × Nat))
    (hflush : flushList (runEOps (ERunSt.start f live false g wl) ops).f
      (runEOps (ERunSt.start f live false g wl) ops).tx order = .ok (f2, tx2, ws)) :
    EngStat (txAbort f2 tx2) live ∧ (txAbort f2 tx2).statData = f.statData := by
  obtain ⟨h2, -, -, -, -, hst, -⟩ := engStat_flushed f live h g wl ops order f2 tx2 ws hflush
  obtain ⟨r1, r2, r3, -⟩ := abort_spec h.inv h2
  have hst' : (txAbort f2 tx2).statData = f.statData := hst
  exact ⟨⟨r1, AU.quiet_of_same h.quiet r2 r3 h2.sameWP, r2 ▸ h.noGap, hst'.trans h.stat⟩, hst'⟩

/-- **(2) failing commit** (no space for the mapping / free-list pages): rolled back, statistics unchanged -/
theorem c11_stats_tx_failed_commit (f : FileSt) (live : List Nat) (h : EngStat f live) (g wl : Nat)
    (ops : List EOp) (order : List Nat) (f2 : FileSt) (tx2 : TxSt) (ws : List (Nat × Nat))
    (hflush : flushList (runEOps (ERunSt.start f live false g wl) ops).f
      (runEOps (ERunSt.start f live false g wl) ops).tx order = .ok (f2, tx2, ws))
    (hall : tx2.unflushed = []) (hfail : (commitAfterFlush f2 tx2).2.1 ≠ .ok) :
    EngStat (commitAfterFlush f2 tx2).1 live ∧ (commitAfterFlush f2 tx2).1.statData = f.statData := by
  obtain ⟨h2, -, -, -, -, hst, -⟩ := engStat_flushed f live h g wl ops order f2 tx2 ws hflush
  obtain ⟨r1, r2, r3, -⟩ := (commit_data h.inv h2 (allFlushed_of_unflushed tx2 hall)).2 hfail
  have hh := commit_fail_hdr f2 tx2 hfail
  have r4 : (commitAfterFlush f2 tx2).1.walPages = f.walPages := hh.2.2.2.trans h2.sameWP
  have hst' : (commitAfterFlush f2 tx2).1.statData = f.statData := hh.2.2.1.trans hst
  exact ⟨⟨r1, AU.quiet_of_same h.quiet r2 r3 r4, r2 ▸ h.noGap, hst'.trans h.stat⟩, hst'⟩

/-- one whole transaction of a history (`runTxn`) keeps the invariant -/
theorem c11_stats_runTxn (s : FileSt × List Nat) (h : EngStat s.1 s.2) (t : Txn) :
    EngStat (runTxn s t).1 (runTxn s t).2 := by
  unfold runTxn
  dsimp only
  split
  · exact (c11_stats_tx_abort s.1 s.2 h t.growPct t.walLimit t.ops).1
  · rename_i f2 tx2 ws hfl
    split
    · rename_i hall
      split
      · rename_i hok
        exact c11_stats_tx_commit s.1 s.2 h t.growPct t.walLimit t.ops t.order f2 tx2 ws hfl hall hok
      · rename_i hfail
        exact (c11_stats_tx_failed_commit s.1 s.2 h t.growPct t.walLimit t.ops t.order f2 tx2 ws hfl hall hfail).1
    · exact (c11_stats_tx_abort_flushed s.1 s.2 h t.growPct t.walLimit t.ops t.order f2 tx2 ws hfl).1

/-! ### (3) close + reopen -/

/-- **(3) reopen**: on a state satisfying the invariant the statistic `reportOpen` recomputes from the header
    (file end − 2 header pages − meta area − free data pages) IS the number of pages the client owns — this is
    the accounting equation `Accounted` plus "no meta page leaked" — so closing and reopening the file
    (`reopenP`) changes nothing at all -/
theorem c11_stats_reopen (f : FileSt) (live : List Nat) (h : EngStat f live) :
    f.reopenP = f ∧ f.reopenP.statData = live.length ∧ EngStat f.reopenP live := by
  have e : f.reopenP = f := by
    rw [c10p_reopen_state f live (engInvO_of_engInv f live h.inv), engStat_openStat h, ← h.stat]
    exact ws_self f
  rw [e]
  exact ⟨rfl, h.stat, h⟩

/-! ### lifetimes: transactions and reopens in any order -/

/-- the steps of a lifetime covered by C11: write transactions that do not enable the overflow area, and
    close + reopen (no change of the page limit) -/
def LStep.plain : LStep → Prop
  | .txn t => t.overflow = false
  | .reopen => True
  | .resize _ => False

instance (st : LStep) : Decidable st.plain := by cases st <;> unfold LStep.plain <;> exact inferInstance

theorem runTxnO_plain (s : FileSt × List Nat) (t : TxnO) (ho : t.overflow = false) :
    runTxnO s t = runTxn s { growPct := t.growPct, walLimit := t.walLimit, ops := t.ops, order := t.order } := by
  obtain ⟨ov, g, wl, ops, order⟩ := t
  simp only at ho
  subst ho
  rfl

theorem c11_stats_step (s : FileSt × List Nat) (h : EngStat s.1 s.2) (st : LStep) (hp : st.plain) :
    EngStat (runLStep s st).1 (runLStep s st).2 := by
  cases st with
  | txn t =>
    show EngStat (runTxnO s t).1 (runTxnO s t).2
    rw [runTxnO_plain s t hp]
    exact c11_stats_runTxn s h _
  | reopen => exact (c11_stats_reopen s.1 s.2 h).2.2
  | resize n => exact absurd hp (by unfold LStep.plain; exact fun h => h)

/-- along any lifetime of plain transactions (committed, rolled back, failing in commit) and reopens the
    invariant holds -/
theorem c11_stats_lifetime (s : FileSt × List Nat) (h : EngStat s.1 s.2) (steps : List LStep)
    (hp : ∀ st ∈ steps, st.plain) : EngStat (runLife s steps).1 (runLife s steps).2 := by
  induction steps generalizing s with
  | nil => exact h
  | cons st steps ih =>
    exact ih (runLStep s st) (c11_stats_step s h st (hp st List.mem_cons_self))
      (fun st' hst' => hp st' (List.mem_cons_of_mem _ hst'))

theorem plain_take (steps : List LStep) (k : Nat) (hp : ∀ st ∈ steps, st.plain) : ∀ st ∈ steps.take k, st.plain :=
  fun st hst => hp st (List.mem_of_mem_take hst)

/-- **C11, the statistics are truthful (engine model)**: at every quiescent point (after any number `k` of
    steps) of every lifetime — write transactions with arbitrary operations, each committed, rolled back or
    failing in its commit, none enabling the overflow area; close + reopen anywhere — of a file with or
    without page limit, starting from any state satisfying the invariant:
      * `DataAllocated` is the number of pages the client owns,
      * `MetaAllocated` = `MetaArea` − free meta pages is the number of internal pages in use,
      * closing and reopening now would report the same `DataAllocated`. -/
theorem c11_stats_history (s : FileSt × List Nat) (h : EngStat s.1 s.2) (steps : List LStep)
    (hp : ∀ st ∈ steps, st.plain) (k : Nat) :
    (runLife s (steps.take k)).1.statData = (runLife s (steps.take k)).2.length ∧
    (runLife s (steps.take k)).1.alloc.metaTotal - (runLife s (steps.take k)).1.alloc.mta.free.length =
      (runLife s (steps.take k)).1.internal.length ∧
    (runLife s (steps.take k)).1.openStat = (runLife s (steps.take k)).2.length := by
  have := c11_stats_lifetime s h (steps.take k) (plain_take steps k hp)
  exact ⟨this.stat, engStat_metaAllocated this, engStat_openStat this⟩

/-- **C11 (stats) from file creation**: every file `FileSt.create` produces — no limit (`mp = 0`) or a limit
    with room for the header pages and the initial meta area -/
theorem c11_stats_history_created (ps mp im : Nat) (hmp : mp = 0 ∨ 2 + im ≤ mp) (steps : List LStep)
    (hp : ∀ st ∈ steps, st.plain) (k : Nat) :
    (runLife (FileSt.create ps mp im, []) (steps.take k)).1.statData =
      (runLife (FileSt.create ps mp im, []) (steps.take k)).2.length ∧
    (runLife (FileSt.create ps mp im, []) (steps.take k)).1.alloc.metaTotal -
        (runLife (FileSt.create ps mp im, []) (steps.take k)).1.alloc.mta.free.length =
      (runLife (FileSt.create ps mp im, []) (steps.take k)).1.internal.length ∧
    (runLife (FileSt.create ps mp im, []) (steps.take k)).1.openStat =
      (runLife (FileSt.create ps mp im, []) (steps.take k)).2.length :=
  c11_stats_history (FileSt.create ps mp im, []) (engStat_create ps mp im hmp) steps hp k

/-- the page limit is a constant of such a lifetime -/
theorem runLife_plain_maxPages (s : FileSt × List Nat) (h : EngStat s.1 s.2) (steps : List LStep)
    (hp : ∀ st ∈ steps, st.plain) : (runLife s steps).1.alloc.maxPages = s.1.alloc.maxPages := by
  induction steps generalizing s with
  | nil => rfl
  | cons st steps ih =>
    have hst := hp st List.mem_cons_self
    show (runLife (runLStep s st) steps).1.alloc.maxPages = _
    rw [ih (runLStep s st) (c11_stats_step s h st hst) (fun st' hst' => hp st' (List.mem_cons_of_mem _ hst'))]
    cases st with
    | txn t =>
      show (runTxnO s t).1.alloc.maxPages = _
      rw [runTxnO_plain s t hst]
      exact runTxn_maxPages s h.inv _
    | reopen =>
      show s.1.reopenP.alloc.maxPages = _
      rw [(c11_stats_reopen s.1 s.2 h).1]
    | resize n => exact absurd hst (by unfold LStep.plain; exact fun h => h)

/-- **C11 complete, bounded files**: the space equation of `c11_engine_space_eq`, now also across reopens,
    together with the truthful statistics: allocatable + DataAllocated + MetaArea + 2 = limit -/
theorem c11_stats_space_eq (s : FileSt × List Nat) (h : EngStat s.1 s.2) (hb : 0 < s.1.alloc.maxPages)
    (steps : List LStep) (hp : ∀ st ∈ steps, st.plain) (k : Nat) :
    (runLife s (steps.take k)).1.alloc.dataAvail + (runLife s (steps.take k)).1.statData +
      (runLife s (steps.take k)).1.alloc.metaTotal + 2 = s.1.alloc.maxPages := by
  have hq := c11_stats_lifetime s h (steps.take k) (plain_take steps k hp)
  have hm := runLife_plain_maxPages s h (steps.take k) (plain_take steps k hp)
  rw [hq.stat, ← hm]
  exact engAcc_space_eq (hq.engAcc (by rw [hm]; exact hb))

/-! ### examples -/

/-- what the examples show of a quiescent point: DataAllocated, the statistic a reopen would compute, pages owned,
    MetaAllocated, internal pages -/
def statShow (q : FileSt × List Nat) : List Nat :=
  [q.1.statData, q.1.openStat, q.2.length, q.1.alloc.metaTotal - q.1.alloc.mta.free.length, q.1.internal.length]

/-- a lifetime on an UNBOUNDED created file (initial meta area 4): allocations and writes, commit; reopen; a
    partial write through a fresh overwrite page (the meta area grows 4 → 8), free of a committed page, commit;
    reopen; a transaction that is rolled back (dirty page not flushed); free + allocation, explicit checkpoint,
    commit; reopen -/
def statLife : List LStep := [
  .txn { ops := [.alloc 3, .write 6 .full 1, .write 7 .full 1, .write 8 .lo 1, .flushPage 7], order := [6, 8] },
  .reopen,
  .txn { ops := [.write 6 .lo 2, .free 7, .alloc 2, .flushPage 6, .write 9 .full 2], order := [9] },
  .reopen,
  .txn { ops := [.write 8 .full 3, .alloc 4, .free 6, .checkpoint], order := [] },
  .txn { ops := [.write 8 .hi 4, .free 9, .alloc 1, .flushAll [8], .checkpoint], order := [] },
  .reopen ]

example : ∀ st ∈ statLife, st.plain := by decide

set_option maxRecDepth 16384 in
/-- the eight quiescent points: the first three numbers agree, and so do the last two -/
example : (List.range 8).map (fun k => statShow (runLife (FileSt.create 4096 0 4, []) (statLife.take k))) =
    [[0, 0, 0, 1, 1], [3, 3, 3, 1, 1], [3, 3, 3, 1, 1], [4, 4, 4, 3, 3], [4, 4, 4, 3, 3], [4, 4, 4, 3, 3],
     [4, 4, 4, 3, 3], [4, 4, 4, 3, 3]] := by decide

example : EngStat (runLife (FileSt.create 4096 0 4, []) statLife).1 (runLife (FileSt.create 4096 0 4, []) statLife).2 :=
  c11_stats_lifetime _ (engStat_create 4096 0 4 (by decide)) statLife (by decide)

/-- a file in the middle of its life with `DataAllocated = 4` (the state `accFile` of Props/C11Engine.lean: client
    pages 3 (redirected to the overwrite page 5), 4, 10, 11; free data page 9; meta area 5, 8, 2 in use, 6, 7 free),
    with the limit `mp` -/
def statFile (mp : Nat) : FileSt := { accFile with alloc := { accFile.alloc with maxPages := mp }, statData := 4 }

theorem statFile_engInv (mp : Nat) (hmp : mp = 0 ∨ mp = 40) : EngInv (statFile mp) [3, 4, 10, 11] := by
  have d : ∀ (p : Nat → Prop) [∀ n, Decidable (p n)], p 0 → p 40 → p mp := by
    intro p _ h0 h40; rcases hmp with rfl | rfl <;> assumption
  refine ⟨allocWF_spec _ (d (fun n => allocWF (statFile n).alloc = true) (by decide) (by decide)),
    Or.inl (Nat.le_refl 12), ?_, ?_, ?_, ?_, ?_, (by show [5, 8, 2].Nodup; decide),
    (by show 2 + 3 ≤ 5; decide),
    d (fun n => (statFile n).alloc.maxPages = 0 ∨ (statFile n).alloc.mta.endMarker ≤ (statFile n).alloc.maxPages)
      (by decide) (by decide)⟩
  · simp [AscKeys, statFile, accFile]
  · intro id hid
    simp only [List.mem_cons, List.not_mem_nil, or_false] at hid
    rcases hid with rfl | rfl | rfl | rfl <;> simp [InUse, statFile, accFile]
  · intro k w hk
    simp only [statFile, accFile, Assoc.get?_cons, Assoc.get?_nil] at hk
    split at hk
    · simp_all
    · cases hk
  · intro k1 k2 w h1 h2
    simp only [statFile, accFile, Assoc.get?_cons, Assoc.get?_nil] at h1 h2
    split at h1 <;> split at h2 <;> simp_all
  · intro x hx
    simp only [FileSt.internal, statFile, accFile, List.map_cons, List.map_nil, List.cons_append,
      List.nil_append, List.mem_cons, List.not_mem_nil, or_false] at hx
    rcases hx with rfl | rfl | rfl <;> simp [InUse, statFile, accFile]

/-- bounded (limit 40) and unbounded -/
example : EngStat (statFile 40) [3, 4, 10, 11] :=
  ⟨statFile_engInv 40 (Or.inr rfl), by decide, by decide, rfl⟩
example : EngStat (statFile 0) [3, 4, 10, 11] :=
  ⟨statFile_engInv 0 (Or.inl rfl), by decide, by decide, rfl⟩
example : statShow (statFile 0, [3, 4, 10, 11]) = [4, 4, 4, 3, 3] := by decide

/-! ### outside the hypotheses: the overflow area, lowered limits (observations, not violations: C11 excludes
    these states; the harness compares the statistic with the live set only while no transaction has used the
    overflow area) -/

set_option maxRecDepth 16384 in
/-- **observation (overflow area, commit)**: on the full bounded file `exO0` (limit 8, Props/C03History.lean: 4 client
    pages) the overflow transaction `exOv` takes 3 meta pages from beyond the limit. They are counted in `toMeta`
    (alloc.go `onGrow`) but were never counted in `data.alloc`, so the commit LOWERS `DataAllocated` from 4 to 1 although
    the client still owns 4 pages. The value `reportOpen` would compute (4) is right, `MetaAllocated` (4) is right. -/
theorem c11_stats_overflow_commit_underreports_observed :
    statShow (runLife exO0 [.txn exFill]) = [4, 4, 4, 1, 1] ∧
    statShow (runLife exO0 [.txn exFill, .txn exOv]) = [1, 4, 4, 4, 4] ∧
    (runLife exO0 [.txn exFill, .txn exOv]).1.alloc.mta.endMarker = 11 ∧
    (runLife exO0 [.txn exFill, .txn exOv]).1.alloc.maxPages = 8 := by decide

set_option maxRecDepth 16384 in
/-- **observation (overflow area, reopen)**: closing and reopening that state recomputes the live count — here the
    reopen REPAIRS the statistic (so `reopenP` is not the identity on such states) -/
theorem c11_stats_overflow_reopen_restores_observed :
    statShow (runLife exO0 [.txn exFill, .txn exOv, .reopen]) = [4, 4, 4, 4, 4] := by decide

set_option maxRecDepth 16384 in
/-- **observation (overflow area partly released)**: two more overflow transactions and a checkpoint transaction
    release a part of the overflow area; the data end marker (11) is left beyond the limit (8) and above the meta
    end marker (9). Now `DataAllocated` is 0, the client owns 4 pages, and even the statistic recomputed at open
    (`max(11, 9) − 2 − 3 − 0 = 6`) is NOT the live count: the pages 9 and 10 below the data end marker belong to
    nobody. `MetaAllocated` (1) is still the number of internal pages. -/
theorem c11_stats_overflow_release_overreports_observed :
    statShow (runLife exO0 [.txn exFill, .txn exOv, .txn exOv2, .txn exOv3, .txn exCkpt]) = [0, 6, 4, 1, 1] ∧
    statShow (runLife exO0 [.txn exFill, .txn exOv, .txn exOv2, .txn exOv3, .txn exCkpt, .reopen]) = [6, 6, 4, 1, 1] ∧
    (runLife exO0 [.txn exFill, .txn exOv, .txn exOv2, .txn exOv3, .txn exCkpt]).1.alloc.data.endMarker = 11 ∧
    (runLife exO0 [.txn exFill, .txn exOv, .txn exOv2, .txn exOv3, .txn exCkpt]).1.alloc.mta.endMarker = 9 ∧
    (runLife exO0 [.txn exFill, .txn exOv, .txn exOv2, .txn exOv3, .txn exCkpt]).1.alloc.maxPages = 8 := by decide

set_option maxRecDepth 16384 in
/-- **observation (lowered limits, no overflow area)**: along the lifetimes `exLifeA` (shrink below live pages, frees,
    the commit releases the free pages beyond the limit, grow, reopen, allocation) and `exLifeB` (frees, shrink with
    the release transaction of `shrinkFile`, reopen, limit removed, allocation) of Props/Lifetime.lean `DataAllocated`
    and the value recomputed at open are the live count at every quiescent point. `MetaAllocated` is the number of
    internal pages along `exLifeA`; in `exLifeB` it is one too high from the release transaction on (2 reported, 1
    internal page): `initTxReleaseRegions` allocates a new free-list page (7) without returning the old one (2) to
    the meta free list — page 2 is lost to the meta area (the known finding of Model/Resize.lean / DESIGN 14.5 (iii)).
    (Not covered by the theorems above: limit changes are not `LStep.plain`; after a shrink the data end marker may
    lie beyond the limit, `AU.Quiet.lim` fails; the accounting equations themselves do not mention the limit.) -/
theorem c11_stats_shrink_observed :
    (List.range 7).map (fun k => statShow (runLife exO0 (exLifeA.take k))) =
      [[0, 0, 0, 1, 1], [4, 4, 4, 1, 1], [4, 4, 4, 1, 1], [2, 2, 2, 1, 1], [2, 2, 2, 1, 1], [2, 2, 2, 1, 1],
       [4, 4, 4, 1, 1]] ∧
    (List.range 7).map (fun k => statShow (runLife exO0 (exLifeB.take k))) =
      [[0, 0, 0, 1, 1], [4, 4, 4, 1, 1], [2, 2, 2, 1, 1], [2, 2, 2, 2, 1], [2, 2, 2, 2, 1], [2, 2, 2, 2, 1],
       [4, 4, 4, 2, 1]] := by decide

end TxVerif
