/-
  C08 (crash part) - a FAILING SYNC never damages the committed state, and a commit whose final
  sync failed is either completely there or completely gone.

  Model: Model/CrashFail.lean (trace language `FOp` = operations of Model/Crash.lean + `syncFail`
  + `restore`; executable discipline `FCfg.step` / `FCfg.run`; real durable image evolving
  nondeterministically, `DurStep` / `Exec`). Lemmas: Proofs/CrashFail.lean (invariant `FSafe`).

  The discipline on the failure path (what `FCfg.step` checks, see the header of the model file):
    F1  a data sync may fail; the pages touched by the lost operations are of unknown durable
        content and no header may name a state containing such a page;
    F2  after the final sync (the one after the header write) failed NOTHING is accepted but
        `restore` of exactly the saved old contents of the in-flight slot followed by a sync;
        if that sync fails as well: restore again, or stop (close the file). No page write, no
        truncate, no other header until a restore sync has SUCCEEDED;
    F3  restore + successful sync: committed (slot, txid, state) as before the failed commit,
        nothing in flight; the next commit takes the same slot and the same txid again.

  What is guaranteed in which phase (`ck` = configuration at the crash point, theorem
  `crash_recovers_fail`; `pendingSt` is spelled out by `pendingSt_normal/_failed/_restoring`):
    * normal, no header in flight (includes: after a failed DATA sync, after a completed
      restore):                          recovery yields the committed state `aSt`, complete
                                         (`crash_committed_only`);
    * normal, header in flight:          `aSt` or the state `st'` of the commit, complete (as C01);
    * failed st' / restoring st' (from the failed final sync until the restore sync succeeded):
                                         `aSt` or `st'`, and whichever is recovered is COMPLETE -
                                         this is unconditional, because F2 forbids every page
                                         operation in these phases;
    * after restore + successful sync:   `aSt` only, until the next commit writes its header
                                         (`failed_attempt_never_resurfaces`), with the header
                                         slots exactly as before the failed commit
                                         (`restore_completes`).
  Equal transaction ids in both slots (where `recover` would pick slot 1, `recover_tie`) never
  occur: the restored header is strictly older than the committed one (`no_txid_tie`).

  Counterexample (`lax_discipline_not_crash_safe`): dropping the last sentence of F2 - carrying on with
  the next transaction after the restore's own sync failed, or without any restore - is NOT crash
  safe: the failed commit's header can be durable, the rolled-back transaction's pages are
  reused, and a crash recovers the failed commit's state with foreign page contents.
-/
import TxVerif.Proofs.CrashFail
import TxVerif.Props.C01
namespace TxVerif

theorem pendingSt_normal (b : Cfg) (u : Nat → Bool) : (⟨b, u, .normal⟩ : FCfg).pendingSt = b.inflight := rfl
theorem pendingSt_failed (b : Cfg) (u : Nat → Bool) (st' : Nat) : (⟨b, u, .failed st'⟩ : FCfg).pendingSt = some st' := rfl
theorem pendingSt_restoring (b : Cfg) (u : Nat → Bool) (st' : Nat) :
    (⟨b, u, .restoring st'⟩ : FCfg).pendingSt = some st' := rfl

/-- **crash_recovers_fail** (a): take an accepted trace with failing syncs, stop it after any number
    `k` of operations, let every failing sync so far have made durable whatever subset of its pending
    operations (`Exec`: such executions exist, and the configuration `ck` does not depend on the
    outcomes), and keep any subset of the operations pending at the crash point: recovery yields the
    committed state, or the state of the commit whose header is in flight / whose final sync failed
    and whose restore is not durable yet (`ck.pendingSt`), and every page of the recovered state has
    the content that state's commit wrote. -/
theorem crash_recovers_fail (reachOf : Nat → List (Nat × Hash)) (c0 : FCfg) (d0 : Img) (h0 : FSafe reachOf c0 d0)
    (trace : List FOp) (cEnd : FCfg) (hacc : c0.run reachOf trace = some cEnd) (k : Nat) :
    ∃ ck, c0.run reachOf (trace.take k) = some ck ∧
      (∃ dk, Exec (FCfg.step reachOf) c0 d0 (trace.take k) ck dk) ∧
      ∀ ck' dk, Exec (FCfg.step reachOf) c0 d0 (trace.take k) ck' dk → ck' = ck ∧
        ∀ img, CrashImg dk ck.base.pending img →
          ∃ st, recover img = some st ∧ (st = ck.base.aSt ∨ ck.pendingSt = some st) ∧
            ∀ p h, (p, h) ∈ reachOf st → img.pages p = some h := by
  obtain ⟨ck, hk⟩ := frun_prefix reachOf trace c0 cEnd k hacc
  refine ⟨ck, hk, exec_of_run reachOf _ c0 ck d0 hk, ?_⟩
  intro ck' dk hex
  have he : ck' = ck := by have := exec_run reachOf hex; rw [hk] at this; cases this; rfl
  subst he
  exact ⟨rfl, fun img hc => fsafe_crash reachOf ck' dk (fsafe_exec reachOf hex h0) img hc⟩

/-- (a), committed phases: with no header in flight and no failed commit awaiting its restore - in
    particular after a failed DATA sync - every crash image recovers exactly the committed state -/
theorem crash_committed_only (reachOf : Nat → List (Nat × Hash)) (c : FCfg) (d : Img) (hs : FSafe reachOf c d)
    (hph : c.phase = .normal) (hi : c.base.inflight = none) (img : Img) (hc : CrashImg d c.base.pending img) :
    recover img = some c.base.aSt ∧ ∀ p h, (p, h) ∈ reachOf c.base.aSt → img.pages p = some h := by
  obtain ⟨st, hr, hst, hpg⟩ := fsafe_crash reachOf c d hs img hc
  have hn : c.pendingSt = none := by
    rcases c with ⟨b, u, ph⟩
    simp only at hph hi; subst hph; exact hi
  rcases hst with rfl | hst
  · exact ⟨hr, hpg⟩
  · rw [hn] at hst; cases hst

/-- a failing sync leaves the committed header alone in the configuration as well -/
theorem syncFail_keeps_committed (reachOf : Nat → List (Nat × Hash)) (c c' : FCfg)
    (h : c.step reachOf .syncFail = some c') :
    c'.base.aSlot = c.base.aSlot ∧ c'.base.aTx = c.base.aTx ∧ c'.base.aSt = c.base.aSt ∧ c'.base.pending = [] := by
  rcases c with ⟨b, u, ph⟩
  cases ph with
  | normal =>
    simp only [FCfg.step] at h
    cases hi : b.inflight with
    | none => simp only [hi, Option.some.injEq] at h; subst h; exact ⟨rfl, rfl, rfl, rfl⟩
    | some st => simp only [hi, Option.some.injEq] at h; subst h; exact ⟨rfl, rfl, rfl, rfl⟩
  | failed st' => simp [FCfg.step] at h
  | restoring st' => simp only [FCfg.step, Option.some.injEq] at h; subst h; exact ⟨rfl, rfl, rfl, rfl⟩

/-- F2 as a theorem about the acceptor: while a failed commit awaits its restore, only a restore
    (`restore`, or the same header write unmarked) is accepted; while the restore awaits its sync,
    only a sync (succeeding or failing) -/
theorem failure_path_locked (reachOf : Nat → List (Nat × Hash)) (c c' : FCfg) (op : FOp)
    (h : c.step reachOf op = some c') :
    (∀ st', c.phase = .failed st' → ∃ s t st, (op = .restore s t st ∨ op = .op (.hdr s t st)) ∧
        s = 1 - c.base.aSlot ∧ c.base.durable.slots (1 - c.base.aSlot) = some (t, st) ∧ c'.phase = .restoring st') ∧
    (∀ st', c.phase = .restoring st' → op = .op .sync ∨ op = .syncFail) := by
  rcases c with ⟨b, u, ph⟩
  have hr : ∀ st' s t st, (⟨b, u, .failed st'⟩ : FCfg).restoreStep s t st = some c' →
      s = 1 - b.aSlot ∧ b.durable.slots (1 - b.aSlot) = some (t, st) ∧ c'.phase = .restoring st' := by
    intro st' s t st hh
    simp only [FCfg.restoreStep] at hh
    split at hh
    · rename_i hc
      simp only [Bool.and_eq_true, beq_iff_eq] at hc
      simp only [Option.some.injEq] at hh; subst hh
      exact ⟨hc.1, hc.2, rfl⟩
    · cases hh
  constructor
  · intro st' hph
    simp only at hph; subst hph
    cases op with
    | op o =>
      cases o with
      | hdr s t st => exact ⟨s, t, st, Or.inr rfl, hr st' s t st (by simpa [FCfg.step] using h)⟩
      | write p hh => simp [FCfg.step] at h
      | trunc n => simp [FCfg.step] at h
      | sync => simp [FCfg.step] at h
    | syncFail => simp [FCfg.step] at h
    | restore s t st => exact ⟨s, t, st, Or.inl rfl, hr st' s t st (by simpa [FCfg.step] using h)⟩
  · intro st' hph
    simp only at hph; subst hph
    cases op with
    | op o =>
      cases o with
      | sync => exact Or.inl rfl
      | hdr s t st => simp [FCfg.step] at h
      | write p hh => simp [FCfg.step] at h
      | trunc n => simp [FCfg.step] at h
    | syncFail => exact Or.inr rfl
    | restore s t st => simp [FCfg.step, FCfg.restoreStep] at h

/-- **restore_completes** (b, c): the restore's sync succeeds. The acceptor is back in the normal
    phase with the committed (slot, txid, state) of before the failed commit and nothing in flight;
    on the real file every header slot holds exactly what was known before the failed commit wrote
    its header (`c.base.durable` does not change on the failure path); the invariant of the
    extended discipline holds, and so does - for the REAL image - the invariant `Safe` of
    Model/Crash.lean, so `safe_run` / `crash_recovers` (C01) apply to the continuation. -/
theorem restore_completes (reachOf : Nat → List (Nat × Hash)) (c : FCfg) (d : Img) (st' : Nat)
    (hs : FSafe reachOf c d) (hph : c.phase = .restoring st') :
    ∃ c1, c.step reachOf (.op .sync) = some c1 ∧
      c1.phase = .normal ∧ c1.base.inflight = none ∧ c1.base.pending = [] ∧
      c1.base.aSlot = c.base.aSlot ∧ c1.base.aTx = c.base.aTx ∧ c1.base.aSt = c.base.aSt ∧
      ∀ d1, DurStep c d (.op .sync) d1 →
        FSafe reachOf c1 d1 ∧ (∀ k, d1.slots k = c.base.durable.slots k) ∧
        Safe reachOf { c1.base with durable := d1 } := by
  rcases c with ⟨b, u, ph⟩
  simp only at hph; subst hph
  refine ⟨_, rfl, rfl, rfl, rfl, rfl, rfl, rfl, ?_⟩
  intro d1 hd1
  have hs1 := fsafe_step reachOf _ _ d d1 (.op .sync) hs rfl hd1
  refine ⟨hs1, ?_, safe_of_fsafe reachOf _ d1 hs1 rfl⟩
  intro k
  rw [hs1.slotsAgree k (Or.inl rfl)]
  obtain ⟨t, s, hp, hm⟩ := hs.restP st' rfl
  simp only at hp hm
  show (b.pending.foldl applyOp b.durable).slots k = b.durable.slots k
  rw [hp]
  simp only [List.foldl_cons, List.foldl_nil, applyOp]
  split
  · rename_i hk; rw [hk, hm]
  · rfl

/-- **failed_attempt_never_resurfaces** (b): once the restore's sync has succeeded, every crash
    image of every execution of every accepted continuation that does not write a header (i.e. up
    to the header write of the next commit; data syncs may fail) recovers the OLD committed state,
    complete - whatever the failed final sync and the failed restore syncs had made durable. -/
theorem failed_attempt_never_resurfaces (reachOf : Nat → List (Nat × Hash)) (c : FCfg) (d : Img) (st' : Nat)
    (hs : FSafe reachOf c d) (hph : c.phase = .restoring st')
    (c1 : FCfg) (d1 : Img) (h1 : c.step reachOf (.op .sync) = some c1) (hd1 : DurStep c d (.op .sync) d1)
    (ops : List FOp) (hno : ∀ op ∈ ops, op.noHdr = true) (ck : FCfg) (dk : Img)
    (hex : Exec (FCfg.step reachOf) c1 d1 ops ck dk) (img : Img) (hc : CrashImg dk ck.base.pending img) :
    recover img = some c.base.aSt ∧ ∀ p h, (p, h) ∈ reachOf c.base.aSt → img.pages p = some h := by
  obtain ⟨c1', h1', hn, hi, _, _, _, hst, _⟩ := restore_completes reachOf c d st' hs hph
  rw [h1] at h1'; cases h1'
  have hs1 := fsafe_step reachOf _ _ d d1 (.op .sync) hs h1 hd1
  obtain ⟨kn, ki, _, _, kst⟩ := noHdr_exec reachOf hex hn hi hno
  have := crash_committed_only reachOf ck dk (fsafe_exec reachOf hex hs1) kn ki img hc
  rw [kst, hst] at this
  exact this

/-- what `recover` does on equal transaction ids: it takes slot 1 -/
theorem recover_tie (i : Img) (t s0 s1 : Nat) (h0 : i.slots 0 = some (t, s0)) (h1 : i.slots 1 = some (t, s1)) :
    recover i = some s1 := by
  simp [recover, h0, h1]

/-- ... which never happens: in no crash image of a safe configuration do the two slots carry valid
    headers with the same transaction id (the restored header is older than the committed one) -/
theorem no_txid_tie (reachOf : Nat → List (Nat × Hash)) (c : FCfg) (d : Img) (hs : FSafe reachOf c d) (img : Img)
    (hc : CrashImg d c.base.pending img) (t0 s0 t1 s1 : Nat) (h0 : img.slots 0 = some (t0, s0))
    (h1 : img.slots 1 = some (t1, s1)) : t0 ≠ t1 :=
  imgOk_no_tie hs.slotLe (hs.crashOk hc) t0 s0 t1 s1 h0 h1

/-- **continuation_crash_safe** (c): after the completed restore, every continuation that follows the
    discipline of Model/Crash.lean on the real file (the next commit writes slot `1 - aSlot` with
    txid `aTx + 1` AGAIN and may overwrite or truncate the failed attempt's pages) is crash safe in
    the sense of C01 `crash_recovers`. -/
theorem continuation_crash_safe (reachOf : Nat → List (Nat × Hash)) (c : FCfg) (d : Img) (st' : Nat)
    (hs : FSafe reachOf c d) (hph : c.phase = .restoring st')
    (c1 : FCfg) (d1 : Img) (h1 : c.step reachOf (.op .sync) = some c1) (hd1 : DurStep c d (.op .sync) d1)
    (ops : List TOp) (cEnd : Cfg) (hacc : ({ c1.base with durable := d1 } : Cfg).run reachOf ops = some cEnd) (k : Nat) :
    ∃ ck, ({ c1.base with durable := d1 } : Cfg).run reachOf (ops.take k) = some ck ∧
      ∀ img, CrashImg ck.durable ck.pending img →
        ∃ st, recover img = some st ∧ (st = ck.aSt ∨ ck.inflight = some st) ∧
          ∀ p h, (p, h) ∈ reachOf st → img.pages p = some h := by
  obtain ⟨c1', h1', _, _, _, _, _, _, hall⟩ := restore_completes reachOf c d st' hs hph
  rw [h1] at h1'; cases h1'
  exact crash_recovers reachOf _ (hall d1 hd1).2.2 ops cEnd hacc k

/-- (c), acceptor side: in the normal phase with no page of unknown content, the extended acceptor
    accepts every continuation the acceptor of Model/Crash.lean accepts, ending in the same
    configuration (so a log without failures is judged exactly as before) -/
theorem continuation_accepted (reachOf : Nat → List (Nat × Hash)) (c1 : FCfg) (hph : c1.phase = .normal)
    (hu : ∀ q, c1.unk q = false) (ops : List TOp) (cEnd : Cfg) (hacc : c1.base.run reachOf ops = some cEnd) :
    ∃ u', c1.run reachOf (ops.map .op) = some ⟨cEnd, u', .normal⟩ ∧ ∀ q, u' q = false := by
  rcases c1 with ⟨b, u, ph⟩
  simp only at hph; subst hph
  exact run_lift reachOf ops b cEnd u hu hacc

/-- the invariant of the extended discipline is preserved by every accepted operation, whatever a
    failing sync makes durable; hence (c) also holds for continuations with further failures -/
theorem fsafe_preserved (reachOf : Nat → List (Nat × Hash)) (c c' : FCfg) (d d' : Img) (ops : List FOp)
    (hs : FSafe reachOf c d) (hex : Exec (FCfg.step reachOf) c d ops c' d') : FSafe reachOf c' d' :=
  fsafe_exec reachOf hex hs

/-- starting points: every safe configuration of Model/Crash.lean (`safe_init`, `safe_start`, a
    recovered file) -/
theorem fsafe_start (reachOf : Nat → List (Nat × Hash)) (c : Cfg) (hs : Safe reachOf c) :
    FSafe reachOf (FCfg.ofCfg c) c.durable :=
  fsafe_of_safe reachOf c hs

/-- **recovered_operational_fail**: closing the file on the failure path (e.g. after the restore's
    sync failed too) or crashing anywhere: the file found at the next open is a safe starting
    configuration of Model/Crash.lean whose committed state is the recovered one -/
theorem recovered_operational_fail (reachOf : Nat → List (Nat × Hash)) (c : FCfg) (d : Img)
    (hs : FSafe reachOf c d) (img : Img) (hc : CrashImg d c.base.pending img) :
    ∃ a tx st, recover img = some st ∧ (st = c.base.aSt ∨ c.pendingSt = some st) ∧
      Safe reachOf { durable := img, pending := [], aSlot := a, aTx := tx, aSt := st, inflight := none } :=
  imgOk_restart hs.slotLe (hs.crashOk hc)

/-! ### non-vacuity -/

def fxReach : Nat → List (Nat × Hash) := fun st =>
  if st = 1 then [(5, 77)] else if st = 2 then [(5, 99), (6, 11)] else []

def fxInit : FCfg := FCfg.ofCfg (initCfg (fun _ => none))

/-- commit of state 1 (txid 2, slot 1) whose final sync fails; the restore (slot 1 held (0, 0)) whose
    sync fails too; a second restore that is synced; then the complete commit of state 2, which
    overwrites page 5 of the failed attempt and takes txid 2 and slot 1 again -/
def fxTrace : List FOp :=
  [.op (.write 5 77), .op .sync, .op (.hdr 1 2 1), .syncFail,
   .restore 1 0 0, .syncFail, .restore 1 0 0, .op .sync,
   .op (.write 5 99), .op (.write 6 11), .op .sync, .op (.hdr 1 2 2), .op .sync, .op (.write 7 1)]

example : (fxInit.run fxReach fxTrace).isSome = true := by decide
/-- a log that does not mark the restore: the header write is recognised as the restore -/
example : (fxInit.run fxReach [.op (.write 5 77), .op .sync, .op (.hdr 1 2 1), .syncFail,
    .op (.hdr 1 0 0), .op .sync, .op (.write 5 99)]).isSome = true := by decide
/-- the final configuration: state 2 committed in slot 1 with txid 2 -/
example : (fxInit.run fxReach fxTrace).map (fun c => (c.base.aSlot, c.base.aTx, c.base.aSt, c.phase)) =
    some (1, 2, 2, .normal) := by decide
/-- rejected: a page write before the restore -/
example : (fxInit.run fxReach [.op (.write 5 77), .op .sync, .op (.hdr 1 2 1), .syncFail,
    .op (.write 5 99)]).isSome = false := by decide
/-- rejected: a page write after the restore's sync failed -/
example : (fxInit.run fxReach [.op (.write 5 77), .op .sync, .op (.hdr 1 2 1), .syncFail,
    .restore 1 0 0, .syncFail, .op (.write 5 99)]).isSome = false := by decide
/-- rejected: restoring something else than the slot's old contents (here: a copy of the active header) -/
example : (fxInit.run fxReach [.op (.write 5 77), .op .sync, .op (.hdr 1 2 1), .syncFail,
    .restore 1 1 0]).isSome = false := by decide
/-- rejected: going on to the header after the data sync failed ... -/
example : (fxInit.run fxReach [.op (.write 5 77), .syncFail, .op (.hdr 1 2 1)]).isSome = false := by decide
/-- ... accepted once the pages are written again and synced -/
example : (fxInit.run fxReach [.op (.write 5 77), .syncFail, .op (.write 5 77), .op .sync,
    .op (.hdr 1 2 1), .op .sync]).isSome = true := by decide

/-- the open-time max-size update with a rollback's truncate pending (relaxed header rule of `Cfg.step`) -/
example : ((FCfg.ofCfg mxInit).run mxReach [.op (.trunc 6), .op (.hdr 1 2 0), .op .sync]).isSome = true := by decide
/-- ... and when its sync fails: the lost truncate only makes pages >= 6 unknown, the restore follows -/
example : ((FCfg.ofCfg mxInit).run mxReach [.op (.trunc 6), .op (.hdr 1 2 0), .syncFail, .restore 1 0 0,
    .op .sync, .op (.write 8 1)]).isSome = true := by decide

theorem fxInit_safe : FSafe fxReach fxInit (initCfg (fun _ => none)).durable :=
  fsafe_start fxReach _ (safe_init fxReach _ (by intro p hh h; simp [fxReach] at h))

/-! ### the counterexample: carrying on without a durable restore is not crash safe -/

/-- state 1 = {page 5 ↦ 77}. Commit of state 1: its final sync fails but the header (txid 2) DID
    reach the disk; the restore is written, its sync fails and the restore did NOT reach the disk;
    the engine (lax variant `FCfg.stepLax`) carries on: the next transaction reuses page 5. -/
def cxTrace : List FOp :=
  [.op (.write 5 77), .op .sync, .op (.hdr 1 2 1), .syncFail, .restore 1 0 0, .syncFail, .op (.write 5 99)]

def cxD0 : Img := (initCfg (fun _ => none)).durable
def cxD1 : Img := applyOp cxD0 (.write 5 77)          -- after the data sync
def cxD2 : Img := applyOp cxD1 (.hdr 1 2 1)           -- the failed final sync made the header durable
def cxImg : Img := applyOp cxD2 (.write 5 99)         -- crash image: the new write reached the disk

/-- the strict discipline rejects the trace, the lax one accepts it -/
example : (fxInit.run fxReach cxTrace).isSome = false := by decide
example : (fxInit.runLax fxReach cxTrace).isSome = true := by decide

/-- **lax_discipline_not_crash_safe**: an execution accepted by the lax variant and a crash image of it in
    which recovery selects state 1 (the FAILED commit, txid 2 > 1) although page 5 of state 1 holds
    99 instead of 77 - neither the committed state 0 nor an intact state 1. -/
theorem lax_discipline_not_crash_safe :
    ∃ ck, Exec (FCfg.stepLax fxReach) fxInit cxD0 cxTrace ck cxD2 ∧
      CrashImg cxD2 ck.base.pending cxImg ∧
      recover cxImg = some 1 ∧ ck.base.aSt = 0 ∧ (5, 77) ∈ fxReach 1 ∧ cxImg.pages 5 = some 99 := by
  apply Exists.intro
  refine ⟨?_, ?_, by decide, ?_, by decide, by decide⟩
  · exact .cons rfl rfl (.cons rfl rfl (.cons rfl rfl
      (.cons rfl (.keep (.nil _)) (.cons rfl rfl
      (.cons rfl (.drop (.nil _)) (.cons rfl rfl (.nil _ _)))))))
  · exact .keep (.nil _)
  · rfl

/-- the same without any restore attempt (the behaviour before the repair) -/
theorem no_restore_not_crash_safe :
    ∃ ck, Exec (FCfg.stepLax fxReach) fxInit cxD0
        [.op (.write 5 77), .op .sync, .op (.hdr 1 2 1), .syncFail, .op (.write 5 99)] ck cxD2 ∧
      CrashImg cxD2 ck.base.pending cxImg ∧
      recover cxImg = some 1 ∧ ck.base.aSt = 0 ∧ (5, 77) ∈ fxReach 1 ∧ cxImg.pages 5 = some 99 := by
  apply Exists.intro
  refine ⟨?_, ?_, by decide, ?_, by decide, by decide⟩
  · exact .cons rfl rfl (.cons rfl rfl (.cons rfl rfl
      (.cons rfl (.keep (.nil _)) (.cons rfl rfl (.nil _ _)))))
  · exact .keep (.nil _)
  · rfl

end TxVerif
