/-
  C10 and C02 at the level of the engine model (Model/Engine.lean), on top of the refinement
  machinery (Proofs/Refine.lean, Proofs/RefineMore.lean); helper lemmas: Proofs/RefineReopen.lean.

  C10  close + open yields the same logical file
    `FileSt.reopen` (a) applies `Alloc.absorbOverflow` and (b) recomputes the statistic `statData`.
    (a) is the identity exactly when `NoGap f.alloc` holds:
          `mta.endMarker ≤ data.endMarker ∨ (0 < maxPages ∧ maxPages ≤ data.endMarker)`.
        `EngInv` does NOT imply `NoGap` (`c10_gap_example`: a state satisfying `EngInv` whose reopened
        instance hands out other page ids) — such states exist only after the page limit was raised or
        removed over an overflow area; `c10_history_nogap_partial` shows that transactions that do not use the overflow
        area never create a gap.
    (b) nothing reads the statistic; it is excluded from the observation (`ERunSt.obsNS`), and when it
        was truthful (`f.statData = f.openStat`) reopening is the identity on the whole state.

    c10_reopen_keeps_invariant      `EngInv f live → EngInv f.reopen live`        (unconditional)
    c10_reopen_logical              root, mapping, every page content, free lists, meta area, ids kept
    c10_reopen_state                `NoGap`: `f.reopen = f.ws f.openStat` (only the statistic differs)
    c10_reopen_exact                `NoGap` + truthful statistic: `f.reopen = f`
    c10_reopen_run                  the run on `f.reopen` IS the run on `f` with the other statistic
    c10_reopen_observational        … hence the same observation for EVERY operation list
    c10_reopen_reads / _allocs / _commit   same `Page.Bytes`, same ids, same flush + commit outcome
    c10_allocatable_same            same `dataAvail`, same meta free list / meta total
    c10_history_reopen, c10_history_insert_reopen   histories: a reopen between two transactions
    c10_history_nogap_partial       `NoGap` is kept by every transaction (overflow = false, as `c03_history_partial`)
    c10_history_reopen_anywhere_partial, c10_history_reopen_created_partial
                                    hence a reopen anywhere in a history from a state without gap / a created file
    c10_gap_example                 `EngInv` without `NoGap`: the reopened instance hands out other page ids

  C02  a reader of the committed state is not disturbed by a running write transaction
    c02_writer_invisible            the disk pages the reader maps are never written before commit
    c02_reader_root                 root and mapping are untouched before commit
    c02_reader_view                 so every live page reads the same, through the old or the current mapping
    c02_writer_invisible_flush      … also after the final flush that precedes the commit
    c02_writer_invisible_end        … and after the transaction ended without commit / failed commit
-/
import TxVerif.Proofs.RefineReopen
import TxVerif.Props.C04C07Engine
namespace TxVerif

/-! ## C10 -/

/-- **C10, the invariant survives reopening** — without any extra hypothesis: if `absorbOverflow` moves
    the data end marker, it moves it to the meta end marker, which `EngInv.noOv` keeps within the limit. -/
theorem c10_reopen_keeps_invariant (f : FileSt) (live : List Nat) (he : EngInv f live) :
    EngInv f.reopen live :=
  engInv_reopen he

/-- **C10, same logical file**: same root, transaction id, overwrite mapping, mapping pages, the same
    content for every page (in particular every live page), both free lists, the meta area and the
    free-list pages; the data end marker does not decrease. (No hypothesis.) -/
theorem c10_reopen_logical (f : FileSt) :
    f.reopen.root = f.root ∧ f.reopen.txid = f.txid ∧ f.reopen.walMap = f.walMap ∧
    f.reopen.walPages = f.walPages ∧ f.reopen.disk = f.disk ∧ (∀ id, f.reopen.readPage id = f.readPage id) ∧
    f.reopen.alloc.data.free = f.alloc.data.free ∧ f.reopen.alloc.mta = f.alloc.mta ∧
    f.reopen.alloc.metaTotal = f.alloc.metaTotal ∧ f.reopen.alloc.maxPages = f.alloc.maxPages ∧
    f.reopen.alloc.freelistPages = f.alloc.freelistPages ∧
    f.alloc.data.endMarker ≤ f.reopen.alloc.data.endMarker := by
  obtain ⟨k1, k2, k3, k4, k5, k6⟩ := absorb_keeps f.alloc
  exact ⟨rfl, rfl, rfl, rfl, rfl, fun _ => rfl, k1, k2, k3, k4, k5, k6⟩

/-- **C10**: without a gap the reopened state is the old state with the recomputed statistic -/
theorem c10_reopen_state (f : FileSt) (hg : NoGap f.alloc) : f.reopen = f.ws f.openStat :=
  reopen_ws f hg

/-- the allocator is unchanged by reopening if and only if there is no gap -/
theorem c10_reopen_alloc_iff (f : FileSt) : f.reopen.alloc = f.alloc ↔ NoGap f.alloc :=
  absorb_id_iff f.alloc

/-- **C10**: without a gap and with a truthful statistic reopening is the identity -/
theorem c10_reopen_exact (f : FileSt) (hg : NoGap f.alloc) (hs : f.statData = f.openStat) : f.reopen = f := by
  rw [reopen_ws f hg, ← hs]; rfl

/-! ### any transaction on the reopened instance -/

/-- the observation of a running transaction without the statistic: transaction state, owned pages,
    abstract store on the owned pages, and the file state with the disk and the statistic erased -/
def ERunSt.obsNS (s : ERunSt) : EObs := (s.ws 0).obs

theorem obsNS_ws (s : ERunSt) (n : Nat) : (s.ws n).obsNS = s.obsNS := rfl

theorem start_reopen (f : FileSt) (hg : NoGap f.alloc) (live : List Nat) (ov : Bool) (g wl : Nat) :
    ERunSt.start f.reopen live ov g wl = (ERunSt.start f live ov g wl).ws f.openStat := by
  rw [reopen_ws f hg]; rfl

/-- **C10, lockstep**: for every option set and EVERY operation list, the transaction on the reopened
    instance is, state by state, the transaction on the instance that was never closed — the same
    transaction state (pages, allocator undo state, overwrite pages), the same owned pages (every
    allocation returned the same ids), the same abstract store, the same disk, allocator, mapping, root;
    only the statistic field carries the recomputed value. -/
theorem c10_reopen_run (f : FileSt) (hg : NoGap f.alloc) (live : List Nat) (ov : Bool) (g wl : Nat)
    (ops : List EOp) :
    runEOps (ERunSt.start f.reopen live ov g wl) ops = (runEOps (ERunSt.start f live ov g wl) ops).ws f.openStat := by
  rw [start_reopen f hg, run_ws]

/-- **C10, observational equality** (the statistic excluded) -/
theorem c10_reopen_observational (f : FileSt) (live : List Nat) (_he : EngInv f live) (hg : NoGap f.alloc)
    (ov : Bool) (g wl : Nat) (ops : List EOp) :
    (runEOps (ERunSt.start f.reopen live ov g wl) ops).obsNS = (runEOps (ERunSt.start f live ov g wl) ops).obsNS := by
  rw [c10_reopen_run f hg, obsNS_ws]

/-- **C10, observational equality** including the statistic, when it was truthful before closing -/
theorem c10_reopen_observational_truthful (f : FileSt) (live : List Nat) (_he : EngInv f live)
    (hg : NoGap f.alloc) (hs : f.statData = f.openStat) (ov : Bool) (g wl : Nat) (ops : List EOp) :
    (runEOps (ERunSt.start f.reopen live ov g wl) ops).obs = (runEOps (ERunSt.start f live ov g wl) ops).obs := by
  rw [c10_reopen_exact f hg hs]

/-- **C10, same reads**: at every point of the transaction `Page.Bytes` of any page returns the same
    result (content or error, and the same transaction state) -/
theorem c10_reopen_reads (f : FileSt) (hg : NoGap f.alloc) (live : List Nat) (ov : Bool) (g wl : Nat)
    (ops : List EOp) (id : Nat) :
    txRead (runEOps (ERunSt.start f.reopen live ov g wl) ops).f (runEOps (ERunSt.start f.reopen live ov g wl) ops).tx id =
    txRead (runEOps (ERunSt.start f live ov g wl) ops).f (runEOps (ERunSt.start f live ov g wl) ops).tx id := by
  rw [c10_reopen_run f hg]; rfl

/-- **C10, same page ids**: at every point `Alloc/AllocN` fails in the same way or returns the same ids,
    the same transaction state and the same file state up to the statistic -/
theorem c10_reopen_allocs (f : FileSt) (hg : NoGap f.alloc) (live : List Nat) (ov : Bool) (g wl : Nat)
    (ops : List EOp) (n : Nat) :
    txAlloc (runEOps (ERunSt.start f.reopen live ov g wl) ops).f (runEOps (ERunSt.start f.reopen live ov g wl) ops).tx n =
    mapF (·.ws f.openStat)
      (txAlloc (runEOps (ERunSt.start f live ov g wl) ops).f (runEOps (ERunSt.start f live ov g wl) ops).tx n) := by
  rw [c10_reopen_run f hg]
  exact txAlloc_ws _ _ _ _

/-- **C10, same commit**: the final flush (any order) has the same outcome (error, or the same transaction
    state and written pages, file state equal up to the statistic); the commit then returns the same
    result and the same copied-back pages, and the committed file states are equal up to the statistic —
    in particular every page reads the same on both; a failing commit leaves the statistic alone. -/
theorem c10_reopen_commit (f : FileSt) (hg : NoGap f.alloc) (live : List Nat) (ov : Bool) (g wl : Nat)
    (ops : List EOp) (order : List Nat) :
    let s1 := runEOps (ERunSt.start f.reopen live ov g wl) ops
    let s2 := runEOps (ERunSt.start f live ov g wl) ops
    flushList s1.f s1.tx order = mapF (·.ws f.openStat) (flushList s2.f s2.tx order) ∧
    ∀ f2 tx2, ∃ m,
      commitAfterFlush (f2.ws f.openStat) tx2 = ((commitAfterFlush f2 tx2).1.ws m, (commitAfterFlush f2 tx2).2) ∧
      ((commitAfterFlush f2 tx2).2.1 ≠ .ok → m = f.openStat) ∧
      (∀ id, (commitAfterFlush (f2.ws f.openStat) tx2).1.readPage id = (commitAfterFlush f2 tx2).1.readPage id) := by
  intro s1 s2
  refine ⟨?_, fun f2 tx2 => ?_⟩
  · show flushList (runEOps (ERunSt.start f.reopen live ov g wl) ops).f
      (runEOps (ERunSt.start f.reopen live ov g wl) ops).tx order = _
    rw [c10_reopen_run f hg]
    exact flushList_ws order s2.f f.openStat s2.tx
  · obtain ⟨m, e, hm⟩ := commit_ws f2 f.openStat tx2
    exact ⟨m, e, hm, fun id => by rw [e]; rfl⟩

/-- **C10, same number of allocatable pages**: the meta free list, the data free list and the size of the
    meta area are the same (no hypothesis); without a gap the number of pages the data allocator can hand
    out (`dataAllocator.Avail`) is the same. -/
theorem c10_allocatable_same (f : FileSt) (hg : NoGap f.alloc) :
    f.reopen.alloc.dataAvail = f.alloc.dataAvail ∧ f.reopen.alloc.mta.free = f.alloc.mta.free ∧
    f.reopen.alloc.data.free = f.alloc.data.free ∧ f.reopen.alloc.metaTotal = f.alloc.metaTotal := by
  rw [(c10_reopen_alloc_iff f).mpr hg]
  exact ⟨rfl, rfl, rfl, rfl⟩

/-! ### histories -/

/-- the committed state and the owned pages after closing and reopening the file -/
def reopenSt (s : FileSt × List Nat) : FileSt × List Nat := (s.1.reopen, s.2)

/-- **C10, histories**: running any history of write transactions (committed, failed or rolled back;
    `runHistory` of Props/C03Refine.lean, transactions without overflow area) on the reopened instance gives
    the same owned pages and the same committed file state — allocator, mapping, mapping pages, root,
    transaction id and the whole disk — up to the statistic. -/
theorem c10_history_reopen (s : FileSt × List Nat) (hg : NoGap s.1.alloc) (ts : List Txn) :
    ∃ m, runHistory (reopenSt s) ts = ((runHistory s ts).1.ws m, (runHistory s ts).2) := by
  unfold reopenSt
  rw [reopen_ws s.1 hg]
  exact runHistory_ws ts s _

/-- **C10, a reopen between any two transactions** of a history does not change the final state (up to the
    statistic), nor what any page reads. The hypothesis speaks about the state at which the file is
    closed; `c10_history_nogap_partial` discharges it from the initial state. -/
theorem c10_history_insert_reopen (s : FileSt × List Nat) (pre post : List Txn)
    (hg : NoGap (runHistory s pre).1.alloc) :
    ∃ m, runHistory (reopenSt (runHistory s pre)) post =
        ((runHistory s (pre ++ post)).1.ws m, (runHistory s (pre ++ post)).2) ∧
      ∀ id, (runHistory (reopenSt (runHistory s pre)) post).1.readPage id =
        (runHistory s (pre ++ post)).1.readPage id := by
  obtain ⟨m, e⟩ := c10_history_reopen (runHistory s pre) hg post
  rw [runHistory_append]
  exact ⟨m, e, fun id => by rw [e]; rfl⟩

/-! ### the hypothesis `NoGap` -/

/-- `NoGap` is satisfiable together with `EngInv`: the example file of Props/C03Refine.lean -/
example : NoGap exFile.alloc := by decide

/-- every freshly created file has no gap -/
theorem noGap_create (ps mp im : Nat) : NoGap (FileSt.create ps mp im).alloc := by
  unfold FileSt.create NoGap
  split
  · exact Or.inl (by simp)
  · exact Or.inl (Nat.le_refl _)

/-- a committed state WITH a gap (data end marker 5, meta end marker 8, no limit) -/
def exGap : FileSt :=
  { alloc := { maxPages := 0, pageSize := 4096, data := { endMarker := 5, free := [] },
               mta := { endMarker := 8, free := [4] }, metaTotal := 2, freelistPages := [2] },
    walMap := [], walPages := [], txid := 3, disk := [(3, Content.full 3 1)] }

theorem engInv_exGap : EngInv exGap [3] := by
  refine ⟨allocWF_spec _ (by decide), by decide, List.Pairwise.nil, ?_, ?_, ?_, ?_, by decide, by decide,
    by decide⟩
  · intro id hid
    simp only [List.mem_cons, List.not_mem_nil, or_false] at hid
    subst hid; simp [InUse, exGap]
  · intro k w hk; simp [exGap, Assoc.get?] at hk
  · intro k1 k2 w hk; simp [exGap, Assoc.get?] at hk
  · intro x hx
    simp only [FileSt.internal, exGap, List.map_nil, List.nil_append, List.mem_cons, List.not_mem_nil,
      or_false] at hx
    subst hx; simp [InUse, exGap]

/-- **`EngInv` does not imply `NoGap`, and `NoGap` is needed**: `exGap` satisfies the invariant, reopening
    raises its data end marker from 5 to 8, and the first allocation of the next transaction returns
    page 5 on the instance that was never closed but page 8 on the reopened one. -/
theorem c10_gap_example :
    EngInv exGap [3] ∧ ¬ NoGap exGap.alloc ∧ exGap.reopen.alloc.data.endMarker = 8 ∧
    (runEOps (ERunSt.start exGap [3] false 0 0) [.alloc 1]).cur = [3, 5] ∧
    (runEOps (ERunSt.start exGap.reopen [3] false 0 0) [.alloc 1]).cur = [3, 8] :=
  ⟨engInv_exGap, by decide, by decide, by decide, by decide⟩

/-- **C10, no transaction creates a gap** (partial in the sense of `c03_history_partial`: every transaction
    of the history is begun with `overflow = false`): if the initial committed state satisfies the
    invariant and has no gap, so has the committed state after any history of write transactions
    (committed, failed or rolled back). -/
theorem c10_history_nogap_partial (s0 : FileSt × List Nat) (he : EngInv s0.1 s0.2) (hg : NoGap s0.1.alloc)
    (pre : List Txn) : NoGap (runHistory s0 pre).1.alloc :=
  runHistory_noGap pre s0 he hg

/-- **C10, a reopen at ANY point of a history** that starts in a state without gap (for instance a freshly
    created file, `noGap_create`): closing and reopening the file between any two transactions changes
    neither the owned pages nor the final committed state (up to the statistic) nor what any page reads,
    and the invariant holds on both final states. -/
theorem c10_history_reopen_anywhere_partial (s0 : FileSt × List Nat) (he : EngInv s0.1 s0.2) (hg : NoGap s0.1.alloc)
    (pre post : List Txn) :
    (∃ m, runHistory (reopenSt (runHistory s0 pre)) post =
        ((runHistory s0 (pre ++ post)).1.ws m, (runHistory s0 (pre ++ post)).2)) ∧
    (∀ id, (runHistory (reopenSt (runHistory s0 pre)) post).1.readPage id =
        (runHistory s0 (pre ++ post)).1.readPage id) ∧
    EngInv (runHistory (reopenSt (runHistory s0 pre)) post).1 (runHistory (reopenSt (runHistory s0 pre)) post).2 ∧
    EngInv (runHistory s0 (pre ++ post)).1 (runHistory s0 (pre ++ post)).2 := by
  obtain ⟨m, e, hrd⟩ := c10_history_insert_reopen s0 pre post (c10_history_nogap_partial s0 he hg pre)
  have he2 := c03_history_partial s0 he (pre ++ post)
  refine ⟨⟨m, e⟩, hrd, ?_, he2⟩
  rw [e]
  exact engInv_ws he2 m

/-- the same for every file `FileSt.create` produces -/
theorem c10_history_reopen_created_partial (ps mp im : Nat) (hmp : mp = 0 ∨ 2 + im ≤ mp) (pre post : List Txn) :
    ∃ m, runHistory (reopenSt (runHistory (FileSt.create ps mp im, []) pre)) post =
      ((runHistory (FileSt.create ps mp im, []) (pre ++ post)).1.ws m,
       (runHistory (FileSt.create ps mp im, []) (pre ++ post)).2) :=
  (c10_history_reopen_anywhere_partial (FileSt.create ps mp im, []) (engInv_create_any ps mp im hmp)
    (noGap_create ps mp im) pre post).1

/-! ## C02 — a reader of the committed state and a running write transaction

  The engine model is sequential; a read transaction that began on the committed state `f` is
  represented by what it captured: the mapping `f.walMap` (through `f.physOf`) and the root `f.root`.
  Whatever it reads later, it reads from the CURRENT disk through the CAPTURED mapping
  (`FileSt.readerView`). The theorems say that no operation list of a write transaction that has not
  committed — including flushes and checkpoints, which do write to the disk — changes any of this.
  (That the commit itself waits for the reader is the lock protocol: Model/Lock.lean, Props/C02.lean.) -/

/-- what a reader that began on the committed state `f0` reads for page `id` while the file is in state
    `cur`: the current disk through the mapping it captured -/
def FileSt.readerView (f0 cur : FileSt) (id : Nat) : Content := cur.diskAt (f0.physOf id)

theorem readerView_self (f : FileSt) (id : Nat) : f.readerView f id = f.readPage id := rfl

/-- **C02, the writer is invisible**: for every operation list of a write transaction that has not
    committed (allocations, writes, frees, flushes of single pages or of all pages in any order,
    checkpoints), every physical page a live page id of the committed state is read from has the same
    content on the current disk as when the transaction began: flushes write to fresh pages or to
    overwrite pages no live id is mapped to, checkpoints copy to original pages that are shadowed by
    the mapping. (This is the conjunct `TxInv.r0` of the transaction invariant.) -/
theorem c02_writer_invisible (f : FileSt) (live : List Nat) (he : EngInv f live) (ov : Bool) (g wl : Nat)
    (ops : List EOp) :
    let s := runEOps (ERunSt.start f live ov g wl) ops
    ∀ id ∈ live, s.f.diskAt (f.physOf id) = f.diskAt (f.physOf id) :=
  (runinv_ops he ops _ (runInv_start f live he ov g wl)).tx.r0

/-- **C02, root and mapping**: the root, the overwrite mapping, the mapping pages and the transaction id a
    reader captured are untouched until the commit -/
theorem c02_reader_root (f : FileSt) (live : List Nat) (he : EngInv f live) (ov : Bool) (g wl : Nat)
    (ops : List EOp) :
    let s := runEOps (ERunSt.start f live ov g wl) ops
    s.f.root = f.root ∧ s.f.walMap = f.walMap ∧ s.f.walPages = f.walPages ∧ s.f.txid = f.txid := by
  intro s
  have hh := runOps_hdr ops (ERunSt.start f live ov g wl)
  exact ⟨hh.1, (runinv_ops he ops _ (runInv_start f live he ov g wl)).tx.sameMap, hh.2.2.2, hh.2.1⟩

/-- **C02, the reader's view**: at every point of the write transaction every live page reads exactly
    the content of the last commit — through the mapping the reader captured, and also through the
    current mapping of the file (a reader that begins now sees the same state) -/
theorem c02_reader_view (f : FileSt) (live : List Nat) (he : EngInv f live) (ov : Bool) (g wl : Nat)
    (ops : List EOp) :
    let s := runEOps (ERunSt.start f live ov g wl) ops
    ∀ id ∈ live, f.readerView s.f id = f.readPage id ∧ s.f.readPage id = f.readPage id := by
  intro s id hid
  have h1 := c02_writer_invisible f live he ov g wl ops id hid
  exact ⟨h1, readPage_congr id (c02_reader_root f live he ov g wl ops).2.1 h1⟩

/-- **C02, the final flush**: the same holds after the flush (in any order) that precedes the commit -/
theorem c02_writer_invisible_flush (f : FileSt) (live : List Nat) (he : EngInv f live) (ov : Bool) (g wl : Nat)
    (ops : List EOp) (order : List Nat) (f2 : FileSt) (tx2 : TxSt) (ws : List (Nat × Nat))
    (hflush : flushList (runEOps (ERunSt.start f live ov g wl) ops).f (runEOps (ERunSt.start f live ov g wl) ops).tx
      order = .ok (f2, tx2, ws)) :
    (∀ id ∈ live, f.readerView f2 id = f.readPage id) ∧ f2.root = f.root ∧ f2.walMap = f.walMap := by
  have hr := runinv_ops he ops _ (runInv_start f live he ov g wl)
  obtain ⟨h2, -⟩ := txinv_flushList he order _ _ hr.tx f2 tx2 ws hflush
  have hh := sameHdr_trans (runOps_hdr ops (ERunSt.start f live ov g wl)) (flushList_hdr order _ _ _ _ _ hflush)
  exact ⟨h2.r0, hh.1, h2.sameMap⟩

/-- **C02, after the writer ended without commit** (Rollback / Close / failed commit): the reader still
    reads the same, and root and mapping are those it captured -/
theorem c02_writer_invisible_end (f : FileSt) (live : List Nat) (he : EngInv f live) (ov : Bool) (g wl : Nat)
    (ops : List EOp) :
    let s := runEOps (ERunSt.start f live ov g wl) ops
    (∀ id ∈ live, f.readerView (txAbort s.f s.tx) id = f.readPage id) ∧
    (txAbort s.f s.tx).root = f.root ∧ (txAbort s.f s.tx).walMap = f.walMap ∧
    (∀ order f2 tx2 ws, flushList s.f s.tx order = .ok (f2, tx2, ws) → tx2.unflushed = [] →
      (commitAfterFlush f2 tx2).2.1 ≠ .ok →
      (∀ id ∈ live, f.readerView (commitAfterFlush f2 tx2).1 id = f.readPage id) ∧
      (commitAfterFlush f2 tx2).1.root = f.root ∧ (commitAfterFlush f2 tx2).1.walMap = f.walMap) := by
  intro s
  have h1 := c07_abort_identity_engine f live he ov g wl ops
  refine ⟨h1.2.2.2.2.2.2.1, h1.2.2.2.1, h1.2.1, ?_⟩
  intro order f2 tx2 ws hfl hall hfail
  have h2 := c07_failed_commit_identity_engine f live he ov g wl ops order f2 tx2 ws hfl hall hfail
  exact ⟨h2.2.2.2.2.2.2.1, h2.2.2.2.1, h2.2.1⟩

/-- a write transaction on `exFile` (Props/C03Refine.lean; live pages 3 and 4, page 3 read from overwrite
    page 5) that writes half of page 4, flushes it to a fresh overwrite page and runs a checkpoint -/
def exWriter : ERunSt := runEOps (ERunSt.start exFile [3, 4] false 0 0) [.write 4 .lo 8, .flushPage 4, .checkpoint]

/-- the statement is not vacuous: `exWriter` changes the disk — the flush writes page 6, the checkpoint
    copies page 5 to the ORIGINAL page 3 — while both live pages read as before through the mapping `3 ↦ 5` -/
example : exWriter.f.diskAt 6 ≠ exFile.diskAt 6 ∧ exWriter.f.diskAt 3 ≠ exFile.diskAt 3 ∧
    exFile.readerView exWriter.f 3 = exFile.readPage 3 ∧ exFile.readerView exWriter.f 4 = exFile.readPage 4 := by
  decide

end TxVerif
