/-
  C10 (close + reopen yields the same logical file) with the PRECISE absorb rule
  (`FileSt.reopenP`, Model/AbsorbP.lean; /repo: `File.absorbOverflowArea`, the repair of d63ebf4 after the
  finding `c10_gap_reachable` of Props/C10History.lean was confirmed on the implementation).

  The old rule (`Alloc.absorbOverflow`, `FileSt.reopen`) raised the data end marker to the meta end marker
  whenever `data end < meta end ∧ (no limit ∨ data end < limit)`; on the reachable state
  `maxPages = 24, data end = 23, meta end = 28` this lost page 23. The precise rule raises it only if some
  meta page lies in [data end, meta end) in front of the limit.

  RESULT: with the precise rule C10 holds WITHOUT restriction.
    `NoLowMeta f` (the precise rule does not fire) is not a new invariant that has to be carried through the
    transactions: it is a consequence of `EngInvO` (hence of `EngInv`) — every meta page of a committed state
    satisfies `x < data.endMarker ∨ maxPages ≤ x` (the last clause of `InUse` / `Ov.WF.metaRange`). `EngInvO`
    holds along every `runHistoryO` history with any overflow flags, bounded or not (`c03_history`).

  1. bridge          c10p_bridge, c10p_absorb_le_old, c10p_reopen_keeps_engInv, c10p_reopen_keeps_invariant,
                     c10p_reopen_logical
  2. NoLowMeta       c10p_noLowMeta, c10p_noLowMeta_engInv, c10p_noLowMeta_create, c10p_history_noLowMeta,
                     the former counterexample state: `c10p_gap_state_fixed`
  3. reopen is the identity up to the statistic, from `EngInvO` alone, every overflow flag:
                     c10p_reopen_state, c10p_reopen_alloc, c10p_reopen_exact, c10p_reopen_run,
                     c10p_reopen_observational(_truthful), c10p_reopen_reads, c10p_reopen_allocs,
                     c10p_reopen_commit, c10p_allocatable_same,
                     c10p_history_reopen, c10p_history_reopen_anywhere, c10p_history_reopen_created
                     (no `NoGap`, no `OvOnFull`; nothing partial)
  4. limit changes   absorbP_no_collision (Proofs/ReopenP.lean), c10p_grow_no_collision,
                     c10p_grow_end_alloc_fresh: after `absorbP` under ANY limit no meta page lies in
                     [data end, limit); examples: the rule still fires when the limit is raised over an overflow area
-/
import TxVerif.Proofs.ReopenP
import TxVerif.Props.C10History
namespace TxVerif

/-! ## 1. bridge to the old rule -/

/-- **bridge**: where the precise rule fires (`needAbsorb`) the old rule fired too and both give the same state;
    where it does not fire, close + open only recomputes the statistic -/
theorem c10p_bridge (f : FileSt) :
    (f.needAbsorb = true → f.reopenP = f.reopen ∧ f.alloc.data.endMarker < f.alloc.mta.endMarker ∧
      (f.alloc.maxPages = 0 ∨ f.alloc.data.endMarker < f.alloc.maxPages)) ∧
    (f.needAbsorb = false → f.reopenP = f.ws f.openStat) :=
  ⟨fun h => ⟨reopenP_eq_reopen f h, needAbsorb_old f h⟩, fun h => reopenP_eq_ws f h⟩

/-- the precise rule never raises the data end marker further than the old rule, and never lowers it -/
theorem c10p_absorb_le_old (f : FileSt) :
    f.alloc.data.endMarker ≤ f.absorbP.alloc.data.endMarker ∧
    f.absorbP.alloc.data.endMarker ≤ f.alloc.absorbOverflow.data.endMarker := by
  cases h : f.needAbsorb with
  | true => rw [absorbP_of_need f h]; exact ⟨(absorb_keeps f.alloc).2.2.2.2.2, Nat.le_refl _⟩
  | false => rw [absorbP_of_not f h]; exact ⟨Nat.le_refl _, (absorb_keeps f.alloc).2.2.2.2.2⟩

/-- `reopenP` keeps `EngInv`, unconditionally -/
theorem c10p_reopen_keeps_engInv (f : FileSt) (live : List Nat) (he : EngInv f live) : EngInv f.reopenP live := by
  rcases reopenP_cases f with e | e
  · rw [e]; exact engInv_reopen he
  · rw [e]; exact engInv_ws he _

/-- `reopenP` keeps `EngInvO`, unconditionally -/
theorem c10p_reopen_keeps_invariant (f : FileSt) (live : List Nat) (he : EngInvO f live) : EngInvO f.reopenP live := by
  rcases reopenP_cases f with e | e
  · rw [e]; exact Ov.engInv_reopen he
  · rw [e]; exact Ov.engInv_ws he _

/-- **same logical file** (no hypothesis): root, transaction id, overwrite mapping, mapping pages, disk, the
    content of every page, both free lists, the meta area, limit and free-list pages are those before closing;
    the data end marker does not decrease -/
theorem c10p_reopen_logical (f : FileSt) :
    f.reopenP.root = f.root ∧ f.reopenP.txid = f.txid ∧ f.reopenP.walMap = f.walMap ∧
    f.reopenP.walPages = f.walPages ∧ f.reopenP.disk = f.disk ∧ (∀ id, f.reopenP.readPage id = f.readPage id) ∧
    f.reopenP.alloc.data.free = f.alloc.data.free ∧ f.reopenP.alloc.mta = f.alloc.mta ∧
    f.reopenP.alloc.metaTotal = f.alloc.metaTotal ∧ f.reopenP.alloc.maxPages = f.alloc.maxPages ∧
    f.reopenP.alloc.freelistPages = f.alloc.freelistPages ∧
    f.alloc.data.endMarker ≤ f.reopenP.alloc.data.endMarker := by
  rcases reopenP_cases f with e | e
  · rw [e]; exact c10_reopen_logical f
  · rw [e]; exact ⟨rfl, rfl, rfl, rfl, rfl, fun _ => rfl, rfl, rfl, rfl, rfl, rfl, Nat.le_refl _⟩

/-! ## 2. `NoLowMeta` -/

/-- **`NoLowMeta` is implied by the invariant of a committed state** (`EngInvO`): no meta page lies at or behind
    the data end marker and in front of the limit (without limit: none lies at or behind the data end marker) -/
theorem c10p_noLowMeta (f : FileSt) (live : List Nat) (he : EngInvO f live) : NoLowMeta f :=
  noLowMeta_of_engInvO he

theorem c10p_noLowMeta_engInv (f : FileSt) (live : List Nat) (he : EngInv f live) : NoLowMeta f :=
  noLowMeta_of_engInvO (engInvO_of_engInv f live he)

/-- created files -/
theorem c10p_noLowMeta_create (ps mp im : Nat) (hmp : mp = 0 ∨ 2 + im ≤ mp) : NoLowMeta (FileSt.create ps mp im) :=
  noLowMeta_of_engInvO (engInvO_create_any ps mp im hmp)

/-- **`NoLowMeta` along every history**: after any `runHistoryO` history — every transaction with its own
    overflow flag; committed, failed or rolled back; bounded file or not — the precise rule does not fire.
    (The history theorem `c03_history` does the work: no `OvOnFull`, no `NoGap`.) -/
theorem c10p_history_noLowMeta (s0 : FileSt × List Nat) (he : EngInvO s0.1 s0.2) (ts : List TxnO) :
    NoLowMeta (runHistoryO s0 ts).1 :=
  noLowMeta_of_engInvO (c03_history s0 he ts)

/-! ## 3. reopening is the identity up to the statistic -/

/-- **C10**: on every committed state satisfying the invariant the reopened state is the old state with the
    recomputed statistic -/
theorem c10p_reopen_state (f : FileSt) (live : List Nat) (he : EngInvO f live) : f.reopenP = f.ws f.openStat :=
  reopenP_eq_ws f (noLowMeta_of_engInvO he)

/-- the allocator — end markers, free lists, meta area, limit — is unchanged -/
theorem c10p_reopen_alloc (f : FileSt) (live : List Nat) (he : EngInvO f live) : f.reopenP.alloc = f.alloc := by
  rw [c10p_reopen_state f live he]; rfl

/-- with a truthful statistic reopening is the identity -/
theorem c10p_reopen_exact (f : FileSt) (live : List Nat) (he : EngInvO f live) (hs : f.statData = f.openStat) :
    f.reopenP = f := by
  rw [c10p_reopen_state f live he, ← hs]; rfl

/-- **C10, lockstep**: for every option set (any overflow flag) and EVERY operation list, the transaction on the
    reopened instance is, state by state, the transaction on the instance that was never closed; only the
    statistic field carries the recomputed value -/
theorem c10p_reopen_run (f : FileSt) (live : List Nat) (he : EngInvO f live) (ov : Bool) (g wl : Nat)
    (ops : List EOp) :
    runEOps (ERunSt.start f.reopenP live ov g wl) ops = (runEOps (ERunSt.start f live ov g wl) ops).ws f.openStat := by
  rw [c10p_reopen_state f live he, start_ws, run_ws]

/-- **C10, observational equality** (the statistic excluded), unrestricted -/
theorem c10p_reopen_observational (f : FileSt) (live : List Nat) (he : EngInvO f live)
    (ov : Bool) (g wl : Nat) (ops : List EOp) :
    (runEOps (ERunSt.start f.reopenP live ov g wl) ops).obsNS = (runEOps (ERunSt.start f live ov g wl) ops).obsNS := by
  rw [c10p_reopen_run f live he, obsNS_ws]

/-- … including the statistic, when it was truthful before closing -/
theorem c10p_reopen_observational_truthful (f : FileSt) (live : List Nat) (he : EngInvO f live)
    (hs : f.statData = f.openStat) (ov : Bool) (g wl : Nat) (ops : List EOp) :
    (runEOps (ERunSt.start f.reopenP live ov g wl) ops).obs = (runEOps (ERunSt.start f live ov g wl) ops).obs := by
  rw [c10p_reopen_exact f live he hs]

/-- **C10, same reads** at every point of the transaction -/
theorem c10p_reopen_reads (f : FileSt) (live : List Nat) (he : EngInvO f live) (ov : Bool) (g wl : Nat)
    (ops : List EOp) (id : Nat) :
    txRead (runEOps (ERunSt.start f.reopenP live ov g wl) ops).f (runEOps (ERunSt.start f.reopenP live ov g wl) ops).tx id =
    txRead (runEOps (ERunSt.start f live ov g wl) ops).f (runEOps (ERunSt.start f live ov g wl) ops).tx id := by
  rw [c10p_reopen_run f live he]; rfl

/-- **C10, same page ids**: at every point `Alloc/AllocN` fails in the same way or returns the same ids, the same
    transaction state and the same file state up to the statistic -/
theorem c10p_reopen_allocs (f : FileSt) (live : List Nat) (he : EngInvO f live) (ov : Bool) (g wl : Nat)
    (ops : List EOp) (n : Nat) :
    txAlloc (runEOps (ERunSt.start f.reopenP live ov g wl) ops).f (runEOps (ERunSt.start f.reopenP live ov g wl) ops).tx n =
    mapF (·.ws f.openStat)
      (txAlloc (runEOps (ERunSt.start f live ov g wl) ops).f (runEOps (ERunSt.start f live ov g wl) ops).tx n) := by
  rw [c10p_reopen_run f live he]
  exact txAlloc_ws _ _ _ _

/-- **C10, same commit**: same outcome of the final flush and of the commit, committed states equal up to the
    statistic, every page reads the same -/
theorem c10p_reopen_commit (f : FileSt) (live : List Nat) (he : EngInvO f live) (ov : Bool) (g wl : Nat)
    (ops : List EOp) (order : List Nat) :
    let s1 := runEOps (ERunSt.start f.reopenP live ov g wl) ops
    let s2 := runEOps (ERunSt.start f live ov g wl) ops
    flushList s1.f s1.tx order = mapF (·.ws f.openStat) (flushList s2.f s2.tx order) ∧
    ∀ f2 tx2, ∃ m,
      commitAfterFlush (f2.ws f.openStat) tx2 = ((commitAfterFlush f2 tx2).1.ws m, (commitAfterFlush f2 tx2).2) ∧
      ((commitAfterFlush f2 tx2).2.1 ≠ .ok → m = f.openStat) ∧
      (∀ id, (commitAfterFlush (f2.ws f.openStat) tx2).1.readPage id = (commitAfterFlush f2 tx2).1.readPage id) := by
  intro s1 s2
  refine ⟨?_, fun f2 tx2 => ?_⟩
  · show flushList (runEOps (ERunSt.start f.reopenP live ov g wl) ops).f
      (runEOps (ERunSt.start f.reopenP live ov g wl) ops).tx order = _
    rw [c10p_reopen_run f live he]
    exact flushList_ws order s2.f f.openStat s2.tx
  · obtain ⟨m, e, hm⟩ := commit_ws f2 f.openStat tx2
    exact ⟨m, e, hm, fun id => by rw [e]; rfl⟩

/-- **C10, same number of allocatable pages**: `dataAllocator.Avail`, both free lists, the size of the meta area -/
theorem c10p_allocatable_same (f : FileSt) (live : List Nat) (he : EngInvO f live) :
    f.reopenP.alloc.dataAvail = f.alloc.dataAvail ∧ f.reopenP.alloc.mta.free = f.alloc.mta.free ∧
    f.reopenP.alloc.data.free = f.alloc.data.free ∧ f.reopenP.alloc.metaTotal = f.alloc.metaTotal := by
  rw [c10p_reopen_alloc f live he]
  exact ⟨rfl, rfl, rfl, rfl⟩

/-! ### histories -/

/-- the committed state and the owned pages after closing and reopening the file (precise rule) -/
def reopenStP (s : FileSt × List Nat) : FileSt × List Nat := (s.1.reopenP, s.2)

/-- **C10, histories**: running any `runHistoryO` history (any overflow flags) on the reopened instance gives the
    same owned pages and the same committed file state up to the statistic -/
theorem c10p_history_reopen (s : FileSt × List Nat) (he : EngInvO s.1 s.2) (ts : List TxnO) :
    ∃ m, runHistoryO (reopenStP s) ts = ((runHistoryO s ts).1.ws m, (runHistoryO s ts).2) := by
  unfold reopenStP
  rw [c10p_reopen_state s.1 s.2 he]
  exact runHistoryO_ws ts s _

/-- **C10, a reopen at ANY point of ANY history** — full strength: `pre` and `post` are arbitrary lists of
    transactions, each with its own overflow flag; the file bounded or not. Closing and reopening the file between
    `pre` and `post` changes neither the owned pages nor the final committed state (up to the statistic) — in
    particular not the allocator, hence no allocatable count — nor what any page reads; at the reopen itself
    the allocator is unchanged; the invariant holds on both final states. -/
theorem c10p_history_reopen_anywhere (s0 : FileSt × List Nat) (he : EngInvO s0.1 s0.2) (pre post : List TxnO) :
    (∃ m, runHistoryO (reopenStP (runHistoryO s0 pre)) post =
        ((runHistoryO s0 (pre ++ post)).1.ws m, (runHistoryO s0 (pre ++ post)).2)) ∧
    (runHistoryO (reopenStP (runHistoryO s0 pre)) post).2 = (runHistoryO s0 (pre ++ post)).2 ∧
    (runHistoryO (reopenStP (runHistoryO s0 pre)) post).1.alloc = (runHistoryO s0 (pre ++ post)).1.alloc ∧
    (∀ id, (runHistoryO (reopenStP (runHistoryO s0 pre)) post).1.readPage id =
        (runHistoryO s0 (pre ++ post)).1.readPage id) ∧
    (reopenStP (runHistoryO s0 pre)).1.alloc = (runHistoryO s0 pre).1.alloc ∧
    EngInvO (runHistoryO (reopenStP (runHistoryO s0 pre)) post).1 (runHistoryO (reopenStP (runHistoryO s0 pre)) post).2 ∧
    EngInvO (runHistoryO s0 (pre ++ post)).1 (runHistoryO s0 (pre ++ post)).2 := by
  have hi := c03_history s0 he pre
  obtain ⟨m, e⟩ := c10p_history_reopen (runHistoryO s0 pre) hi post
  rw [← runHistoryO_append] at e
  have he2 := c03_history s0 he (pre ++ post)
  refine ⟨⟨m, e⟩, by rw [e], by rw [e]; rfl, fun id => by rw [e]; rfl, c10p_reopen_alloc _ _ hi, ?_, he2⟩
  rw [e]
  exact Ov.engInv_ws he2 m

/-- **the same for every file `FileSt.create` produces**, bounded or not -/
theorem c10p_history_reopen_created (ps mp im : Nat) (hmp : mp = 0 ∨ 2 + im ≤ mp) (pre post : List TxnO) :
    (∃ m, runHistoryO (reopenStP (runHistoryO (FileSt.create ps mp im, []) pre)) post =
      ((runHistoryO (FileSt.create ps mp im, []) (pre ++ post)).1.ws m,
       (runHistoryO (FileSt.create ps mp im, []) (pre ++ post)).2)) ∧
    (runHistoryO (reopenStP (runHistoryO (FileSt.create ps mp im, []) pre)) post).1.alloc.dataAvail =
      (runHistoryO (FileSt.create ps mp im, []) (pre ++ post)).1.alloc.dataAvail := by
  obtain ⟨h1, -, h3, -⟩ := c10p_history_reopen_anywhere (FileSt.create ps mp im, [])
    (engInvO_create_any ps mp im hmp) pre post
  exact ⟨h1, by rw [h3]⟩

/-- histories of `Txn` (`runHistory`, Props/C03Refine.lean) are a special case -/
theorem c10p_history_reopen_created_txn (ps mp im : Nat) (hmp : mp = 0 ∨ 2 + im ≤ mp) (pre post : List Txn) :
    ∃ m, runHistory (reopenStP (runHistory (FileSt.create ps mp im, []) pre)) post =
      ((runHistory (FileSt.create ps mp im, []) (pre ++ post)).1.ws m,
       (runHistory (FileSt.create ps mp im, []) (pre ++ post)).2) := by
  have := (c10p_history_reopen_created ps mp im hmp (pre.map Txn.toO) (post.map Txn.toO)).1
  rw [← List.map_append, runHistoryO_toO, runHistoryO_toO, runHistoryO_toO] at this
  exact this

/-! ## 4. limit changes: the rule still protects the meta pages -/

/-- the allocator part of `doGrowFile` with the precise rule: the new limit is set, then `absorbOverflowArea` runs
    (the counterpart of `FileSt.setMax` / `FileSt.resizeGrow`, which use the old rule) -/
def FileSt.growP (f : FileSt) (n : Nat) : FileSt :=
  ({ f with alloc := { f.alloc with maxPages := n } } : FileSt).absorbP

theorem growP_maxPages (f : FileSt) (n : Nat) : (f.growP n).alloc.maxPages = n := by
  unfold FileSt.growP FileSt.absorbP
  split <;> rfl

/-- **no collision after a limit change**: `f` satisfies the invariant under its old limit; the limit is changed to
    ANY `n` (raised, removed, lowered) and `absorbOverflowArea` runs. Afterwards every meta page (free meta page,
    free-list page, mapping page, overwrite page) at or behind the data end marker lies at or beyond the new
    limit — the data area can not grow into it. (`absorb_no_collision` / `resize_no_collision` state the
    coarser `mta.endMarker ≤ data.endMarker` whenever the data area may grow; that is what the old rule
    established and what made it lose pages.) -/
theorem c10p_grow_no_collision (f : FileSt) (live : List Nat) (he : EngInvO f live) (n : Nat) :
    ∀ p ∈ (f.growP n).metaPages, (f.growP n).alloc.data.endMarker ≤ p → 0 < n ∧ n ≤ p := by
  intro p hp hd
  have := absorbP_no_collision ({ f with alloc := { f.alloc with maxPages := n } } : FileSt)
    (fun q hq => (metaPages_ok he q hq).1) p hp hd
  rw [show (({ f with alloc := { f.alloc with maxPages := n } } : FileSt).absorbP) = f.growP n from rfl,
    growP_maxPages] at this
  exact this

/-- … in other words: no page the data allocator can take from the end of the file (at or behind the data end
    marker, in front of the limit) is a meta page -/
theorem c10p_grow_end_alloc_fresh (f : FileSt) (live : List Nat) (he : EngInvO f live) (n : Nat) (x : Nat)
    (hx : (f.growP n).alloc.data.endMarker ≤ x) (hl : n = 0 ∨ x < n) : x ∉ (f.growP n).metaPages := by
  intro hm
  have := c10p_grow_no_collision f live he n x hm hx
  omega

/-- the same for a plain close + open (`reopenP`, same limit) -/
theorem c10p_open_no_collision (f : FileSt) (live : List Nat) (he : EngInvO f live) :
    ∀ p ∈ f.reopenP.metaPages, f.reopenP.alloc.data.endMarker ≤ p →
      0 < f.reopenP.alloc.maxPages ∧ f.reopenP.alloc.maxPages ≤ p := by
  rw [c10p_reopen_state f live he]
  intro p hp hd
  have := (metaPages_ok he p hp).2
  have hd' : f.alloc.data.endMarker ≤ p := hd
  show 0 < f.alloc.maxPages ∧ f.alloc.maxPages ≤ p
  omega

/-! ## examples -/

set_option maxRecDepth 8192 in
/-- **the former counterexample is repaired**: in the reachable state `exGapSt` (Props/C10History.lean:
    `maxPages = 24`, data end marker 23, meta end marker 28, all meta pages behind the data end marker lie in
    24 … 27) the precise rule does not fire, `reopenP` keeps the allocator, and the next transaction `Alloc 1`
    returns page 23 on the instance that was never closed AND on the reopened one; the old rule (`reopen`) raised
    the data end marker to 28 and lost page 23 (`c10_gap_reopen_differs`). -/
theorem c10p_gap_state_fixed :
    NoLowMeta exGapSt.1 ∧ exGapSt.1.needAbsorb = false ∧
    exGapSt.1.alloc.data.endMarker = 23 ∧ exGapSt.1.alloc.mta.endMarker = 28 ∧ exGapSt.1.alloc.maxPages = 24 ∧
    exGapSt.1.metaPages = [15, 22, 21, 2, 13, 14, 24, 25, 26, 27] ∧
    (reopenStP exGapSt).1.alloc = exGapSt.1.alloc ∧ (reopenSt exGapSt).1.alloc.data.endMarker = 28 ∧
    (match txAlloc (ERunSt.start exGapSt.1 exGapSt.2 false 0 0).f (ERunSt.start exGapSt.1 exGapSt.2 false 0 0).tx 1 with
     | .ok (_, _, ids) => decide (ids = [23]) | .error _ => false) = true ∧
    (match txAlloc (ERunSt.start (reopenStP exGapSt).1 exGapSt.2 false 0 0).f
        (ERunSt.start (reopenStP exGapSt).1 exGapSt.2 false 0 0).tx 1 with
     | .ok (_, _, ids) => decide (ids = [23]) | .error _ => false) = true ∧
    (runHistoryO exGapSt [exGC]).2 = exGapSt.2 ++ [23] ∧ (runHistoryO (reopenStP exGapSt) [exGC]).2 = exGapSt.2 ++ [23] := by
  refine ⟨by decide, by decide, by decide, by decide, by decide, by decide, by decide, by decide, by decide,
    by decide, by decide, by decide⟩

/-- the general theorem on that history: a reopen after `[exGA, exGB]` changes nothing, whatever follows -/
example (post : List TxnO) :
    ∃ m, runHistoryO (reopenStP (runHistoryO (FileSt.create 4096 24 1, []) [exGA, exGB])) post =
      ((runHistoryO (FileSt.create 4096 24 1, []) ([exGA, exGB] ++ post)).1.ws m,
       (runHistoryO (FileSt.create 4096 24 1, []) ([exGA, exGB] ++ post)).2) :=
  (c10p_history_reopen_created 4096 24 1 (by decide) [exGA, exGB] post).1

set_option maxRecDepth 8192 in
/-- **the rule still fires when it has to**: raising the limit of `exGapSt` from 24 to 26 (or removing it) puts the
    overwrite pages 24, 25 in front of the limit: the data end marker is raised to 28, as by the old rule. Raising it
    to 24 (no change) leaves the data end marker at 23. On the full file with an overflow area
    (`[exFill, exOv]` of Props/C03History.lean: limit 8, data end 8, meta pages 8, 9, 10) raising the limit to 16 or
    removing it raises the data end marker to 11. -/
example :
    (exGapSt.1.growP 26).alloc.data.endMarker = 28 ∧ (exGapSt.1.growP 0).alloc.data.endMarker = 28 ∧
    (exGapSt.1.growP 24).alloc.data.endMarker = 23 ∧
    ((runHistoryO exO0 [exFill, exOv]).1.growP 16).alloc.data.endMarker = 11 ∧
    ((runHistoryO exO0 [exFill, exOv]).1.growP 0).alloc.data.endMarker = 11 ∧
    ((runHistoryO exO0 [exFill, exOv]).1.growP 8).alloc.data.endMarker = 8 ∧
    (runHistoryO exO0 [exFill, exOv]).1.needAbsorb = false := by
  refine ⟨by decide, by decide, by decide, by decide, by decide, by decide, by decide⟩

/-- `exGap` of Props/C10C02Engine.lean (no limit, data end marker 5, meta end marker 8, its meta pages 2 and 4 below
    the data end marker; `EngInv` holds, `NoGap` does not): the old rule raised the data end marker to 8 and the
    reopened instance handed out page 8 instead of page 5 (`c10_gap_example`). The precise rule leaves the state
    alone — no meta page lies at or behind the data end marker — and both instances hand out page 5. -/
example : exGap.needAbsorb = false ∧ exGap.reopenP.alloc = exGap.alloc ∧ exGap.reopen.alloc.data.endMarker = 8 ∧
    (runEOps (ERunSt.start exGap [3] false 0 0) [.alloc 1]).cur = [3, 5] ∧
    (runEOps (ERunSt.start exGap.reopenP [3] false 0 0) [.alloc 1]).cur = [3, 5] := by decide

end TxVerif
