/-
  C02 — snapshot isolation as ONE theorem on a concurrent semantics of the engine model: every schedule of one writer
  thread and any number of reader threads (Model/EngineConc.lean; helper lemmas Proofs/EngineConc.lean,
  Proofs/EngineConcLive.lean).

  The semantics: the writer runs write transactions (`EOp`s on its private `ERunSt`, writing to THE DISK while readers
  run: flushes to fresh / overwrite pages, checkpoint copy-backs to original pages, the commit's own writes), ends them
  by rollback or by a commit in the steps of `tryCommitChanges` (pending.Lock — final flush and commit to file —
  exclusive.Lock, enabled only while no reader holds the shared lock — in-memory switch). A reader captures the
  committed state at its begin (blocked while pending is set) and reads page `id` through ITS mapping from the CURRENT
  disk. Ghost state: the version counter, the abstract store `lastσ` of the last commit, the read log.

  conc_invariant               `ECInv` along every schedule from `EngInvU` (hence from `EngInvO`, `EngInv`, created files)
  conc_engInvU / conc_engInvO  the invariant of the committed state along every schedule
  conc_snapshot_isolation      every read of an owned page returns the content the page had in the committed state at the
                               reader's begin — whatever the writer did in between
  conc_reader_view_stable      two reads of a page in one read transaction return the same
  conc_reader_pages_never_written  the physical pages an open reader reads through its mapping hold the snapshot's
                               content on the current disk at every moment; no step changes them
  reader_never_spans_commit    an open read transaction: no commit completed since its begin; its mapping, root, data end
                               and owned pages are those of the committed state; the switch step is taken only while no
                               read transaction is open (this is what protects pages freed by a COMMITTED transaction
                               from re-use under an old reader: a reader never outlives the committed state it began in)
  conc_publish_atomic          the committed state reads the abstract store of the last commit; readers see exactly that;
                               every step but the switch leaves version, owned pages, abstract store and the content of
                               every owned page alone — failed and rolled back transactions are never seen
  conc_writer_is_sequential    the committed state along every schedule is the state of the SEQUENTIAL history of the write
                               transactions finished so far (`runTxnO`), with the sequential outcomes — the readers
                               have no influence on it; `conc_final_state`: after a maximal run, of the whole program
  econc_no_deadlock, econc_terminates
  The checkpoint copy-back is SAFE in every schedule: a reader's mapping is the committed mapping at every moment of its
  life (`reader_never_spans_commit`), so a reader "older than the mapping entry" cannot exist; the copy-back writes the
  original page `k` of an entry `k ↦ w` of the committed mapping, every reader reads `k` from `w`, and no other owned
  page is read from `k` (`TxInv.r0` through `txinv_doCheckpoint`; example `conc_example_checkpoint`). No counterexample.
-/
import TxVerif.Proofs.EngineConcSeq
namespace TxVerif

/-- reachable from the initial state of the given programs on a committed state satisfying the invariant -/
def EReach (com : FileSt) (live : List Nat) (wprog : List WTxn) (rprogs : List (List ROp)) (s : EState) : Prop :=
  ∃ sched, s = (EState.init com live wprog rprogs).run sched

/-- **the invariant of the concurrent system** holds along every schedule -/
theorem conc_invariant (com : FileSt) (live : List Nat) (he : EngInvU com live) (wprog : List WTxn)
    (rprogs : List (List ROp)) (s : EState) (hR : EReach com live wprog rprogs s) : ECInv s := by
  obtain ⟨sched, rfl⟩ := hR
  exact run_cinv sched _ (cinv_init com live he wprog rprogs)

/-- the lifetime invariant `EngInvU` of the committed state (and the pages the client owns in it) along every schedule -/
theorem conc_engInvU (com : FileSt) (live : List Nat) (he : EngInvU com live) (wprog : List WTxn)
    (rprogs : List (List ROp)) (s : EState) (hR : EReach com live wprog rprogs s) : EngInvU s.com s.live :=
  (conc_invariant com live he wprog rprogs s hR).he

/-- … and `EngInvO`, if the initial state satisfies it -/
theorem conc_engInvO (com : FileSt) (live : List Nat) (he : EngInvO com live) (wprog : List WTxn)
    (rprogs : List (List ROp)) (s : EState) (hR : EReach com live wprog rprogs s) : EngInvO s.com s.live := by
  obtain ⟨sched, rfl⟩ := hR
  exact run_engInvO sched _ (cinv_init com live (engInvU_of_engInvO com live he) wprog rprogs) he

/-- **C02, snapshot isolation**: for every schedule of the writer and the readers from a committed state satisfying the
    invariant, every read a reader performed of a page the client owned in the reader's snapshot (`owned`) returned
    exactly the content the page had in the committed state at the reader's begin (`exp = snapshot.readPage id`) —
    whatever the writer did between the begin and the read: writes, flushes to the disk, checkpoint copy-backs, frees,
    allocations, rollbacks, failed commits, a commit that wrote everything and waits for the reader. -/
theorem conc_snapshot_isolation (com : FileSt) (live : List Nat) (he : EngInvU com live) (wprog : List WTxn)
    (rprogs : List (List ROp)) (sched : List Nat) :
    ∀ r ∈ ((EState.init com live wprog rprogs).run sched).rds, ∀ e ∈ r.log, e.owned = true → e.got = e.exp :=
  fun r hr e he' ho => ((conc_invariant com live he wprog rprogs _ ⟨sched, rfl⟩).logOk r hr e he' ho).1

/-- **C02, the view does not change until the transaction is closed**: two reads of the same owned page in the same
    read transaction return the same content -/
theorem conc_reader_view_stable (com : FileSt) (live : List Nat) (he : EngInvU com live) (wprog : List WTxn)
    (rprogs : List (List ROp)) (sched : List Nat) :
    ∀ r ∈ ((EState.init com live wprog rprogs).run sched).rds, ∀ e1 ∈ r.log, ∀ e2 ∈ r.log,
      e1.tx = e2.tx → e1.id = e2.id → e1.owned = true → e2.owned = true → e1.got = e2.got := by
  intro r hr e1 h1 e2 h2 htx hid o1 o2
  have hi := conc_invariant com live he wprog rprogs _ ⟨sched, rfl⟩
  rw [(hi.logOk r hr e1 h1 o1).1, (hi.logOk r hr e2 h2 o2).1]
  exact (hi.logTx r hr).2 e1 h1 e2 h2 htx hid

/-- **a reader never spans a commit**: in every reachable state, for every open read transaction no commit has
    completed since its begin (`ver`), and its snapshot — mapping, root, data end marker, owned pages — is that of the
    committed state; and the step that completes a commit (the only step that changes the version counter) is taken
    only while NO read transaction is open and leaves the reader threads alone. Hence a page freed by a committed
    transaction can be handed out again only to transactions that begin after every reader of the old state is closed. -/
theorem reader_never_spans_commit (com : FileSt) (live : List Nat) (he : EngInvU com live) (wprog : List WTxn)
    (rprogs : List (List ROp)) (s : EState) (hR : EReach com live wprog rprogs s) :
    (∀ r ∈ s.rds, ∀ sn, r.snap = some sn → sn.ver = s.ver ∧ sn.live = s.live ∧ sn.f.walMap = s.com.walMap ∧
      sn.f.root = s.com.root ∧ sn.f.alloc.data.endMarker = s.com.alloc.data.endMarker) ∧
    (∀ t s', s.step t = some s' → s'.ver ≠ s.ver →
      t = 0 ∧ s'.ver = s.ver + 1 ∧ (∀ r ∈ s.rds, r.snap = none) ∧ s'.rds = s.rds) := by
  have hi := conc_invariant com live he wprog rprogs s hR
  refine ⟨fun r hr sn hsn => ?_, ?_⟩
  · have ha := hi.agree r hr sn hsn
    exact ⟨ha.ver, ha.live, ha.map, ha.root, ha.de⟩
  · intro t s' hst hne
    cases t with
    | zero =>
      rcases stepW_frame s s' hi hst with ⟨h1, h2, h3, -⟩ | ⟨h1, -⟩
      · exact ⟨rfl, h1, h2, h3⟩
      · exact absurd h1 hne
    | succ i => exact absurd (stepR_frame s s' i hst).2.2.1 hne

/-- **the pages an open reader can read are never written**: in every reachable state, for every open read transaction
    and every page `id` it owns, the physical page the reader's mapping sends `id` to holds — on the CURRENT disk — the
    snapshot's content; so no step of any thread (flush, checkpoint copy-back, the commit's writes to mapping, free-list
    and header pages, the switch — which is not enabled) changes it as long as the transaction stays open.
    This is the disk-level statement of shadow paging under concurrency: the writer allocates only pages that are free
    in the committed state (or beyond its end marker) — never a page freed by itself, which is released at the switch —
    and a reader's pages are in use in the committed state it shares. -/
theorem conc_reader_pages_never_written (com : FileSt) (live : List Nat) (he : EngInvU com live) (wprog : List WTxn)
    (rprogs : List (List ROp)) (s : EState) (hR : EReach com live wprog rprogs s) :
    (∀ r ∈ s.rds, ∀ sn, r.snap = some sn → ∀ id ∈ sn.live,
      s.curFile.diskAt (sn.f.physOf id) = sn.f.readPage id) ∧
    (∀ t s', s.step t = some s' → ∀ r ∈ s.rds, ∀ sn, r.snap = some sn → (∃ r' ∈ s'.rds, r'.snap = some sn) →
      ∀ id ∈ sn.live, s'.curFile.diskAt (sn.f.physOf id) = s.curFile.diskAt (sn.f.physOf id)) := by
  have hi := conc_invariant com live he wprog rprogs s hR
  have key : ∀ s : EState, ECInv s → ∀ r ∈ s.rds, ∀ sn, r.snap = some sn → ∀ id ∈ sn.live,
      s.curFile.diskAt (sn.f.physOf id) = sn.f.readPage id := by
    intro s hi r hr sn hsn id hid
    have ha := hi.agree r hr sn hsn
    exact (read_ok s hi sn ha id (ha.live ▸ hid)).1
  refine ⟨key s hi, ?_⟩
  intro t s' hst r hr sn hsn ⟨r', hr', hsn'⟩ id hid
  rw [key s hi r hr sn hsn id hid, key s' (step_cinv s s' t hi hst) r' hr' sn hsn' id hid]

/-- **C02, commits are published atomically; failed and rolled back transactions are never seen.**
    In every reachable state
    (a) the committed state reads, for every owned page, what the abstract store of the last completed commit holds
        for it (`lastσ`: the store of the committing transaction, `c03u_commit_publishes`);
    (b) every read of an owned page returned exactly that value (`sigma` = the abstract store of the last commit
        completed when the read was made — the same as at the reader's begin, `reader_never_spans_commit`): a reader
        begun after a commit sees all of it, a reader begun before it sees none of it;
    (c) every step except the switch of a successful commit leaves the version counter, the owned pages, the abstract
        store of the last commit and the committed content of every owned page alone — in particular every step of a
        transaction that is rolled back or whose commit fails;
    (d) the version counter counts the committed transactions of the outcome log. -/
theorem conc_publish_atomic (com : FileSt) (live : List Nat) (he : EngInvU com live) (wprog : List WTxn)
    (rprogs : List (List ROp)) (s : EState) (hR : EReach com live wprog rprogs s) :
    (∀ id ∈ s.live, ∀ c, s.lastσ id = some c → s.com.readPage id = c) ∧
    (∀ r ∈ s.rds, ∀ e ∈ r.log, e.owned = true → ∀ c, e.sigma = some c → e.got = c) ∧
    (∀ t s', s.step t = some s' → s'.ver = s.ver →
      s'.live = s.live ∧ s'.lastσ = s.lastσ ∧ ∀ id ∈ s.live, s'.com.readPage id = s.com.readPage id) := by
  have hi := conc_invariant com live he wprog rprogs s hR
  refine ⟨hi.pub, fun r hr e he' ho => (hi.logOk r hr e he' ho).2, ?_⟩
  intro t s' hst hv
  cases t with
  | zero =>
    rcases stepW_frame s s' hi hst with ⟨h1, -⟩ | ⟨-, h2, h3, -, h5, -⟩
    · omega
    · refine ⟨h2, h3, ?_⟩
      rcases h5 with h5 | h5
      · intro id _; rw [h5]
      · exact sameCommitted_read h5
  | succ i =>
    obtain ⟨f1, f2, -, f4, -⟩ := stepR_frame s s' i hst
    exact ⟨f2, f4, fun id _ => by rw [f1]⟩

/-- the outcome log: the version counter is the number of committed transactions -/
theorem conc_version_counts_commits (com : FileSt) (live : List Nat) (he : EngInvU com live) (wprog : List WTxn)
    (rprogs : List (List ROp)) (sched : List Nat) :
    ((EState.init com live wprog rprogs).run sched).ver =
      (((EState.init com live wprog rprogs).run sched).wlog.filter (· == WOut.committed)).length := by
  have key : ∀ (sched : List Nat) (s : EState), ECInv s → s.ver = (s.wlog.filter (· == WOut.committed)).length →
      (s.run sched).ver = ((s.run sched).wlog.filter (· == WOut.committed)).length := by
    intro sched
    induction sched with
    | nil => intro s _ h; exact h
    | cons t ts ih =>
      intro s hi h
      unfold EState.run
      cases hs : s.step t with
      | none => exact ih s hi h
      | some s' =>
        apply ih s' (step_cinv s s' t hi hs)
        cases t with
        | zero =>
          rcases stepW_frame s s' hi hs with ⟨h1, -, -, h4, -⟩ | ⟨h1, -, -, -, -, h6⟩
          · rw [h1, h4, List.filter_append, List.length_append, h]; rfl
          · rw [h1]
            rcases h6 with h6 | ⟨o, ho, h6⟩
            · rw [h6]; exact h
            · rw [h6, List.filter_append, List.length_append, h]
              cases o <;> first | rfl | exact absurd rfl ho
        | succ i =>
          obtain ⟨-, -, f3, -, -, -, f7, -⟩ := stepR_frame s s' i hs
          rw [f3, f7]; exact h
  exact key sched _ (cinv_init com live he wprog rprogs) rfl

/-- **no deadlock**: in every reachable state in which not all programs are finished some thread can take a step: a
    commit waiting for the exclusive lock waits for open read transactions, each of which can proceed (a reader never
    waits while it holds the shared lock); a reader waiting to begin waits for a pending commit of the writer, which can
    proceed or waits for readers that can -/
theorem econc_no_deadlock (com : FileSt) (live : List Nat) (he : EngInvU com live) (wprog : List WTxn)
    (rprogs : List (List ROp)) (s : EState) (hR : EReach com live wprog rprogs s) (hfin : s.finished = false) :
    ∃ t, (s.step t).isSome = true :=
  cinv_no_deadlock s (conc_invariant com live he wprog rprogs s hR) hfin

/-- **termination**: every schedule takes at most `Σ (|ops| + 4)` writer steps plus `2·|prog|` steps per reader (every
    step decreases the measure `emu`), and a schedule after which no thread can step — a maximal run — has finished all
    programs with every transaction closed -/
theorem econc_terminates (com : FileSt) (live : List Nat) (he : EngInvU com live) (wprog : List WTxn)
    (rprogs : List (List ROp)) (sched : List Nat) :
    (EState.init com live wprog rprogs).effSteps sched ≤ emu (EState.init com live wprog rprogs) ∧
    (let s := (EState.init com live wprog rprogs).run sched
     (∀ t, s.step t = none) → s.finished = true) := by
  refine ⟨ec_effSteps_le sched _, ?_⟩
  intro s hmax
  cases hf : s.finished with
  | true => rfl
  | false =>
    obtain ⟨t, ht⟩ := econc_no_deadlock com live he wprog rprogs s ⟨sched, rfl⟩ hf
    rw [hmax t] at ht
    cases ht

/-- a program of transactions that all end with Commit runs as `runHistoryO` -/
theorem runWHistory_commit_only (s : FileSt × List Nat) (ts : List TxnO) :
    runWHistory s (ts.map fun t => { t := t }) = runHistoryO s ts := by
  induction ts generalizing s with
  | nil => rfl
  | cons t ts ih => exact ih (runTxnO s t)

/-- **the writer is the sequential engine, whatever the readers do**: along every schedule the committed state and
    the owned pages are those of the sequential history (`runWHistory`: `runTxnO` per transaction ended with Commit,
    `txAbort` of the run per transaction ended with Rollback) of the `k` write transactions finished so far, the outcome
    log is the list of their sequential outcomes, and the rest of the program is still to run. So every theorem about
    sequential histories (C03, C04, C07, …) holds of the committed state of the concurrent system. -/
theorem conc_writer_is_sequential (com : FileSt) (live : List Nat) (he : EngInvU com live) (wprog : List WTxn)
    (rprogs : List (List ROp)) (sched : List Nat) :
    let s := (EState.init com live wprog rprogs).run sched
    ∃ k, k ≤ wprog.length ∧ s.wprog = wprog.drop k ∧ (s.com, s.live) = runWHistory (com, live) (wprog.take k) ∧
      s.wlog = wOutcomes (com, live) (wprog.take k) := by
  have hq := run_seqInv (com, live) wprog sched _ (cinv_init com live he wprog rprogs)
    (rbInv_init com live wprog rprogs) ⟨[], rfl, rfl, rfl⟩
  generalize (EState.init com live wprog rprogs).run sched = s at hq
  obtain ⟨done, h1, h2, h3⟩ := hq
  dsimp only
  refine ⟨done.length, ?_, ?_, ?_, ?_⟩
  · have := congrArg List.length h1
    rw [List.length_append] at this; omega
  · rw [h1, List.drop_left]
  · rw [h2, h1, List.take_left]
  · rw [h3, h1, List.take_left]

/-- after a maximal run the committed state is that of the sequential history of the whole writer program -/
theorem conc_final_state (com : FileSt) (live : List Nat) (he : EngInvU com live) (wprog : List WTxn)
    (rprogs : List (List ROp)) (sched : List Nat)
    (hmax : ∀ t, ((EState.init com live wprog rprogs).run sched).step t = none) :
    (((EState.init com live wprog rprogs).run sched).com, ((EState.init com live wprog rprogs).run sched).live)
      = runWHistory (com, live) wprog ∧
    ((EState.init com live wprog rprogs).run sched).wlog = wOutcomes (com, live) wprog := by
  have hfin := (econc_terminates com live he wprog rprogs sched).2 hmax
  obtain ⟨k, hk, h1, h2, h3⟩ := conc_writer_is_sequential com live he wprog rprogs sched
  have hw : ((EState.init com live wprog rprogs).run sched).wprog = [] := by
    unfold EState.finished at hfin
    rw [Bool.and_eq_true] at hfin
    exact List.isEmpty_iff.mp hfin.1
  have hk' : wprog.take k = wprog := by
    apply List.take_of_length_le
    have := congrArg List.length h1
    rw [hw, List.length_drop] at this
    simp only [List.length_nil] at this
    omega
  rw [hk'] at h2 h3
  exact ⟨h2, h3⟩

/-! ### Examples (by `decide` on the executable semantics) -/

/-- the full bounded file of Props/C03History.lean: `create 4096 8 2`, pages 4–7 allocated and written (content
    `full id 1`) -/
def ccEx0 : FileSt × List Nat := runHistoryO exO0 [exFill]
/-- overwrites page 4 and flushes it before the commit -/
def ccW1 : WTxn := { t := { overflow := true, ops := [.write 4 .full 9, .flushPage 4], order := [] } }
def ccInit1 : EState :=
  EState.init ccEx0.1 ccEx0.2 [ccW1] [[.begin, .read 4, .read 4, .close], [.begin, .read 4, .close]]
/-- reader 1 begins; the writer begins, writes, flushes; reader 1 reads; the writer goes to pending, writes the commit,
    tries the switch (blocked); reader 2 tries to begin (blocked); reader 1 reads and closes; the writer switches;
    reader 2 begins, reads, closes -/
def ccSched1 : List Nat := [1, 0, 0, 0, 1, 0, 0, 0, 2, 1, 1, 0, 2, 2, 2]

set_option maxRecDepth 16384 in
/-- **a reader is alive while the writer flushes an overwrite of the page it reads**: after 4 steps reader 1 is open and
    the new content of page 4 is ON THE DISK (in the overwrite page 2, empty before); the reader's two reads of page 4 —
    one after the flush, one after the whole commit was written — return the old content; the reader that begins after
    the switch reads the new content -/
example :
    ((ccInit1.run (ccSched1.take 4)).rds.map fun r => r.snap.isSome) = [true, false] ∧
    (ccInit1.run (ccSched1.take 1)).curFile.diskAt 2 = {} ∧
    (ccInit1.run (ccSched1.take 4)).curFile.diskAt 2 = Content.full 4 9 ∧
    ((ccInit1.run ccSched1).rds.map fun r => r.log.map fun e => (e.id, e.got, e.ver)) =
      [[(4, Content.full 4 1, 0), (4, Content.full 4 1, 0)], [(4, Content.full 4 9, 1)]] ∧
    (ccInit1.run ccSched1).wlog = [.committed] ∧ (ccInit1.run ccSched1).finished = true := by decide

set_option maxRecDepth 16384 in
/-- **the commit is blocked by a reader, and a reader is blocked by the pending commit**: after 8 steps everything of
    the commit is written and the writer waits for the exclusive lock; reader 1 is open: the writer cannot step; pending
    is set: reader 2 cannot begin; reader 1 can step (no deadlock); once it has closed (10 steps) the writer can -/
example :
    (ccInit1.run (ccSched1.take 8)).lock = { shared := 1, pending := true, reserved := true } ∧
    ((ccInit1.run (ccSched1.take 8)).step 0).isSome = false ∧
    ((ccInit1.run (ccSched1.take 8)).step 2).isSome = false ∧
    ((ccInit1.run (ccSched1.take 8)).step 1).isSome = true ∧
    (ccInit1.run (ccSched1.take 8)).ver = 0 ∧
    ((ccInit1.run (ccSched1.take 11)).step 0).isSome = true ∧
    (ccInit1.run (ccSched1.take 12)).ver = 1 ∧
    (ccInit1.run (ccSched1.take 12)).lock = {} := by decide

/-- a second committed transaction overwrites pages 4 and 5: the mapping is `4 ↦ 2, 5 ↦ 8` -/
def ccEx1 : FileSt × List Nat := runHistoryO exO0 [exFill, exOv]
/-- a transaction that only checkpoints: copies the overwrite pages back to the original pages 4 and 5 -/
def ccW3 : WTxn := { t := { overflow := true, ops := [.checkpoint], order := [] } }
def ccInit2 : EState :=
  EState.init ccEx1.1 ccEx1.2 [ccW3] [[.begin, .read 4, .read 5, .read 4, .close], [.begin, .read 4, .close]]
def ccSched2 : List Nat := [1, 1, 0, 0, 1, 1, 0, 0, 0, 1, 0, 2, 2, 2]

set_option maxRecDepth 16384 in
/-- **the checkpoint copy-back under an open reader** (`conc_example_checkpoint`): reader 1 begins and reads page 4;
    the writer's checkpoint overwrites the ORIGINAL physical pages 4 and 5 on the disk (old content `full _ 1`, now
    `full _ 2`); reader 1 — whose mapping is the committed mapping `4 ↦ 2, 5 ↦ 8`, so it never reads physical pages 4
    and 5 — reads pages 5 and 4 after the copy-back: unchanged; after the switch the mapping is empty and reader 2 reads
    page 4 from the original page: the same content -/
example :
    ccEx1.1.walMap = [(4, 2), (5, 8)] ∧
    ((ccInit2.run (ccSched2.take 2)).curFile.diskAt 4, (ccInit2.run (ccSched2.take 2)).curFile.diskAt 5)
      = (Content.full 4 1, Content.full 5 1) ∧
    ((ccInit2.run (ccSched2.take 4)).curFile.diskAt 4, (ccInit2.run (ccSched2.take 4)).curFile.diskAt 5)
      = (Content.full 4 2, Content.full 5 2) ∧
    ((ccInit2.run (ccSched2.take 4)).rds.map fun r => r.snap.isSome) = [true, false] ∧
    ((ccInit2.run ccSched2).rds.map fun r => r.log.map fun e => (e.id, e.got, e.exp, e.ver)) =
      [[(4, Content.full 4 2, Content.full 4 2, 0), (5, Content.full 5 2, Content.full 5 2, 0),
        (4, Content.full 4 2, Content.full 4 2, 0)], [(4, Content.full 4 2, Content.full 4 2, 1)]] ∧
    (ccInit2.run ccSched2).com.walMap = [] ∧ (ccInit2.run ccSched2).wlog = [.committed] := by decide

/-- a transaction that is rolled back and one whose commit fails (the file is full, no overflow flag) after flushing
    their writes to the disk, then a reader -/
def ccInit3 : EState :=
  EState.init ccEx0.1 ccEx0.2
    [{ t := { overflow := true, ops := [.write 4 .full 7, .flushPage 4], order := [] }, rollback := true },
     { t := { ops := [.write 5 .full 7], order := [5] } }]
    [[.begin, .read 4, .read 5, .close]]

set_option maxRecDepth 16384 in
/-- **rolled back and failed transactions are never seen**: both wrote to the disk; the reader afterwards reads the
    old contents; the version counter stays 0 -/
example :
    (ccInit3.run [0, 0, 0, 0, 0, 0, 0, 0, 1, 1, 1, 1]).wlog = [.rolledBack, .failed] ∧
    (ccInit3.run [0, 0, 0]).curFile.diskAt 2 = Content.full 4 7 ∧
    (ccInit3.run [0, 0, 0, 0, 0, 0, 0, 0, 1, 1, 1, 1]).ver = 0 ∧
    ((ccInit3.run [0, 0, 0, 0, 0, 0, 0, 0, 1, 1, 1, 1]).rds.map fun r => r.log.map fun e => (e.id, e.got)) =
      [[(4, Content.full 4 1), (5, Content.full 5 1)]] ∧
    (ccInit3.run [0, 0, 0, 0, 0, 0, 0, 0, 1, 1, 1, 1]).finished = true := by decide

/-- the hypotheses of the theorems hold of the examples' initial states -/
example : EngInvO ccEx0.1 ccEx0.2 ∧ EngInvO ccEx1.1 ccEx1.2 :=
  ⟨c03_history _ (engInvO_of_engInv _ _ (engInv_create 4096 8 2 (by decide) (by decide))) _,
   c03_history _ (engInvO_of_engInv _ _ (engInv_create 4096 8 2 (by decide) (by decide))) _⟩

end TxVerif
