/-
  The persistent queue (go-txfile/pq) as one state machine, refined to an abstract FIFO queue.

  `PQState` (Model/PQQueue.lean) composes the writer's buffer state machine (`WState`: buffer.go, writer.go),
  the page chain on disk, the root header (`QHdr` + page positions), the reader (reader.go, cursor.go) and the
  ACK planning (`ackPlan`, `ackInit`: ack.go).  `ASpec` is the specification: the list of finished events,
  the numbers of flushed / acknowledged / consumed events, the unread bytes of the current event.

  Main theorem (`queue_refines_fifo`): for EVERY operation list
      write chunk | next | flush | rbegin | available | rnext | rread n | rdone | ack n | reopen | counters
  on a new queue (page size `P ≥ 64`, any write buffer size), if the operation list stays inside the contract
  of sequential use (the specification accepts every call: `ASpec.run … = some …`), then the results of the
  concrete machine are exactly the results of the specification: event sizes and bytes in FIFO order, each
  event once, partial reads and skips, `Available`, `Pending`, `Active`, the callback totals, the error kinds
  of misuse (`ACKEmptyQueue`, `ACKTooMany`, `InactiveTx`, `UnexpectedActiveTx`), and the checks of the
  implementation that would panic (`QErr.panic`) or fail (`QErr.readFail`) never trigger.

  The contract (`ASpec.step … = none`; see Model/PQQueue.lean): no producer call / ACK / reopen inside a read
  session (txfile would block), no event of 0 or ≥ 2^32 bytes, ACK only of events the reader was given.
  The implicit flushes of `write`/`next` depend on the buffer fill level; the specification takes "this call
  flushed" from the concrete run (`PQState.flushTrace`); what a flush does is specified: it makes all
  finished events durable and readable.

  Hypotheses of the theorems: `64 ≤ c.P` (page size; the smallest txfile page size is far bigger) and the
  contract.  `queue_run_example` shows a concrete non-trivial run inside the contract, `queue_reach_example` a
  reachable state with a non-empty queue (hypothesis `QReach` of the corollaries).

  Theorems
  * `queue_sim_step`, `queue_refines_from`, `queue_refines_fifo`   the refinement (invariant `QInv`,
    Proofs/PQQueueSim.lean)
  * C05  `queue_rnext_delivers` (size of the next event; the unread rest of a partially read event is skipped),
         `queue_rread_delivers` (exact bytes of partial reads), `queue_drain_fifo` (in order, byte-exact, each once)
  * C12  `queue_ack_frees` (which pages an ACK frees), `queue_pages_in_use` (`inuse`, head page),
         `queue_reader_page_live` (the reader's page is never freed)
  * C17  `queue_counters` (Pending, Active, callback totals), `queue_available`, `queue_misuse_errors`
  * `queue_empty_event_example`  behaviour of the implementation outside the contract that the model mirrors

  Tie to the implementation: `driver pqmodel` (Main.lean, Model/PQQueueDriver.lean) replays the traces of the
  real queue (harness/pqrun) on `PQState` and `ASpec` and compares every result.
-/
import TxVerif.Proofs.PQQueueSim2
namespace TxVerif

/-- **One step.**  In related states an operation the specification accepts gives the same result in the
    model, and the states are related again. -/
theorem queue_sim_step (c : QCfg) (hP : 64 ≤ c.P) (q : PQState) (a a' : ASpec) (o : QOut) (op : QOp)
    (hI : QInv c q a) (hs : a.step op (q.autoFlush c op) = some (a', o)) :
    (q.step c op).2 = o ∧ QInv c (q.step c op).1 a' := by
  cases op with
  | write p => exact sim_write c hP q a a' o p hI hs
  | next => exact sim_next c hP q a a' o hI hs
  | flush => exact sim_flush c hP q a a' o hI hs
  | rbegin => exact sim_rbegin c q a a' o _ hI hs
  | available => exact sim_available c q a a' o _ hI hs
  | rnext => exact sim_rnext c hP q a a' o _ hI hs
  | rread n => exact sim_rread c hP q a a' o _ n hI hs
  | rdone => exact sim_rdone c q a a' o _ hI hs
  | ack n => exact sim_ack c hP q a a' o _ n hI hs
  | reopen => exact sim_reopen c hP q a a' o _ hI hs
  | counters => exact sim_counters c q a a' o _ hI hs

/-- a new queue is related to the empty specification state -/
theorem queue_inv_init (c : QCfg) (hP : 64 ≤ c.P) : QInv c (PQState.init c) {} := by
  have h4 := (c.S_add hP).2
  refine ⟨BufInv_init c.S c.pages 0 h4, rfl, rfl, by simp, ?_, ?_⟩
  · refine ⟨rfl, rfl, rfl, rfl, by simp [PQState.init], by simp, by simp, rfl, rfl, rfl, Nat.le_refl _,
      Or.inr ⟨rfl, rfl⟩, Or.inl rfl⟩
  · exact ⟨rfl, rfl, Nat.le_refl _, Nat.le_refl _, by simp [PQState.init]⟩

/-- **Refinement from related states**, for every operation list -/
theorem queue_refines_from (c : QCfg) (hP : 64 ≤ c.P) : ∀ (ops : List QOp) (q : PQState) (a a' : ASpec)
    (outs : List QOut), QInv c q a → ASpec.run a ops (PQState.flushTrace c q ops) = some (a', outs) →
    (PQState.run c q ops).2 = outs ∧ QInv c (PQState.run c q ops).1 a' := by
  intro ops
  induction ops with
  | nil =>
    intro q a a' outs hI h
    simp only [ASpec.run, Option.some.injEq, Prod.mk.injEq] at h
    obtain ⟨h1, h2⟩ := h
    subst h1 h2
    exact ⟨rfl, hI⟩
  | cons op ops ih =>
    intro q a a' outs hI h
    simp only [ASpec.run, PQState.flushTrace, List.headD_cons, List.tail_cons] at h
    cases hs : a.step op (q.autoFlush c op) with
    | none => rw [hs] at h; simp at h
    | some r =>
      obtain ⟨a1, o⟩ := r
      rw [hs] at h
      simp only at h
      obtain ⟨e1, hI1⟩ := queue_sim_step c hP q a a1 o op hI hs
      cases hr : ASpec.run a1 ops (PQState.flushTrace c (q.step c op).1 ops) with
      | none => rw [hr] at h; simp at h
      | some r2 =>
        obtain ⟨a2, os⟩ := r2
        rw [hr] at h
        simp only [Option.some.injEq, Prod.mk.injEq] at h
        obtain ⟨h1, h2⟩ := h
        subst h1 h2
        obtain ⟨e2, hI2⟩ := ih (q.step c op).1 a1 a2 os hI1 hr
        simp only [PQState.run]
        exact ⟨by rw [e1, e2], hI2⟩

/-- **REFINEMENT THEOREM.**  Every operation list on a new queue that stays inside the contract produces on
    the concrete machine exactly the results of the abstract FIFO queue. -/
theorem queue_refines_fifo (c : QCfg) (hP : 64 ≤ c.P) (ops : List QOp) (a' : ASpec) (outs : List QOut)
    (h : ASpec.run {} ops (PQState.flushTrace c (PQState.init c) ops) = some (a', outs)) :
    (PQState.run c (PQState.init c) ops).2 = outs :=
  (queue_refines_from c hP ops _ _ _ _ (queue_inv_init c hP) h).1

/-- reachable pairs of states: after an operation list inside the contract -/
def QReach (c : QCfg) (q : PQState) (a : ASpec) : Prop :=
  ∃ ops outs, ASpec.run {} ops (PQState.flushTrace c (PQState.init c) ops) = some (a, outs) ∧
    (PQState.run c (PQState.init c) ops).1 = q

theorem QReach.inv {c : QCfg} (hP : 64 ≤ c.P) {q : PQState} {a : ASpec} (h : QReach c q a) : QInv c q a := by
  obtain ⟨ops, outs, h1, h2⟩ := h
  rw [← h2]
  exact (queue_refines_from c hP ops _ _ _ _ (queue_inv_init c hP) h1).2

/-! ## C05: events are delivered in order, byte-exact, each once -/

/-- `Reader.Next` in a read session: the unread rest of the current event is skipped; the size of the next
    flushed event that was not consumed yet is returned, 0 if there is none -/
theorem queue_rnext_delivers (c : QCfg) (hP : 64 ≤ c.P) (q : PQState) (a : ASpec) (hR : QReach c q a)
    (hin : a.inRead = true) :
    (q.step c .rnext).2 =
      (let k := if a.left = 0 then a.consumed else a.consumed + 1
       if k < a.flushed then QOut.size (a.events.getD k []).length else QOut.size 0) := by
  have hI := hR.inv hP
  obtain ⟨a1, o, hs⟩ : ∃ a1 o, a.step .rnext false = some (a1, o) := by
    simp only [ASpec.step, hin, Bool.not_true, Bool.false_eq_true, if_false]
    split <;> (split <;> exact ⟨_, _, rfl⟩)
  rw [(queue_sim_step c hP q a a1 o .rnext hI hs).1]
  simp only [ASpec.step, hin, Bool.not_true, Bool.false_eq_true, if_false] at hs
  show o = if (if a.left = 0 then a.consumed else a.consumed + 1) < a.flushed then
    QOut.size (a.events.getD (if a.left = 0 then a.consumed else a.consumed + 1) []).length else QOut.size 0
  by_cases hk : (if a.left = 0 then a.consumed else a.consumed + 1) < a.flushed
  · simp only [hk, if_true, Option.some.injEq, Prod.mk.injEq] at hs ⊢; exact hs.2.symm
  · simp only [hk, if_false, Option.some.injEq, Prod.mk.injEq] at hs ⊢; exact hs.2.symm

/-- `Reader.Read` with a buffer of `n` bytes: exactly the next `min n left` bytes of the current event -/
theorem queue_rread_delivers (c : QCfg) (hP : 64 ≤ c.P) (q : PQState) (a : ASpec) (hR : QReach c q a)
    (hin : a.inRead = true) (n : Nat) :
    (q.step c (.rread n)).2 =
      QOut.bytes (if a.left = 0 then [] else
        (((a.events.getD a.consumed []).drop ((a.events.getD a.consumed []).length - a.left)).take (min n a.left))) := by
  have hI := hR.inv hP
  obtain ⟨a1, o, hs⟩ : ∃ a1 o, a.step (.rread n) false = some (a1, o) := by
    simp only [ASpec.step, hin, Bool.not_true, Bool.false_eq_true, if_false]
    split
    · exact ⟨_, _, rfl⟩
    · split <;> exact ⟨_, _, rfl⟩
  rw [(queue_sim_step c hP q a a1 o (.rread n) hI hs).1]
  simp only [ASpec.step, hin, Bool.not_true, Bool.false_eq_true, if_false] at hs
  by_cases hl : a.left = 0
  · simp only [hl, if_true, Option.some.injEq, Prod.mk.injEq] at hs ⊢; exact hs.2.symm
  · simp only [hl, if_false] at hs ⊢
    split at hs <;> (simp only [Option.some.injEq, Prod.mk.injEq] at hs; exact hs.2.symm)

/-- the consumer that reads every event to its end -/
def drainOps (es : List (List UInt8)) : List QOp :=
  es.flatMap (fun e => [QOp.rnext, QOp.rread e.length]) ++ [QOp.rnext]

/-- what it must be given: size and bytes of every event, then "no more events" -/
def drainOuts (es : List (List UInt8)) : List QOut :=
  es.flatMap (fun e => [QOut.size e.length, QOut.bytes e]) ++ [QOut.size 0]

theorem spec_drain : ∀ (es : List (List UInt8)) (a : ASpec) (fls : List Bool), a.inRead = true → a.left = 0 →
    a.flushed ≤ a.events.length → (∀ e ∈ a.events, 0 < e.length) →
    es = (a.events.take a.flushed).drop a.consumed →
    ∃ a', ASpec.run a (drainOps es) fls = some (a', drainOuts es) := by
  intro es
  induction es with
  | nil =>
    intro a fls hin hl hF _ hes
    have hge : ¬ a.consumed < a.flushed := by
      intro hlt
      have := congrArg List.length hes
      simp only [List.length_nil, List.length_drop, List.length_take] at this
      omega
    refine ⟨{ a with consumed := a.consumed, left := 0 }, ?_⟩
    simp [drainOps, drainOuts, ASpec.run, ASpec.step, hin, hl, hge]
  | cons e es ih =>
    intro a fls hin hl hF hpos hes
    have hlt : a.consumed < a.flushed := by
      have := congrArg List.length hes
      simp only [List.length_cons, List.length_drop, List.length_take] at this
      omega
    have hkl : a.consumed < a.events.length := by omega
    have he : a.events.getD a.consumed [] = e := by
      have h0 := congrArg (fun l => l[0]?) hes
      simp only [List.getElem?_cons_zero, List.getElem?_drop, Nat.add_zero, List.getElem?_take, hlt, if_true] at h0
      simp only [List.getD]
      rw [← h0]; rfl
    have hepos : 0 < e.length := by
      rw [← he]
      have : a.events.getD a.consumed [] = a.events[a.consumed] := by simp [List.getD, List.getElem?_eq_getElem hkl]
      rw [this]; exact hpos _ (List.getElem_mem hkl)
    have hene : e.length ≠ 0 := by omega
    have hes' : es = (a.events.take a.flushed).drop (a.consumed + 1) := by
      have := congrArg List.tail hes
      simp only [List.tail_cons, List.tail_drop] at this
      exact this
    obtain ⟨a', h'⟩ := ih { a with consumed := a.consumed + 1, left := 0 } fls.tail.tail hin rfl hF hpos hes'
    refine ⟨a', ?_⟩
    simp only [drainOps, drainOuts, List.flatMap_cons, List.cons_append, List.nil_append] at h' ⊢
    simp only [ASpec.run, ASpec.step, hin, hl, hlt, he, Bool.not_true, Bool.false_eq_true, if_false, if_true,
      hene, Nat.min_self, Nat.sub_self, List.drop_zero, List.take_length]
    simp only [hin] at h'
    rw [h']

/-- **C05, FIFO.**  In every reachable state with an open read session and no event in progress, the consumer
    that reads every event to its end (`Next`, `Read` of the whole event, …, `Next`) gets exactly the flushed
    events that were not consumed yet: in order, byte-identical, each once, and then "no more events". -/
theorem queue_drain_fifo (c : QCfg) (hP : 64 ≤ c.P) (q : PQState) (a : ASpec) (hR : QReach c q a)
    (hin : a.inRead = true) (hl : a.left = 0) :
    (PQState.run c q (drainOps ((a.events.take a.flushed).drop a.consumed))).2 =
      drainOuts ((a.events.take a.flushed).drop a.consumed) := by
  have hI := hR.inv hP
  obtain ⟨a', h'⟩ := spec_drain _ a (PQState.flushTrace c q (drainOps ((a.events.take a.flushed).drop a.consumed)))
    hin hl hI.fle (fun e he => (hI.sz e he).1) rfl
  exact (queue_refines_from c hP _ q a a' _ hI h').1

/-! ## C12: what an ACK frees, pages in use -/

/-- In every reachable state the root header's `inuse` counts exactly the pages of the chain from the head
    page on; a non-empty queue's head page holds an event header and its first event is acknowledged or the
    first that is not (so no un-ACKed event is in a freed page); before the first flush the queue holds no page. -/
theorem queue_pages_in_use (c : QCfg) (hP : 64 ≤ c.P) (q : PQState) (a : ASpec) (hR : QReach c q a) :
    q.inuse = q.livePages.length ∧
    (0 < a.flushed → ∃ K, q.livePages.head? = some K ∧ K.off ≠ 0 ∧ K.first ≤ a.acked) ∧
    (a.flushed = 0 → q.w.persisted = []) := by
  have hI := hR.inv hP
  have hH := hI.h
  refine ⟨?_, ?_, ?_⟩
  · have := hH.inuse
    simp only [PQState.livePages, List.length_drop]; omega
  · intro h0
    obtain ⟨K, k1, _, k3, k4, k5⟩ := hH.head h0
    refine ⟨K, ?_, k3, by rw [k4]; exact k5⟩
    simp only [PQState.livePages, List.head?_drop]; exact k1
  · intro h0
    have := CRel_length _ _ _ _ hI.crel
    rw [h0] at this
    exact List.length_eq_zero_iff.mp this

/-- **C12.**  An accepted `ack n` (`0 < n ≤ flushed - acked`, reachable state) frees exactly the first
    `ackPlan`-many pages of the queue's chain, where `endID = acked + n` is the first event that stays:
    * the last page is never freed; the kept chain is the old chain without the freed prefix, `inuse` and the
      `ACKed` callback total account for exactly the freed pages;
    * every freed page with event headers holds acknowledged events only (`last + 1 < endID`: not even the
      last acknowledged one), the other freed pages hold event data of acknowledged events only (they lie
      before the first kept page);
    * the first kept page `K` holds an event header and `K.first ≤ endID ≤ K.last + 1`: it holds the header of
      the last acknowledged event or of the first un-acknowledged one, so every un-acknowledged event starts
      in a kept page. -/
theorem queue_ack_frees (c : QCfg) (hP : 64 ≤ c.P) (q : PQState) (a : ASpec) (hR : QReach c q a) (n : Nat)
    (hn : 0 < n) (hle : n ≤ a.flushed - a.acked) :
    (q.step c (.ack n)).2 = .ok ∧
    (ackPlan q.livePages (a.acked + n)).1 < q.livePages.length ∧
    (q.step c (.ack n)).1.livePages = q.livePages.drop (ackPlan q.livePages (a.acked + n)).1 ∧
    (q.step c (.ack n)).1.inuse = q.inuse - (ackPlan q.livePages (a.acked + n)).1 ∧
    (q.step c (.ack n)).1.totFreed = q.totFreed + (ackPlan q.livePages (a.acked + n)).1 ∧
    (∀ k < (ackPlan q.livePages (a.acked + n)).1, ∀ p, q.livePages[k]? = some p → p.off ≠ 0 →
        p.last + 1 < a.acked + n) ∧
    (∃ K, (q.step c (.ack n)).1.livePages.head? = some K ∧ K.off ≠ 0 ∧ K.first ≤ a.acked + n ∧
        a.acked + n ≤ K.last + 1) := by
  have hI := hR.inv hP
  obtain ⟨st, K', _, hfr, hstep, hlt, g1, g3, g5, g7⟩ := ack_step c hP q a n hI (by omega) hle
  rw [hstep, ← hfr]
  refine ⟨rfl, ?_, ?_, rfl, rfl, ?_, K', ?_, g3, g5, g7⟩
  · simp only [PQState.livePages, List.length_drop]; omega
  · simp only [PQState.livePages, List.drop_drop]
  · rw [hfr]; exact ackPlan_freed_acked _ _
  · simp only [PQState.livePages, List.head?_drop]; exact g1

/-- only events the reader was given are acknowledged (kept by the contract of `ack`) -/
def ASpec.ackOk (a : ASpec) : Prop := a.acked ≤ a.consumed + (if a.left = 0 then 0 else 1)

theorem spec_ackOk_step (a a' : ASpec) (op : QOp) (fl : Bool) (o : QOut) (h0 : a.ackOk)
    (h : a.step op fl = some (a', o)) : a'.ackOk := by
  simp only [ASpec.ackOk] at h0 ⊢
  cases op <;> simp only [ASpec.step, ASpec.doFlush] at h <;> (repeat' split at h) <;>
    simp only [Option.some.injEq, Prod.mk.injEq, reduceCtorEq] at h <;>
    (try (obtain ⟨h1, _⟩ := h; subst h1; (try simp only); (try split) <;> (try split at h0) <;> omega))

theorem spec_ackOk_run : ∀ (ops : List QOp) (a a' : ASpec) (fls : List Bool) (outs : List QOut), a.ackOk →
    ASpec.run a ops fls = some (a', outs) → a'.ackOk := by
  intro ops
  induction ops with
  | nil =>
    intro a a' fls outs h0 h
    simp only [ASpec.run, Option.some.injEq, Prod.mk.injEq] at h
    rw [← h.1]; exact h0
  | cons op ops ih =>
    intro a a' fls outs h0 h
    simp only [ASpec.run] at h
    cases hs : a.step op (fls.headD false) with
    | none => rw [hs] at h; simp at h
    | some r =>
      obtain ⟨a1, o⟩ := r
      rw [hs] at h
      simp only at h
      cases hr : ASpec.run a1 ops fls.tail with
      | none => rw [hr] at h; simp at h
      | some r2 =>
        rw [hr] at h
        simp only [Option.some.injEq, Prod.mk.injEq] at h
        rw [← h.1]
        exact ih a1 r2.1 fls.tail r2.2 (spec_ackOk_step a a1 op _ o h0 hs) hr

/-- **C12, the reader's page is never freed.**  In every reachable state the page the reader's cursor is on
    belongs to the pages the queue holds (it is the head page or behind it): an ACK inside the contract (only
    events the reader was given) never frees the page the reader stands on - in particular not the page in which
    the last acknowledged event ends although no further event starts in it (`collectFreePages` keeps the page
    with the header of the last acknowledged event: `lastID++`). -/
theorem queue_reader_page_live (c : QCfg) (hP : 64 ≤ c.P) (q : PQState) (a : ASpec) (hR : QReach c q a)
    (i o : Nat) (hc : q.r.cur = some (i, o)) : q.headPos.1 ≤ i := by
  have hI := hR.inv hP
  have hok : a.ackOk := by
    obtain ⟨ops, outs, h1, _⟩ := hR
    exact spec_ackOk_run ops {} a _ outs (by simp [ASpec.ackOk]) h1
  simp only [ASpec.ackOk] at hok
  have hH := hI.h
  by_cases hF0 : a.flushed = 0
  · have := CRel_length _ _ _ _ hI.crel
    rw [hF0] at this
    have hi := hH.inuse
    simp only [if_true] at this
    omega
  have hFpos : 0 < a.flushed := by omega
  obtain ⟨hS, h4⟩ := c.S_add hP
  obtain ⟨K, k1, k2, k3, k4, k5⟩ := hH.head hFpos
  obtain ⟨hq, hfF⟩ := page_is_qhdr c.S h4 a.events a.flushed _ hI.crel hI.fle hFpos _ K k1 k3
  rw [k4] at hq hfF
  have hhp : q.headPos.1 = (qhdr c.S a.events q.hdr.headId).1 := by rw [hq]
  have hcur := hI.r.cur
  rw [hc] at hcur
  obtain ⟨_, hat, hmid⟩ := hcur
  have hFl := hI.fle
  have hcons := hI.r.cons
  -- the header page of the head's first event is not behind the header page of any event `k ≥` it
  have hmono : ∀ k, q.hdr.headId ≤ k → k ≤ a.events.length →
      (qhdr c.S a.events q.hdr.headId).1 ≤ (qhdr c.S a.events k).1 := by
    intro k h1 h2
    rcases Nat.lt_or_ge q.hdr.headId k with h | h
    · exact Nat.le_trans (qhdr_le_qpos c.S a.events _ k h h2) (qpos_le_qhdr c.S a.events k)
    · have : k = q.hdr.headId := by omega
      rw [this]; exact Nat.le_refl _
  by_cases hl : a.left = 0
  · simp only [hl, if_true, Nat.add_zero] at hok
    have hcase : (qhdr c.S a.events q.hdr.headId).1 ≤ (qpos c.S a.events a.consumed).1 := by
      rcases Nat.lt_or_ge q.hdr.headId a.consumed with h | h
      · exact qhdr_le_qpos c.S a.events _ _ h (by omega)
      · -- head id = consumed = acked = 0
        have h0 : q.hdr.headId = 0 ∧ a.consumed = 0 := by
          rcases hH.headLt with h' | ⟨h1, h2⟩
          · omega
          · omega
        rw [h0.1, h0.2]
        have : ¬ qpad c.S a.events 0 := by
          simp only [qpad]
          have : (qc c.S a.events 0).payload.length = 0 := rfl
          omega
        simp [qhdr, this]
    rcases hat hl with h | ⟨_, h, _⟩
    · have := congrArg Prod.fst h; simp only at this; omega
    · have := congrArg Prod.fst h; simp only at this
      simp only [qpos] at hcase; omega
  · simp only [hl, if_false] at hok
    obtain ⟨hlt, _, hx⟩ := hmid (by omega)
    have hle : q.hdr.headId ≤ a.consumed := by
      rcases hH.headLt with h' | ⟨h1, h2⟩ <;> omega
    have := hmono a.consumed hle (by omega)
    have hx1 := congrArg Prod.fst hx
    simp only [qmid] at hx1
    omega

/-! ## C17: counters and callback totals -/

/-- **C17.**  In every reachable state `Pending()` and `Active()` are `flushed - acked`, the `Flushed`
    callbacks have reported `flushed` events in total and the `ACKed` callbacks `acked`. -/
theorem queue_counters (c : QCfg) (hP : 64 ≤ c.P) (q : PQState) (a : ASpec) (hR : QReach c q a) :
    (q.step c .counters).2 = .counters (a.flushed - a.acked) (a.flushed - a.acked) a.flushed a.acked ∧
    q.hdr.pending = a.flushed - a.acked ∧ q.hdr.active = a.flushed - a.acked ∧
    q.totFlushed = a.flushed ∧ q.totAcked = a.acked ∧ a.acked ≤ a.flushed ∧ a.flushed ≤ a.events.length := by
  have hI := hR.inv hP
  have h1 := (queue_sim_step c hP q a a (.counters (a.flushed - a.acked) (a.flushed - a.acked) a.flushed a.acked)
    .counters hI (by simp [ASpec.step])).1
  refine ⟨h1, ?_, ?_, hI.h.totF, hI.h.totA, hI.h.le, hI.fle⟩
  · simp only [PQState.step, PQState.counters, QOut.counters.injEq] at h1; exact h1.1
  · simp only [PQState.step, PQState.counters, QOut.counters.injEq] at h1; exact h1.2.1

/-- `Reader.Available` in a read session: the flushed events the reader has not consumed -/
theorem queue_available (c : QCfg) (hP : 64 ≤ c.P) (q : PQState) (a : ASpec) (hR : QReach c q a)
    (hin : a.inRead = true) : (q.step c .available).2 = .count (a.flushed - a.consumed) :=
  (queue_sim_step c hP q a a _ .available (hR.inv hP) (by simp [ASpec.step, hin])).1

/-- the documented errors of misuse -/
theorem queue_misuse_errors (c : QCfg) (hP : 64 ≤ c.P) (q : PQState) (a : ASpec) (hR : QReach c q a) :
    (a.inRead = false → (q.step c .rnext).2 = .err .inactiveTx ∧ (q.step c (.rread 4)).2 = .err .inactiveTx ∧
        (q.step c .available).2 = .err .inactiveTx) ∧
    (a.inRead = true → (q.step c .rbegin).2 = .err .activeTx) ∧
    (∀ n, 0 < n → a.flushed = 0 → (q.step c (.ack n)).2 = .err .ackEmpty) ∧
    (∀ n, 0 < a.flushed → a.flushed - a.acked < n → (q.step c (.ack n)).2 = .err .ackTooMany) := by
  have hI := hR.inv hP
  refine ⟨fun h => ⟨?_, ?_, ?_⟩, fun h => ?_, fun n hn h0 => ?_, fun n h0 hm => ?_⟩
  · exact (queue_sim_step c hP q a a _ .rnext hI (by simp [ASpec.step, h])).1
  · exact (queue_sim_step c hP q a a _ (.rread 4) hI (by simp [ASpec.step, h])).1
  · exact (queue_sim_step c hP q a a _ .available hI (by simp [ASpec.step, h])).1
  · exact (queue_sim_step c hP q a a _ .rbegin hI (by simp [ASpec.step, h])).1
  · have hn0 : n ≠ 0 := by omega
    exact (queue_sim_step c hP q a a _ (.ack n) hI (by simp [ASpec.step, hn0, h0])).1
  · have hn0 : n ≠ 0 := by omega
    have hf : a.flushed ≠ 0 := by omega
    exact (queue_sim_step c hP q a a _ (.ack n) hI (by simp [ASpec.step, hn0, hf, hm])).1

/-! ## a concrete run inside the contract (P = 64: 36 payload bytes per page, buffer of 5 pages)

  Three events (3, 60 and 5 bytes; the second spans three pages), an explicit flush, a partial read that is
  skipped by the next `Next`, a read of a whole event with a bigger buffer, ACK of two events (frees two of
  three pages), close + reopen with a buffered event (flushed by Close), the new reader starts behind the
  ACKed events, ACK of more than is pending. -/

def exCfg : QCfg := ⟨64, 5⟩

def exOps : List QOp := [.write (ev 3 1), .next, .write (ev 30 2), .write (ev 30 2), .next, .flush,
  .rbegin, .rnext, .rread 2, .rnext, .rread 100, .rnext, .rdone, .ack 2, .counters,
  .write (ev 5 3), .next, .reopen, .rbegin, .available, .rnext, .rread 5, .rdone, .ack 1, .counters, .ack 5]

def exOuts : List QOut := [.wrote none, .wrote none, .wrote none, .wrote none, .wrote none, .wrote (some 2),
  .ok, .size 3, .bytes (ev 2 1), .size 60, .bytes (ev 60 2), .size 0, .ok, .ok, .counters 0 0 2 2,
  .wrote none, .wrote none, .ok, .ok, .count 1, .size 5, .bytes (ev 5 3), .ok, .ok, .counters 0 0 3 3,
  .err .ackTooMany]

set_option maxRecDepth 100000 in
/-- the hypotheses of `queue_refines_fifo` are satisfiable: this run is inside the contract; and the
    conclusion, checked directly: the model produces these results; two of the three pages are freed -/
theorem queue_run_example :
    (ASpec.run {} exOps (PQState.flushTrace exCfg (PQState.init exCfg) exOps)).map (·.2) = some exOuts ∧
    (PQState.run exCfg (PQState.init exCfg) exOps).2 = exOuts ∧
    pageSummary (PQState.run exCfg (PQState.init exCfg) exOps).1.w.persisted =
      [(0, 1, 28, 36), (0, 0, 0, 36), (2, 2, 28, 36)] ∧
    (PQState.run exCfg (PQState.init exCfg) exOps).1.headPos = (2, 28) ∧
    (PQState.run exCfg (PQState.init exCfg) exOps).1.inuse = 1 := by decide +kernel

/-- a reachable pair of states with a non-empty queue (hypothesis `QReach` of the corollaries) -/
theorem queue_reach_example : ∃ q a, QReach exCfg q a ∧ a.flushed = 3 ∧ a.acked = 3 ∧ q.inuse = 1 := by
  have h := queue_run_example.1
  cases hr : ASpec.run {} exOps (PQState.flushTrace exCfg (PQState.init exCfg) exOps) with
  | none => rw [hr] at h; cases h
  | some r =>
    refine ⟨_, r.1, ⟨exOps, r.2, hr, rfl⟩, ?_, ?_, queue_run_example.2.2.2.2⟩
    · have hI := (queue_refines_from exCfg (by decide) exOps _ _ r.1 r.2 (queue_inv_init exCfg (by decide)) hr).2
      have := hI.h.totF
      rw [← this]
      decide +kernel
    · have hI := (queue_refines_from exCfg (by decide) exOps _ _ r.1 r.2 (queue_inv_init exCfg (by decide)) hr).2
      have := hI.h.totA
      rw [← this]
      decide +kernel

/-! ## outside the contract: events without bytes

  The model mirrors the implementation here (Model/PQLayout.lean, "reader with event id bookkeeping"):
  `Reader.Next` returns 0 for an event of size 0 - the caller cannot tell it from "no event" - and the reader
  does not count it (`state.id` is only incremented when a byte was read or skipped), so `Available` stays one
  too high and a later `Next` reads a header behind the tail.  The specification excludes such events
  (`ASpec.step … .next = none` for an empty event). -/

set_option maxRecDepth 100000 in
theorem queue_empty_event_example :
    (PQState.run exCfg (PQState.init exCfg)
      [.next, .write (ev 2 7), .next, .flush, .rbegin, .rnext, .available, .rnext, .rread 9, .available]).2 =
      [.wrote none, .wrote none, .wrote none, .wrote (some 2), .ok, .size 0, .count 2, .size 2, .bytes (ev 2 7),
        .count 1] ∧
    (ASpec.run {} [.next] [false]) = none := by decide +kernel

end TxVerif
