/-
  C13 — concurrent producer and consumer on one queue stay consistent.
  At the engine level the producer's flushes and the consumer's ACKs are write transactions, the
  consumer's read sessions and the planning phase of an ACK are read transactions; C09 gives
  mutual exclusion of the write transactions and absence of deadlock, C02 gives each read
  session a stable snapshot. At the queue level an ACK (planned on a snapshot) never releases the
  page the writer appends to nor a page carrying an un-acknowledged event, and what it keeps
  still parses to all un-acknowledged events (C12Ack). The producer only rewrites the last page
  of the chain and appends after it (`layout_append`).
-/
import TxVerif.Props.C12
import TxVerif.Props.C09
import TxVerif.Props.C02
namespace TxVerif

/-- flushes and ACK applications exclude each other (both hold the reserved lock) -/
theorem pq_writers_exclusive (s : Sys) (h : s.Reach) : s.pcs.countP Pc.isWriter ≤ 1 := one_writer s h

/-- producer, consumer and ACK cannot deadlock: some step is always enabled -/
theorem pq_no_deadlock (s : Sys) (h : s.Reach) (hn : ∃ pc ∈ s.pcs, pc.finished = false) : ∃ t, s.Step t :=
  no_deadlock s h hn

/-- an ACK never releases the write page -/
theorem pq_ack_keeps_write_page (pages : List QPage) (endID : Nat) (hne : pages ≠ []) :
    (ackPlan pages endID).1 < pages.length := ackPlan_keeps_last pages endID hne

/-- an ACK only releases pages all of whose events are acknowledged (for ANY chain, so also
    for the snapshot the plan was computed on while the producer keeps appending) -/
theorem pq_ack_only_acked (pages : List QPage) (endID : Nat) :
    ∀ k < (ackPlan pages endID).1, ∀ p, pages[k]? = some p → p.off ≠ 0 → p.last + 1 < endID :=
  ackPlan_freed_acked pages endID

/-- what a later flush appends leaves the pages before the old tail page untouched and is parsed
    from where the reader stopped -/
theorem pq_append_preserves_prefix (P : Nat) (hP : 64 ≤ P) (id0 : Nat) (pre suf : List (List UInt8)) (hne : pre ≠ [])
    (hsz : ∀ e ∈ suf, e.length < 2^32) :
    ∃ done last h t, layout P id0 pre = done ++ [last] ∧ layout P id0 (pre ++ suf) = done ++ h :: t ∧
      last.payload <+: h.payload ∧ (last.off ≠ 0 → h.off = last.off ∧ h.first = last.first) ∧
      (suf = [] → h = last ∧ t = []) ∧
      parseFrom P (h :: t) (28 + last.payload.length) suf.length = some suf :=
  layout_append P hP id0 pre suf hne hsz

end TxVerif
