/-
  C06 (queue durability: flushed events survive, ACKed events never return) on the whole-queue model.

  Model/PQQueue.lean: `PQState.crash` = the process stops, write buffer and reader are lost, the file keeps the
  committed state (page chain, root header), the queue is opened again (`newWriter` on the persisted tail page,
  new reader); `QCOp.crashDuring op committed` = crash while the ONE transaction of `op` (Tie:
  `pq_flush_is_one_tx`, `pq_ack_is_one_tx`; engine level atomicity: Props/C01, Props/C06 `queue_crash`) is in
  progress: its before-state (`committed = false`) or its after-state is recovered.
  Specification (`ASpec.crash`): `events := events.take flushed` (what was not flushed is gone, later events
  continue with id `flushed`), the event being written is gone, `consumed := acked` (the new reader starts
  behind the ACKed events).

  * `queue_sim_cstep`, `queue_refines_from_crash`, `queue_refines_fifo_crash`   the refinement theorem of
    Props/PQQueueRefine.lean for operation lists with crash points
  * `queue_crash_durable`       after ANY operation list with crash points (inside the contract) and a crash,
                                a new read session delivers exactly the events `acked … flushed - 1`: every event
                                of every successful flush that is not ACKed, in order, byte-exact, each once;
                                no ACKed event again (`queue_crash_no_acked_again`)
  * `queue_crash_flush_atomic`  crash during a flush: all events of that flush or none of them
  * `queue_crash_ack_atomic`    crash during `ack n`: all `n` events acknowledged or none
  * `queue_crash_autoflush_atomic` the same for the automatic flush of `write` / `next`
  * `queue_crash_writer_continues` events written after the recovery follow the recovered ones, ids continue
  * `queue_crash_example`       a concrete run with crashes (decide)

  Hypotheses: `64 ≤ c.P` and the contract of sequential use (the specification accepts the operation list:
  `ASpec.crun … = some …`); a crash itself is always accepted.
-/
import TxVerif.Props.PQQueueRefine
import TxVerif.Proofs.PQQueueCrash
namespace TxVerif

/-- one step, with crash points -/
theorem queue_sim_cstep (c : QCfg) (hP : 64 ≤ c.P) (q : PQState) (a a' : ASpec) (o : QOut) (op : QCOp)
    (hI : QInv c q a) (hs : a.cstep op (q.cautoFlush c op) = some (a', o)) :
    (q.cstep c op).2 = o ∧ QInv c (q.cstep c op).1 a' := by
  cases op with
  | op x => exact queue_sim_step c hP q a a' o x hI hs
  | crash =>
    simp only [ASpec.cstep, Option.some.injEq, Prod.mk.injEq] at hs
    rw [← hs.1, ← hs.2]
    exact ⟨rfl, sim_crash c hP q a hI⟩
  | crashDuring x committed =>
    cases committed with
    | false =>
      simp only [ASpec.cstep, Option.some.injEq, Prod.mk.injEq] at hs
      rw [← hs.1, ← hs.2]
      exact ⟨rfl, sim_crash c hP q a hI⟩
    | true =>
      simp only [ASpec.cstep, PQState.cautoFlush, QCOp.inner, Option.map_eq_some_iff] at hs
      obtain ⟨r, hr, he⟩ := hs
      simp only [Prod.mk.injEq] at he
      rw [← he.1, ← he.2]
      obtain ⟨_, hI1⟩ := queue_sim_step c hP q a r.1 r.2 x hI hr
      exact ⟨rfl, sim_crash c hP _ _ hI1⟩

/-- refinement from related states, for every operation list with crash points -/
theorem queue_refines_from_crash (c : QCfg) (hP : 64 ≤ c.P) : ∀ (ops : List QCOp) (q : PQState) (a a' : ASpec)
    (outs : List QOut), QInv c q a → ASpec.crun a ops (PQState.cflushTrace c q ops) = some (a', outs) →
    (PQState.crun c q ops).2 = outs ∧ QInv c (PQState.crun c q ops).1 a' := by
  intro ops
  induction ops with
  | nil =>
    intro q a a' outs hI h
    simp only [ASpec.crun, Option.some.injEq, Prod.mk.injEq] at h
    obtain ⟨h1, h2⟩ := h
    subst h1 h2
    exact ⟨rfl, hI⟩
  | cons op ops ih =>
    intro q a a' outs hI h
    simp only [ASpec.crun, PQState.cflushTrace, List.headD_cons, List.tail_cons] at h
    cases hs : a.cstep op (q.cautoFlush c op) with
    | none => rw [hs] at h; simp at h
    | some r =>
      obtain ⟨a1, o⟩ := r
      rw [hs] at h
      simp only at h
      obtain ⟨e1, hI1⟩ := queue_sim_cstep c hP q a a1 o op hI hs
      cases hr : ASpec.crun a1 ops (PQState.cflushTrace c (q.cstep c op).1 ops) with
      | none => rw [hr] at h; simp at h
      | some r2 =>
        obtain ⟨a2, os⟩ := r2
        rw [hr] at h
        simp only [Option.some.injEq, Prod.mk.injEq] at h
        obtain ⟨h1, h2⟩ := h
        subst h1 h2
        obtain ⟨e2, hI2⟩ := ih (q.cstep c op).1 a1 a2 os hI1 hr
        simp only [PQState.crun]
        exact ⟨by rw [e1, e2], hI2⟩

/-- **REFINEMENT WITH CRASH POINTS.**  Every operation list with crashes between and inside operations on a
    new queue, inside the contract, produces on the concrete machine exactly the results of the abstract FIFO
    queue that forgets its unflushed events at every crash. -/
theorem queue_refines_fifo_crash (c : QCfg) (hP : 64 ≤ c.P) (ops : List QCOp) (a' : ASpec) (outs : List QOut)
    (h : ASpec.crun {} ops (PQState.cflushTrace c (PQState.init c) ops) = some (a', outs)) :
    (PQState.crun c (PQState.init c) ops).2 = outs :=
  (queue_refines_from_crash c hP ops _ _ _ _ (queue_inv_init c hP) h).1

/-- reachable pairs of states: after an operation list with crash points inside the contract -/
def QCReach (c : QCfg) (q : PQState) (a : ASpec) : Prop :=
  ∃ ops outs, ASpec.crun {} ops (PQState.cflushTrace c (PQState.init c) ops) = some (a, outs) ∧
    (PQState.crun c (PQState.init c) ops).1 = q

theorem QCReach.inv {c : QCfg} (hP : 64 ≤ c.P) {q : PQState} {a : ASpec} (h : QCReach c q a) : QInv c q a := by
  obtain ⟨ops, outs, h1, h2⟩ := h
  rw [← h2]
  exact (queue_refines_from_crash c hP ops _ _ _ _ (queue_inv_init c hP) h1).2

/-- one more step from a reachable pair -/
theorem QCReach.step {c : QCfg} (hP : 64 ≤ c.P) {q : PQState} {a a' : ASpec} {o : QOut} (op : QCOp)
    (h : QCReach c q a) (hs : a.cstep op (q.cautoFlush c op) = some (a', o)) :
    QCReach c (q.cstep c op).1 a' := by
  have hI := h.inv hP
  have := queue_sim_cstep c hP q a a' o op hI hs
  -- it is enough to know the invariant; reachability itself: extend the operation list
  obtain ⟨ops, outs, h1, h2⟩ := h
  refine ⟨ops ++ [op], outs ++ [o], ?_, ?_⟩
  · have key : ∀ (l : List QCOp) (q0 : PQState) (a0 : ASpec) (os : List QOut),
        ASpec.crun a0 l (PQState.cflushTrace c q0 l) = some (a, os) → (PQState.crun c q0 l).1 = q →
        ASpec.crun a0 (l ++ [op]) (PQState.cflushTrace c q0 (l ++ [op])) = some (a', os ++ [o]) := by
      intro l
      induction l with
      | nil =>
        intro q0 a0 os e1 e2
        simp only [ASpec.crun, Option.some.injEq, Prod.mk.injEq] at e1
        simp only [PQState.crun] at e2
        obtain ⟨e1a, e1b⟩ := e1
        subst e1a e1b e2
        simp [ASpec.crun, PQState.cflushTrace, hs]
      | cons x xs ih =>
        intro q0 a0 os e1 e2
        simp only [List.cons_append, ASpec.crun, PQState.cflushTrace, List.headD_cons, List.tail_cons] at e1 ⊢
        cases hx : a0.cstep x (q0.cautoFlush c x) with
        | none => rw [hx] at e1; simp at e1
        | some r =>
          rw [hx] at e1
          simp only at e1 ⊢
          cases hr : ASpec.crun r.1 xs (PQState.cflushTrace c (q0.cstep c x).1 xs) with
          | none => rw [hr] at e1; simp at e1
          | some r2 =>
            rw [hr] at e1
            simp only [Option.some.injEq, Prod.mk.injEq] at e1
            have e2' : (PQState.crun c (q0.cstep c x).1 xs).1 = q := by simpa [PQState.crun] using e2
            have := ih (q0.cstep c x).1 r.1 r2.2 (by rw [hr, ← e1.1]) e2'
            rw [this]
            simp [← e1.2]
    exact key ops _ _ outs h1 h2
  · have key2 : ∀ (l : List QCOp) (q0 : PQState), (PQState.crun c q0 (l ++ [op])).1 =
        ((PQState.crun c q0 l).1.cstep c op).1 := by
      intro l
      induction l with
      | nil => intro q0; simp [PQState.crun]
      | cons x xs ih => intro q0; simp only [List.cons_append, PQState.crun]; exact ih _
    rw [key2, h2]

/-! ## durability -/

/-- a new read session in a related state (no session open, no event in progress) delivers exactly the
    flushed events that were not consumed, in order, byte-exact, each once -/
theorem queue_drain_from (c : QCfg) (hP : 64 ≤ c.P) (q : PQState) (a : ASpec) (hI : QInv c q a)
    (hin : a.inRead = false) (hl : a.left = 0) :
    (PQState.run c q (.rbegin :: drainOps ((a.events.take a.flushed).drop a.consumed))).2 =
      .ok :: drainOuts ((a.events.take a.flushed).drop a.consumed) := by
  obtain ⟨a', h'⟩ := spec_drain ((a.events.take a.flushed).drop a.consumed) { a with inRead := true }
    (PQState.flushTrace c q (.rbegin :: drainOps ((a.events.take a.flushed).drop a.consumed))).tail
    rfl hl hI.fle (fun e he => (hI.sz e he).1) rfl
  have hrun : ASpec.run a (.rbegin :: drainOps ((a.events.take a.flushed).drop a.consumed))
      (PQState.flushTrace c q (.rbegin :: drainOps ((a.events.take a.flushed).drop a.consumed))) =
      some (a', .ok :: drainOuts ((a.events.take a.flushed).drop a.consumed)) := by
    simp only [ASpec.run, ASpec.step, hin, Bool.false_eq_true, if_false]
    rw [h']
  exact (queue_refines_from c hP _ q a a' _ hI hrun).1

/-- the events `A … F - 1` of `evs`: the `j`-th of them is event number `A + j` -/
theorem durable_events_index (evs : List (List UInt8)) (F A : Nat) (hF : F ≤ evs.length) :
    ((evs.take F).drop A).length = F - A ∧
    ∀ j, j < F - A → ((evs.take F).drop A)[j]? = evs[A + j]? := by
  refine ⟨by rw [List.length_drop, List.length_take]; omega, fun j hj => ?_⟩
  rw [List.getElem?_drop, List.getElem?_take]
  simp only [show A + j < F by omega, if_true]

/-- **C06, durability.**  After ANY operation list with crash points (between and inside operations) that
    stays inside the contract, and a crash, a new read session on the recovered queue delivers exactly the
    events number `acked … flushed - 1` of the specification: every event of every flush that returned
    success (or committed) and is not acknowledged - none lost, in order, byte-exact, each once - then
    "no more events". -/
theorem queue_crash_durable (c : QCfg) (hP : 64 ≤ c.P) (q : PQState) (a : ASpec) (hR : QCReach c q a) :
    (PQState.run c (q.crash c) (.rbegin :: drainOps ((a.events.take a.flushed).drop a.acked))).2 =
      .ok :: drainOuts ((a.events.take a.flushed).drop a.acked) := by
  have hI := sim_crash c hP q a (hR.inv hP)
  have := queue_drain_from c hP (q.crash c) a.crash hI rfl rfl
  simpa [ASpec.crash, List.take_take] using this

/-- **No ACKed event again, no flushed event missing.**  The `j`-th event delivered after the recovery is event
    number `acked + j` (so never one of the events `0 … acked - 1`), and `flushed - acked` events are delivered. -/
theorem queue_crash_no_acked_again (c : QCfg) (hP : 64 ≤ c.P) (q : PQState) (a : ASpec) (hR : QCReach c q a) :
    ((a.events.take a.flushed).drop a.acked).length = a.flushed - a.acked ∧
    (∀ j, j < a.flushed - a.acked → ((a.events.take a.flushed).drop a.acked)[j]? = a.events[a.acked + j]?) ∧
    a.acked ≤ a.flushed ∧ a.flushed ≤ a.events.length := by
  have hI := hR.inv hP
  obtain ⟨h1, h2⟩ := durable_events_index a.events a.flushed a.acked hI.fle
  exact ⟨h1, h2, hI.h.le, hI.fle⟩

/-- draining after a crash inside an operation: what the recovered specification state holds -/
theorem queue_crashDuring_drain (c : QCfg) (hP : 64 ≤ c.P) (q : PQState) (a a' : ASpec) (o : QOut)
    (hR : QCReach c q a) (op : QOp) (b : Bool)
    (hs : a.cstep (.crashDuring op b) (q.cautoFlush c (.crashDuring op b)) = some (a', o)) :
    (PQState.run c (q.cstep c (.crashDuring op b)).1
        (.rbegin :: drainOps ((a'.events.take a'.flushed).drop a'.consumed))).2 =
      .ok :: drainOuts ((a'.events.take a'.flushed).drop a'.consumed) := by
  have hI := (queue_sim_cstep c hP q a a' o _ (hR.inv hP) hs).2
  have hcr : a'.inRead = false ∧ a'.left = 0 := by
    cases b with
    | false =>
      simp only [ASpec.cstep, Option.some.injEq, Prod.mk.injEq] at hs
      rw [← hs.1]; exact ⟨rfl, rfl⟩
    | true =>
      simp only [ASpec.cstep, Option.map_eq_some_iff, Prod.mk.injEq] at hs
      obtain ⟨r, _, he⟩ := hs
      rw [← he.1]; exact ⟨rfl, rfl⟩
  exact queue_drain_from c hP _ a' hI hcr.1 hcr.2

/-- **A flush is atomic under crashes.**  Crash while `Flush` is in progress: the recovered queue delivers the
    un-ACKed events up to the previous flush (`b = false`) or up to and including ALL events of this flush
    (`b = true`), nothing in between. -/
theorem queue_crash_flush_atomic (c : QCfg) (hP : 64 ≤ c.P) (q : PQState) (a : ASpec) (hR : QCReach c q a)
    (hin : a.inRead = false) (b : Bool) :
    (PQState.run c (q.cstep c (.crashDuring .flush b)).1
        (.rbegin :: drainOps ((a.events.take (if b then a.events.length else a.flushed)).drop a.acked))).2 =
      .ok :: drainOuts ((a.events.take (if b then a.events.length else a.flushed)).drop a.acked) := by
  cases b with
  | false =>
    have := queue_crashDuring_drain c hP q a a.crash .ok hR .flush false rfl
    simpa [ASpec.crash, List.take_take] using this
  | true =>
    have hs : a.cstep (.crashDuring .flush true) (q.cautoFlush c (.crashDuring .flush true)) =
        some (({ a with flushed := a.events.length } : ASpec).crash, .ok) := by
      simp [ASpec.cstep, ASpec.step, hin, ASpec.doFlush]
    have := queue_crashDuring_drain c hP q a _ .ok hR .flush true hs
    simpa [ASpec.crash, List.take_take] using this

/-- **An ACK is atomic under crashes.**  Crash while an accepted `ack n` is in progress: the recovered queue
    starts behind the events acknowledged before (`b = false`) or behind all `n` newly acknowledged events
    (`b = true`). -/
theorem queue_crash_ack_atomic (c : QCfg) (hP : 64 ≤ c.P) (q : PQState) (a : ASpec) (hR : QCReach c q a)
    (hin : a.inRead = false) (n : Nat) (hn : 0 < n) (hle : n ≤ a.flushed - a.acked)
    (hgiven : a.acked + n ≤ a.consumed + (if a.left = 0 then 0 else 1)) (b : Bool) :
    (PQState.run c (q.cstep c (.crashDuring (.ack n) b)).1
        (.rbegin :: drainOps ((a.events.take a.flushed).drop (if b then a.acked + n else a.acked)))).2 =
      .ok :: drainOuts ((a.events.take a.flushed).drop (if b then a.acked + n else a.acked)) := by
  cases b with
  | false =>
    have := queue_crashDuring_drain c hP q a a.crash .ok hR (.ack n) false rfl
    simpa [ASpec.crash, List.take_take] using this
  | true =>
    have hs : a.cstep (.crashDuring (.ack n) true) (q.cautoFlush c (.crashDuring (.ack n) true)) =
        some (({ a with acked := a.acked + n } : ASpec).crash, .ok) := by
      have h1 : n ≠ 0 := by omega
      have h2 : a.flushed ≠ 0 := by omega
      have h3 : ¬ n > a.flushed - a.acked := by omega
      have h4 : ¬ a.acked + n > a.consumed + (if a.left = 0 then 0 else 1) := by omega
      simp [ASpec.cstep, ASpec.step, hin, h1, h2, h3, h4]
    have := queue_crashDuring_drain c hP q a _ .ok hR (.ack n) true hs
    simpa [ASpec.crash, List.take_take] using this

/-- **The automatic flush of `Write` is atomic under crashes.**  Crash inside `Write(p)`: if the call flushed
    the buffer (`autoFlush`) and that transaction committed, all finished events are recovered; otherwise the
    events up to the previous flush.  The chunk `p` and the event it belongs to are lost in both cases. -/
theorem queue_crash_write_atomic (c : QCfg) (hP : 64 ≤ c.P) (q : PQState) (a : ASpec) (hR : QCReach c q a)
    (hin : a.inRead = false) (p : List UInt8) (b : Bool) :
    (PQState.run c (q.cstep c (.crashDuring (.write p) b)).1
        (.rbegin :: drainOps ((a.events.take (if b && q.autoFlush c (.write p) then a.events.length
          else a.flushed)).drop a.acked))).2 =
      .ok :: drainOuts ((a.events.take (if b && q.autoFlush c (.write p) then a.events.length
          else a.flushed)).drop a.acked) := by
  cases b with
  | false =>
    have := queue_crashDuring_drain c hP q a a.crash .ok hR (.write p) false rfl
    simpa [ASpec.crash, List.take_take] using this
  | true =>
    cases hfl : q.autoFlush c (.write p) with
    | true =>
      have hs : a.cstep (.crashDuring (.write p) true) (q.cautoFlush c (.crashDuring (.write p) true)) =
          some (({ a with flushed := a.events.length, cur := a.cur ++ p } : ASpec).crash, .ok) := by
        simp [ASpec.cstep, ASpec.step, hin, ASpec.doFlush, PQState.cautoFlush, QCOp.inner, hfl]
      have := queue_crashDuring_drain c hP q a _ .ok hR (.write p) true hs
      simpa [ASpec.crash, List.take_take] using this
    | false =>
      have hs : a.cstep (.crashDuring (.write p) true) (q.cautoFlush c (.crashDuring (.write p) true)) =
          some (({ a with cur := a.cur ++ p } : ASpec).crash, .ok) := by
        simp [ASpec.cstep, ASpec.step, hin, PQState.cautoFlush, QCOp.inner, hfl]
      have := queue_crashDuring_drain c hP q a _ .ok hR (.write p) true hs
      simpa [ASpec.crash, List.take_take] using this

/-- **The automatic flush of `Next` is atomic under crashes.**  Crash inside `Next` (event `cur` of
    `1 … 2^32 - 1` bytes): if the call flushed and that transaction committed, all finished events INCLUDING the
    one just finished are recovered; otherwise the events up to the previous flush (the event just finished
    was only in the buffer). -/
theorem queue_crash_next_atomic (c : QCfg) (hP : 64 ≤ c.P) (q : PQState) (a : ASpec) (hR : QCReach c q a)
    (hin : a.inRead = false) (hne : a.cur ≠ []) (hsz : a.cur.length < 2 ^ 32) (b : Bool) :
    (PQState.run c (q.cstep c (.crashDuring .next b)).1
        (.rbegin :: drainOps (((a.events ++ [a.cur]).take (if b && q.autoFlush c .next then a.events.length + 1
          else a.flushed)).drop a.acked))).2 =
      .ok :: drainOuts (((a.events ++ [a.cur]).take (if b && q.autoFlush c .next then a.events.length + 1
          else a.flushed)).drop a.acked) := by
  have hF := (hR.inv hP).fle
  have htk : (a.events ++ [a.cur]).take a.flushed = a.events.take a.flushed := List.take_append_of_le_length hF
  have hemp : a.cur.isEmpty = false := by cases h : a.cur with | nil => exact absurd h hne | cons _ _ => rfl
  have hbig : ¬ 2 ^ 32 ≤ a.cur.length := by omega
  cases b with
  | false =>
    have := queue_crashDuring_drain c hP q a a.crash .ok hR .next false rfl
    simp only [Bool.false_and, Bool.false_eq_true, if_false, htk]
    simpa [ASpec.crash, List.take_take] using this
  | true =>
    cases hfl : q.autoFlush c .next with
    | true =>
      have hs : a.cstep (.crashDuring .next true) (q.cautoFlush c (.crashDuring .next true)) =
          some (({ a with events := a.events ++ [a.cur], cur := [], flushed := (a.events ++ [a.cur]).length } : ASpec).crash, .ok) := by
        simp [ASpec.cstep, ASpec.step, hin, hemp, hbig, ASpec.doFlush, PQState.cautoFlush, QCOp.inner, hfl]
      have := queue_crashDuring_drain c hP q a _ .ok hR .next true hs
      simpa [ASpec.crash, List.take_take] using this
    | false =>
      have hs : a.cstep (.crashDuring .next true) (q.cautoFlush c (.crashDuring .next true)) =
          some (({ a with events := a.events ++ [a.cur], cur := [] } : ASpec).crash, .ok) := by
        simp [ASpec.cstep, ASpec.step, hin, hemp, hbig, PQState.cautoFlush, QCOp.inner, hfl]
      have := queue_crashDuring_drain c hP q a _ .ok hR .next true hs
      simp only [Bool.true_and, Bool.false_eq_true, if_false, htk]
      simpa [ASpec.crash, List.take_take, htk] using this

/-- the specification after `write e, next, flush` on a state without an event in progress, whatever the
    flush oracle says: one more event, everything flushed -/
theorem spec_write_next_flush (a0 : ASpec) (e : List UInt8) (fls : List Bool) (hin : a0.inRead = false)
    (hcur : a0.cur = []) (hne : e ≠ []) (hsz : e.length < 2 ^ 32) :
    ∃ outs, ASpec.run a0 [.write e, .next, .flush] fls =
      some ({ a0 with events := a0.events ++ [e], cur := [], flushed := a0.events.length + 1 }, outs) := by
  have hemp : e.isEmpty = false := by cases h : e with | nil => exact absurd h hne | cons _ _ => rfl
  have hbig : ¬ 2 ^ 32 ≤ e.length := by omega
  simp only [ASpec.run]
  generalize fls.headD false = b1
  generalize fls.tail.headD false = b2
  generalize fls.tail.tail.headD false = b3
  cases b1 <;> cases b2 <;> simp [ASpec.step, ASpec.doFlush, hin, hcur, hemp, hbig]

/-- **The writer continues after the recovery.**  An event written, finished and flushed after a crash gets the
    id `flushed` (the ids continue behind the recovered events: tail id and next event id are `flushed + 1`
    afterwards) and is delivered behind the recovered un-ACKed events, byte-exact. -/
theorem queue_crash_writer_continues (c : QCfg) (hP : 64 ≤ c.P) (q : PQState) (a : ASpec) (hR : QCReach c q a)
    (e : List UInt8) (hne : e ≠ []) (hsz : e.length < 2 ^ 32) :
    let q1 := (PQState.run c (q.crash c) [.write e, .next, .flush]).1
    q1.w.tailId = a.flushed + 1 ∧ q1.w.eventID = a.flushed + 1 ∧
    (PQState.run c q1 (.rbegin :: drainOps ((a.events.take a.flushed).drop a.acked ++ [e]))).2 =
      .ok :: drainOuts ((a.events.take a.flushed).drop a.acked ++ [e]) := by
  intro q1
  have hI := hR.inv hP
  have hI0 := sim_crash c hP q a hI
  have hF := hI.fle
  have hlen : (a.events.take a.flushed).length = a.flushed := by rw [List.length_take]; omega
  obtain ⟨outs, hrun⟩ := spec_write_next_flush a.crash e
    (PQState.flushTrace c (q.crash c) [.write e, .next, .flush]) rfl rfl hne hsz
  have hI1 := (queue_refines_from c hP _ (q.crash c) a.crash _ outs hI0 hrun).2
  change QInv c q1 _ at hI1
  have hd := queue_drain_from c hP q1 _ hI1 rfl rfl
  have hes : ((a.crash.events ++ [e]).take (a.crash.events.length + 1)).drop a.crash.consumed =
      (a.events.take a.flushed).drop a.acked ++ [e] := by
    simp only [ASpec.crash]
    have : ((a.events.take a.flushed) ++ [e]).take ((a.events.take a.flushed).length + 1) =
        a.events.take a.flushed ++ [e] := by
      rw [List.take_of_length_le (by simp)]
    rw [this, List.drop_append_of_le_length (by rw [hlen]; exact hI.h.le)]
  simp only at hd
  rw [hes] at hd
  refine ⟨?_, ?_, hd⟩
  · have := hI1.fl; simp only [ASpec.crash, hlen] at this; exact this
  · have := hI1.w.id_eq
    simp only [ASpec.crash, List.length_append, hlen, List.length_singleton, Nat.zero_add] at this
    exact this

/-! ## a concrete run with crashes (P = 64, buffer of 5 pages)

  Two events flushed, a third one only buffered: a crash loses the third.  The recovered reader delivers events
  0 and 1.  A crash during `ack 1` that did not commit: both events are delivered again (nothing was ACKed);
  a crash during `ack 1` that committed: one event pending.  A crash during a flush that did not commit loses
  the event of that flush, one that committed keeps it: it has id 2 (the lost events' ids are reused, the
  writer's next id is 3) and is delivered behind event 1.  This mirrors what the harness's crash enumeration
  (`pqrun.CrashCheck`) observes on the implementation: every crash image drains to the (acked, flushed) state
  before or after the transaction in progress. -/

def exCrashOps : List QCOp := [.op (.write (ev 3 1)), .op .next, .op (.write (ev 60 2)), .op .next, .op .flush,
  .op (.write (ev 5 3)), .op .next, .crash,
  .op .rbegin, .op .rnext, .op (.rread 3), .op .rnext, .op (.rread 100), .op .rnext, .op .rdone,
  .crashDuring (.ack 1) false, .op .rbegin, .op .available, .op .rnext, .op (.rread 3), .op .rdone,
  .crashDuring (.ack 1) true, .op .counters,
  .op (.write (ev 7 4)), .op .next, .crashDuring .flush false, .op .counters,
  .op (.write (ev 7 4)), .op .next, .crashDuring .flush true, .op .counters,
  .op .rbegin, .op .rnext, .op (.rread 100), .op .rnext, .op (.rread 100), .op .rnext, .op .rdone]

def exCrashOuts : List QOut := [.wrote none, .wrote none, .wrote none, .wrote none, .wrote (some 2),
  .wrote none, .wrote none, .ok,
  .ok, .size 3, .bytes (ev 3 1), .size 60, .bytes (ev 60 2), .size 0, .ok,
  .ok, .ok, .count 2, .size 3, .bytes (ev 3 1), .ok,
  .ok, .counters 1 1 2 1,
  .wrote none, .wrote none, .ok, .counters 1 1 2 1,
  .wrote none, .wrote none, .ok, .counters 2 2 3 1,
  .ok, .size 60, .bytes (ev 60 2), .size 7, .bytes (ev 7 4), .size 0, .ok]

set_option maxRecDepth 100000 in
/-- the run is inside the contract (hypothesis of `queue_refines_fifo_crash` and of `QCReach`), and, checked
    directly, the model produces these results; the writer's next event id after the last recovery is 3 -/
theorem queue_crash_example :
    (ASpec.crun {} exCrashOps (PQState.cflushTrace exCfg (PQState.init exCfg) exCrashOps)).map (·.2) =
      some exCrashOuts ∧
    (PQState.crun exCfg (PQState.init exCfg) exCrashOps).2 = exCrashOuts ∧
    (PQState.crun exCfg (PQState.init exCfg) exCrashOps).1.w.eventID = 3 ∧
    pageSummary (PQState.crun exCfg (PQState.init exCfg) exCrashOps).1.w.persisted =
      [(0, 1, 28, 36), (0, 0, 0, 36), (2, 2, 28, 36)] := by decide +kernel

/-- a reachable state (with crash points) of a non-empty queue -/
theorem queue_crash_reach_example : ∃ q a, QCReach exCfg q a ∧ q.totFlushed = 3 ∧ q.totAcked = 1 := by
  have h := queue_crash_example.1
  cases hr : ASpec.crun {} exCrashOps (PQState.cflushTrace exCfg (PQState.init exCfg) exCrashOps) with
  | none => rw [hr] at h; cases h
  | some r => exact ⟨_, r.1, ⟨exCrashOps, r.2, hr, rfl⟩, by decide +kernel, by decide +kernel⟩

end TxVerif
