/-
  C01 for the engine model, continued: WHICH pages the reach sets protect.

  `engReach` lists the owned pages with DEFINED content `dfn` (next to the mapping and free-list pages). A
  page the client allocated but never wrote has no defined content (the harness leaves such pages out of its
  reach sets as well: session.go `recordReach`, "never written: no defined content"); `engNext` computes `dfn`
  after a commit as the owned pages whose physical page holds, when the header is written, the hash of the
  content the model reads for them.  This file proves that `dfn` is as large as it should be:

    engine_dfn_complete   after a committing transaction every owned page that was defined before, and every
                          page the transaction wrote (dirty after the final flush: `TxnDirty`), is defined
    engine_dfn_written    … in particular every page for which the operation list contains a successful
                          write (the page is then still owned at the commit)
    engine_dfn_history    a defined page stays defined along any history as long as the client owns it
    engine_dfn_ofFile     in a committed state of the model taken as a file all owned pages are defined
    engine_crash_reads_state, engine_crash_reads_committed
                          the crash theorem for a given state of the history / for the pages a committing
                          transaction wrote: an image that recovers the state reads the content of the
                          abstract store of that commit
    engine_crash_position after `j` complete transactions and any part of the next one: recovery yields the
                          state after `j` transactions or - only if the next one commits - after `j + 1`
    engine_crash_end      after the whole trace: the last committed state
    engine_history_is_runHistoryO   the committed states are those of `runHistoryO` (C03/C04/C07 histories)
    examples              all pages of the example history are defined; a page allocated beyond the end of
                          a truncated file and never written is not
-/
import TxVerif.Proofs.EngineTraceG
import TxVerif.Props.C01Engine
namespace TxVerif

/-- **engine_dfn_complete** — after a committing transaction: every owned page that was a defined page of
    the state the transaction began in, and every owned page the transaction wrote (`TxnDirty`: it is dirty
    after the final flush), is a defined page of the new committed state, i.e. it is in the reach set with
    the hash of its content, and the file held that content when the header was written. -/
theorem engine_dfn_complete (e : EngCS) (ok : EngOk e) (t : TxnE) (hc : t.t.commits (e.f, e.live)) (id : Nat)
    (hid : id ∈ (engNext e t).live) (hcase : id ∈ e.dfn ∨ TxnDirty (e.f, e.live) t.t id) :
    id ∈ (engNext e t).dfn := engNext_dfn_complete ok t hc id hid hcase

/-- a page that is dirty at the commit is owned then -/
theorem txnDirty_owned (e : EngCS) (ok : EngOk e) (t : TxnE) (hc : t.t.commits (e.f, e.live)) (id : Nat)
    (hd : TxnDirty (e.f, e.live) t.t id) : id ∈ (engNext e t).live := by
  obtain ⟨f2, tx2, ws, p, hfl, hp, hdp⟩ := hd
  obtain ⟨f2', tx2', ws', hfl', hall, hok⟩ := hc
  rw [hfl] at hfl'
  simp only [Except.ok.injEq, Prod.mk.injEq] at hfl'
  obtain ⟨rfl, rfl, rfl⟩ := hfl'
  have hr := Ov.runinv_ops ok.inv t.t.ops _ (runInvO_start e.f e.live ok.inv t.t.overflow t.t.growPct t.t.walLimit)
  obtain ⟨h2, -⟩ := Ov.txinv_flushList ok.inv t.t.order _ _ hr.tx f2 tx2 ws hfl
  have ho := h2.pg id p hp
  have hcur : id ∈ (t.t.run (e.f, e.live)).cur := by
    apply ho.inCur
    cases hf : p.freed with
    | false => rfl
    | true => have := ho.freedClean hf; rw [hdp] at this; cases this
  rw [engNext_of_commits e t ⟨f2, tx2, ws, hfl, hall, hok⟩]
  show id ∈ (runTxnO (e.f, e.live) t.t).2
  rw [runTxnO_of_commits (e.f, e.live) t.t f2 tx2 ws hfl hall hok]
  exact hcur

/-- **engine_dfn_written** — if the operation list of a committing transaction contains a write of page `id`
    that succeeds (at a point where the client owns `id`), then `id` is an owned, defined page of the new
    committed state: whatever else the transaction does (flushes in any order, checkpoints, further
    writes), the reach set of the new state contains the physical page of `id` with the hash of its content. -/
theorem engine_dfn_written (e : EngCS) (ok : EngOk e) (t : TxnE) (hc : t.t.commits (e.f, e.live))
    (pre post : List EOp) (id : Nat) (mode : WMode) (st : Nat) (tx' : TxSt)
    (hops : t.t.ops = pre ++ [EOp.write id mode st] ++ post)
    (hid : id ∈ (runEOps (ERunSt.start e.f e.live t.t.overflow t.t.growPct t.t.walLimit) pre).cur)
    (hw : txWrite (runEOps (ERunSt.start e.f e.live t.t.overflow t.t.growPct t.t.walLimit) pre).f
      (runEOps (ERunSt.start e.f e.live t.t.overflow t.t.growPct t.t.walLimit) pre).tx id mode st = .ok tx') :
    id ∈ (engNext e t).live ∧ id ∈ (engNext e t).dfn ∧
    ((engNext e t).f.physOf id, ((engNext e t).f.readPage id).hash) ∈ engReach (engNext e t) := by
  obtain ⟨f2, tx2, ws, hfl, hall, hok⟩ := hc
  have hd := txnDirty_of_write (e.f, e.live) ok.inv t.t pre post id mode st tx' hops hid hw f2 tx2 ws hfl
  have hc : t.t.commits (e.f, e.live) := ⟨f2, tx2, ws, hfl, hall, hok⟩
  have hl := txnDirty_owned e ok t hc id hd
  have hdf := engNext_dfn_complete ok t hc id hl (Or.inr hd)
  exact ⟨hl, hdf, (engReach_mem _ _ _).mpr (Or.inl ⟨id, hdf, rfl, rfl⟩)⟩

/-- **engine_dfn_history** — a defined page stays a defined page along ANY history (commits, failed commits,
    rollbacks; flushes, checkpoints, overwrites of the page itself) as long as the client owns it -/
theorem engine_dfn_history (e : EngCS) (ok : EngOk e) (ts : List TxnE) (id : Nat) (hd : id ∈ e.dfn)
    (hl : ∀ k, k ≤ ts.length → id ∈ (engRun e (ts.take k)).live) : id ∈ (engRun e ts).dfn :=
  engRun_dfn_mono ts ok id hd hl

/-- in a committed state of the model taken as a file, every owned page is defined -/
theorem engine_dfn_ofFile (f : FileSt) (live : List Nat) (slot : Nat) : (EngCS.ofFile f live slot).dfn = live := rfl

/-- **engine_crash_reads_state** — the crash theorem for a chosen state of the history: stop the trace of the
    history anywhere, take any crash image; IF recovery yields the transaction id of the state `E` after the
    first `j` transactions, then every defined owned page of `E` is read from the image (at the physical page
    the mapping of `E` gives) with the content the model holds for it in `E`. -/
theorem engine_crash_reads_state (e0 : EngCS) (ok : EngOk e0) (ts : List TxnE) (k j : Nat) (hj : j ≤ ts.length) :
    ∃ ck, e0.cfg.run (histReach e0 ts) ((histTrace e0 ts).take k) = some ck ∧
      ∀ img, CrashImg ck.durable ck.pending img → recover img = some (engRun e0 (ts.take j)).f.txid →
        ∀ id ∈ (engRun e0 (ts.take j)).dfn,
          img.pages ((engRun e0 (ts.take j)).f.physOf id) = some ((engRun e0 (ts.take j)).f.readPage id).hash := by
  obtain ⟨cEnd, hacc, -, -⟩ := engine_history_accepted e0 ok ts
  obtain ⟨ck, hk, hcr⟩ := crash_recovers (histReach e0 ts) e0.cfg (engine_cfg_safe e0 ok ts) _ cEnd hacc k
  refine ⟨ck, hk, fun img hc hrec id hid => ?_⟩
  obtain ⟨st, h1, -, h3⟩ := hcr img hc
  rw [hrec] at h1
  cases h1
  apply h3
  rw [histReach_spec ok ts j hj]
  exact (engReach_mem _ _ _).mpr (Or.inl ⟨id, hid, rfl, rfl⟩)

/-- **engine_crash_reads_committed** — durability of a committed transaction, end to end: after any history
    `pre`, let `t` commit; stop the trace of `pre ++ [t] ++ post` anywhere and take any crash image. If
    recovery yields the state `t` committed, then every page `id` that `t` wrote (or that was defined before
    and is still owned) is read from the image - through the mapping of that state - with exactly the
    content `c` the abstract store of `t` held for it at the commit. -/
theorem engine_crash_reads_committed (e0 : EngCS) (ok : EngOk e0) (pre post : List TxnE) (t : TxnE)
    (hc : t.t.commits ((engRun e0 pre).f, (engRun e0 pre).live)) (k : Nat) :
    ∃ ck, e0.cfg.run (histReach e0 (pre ++ [t] ++ post)) ((histTrace e0 (pre ++ [t] ++ post)).take k) = some ck ∧
      ∀ img, CrashImg ck.durable ck.pending img → recover img = some (engRun e0 (pre ++ [t])).f.txid →
        ∀ id ∈ (engRun e0 (pre ++ [t])).live,
          (id ∈ (engRun e0 pre).dfn ∨ TxnDirty ((engRun e0 pre).f, (engRun e0 pre).live) t.t id) →
          ∀ c, (t.t.run ((engRun e0 pre).f, (engRun e0 pre).live)).σ id = some c →
            img.pages ((engRun e0 (pre ++ [t])).f.physOf id) = some c.hash := by
  have hlen : (pre ++ [t]).length ≤ (pre ++ [t] ++ post).length := by simp
  have htake : (pre ++ [t] ++ post).take (pre ++ [t]).length = pre ++ [t] := by
    rw [List.take_left']; rfl
  obtain ⟨ck, hk, hcr⟩ := engine_crash_reads_state e0 ok (pre ++ [t] ++ post) k (pre ++ [t]).length hlen
  rw [htake] at hcr
  refine ⟨ck, hk, fun img himg hrec id hid hcase c hσ => ?_⟩
  have okp := engOk_run ok pre
  rw [engRun_snoc] at hid hrec hcr ⊢
  have hdf := engNext_dfn_complete okp t hc id hid hcase
  rw [hcr img himg hrec id hdf]
  have := (engine_commit_publishes (engRun e0 pre) okp t hc).2 id hid c hσ
  rw [this]

/-- **engine_crash_position** — never an older state, with positions: let the first `j` transactions of the
    history run to their end and let the next transaction `ts[j]` issue any number `m` of its operations;
    crash there, keeping any subset of the un-synced operations. Then recovery yields the state after `j`
    transactions, or - only if `ts[j]` commits - the state after `j + 1`; in either case with the reach set
    of that state intact in the image. (States before the `j`-th are never recovered, nor a mixture.) -/
theorem engine_crash_position (e0 : EngCS) (ok : EngOk e0) (ts : List TxnE) (j : Nat) (hj : j < ts.length) (m : Nat) :
    ∃ ck, e0.cfg.run (histReach e0 ts)
        (histTrace e0 (ts.take j) ++ (engTrace (engRun e0 (ts.take j)) ts[j]).take m) = some ck ∧
      ∀ img, CrashImg ck.durable ck.pending img →
        (recover img = some (engRun e0 (ts.take j)).f.txid ∧
          ∀ p h, (p, h) ∈ engReach (engRun e0 (ts.take j)) → img.pages p = some h) ∨
        (ts[j].t.commits ((engRun e0 (ts.take j)).f, (engRun e0 (ts.take j)).live) ∧
          recover img = some (engRun e0 (ts.take (j + 1))).f.txid ∧
          ∀ p h, (p, h) ∈ engReach (engRun e0 (ts.take (j + 1))) → img.pages p = some h) := by
  obtain ⟨ck, hrun, hA, hB⟩ := et_position ok ts j hj m
  refine ⟨ck, hrun, fun img hc => ?_⟩
  have hsafe := safe_run (histReach e0 ts) _ e0.cfg ck (engine_cfg_safe e0 ok ts) hrun
  obtain ⟨st, h1, h2, h3⟩ := safe_crash (histReach e0 ts) ck hsafe img hc
  have hnext : st = (engRun e0 (ts.take (j + 1))).f.txid →
      ts[j].t.commits ((engRun e0 (ts.take j)).f, (engRun e0 (ts.take j)).live) →
      (ts[j].t.commits ((engRun e0 (ts.take j)).f, (engRun e0 (ts.take j)).live) ∧
          recover img = some (engRun e0 (ts.take (j + 1))).f.txid ∧
          ∀ p h, (p, h) ∈ engReach (engRun e0 (ts.take (j + 1))) → img.pages p = some h) := by
    intro e hcm
    subst e
    refine ⟨hcm, h1, fun p h hm => h3 p h ?_⟩
    rw [histReach_spec ok ts (j + 1) (by omega)]; exact hm
  rcases h2 with h2 | h2
  · rcases hA with hA | ⟨hA, hcm⟩
    · left
      have e : st = (engRun e0 (ts.take j)).f.txid := h2.trans hA
      subst e
      refine ⟨h1, fun p h hm => h3 p h ?_⟩
      rw [histReach_spec ok ts j (by omega)]; exact hm
    · right; exact hnext (h2.trans hA) hcm
  · obtain ⟨e, hcm⟩ := hB st h2
    right; exact hnext e hcm

/-- **engine_crash_end** — once the trace of the whole history is issued, every crash image recovers the
    last committed state of the history, with its reach set intact -/
theorem engine_crash_end (e0 : EngCS) (ok : EngOk e0) (ts : List TxnE) :
    ∃ ck, e0.cfg.run (histReach e0 ts) (histTrace e0 ts) = some ck ∧
      ∀ img, CrashImg ck.durable ck.pending img →
        recover img = some (engRun e0 ts).f.txid ∧
        ∀ p h, (p, h) ∈ engReach (engRun e0 ts) → img.pages p = some h := by
  obtain ⟨cEnd, hacc, rep, -⟩ := engine_history_accepted e0 ok ts
  refine ⟨cEnd, hacc, fun img hc => ?_⟩
  have hsafe := safe_run (histReach e0 ts) _ e0.cfg cEnd (engine_cfg_safe e0 ok ts) hacc
  obtain ⟨st, h1, h2, h3⟩ := safe_crash (histReach e0 ts) cEnd hsafe img hc
  have e : st = (engRun e0 ts).f.txid := by
    rcases h2 with h2 | h2
    · rw [h2, rep.st]
    · rw [rep.infl] at h2; cases h2
  subst e
  refine ⟨h1, fun p h hm => h3 p h ?_⟩
  have := histReach_spec ok ts ts.length (Nat.le_refl _)
  rw [List.take_length] at this
  rw [this]; exact hm

/-- the committed states of the history with ghost data are exactly those of `runHistoryO`
    (Props/C03History.lean), so all of C03 / C04 / C07 over histories applies to them -/
theorem engine_history_is_runHistoryO (e : EngCS) (ts : List TxnE) :
    ((engRun e ts).f, (engRun e ts).live) = runHistoryO (e.f, e.live) (ts.map (·.t)) := engRun_state ts e

/-! ## examples -/

/-- in the example history of Props/C01Engine.lean every owned page is defined in every committed state -/
example : (engRun c01E0 [c01T1]).dfn = [6, 7, 8] ∧ (engRun c01E0 [c01T1, c01T2]).dfn = [6, 7, 8] ∧
    (engRun c01E0 [c01T1, c01T2, c01T3]).dfn = [6, 7, 8] ∧ (engRun c01E0 [c01T1, c01T2, c01T3, c01T4]).dfn = [6, 7, 8] ∧
    (engRun c01E0 c01Ts).dfn = [6, 7] := by decide

/-- `TxnDirty` on the example: the second transaction wrote the pages 6 and 7, not page 8 -/
def txnDirtyB (s : FileSt × List Nat) (t : TxnO) (id : Nat) : Bool :=
  match flushList (t.run s).f (t.run s).tx t.order with
  | .ok (_, tx2, _) => match Assoc.get? tx2.pages id with | some p => p.dirty | none => false
  | .error _ => false

theorem txnDirty_iff (s : FileSt × List Nat) (t : TxnO) (id : Nat) : TxnDirty s t id ↔ txnDirtyB s t id = true := by
  unfold TxnDirty txnDirtyB
  cases h : flushList (t.run s).f (t.run s).tx t.order with
  | error e => simp
  | ok r =>
    obtain ⟨f2, tx2, ws⟩ := r
    simp only [Except.ok.injEq, Prod.mk.injEq]
    constructor
    · rintro ⟨f2', tx2', ws', p, ⟨rfl, rfl, rfl⟩, hp, hd⟩
      rw [hp]; exact hd
    · intro hb
      cases hp : Assoc.get? tx2.pages id with
      | none => rw [hp] at hb; cases hb
      | some p => rw [hp] at hb; exact ⟨f2, tx2, ws, p, ⟨rfl, rfl, rfl⟩, hp, hb⟩

example : TxnDirty ((engRun c01E0 [c01T1]).f, (engRun c01E0 [c01T1]).live) c01T2.t 6 ∧
    TxnDirty ((engRun c01E0 [c01T1]).f, (engRun c01E0 [c01T1]).live) c01T2.t 7 ∧
    ¬ TxnDirty ((engRun c01E0 [c01T1]).f, (engRun c01E0 [c01T1]).live) c01T2.t 8 := by
  simp only [txnDirty_iff]
  decide

/-- a page without defined content: after the third transaction truncated the file to 21 pages, a transaction
    allocates the pages 21 and 22 and writes only page 21; page 22 is owned, but it lies beyond the end of
    the file and was never written, so it is not a defined page (and not in the reach set); the trace of the
    history is accepted all the same -/
def c01TU : TxnE := { t := { ops := [.alloc 2, .write 21 .full 9], order := [21] } }

example : (engRun c01E0 [c01T1, c01T2, c01T3, c01TU]).live = [6, 7, 8, 21, 22] ∧
    (engRun c01E0 [c01T1, c01T2, c01T3, c01TU]).dfn = [6, 7, 8, 21] ∧
    (engRun c01E0 [c01T1, c01T2, c01T3, c01TU]).pages 22 = none ∧
    (c01E0.cfg.run (histReach c01E0 [c01T1, c01T2, c01T3, c01TU]) (histTrace c01E0 [c01T1, c01T2, c01T3, c01TU])).isSome
      = true := by decide

end TxVerif
