/-
  C11 — space is conserved.
  Page accounting of a bounded file without overflow area: every page below the data end
  marker is a header page, a free data page, a live page or a page of the meta area.
-/
import TxVerif.Proofs.Rollback
import TxVerif.Proofs.AllocFresh
import TxVerif.Model.Engine
namespace TxVerif

/-- `live` pages are in use by the committed state or the running transaction -/
def Accounted (a : Alloc) (live : Nat) : Prop :=
  a.data.endMarker = 2 + a.data.free.length + live + a.metaTotal

/-- **space_eq**: with the accounting invariant, on a bounded file whose data area lies within
    the limit: allocatable + live + meta + 2 header pages = configured maximum -/
theorem space_eq (a : Alloc) (live : Nat) (hmax : 0 < a.maxPages) (hend : a.data.endMarker ≤ a.maxPages)
    (h : Accounted a live) : a.dataAvail + live + a.metaTotal + 2 = a.maxPages := by
  unfold Accounted at h
  unfold Alloc.dataAvail
  have : ¬ a.maxPages = 0 := by omega
  simp only [this, if_false]
  split <;> omega

/-- allocation keeps the accounting: n more pages are live, n fewer are allocatable -/
theorem alloc_accounting (a : Alloc) (st : TxAlloc) (n live : Nat) (a' : Alloc) (st' : TxAlloc) (ids : List Nat)
    (h : dataAllocRegions a st n = some (a', st', ids)) (hacc : Accounted a live) : Accounted a' (live + n) := by
  obtain ⟨k, rest, hk, hkn, _, _, _, _, hfree, hend, _, _, _, _, _, hmt, _⟩ := dataAllocRegions_spec a st n a' st' ids h
  unfold Accounted at *
  rw [hend, hfree, hmt, List.length_drop]
  omega

theorem alloc_reduces_avail (a : Alloc) (st : TxAlloc) (n : Nat) (a' : Alloc) (st' : TxAlloc) (ids : List Nat)
    (hmax : 0 < a.maxPages) (hend : a.data.endMarker ≤ a.maxPages)
    (h : dataAllocRegions a st n = some (a', st', ids)) : a'.dataAvail + n = a.dataAvail := by
  obtain ⟨k, rest, hk, hkn, _, hlim, _, _, hfree, hend', _, _, hmp, _⟩ := dataAllocRegions_spec a st n a' st' ids h
  unfold Alloc.dataAvail
  have h1 : ¬ a.maxPages = 0 := by omega
  have h2 : ¬ a'.maxPages = 0 := by omega
  simp only [h1, if_false, hfree, hend', hmp, List.length_drop]
  rcases hlim with hl | hl | hl
  · omega
  · subst hl; split <;> split <;> omega
  · split <;> split <;> omega

/-- **free_returns**: committing a transaction that freed `k` live pages (and needed no meta
    pages) makes exactly `k` more pages allocatable: the freed pages join the free list -/
theorem free_returns (a : Alloc) (freed : List Nat) (live : Nat) (hn : freed.Nodup)
    (hd : ∀ x ∈ freed, x ∉ a.data.free) (hacc : Accounted a live) (hk : freed.length ≤ live) :
    Accounted (a.commit { updated := true, allocRegions := a.freelistPages, dataEnd := a.data.endMarker,
                          metaEnd := a.mta.endMarker, metaList := a.mta.free, dataList := unionIds freed a.data.free,
                          overflowFreed := 0 }) (live - freed.length) := by
  unfold Accounted at *
  simp only [Alloc.commit, Bool.not_true, Bool.false_eq_true, if_false, Nat.sub_zero]
  rw [length_unionIds_of_disjoint freed a.data.free hn hd]
  omega

/-- rollback keeps the accounting trivially: it restores the state (C07) -/
theorem rollback_accounting (a0 : Alloc) (hwf : allocWF a0 = true) (ov : Bool) (pct : Nat) (ops : List AOp) (live : Nat)
    (hacc : Accounted a0 live) :
    let s := runAOps (a0, a0.beginTx ov pct) ops
    Accounted (s.1.rollback s.2) live := by
  simp only [rollback_restores a0 hwf ov pct ops]; exact hacc

/-- **extent_bounded**: a bounded file never hands out (hence never writes) a page beyond its limit -/
theorem extent_bounded (a : Alloc) (st : TxAlloc) (n : Nat) (a' : Alloc) (st' : TxAlloc) (ids : List Nat)
    (hmax : 0 < a.maxPages) (hfree : ∀ x ∈ a.data.free, x < a.maxPages) (hend : a.data.endMarker ≤ a.maxPages)
    (h : dataAllocRegions a st n = some (a', st', ids)) : (∀ x ∈ ids, x < a.maxPages) ∧ a'.data.endMarker ≤ a.maxPages :=
  alloc_within_limit a st n a' st' ids hmax hfree hend h

/-- moving pages from the data area into the meta area keeps the accounting -/
theorem transfer_accounting (a : Alloc) (st : TxAlloc) (ids : List Nat) (live : Nat) (hacc : Accounted a (live + ids.length)) :
    Accounted (transferToMeta a st ids).1 live := by
  unfold Accounted at *
  simp only [transferToMeta]
  omega

example : Accounted (FileSt.create 1024 64 4).alloc 0 := by unfold Accounted; decide
example : Accounted { maxPages := 40, pageSize := 1024, data := { endMarker := 30, free := [3, 4, 5, 9, 10, 20, 29] },
                      mta := { endMarker := 30, free := [6, 7, 15] }, metaTotal := 5, freelistPages := [8] } 16 := by
  unfold Accounted; decide

end TxVerif
