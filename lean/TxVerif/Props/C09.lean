/-
  C09 — transaction locking is safe and live (lock.go + the protocol of
  file.go/tx.go), for any number of reader, writer and closer threads.
  Also the lock facts C02 needs (`switch_only_without_readers`).
  Statements only; helper lemmas are in Proofs/Lock.lean.
-/
import TxVerif.Proofs.Lock
namespace TxVerif

/-- at most one write transaction is active at any time -/
theorem one_writer (s : Sys) (h : s.Reach) : s.pcs.countP Pc.isWriter ≤ 1 := by
  have hi := lockInv_reach s h
  have := isWriter_le_isHolder s.pcs
  have h2 := hi.reserved
  unfold b2n at h2
  split at h2 <;> omega

/-- the shared counter is exactly the number of open read transactions -/
theorem shared_count_exact (s : Sys) (h : s.Reach) : s.lock.shared = s.pcs.countP Pc.isReader :=
  (lockInv_reach s h).shared

theorem countP_zero_of_quiet (pcs : List Pc) (hq : ∀ pc ∈ pcs, pc.quiet = true) (p : Pc → Bool)
    (hp : ∀ pc, pc.quiet = true → p pc = false) : pcs.countP p = 0 := by
  induction pcs with
  | nil => rfl
  | cons pc pcs ih =>
    rw [List.countP_cons, ih (fun q hq' => hq q (by simp [hq']))]
    simp [hp pc (hq pc (by simp))]

/-- every way a transaction or Close can end releases what it acquired: with no
    transaction open the lock is idle (so Begin, BeginReadonly, Close do not block) -/
theorem idle_when_quiescent (s : Sys) (h : s.Reach) (hq : ∀ pc ∈ s.pcs, pc.quiet = true) :
    s.lock = { shared := 0, pending := false, reserved := false } := by
  have hi := lockInv_reach s h
  have e1 := countP_zero_of_quiet s.pcs hq Pc.isReader (by intro pc; cases pc <;> simp [Pc.quiet, Pc.isReader])
  have e2 := countP_zero_of_quiet s.pcs hq Pc.isHolder (by intro pc; cases pc <;> simp [Pc.quiet, Pc.isHolder])
  have e3 := countP_zero_of_quiet s.pcs hq Pc.isPend (by intro pc; cases pc <;> simp [Pc.quiet, Pc.isPend])
  obtain ⟨h1, h2, h3, _⟩ := hi
  obtain ⟨l, pcs⟩ := s
  obtain ⟨sh, pe, re⟩ := l
  dsimp only at *
  rw [e1] at h1
  rw [e2] at h2
  rw [e3] at h3
  subst h1
  cases pe <;> cases re <;> simp [b2n] at h2 h3 ⊢

/-- C02: the step that switches to the new meta page / mapping (`wFinish`, taken
    from `wExcl`) only happens with the pending flag set and no reader open -/
theorem switch_only_without_readers (s : Sys) (h : s.Reach) (i : Nat) (hi : s.pcs[i]? = some .wExcl) :
    s.lock.shared = 0 ∧ s.lock.pending = true ∧ s.lock.reserved = true := by
  have inv := lockInv_reach s h
  have hmem : Pc.wExcl ∈ s.pcs := List.mem_of_getElem? hi
  have hpos : 0 < s.pcs.countP Pc.isExcl := List.countP_pos_iff.mpr ⟨_, hmem, rfl⟩
  have m1 := isExcl_le_isPend s.pcs
  have m2 := isPend_le_isHolder s.pcs
  obtain ⟨h1, h2, h3, h4⟩ := inv
  refine ⟨h4 hpos, ?_, ?_⟩
  · unfold b2n at h3; split at h3 <;> simp_all <;> omega
  · unfold b2n at h2; split at h2 <;> simp_all <;> omega

/-- while a reader is open no switch can happen: readers and the switching
    state exclude each other -/
theorem reader_excludes_switch (s : Sys) (h : s.Reach) (i j : Nat)
    (hi : s.pcs[i]? = some .rActive) : s.pcs[j]? ≠ some .wExcl := by
  intro hj
  have h0 := (switch_only_without_readers s h j hj).1
  have hmem : Pc.rActive ∈ s.pcs := List.mem_of_getElem? hi
  have hpos : 0 < s.pcs.countP Pc.isReader := List.countP_pos_iff.mpr ⟨_, hmem, rfl⟩
  have := shared_count_exact s h
  omega

theorem step_of_mem (s : Sys) (pc : Pc) (hm : pc ∈ s.pcs) (a : Act) (r : Pc × LockSt)
    (hf : a.fire s.lock pc = some r) : ∃ t, s.Step t := by
  obtain ⟨i, hi⟩ := List.getElem?_of_mem hm
  exact ⟨{ lock := r.2, pcs := s.pcs.set i r.1 }, i, a, by simp [Sys.step, hi, hf]⟩

theorem no_member_of_countP_zero (pcs : List Pc) (p : Pc → Bool) (h : pcs.countP p = 0) :
    ∀ pc ∈ pcs, p pc = false := by
  intro pc hm
  cases hp : p pc with
  | false => rfl
  | true =>
    have : 0 < pcs.countP p := List.countP_pos_iff.mpr ⟨pc, hm, hp⟩
    omega

/-- no deadlock: as long as some thread has not finished, some step is enabled -/
theorem no_deadlock (s : Sys) (h : s.Reach) (hn : ∃ pc ∈ s.pcs, pc.finished = false) : ∃ t, s.Step t := by
  have inv := lockInv_reach s h
  by_cases hr : Pc.rActive ∈ s.pcs
  · exact step_of_mem s _ hr .rClose _ rfl
  have hsh : s.lock.shared = 0 := by
    rw [inv.shared]
    apply List.countP_eq_zero.mpr
    intro pc hm
    cases pc <;> simp_all [Pc.isReader]
  by_cases h1 : Pc.wExcl ∈ s.pcs
  · exact step_of_mem s _ h1 .wFinish _ rfl
  by_cases h2 : Pc.cExcl ∈ s.pcs
  · exact step_of_mem s _ h2 .cFinish _ rfl
  by_cases h3 : Pc.wPending ∈ s.pcs
  · exact step_of_mem s _ h3 .wExclusive (.wExcl, s.lock) (by simp [Act.fire, hsh])
  by_cases h4 : Pc.cPending ∈ s.pcs
  · exact step_of_mem s _ h4 .cExclusive (.cExcl, s.lock) (by simp [Act.fire, hsh])
  by_cases h5 : Pc.wActive ∈ s.pcs
  · exact step_of_mem s _ h5 .wAbort _ rfl
  -- nobody holds anything: the lock is idle and every idle thread may begin
  have hq : ∀ pc ∈ s.pcs, pc.quiet = true := by
    intro pc hm
    cases pc <;> simp_all [Pc.quiet]
  have hl := idle_when_quiescent s h hq
  obtain ⟨pc, hm, hf⟩ := hn
  have hq' := hq pc hm
  cases pc <;> simp [Pc.finished, Pc.quiet] at hf hq'
  · exact step_of_mem s _ hm .rBegin (.rActive, { s.lock with shared := s.lock.shared + 1 }) (by simp [Act.fire, hl])
  · exact step_of_mem s _ hm .wBegin (.wActive, { s.lock with reserved := true }) (by simp [Act.fire, hl])
  · exact step_of_mem s _ hm .cBegin (.cPending, { s.lock with reserved := true, pending := true }) (by simp [Act.fire, hl])

/-- progress of the current holders: if some transaction (or Close) is in
    flight, one of the threads already in flight can take a step — nobody
    waits for a thread that has not begun -/
theorem holders_progress (s : Sys) (h : s.Reach) (hn : ∃ pc ∈ s.pcs, pc.quiet = false) :
    ∃ i a t pc, s.pcs[i]? = some pc ∧ pc.quiet = false ∧ s.step i a = some t := by
  have inv := lockInv_reach s h
  have mk : ∀ (pc : Pc) (a : Act) (r : Pc × LockSt), pc ∈ s.pcs → pc.quiet = false → a.fire s.lock pc = some r →
      ∃ i a t pc, s.pcs[i]? = some pc ∧ pc.quiet = false ∧ s.step i a = some t := by
    intro pc a r hm hq hf
    obtain ⟨i, hi⟩ := List.getElem?_of_mem hm
    exact ⟨i, a, { lock := r.2, pcs := s.pcs.set i r.1 }, pc, hi, hq, by simp [Sys.step, hi, hf]⟩
  by_cases hr : Pc.rActive ∈ s.pcs
  · exact mk _ .rClose _ hr rfl rfl
  have hsh : s.lock.shared = 0 := by
    rw [inv.shared]
    apply List.countP_eq_zero.mpr
    intro pc hm
    cases pc <;> simp_all [Pc.isReader]
  by_cases h1 : Pc.wExcl ∈ s.pcs
  · exact mk _ .wFinish _ h1 rfl rfl
  by_cases h2 : Pc.cExcl ∈ s.pcs
  · exact mk _ .cFinish _ h2 rfl rfl
  by_cases h3 : Pc.wPending ∈ s.pcs
  · exact mk _ .wExclusive (.wExcl, s.lock) h3 rfl (by simp [Act.fire, hsh])
  by_cases h4 : Pc.cPending ∈ s.pcs
  · exact mk _ .cExclusive (.cExcl, s.lock) h4 rfl (by simp [Act.fire, hsh])
  by_cases h5 : Pc.wActive ∈ s.pcs
  · exact mk _ .wAbort _ h5 rfl rfl
  obtain ⟨pc, hm, hq⟩ := hn
  cases pc <;> simp_all [Pc.quiet]

/-- non-vacuity: a concrete reachable state with a committing writer waiting for a reader -/
example : (Sys.mk { shared := 1, pending := true, reserved := true } [.rActive, .wPending, .rIdle]).Reach := by
  have h0 : (Sys.mk {} [.rIdle, .wIdle, .rIdle]).Reach := Sys.Reach.init _ (by simp)
  have h1 := Sys.Reach.step h0 (t := Sys.mk { shared := 1 } [.rActive, .wIdle, .rIdle]) ⟨0, .rBegin, by decide⟩
  have h2 := Sys.Reach.step h1 (t := Sys.mk { shared := 1, reserved := true } [.rActive, .wActive, .rIdle]) ⟨1, .wBegin, by decide⟩
  exact Sys.Reach.step h2 ⟨1, .wCommitStart, by decide⟩

end TxVerif
