/-
  C12 (queue reclaims space …), ACK planning part: `collectFreePages` (Model/PQAck.lean) on the
  chains the writer produces (`layout`, Model/PQLayout.lean).
-/
import TxVerif.Model.PQAck
import TxVerif.Props.C05Layout
namespace TxVerif

/-! ## the walk, on arbitrary chains -/

theorem ackWalk_keep (p : QPage) (ps : List QPage) (endID l : Nat) (h0 : p.off ≠ 0)
    (h : ps = [] ∨ endID ≤ p.last + 1) : ackWalk (p :: ps) endID l = ⟨0, false, true⟩ := by
  rw [ackWalk]
  rcases h with h | h
  · subst h; simp [h0]
  · have : ¬ (p.last + 1 < endID) := by omega
    simp [h0, this]

theorem ackWalk_clean (p : QPage) (endID l : Nat) (h0 : p.off = 0) :
    ackWalk [p] endID l = ⟨0, true, decide (l + 1 = endID)⟩ := by
  rw [ackWalk]
  simp [h0]

theorem ackWalk_free_hdr (p : QPage) (ps : List QPage) (endID l : Nat) (h0 : p.off ≠ 0)
    (hps : ps ≠ []) (hle : ¬ endID ≤ p.last + 1) :
    ackWalk (p :: ps) endID l = { ackWalk ps endID (p.last + 1) with freed := (ackWalk ps endID (p.last + 1)).freed + 1 } := by
  rw [ackWalk]
  simp [h0, hps, hle]

theorem ackWalk_free_data (p : QPage) (ps : List QPage) (endID l : Nat) (h0 : p.off = 0)
    (hps : ps ≠ []) :
    ackWalk (p :: ps) endID l = { ackWalk ps endID l with freed := (ackWalk ps endID l).freed + 1 } := by
  rw [ackWalk]
  simp [h0, hps]

/-- case analysis of one step of the walk -/
theorem ackWalk_cases (p : QPage) (ps : List QPage) (endID l : Nat) :
    (p.off ≠ 0 ∧ (ps = [] ∨ endID ≤ p.last + 1) ∧ ackWalk (p :: ps) endID l = ⟨0, false, true⟩) ∨
    (p.off = 0 ∧ ps = [] ∧ ackWalk (p :: ps) endID l = ⟨0, true, decide (l + 1 = endID)⟩) ∨
    (p.off ≠ 0 ∧ ps ≠ [] ∧ p.last + 1 < endID ∧
      ackWalk (p :: ps) endID l =
        { ackWalk ps endID (p.last + 1) with freed := (ackWalk ps endID (p.last + 1)).freed + 1 }) ∨
    (p.off = 0 ∧ ps ≠ [] ∧
      ackWalk (p :: ps) endID l = { ackWalk ps endID l with freed := (ackWalk ps endID l).freed + 1 }) := by
  by_cases h0 : p.off = 0
  · by_cases hps : ps = []
    · subst hps; exact Or.inr (Or.inl ⟨h0, rfl, ackWalk_clean p endID l h0⟩)
    · exact Or.inr (Or.inr (Or.inr ⟨h0, hps, ackWalk_free_data p ps endID l h0 hps⟩))
  · by_cases hps : ps = []
    · exact Or.inl ⟨h0, Or.inl hps, ackWalk_keep p ps endID l h0 (Or.inl hps)⟩
    · by_cases hle : endID ≤ p.last + 1
      · exact Or.inl ⟨h0, Or.inr hle, ackWalk_keep p ps endID l h0 (Or.inr hle)⟩
      · exact Or.inr (Or.inr (Or.inl ⟨h0, hps, by omega, ackWalk_free_hdr p ps endID l h0 hps hle⟩))

/-- the walk never collects the last page of the chain -/
theorem ackWalk_keeps_last : ∀ (pages : List QPage) (endID l : Nat), pages ≠ [] →
    (ackWalk pages endID l).freed < pages.length := by
  intro pages
  induction pages with
  | nil => intro _ _ h; exact absurd rfl h
  | cons p ps ih =>
    intro endID l _
    rcases ackWalk_cases p ps endID l with ⟨_, _, e⟩ | ⟨_, _, e⟩ | ⟨_, hps, _, e⟩ | ⟨_, hps, e⟩
    · rw [e]; simp
    · rw [e]; simp
    · rw [e]; have := ih endID (p.last + 1) hps; simp; omega
    · rw [e]; have := ih endID l hps; simp; omega

/-- a collected page with event headers holds acknowledged events only, and not the last of them -/
theorem ackWalk_freed_acked : ∀ (pages : List QPage) (endID l k : Nat) (q : QPage),
    k < (ackWalk pages endID l).freed → pages[k]? = some q → q.off ≠ 0 → q.last + 1 < endID := by
  intro pages
  induction pages with
  | nil => intro endID l k q hk; simp [ackWalk] at hk
  | cons p ps ih =>
    intro endID l k q hk hq hoff
    rcases ackWalk_cases p ps endID l with ⟨_, _, e⟩ | ⟨_, _, e⟩ | ⟨h0, hps, hlt, e⟩ | ⟨h0, hps, e⟩
    · rw [e] at hk; simp at hk
    · rw [e] at hk; simp at hk
    · rw [e] at hk
      cases k with
      | zero => simp at hq; subst hq; exact hlt
      | succ k => exact ih endID _ k q (by simpa using hk) (by simpa using hq) hoff
    · rw [e] at hk
      cases k with
      | zero => simp at hq; subst hq; exact absurd h0 hoff
      | succ k => exact ih endID _ k q (by simpa using hk) (by simpa using hq) hoff

/-- without `cleanAll` the walk stops at a page with event headers -/
theorem ackWalk_kept_hdr : ∀ (pages : List QPage) (endID l : Nat), pages ≠ [] →
    (ackWalk pages endID l).cleanAll = false →
    ∃ K, pages[(ackWalk pages endID l).freed]? = some K ∧ K.off ≠ 0 := by
  intro pages
  induction pages with
  | nil => intro _ _ h; exact absurd rfl h
  | cons p ps ih =>
    intro endID l _ hc
    rcases ackWalk_cases p ps endID l with ⟨h0, _, e⟩ | ⟨_, _, e⟩ | ⟨_, hps, _, e⟩ | ⟨_, hps, e⟩
    · rw [e]; exact ⟨p, rfl, h0⟩
    · rw [e] at hc; simp at hc
    · rw [e] at hc ⊢
      obtain ⟨K, h1, h2⟩ := ih endID _ hps hc
      exact ⟨K, by simpa using h1, h2⟩
    · rw [e] at hc ⊢
      obtain ⟨K, h1, h2⟩ := ih endID _ hps hc
      exact ⟨K, by simpa using h1, h2⟩

/-- on a chain with consecutive id ranges `a … b-1` (`IdRanges`) and `endID ≤ b` the walk never
    reaches the `cleanAll` branch -/
theorem ackWalk_no_cleanAll : ∀ (pages : List QPage) (a b endID l : Nat),
    IdRanges a pages b → a < b → endID ≤ b → (ackWalk pages endID l).cleanAll = false := by
  intro pages
  induction pages with
  | nil => intro a b endID l _ _ _; rfl
  | cons p ps ih =>
    intro a b endID l hr hab he
    simp only [IdRanges] at hr
    rcases ackWalk_cases p ps endID l with ⟨_, _, e⟩ | ⟨h0, hps, e⟩ | ⟨h0, hps, hlt, e⟩ | ⟨h0, hps, e⟩
    · rw [e]
    · subst hps
      rw [if_pos h0] at hr
      simp only [IdRanges] at hr
      omega
    · rw [e]
      rw [if_neg h0] at hr
      exact ih (p.last + 1) b endID _ hr.2.2 (by omega) he
    · rw [e]
      rw [if_pos h0] at hr
      exact ih a b endID _ hr hab he

/-- the kept page starts with an event that is acknowledged or the first one that stays -/
theorem ackWalk_kept_first : ∀ (pages : List QPage) (a b endID l : Nat) (K : QPage),
    IdRanges a pages b → a ≤ endID →
    pages[(ackWalk pages endID l).freed]? = some K → K.off ≠ 0 →
    a ≤ K.first ∧ K.first ≤ endID := by
  intro pages
  induction pages with
  | nil => intro a b endID l K _ _ h; simp at h
  | cons p ps ih =>
    intro a b endID l K hr ha hK hoff
    simp only [IdRanges] at hr
    rcases ackWalk_cases p ps endID l with ⟨h0, _, e⟩ | ⟨h0, _, e⟩ | ⟨h0, hps, hlt, e⟩ | ⟨h0, hps, e⟩
    · rw [e] at hK; simp at hK; subst hK
      rw [if_neg h0] at hr
      omega
    · rw [e] at hK; simp at hK; subst hK
      exact absurd h0 hoff
    · rw [e] at hK
      rw [if_neg h0] at hr
      have := ih (p.last + 1) b endID _ K hr.2.2 (by omega) (by simpa using hK) hoff
      omega
    · rw [e] at hK
      rw [if_pos h0] at hr
      exact ih a b endID _ K hr ha (by simpa using hK) hoff

/-- the kept page holds the header of the last acknowledged event -/
theorem ackWalk_kept_last : ∀ (pages : List QPage) (a b endID l : Nat) (K : QPage),
    IdRanges a pages b → endID ≤ b →
    pages[(ackWalk pages endID l).freed]? = some K → K.off ≠ 0 → endID ≤ K.last + 1 := by
  intro pages
  induction pages with
  | nil => intro a b endID l K _ _ h; simp at h
  | cons p ps ih =>
    intro a b endID l K hr hb hK hoff
    simp only [IdRanges] at hr
    rcases ackWalk_cases p ps endID l with ⟨h0, hk, e⟩ | ⟨h0, _, e⟩ | ⟨h0, hps, hlt, e⟩ | ⟨h0, hps, e⟩
    · rw [e] at hK; simp at hK; subst hK
      rw [if_neg h0] at hr
      rcases hk with hk | hk
      · subst hk
        simp only [IdRanges] at hr
        omega
      · exact hk
    · rw [e] at hK; simp at hK; subst hK
      exact absurd h0 hoff
    · rw [e] at hK
      rw [if_neg h0] at hr
      exact ih (p.last + 1) b endID _ K hr.2.2 hb (by simpa using hK) hoff
    · rw [e] at hK
      rw [if_pos h0] at hr
      exact ih a b endID _ K hr hb (by simpa using hK) hoff

/-! ## the chain from a page with event headers on is itself a chain the writer produces -/

/-- Entering the chain at page `k` with `off ≠ 0`: the rest of the chain is what the writer lays
    out for the events `p.first, …` continuing on a page `c` without event header that is filled up
    to offset `p.off`. -/
theorem entry_struct (S : Nat) (h4 : 4 ≤ S) :
    ∀ (evs : List (List UInt8)) (cur : QPage) (id : Nat), WInv S cur id →
      ∀ (k : Nat) (p : QPage), (layoutFrom S cur id evs)[k]? = some p → p.off ≠ 0 →
        (k = 0 → cur.off = 0) →
        ∃ c : QPage, WInv S c p.first ∧ c.off = 0 ∧ 28 + c.payload.length = p.off ∧ c.payload.length + 4 ≤ S ∧
          id ≤ p.first ∧ p.first - id < evs.length ∧
          (layoutFrom S cur id evs).drop k = layoutFrom S c p.first (evs.drop (p.first - id)) := by
  intro evs
  induction evs with
  | nil =>
    intro cur id _ k p h hoff hk
    rw [layoutFrom_nil] at h
    cases k with
    | zero => simp at h; subst h; exact absurd (hk rfl) hoff
    | succ k => simp at h
  | cons e es ih =>
    intro cur id hinv k p h hoff hk
    have hinv' := (writeEvent_ids S h4 cur id e hinv).1
    obtain ⟨hd, tl, e1, hx⟩ := layoutFrom_head S es (writeEvent S cur id e).2 (id + 1)
    have caseA : ∀ p' : QPage, ((writeEvent S cur id e).1 ++ [(writeEvent S cur id e).2])[k]? = some p' →
        p'.off = p.off → p'.first = p.first →
        ∃ c : QPage, WInv S c p.first ∧ c.off = 0 ∧ 28 + c.payload.length = p.off ∧ c.payload.length + 4 ≤ S ∧
          id ≤ p.first ∧ p.first - id < (e :: es).length ∧
          (layoutFrom S cur id (e :: es)).drop k = layoutFrom S c p.first ((e :: es).drop (p.first - id)) := by
      intro p' hp' ho hf
      obtain ⟨w1, w2⟩ := writeEvent_offs S cur id e k p' hp' (by rw [ho]; exact hoff) hk
      have hfirst : p.first = id := by rw [← hf]; exact w1
      have e0 : p.first - id = 0 := by omega
      rcases w2 with ⟨hp, hk1, ho'⟩ | ⟨hp, hk0, ho'⟩
      · subst hk1
        refine ⟨QPage.fresh, WInv_fresh _ _, rfl, by rw [← ho, ho']; rfl, by simp; omega, by omega, by simp; omega, ?_⟩
        rw [e0, List.drop_zero, hfirst, layoutFrom_cons, layoutFrom_cons, writeEvent_pad S cur id e hp,
          writeEvent_nopad S QPage.fresh id e (by simp; omega)]
        rfl
      · subst hk0
        refine ⟨cur, by rw [hfirst]; exact hinv, hk rfl, by rw [← ho, ho'], by omega, by omega, by simp; omega, ?_⟩
        rw [e0, List.drop_zero, List.drop_zero, hfirst]
    rw [layoutFrom_cons] at h
    by_cases hlt : k < (writeEvent S cur id e).1.length
    · rw [List.getElem?_append_left hlt] at h
      exact caseA p (by rw [List.getElem?_append_left hlt]; exact h) rfl rfl
    · have hle : (writeEvent S cur id e).1.length ≤ k := by omega
      rw [List.getElem?_append_right hle] at h
      by_cases hA : k = (writeEvent S cur id e).1.length ∧ (writeEvent S cur id e).2.off ≠ 0
      · obtain ⟨hk', hc3⟩ := hA
        have hp : p = hd := by
          rw [e1, hk', Nat.sub_self] at h
          simpa using h.symm
        have hxe := hx.2 hc3
        refine caseA (writeEvent S cur id e).2 ?_ (by rw [hp, hxe.1]) (by rw [hp, hxe.2])
        rw [List.getElem?_append_right hle, hk', Nat.sub_self]
        rfl
      · have hk'' : k - (writeEvent S cur id e).1.length = 0 → (writeEvent S cur id e).2.off = 0 := by
          intro hz
          have : k = (writeEvent S cur id e).1.length := by omega
          exact Decidable.byContradiction fun hne => hA ⟨this, hne⟩
        obtain ⟨c, c0, c1, c2, c3, i1, i2, i3⟩ := ih (writeEvent S cur id e).2 (id + 1) hinv' _ p h hoff hk''
        refine ⟨c, c0, c1, c2, c3, by omega, by simp; omega, ?_⟩
        rw [layoutFrom_cons, List.drop_append, List.drop_eq_nil_of_le hle, List.nil_append]
        have e3 : p.first - id = (p.first - (id + 1)) + 1 := by omega
        rw [e3, List.drop_succ_cons]
        exact i3

/-! ## ACK planning on chains the writer produces

  `Chain S c id` : the chain is `layoutFrom S c id evs` for a page `c` without event header in
  which the next header fits.  The chain of a fresh queue (`layout`) and the chain that is left
  behind an ACK are of this form, so the statements apply to every ACK in a sequence of ACKs. -/

def Chain (S : Nat) (c : QPage) (id : Nat) : Prop :=
  WInv S c id ∧ c.off = 0 ∧ c.payload.length + 4 ≤ S

theorem Chain_fresh (S : Nat) (h4 : 4 ≤ S) (id : Nat) : Chain S QPage.fresh id :=
  ⟨WInv_fresh S id, rfl, by simpa using h4⟩

theorem layout_eq_layoutFrom (P id0 : Nat) (evs : List (List UInt8)) (hne : evs ≠ []) :
    layout P id0 evs = layoutFrom (P - 28) QPage.fresh id0 evs := by
  cases evs with
  | nil => exact absurd rfl hne
  | cons e es => simp [layout, pqHdr]

/-- everything the planning walk guarantees, on a chain `layoutFrom S c id evs` -/
theorem ackPlan_chain (P S : Nat) (hS : S + 28 = P) (h4 : 4 ≤ S) (c : QPage) (id : Nat)
    (evs : List (List UInt8)) (hc : Chain S c id) (hne : evs ≠ []) (hsz : ∀ e ∈ evs, e.length < 2 ^ 32)
    (endID : Nat) (h1 : id ≤ endID) (h2 : endID ≤ id + evs.length) :
    (ackPlan (layoutFrom S c id evs) endID).2 = false ∧
    ∃ (K : QPage) (c' : QPage),
      (layoutFrom S c id evs)[(ackPlan (layoutFrom S c id evs) endID).1]? = some K ∧ K.off ≠ 0 ∧
      id ≤ K.first ∧ K.first ≤ endID ∧ K.first < id + evs.length ∧ endID ≤ K.last + 1 ∧
      Chain S c' K.first ∧ 28 + c'.payload.length = K.off ∧
      (layoutFrom S c id evs).drop (ackPlan (layoutFrom S c id evs) endID).1
        = layoutFrom S c' K.first (evs.drop (K.first - id)) ∧
      parseFrom P ((layoutFrom S c id evs).drop (ackPlan (layoutFrom S c id evs) endID).1) K.off
          (id + evs.length - K.first) = some (evs.drop (K.first - id)) ∧
      ((layoutFrom S c id evs).length - (ackPlan (layoutFrom S c id evs) endID).1) * (S - 3)
        ≤ c'.payload.length + framedBytes (evs.drop (K.first - id)) + (S - 3) := by
  obtain ⟨hinv, hoff0, hroom⟩ := hc
  have hids := (layoutFrom_ids S h4 evs c id hinv).1
  have hstart : startId c id = id := by simp [startId, hoff0]
  rw [hstart] at hids
  have hn : 0 < evs.length := List.length_pos_iff.mpr hne
  have hnc : (ackWalk (layoutFrom S c id evs) endID 0).cleanAll = false :=
    ackWalk_no_cleanAll _ id (id + evs.length) endID 0 hids (by omega) h2
  obtain ⟨K, hK, hKoff⟩ := ackWalk_kept_hdr _ endID 0 (layoutFrom_ne_nil S evs c id) hnc
  obtain ⟨hf1, hf2⟩ := ackWalk_kept_first _ id (id + evs.length) endID 0 K hids h1 hK hKoff
  have hfreed : (ackPlan (layoutFrom S c id evs) endID).1 = (ackWalk (layoutFrom S c id evs) endID 0).freed := rfl
  obtain ⟨c', w', o', r1, r2, _, r4, r5⟩ := entry_struct S h4 evs c id hinv _ K hK hKoff (fun _ => hoff0)
  have hkl := ackWalk_kept_last _ id (id + evs.length) endID 0 K hids h2 hK hKoff
  refine ⟨hnc, K, c', by rw [hfreed]; exact hK, hKoff, hf1, hf2, by omega, hkl, ⟨w', o', r2⟩, r1, by rw [hfreed]; exact r5, ?_, ?_⟩
  · rw [hfreed, r5, ← r1]
    have := parseFrom_layoutFrom P S hS h4 (evs.drop (K.first - id)) c' K.first (by omega)
      (fun e he => hsz e (List.mem_of_mem_drop he))
    rw [List.length_drop] at this
    have e : id + evs.length - K.first = evs.length - (K.first - id) := by omega
    rw [e]; exact this
  · rw [hfreed, ← List.length_drop, r5]
    exact layoutFrom_count S h4 _ c' K.first (by omega)

/-! ## the statements for `pages = layout P id0 evs` -/

/-- the write page (last page) is never freed (any chain) -/
theorem ackPlan_keeps_last (pages : List QPage) (endID : Nat) (hne : pages ≠ []) :
    (ackPlan pages endID).1 < pages.length :=
  ackWalk_keeps_last pages endID 0 hne

/-- every freed page that contains event headers only contains acknowledged events, and not the
    last acknowledged one: `last + 1 < endID` (any chain) -/
theorem ackPlan_freed_acked (pages : List QPage) (endID : Nat) :
    ∀ k < (ackPlan pages endID).1, ∀ p, pages[k]? = some p → p.off ≠ 0 → p.last + 1 < endID :=
  fun k hk p hp hoff => ackWalk_freed_acked pages endID 0 k p hk hp hoff

/-- The `cleanAll` branch of `collectFreePages` is dead code: with `endID ≤ tail id` (which
    `initACK` checks, `ACKTooMany`) the walk always stops at a page with event headers.
    (Where the branch is entered the Go code asserts `lastID + 1 == endID` with `lastID` already
    incremented, i.e. `last + 2 == endID`, which cannot hold for `endID ≤ tail id = last + 1`.) -/
theorem ackPlan_cleanAll (P : Nat) (hP : 64 ≤ P) (id0 : Nat) (evs : List (List UInt8))
    (endID : Nat) (h2 : endID ≤ id0 + evs.length) :
    (ackPlan (layout P id0 evs) endID).2 = false := by
  by_cases hne : evs = []
  · subst hne; rfl
  · have hids := (layout_header_fields P hP id0 evs).2
    have hn : 0 < evs.length := List.length_pos_iff.mpr hne
    exact ackWalk_no_cleanAll _ id0 (id0 + evs.length) endID 0 hids (by omega) h2

/-- the form asked for: `cleanAll` only if everything was acknowledged (vacuous, see above) -/
theorem ackPlan_cleanAll_imp (P : Nat) (hP : 64 ≤ P) (id0 : Nat) (evs : List (List UInt8))
    (endID : Nat) (h2 : endID ≤ id0 + evs.length) :
    (ackPlan (layout P id0 evs) endID).2 = true → endID = id0 + evs.length := by
  intro h
  rw [ackPlan_cleanAll P hP id0 evs endID h2] at h
  exact absurd h (by simp)

/-- No un-acknowledged event is lost.  The first kept page `K` has event headers, its first event
    is acknowledged or the first that stays (`id0 ≤ K.first ≤ endID`), and a reader entering the
    kept chain at `K` (position `(K, K.off)`, id `K.first`: the new queue head) is delivered
    exactly the events `K.first, …, id0 + evs.length - 1`, in particular every event `≥ endID`. -/
theorem ackPlan_keeps_unacked (P : Nat) (hP : 64 ≤ P) (id0 : Nat) (evs : List (List UInt8))
    (hne : evs ≠ []) (hsz : ∀ e ∈ evs, e.length < 2^32)
    (endID : Nat) (h1 : id0 ≤ endID) (h2 : endID ≤ id0 + evs.length) :
    ∃ K, (layout P id0 evs)[(ackPlan (layout P id0 evs) endID).1]? = some K ∧ K.off ≠ 0 ∧
      id0 ≤ K.first ∧ K.first ≤ endID ∧ K.first < id0 + evs.length ∧
      parseChain P ((layout P id0 evs).drop (ackPlan (layout P id0 evs) endID).1)
          (id0 + evs.length - K.first) = some (evs.drop (K.first - id0)) := by
  have hS : (P - 28) + 28 = P := by omega
  obtain ⟨_, K, c', hK, hoff, a1, a2, a3, _, _, _, _, _, _⟩ :=
    ackPlan_chain P (P - 28) hS (by omega) QPage.fresh id0 evs (Chain_fresh _ (by omega) _) hne hsz endID h1 h2
  rw [← layout_eq_layoutFrom P id0 evs hne] at hK
  exact ⟨K, hK, hoff, a1, a2, a3, (layout_entry P hP id0 evs hsz _ K hK hoff).2.2⟩

/-- the events `≥ endID` are a suffix of what the kept chain delivers -/
theorem ackPlan_unacked_suffix (id0 : Nat) (evs : List (List UInt8)) (f endID : Nat)
    (h0 : id0 ≤ f) (h1 : f ≤ endID) :
    (evs.drop (f - id0)).drop (endID - f) = evs.drop (endID - id0) := by
  rw [List.drop_drop]
  congr 1
  omega

/-- **Space bound (C12).**  The pages the queue holds after the ACK (`pages.length - freed`) are at
    most `(Σ_{events with id ≥ K.first} (4 + size)) / (P - 31) + 2`, where `K` is the first kept
    page: the un-ACKed events plus the ACKed events that start in the kept page, independent of
    the number and size of the events acknowledged before. -/
theorem ackPlan_space_bound (P : Nat) (hP : 64 ≤ P) (id0 : Nat) (evs : List (List UInt8))
    (hne : evs ≠ []) (hsz : ∀ e ∈ evs, e.length < 2^32)
    (endID : Nat) (h1 : id0 ≤ endID) (h2 : endID ≤ id0 + evs.length) :
    ∃ K, (layout P id0 evs)[(ackPlan (layout P id0 evs) endID).1]? = some K ∧ K.first ≤ endID ∧
      (layout P id0 evs).length - (ackPlan (layout P id0 evs) endID).1
        ≤ ((evs.drop (K.first - id0)).map fun e => 4 + e.length).sum / (P - 31) + 2 := by
  have hS : (P - 28) + 28 = P := by omega
  obtain ⟨_, K, c', hK, _, _, a2, _, _, hc', _, _, _, hcount⟩ :=
    ackPlan_chain P (P - 28) hS (by omega) QPage.fresh id0 evs (Chain_fresh _ (by omega) _) hne hsz endID h1 h2
  rw [← layout_eq_layoutFrom P id0 evs hne] at hK hcount
  refine ⟨K, hK, a2, ?_⟩
  have hroom := hc'.2.2
  have e31 : P - 31 = P - 28 - 3 := by omega
  rw [e31]
  simp only [framedBytes] at hcount
  generalize (layout P id0 evs).length - (ackPlan (layout P id0 evs) endID).1 = n at hcount ⊢
  generalize (List.map (fun e => 4 + e.length) (evs.drop (K.first - id0))).sum = F at hcount ⊢
  have hK3 : 0 < P - 28 - 3 := by omega
  have ha : c'.payload.length < P - 28 - 3 := by omega
  generalize P - 28 - 3 = D at hcount hK3 ha ⊢
  generalize c'.payload.length = a at hcount ha
  match n, hcount with
  | 0, _ => exact Nat.zero_le _
  | 1, _ => exact Nat.le_trans (by decide : 1 ≤ 2) (Nat.le_add_left 2 _)
  | m + 2, hcount =>
    have e : (m + 2) * D = m * D + D + D := by rw [Nat.add_mul]; omega
    rw [e] at hcount
    have : m ≤ F / D := (Nat.le_div_iff_mul_le hK3).mpr (by omega)
    omega

/-! ## the new read position (`findNewStartPositions`) -/

/-- `Append` keeps the `last` field of the page it continues on -/
theorem appendFuel_head_last (S : Nat) : ∀ (fuel : Nat) (cur : QPage) (data : List UInt8) (p : QPage),
    ((appendFuel S fuel cur data).1 ++ [(appendFuel S fuel cur data).2])[0]? = some p →
    p.last = cur.last := by
  intro fuel
  induction fuel with
  | zero => intro cur data p h; rw [appendFuel_zero] at h; simp at h; subst h; rfl
  | succ fuel ih =>
    intro cur data p h
    by_cases hd : data = []
    · subst hd; rw [appendFuel_nil] at h; simp at h; subst h; rfl
    by_cases h0 : S - cur.payload.length = 0
    · rw [appendFuel_adv S fuel cur data hd h0] at h; simp at h; subst h; rfl
    · rw [appendFuel_copy S fuel cur data hd h0] at h
      exact ih { cur with payload := cur.payload ++ data.take (S - cur.payload.length) } _ p h

/-- `ReadEventHeader` + `Skip` at the writer's position of an event whose header fits the page -/
theorem readEventAt_layoutFrom (P S : Nat) (hS : S + 28 = P) (h4 : 4 ≤ S) (c : QPage) (f : Nat)
    (e : List UInt8) (es : List (List UInt8)) (hroom : c.payload.length + 4 ≤ S) (hsz : e.length < 2 ^ 32) :
    readEventAt P (layoutFrom S c f (e :: es)) (28 + c.payload.length)
      = some (e, layoutFrom S (writeEvent S c f e).2 (f + 1) es, 28 + (writeEvent S c f e).2.payload.length) := by
  obtain ⟨h, t, e1, hx⟩ := layoutFrom_head S es (writeEvent S c f e).2 (f + 1)
  have hre := readEvent_writeEvent P S hS h4 c f e h t (by omega) hsz hx
  rw [← e1, ← layoutFrom_cons] at hre
  have hpos : nextHdrPos P (layoutFrom S c f (e :: es)) (28 + c.payload.length)
      = some (layoutFrom S c f (e :: es), 28 + c.payload.length) := by
    have : ¬ (P - (28 + c.payload.length) < 4) := by omega
    simp [nextHdrPos, this]
  rw [readEvent, hpos] at hre
  exact hre

/-- skipping `m` events whose headers all start in the first page of the chain -/
theorem skipEvents_layoutFrom (P S : Nat) (hS : S + 28 = P) (h4 : 4 ≤ S) :
    ∀ (m : Nat) (evs : List (List UInt8)) (c : QPage) (f : Nat) (K : QPage),
      c.payload.length + 4 ≤ S → m ≤ evs.length → (∀ e ∈ evs, e.length < 2 ^ 32) →
      (layoutFrom S c f evs)[0]? = some K → (1 ≤ m → f + m ≤ K.last + 1) →
      ∃ pgs o, skipEvents P m (layoutFrom S c f evs) (28 + c.payload.length) = some (pgs, o) ∧
        parseFrom P pgs o (evs.length - m) = some (evs.drop m) := by
  intro m
  induction m with
  | zero =>
    intro evs c f K hroom _ hsz _ _
    exact ⟨_, _, rfl, by simpa using parseFrom_layoutFrom P S hS h4 evs c f (by omega) hsz⟩
  | succ m ih =>
    intro evs c f K hroom hm hsz hK hlast
    cases evs with
    | nil => simp at hm
    | cons e es =>
      have hm' : m ≤ es.length := by simpa using hm
      have hsz' : ∀ e' ∈ es, e'.length < 2 ^ 32 := fun e' he' => hsz e' (by simp [he'])
      have hnp : ¬ (S - c.payload.length < 4) := by omega
      have hlen3 : (writeEvent S c f e).2.payload.length ≤ S := writeEvent_len S h4 c f e (by omega)
      rw [skipEvents, readEventAt_layoutFrom P S hS h4 c f e es hroom (hsz e (by simp))]
      simp only [Option.bind_some]
      cases m with
      | zero =>
        exact ⟨_, _, rfl, by simpa using parseFrom_layoutFrom P S hS h4 es _ (f + 1) hlen3 hsz'⟩
      | succ m =>
        have hKl : f + 2 ≤ K.last + 1 := by have := hlast (by omega); omega
        -- no page was completed while writing `e`
        have hw : writeEvent S c f e = appendData S (commitHdr c f e.length) e := writeEvent_nopad S c f e hnp
        have hem : (writeEvent S c f e).1 = [] := by
          cases hem : (writeEvent S c f e).1 with
          | nil => rfl
          | cons q qs =>
            exfalso
            rw [layoutFrom_cons, hem] at hK
            simp at hK
            subst hK
            have := appendFuel_head_last S _ (commitHdr c f e.length) e q (by
              have h2 : (appendData S (commitHdr c f e.length) e).1 = q :: qs := by rw [← hw]; exact hem
              simp only [appendData] at h2
              rw [h2]; rfl)
            simp [commitHdr] at this
            omega
        have hl3 : (writeEvent S c f e).2.last = f := by
          have := appendFuel_head_last S _ (commitHdr c f e.length) e (writeEvent S c f e).2 (by
            have h2 : (appendData S (commitHdr c f e.length) e).1 = [] := by rw [← hw]; exact hem
            have h3 : (appendData S (commitHdr c f e.length) e).2 = (writeEvent S c f e).2 := by rw [hw]
            simp only [appendData] at h2 h3
            rw [h2, h3]; rfl)
          simpa [commitHdr] using this
        have hK' : (layoutFrom S (writeEvent S c f e).2 (f + 1) es)[0]? = some K := by
          rw [layoutFrom_cons, hem] at hK
          simpa using hK
        -- the header of the next event fits behind `e`
        have hroom' : (writeEvent S c f e).2.payload.length + 4 ≤ S := by
          cases es with
          | nil => simp at hm'
          | cons e' es' =>
            by_cases hp : S - (writeEvent S c f e).2.payload.length < 4
            · exfalso
              rw [layoutFrom_cons, writeEvent_pad S _ (f + 1) e' hp] at hK'
              simp at hK'
              rw [← hK'] at hKl
              simp only at hKl
              omega
            · omega
        have hfin := ih es (writeEvent S c f e).2 (f + 1) K hroom' hm' hsz' hK'
          (fun _ => by have := hlast (by omega); omega)
        have e5 : (e :: es).length - (m + 1 + 1) = es.length - (m + 1) := by simp
        rw [e5, List.drop_succ_cons]
        exact hfin

/-- `initACK` on a chain the writer produced: the plan exists (no `cleanAll`), the new head is the
    first kept page `K` at `(K.off, K.first)`, and the new read position is where a reader is
    delivered exactly the events that were not acknowledged. -/
theorem ackInit_chain (P S : Nat) (hS : S + 28 = P) (h4 : 4 ≤ S) (c : QPage) (id : Nat)
    (evs : List (List UInt8)) (hc : Chain S c id) (hne : evs ≠ []) (hsz : ∀ e ∈ evs, e.length < 2 ^ 32)
    (endID : Nat) (h1 : id ≤ endID) (h2 : endID ≤ id + evs.length) :
    ∃ (st : AckState) (K : QPage),
      ackInit P (layoutFrom S c id evs) endID = some st ∧
      st.freed = (ackPlan (layoutFrom S c id evs) endID).1 ∧
      st.headPages = (layoutFrom S c id evs).drop st.freed ∧
      (layoutFrom S c id evs)[st.freed]? = some K ∧ st.headOff = K.off ∧ st.headId = K.first ∧
      id ≤ K.first ∧ K.first ≤ endID ∧
      parseFrom P st.headPages st.headOff (id + evs.length - st.headId) = some (evs.drop (st.headId - id)) ∧
      parseFrom P st.readPages st.readOff (id + evs.length - endID) = some (evs.drop (endID - id)) := by
  obtain ⟨hnc, K, c', hK, hoff, a1, a2, a3, a4, hc', hKoff, hdrop, hparse, _⟩ :=
    ackPlan_chain P S hS h4 c id evs hc hne hsz endID h1 h2
  have hK0 : (layoutFrom S c' K.first (evs.drop (K.first - id)))[0]? = some K := by
    rw [← hdrop, List.getElem?_drop]; exact hK
  generalize hD : (layoutFrom S c id evs).drop (ackPlan (layoutFrom S c id evs) endID).1 = D at hdrop hparse
  cases D with
  | nil => rw [← hdrop] at hK0; simp at hK0
  | cons k ks =>
    have hk : k = K := by rw [← hdrop] at hK0; simpa using hK0
    subst hk
    by_cases he : endID = k.first
    · subst he
      refine ⟨⟨_, k :: ks, k.off, k.first, k :: ks, k.off⟩, k, ?_, rfl, hD.symm, hK, rfl, rfl, a1, a2, hparse, hparse⟩
      simp [ackInit, hnc, hD]
    · obtain ⟨pgs, o, hs, hp⟩ := skipEvents_layoutFrom P S hS h4 (endID - k.first) (evs.drop (k.first - id)) c'
        k.first k hc'.2.2 (by rw [List.length_drop]; omega)
        (fun e he' => hsz e (List.mem_of_mem_drop he')) hK0 (fun _ => by omega)
      rw [← hdrop, hKoff] at hs
      refine ⟨⟨_, k :: ks, k.off, k.first, pgs, o⟩, k, ?_, rfl, hD.symm, hK, rfl, rfl, a1, a2, hparse, ?_⟩
      · simp [ackInit, hnc, hD, he, hs]
      · rw [List.length_drop, ackPlan_unacked_suffix id evs k.first endID a1 a2] at hp
        have e : id + evs.length - endID = evs.length - (k.first - id) - (endID - k.first) := by omega
        rw [e]; exact hp

/-- `initACK` on the chain of a queue written from scratch -/
theorem ackInit_layout (P : Nat) (hP : 64 ≤ P) (id0 : Nat) (evs : List (List UInt8))
    (hne : evs ≠ []) (hsz : ∀ e ∈ evs, e.length < 2^32)
    (endID : Nat) (h1 : id0 ≤ endID) (h2 : endID ≤ id0 + evs.length) :
    ∃ (st : AckState) (K : QPage),
      ackInit P (layout P id0 evs) endID = some st ∧
      st.freed = (ackPlan (layout P id0 evs) endID).1 ∧
      st.headPages = (layout P id0 evs).drop st.freed ∧
      (layout P id0 evs)[st.freed]? = some K ∧ st.headOff = K.off ∧ st.headId = K.first ∧
      id0 ≤ K.first ∧ K.first ≤ endID ∧
      parseFrom P st.headPages st.headOff (id0 + evs.length - st.headId) = some (evs.drop (st.headId - id0)) ∧
      parseFrom P st.readPages st.readOff (id0 + evs.length - endID) = some (evs.drop (endID - id0)) := by
  rw [layout_eq_layoutFrom P id0 evs hne]
  exact ackInit_chain P (P - 28) (by omega) (by omega) QPage.fresh id0 evs (Chain_fresh _ (by omega) _) hne hsz
    endID h1 h2

/-! ## concrete instances (P = 64) -/

-- pages of sizes 1, 31, 32, 33, 70, 3 from id 10:
--   (10,11,28,36) (12,12,32,36) (13,13,32,36) (14,14,33,36) (0,0,0,36) (15,15,35,14)
-- a page is kept as long as the last acknowledged event starts in it; acknowledging everything
-- frees the data-only page too and keeps the write page
set_option maxRecDepth 100000 in
example : (List.range 7).map (fun i => ackPlan (layout 64 10 [ev 1 1, ev 31 2, ev 32 3, ev 33 4, ev 70 5, ev 3 6]) (10 + i))
    = [(0, false), (0, false), (0, false), (1, false), (2, false), (3, false), (5, false)] := by decide +kernel

-- new head and read position: acknowledging 10 and 11 keeps page 0 (head = its first event) and
-- puts the read position into page 1 (5 pages left) at offset 32
set_option maxRecDepth 100000 in
example : (ackInit 64 (layout 64 10 [ev 1 1, ev 31 2, ev 32 3, ev 33 4, ev 70 5, ev 3 6]) 12).map
      (fun st => (st.freed, st.headOff, st.headId, st.readPages.length, st.readOff))
    = some (0, 28, 10, 5, 32) := by decide +kernel

-- the space bound is tight (`+ 2`): both events acknowledged, the kept chain is page 1 (28 bytes of
-- event 0, then event 1) and page 2; events with id ≥ 1 have 14 framed bytes, 14 / 33 + 2 = 2
set_option maxRecDepth 100000 in
example : pageSummary (layout 64 0 [ev 60 1, ev 10 2]) = [(0, 0, 28, 36), (1, 1, 56, 36), (0, 0, 0, 6)] ∧
    ackPlan (layout 64 0 [ev 60 1, ev 10 2]) 2 = (1, false) := by decide +kernel

-- `cleanAll` needs `endID` beyond the tail id (which `initACK` rejects as ACKTooMany); only then
-- the assertion `lastID + 1 == endID` (with `lastID = last + 1`) holds
set_option maxRecDepth 100000 in
example : pageSummary (layout 64 0 [ev 70 5]) = [(0, 0, 28, 36), (0, 0, 0, 36), (0, 0, 0, 2)] ∧
    ackWalk (layout 64 0 [ev 70 5]) 1 0 = ⟨0, false, true⟩ ∧
    ackWalk (layout 64 0 [ev 70 5]) 2 0 = ⟨2, true, true⟩ := by decide +kernel

end TxVerif
