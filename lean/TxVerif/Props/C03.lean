/-
  C03 — the store returns what was written.
  (1) `writer_order`: however the background writer batches the queued page writes, every
      page ends up with the last write scheduled for it (stable sort; tie: `Facts.writerSort`).
  (2) read-your-writes of the page buffer (page.go) over the engine model, for full and
      partial SetBytes and Load+modify+MarkDirty.
  The complete sequential refinement over all histories is, so far, established by the engine
  correspondence (model = implementation on every read of every generated history) together
  with the harness's map-based specification; see `partial` in the evidence.
-/
import TxVerif.Proofs.Engine
import TxVerif.Proofs.Writer
namespace TxVerif

/-- the page table of a transaction stores every page under its own id -/
def PagesWF (tx : TxSt) : Prop := ∀ k p, tx.pages.get? k = some p → p.id = k

theorem getPage_spec (f : FileSt) (tx tx1 : TxSt) (id : Nat) (p : PageSt) (hwf : PagesWF tx)
    (h : getPage f tx id = .ok (tx1, p)) :
    p.id = id ∧ p.freed = false ∧ tx1.ta = tx.ta ∧ PagesWF tx1 ∧ tx1.pages.get? id = some p ∧
    (2 ≤ id ∧ id < f.alloc.data.endMarker) ∧ tx.ta.data.freed.contains id = false ∧ tx.ta.mta.freed.contains id = false := by
  unfold getPage at h
  split at h
  · simp at h
  · rename_i hb
    split at h
    · simp at h
    · rename_i hfr
      have hb' : 2 ≤ id ∧ id < f.alloc.data.endMarker := by simpa using hb
      simp only [Bool.or_eq_true, not_or, Bool.not_eq_true] at hfr
      cases hpg : tx.pages.get? id with
      | none =>
        simp only [hpg, Except.ok.injEq, Prod.mk.injEq] at h
        obtain ⟨rfl, rfl⟩ := h
        refine ⟨rfl, rfl, rfl, ?_, Assoc.get?_set_self _ _ _, hb', hfr.1, hfr.2⟩
        intro k q hq
        by_cases hk : k = id
        · subst hk; rw [Assoc.get?_set_self] at hq; cases hq; rfl
        · rw [Assoc.get?_set_ne _ _ _ _ hk] at hq; exact hwf k q hq
      | some q =>
        simp only [hpg] at h
        split at h
        · simp at h
        · rename_i hq
          simp only [Except.ok.injEq, Prod.mk.injEq] at h
          obtain ⟨rfl, rfl⟩ := h
          exact ⟨hwf id q hpg, by simpa using hq, rfl, hwf, hpg, hb', hfr.1, hfr.2⟩

/-- reading a page that is in the page table with a buffer returns the buffer -/
theorem txRead_buffered (f : FileSt) (tx : TxSt) (id : Nat) (p : PageSt) (c : Content)
    (hb : 2 ≤ id ∧ id < f.alloc.data.endMarker) (h1 : tx.ta.data.freed.contains id = false)
    (h2 : tx.ta.mta.freed.contains id = false) (hp : tx.pages.get? id = some p) (hf : p.freed = false)
    (hc : p.bytes = some c) : txRead f tx id = .ok (tx, c) := by
  have h1' : id ∉ tx.ta.data.freed := by simpa using h1
  have h2' : id ∉ tx.ta.mta.freed := by simpa using h2
  unfold txRead getPage
  simp [hb.1, hb.2, h1', h2', hp, hf, hc, bind, Except.bind, pure, Except.pure]

/-- **read your own writes**: after a successful write (full SetBytes, partial SetBytes of the
    lower half, or Load + modify upper half + MarkDirty) the transaction reads back what it
    wrote in the half it wrote -/
theorem read_after_write (f : FileSt) (tx tx' : TxSt) (id s : Nat) (mode : WMode) (hwf : PagesWF tx)
    (h : txWrite f tx id mode s = .ok tx') :
    ∃ c, txRead f tx' id = .ok (tx', c) ∧
      (mode = .full → c = Content.full id s) ∧ (mode = .lo → c.lo = (id, s)) ∧ (mode = .hi → c.hi = (id, s)) := by
  unfold txWrite at h
  cases hg : getPage f tx id with
  | error e => simp [hg, bind, Except.bind] at h
  | ok r =>
    obtain ⟨tx1, p⟩ := r
    simp only [hg, bind, Except.bind] at h
    obtain ⟨hid, hfr, hta, hwf1, hget, hb, hd, hm⟩ := getPage_spec f tx tx1 id p hwf hg
    cases hw : pageCanWrite p with
    | error e => simp [hw] at h
    | ok _ =>
      simp only [hw] at h
      have key : ∀ (q : PageSt) (c : Content), q.id = id → q.freed = false → q.bytes = some c →
          txRead f (tx1.setPage q) id = .ok (tx1.setPage q, c) := by
        intro q c hq hqf hqb
        apply txRead_buffered f _ id q c hb
        · show tx1.ta.data.freed.contains id = false; rw [hta]; exact hd
        · show tx1.ta.mta.freed.contains id = false; rw [hta]; exact hm
        · simp [TxSt.setPage, hq, Assoc.get?_set_self]
        · exact hqf
        · exact hqb
      have lb_id : ∀ q : PageSt, (loadBytes f q).id = q.id ∧ (loadBytes f q).freed = q.freed := by
        intro q; unfold loadBytes
        split
        · simp
        · split
          · simp
          · split <;> simp
      cases mode with
      | full =>
        simp only [pure, Except.pure, Except.ok.injEq] at h; subst h
        exact ⟨Content.full id s, key _ _ (by simp [setDirty, hid]) (by simp [setDirty, hfr]) (by simp [setDirty]),
          by simp, by simp, by simp⟩
      | lo =>
        simp only [pure, Except.pure, Except.ok.injEq] at h; subst h
        refine ⟨{ (loadBytes f p).bytes.getD {} with lo := (id, s) },
          key _ _ (by simp [setDirty, (lb_id p).1, hid]) (by simp [setDirty, (lb_id p).2, hfr]) (by simp [setDirty]),
          by simp, by simp, by simp⟩
      | hi =>
        simp only [pure, Except.pure, Except.ok.injEq] at h; subst h
        refine ⟨{ (loadBytes f p).bytes.getD {} with hi := (id, s) },
          key _ _ (by simp [setDirty, (lb_id p).1, hid]) (by simp [setDirty, (lb_id p).2, hfr]) (by simp [setDirty]),
          by simp, by simp, by simp⟩

/-- a page the transaction has not touched reads as the committed content (through the
    overwrite mapping of the committed state) -/
theorem read_untouched (f : FileSt) (tx : TxSt) (id : Nat) (hb : 2 ≤ id ∧ id < f.alloc.data.endMarker)
    (h1 : tx.ta.data.freed.contains id = false) (h2 : tx.ta.mta.freed.contains id = false)
    (hp : tx.pages.get? id = none) : ∃ tx', txRead f tx id = .ok (tx', f.readPage id) := by
  have h1' : id ∉ tx.ta.data.freed := by simpa using h1
  have h2' : id ∉ tx.ta.mta.freed := by simpa using h2
  unfold txRead getPage
  simp [hb.1, hb.2, h1', h2', hp, bind, Except.bind, pure, Except.pure, FileSt.readPage]

/-- the background writer (re-exported from Proofs/Writer.lean): for every way of cutting the
    queue into batches, every page ends up with the last write scheduled for it -/
theorem writer_order_c03 {γ} (batches : List (List (Nat × γ))) (d : WDisk γ) (p : Nat) :
    runBatches d batches p = (lastWrite batches.flatten p).or (d p) := writer_order_last batches d p

end TxVerif
