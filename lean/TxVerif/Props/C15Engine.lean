/-
  C15 on the engine model — a rejected operation changes nothing, and which error it is.

  The run semantics of the engine model, `EOp.step` (Proofs/Refine.lean), keeps the state on an error BY DEFINITION.
  To give "changes nothing" content, Proofs/C15Engine.lean defines the traced step `EOp.stepT s op : ERunSt × ERes`:
  result of the call and the state AS THE CODE LEAVES IT, following the order in which tx.go / page.go mutate
  (`Tx.Page` inserts a new page object into the page table BEFORE the `Page` method runs its guard; `Tx.Flush`
  flushes page after page and stops at the first failure). All theorems are UNCONDITIONAL in the state `s`
  (no `TxInv` / `RunInv` needed) unless stated otherwise.

  Error kinds the engine model has (`Err`): `pageid`, `invalidop`, `oom`. (`param`, `finished`, `readonly` exist only in
  the guard model Model/Guards.lean + Props/C15.lean: the engine model has no transaction lifecycle, no read-only
  transactions and no byte contents.)

  (1) nothing changes
      c15e_eop_error_no_change      every operation except `Tx.Flush`, every error kind (misuse AND `oom`): the traced state
                                    — file state, transaction state, owned pages, abstract store — is the state before;
                                    and `EOp.step` is the traced step whenever the call is not rejected
      c15e_alloc_oom_no_change      `AllocN` that fails takes nothing (the allocator checks the space first)
      c15e_flush_oom_partial        the exception: a failing `Tx.Flush` keeps the pages it flushed before the failure —
                                    exactly the state after `Tx.Flush` of those pages; the invariant holds, every page
                                    reads the same, the committed state is not involved
      c15e_flush_oom_changes        witness: that state differs from the state before
  (2) which error (decision logic, one theorem per documented precondition; `c15e_kinds_complete`: nothing else is rejected)
      c15e_kind_pageid              page id < 2 or ≥ data end marker                      → `pageid`   (every page operation)
      c15e_kind_freed               page freed by this transaction (also one it allocated) → `invalidop` (every page operation)
      c15e_kind_flushed             write / load / free / flush of a flushed page         → `invalidop` (reading is allowed)
      c15e_kind_free_dirty          `Free` of a dirty page                                 → `invalidop`
      c15e_kind_read_fresh          `Bytes` of a new page without contents                 → `invalidop`
      c15e_kind_alloc_oom           more pages than available                              → `oom`, otherwise ok
      c15e_kind_flush_oom           `Page.Flush` needing an overwrite page, none available → `oom`
      c15e_guard_matrix_consistent  on a page object the `Page` methods of the engine model return exactly the error of the
                                    guard matrix of Props/C15 (writable, active transaction)
  (3) runs
      c15e_rejected_ops_invisible   inserting rejected calls anywhere into an operation list changes neither the final state
                                    nor the result of any other operation (on the traced run and on `runEOps`)
      c15e_rejected_keeps_invariant the running-transaction invariant survives every traced step

  NOT in the engine model — covered by the guard matrix theorems of Props/C15 (error kind only) and by the harness
  matrix /verif/harness/engine/misuse.go on the real code (kind, no panic, no blocking, state unchanged):
    * every call on a finished transaction (committed / rolled back / closed) and on pages of a finished transaction;
      `Commit` / `Rollback` / `Close` themselves; write calls in a read-only transaction, pages of a read-only transaction;
    * `SetBytes` with oversize contents (`param`); `MarkDirty` as a call of its own; `AllocN(0)`, `AllocN(-1)`; `RootPage`, getters;
    * `Page` methods through a handle obtained BEFORE the page was freed (`Bytes` then succeeds: the model always goes through
      `Tx.Page`, which rejects the freed page);
    * calls on pages the client does not own but `Tx.Page` accepts (meta pages, free pages inside the file): result `ignored`
      here, outside the discipline of the model;
    * the queue (pq) misuse cells; "does not panic", "does not block".
-/
import TxVerif.Proofs.C15Engine
import TxVerif.Props.C03Refine
namespace TxVerif

/-! ## (1) a rejected operation changes nothing -/

/-- **C15, nothing changes**: for every engine operation other than `Tx.Flush` — `Alloc/AllocN`, `SetBytes` /
    `Load`+modify, `Load`, `Bytes`, `Free`, `Page.Flush`, `CheckpointWAL` — in EVERY state: if the call returns an error
    (of any kind the model has: `pageid`, `invalidop`, `oom`), the state the code has reached when it raises the error is
    the state before the call — file state (allocator, disk, mapping), transaction state (page table, allocator
    bookkeeping, overwrite bookkeeping), the pages the client owns and the abstract store; in particular the page
    object `Tx.Page` creates on the way never survives a rejected call, because no `Page` method fails on a page
    object just created. And the run semantics `EOp.step` is justified: it keeps the state on an error, and equals
    the traced step whenever the call is not rejected. -/
theorem c15e_eop_error_no_change (s : ERunSt) (op : EOp) :
    (∀ e, op.result s = .error e → (∀ order, op ≠ .flushAll order) → (op.stepT s).1 = s) ∧
    (∀ e, op.result s = .error e → op.step s = s) ∧
    ((∀ e, op.result s ≠ .error e) → (op.stepT s).1 = op.step s) :=
  ⟨fun e h hnf => stepT_error_state s op e h hnf, fun e h => stepT_error_step s op e h, stepT_step s op⟩

/-- **C15, out of space in `AllocN`**: a failing allocation takes nothing — no partially performed allocation, nothing
    to leak: file state, transaction state, owned pages and store are unchanged, and the failure means exactly that
    fewer pages were available than asked for -/
theorem c15e_alloc_oom_no_change (s : ERunSt) (n : Nat) (e : Err) (h : (EOp.alloc n).result s = .error e) :
    ((EOp.alloc n).stepT s).1 = s ∧ e = .oom ∧ s.f.alloc.dataAvail < n := by
  refine ⟨stepT_error_state s _ e h (fun o ho => by cases ho), ?_⟩
  by_cases hav : s.f.alloc.dataAvail < n
  · have := (result_alloc s n).1 hav
    rw [this] at h
    simp only [ERes.error.injEq] at h
    exact ⟨h.symm, hav⟩
  · have := (result_alloc s n).2 (by omega)
    rw [this] at h
    cases h

/-- **C15, out of space in `Tx.Flush` — what DOES change**: `Tx.Flush` flushes page after page; when a page needs an
    overwrite page that can not be allocated (or the recorded order names a page that is not in the transaction) it
    stops, and the pages flushed before stay flushed: the state reached is exactly the state after a successful
    `Tx.Flush` of those pages. Under the running-transaction invariant that state satisfies the invariant again and
    every owned page reads the same (`RunInv`: the abstract store, which is untouched, still describes it); the
    committed state is not involved (`f0` is not an argument of the step). -/
theorem c15e_flush_oom_partial (s : ERunSt) (order : List Nat) (e : Err)
    (h : (EOp.flushAll order).result s = .error e) :
    (∃ pre id rest, order = pre ++ id :: rest ∧ (EOp.flushAll pre).result s = .ok ∧
      ((EOp.flushAll order).stepT s).1 = (EOp.flushAll pre).step s ∧ (e = .invalidop ∨ e = .oom)) ∧
    ((EOp.flushAll order).stepT s).1.cur = s.cur ∧ ((EOp.flushAll order).stepT s).1.σ = s.σ ∧
    (∀ f0 live, EngInv f0 live → RunInv f0 live s → RunInv f0 live ((EOp.flushAll order).stepT s).1) := by
  obtain ⟨pre, id, rest, ho, hok, hst, hc⟩ := stepT_flushAll_error s order e h
  refine ⟨⟨pre, id, rest, ho, hok, hst, ?_⟩, ?_, ?_, ?_⟩
  · rcases hc with ⟨-, rfl⟩ | ⟨p, -, -, -, -, -, -, rfl⟩
    · exact Or.inl rfl
    · exact Or.inr rfl
  · rw [hst]; simp only [EOp.step]; split <;> rfl
  · rw [hst]; simp only [EOp.step]; split <;> rfl
  · intro f0 live he hr
    exact runinv_stepT he s _ hr

/-! ## (2) which error -/

/-- **`pageid`**: a page id below 2 (the header pages) or at / beyond the data end marker — every page operation, every state -/
theorem c15e_kind_pageid (s : ERunSt) (op : EOp) (id : Nat) (hop : op.pageId = some id)
    (h : id < 2 ∨ s.f.alloc.data.endMarker ≤ id) : op.result s = .error .pageid :=
  result_pageid s op id hop (by unfold InRange; omega)

/-- **`invalidop`**: the page was freed by the running transaction (a committed page, or one the transaction had
    allocated itself) — every page operation, reading included -/
theorem c15e_kind_freed (s : ERunSt) (op : EOp) (id : Nat) (hop : op.pageId = some id) (hr : InRange s.f id)
    (h : FreedInTx s.tx id) : op.result s = .error .invalidop :=
  result_freed s op id hop hr h

/-- **`invalidop`**: writing, loading, freeing or flushing a page that was flushed (reading it is allowed) -/
theorem c15e_kind_flushed (s : ERunSt) (op : EOp) (id : Nat) (hop : op.pageId = some id) (hnr : ∀ i, op ≠ .read i)
    (hr : InRange s.f id) (hf : ¬ FreedInTx s.tx id) (h : (pageOf s.f s.tx id).flushed = true) :
    op.result s = .error .invalidop :=
  result_flushed s op id hop hnr hr hf h

/-- **`invalidop`**: freeing a dirty page -/
theorem c15e_kind_free_dirty (s : ERunSt) (id : Nat) (hr : InRange s.f id) (hf : ¬ FreedInTx s.tx id)
    (h : (pageOf s.f s.tx id).dirty = true) : (EOp.free id).result s = .error .invalidop :=
  result_free_dirty s id hr hf h

/-- **`invalidop`**: reading a page allocated by this transaction that has no contents yet -/
theorem c15e_kind_read_fresh (s : ERunSt) (id : Nat) (hr : InRange s.f id) (hf : ¬ FreedInTx s.tx id)
    (h1 : (pageOf s.f s.tx id).new_ = true) (h2 : (pageOf s.f s.tx id).bytes = none) :
    (EOp.read id).result s = .error .invalidop :=
  result_read_fresh s id hr hf h1 h2

/-- **`oom`**: `Alloc/AllocN` asks for more pages than are available — and only then -/
theorem c15e_kind_alloc_oom (s : ERunSt) (n : Nat) :
    (s.f.alloc.dataAvail < n → (EOp.alloc n).result s = .error .oom) ∧
    (n ≤ s.f.alloc.dataAvail → (EOp.alloc n).result s = .ok) :=
  result_alloc s n

/-- **`oom`**: `Page.Flush` of a dirty page of the committed state that is not redirected yet needs an overwrite page; none
    can be allocated -/
theorem c15e_kind_flush_oom (s : ERunSt) (id : Nat) (hr : InRange s.f id) (hf : ¬ FreedInTx s.tx id)
    (h1 : (pageOf s.f s.tx id).flushed = false) (h2 : (pageOf s.f s.tx id).dirty = true)
    (h3 : (pageOf s.f s.tx id).new_ = false) (h4 : (pageOf s.f s.tx id).id = (pageOf s.f s.tx id).ondisk)
    (h5 : walAlloc s.f.alloc s.tx.ta = none) : (EOp.flushPage id).result s = .error .oom :=
  result_flushPage_oom s id hr hf h1 h2 h3 h4 h5

/-- **nothing else is rejected**: a page operation on a valid page id that was not freed by this transaction, that is not
    flushed (unless it is read), not dirty when it is freed, not an empty new page when it is read, and — for
    `Page.Flush` — for which an overwrite page is available if one is needed, is NOT an error; `CheckpointWAL` is never
    rejected -/
theorem c15e_kinds_complete (s : ERunSt) (op : EOp) (id : Nat) (hop : op.pageId = some id)
    (hr : InRange s.f id) (hf : ¬ FreedInTx s.tx id)
    (hfl : (∀ i, op ≠ .read i) → (pageOf s.f s.tx id).flushed = false)
    (hfree : op = .free id → (pageOf s.f s.tx id).dirty = false)
    (hread : op = .read id → ¬ ((pageOf s.f s.tx id).new_ = true ∧ (pageOf s.f s.tx id).bytes = none))
    (hflush : op = .flushPage id → ¬ ((pageOf s.f s.tx id).dirty = true ∧ (pageOf s.f s.tx id).new_ = false ∧
        (pageOf s.f s.tx id).id = (pageOf s.f s.tx id).ondisk ∧ walAlloc s.f.alloc s.tx.ta = none)) :
    (∀ e, op.result s ≠ .error e) ∧ EOp.checkpoint.result s = .ok :=
  ⟨fun e => result_not_error s op id hop hr hf hfl hfree hread hflush e, rfl⟩

/-- the lifecycle flags of a page object, as the guard matrix of Props/C15 sees them -/
def PageSt.flags (p : PageSt) : PageFlags :=
  { new_ := p.new_, freed := p.freed, flushed := p.flushed, dirty := p.dirty, hasBytes := p.bytes.isSome }

/-- a writable, active transaction -/
def activeRW : TxFlags := { active := true, readonly := false }

/-- **consistent with the guard matrix of Props/C15**: on any page object, the `Page` methods of the engine model are
    rejected with exactly the error the guard model predicts for a writable active transaction — `SetBytes` / `Load` /
    `MarkDirty` (`writeBody`, `loadBody`), `Free`, `Bytes`, and `Flush` up to the out-of-space case, which the guard
    model does not have -/
theorem c15e_guard_matrix_consistent (f : FileSt) (tx : TxSt) (p : PageSt) (id : Nat) (mode : WMode) (st : Nat) (e : Err) :
    (writeBody f id mode st tx p = .error e ↔ pageGuard .setBytes activeRW p.flags = some e) ∧
    (loadBody f tx p = .error e ↔ pageGuard .load activeRW p.flags = some e) ∧
    (freeBody f id tx p = .error e ↔ pageGuard .free activeRW p.flags = some e) ∧
    ((∃ e', readBody f tx p = .error e' ∧ e' = e) ↔ pageGuard .bytes activeRW p.flags = some e) ∧
    (pageGuard .flush activeRW p.flags = some e → flushBody f tx p = .error e) ∧
    (flushBody f tx p = .error e → e ≠ .oom → pageGuard .flush activeRW p.flags = some e) := by
  have hcw : pageCanWrite p = .error e ↔ pageCanWriteG activeRW p.flags = some e := by
    unfold pageCanWrite pageCanWriteG txCanWrite activeRW PageSt.flags
    cases p.freed <;> cases p.flushed <;> simp <;> exact eq_comm
  have hcw_ok : pageCanWrite p = .ok () ↔ pageCanWriteG activeRW p.flags = none := by
    unfold pageCanWrite pageCanWriteG txCanWrite activeRW PageSt.flags
    cases p.freed <;> cases p.flushed <;> simp
  refine ⟨?_, ?_, ?_, ?_, ?_, ?_⟩
  · show _ ↔ pageCanWriteG activeRW p.flags = some e
    rw [← hcw]
    constructor
    · intro h
      obtain ⟨h1, h2⟩ := writeBody_error _ _ _ _ _ _ _ h
      subst h2
      unfold pageCanWrite; rcases h1 with h1 | h1 <;> simp [h1]
    · intro h
      unfold writeBody; rw [h]; rfl
  · show _ ↔ pageCanWriteG activeRW p.flags = some e
    rw [← hcw]
    constructor
    · intro h
      obtain ⟨h1, h2⟩ := loadBody_error _ _ _ _ h
      subst h2
      unfold pageCanWrite; rcases h1 with h1 | h1 <;> simp [h1]
    · intro h
      unfold loadBody; rw [h]; rfl
  · cases hfr : p.freed <;> cases hfl : p.flushed <;> cases hd : p.dirty <;>
      simp [freeBody, pageCanWrite, pageGuard, pageCanWriteG, txCanWrite, activeRW, PageSt.flags, hfr, hfl, hd, bind,
        Except.bind, pure, Except.pure] <;> exact eq_comm
  · unfold pageGuard txCanRead activeRW readBody PageSt.flags
    cases hb : p.bytes <;> cases hn : p.new_ <;> simp [pure, Except.pure] <;> exact eq_comm
  · intro h
    have : pageCanWrite p = .error e := hcw.mpr h
    unfold flushBody; rw [this]; rfl
  · intro h hne
    rcases flushBody_error _ _ _ _ h with ⟨h1, h2⟩ | ⟨-, -, -, -, -, -, h7⟩
    · subst h2
      show pageCanWriteG activeRW p.flags = some .invalidop
      unfold pageCanWriteG txCanWrite activeRW PageSt.flags
      rcases h1 with h1 | h1 <;> simp [h1]
    · exact absurd h7 hne

/-! ## (3) runs -/

/-- **C15, rejected calls are invisible**: let `ops'` be `ops` with rejected calls inserted anywhere (`Inserted`: each
    inserted call returns an error in the state in which it is issued and is not a `Tx.Flush` that failed half way —
    `rejected_of_error`: every rejected call other than `Tx.Flush` qualifies). Then the run of `ops'` ends in the same
    state as the run of `ops`, every operation of `ops` gets the same result in both runs (the trace of `ops` is the trace
    of `ops'` with the inserted entries removed), and nothing else was added. -/
theorem c15e_rejected_ops_invisible (s : ERunSt) (ops ops' : List EOp) (h : Inserted s ops ops') :
    runEOpsT s ops' = runEOpsT s ops ∧ (traceT s ops).Sublist (traceT s ops') ∧
    (traceT s ops').length = (traceT s ops).length + (ops'.length - ops.length) :=
  inserted_run h

/-- the same for one inserted call, on the run semantics `runEOps` of the other engine theorems (C03, C04, C07, C10):
    a rejected call between any two operations changes neither the final state nor any later step -/
theorem c15e_rejected_op_invisible (s : ERunSt) (pre post : List EOp) (op : EOp) (e : Err)
    (h : op.result (runEOps s pre) = .error e) :
    runEOps s (pre ++ op :: post) = runEOps s (pre ++ post) := by
  rw [runEOps_append', runEOps_append']
  show runEOps (op.step (runEOps s pre)) post = _
  rw [stepT_error_step _ op e h]

/-- … and on the traced run, for every rejected call that is not a `Tx.Flush` -/
theorem c15e_rejected_op_invisible_traced (s : ERunSt) (pre post : List EOp) (op : EOp) (e : Err)
    (h : op.result (runEOpsT s pre) = .error e) (hnf : ∀ order, op ≠ .flushAll order) :
    runEOpsT s (pre ++ op :: post) = runEOpsT s (pre ++ post) := by
  rw [runEOpsT_append, runEOpsT_append]
  show runEOpsT (op.stepT (runEOpsT s pre)).1 post = _
  rw [stepT_error_state _ op e h hnf]

/-- **C15, the running transaction stays valid**: the invariant of a running transaction (`RunInv`: engine state and
    abstract store agree, `TxInv`) survives every traced step — accepted, rejected, or a `Tx.Flush` failing half way —
    and so every traced run; the committed state `f0` is not touched by any step -/
theorem c15e_rejected_keeps_invariant (f0 : FileSt) (live : List Nat) (he : EngInv f0 live) (s : ERunSt)
    (h : RunInv f0 live s) (ops : List EOp) : RunInv f0 live (runEOpsT s ops) :=
  runinv_runT he ops s h

/-! ## concrete states: every kind occurs, the hypotheses are satisfiable -/

/-- a running transaction on `exFile` (Props/C03Refine: pages 3 → overwrite page 5, and 4; `EngInv exFile [3, 4]`): two
    pages allocated (8, 9), page 4 written and flushed, the new page 8 written, page 3 freed -/
def exMisuse : ERunSt :=
  runEOps (ERunSt.start exFile [3, 4] false 0 0) [.alloc 2, .write 4 .full 9, .flushPage 4, .write 8 .full 5, .free 3]

/-- every misuse kind of the model on `exMisuse`, and the accepted neighbours -/
example :
    (EOp.write 1 .full 1).result exMisuse = .error .pageid ∧          -- header page
    (EOp.read 100).result exMisuse = .error .pageid ∧                 -- beyond the data end marker
    (EOp.read 3).result exMisuse = .error .invalidop ∧                -- freed by this transaction
    (EOp.write 3 .full 1).result exMisuse = .error .invalidop ∧
    (EOp.write 4 .lo 2).result exMisuse = .error .invalidop ∧         -- flushed page written
    (EOp.load 4).result exMisuse = .error .invalidop ∧
    (EOp.free 4).result exMisuse = .error .invalidop ∧
    (EOp.flushPage 4).result exMisuse = .error .invalidop ∧
    (EOp.read 4).result exMisuse = .ok ∧                              -- … but it may be read
    (EOp.free 8).result exMisuse = .error .invalidop ∧                -- dirty page freed
    (EOp.read 9).result exMisuse = .error .invalidop ∧                -- new page without contents
    (EOp.write 9 .full 1).result exMisuse = .ok ∧
    (EOp.read 2).result exMisuse = .ignored ∧                         -- the free-list page: `Tx.Page` accepts it, not the client's
    EOp.checkpoint.result exMisuse = .ok := by decide

/-- the rejected calls leave `exMisuse` untouched (traced state), also the one that creates no page object -/
example : ((EOp.write 4 .lo 2).stepT exMisuse).1.tx = exMisuse.tx ∧ ((EOp.read 9).stepT exMisuse).1.tx = exMisuse.tx ∧
    ((EOp.free 8).stepT exMisuse).1.f = exMisuse.f := by decide

example : RunInv exFile [3, 4] exMisuse := by
  have he : EngInv exFile [3, 4] := by
    refine ⟨allocWF_spec _ (by decide), by decide, ?_, ?_, ?_, ?_, ?_, by decide, by decide, by decide⟩
    · simp [AscKeys, exFile]
    · intro id hid
      simp only [List.mem_cons, List.not_mem_nil, or_false] at hid
      rcases hid with rfl | rfl <;> simp [InUse, exFile]
    · intro k w hk
      simp only [exFile, Assoc.get?_cons, Assoc.get?_nil] at hk
      split at hk
      · simp_all
      · cases hk
    · intro k1 k2 w h1 h2
      simp only [exFile, Assoc.get?_cons, Assoc.get?_nil] at h1 h2
      split at h1 <;> split at h2 <;> simp_all
    · intro x hx
      simp only [FileSt.internal, exFile, List.map_cons, List.map_nil, List.append_nil, List.cons_append,
        List.nil_append, List.mem_cons, List.not_mem_nil, or_false] at hx
      rcases hx with rfl | rfl <;> simp [InUse, exFile]
  exact runinv_ops he _ _ (runInv_start exFile [3, 4] he false 0 0)

/-- `exFull`: `exFile` with a limit of 8 pages and no free meta page — the file is full -/
def exFull : FileSt := { exFile with alloc := { exFile.alloc with maxPages := 8, mta := { endMarker := 8, free := [] } } }

/-- a running transaction on the full file with pages 3 and 4 dirty -/
def exFullRun : ERunSt := runEOps (ERunSt.start exFull [3, 4] false 0 0) [.write 3 .full 9, .write 4 .full 9]

/-- **out of space**: `Alloc` and `Page.Flush` of page 4 (needs an overwrite page) are rejected with `oom` and change
    nothing; page 3 (already redirected: flushing it releases its overwrite page) can be flushed. `Tx.Flush` in the
    order 3, 4 fails at page 4 and LEAVES PAGE 3 FLUSHED — the one rejected call that changes the transaction state
    (`c15e_flush_oom_changes`); in the order 4, 3 it fails at once and changes nothing. -/
theorem c15e_flush_oom_changes :
    (EOp.alloc 1).result exFullRun = .error .oom ∧ ((EOp.alloc 1).stepT exFullRun).1.tx = exFullRun.tx ∧
    (EOp.flushPage 4).result exFullRun = .error .oom ∧ ((EOp.flushPage 4).stepT exFullRun).1.tx = exFullRun.tx ∧
    ((EOp.flushPage 4).stepT exFullRun).1.f = exFullRun.f ∧
    (EOp.flushPage 3).result exFullRun = .ok ∧
    (EOp.flushAll [3, 4]).result exFullRun = .error .oom ∧
    ((EOp.flushAll [3, 4]).stepT exFullRun).1.tx ≠ exFullRun.tx ∧
    ((EOp.flushAll [3, 4]).stepT exFullRun).1.tx = ((EOp.flushAll [3]).step exFullRun).tx ∧
    (exFullRun.tx.pages.get? 3).map (·.flushed) = some false ∧
    (((EOp.flushAll [3, 4]).stepT exFullRun).1.tx.pages.get? 3).map (·.flushed) = some true ∧
    (EOp.flushAll [4, 3]).result exFullRun = .error .oom ∧
    ((EOp.flushAll [4, 3]).stepT exFullRun).1.tx = exFullRun.tx := by decide

/-- `Inserted` is satisfiable: two rejected calls inserted into a run of three operations -/
example : Inserted (ERunSt.start exFile [3, 4] false 0 0)
    [.alloc 1, .write 8 .full 1, .free 8]
    [.alloc 1, .read 8, .write 8 .full 1, .write 100 .full 1, .free 8] := by
  apply Inserted.keep
  apply Inserted.rej
  · exact rejected_of_error _ _ .invalidop (by decide) (fun o ho => by cases ho)
  apply Inserted.keep
  apply Inserted.rej
  · exact rejected_of_error _ _ .pageid (by decide) (fun o ho => by cases ho)
  apply Inserted.keep
  exact Inserted.nil _


end TxVerif
