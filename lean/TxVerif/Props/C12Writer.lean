/-
  C12 / C06, the writer side: flushes that FAIL (file full, or any other error of the flush
  transaction) are harmless.

  Model/PQWriterFail.lean: every `Write(chunk)` / `Next` / `Flush` call carries an oracle that
  says whether the flush the call runs (explicitly or because the buffer is full) fails and where
  (`beginFail`: `BeginWrite`/`LoadRootPage`; `allocFail`: `AllocN` out of memory, nothing assigned;
  `commitFail`: `flushPages`/`Commit` after the pages got ids and were linked, then unassigned).
  All theorems are for ANY call list with ANY oracles on a new queue.

  * `finishedF`     the events finished by the calls: a `Write` that returned an error appended
                    nothing; a `Next` finishes its event also when it returns an error (the flush
                    check is the last thing `Next` does)
  * `failed_flush_keeps_state`, `failed_write_keeps_state`, `failed_next_finishes_event`
                    a failing flush changes nothing: file (`persisted`, tail position), buffer
                    contents, dirty flags, counters, finished events, event in progress
  * `failed_flush_identity`   … not even the page ids: the writer state is identical
  * `writer_refines_layout_fail`  after a flush that returned success the visible pages are
                    `layout` of ALL events finished so far, whatever failed before
  * `no_loss_no_duplicate`  a reader gets each finished event exactly once, in order
  * `retry_succeeds_equal`  same pages and tail as the failure free writer run on the calls that
                    did not return an error
  * `writer_output_events_only_fail`  the result depends on the finished events only
  * `assigned_only_head`, `failed_flush_range_monotone`  page ids / `next` links left by failures
  * `flush_reports_delivered_count`  (C06) the event count a successful flush reports
                    (`flushCB(activeEventCount)`) is the number of events it added to the queue;
                    failing flushes add none
-/
import TxVerif.Proofs.PQWriterFail
import TxVerif.Props.C05Writer
namespace TxVerif

theorem finished_snoc_flush_any (P pages id0 : Nat) (ops : List FWOp) (o : FlushOutcome) :
    finishedF P pages id0 (ops ++ [.flush o]) = finishedF P pages id0 ops ∧
    inProgressF P pages id0 (ops ++ [.flush o]) = inProgressF P pages id0 ops := by
  unfold finishedF inProgressF finished
  rw [effOps_snoc, ghost_append]
  cases ((stateF P pages id0 ops).stepF (P - 28) (.flush o)).2 <;> simp [effOp, gstep]

/-- **(a) a failing `Flush` changes nothing observable**: the file (`persisted`, tail position,
    visible pages) is as before, and so are the buffer contents, the dirty flags, `avail`,
    `eventID`, `eventBytes`, `activeEventCount` (`SameBuf`), the finished events and the bytes of
    the event in progress. -/
theorem failed_flush_keeps_state (P : Nat) (pages id0 : Nat) (ops : List FWOp) (o : FlushOutcome)
    (hfail : (errsF P pages id0 (ops ++ [.flush o])).getLast? = some true) :
    (stateF P pages id0 (ops ++ [.flush o])).persisted = (stateF P pages id0 ops).persisted ∧
    (stateF P pages id0 (ops ++ [.flush o])).tailPos = (stateF P pages id0 ops).tailPos ∧
    (stateF P pages id0 (ops ++ [.flush o])).visible = (stateF P pages id0 ops).visible ∧
    SameBuf (stateF P pages id0 ops) (stateF P pages id0 (ops ++ [.flush o])) ∧
    finishedF P pages id0 (ops ++ [.flush o]) = finishedF P pages id0 ops ∧
    inProgressF P pages id0 (ops ++ [.flush o]) = inProgressF P pages id0 ops := by
  rw [lastErr_snoc] at hfail
  have hf : (flushF (P - 28) o (stateF P pages id0 ops)).2 = true := by simpa [WState.stepF] using hfail
  have e : stateF P pages id0 (ops ++ [.flush o]) = failFlush o (stateF P pages id0 ops) := by
    rw [stateF_snoc]; exact flushF_fail _ _ _ hf
  have hs := failFlush_same o (stateF P pages id0 ops)
  rw [e]
  refine ⟨hs.persisted, ?_, ?_, hs, (finished_snoc_flush_any P pages id0 ops o).1,
    (finished_snoc_flush_any P pages id0 ops o).2⟩
  · simp only [WState.tailPos, hs.persisted, hs.tailOff, hs.tailId]
  · simp only [WState.visible, hs.persisted, hs.tailOff]

theorem writeF_fail (S : Nat) (s : WState) (c : List UInt8) (o : FlushOutcome)
    (h : (s.writeF S c o).2 = true) :
    (s.writeF S c o).1 = failFlush o s ∧ s.avail ≤ c.length := by
  unfold WState.writeF at h ⊢
  by_cases hc : s.avail ≤ c.length
  · simp only [hc, if_true] at h ⊢
    cases he : (flushF S o s).2 with
    | true => simp only [if_true]; exact ⟨flushF_fail S o s he, trivial⟩
    | false => simp [he] at h
  · simp [hc] at h

theorem nextF_fail (S : Nat) (s : WState) (o : FlushOutcome) (h : (s.nextF S o).2 = true) :
    (s.nextF S o).1 = failFlush o (s.nextCore S) ∧ (s.nextCore S).avail ≤ 4 := by
  unfold WState.nextF at h ⊢
  by_cases hc : (s.nextCore S).avail ≤ 4
  · simp only [hc, if_true] at h ⊢
    exact ⟨flushF_fail S o _ h, trivial⟩
  · simp [hc] at h

/-- **a `Write` whose automatic flush fails** (`return 0, err`) appends nothing: state as after a
    failing `Flush`, the event in progress does not contain the chunk. -/
theorem failed_write_keeps_state (P : Nat) (pages id0 : Nat) (ops : List FWOp) (c : List UInt8)
    (o : FlushOutcome)
    (hfail : (errsF P pages id0 (ops ++ [.write c o])).getLast? = some true) :
    (stateF P pages id0 (ops ++ [.write c o])).persisted = (stateF P pages id0 ops).persisted ∧
    (stateF P pages id0 (ops ++ [.write c o])).tailPos = (stateF P pages id0 ops).tailPos ∧
    (stateF P pages id0 (ops ++ [.write c o])).visible = (stateF P pages id0 ops).visible ∧
    SameBuf (stateF P pages id0 ops) (stateF P pages id0 (ops ++ [.write c o])) ∧
    finishedF P pages id0 (ops ++ [.write c o]) = finishedF P pages id0 ops ∧
    inProgressF P pages id0 (ops ++ [.write c o]) = inProgressF P pages id0 ops ∧
    (stateF P pages id0 ops).avail ≤ c.length := by
  rw [lastErr_snoc] at hfail
  have hf := writeF_fail (P - 28) (stateF P pages id0 ops) c o (by simpa [WState.stepF] using hfail)
  have e : stateF P pages id0 (ops ++ [.write c o]) = failFlush o (stateF P pages id0 ops) := by
    rw [stateF_snoc]; exact hf.1
  have hs := failFlush_same o (stateF P pages id0 ops)
  have hg : effOps P pages id0 (ops ++ [.write c o]) = effOps P pages id0 ops := by
    rw [effOps_snoc, Option.some.inj hfail]; simp [effOp]
  rw [e]
  refine ⟨hs.persisted, ?_, ?_, hs, by simp only [finishedF, hg], by simp only [inProgressF, hg], hf.2⟩
  · simp only [WState.tailPos, hs.persisted, hs.tailOff, hs.tailId]
  · simp only [WState.visible, hs.persisted, hs.tailOff]

/-- **a `Next` whose automatic flush fails** returns the error AFTER the event has been finished
    (`CommitEvent`, `ReserveHdr`, `eventBytes = 0`, `eventID++`, `activeEventCount++`): the file is
    unchanged, the buffer is as after a `Next` without flush, the event counts as finished. -/
theorem failed_next_finishes_event (P : Nat) (pages id0 : Nat) (ops : List FWOp) (o : FlushOutcome)
    (hfail : (errsF P pages id0 (ops ++ [.next o])).getLast? = some true) :
    (stateF P pages id0 (ops ++ [.next o])).persisted = (stateF P pages id0 ops).persisted ∧
    (stateF P pages id0 (ops ++ [.next o])).tailPos = (stateF P pages id0 ops).tailPos ∧
    (stateF P pages id0 (ops ++ [.next o])).visible = (stateF P pages id0 ops).visible ∧
    SameBuf ((stateF P pages id0 ops).nextCore (P - 28)) (stateF P pages id0 (ops ++ [.next o])) ∧
    finishedF P pages id0 (ops ++ [.next o]) =
      finishedF P pages id0 ops ++ [inProgressF P pages id0 ops] ∧
    inProgressF P pages id0 (ops ++ [.next o]) = [] := by
  rw [lastErr_snoc] at hfail
  have hf := nextF_fail (P - 28) (stateF P pages id0 ops) o (by simpa [WState.stepF] using hfail)
  have e : stateF P pages id0 (ops ++ [.next o]) =
      failFlush o ((stateF P pages id0 ops).nextCore (P - 28)) := by
    rw [stateF_snoc]; exact hf.1
  have hs := failFlush_same o ((stateF P pages id0 ops).nextCore (P - 28))
  have hg : effOps P pages id0 (ops ++ [.next o]) = effOps P pages id0 ops ++ [.next] := by
    rw [effOps_snoc]; simp [effOp]
  rw [e]
  refine ⟨hs.persisted, ?_, ?_, hs, ?_, ?_⟩
  · simp only [WState.tailPos, hs.persisted, hs.tailOff, hs.tailId]; rfl
  · simp only [WState.visible, hs.persisted, hs.tailOff]; rfl
  · simp only [finishedF, inProgressF, finished, hg, ghost_append]; rfl
  · simp only [inProgressF, hg, ghost_append]; rfl

theorem stateF_inv (P : Nat) (hP : 64 ≤ P) (pages id0 : Nat) (ops : List FWOp) :
    BufInv (P - 28) id0 (stateF P pages id0 ops) (finishedF P pages id0 ops) (inProgressF P pages id0 ops) :=
  (FInv_reach P pages id0 hP ops).1

/-- every reachable state, whatever failed: the visible pages are the layout of the first
    `tailId - id0` finished events, the rest of the finished events is in the buffer
    (`stateF_inv`), `eventID`/`eventBytes` count all finished events / the bytes in progress -/
theorem writer_persisted_prefix_fail (P : Nat) (hP : 64 ≤ P) (pages id0 : Nat) (ops : List FWOp) :
    (stateF P pages id0 ops).visible =
      layout P id0 ((finishedF P pages id0 ops).take ((stateF P pages id0 ops).tailId - id0)) ∧
    id0 ≤ (stateF P pages id0 ops).tailId ∧
    (stateF P pages id0 ops).tailId ≤ id0 + (finishedF P pages id0 ops).length ∧
    (stateF P pages id0 ops).eventID = id0 + (finishedF P pages id0 ops).length ∧
    (stateF P pages id0 ops).eventBytes = (inProgressF P pages id0 ops).length := by
  have h := stateF_inv P hP pages id0 ops
  exact ⟨by rw [layout_eq_layoutS]; exact h.vis, h.tail_ge, h.tail_le, h.id_eq, h.bytes_eq⟩

/-- a flush that returns success, started in any reachable state, persists all finished events -/
theorem flush_success_delivers (P : Nat) (hP : 64 ≤ P) (pages id0 : Nat) (ops : List FWOp)
    (o : FlushOutcome) (hok : (flushF (P - 28) o (stateF P pages id0 ops)).2 = false) :
    (flushF (P - 28) o (stateF P pages id0 ops)).1.visible = layout P id0 (finishedF P pages id0 ops) ∧
    (flushF (P - 28) o (stateF P pages id0 ops)).1.tailId = id0 + (finishedF P pages id0 ops).length := by
  rw [flushF_ok _ _ _ hok]
  have hf := BufInv_flush (P - 28) id0 _ _ _ (stateF_inv P hP pages id0 ops)
  refine ⟨?_, hf.2⟩
  rw [hf.1.vis, hf.2, layout_eq_layoutS]
  have : id0 + (finishedF P pages id0 ops).length - id0 = (finishedF P pages id0 ops).length := by omega
  rw [this, List.take_length]

/-- **(b)** after any calls with any failures: once a `Flush` returns success the visible pages
    are exactly `layout` of ALL finished events (also those whose `Next` returned an error, those
    buffered through any number of failed flushes) and the persisted tail id is the next event id. -/
theorem writer_refines_layout_fail (P : Nat) (hP : 64 ≤ P) (pages id0 : Nat) (ops : List FWOp)
    (o : FlushOutcome) (hok : (errsF P pages id0 (ops ++ [.flush o])).getLast? = some false) :
    (stateF P pages id0 (ops ++ [.flush o])).visible = layout P id0 (finishedF P pages id0 ops) ∧
    (stateF P pages id0 (ops ++ [.flush o])).tailId = id0 + (finishedF P pages id0 ops).length := by
  rw [lastErr_snoc] at hok
  rw [stateF_snoc]
  exact flush_success_delivers P hP pages id0 ops o (by simpa [WState.stepF] using hok)

/-- the same for the automatic flush at the end of `Next` (buffer full): if `Next` returns success
    after flushing, everything including the event just finished is persisted -/
theorem next_autoflush_delivers (P : Nat) (hP : 64 ≤ P) (pages id0 : Nat) (ops : List FWOp)
    (o : FlushOutcome) (hok : (errsF P pages id0 (ops ++ [.next o])).getLast? = some false)
    (hfull : ((stateF P pages id0 ops).nextCore (P - 28)).avail ≤ 4) :
    (stateF P pages id0 (ops ++ [.next o])).visible =
      layout P id0 (finishedF P pages id0 (ops ++ [.next o])) ∧
    (stateF P pages id0 (ops ++ [.next o])).tailId =
      id0 + (finishedF P pages id0 (ops ++ [.next o])).length := by
  rw [lastErr_snoc] at hok
  have hok2 : ((stateF P pages id0 ops).nextF (P - 28) o).2 = false := by simpa [WState.stepF] using hok
  have e : stateF P pages id0 (ops ++ [.next o]) =
      flushBuffer (P - 28) ((stateF P pages id0 ops).nextCore (P - 28)) := by
    rw [stateF_snoc]
    simp only [WState.stepF, WState.nextF, hfull, if_true] at hok2 ⊢
    exact flushF_ok _ _ _ hok2
  have hn := FInv_nextCore (P - 28) id0 (by omega) _ _ (FInv_reach P pages id0 hP ops)
  have hf := BufInv_flush (P - 28) id0 _ _ _ hn.1
  have hfin : finishedF P pages id0 (ops ++ [.next o]) =
      finishedF P pages id0 ops ++ [inProgressF P pages id0 ops] := by
    simp only [finishedF, inProgressF, finished, effOps_snoc, effOp, ghost_append]; rfl
  rw [e, hfin]
  refine ⟨?_, hf.2⟩
  rw [hf.1.vis, hf.2, layout_eq_layoutS]
  have : ∀ l : List (List UInt8), id0 + l.length - id0 = l.length := by intro l; omega
  rw [this, List.take_length]; rfl

/-- **(c) no loss, no duplicate**: after a `Flush` that returned success a reader over the
    persisted chain (cut at the tail, or as it is on disk and stopping after `tailId - id0`
    events) gets each finished event exactly once, in order, byte-identical - the events of calls
    that failed in between included once (`Next` with error) or not at all (chunks of failed
    `Write`s), never twice. -/
theorem no_loss_no_duplicate (P : Nat) (hP : 64 ≤ P) (pages id0 : Nat) (ops : List FWOp)
    (o : FlushOutcome) (hok : (errsF P pages id0 (ops ++ [.flush o])).getLast? = some false)
    (hsz : ∀ e ∈ finishedF P pages id0 ops, e.length < 2 ^ 32) :
    parseChain P (stateF P pages id0 (ops ++ [.flush o])).visible (finishedF P pages id0 ops).length =
      some (finishedF P pages id0 ops) ∧
    parseChain P (stateF P pages id0 (ops ++ [.flush o])).persisted
      ((stateF P pages id0 (ops ++ [.flush o])).tailId - id0) = some (finishedF P pages id0 ops) := by
  have h := writer_refines_layout_fail P hP pages id0 ops o hok
  have h1 : parseChain P (stateF P pages id0 (ops ++ [.flush o])).visible
      (finishedF P pages id0 ops).length = some (finishedF P pages id0 ops) := by
    rw [h.1]; exact layout_roundtrip P hP id0 _ hsz
  refine ⟨h1, ?_⟩
  have e : (stateF P pages id0 (ops ++ [.flush o])).tailId - id0 = (finishedF P pages id0 ops).length := by
    rw [h.2]; omega
  rw [e]
  exact parseChain_mono P _ _ _ _ (cutAt_ext _ _) h1

/-- the same for every consumer behaviour (per event: read to its end / skipped) -/
theorem no_loss_no_duplicate_via (P : Nat) (hP : 64 ≤ P) (pages id0 : Nat) (ops : List FWOp)
    (o : FlushOutcome) (modes : List Bool)
    (hok : (errsF P pages id0 (ops ++ [.flush o])).getLast? = some false)
    (hm : modes.length = (finishedF P pages id0 ops).length)
    (hsz : ∀ e ∈ finishedF P pages id0 ops, e.length < 2 ^ 32) :
    parseChainVia P (stateF P pages id0 (ops ++ [.flush o])).visible modes =
      some (finishedF P pages id0 ops) := by
  rw [(writer_refines_layout_fail P hP pages id0 ops o hok).1]
  exact layout_roundtrip_via P hP id0 _ modes hm hsz

/-- **(d) retry succeeds, same result**: calls with any failing flushes followed by a `Flush` that
    succeeds persist the same pages and tail position as the failure free writer
    (Model/PQWriter.lean) on the effective calls = the same calls with those that returned an error
    removed (`effOps_eq`; a `Next` that returned an error stays, its event was finished). -/
theorem retry_succeeds_equal (P : Nat) (hP : 64 ≤ P) (pages id0 : Nat) (ops : List FWOp)
    (o : FlushOutcome) (hok : (errsF P pages id0 (ops ++ [.flush o])).getLast? = some false) :
    (stateF P pages id0 (ops ++ [.flush o])).visible =
      (runWriter P pages id0 (effOps P pages id0 ops ++ [.flush])).visible ∧
    (stateF P pages id0 (ops ++ [.flush o])).tailPos =
      (runWriter P pages id0 (effOps P pages id0 ops ++ [.flush])).tailPos := by
  have h1 := stateF_inv P hP pages id0 (ops ++ [.flush o])
  rw [(finished_snoc_flush_any P pages id0 ops o).1] at h1
  have h2 := runWriter_inv P hP pages id0 (effOps P pages id0 ops ++ [.flush])
  have e2 : (ghost (effOps P pages id0 ops ++ [.flush])).1 = finishedF P pages id0 ops :=
    finished_flush _
  rw [e2] at h2
  exact BufInv_flushed_eq (P - 28) id0 _ _ _ _ _ h1 h2
    (by rw [(writer_refines_layout_fail P hP pages id0 ops o hok).2,
            (writer_refines_layout P hP pages id0 (effOps P pages id0 ops)).2]; rfl)

/-- (d) inside the model with failures: the effective calls, all with outcome `ok` -/
theorem retry_succeeds_equal_ok (P : Nat) (hP : 64 ≤ P) (pages id0 : Nat) (ops : List FWOp)
    (o : FlushOutcome) (hok : (errsF P pages id0 (ops ++ [.flush o])).getLast? = some false) :
    (stateF P pages id0 (ops ++ [.flush o])).visible =
      (stateF P pages id0 ((effOps P pages id0 ops ++ [WOp.flush]).map liftOk)).visible ∧
    (stateF P pages id0 (ops ++ [.flush o])).tailPos =
      (stateF P pages id0 ((effOps P pages id0 ops ++ [WOp.flush]).map liftOk)).tailPos ∧
    errsF P pages id0 ((effOps P pages id0 ops ++ [WOp.flush]).map liftOk) =
      List.replicate (effOps P pages id0 ops ++ [WOp.flush]).length false := by
  have e : runWriterF P pages id0 ((effOps P pages id0 ops ++ [WOp.flush]).map liftOk) =
      (runWriter P pages id0 (effOps P pages id0 ops ++ [WOp.flush]), _, _) := runF_liftOk _ _ _
  have h := retry_succeeds_equal P hP pages id0 ops o hok
  simp only [stateF, errsF, e] at h ⊢
  exact ⟨h.1, h.2, trivial⟩

/-- failures do not matter at all for the result: two call lists (different chunking, flushes,
    failures, buffer sizes) that finish the same events persist the same pages and tail once
    their last `Flush` succeeds -/
theorem writer_output_events_only_fail (P : Nat) (hP : 64 ≤ P) (pages1 pages2 id0 : Nat)
    (ops1 ops2 : List FWOp) (o1 o2 : FlushOutcome)
    (hok1 : (errsF P pages1 id0 (ops1 ++ [.flush o1])).getLast? = some false)
    (hok2 : (errsF P pages2 id0 (ops2 ++ [.flush o2])).getLast? = some false)
    (he : finishedF P pages1 id0 ops1 = finishedF P pages2 id0 ops2) :
    (stateF P pages1 id0 (ops1 ++ [.flush o1])).visible = (stateF P pages2 id0 (ops2 ++ [.flush o2])).visible ∧
    (stateF P pages1 id0 (ops1 ++ [.flush o1])).tailPos = (stateF P pages2 id0 (ops2 ++ [.flush o2])).tailPos := by
  have h1 := retry_succeeds_equal P hP pages1 id0 ops1 o1 hok1
  have h2 := retry_succeeds_equal P hP pages2 id0 ops2 o2 hok2
  have h := writer_output_events_only P hP pages1 pages2 id0 _ _ he
  exact ⟨h1.1.trans (h.1.trans h2.1.symm), h1.2.trans (h.2.trans h2.2.symm)⟩

/-- **C06, counting**: `activeEventCount` (what `flushBuffer` passes to `flushCB` and the observer
    on success) is the number of finished events not yet in the queue, through any failures.  A
    flush that returns success adds exactly that many events to the queue (persisted tail id) and
    resets the counter; a flush that returns an error adds none and keeps the counter. -/
theorem flush_reports_delivered_count (P : Nat) (hP : 64 ≤ P) (pages id0 : Nat) (ops : List FWOp)
    (o : FlushOutcome) :
    (stateF P pages id0 ops).activeEventCount + (stateF P pages id0 ops).tailId =
      id0 + (finishedF P pages id0 ops).length ∧
    ((flushF (P - 28) o (stateF P pages id0 ops)).2 = false →
      (flushF (P - 28) o (stateF P pages id0 ops)).1.tailId =
        (stateF P pages id0 ops).tailId + (stateF P pages id0 ops).activeEventCount ∧
      (flushF (P - 28) o (stateF P pages id0 ops)).1.activeEventCount = 0) ∧
    ((flushF (P - 28) o (stateF P pages id0 ops)).2 = true →
      (flushF (P - 28) o (stateF P pages id0 ops)).1.tailId = (stateF P pages id0 ops).tailId ∧
      (flushF (P - 28) o (stateF P pages id0 ops)).1.activeEventCount =
        (stateF P pages id0 ops).activeEventCount) := by
  have h := FInv_reach P pages id0 hP ops
  have hid : (stateF P pages id0 ops).eventID = id0 + (finishedF P pages id0 ops).length := h.1.id_eq
  have hc := h.2
  refine ⟨by rw [hc, hid], ?_, ?_⟩
  · intro hok
    rw [flushF_ok _ _ _ hok, flushBuffer_count]
    have ht : (flushBuffer (P - 28) (stateF P pages id0 ops)).tailId =
        id0 + (finishedF P pages id0 ops).length := (FInv_flush_ok (P - 28) id0 _ _ h).2
    refine ⟨?_, rfl⟩
    omega
  · intro hf
    rw [flushF_fail _ _ _ hf]
    have e := failFlush_same o (stateF P pages id0 ops)
    exact ⟨e.tailId, e.count⟩

/-- **(a), exact form**: in every reachable state only the head page of the buffer has an on-disk
    id (`Tidy`), so the `unassignPages` of a failing flush undoes its `allocatePages` exactly: a
    `Flush` / `Write` that returns an error leaves the writer state - page ids included -
    IDENTICAL, a `Next` that returns an error leaves exactly the state of a `Next` without flush.
    The ids in memory never diverge from the rolled back file. -/
theorem failed_flush_identity (P : Nat) (hP : 64 ≤ P) (pages id0 : Nat) (ops : List FWOp)
    (o : FlushOutcome) :
    ((errsF P pages id0 (ops ++ [.flush o])).getLast? = some true →
      stateF P pages id0 (ops ++ [.flush o]) = stateF P pages id0 ops) ∧
    (∀ c, (errsF P pages id0 (ops ++ [.write c o])).getLast? = some true →
      stateF P pages id0 (ops ++ [.write c o]) = stateF P pages id0 ops) ∧
    ((errsF P pages id0 (ops ++ [.next o])).getLast? = some true →
      stateF P pages id0 (ops ++ [.next o]) = (stateF P pages id0 ops).nextCore (P - 28)) := by
  have ht := Tidy_reach P pages id0 hP ops
  have hi := FInv_reach P pages id0 hP ops
  refine ⟨?_, ?_, ?_⟩
  · intro hfail
    rw [lastErr_snoc] at hfail
    rw [stateF_snoc]
    have hf : (flushF (P - 28) o (stateF P pages id0 ops)).2 = true := by
      simpa [WState.stepF] using hfail
    exact (flushF_fail _ _ _ hf).trans (failFlush_id o _ ht)
  · intro c hfail
    rw [lastErr_snoc] at hfail
    rw [stateF_snoc]
    have hf := writeF_fail (P - 28) (stateF P pages id0 ops) c o (by simpa [WState.stepF] using hfail)
    exact hf.1.trans (failFlush_id o _ ht)
  · intro hfail
    rw [lastErr_snoc] at hfail
    rw [stateF_snoc]
    have hf := nextF_fail (P - 28) (stateF P pages id0 ops) o (by simpa [WState.stepF] using hfail)
    exact hf.1.trans (failFlush_id o _
      (Tidy_nextCore (P - 28) id0 _ _ _ hi.1 ht))

/-- only the head page of the buffer ever has an on-disk id, and it has one iff the buffer's head
    is the last persisted page -/
theorem assigned_only_head (P : Nat) (hP : 64 ≤ P) (pages id0 : Nat) (ops : List FWOp) :
    (∀ b ∈ (asg (stateF P pages id0 ops)).tail, b = false) ∧
    ((stateF P pages id0 ops).headAssigned = false → (stateF P pages id0 ops).persisted = []) :=
  ⟨Tidy_reach P pages id0 hP ops, fun h => by
    obtain ⟨D, _, _, h3⟩ := (stateF_inv P hP pages id0 ops).disk
    exact (h3 h).2⟩

/-- **stale links are never written**: `linkPages` of a failed flush (`commitFail`) leaves ids that
    are no longer valid in the `next` fields of the pages `start … last-1` of its range (the range
    always starts at the buffer head).  Until a flush succeeds the range handed to a flush never
    gets shorter, so the next flush that reaches `flushPages` re-links all of these pages first
    (`linkPages` rewrites every page of the range but the last), and its own last page was never
    linked by the failed one. -/
theorem failed_flush_range_monotone (P : Nat) (hP : 64 ≤ P) (pages id0 : Nat) (ops1 ops2 : List FWOp)
    (hn : noFlushOk (P - 28) (stateF P pages id0 ops1) ops2 = true) :
    rangeLen (stateF P pages id0 ops1) ≤ rangeLen (stateF P pages id0 (ops1 ++ ops2)) := by
  have e : stateF P pages id0 (ops1 ++ ops2) = (runF (P - 28) (stateF P pages id0 ops1) ops2).1 := by
    simp [stateF, runWriterF, runF_append]
  rw [e]
  exact rangeLen_runF (P - 28) id0 (by omega) ops2 _ _ (FInv_reach P pages id0 hP ops1)
    (Tidy_reach P pages id0 hP ops1) hn

/-! ## concrete instances (P = 64: 36 payload bytes per page, buffer of 5 pages = 180 bytes) -/

/-- `Write` of `n` bytes `b` with flush oracle `o` -/
def wrF (n : Nat) (b : UInt8) (o : FlushOutcome := .ok) : FWOp := .write (ev n b) o

-- `allocFail` (file full) in an explicit `Flush`, then a `Flush` that succeeds: one 40 byte event on
-- two new pages; the failing flush returns the error, persists nothing and keeps the state, the
-- retry persists `layout` of the event
set_option maxRecDepth 100000 in
example : errsF 64 5 0 [wrF 40 1, .next .ok, .flush .allocFail, .flush .ok] = [false, false, true, false] ∧
    (stateF 64 5 0 [wrF 40 1, .next .ok, .flush .allocFail]).dump = ["tail 0:0:0"] ∧
    stateF 64 5 0 [wrF 40 1, .next .ok, .flush .allocFail] = stateF 64 5 0 [wrF 40 1, .next .ok] ∧
    (stateF 64 5 0 [wrF 40 1, .next .ok, .flush .allocFail]).activeEventCount = 1 ∧
    (stateF 64 5 0 [wrF 40 1, .next .ok, .flush .allocFail, .flush .ok]).dump =
      ["0:0:28:36", "0:0:0:8", "tail 1:36:1"] ∧
    (stateF 64 5 0 [wrF 40 1, .next .ok, .flush .allocFail, .flush .ok]).visible = layout 64 0 [ev 40 1] := by
  decide +kernel

-- `commitFail` with two newly assigned pages: range of 2 pages, `unallocated` = page 0; both get an
-- id (`allocatePages`), both lose it again (`unassignPages`): state as before; retry succeeds
set_option maxRecDepth 100000 in
example : (flushRange (stateF 64 5 0 [wrF 40 1, .next .ok])).length = 2 ∧
    firstUnassigned (flushRange (stateF 64 5 0 [wrF 40 1, .next .ok])) = some 0 ∧
    asg ((stateF 64 5 0 [wrF 40 1, .next .ok]).setAssigned 0 2 true) = [true, true] ∧
    asg (stateF 64 5 0 [wrF 40 1, .next .ok, .flush .commitFail]) = [false, false] ∧
    stateF 64 5 0 [wrF 40 1, .next .ok, .flush .commitFail] = stateF 64 5 0 [wrF 40 1, .next .ok] ∧
    errsF 64 5 0 [wrF 40 1, .next .ok, .flush .commitFail, .flush .ok] = [false, false, true, false] ∧
    (stateF 64 5 0 [wrF 40 1, .next .ok, .flush .commitFail, .flush .ok]).visible = layout 64 0 [ev 40 1] := by
  decide +kernel

-- `commitFail` with the persisted head page + two new pages: `unallocated` = page 1, the head keeps
-- its id, pages 1 and 2 get and lose theirs; the persisted page is not touched (rolled back); the
-- retry rewrites the head page and adds the two pages
set_option maxRecDepth 100000 in
example : asg (stateF 64 5 0 [wrF 5 7, .next .ok, .flush .ok, wrF 60 1, .next .ok]) = [true, false, false] ∧
    firstUnassigned (flushRange (stateF 64 5 0 [wrF 5 7, .next .ok, .flush .ok, wrF 60 1, .next .ok])) = some 1 ∧
    asg ((stateF 64 5 0 [wrF 5 7, .next .ok, .flush .ok, wrF 60 1, .next .ok]).setAssigned 1 3 true) =
      [true, true, true] ∧
    asg (stateF 64 5 0 [wrF 5 7, .next .ok, .flush .ok, wrF 60 1, .next .ok, .flush .commitFail]) =
      [true, false, false] ∧
    (stateF 64 5 0 [wrF 5 7, .next .ok, .flush .ok, wrF 60 1, .next .ok, .flush .commitFail]).dump =
      ["0:0:28:9", "tail 0:37:1"] ∧
    (stateF 64 5 0 [wrF 5 7, .next .ok, .flush .ok, wrF 60 1, .next .ok, .flush .commitFail, .flush .ok]).dump =
      ["0:1:28:36", "0:0:0:36", "0:0:0:1", "tail 2:29:2"] ∧
    (stateF 64 5 0 [wrF 5 7, .next .ok, .flush .ok, wrF 60 1, .next .ok, .flush .commitFail, .flush .ok]).visible =
      layout 64 0 [ev 5 7, ev 60 1] := by
  decide +kernel

-- only the already persisted partial tail page is dirty (`unallocated == nil`): `AllocN` is not
-- called, so "file full" cannot make this flush fail (it succeeds under the `allocFail` oracle);
-- `commitFail` / `beginFail` fail it, `unassignPages(nil, …)` returns at once, the page keeps its id
-- and stays dirty; the retry rewrites it
set_option maxRecDepth 100000 in
example : asg (stateF 64 5 0 [wrF 5 7, .next .ok, .flush .ok, wrF 3 1, .next .ok]) = [true] ∧
    (flushRange (stateF 64 5 0 [wrF 5 7, .next .ok, .flush .ok, wrF 3 1, .next .ok])).length = 1 ∧
    firstUnassigned (flushRange (stateF 64 5 0 [wrF 5 7, .next .ok, .flush .ok, wrF 3 1, .next .ok])) = none ∧
    errsF 64 5 0 [wrF 5 7, .next .ok, .flush .ok, wrF 3 1, .next .ok, .flush .allocFail] =
      [false, false, false, false, false, false] ∧
    errsF 64 5 0 [wrF 5 7, .next .ok, .flush .ok, wrF 3 1, .next .ok, .flush .commitFail, .flush .beginFail, .flush .ok] =
      [false, false, false, false, false, true, true, false] ∧
    stateF 64 5 0 [wrF 5 7, .next .ok, .flush .ok, wrF 3 1, .next .ok, .flush .commitFail, .flush .beginFail] =
      stateF 64 5 0 [wrF 5 7, .next .ok, .flush .ok, wrF 3 1, .next .ok] ∧
    (stateF 64 5 0 [wrF 5 7, .next .ok, .flush .ok, wrF 3 1, .next .ok, .flush .commitFail, .flush .beginFail]).dump =
      ["0:0:28:9", "tail 0:37:1"] ∧
    (stateF 64 5 0 [wrF 5 7, .next .ok, .flush .ok, wrF 3 1, .next .ok, .flush .commitFail, .flush .beginFail, .flush .ok]).dump =
      ["0:1:28:16", "tail 0:44:2"] := by
  decide +kernel

-- the automatic flush inside `Write` fails (avail 12 <= 20): `Write` returns the error, the chunk
-- is not appended (not among the effective calls); the caller writes it again, now the flush works
set_option maxRecDepth 100000 in
example : errsF 64 5 0 [wrF 100 1, .next .ok, wrF 60 2, wrF 20 2 .allocFail, wrF 20 2, .next .ok, .flush .ok] =
      [false, false, false, true, false, false, false] ∧
    stateF 64 5 0 [wrF 100 1, .next .ok, wrF 60 2, wrF 20 2 .allocFail] =
      stateF 64 5 0 [wrF 100 1, .next .ok, wrF 60 2] ∧
    effOps 64 5 0 [wrF 100 1, .next .ok, wrF 60 2, wrF 20 2 .allocFail, wrF 20 2, .next .ok, .flush .ok] =
      [wrEv 100 1, .next, wrEv 60 2, wrEv 20 2, .next, .flush] ∧
    (stateF 64 5 0 [wrF 100 1, .next .ok, wrF 60 2, wrF 20 2 .allocFail, wrF 20 2]).dump =
      ["0:0:28:36", "0:0:0:36", "0:0:0:32", "tail 2:60:1"] ∧
    (stateF 64 5 0 [wrF 100 1, .next .ok, wrF 60 2, wrF 20 2 .allocFail, wrF 20 2, .next .ok, .flush .ok]).visible =
      layout 64 0 [ev 100 1, ev 80 2] := by
  decide +kernel

-- the automatic flush inside `Next` fails (avail 2 <= 4): `Next` returns the error but the event is
-- finished (`eventID` 1, `activeEventCount` 1, counted in `finishedF`) and stays in the buffer;
-- the next `Flush` delivers it
set_option maxRecDepth 100000 in
example : errsF 64 5 0 [wrF 170 1, .next .commitFail, .flush .ok] = [false, true, false] ∧
    (stateF 64 5 0 [wrF 170 1, .next .commitFail]).dump = ["tail 0:0:0"] ∧
    stateF 64 5 0 [wrF 170 1, .next .commitFail] = (stateF 64 5 0 [wrF 170 1]).nextCore 36 ∧
    (stateF 64 5 0 [wrF 170 1, .next .commitFail]).eventID = 1 ∧
    (stateF 64 5 0 [wrF 170 1, .next .commitFail]).activeEventCount = 1 ∧
    finishedF 64 5 0 [wrF 170 1, .next .commitFail] = [ev 170 1] ∧
    (stateF 64 5 0 [wrF 170 1, .next .commitFail, .flush .ok]).dump =
      ["0:0:28:36", "0:0:0:36", "0:0:0:36", "0:0:0:36", "0:0:0:30", "tail 4:58:1"] ∧
    (stateF 64 5 0 [wrF 170 1, .next .commitFail, .flush .ok]).visible = layout 64 0 [ev 170 1] := by
  decide +kernel

/-- C12 scenario "file full": every flush fails for a while (explicit, inside `Write`, inside `Next`;
    `allocFail`, `commitFail`, `beginFail`), events keep being finished, then space is available -/
def opsFull : List FWOp :=
  [wrF 100 1, .next .ok, wrF 60 2, wrF 20 2 .allocFail, .flush .allocFail, .next .ok, wrF 5 3,
   .flush .commitFail, .next .beginFail, wrF 1 4 .allocFail]

-- four calls report the error, nothing reaches the file, the three finished events (the third one
-- finished by a `Next` that returned an error) stay buffered (`activeEventCount` 3, buffer over its
-- limit: avail -1, `Write` is refused); the first flush that succeeds delivers all three, in
-- order, none twice; the reader gets exactly them
set_option maxRecDepth 100000 in
example : errsF 64 5 0 opsFull = [false, false, false, true, true, false, false, true, true, true] ∧
    (stateF 64 5 0 opsFull).dump = ["tail 0:0:0"] ∧
    (stateF 64 5 0 opsFull).avail = -1 ∧
    (stateF 64 5 0 opsFull).activeEventCount = 3 ∧
    asg (stateF 64 5 0 opsFull) = [false, false, false, false, false, false] ∧
    finishedF 64 5 0 opsFull = [ev 100 1, ev 60 2, ev 5 3] ∧
    effOps 64 5 0 opsFull = [wrEv 100 1, .next, wrEv 60 2, .next, wrEv 5 3, .next] ∧
    errsF 64 5 0 (opsFull ++ [.flush .ok]) =
      [false, false, false, true, true, false, false, true, true, true, false] ∧
    (stateF 64 5 0 (opsFull ++ [.flush .ok])).dump =
      ["0:0:28:36", "0:0:0:36", "1:1:60:36", "0:0:0:36", "2:2:52:33", "tail 4:61:3"] ∧
    (stateF 64 5 0 (opsFull ++ [.flush .ok])).visible = layout 64 0 [ev 100 1, ev 60 2, ev 5 3] ∧
    (stateF 64 5 0 (opsFull ++ [.flush .ok])).activeEventCount = 0 ∧
    parseChain 64 (stateF 64 5 0 (opsFull ++ [.flush .ok])).persisted 3 =
      some [ev 100 1, ev 60 2, ev 5 3] := by
  decide +kernel

-- OBSERVATION (interface, not a violation of C12/C06): `Next` reports the flush error AFTER the
-- event has been finished, and nothing tells the caller so.  A caller that takes the error as "event
-- not written" and submits the event again gets it into the queue twice; one that just calls `Next`
-- again adds an empty event.  The queue then holds exactly what the model says was finished.
set_option maxRecDepth 100000 in
example : errsF 64 5 0 [wrF 170 1, .next .allocFail, wrF 170 1, .next .ok] = [false, true, false, false] ∧
    finishedF 64 5 0 [wrF 170 1, .next .allocFail, wrF 170 1, .next .ok] = [ev 170 1, ev 170 1] ∧
    errsF 64 5 0 [wrF 170 1, .next .allocFail, .next .ok] = [false, true, false] ∧
    finishedF 64 5 0 [wrF 170 1, .next .allocFail, .next .ok] = [ev 170 1, []] ∧
    (stateF 64 5 0 [wrF 170 1, .next .allocFail, .next .ok]).dump =
      ["0:0:28:36", "0:0:0:36", "0:0:0:36", "0:0:0:36", "1:1:58:34", "tail 4:62:2"] := by
  decide +kernel

end TxVerif
