/-
  C12 (space of acknowledged events is reclaimed), quantitative, on the whole-queue model.

  `S = P - 28` payload bytes per page; an event of `s` bytes takes `4 + s` bytes of the chain (`framedBytes`);
  a page in which fewer than 4 bytes are left is padded (so up to 3 bytes per page carry nothing: the divisor is
  `S - 3`).  `collectFreePages` keeps the page in which the header of the LAST ACKNOWLEDGED event starts
  (`lastID++`), and with it every page behind it: the pages holding the data of that event stay until the next
  ACK.  So the pages the queue holds are bounded by what the un-ACKed flushed events PLUS THE LAST ACKNOWLEDGED
  event need:

  * `queue_space_inv` / `queue_space_bound` (every related pair of states; `QReach`, `QCReach` (with crashes),
    `CReach` (two threads) versions):
        inuse · (S - 3) ≤ T + 2·S - 7      and      inuse ≤ T / (S - 3) + 2
    where `T = Σ (4 + sᵢ)` over the flushed events with index `≥ acked - 1`.  The bound does not mention how
    many events were ever written or how often the queue was reopened or crashed.
  * `queue_drained_small`: with everything acknowledged (`acked = flushed`) the queue holds at most
    `(4 + s_last) / (S - 3) + 2` pages (`s_last` = size of the last event), at most 2 if that event and its
    header take less than `S - 3` bytes - whatever was written before.
  * the constant is exact: `space_bound_tight` (a drained queue holding exactly `T/(S-3) + 2 = 3` pages, also
    `inuse·(S-3) = T + 2S - 7` rounded down), `space_small_tight` (2 pages for a small last event);
    the last acknowledged event cannot be left out of `T` (`space_last_acked_needed`: a drained queue holding
    4 pages for one big event), and the divisor cannot be `S` with any constant that works for `S - 3`
    (`space_divisor`: 37 un-ACKed events of `S - 7` bytes need 37 pages, `⌈Σ(4+sᵢ)/S⌉ + 2 = 36`).
  * `queue_ack_monotone`: no ACK (accepted or rejected) increases `inuse`; `queue_flush_pages`: a producer call
    increases `inuse` by exactly the number of pages its flush appends to the chain (0 without flush), the head
    position stays.
-/
import TxVerif.Proofs.PQQueueSpace
import TxVerif.Props.PQQueueConc
namespace TxVerif

theorem qhdr_zero (S : Nat) (h4 : 4 ≤ S) (evs : List (List UInt8)) : qhdr S evs 0 = (0, 28) := by
  have : ¬ qpad S evs 0 := by
    simp only [qpad]
    have : (qc S evs 0).payload.length = 0 := rfl
    omega
  simp [qhdr, this, qpos]
  exact ⟨rfl, rfl⟩

/-- **C12, space bound (multiplicative form).**  In related states the pages the queue holds, times the usable
    bytes per page, are at most the framed bytes of the flushed events from the last acknowledged one on, plus
    less than two pages. -/
theorem queue_space_inv (c : QCfg) (hP : 64 ≤ c.P) (q : PQState) (a : ASpec) (hI : QInv c q a) :
    q.inuse * (c.S - 3) ≤ framedBytes ((a.events.take a.flushed).drop (a.acked - 1)) + 2 * c.S - 7 := by
  obtain ⟨hS, h4⟩ := c.S_add hP
  have hH := hI.h
  have hlen := CRel_length _ _ _ _ hI.crel
  by_cases hF0 : a.flushed = 0
  · rw [hF0] at hlen
    simp only [if_true] at hlen
    have := hH.inuse
    have h0 : q.inuse = 0 := by omega
    rw [h0]; simp
  have hFpos : 0 < a.flushed := by omega
  have hin : q.inuse = q.w.persisted.length - q.headPos.1 := by have := hH.inuse; omega
  by_cases hA : a.acked = 0
  · -- nothing acknowledged: the head is the first page
    obtain ⟨K, k1, k2, k3, k4, k5⟩ := hH.head hFpos
    have hid : q.hdr.headId = 0 := by rcases hH.headLt with h | ⟨_, h⟩ <;> omega
    obtain ⟨hq, _⟩ := page_is_qhdr c.S h4 a.events a.flushed _ hI.crel hI.fle hFpos _ K k1 k3
    rw [k4, hid, qhdr_zero c.S h4] at hq
    have hhp : q.headPos.1 = 0 := by have := congrArg Prod.fst hq; simpa using this.symm
    have := chain_pages_bound c.S h4 a.events a.flushed _ hI.crel hI.fle 0 hFpos
    rw [qhdr_zero c.S h4] at this
    rw [hin, hhp, hA]
    simpa using this
  · have hA1 : a.acked - 1 < a.flushed := by have := hH.le; omega
    have hge : (qhdr c.S a.events (a.acked - 1)).1 ≤ q.headPos.1 := by
      rcases hH.headGe with h | h
      · exact absurd h hA
      · exact h
    have := chain_pages_bound c.S h4 a.events a.flushed _ hI.crel hI.fle (a.acked - 1) hA1
    rw [hin]
    have hmono : (q.w.persisted.length - q.headPos.1) * (c.S - 3) ≤
        (q.w.persisted.length - (qhdr c.S a.events (a.acked - 1)).1) * (c.S - 3) :=
      Nat.mul_le_mul_right _ (by omega)
    omega

theorem space_div (n T K : Nat) (hK : 0 < K) (h : n * K ≤ T + 2 * K - 1) : n ≤ T / K + 2 := by
  rcases n with _ | _ | m
  · exact Nat.zero_le _
  · exact Nat.le_add_left _ _
  · have e : (m + 1 + 1) * K = m * K + 2 * K := by rw [Nat.add_mul, Nat.add_mul]; omega
    rw [e] at h
    have : m ≤ T / K := (Nat.le_div_iff_mul_le hK).mpr (by omega)
    omega

/-- **C12, space bound.**  `inuse ≤ T / (S - 3) + 2` with `T` = framed bytes of the flushed events with index
    `≥ acked - 1` (the un-ACKed ones and the last acknowledged one). -/
theorem queue_space_bound_inv (c : QCfg) (hP : 64 ≤ c.P) (q : PQState) (a : ASpec) (hI : QInv c q a) :
    q.inuse ≤ framedBytes ((a.events.take a.flushed).drop (a.acked - 1)) / (c.S - 3) + 2 := by
  obtain ⟨hS, h4⟩ := c.S_add hP
  have h := queue_space_inv c hP q a hI
  have hS36 : 36 ≤ c.S := by omega
  apply space_div _ _ _ (by omega)
  have : 2 * (c.S - 3) - 1 = 2 * c.S - 7 := by omega
  omega

/-- reachable states of the sequential machine -/
theorem queue_space_bound (c : QCfg) (hP : 64 ≤ c.P) (q : PQState) (a : ASpec) (hR : QReach c q a) :
    q.inuse ≤ framedBytes ((a.events.take a.flushed).drop (a.acked - 1)) / (c.S - 3) + 2 ∧
    q.inuse = q.livePages.length :=
  ⟨queue_space_bound_inv c hP q a (hR.inv hP), (queue_pages_in_use c hP q a hR).1⟩

/-- … with crashes between and inside operations -/
theorem queue_space_bound_crash (c : QCfg) (hP : 64 ≤ c.P) (q : PQState) (a : ASpec) (hR : QCReach c q a) :
    q.inuse ≤ framedBytes ((a.events.take a.flushed).drop (a.acked - 1)) / (c.S - 3) + 2 :=
  queue_space_bound_inv c hP q a (hR.inv hP)

/-- … and of the two-thread system, at every reachable state of every schedule -/
theorem queue_space_bound_conc (c : QCfg) (hP : 64 ≤ c.P) (p0 c0 : List QOp) (s : CState) (hR : CReach c p0 c0 s) :
    s.q.inuse ≤ framedBytes ((s.a.events.take s.a.flushed).drop (s.a.acked - 1)) / (c.S - 3) + 2 :=
  queue_space_bound_inv c hP s.q s.a (hR.inv hP).1.qinv

theorem take_drop_last {α : Type} (l : List α) (F : Nat) (hF : F ≤ l.length) (h0 : 0 < F) :
    (l.take F).drop (F - 1) = [l[F - 1]'(by omega)] := by
  have hlen : ((l.take F).drop (F - 1)).length = 1 := by rw [List.length_drop, List.length_take]; omega
  match hd : (l.take F).drop (F - 1), hlen with
  | [x], _ =>
    have : ((l.take F).drop (F - 1))[0]? = some x := by rw [hd]; rfl
    rw [List.getElem?_drop, List.getElem?_take] at this
    simp only [Nat.add_zero, show F - 1 < F by omega, if_true] at this
    rw [List.getElem?_eq_getElem (by omega)] at this
    simp only [Option.some.injEq] at this
    rw [this]

/-- **A drained queue is small.**  With every flushed event acknowledged the queue holds at most
    `(4 + s_last)/(S - 3) + 2` pages, `s_last` the size of the last event, whatever was written before; at most
    2 pages if the last event with its header takes less than `S - 3` bytes. -/
theorem queue_drained_small (c : QCfg) (hP : 64 ≤ c.P) (q : PQState) (a : ASpec) (hI : QInv c q a)
    (hall : a.acked = a.flushed) (h0 : 0 < a.flushed) :
    q.inuse ≤ (4 + (a.events[a.flushed - 1]'(by have := hI.fle; omega)).length) / (c.S - 3) + 2 ∧
    (4 + (a.events[a.flushed - 1]'(by have := hI.fle; omega)).length < c.S - 3 → q.inuse ≤ 2) := by
  have h := queue_space_bound_inv c hP q a hI
  rw [hall, take_drop_last a.events a.flushed hI.fle h0] at h
  simp only [framedBytes, List.map_cons, List.map_nil, List.sum_cons, List.sum_nil, Nat.add_zero] at h
  refine ⟨h, fun hs => ?_⟩
  rw [Nat.div_eq_of_lt hs] at h
  omega

/-- **An ACK never increases the number of pages held** (whatever its outcome). -/
theorem queue_ack_monotone (c : QCfg) (q : PQState) (n : Nat) : (q.step c (.ack n)).1.inuse ≤ q.inuse := by
  show (q.ack c n).1.inuse ≤ q.inuse
  by_cases hn : n = 0
  · simp [PQState.ack, hn]
  · rw [ack_decomp c q n hn]
    cases q.ackPlanI c n with
    | error e => exact Nat.le_refl _
    | ok p => simp [PQState.ackApply]

/-- **A producer call increases `inuse` by exactly the pages its flush appends** to the chain (none without a
    flush); the chain never shrinks and the head position stays. -/
theorem queue_flush_pages (c : QCfg) (hP : 64 ≤ c.P) (q : PQState) (a a' : ASpec) (o : QOut) (op : QOp)
    (hop : op.isProducer = true) (hI : QInv c q a) (hs : a.step op (q.autoFlush c op) = some (a', o)) :
    (q.step c op).1.inuse = q.inuse + ((q.step c op).1.w.persisted.length - q.w.persisted.length) ∧
    q.w.persisted.length ≤ (q.step c op).1.w.persisted.length ∧
    (0 < a.flushed → (q.step c op).1.headPos = q.headPos) := by
  have hI' := (queue_sim_step c hP q a a' o op hI hs).2
  have hinRead : a.inRead = false := by
    cases op <;> simp [QOp.isProducer] at hop <;> simp only [ASpec.step] at hs <;>
      (cases hr : a.inRead <;> simp [hr] at hs ⊢)
  have hp : a.pstep op (q.autoFlush c op) = some (a', o) := by
    simp only [ASpec.pstep]
    have : ({ a with inRead := false } : ASpec) = a := by cases a; simp_all
    rw [this, hs]
    simp only [Option.map_some, Option.some.injEq, Prod.mk.injEq, and_true]
    have hr' : a'.inRead = false := by have := spec_inRead a a' op _ o hs; cases op <;> simp_all [QOp.isProducer]
    cases a'; simp_all
  obtain ⟨_, _, _, _, f5, ext, f6⟩ := pstep_facts a a' op _ o hop hI.fle hp
  have hC := hI.crel
  have hC' := hI'.crel
  rw [f6] at hC'
  have hF' := hI'.fle
  rw [f6] at hF'
  have hCe : CRel c.S (a.events ++ ext) a.flushed q.w.persisted := (CRel_take c.S _ ext _ _ hI.fle).mpr hC
  have hlen := CRel_length_mono c.S (a.events ++ ext) a.flushed a'.flushed _ _ hCe hC' f5 hF'
  refine ⟨?_, hlen, fun h0 => ?_⟩
  · cases op <;> simp [QOp.isProducer] at hop <;> rfl
  · have hhs : q.hdr.headSet = true := by rw [hI.h.headSet]; exact decide_eq_true h0
    exact producer_headPos c q op hop hhs

/-! ## the constants are exact (P = 64: S = 36, S - 3 = 33; write buffer of 5 pages) -/

/-- write events of the given sizes, flush, read them all, acknowledge `k` -/
def spaceScenario (sizes : List Nat) (k : Nat) : List QOp :=
  (sizes.flatMap fun n => [QOp.write (ev n 1), .next]) ++ [.flush, .rbegin] ++
  (sizes.flatMap fun n => [QOp.rnext, .rread n]) ++ [.rdone, .ack k]

set_option maxRecDepth 100000 in
/-- **tight**: events of 28 and 37 bytes, both acknowledged.  The header of the second event just fits at the end
    of page 0, its data fills page 1 and one byte of page 2: the drained queue holds 3 pages
    `= (4 + 37)/33 + 2 = ⌊(4 + 37 + 2·36 - 7)/33⌋`. -/
theorem space_bound_tight :
    (PQState.run exCfg (PQState.init exCfg) (spaceScenario [28, 37] 2)).1.inuse = 3 ∧
    (PQState.run exCfg (PQState.init exCfg) (spaceScenario [28, 37] 2)).1.totAcked = 2 ∧
    (ASpec.run {} (spaceScenario [28, 37] 2)
      (PQState.flushTrace exCfg (PQState.init exCfg) (spaceScenario [28, 37] 2))).isSome = true ∧
    (4 + 37) / (exCfg.S - 3) + 2 = 3 ∧ (4 + 37 + 2 * exCfg.S - 7) / (exCfg.S - 3) = 3 := by decide +kernel

set_option maxRecDepth 100000 in
/-- **tight for a small last event**: two events of 28 bytes, both acknowledged: the header of the second is in
    page 0 (kept: it holds the header of the last acknowledged event), its data in page 1: 2 pages, and
    `4 + 28 < S - 3`. -/
theorem space_small_tight :
    (PQState.run exCfg (PQState.init exCfg) (spaceScenario [28, 28] 2)).1.inuse = 2 ∧ 4 + 28 < exCfg.S - 3 := by
  decide +kernel

set_option maxRecDepth 100000 in
/-- **the last acknowledged event counts**: one event of 120 bytes, acknowledged: no un-ACKed event is left, but
    its 4 pages stay until the next ACK (the page with its header is kept, and every page behind it). -/
theorem space_last_acked_needed :
    (PQState.run exCfg (PQState.init exCfg) (spaceScenario [120] 1)).1.inuse = 4 ∧
    (PQState.run exCfg (PQState.init exCfg) (spaceScenario [120] 1)).1.hdr.pending = 0 := by decide +kernel

set_option maxRecDepth 1000000 in
/-- **the divisor is `S - 3`, not `S`**: 37 flushed, un-ACKed events of `S - 7 = 29` bytes: each takes `33` bytes
    of a page, the next header does not fit into the 3 bytes left: 37 pages, but
    `⌈37·33 / 36⌉ + 2 = 36`; with `S - 3`: `37·33/33 + 2 = 39`. -/
theorem space_divisor :
    (PQState.run exCfg (PQState.init exCfg)
      ((List.replicate 37 29).flatMap (fun n => [QOp.write (ev n 1), .next]) ++ [.flush])).1.inuse = 37 ∧
    (37 * 33 + 35) / 36 + 2 = 36 ∧ 37 * 33 / 33 + 2 = 39 := by decide +kernel

end TxVerif
