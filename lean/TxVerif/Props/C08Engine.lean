/-
  C08 for the ENGINE MODEL — commits that fail AT OR AFTER their data sync. The trace the engine model issues
  for any history of transactions, each with an I/O outcome (no fault / the data sync fails / the final sync
  fails and `restoreMeta` + retried syncs follow), is accepted by the fault-aware discipline `OCfg.step`
  (Model/CrashFailOpt.lean); hence the crash statements of Props/C08CrashOpt.lean hold of the engine model:
  any crash anywhere - also inside a failure path - recovers the last committed state or the state of the
  commit in flight / just failed, complete; a commit that returned an error never resurfaces once its
  restore is durable; and the engine state after every failed commit is the state before the transaction.

  Definitions (Proofs/EngineTraceFail.lean; the fault free definitions of Proofs/EngineTrace.lean are reused):
    `FOutcome`       normal | dataSyncFail k after | finalSyncFail k | finalSyncGiveUp k
    `TxnF`           a transaction (`TxnE`) with its outcome; the outcome matters only if the engine model
                     commits the transaction (a transaction that is rolled back or whose commit runs out of
                     space never reaches a sync)
    `engTraceF`      data sync fails:  page writes (incl. the internal pages), `k+1` failing syncs, the
                                       rewrite of the inactive slot with its own contents (`restoreMeta`, rule
                                       P1), the syncs of `restoreMeta` / `rollbackChanges` with any outcomes
                                       `after`, the truncate of the rollback
                     final sync fails: page writes, sync, header(new), failing sync, restore(old contents),
                                       `k` failing syncs, a sync that SUCCEEDS, the truncate of the rollback
                                       (the implementation: k ≤ 1)
                     finalSyncGiveUp:  the DOCUMENTED DEVIATION - after `k` failing syncs the engine goes on
                                       although no sync succeeded since the restore (implementation: k = 2,
                                       i.e. three consecutive failing syncs). NOT in the accepted set: the
                                       theorems assume `TxnF.disciplined`, the example below shows the
                                       rejection (and `lax_opt_not_crash_safe` that it is not crash safe).
    `commitLateFail` the engine state after such a commit: everything rolled back, including the internal
                     pages the commit had allocated
    `EngFS`          committed state + ghost data: contents of the inactive slot, state ids (a failed attempt
                     and the next commit share the transaction id, so state ids are a separate counter)
    `histTraceF`, `histReachF`   histories; reach sets of the committed states AND of the failed attempts

  Theorems
    engine_fault_txn_accepted        one transaction, any disciplined outcome
    engine_fault_history_accepted    histories
    engine_fault_start_safe          the starting configuration is `OSafe`
    engine_fault_crash_atomic        any prefix, any execution (unknown subsets made durable by failing syncs),
                                     any crash image: the first state or the state of a commit attempt of the
                                     history is recovered, complete
    engine_fault_crash_position      after `j` complete transactions and any part of the next: state `j` or the
                                     state of the commit attempt of the next transaction - never an older one
    engine_fault_crash_end           after the whole trace: the last committed state; in particular the OLD
                                     state if the last transaction failed
    engine_failed_commit_never_resurfaces   `failed_attempt_never_resurfaces_opt` instantiated at the point
                                     where the engine's restore is written: after the completing sync, in every
                                     accepted continuation (not only engine histories), while no later commit
                                     is in flight or completed, every crash image recovers the old state
    engine_fault_abort_identity      after a failed commit of any kind (rolled back, out of space, data sync,
                                     final sync) the engine state is the state before the transaction
                                     (`RestoredO`), and the next transaction behaves identically
    examples                         accepted: failing data sync, failing final sync + restore (+ failing
                                     syncs), a following successful commit re-using the transaction id;
                                     rejected: no restore after a failed final sync, a write before the
                                     restore is durable (the deviation)
-/
import TxVerif.Proofs.EngineTraceFailF
import TxVerif.Props.C01Engine
namespace TxVerif

/-- **engine_fault_txn_accepted** — from every configuration that represents the committed state `x`
    (`FRep`: normal phase, nothing in flight, active header that of `x`, the inactive slot durably holds
    `x.prev`, pending header writes only rewrite it, file content that of `x`), the trace of every transaction
    with every disciplined I/O outcome is accepted by `OCfg.run` and ends in a configuration that represents
    the next committed state - which after a failing commit is the OLD engine state. -/
theorem engine_fault_txn_accepted (reachOf : Nat → List (Nat × Hash)) (x : EngFS) (fok : FOk x) (c : OCfg)
    (rep : FRep x c) (t : TxnF) (hd : t.disciplined = true) (h0 : reachOf x.sid = engReach x.e)
    (h1 : hdrAttempt x t = true → reachOf x.nsid = engReach (engNext x.e t.t)) :
    ∃ c', c.run reachOf (engTraceF x t) = some c' ∧ FRep (engNextF x t) c' ∧ FOk (engNextF x t) :=
  et_txnF_accepted reachOf fok c rep t hd h0 h1

/-- **engine_fault_history_accepted** — the trace of every history of transactions with disciplined I/O
    outcomes, begun in the configuration of a committed state, is accepted by the fault-aware acceptor under
    the reach sets `histReachF`; it ends in a configuration representing the last committed state. -/
theorem engine_fault_history_accepted (x0 : EngFS) (fok : FOk x0) (ts : List TxnF)
    (hd : ∀ t ∈ ts, t.disciplined = true) :
    ∃ cEnd, (OCfg.ofCfg x0.cfg).run (histReachF x0 ts) (histTraceF x0 ts) = some cEnd ∧
      FRep (engRunF x0 ts) cEnd ∧ FOk (engRunF x0 ts) := by
  obtain ⟨c', h, r⟩ := et_historyF_accepted (histReachF x0 ts) ts x0 _ fok (frep_cfg fok) (histReachF_spec fok ts) hd
  exact ⟨c', h, r, fok_run fok ts⟩

/-- `histReachF`: the reach sets of the committed states and of the commit attempts of the history -/
theorem engine_fault_histReach (x0 : EngFS) (fok : FOk x0) (ts : List TxnF) : FReachOK (histReachF x0 ts) x0 ts :=
  histReachF_spec fok ts

/-- a committed state of the engine model (`EngInvO`, transaction id > 0) is a starting point -/
theorem engine_fault_ofFile_ok (f : FileSt) (live : List Nat) (slot : Nat) (he : EngInvO f live) (hs : slot ≤ 1)
    (ht : 0 < f.txid) : FOk (EngFS.ofFile f live slot) := fok_ofFile f live slot he hs ht

/-- **engine_fault_start_safe** — the starting configuration with its own durable image satisfies `OSafe` -/
theorem engine_fault_start_safe (x0 : EngFS) (fok : FOk x0) (ts : List TxnF) :
    OSafe (histReachF x0 ts) (OCfg.ofCfg x0.cfg) x0.cfg.durable :=
  osafe_start _ _ (fcfg_safe _ fok ((histReachF_spec fok ts 0 (Nat.zero_le _)).1))

/-- **engine_fault_crash_atomic** — run any disciplined history, stop after ANY number `k` of operations of
    its trace (also in the middle of a failure path), let every failing sync have made ANY subset of the
    pending operations durable (`ExecOpt`), and crash keeping any subset of what is pending (headers possibly
    torn). Then recovery yields the first state or the state of a commit attempt of the history - the
    configuration's committed state or its pending one (header in flight / failed commit whose restore is
    not durable yet) - and every page of the reach set of the recovered state is intact in the image. -/
theorem engine_fault_crash_atomic (x0 : EngFS) (fok : FOk x0) (ts : List TxnF)
    (hd : ∀ t ∈ ts, t.disciplined = true) (k : Nat) :
    ∃ ck, (OCfg.ofCfg x0.cfg).run (histReachF x0 ts) ((histTraceF x0 ts).take k) = some ck ∧
      (∃ dk, ExecOpt (OCfg.step (histReachF x0 ts)) (OCfg.ofCfg x0.cfg) x0.cfg.durable ((histTraceF x0 ts).take k) ck dk) ∧
      ∀ ck' dk, ExecOpt (OCfg.step (histReachF x0 ts)) (OCfg.ofCfg x0.cfg) x0.cfg.durable ((histTraceF x0 ts).take k) ck' dk →
        ck' = ck ∧ ∀ img, CrashImg dk ck.base.pending img →
          ∃ st, recover img = some st ∧ (st = ck.base.aSt ∨ ck.pendingSt = some st) ∧
            ((st = x0.sid ∧ ∀ p h, (p, h) ∈ engReach x0.e → img.pages p = some h) ∨
             ∃ j, ∃ hj : j < ts.length, hdrAttempt (engRunF x0 (ts.take j)) ts[j] = true ∧
               st = (engRunF x0 (ts.take j)).nsid ∧
               ∀ p h, (p, h) ∈ engReach (engNext (engRunF x0 (ts.take j)).e ts[j].t) → img.pages p = some h) := by
  obtain ⟨cEnd, hacc, -, -⟩ := engine_fault_history_accepted x0 fok ts hd
  obtain ⟨ck, hk, hex, hall⟩ := crash_recovers_opt (histReachF x0 ts) _ _ (engine_fault_start_safe x0 fok ts) _ cEnd hacc k
  refine ⟨ck, hk, hex, fun ck' dk he => ?_⟩
  obtain ⟨e, hcr⟩ := hall ck' dk he
  refine ⟨e, fun img hc => ?_⟩
  obtain ⟨st, h1, h2, h3⟩ := hcr img hc
  refine ⟨st, h1, h2, ?_⟩
  have hspec := histReachF_spec fok ts
  obtain ⟨n1, n2⟩ := orun_named (histReachF x0 ts) _ _ ck hk
  have hnamed : ONamed (OCfg.ofCfg x0.cfg) ((histTraceF x0 ts).take k) st := by
    rcases h2 with h2 | h2
    · rw [h2]; exact n1
    · exact n2 st h2
  rcases hnamed with h | h | ⟨s, t, hm⟩
  · left
    have e0 : st = x0.sid := h
    have hs0 : histReachF x0 ts x0.sid = engReach x0.e := (hspec 0 (Nat.zero_le _)).1
    refine ⟨e0, fun p hh hm => h3 p hh ?_⟩
    rw [e0, hs0]; exact hm
  · simp [OCfg.ofCfg, OCfg.pendingSt, EngFS.cfg] at h
  · right
    obtain ⟨j, hj, g1, g2⟩ := histTraceF_hdr ts fok s t st (List.mem_of_mem_take hm)
    refine ⟨j, hj, g1, g2, fun p hh hm => h3 p hh ?_⟩
    rw [g2, (hspec j (by omega)).2 hj g1]; exact hm

/-- **engine_fault_crash_position** — never an older state, with positions: after the complete traces of the
    first `j` transactions (whatever their outcomes: commits, rollbacks, failed data syncs, failed final
    syncs with their restore paths) and any number `m` of operations of the next transaction, every crash
    image of every execution recovers the committed state after `j` transactions, or the state of the commit
    attempt of the next transaction (only if it writes a header); the recovered state is complete. -/
theorem engine_fault_crash_position (x0 : EngFS) (fok : FOk x0) (ts : List TxnF)
    (hd : ∀ t ∈ ts, t.disciplined = true) (j : Nat) (hj : j < ts.length) (m : Nat) :
    ∃ ck, (OCfg.ofCfg x0.cfg).run (histReachF x0 ts)
        (histTraceF x0 (ts.take j) ++ (engTraceF (engRunF x0 (ts.take j)) ts[j]).take m) = some ck ∧
      ∀ dk, ExecOpt (OCfg.step (histReachF x0 ts)) (OCfg.ofCfg x0.cfg) x0.cfg.durable
          (histTraceF x0 (ts.take j) ++ (engTraceF (engRunF x0 (ts.take j)) ts[j]).take m) ck dk →
        ∀ img, CrashImg dk ck.base.pending img →
          (recover img = some (engRunF x0 (ts.take j)).sid ∧
            ∀ p h, (p, h) ∈ engReach (engRunF x0 (ts.take j)).e → img.pages p = some h) ∨
          (hdrAttempt (engRunF x0 (ts.take j)) ts[j] = true ∧
            recover img = some (engRunF x0 (ts.take j)).nsid ∧
            ∀ p h, (p, h) ∈ engReach (engNext (engRunF x0 (ts.take j)).e ts[j].t) → img.pages p = some h) := by
  obtain ⟨ck, hrun, hA, hB⟩ := et_positionF fok ts hd j hj m
  refine ⟨ck, hrun, fun dk hex img hc => ?_⟩
  have hsafe := osafe_exec (histReachF x0 ts) hex (engine_fault_start_safe x0 fok ts)
  obtain ⟨st, h1, h2, h3⟩ := osafe_crash (histReachF x0 ts) ck dk hsafe img hc
  have hspec := histReachF_spec fok ts j (by omega)
  have hnext : st = (engRunF x0 (ts.take j)).nsid → hdrAttempt (engRunF x0 (ts.take j)) ts[j] = true →
      (hdrAttempt (engRunF x0 (ts.take j)) ts[j] = true ∧
        recover img = some (engRunF x0 (ts.take j)).nsid ∧
        ∀ p h, (p, h) ∈ engReach (engNext (engRunF x0 (ts.take j)).e ts[j].t) → img.pages p = some h) := by
    intro e hatt
    subst e
    refine ⟨hatt, h1, fun p h hm => h3 p h ?_⟩
    rw [hspec.2 hj hatt]; exact hm
  rcases h2 with h2 | h2
  · rcases hA with hA | ⟨hA, hatt⟩
    · left
      have e : st = (engRunF x0 (ts.take j)).sid := h2.trans hA
      subst e
      refine ⟨h1, fun p h hm => h3 p h ?_⟩
      rw [hspec.1]; exact hm
    · right; exact hnext (h2.trans hA) hatt
  · obtain ⟨e, hatt⟩ := hB st h2
    right; exact hnext e hatt

/-- **engine_fault_crash_end** — once the trace of the whole history is issued, every crash image of every
    execution recovers the last committed state of the history: if the last transaction failed (data sync,
    final sync + restore), that is the state BEFORE it, never the failed attempt -/
theorem engine_fault_crash_end (x0 : EngFS) (fok : FOk x0) (ts : List TxnF) (hd : ∀ t ∈ ts, t.disciplined = true) :
    ∃ ck, (OCfg.ofCfg x0.cfg).run (histReachF x0 ts) (histTraceF x0 ts) = some ck ∧
      ∀ dk, ExecOpt (OCfg.step (histReachF x0 ts)) (OCfg.ofCfg x0.cfg) x0.cfg.durable (histTraceF x0 ts) ck dk →
        ∀ img, CrashImg dk ck.base.pending img →
          recover img = some (engRunF x0 ts).sid ∧
          ∀ p h, (p, h) ∈ engReach (engRunF x0 ts).e → img.pages p = some h := by
  obtain ⟨cEnd, hacc, rep, -⟩ := engine_fault_history_accepted x0 fok ts hd
  refine ⟨cEnd, hacc, fun dk hex img hc => ?_⟩
  have hsafe := osafe_exec (histReachF x0 ts) hex (engine_fault_start_safe x0 fok ts)
  obtain ⟨a, b⟩ := crash_committed_only_opt (histReachF x0 ts) cEnd dk hsafe rep.ph rep.infl img hc
  have hspec := (histReachF_spec fok ts ts.length (Nat.le_refl _)).1
  rw [List.take_length] at hspec
  rw [rep.hst] at a b
  refine ⟨a, fun p h hm => b p h ?_⟩
  rw [hspec]; exact hm

/-- **engine_failed_commit_never_resurfaces** — `failed_attempt_never_resurfaces_opt` instantiated on the
    engine model. After any disciplined history `pre`, let the engine model commit `t` and let the final sync
    fail (`finalSyncFail k`). At the point where the restore is written and `k` further syncs have failed, the
    acceptor is in phase `restoring`; from there, for every execution, after the sync that completes the
    restore, in every continuation the acceptor accepts (engine histories or anything else following the
    discipline), at every point where no later commit is in flight or has completed, EVERY crash image
    recovers the state the engine was in BEFORE `t` (complete) - never the state of the failed commit, although
    its header may have reached the disk. -/
theorem engine_failed_commit_never_resurfaces (reachOf : Nat → List (Nat × Hash)) (x0 : EngFS) (fok : FOk x0)
    (pre : List TxnF) (hd : ∀ t ∈ pre, t.disciplined = true) (t : TxnF) (k : Nat) (ho : t.out = .finalSyncFail k)
    (hc : t.t.t.commits ((engRunF x0 pre).e.f, (engRunF x0 pre).e.live))
    (hr : FReachOK reachOf x0 (pre ++ [t])) :
    ∃ cR, (OCfg.ofCfg x0.cfg).run reachOf (histTraceF x0 pre ++
        ((engWall (engRunF x0 pre).e t.t ++ [TOp.sync, TOp.hdr (1 - (engRunF x0 pre).e.slot)
            ((engRunF x0 pre).e.f.txid + 1) (engRunF x0 pre).nsid]).map .op ++
          [FOp.syncFail, FOp.restore (1 - (engRunF x0 pre).e.slot) (engRunF x0 pre).prev.1 (engRunF x0 pre).prev.2] ++
          List.replicate k FOp.syncFail)) = some cR ∧
      cR.phase = .restoring (engRunF x0 pre).nsid (engRunF x0 pre).prev ∧
      ∀ dR, ExecOpt (OCfg.step reachOf) (OCfg.ofCfg x0.cfg) x0.cfg.durable (histTraceF x0 pre ++
          ((engWall (engRunF x0 pre).e t.t ++ [TOp.sync, TOp.hdr (1 - (engRunF x0 pre).e.slot)
              ((engRunF x0 pre).e.f.txid + 1) (engRunF x0 pre).nsid]).map .op ++
            [FOp.syncFail, FOp.restore (1 - (engRunF x0 pre).e.slot) (engRunF x0 pre).prev.1 (engRunF x0 pre).prev.2] ++
            List.replicate k FOp.syncFail)) cR dR →
        ∀ c1 d1, cR.step reachOf (.op .sync) = some c1 → DurStepOpt cR dR (.op .sync) d1 →
        ∀ ops ck dk, ExecOpt (OCfg.step reachOf) c1 d1 ops ck dk →
          ck.phase = .normal → ck.base.inflight = none → ck.base.aTx = (engRunF x0 pre).e.f.txid →
          ∀ img, CrashImg dk ck.base.pending img →
            recover img = some (engRunF x0 pre).sid ∧
            ∀ p h, (p, h) ∈ engReach (engRunF x0 pre).e → img.pages p = some h := by
  have hpre : FReachOK reachOf x0 pre := by
    have := freachOK_take hr pre.length
    rwa [List.take_left'] at this
    rfl
  obtain ⟨cj, hrunj, repj⟩ := et_historyF_accepted reachOf pre x0 _ fok (frep_cfg fok) hpre hd
  have fokj := fok_run fok pre
  have hlen : pre.length ≤ (pre ++ [t]).length := by simp
  obtain ⟨h0, h1⟩ := hr pre.length hlen
  have htk : (pre ++ [t]).take pre.length = pre := by rw [List.take_left']; rfl
  rw [htk] at h0 h1
  have hcb := commitsB_of _ _ hc
  have hatt : hdrAttempt (engRunF x0 pre) t = true := by simp [hdrAttempt, hcb, ho]
  have hN : reachOf (engRunF x0 pre).nsid = engReach (engNext (engRunF x0 pre).e t.t) := by
    have := h1 (by simp) (by simpa using hatt)
    simpa using this
  have wf := et_wall_facts fokj.ok t.t hc
  obtain ⟨cR, hrunR, hph, hst, htx, -⟩ := fcore_finalFail_restoring reachOf repj (engWall (engRunF x0 pre).e t.t)
    (by rw [h0]; exact etAllFree_clear fokj.ok _ wf.free) (engRunF x0 pre).nsid
    (fun p hh hm => wf.intact p hh (hN ▸ hm)) k
  refine ⟨cR, orun_append_some reachOf _ _ _ _ _ hrunj hrunR, hph, ?_⟩
  intro dR hexR c1 d1 hs1 hd1 ops ck dk hex hn hi hatx img himg
  have h00 : reachOf x0.sid = engReach x0.e := (hr 0 (Nat.zero_le _)).1
  have hsafe := osafe_exec reachOf hexR (osafe_start reachOf _ (fcfg_safe reachOf fok h00))
  obtain ⟨a, b⟩ := failed_attempt_never_resurfaces_opt reachOf cR dR _ _ hsafe hph c1 d1 hs1 hd1 ops ck dk hex hn hi
    (by rw [hatx, htx]) img himg
  rw [hst] at a b
  refine ⟨a, fun p h hm => b p h ?_⟩
  rw [h0]; exact hm

/-- a transaction "fails" if the engine model does not commit it, or commits it with a failing sync -/
def TxnF.fails (x : EngFS) (t : TxnF) : Prop :=
  ¬ t.t.t.commits (x.e.f, x.e.live) ∨ t.out ≠ .normal

/-- **engine_fault_abort_identity** — after a failed commit of ANY kind (the transaction is rolled back, the
    commit runs out of space, the data sync fails, the final sync fails and the header is restored) the
    engine state is the state before the transaction: allocator (free lists, end markers, meta area),
    overwrite mapping, mapping pages, root, transaction id and statistic are exactly those before, every owned
    page reads as before, the client owns the same pages, the committed state id is unchanged
    (`RestoredO`, cf. `c07o_failed_commit_identity_engine`); and the next write transaction (any options)
    begins with the same in-memory state and shows the same observations after every operation list as if the
    failed transaction had never run (cf. `c07o_next_tx_identical_failed`). -/
theorem engine_fault_abort_identity (x : EngFS) (fok : FOk x) (t : TxnF) (hf : t.fails x) :
    RestoredO x.e.f x.e.live (engNextF x t).e.f ∧ (engNextF x t).e.live = x.e.live ∧
    (engNextF x t).sid = x.sid ∧ (engNextF x t).prev = x.prev ∧ (engNextF x t).e.slot = x.e.slot ∧
    ∀ (ov2 : Bool) (g2 wl2 : Nat),
      (engNextF x t).e.f.beginTx ov2 g2 wl2 = x.e.f.beginTx ov2 g2 wl2 ∧
      ∀ ops2 : List EOp,
        (runEOps (ERunSt.start (engNextF x t).e.f (engNextF x t).e.live ov2 g2 wl2) ops2).obs =
        (runEOps (ERunSt.start x.e.f x.e.live ov2 g2 wl2) ops2).obs := by
  have he := fok.ok.inv
  have key : ∀ (F : FileSt) (L : List Nat), SameCommitted x.e.f x.e.live F → L = x.e.live →
      RestoredO x.e.f x.e.live F ∧ L = x.e.live ∧
      ∀ (ov2 : Bool) (g2 wl2 : Nat), F.beginTx ov2 g2 wl2 = x.e.f.beginTx ov2 g2 wl2 ∧
        ∀ ops2 : List EOp, (runEOps (ERunSt.start F L ov2 g2 wl2) ops2).obs =
          (runEOps (ERunSt.start x.e.f x.e.live ov2 g2 wl2) ops2).obs := by
    intro F L hs hl
    subst hl
    exact ⟨restoredO_of_same he hs, rfl, fun ov2 g2 wl2 =>
      ⟨sameCommitted_begin hs ov2 g2 wl2, fun ops2 => obs_of_sim (next_tx_simO he hs ov2 g2 wl2 ops2)⟩⟩
  by_cases hc : t.t.t.commits (x.e.f, x.e.live)
  · have hne : t.out ≠ .normal := by
      rcases hf with h | h
      · exact absurd hc h
      · exact h
    have hcb := commitsB_of _ _ hc
    have hs := runTxnLate_same (x.e.f, x.e.live) he t.t.t hc
    obtain ⟨-, hl⟩ := runTxnLate_restored (x.e.f, x.e.live) he t.t.t hc
    obtain ⟨a, b, c⟩ := key _ _ hs hl
    have hE : (engNextF x t).e = engRestored x t ∧ (engNextF x t).sid = x.sid ∧ (engNextF x t).prev = x.prev := by
      unfold engNextF
      rw [hcb]
      simp only [if_true]
      cases ho : t.out with
      | normal => exact absurd ho hne
      | dataSyncFail _ _ => exact ⟨rfl, rfl, rfl⟩
      | finalSyncFail _ => exact ⟨rfl, rfl, rfl⟩
      | finalSyncGiveUp _ => exact ⟨rfl, rfl, rfl⟩
    rw [hE.1]
    exact ⟨a, b, hE.2.1, hE.2.2, rfl, c⟩
  · have hcb := commitsB_not _ _ hc
    obtain ⟨-, hl, hs⟩ := runTxnO_of_not_commits (x.e.f, x.e.live) he t.t.t hc
    obtain ⟨a, b, c⟩ := key _ _ hs hl
    obtain ⟨-, -, -, hsl⟩ := engOk_next_abort fok.ok t.t hc
    have hE : engNextF x t = { x with e := engNext x.e t.t } := by
      unfold engNextF; rw [hcb]; simp
    have hst := engNext_state x.e t.t
    have h1 : (engNext x.e t.t).f = (runTxnO (x.e.f, x.e.live) t.t.t).1 := congrArg Prod.fst hst
    have h2 : (engNext x.e t.t).live = (runTxnO (x.e.f, x.e.live) t.t.t).2 := congrArg Prod.snd hst
    rw [hE]
    show RestoredO x.e.f x.e.live (engNext x.e t.t).f ∧ (engNext x.e t.t).live = x.e.live ∧ _
    rw [h1, h2]
    exact ⟨a, b, rfl, rfl, hsl, c⟩

/-! ## examples -/

/-- the new file of Props/C01Engine.lean (`c01E0`) with the ghost data of the fault model -/
def c08X0 : EngFS := EngFS.ofFile (FileSt.create 4096 0 4) [] 0

theorem c08X0_ok : FOk c08X0 :=
  engine_fault_ofFile_ok _ _ 0 (engInvO_create_any 4096 0 4 (Or.inl rfl)) (by decide) (by decide)

/-- the overwriting transaction `c01T2` with the truncate of the rollback -/
def c08T2 : TxnE := { c01T2 with trunc := some 0 }

/-- the data sync of the second transaction fails: page writes (overwrite pages 2 and 3, mapping page, free-list
    page), the failing sync, the rewrite of slot 0 with the header it holds (txid 1), a failing and a
    succeeding sync; no header of the new state, the state id 3 is not consumed -/
example : engTraceF (engRunF c08X0 [{ t := c01T1 }]) { t := c01T2, out := .dataSyncFail 0 [false, true] } =
    [.op (.write 2 8892), .op (.write 3 10851), .op (.write 12 242853718), .op (.write 11 115095294551495138),
     .syncFail, .restore 0 1 1, .syncFail, .op .sync] := by decide

/-- the final sync fails: sync, header (slot 0, txid 3, state id 3), failing sync, restore of (txid 1, state 1)
    into slot 0, one more failing sync, the sync that succeeds, the truncate of the rollback -/
example : engTraceF (engRunF c08X0 [{ t := c01T1 }]) { t := c08T2, out := .finalSyncFail 1 } =
    [.op (.write 2 8892), .op (.write 3 10851), .op (.write 12 242853718), .op (.write 11 115095294551495138),
     .op .sync, .op (.hdr 0 3 3), .syncFail, .restore 0 1 1, .syncFail, .op .sync, .op (.trunc 9)] := by decide

/-- a history with both kinds of failure, a commit that re-uses the transaction id 3 afterwards (state id 4),
    a failing commit that runs a checkpoint, and the same transaction committing then -/
def c08Ts : List TxnF :=
  [{ t := c01T1 }, { t := c01T2, out := .dataSyncFail 0 [false, true] }, { t := c08T2, out := .finalSyncFail 1 },
   { t := c01T2 }, { t := c01T3, out := .finalSyncFail 0 }, { t := c01T4, out := .finalSyncFail 3 }, { t := c01T3 }]

/-- **accepted** (computed): the trace of this history under the fault-aware acceptor; it ends in the normal
    phase with slot 1, transaction id 4, state id 6 committed -/
example : ((OCfg.ofCfg c08X0.cfg).run (histReachF c08X0 c08Ts) (histTraceF c08X0 c08Ts)).map
    (fun c => (c.base.aSlot, c.base.aTx, c.base.aSt, c.phase)) = some (1, 4, 6, .normal) := by decide

/-- after the two failing attempts of the second transaction the engine state is exactly the state after the
    first one (allocator, mapping, transaction id), the state ids 3 was consumed by the attempt that wrote a
    header; the successful commit then takes transaction id 3 again, with state id 4 -/
example :
    (engRunF c08X0 (c08Ts.take 3)).e.f.alloc = (engRunF c08X0 (c08Ts.take 1)).e.f.alloc ∧
    (engRunF c08X0 (c08Ts.take 3)).e.f.walMap = [] ∧ (engRunF c08X0 (c08Ts.take 3)).e.f.txid = 2 ∧
    ((engRunF c08X0 (c08Ts.take 3)).sid, (engRunF c08X0 (c08Ts.take 3)).nsid) = (2, 4) ∧
    (engRunF c08X0 (c08Ts.take 4)).e.f.txid = 3 ∧ (engRunF c08X0 (c08Ts.take 4)).sid = 4 ∧
    (engRunF c08X0 (c08Ts.take 4)).e.f.walMap = [(6, 2), (7, 3)] := by decide

/-- … as `engine_fault_history_accepted` says for every disciplined history -/
example (ts : List TxnF) (hd : ∀ t ∈ ts, t.disciplined = true) :
    ∃ cEnd, (OCfg.ofCfg c08X0.cfg).run (histReachF c08X0 ts) (histTraceF c08X0 ts) = some cEnd ∧
      FRep (engRunF c08X0 ts) cEnd ∧ FOk (engRunF c08X0 ts) := engine_fault_history_accepted c08X0 c08X0_ok ts hd

/-- **rejected, the documented deviation**: the final sync fails, the restore is written, two more syncs fail
    (three consecutive failing syncs) and the engine goes on with the truncate of the rollback and the next
    transaction: the trace of the failing transaction itself is not accepted (its truncate comes while the
    restore is not durable), nor is the history that continues with page writes -/
example :
    engTraceF (engRunF c08X0 [{ t := c01T1 }]) { t := c08T2, out := .finalSyncGiveUp 2 } =
      [.op (.write 2 8892), .op (.write 3 10851), .op (.write 12 242853718), .op (.write 11 115095294551495138),
       .op .sync, .op (.hdr 0 3 3), .syncFail, .restore 0 1 1, .syncFail, .syncFail, .op (.trunc 9)] ∧
    ((OCfg.ofCfg c08X0.cfg).run (histReachF c08X0 [{ t := c01T1 }, { t := c08T2, out := .finalSyncGiveUp 2 }])
      (histTraceF c08X0 [{ t := c01T1 }, { t := c08T2, out := .finalSyncGiveUp 2 }])).isSome = false ∧
    ((OCfg.ofCfg c08X0.cfg).run (histReachF c08X0 [{ t := c01T1 }, { t := c01T2, out := .finalSyncGiveUp 2 }, { t := c01T2 }])
      (histTraceF c08X0 [{ t := c01T1 }, { t := c01T2, out := .finalSyncGiveUp 2 }, { t := c01T2 }])).isSome = false := by
  decide

/-- **rejected, no restore after a failed final sync**: the same commit, the final sync fails, and the engine
    continues (successful sync, page write) without writing the old header back; accepted up to the sync,
    rejected at the page write -/
example :
    ((OCfg.ofCfg (engRunF c08X0 [{ t := c01T1 }]).cfg).run (histReachF c08X0 [{ t := c01T1 }, { t := c01T2 }])
      [.op (.write 2 8892), .op (.write 3 10851), .op (.write 12 242853718), .op (.write 11 115095294551495138),
       .op .sync, .op (.hdr 0 3 3), .syncFail, .op .sync]).isSome = true ∧
    ((OCfg.ofCfg (engRunF c08X0 [{ t := c01T1 }]).cfg).run (histReachF c08X0 [{ t := c01T1 }, { t := c01T2 }])
      [.op (.write 2 8892), .op (.write 3 10851), .op (.write 12 242853718), .op (.write 11 115095294551495138),
       .op .sync, .op (.hdr 0 3 3), .syncFail, .op .sync, .op (.write 2 1)]).isSome = false := by decide

/-- **rejected, a write before the restore is durable**: restore written, the sync fails, page write -/
example :
    ((OCfg.ofCfg (engRunF c08X0 [{ t := c01T1 }]).cfg).run (histReachF c08X0 [{ t := c01T1 }, { t := c01T2 }])
      [.op (.write 2 8892), .op (.write 3 10851), .op (.write 12 242853718), .op (.write 11 115095294551495138),
       .op .sync, .op (.hdr 0 3 3), .syncFail, .restore 0 1 1, .syncFail, .op (.write 2 1)]).isSome = false ∧
    ((OCfg.ofCfg (engRunF c08X0 [{ t := c01T1 }]).cfg).run (histReachF c08X0 [{ t := c01T1 }, { t := c01T2 }])
      [.op (.write 2 8892), .op (.write 3 10851), .op (.write 12 242853718), .op (.write 11 115095294551495138),
       .op .sync, .op (.hdr 0 3 3), .syncFail, .restore 0 1 1, .syncFail, .op .sync, .op (.write 2 1)]).isSome = true := by
  decide

/-- rejected: restoring something else than the saved old contents of the slot -/
example :
    ((OCfg.ofCfg (engRunF c08X0 [{ t := c01T1 }]).cfg).run (histReachF c08X0 [{ t := c01T1 }, { t := c01T2 }])
      [.op (.write 2 8892), .op (.write 3 10851), .op (.write 12 242853718), .op (.write 11 115095294551495138),
       .op .sync, .op (.hdr 0 3 3), .syncFail, .restore 0 2 2]).isSome = false := by decide

end TxVerif
