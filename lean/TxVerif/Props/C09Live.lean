/-
  C09 — liveness: every schedule terminates with every transaction finished.
  `no_deadlock` says that some step is enabled while a thread is unfinished. Here: every
  step strictly decreases a measure, so there are no infinite executions at all (no fairness
  assumption is needed), every execution of length n from s satisfies n ≤ measure s, and an
  execution that cannot be extended ends with all threads finished and the lock idle.
  A goroutine running k transactions in sequence behaves like k threads of which at most
  one has begun, so the bound covers repeated use as well.
-/
import TxVerif.Props.C09
namespace TxVerif

/-- remaining protocol steps of a thread -/
def Pc.rank : Pc → Nat
  | .rIdle => 2 | .rActive => 1 | .rDone => 0
  | .wIdle => 4 | .wActive => 3 | .wPending => 2 | .wExcl => 1 | .wDone => 0
  | .cIdle => 3 | .cPending => 2 | .cExcl => 1 | .cDone => 0

def Sys.measure (s : Sys) : Nat := (s.pcs.map Pc.rank).sum

theorem fire_rank (l : LockSt) (a : Act) (pc pc' : Pc) (l' : LockSt) (h : a.fire l pc = some (pc', l')) :
    pc'.rank < pc.rank := by
  cases a <;> cases pc <;> simp [Act.fire] at h <;>
    first
    | (obtain ⟨rfl, _⟩ := h; decide)
    | (obtain ⟨_, rfl, _⟩ := h; decide)

theorem sum_map_set_lt (f : Pc → Nat) : ∀ (l : List Pc) (i : Nat) (a x : Pc), l[i]? = some a → f x < f a →
    ((l.set i x).map f).sum < (l.map f).sum
  | [], i, a, x, h, _ => by simp at h
  | b :: l, 0, a, x, h, hlt => by
    simp at h; subst h
    simp only [List.set_cons_zero, List.map_cons, List.sum_cons]; omega
  | b :: l, i + 1, a, x, h, hlt => by
    have := sum_map_set_lt f l i a x (by simpa using h) hlt
    simp only [List.set_cons_succ, List.map_cons, List.sum_cons]; omega

/-- every protocol step strictly decreases the measure -/
theorem step_decreases (s t : Sys) (h : s.Step t) : t.measure < s.measure := by
  obtain ⟨i, a, hs⟩ := h
  unfold Sys.step at hs
  cases hp : s.pcs[i]? with
  | none => simp [hp] at hs
  | some pc =>
    simp only [hp] at hs
    cases hf : a.fire s.lock pc with
    | none => simp [hf] at hs
    | some r =>
      obtain ⟨pc', l'⟩ := r
      simp only [hf, Option.some.injEq] at hs
      subst hs
      exact sum_map_set_lt Pc.rank s.pcs i pc pc' hp (fire_rank _ _ _ _ _ hf)

/-- n-step executions -/
inductive Sys.Steps : Sys → Nat → Sys → Prop
  | refl (s : Sys) : Sys.Steps s 0 s
  | cons {s t u : Sys} {n : Nat} : s.Step t → Sys.Steps t n u → Sys.Steps s (n + 1) u

/-- **bounded**: an execution of n steps uses up n units of the measure: no execution from s is
    longer than `s.measure` (≤ 4 per thread), whatever the scheduler does -/
theorem steps_bounded {s u : Sys} {n : Nat} (h : Sys.Steps s n u) : n + u.measure ≤ s.measure := by
  induction h with
  | refl s => omega
  | cons hst _ ih => have := step_decreases _ _ hst; omega

theorem reach_steps {s u : Sys} {n : Nat} (hr : s.Reach) (h : Sys.Steps s n u) : u.Reach := by
  induction h with
  | refl s => exact hr
  | cons hst _ ih => exact ih (Sys.Reach.step hr hst)

/-- **stuck means done**: a reachable state without an enabled step has every thread finished -/
theorem stuck_all_finished (s : Sys) (h : s.Reach) (hstuck : ¬ ∃ t, s.Step t) : ∀ pc ∈ s.pcs, pc.finished = true := by
  intro pc hm
  cases hf : pc.finished with
  | true => rfl
  | false => exact absurd (no_deadlock s h ⟨pc, hm, hf⟩) hstuck

/-- **eventually idle**: from every reachable state every maximal execution is finite, and it ends
    with all transactions (and Close) finished and the lock idle; stated constructively: some
    execution of at most `s.measure` steps reaches such a state, and (by `steps_bounded` and
    `stuck_all_finished`) every execution that cannot be extended is one -/
theorem eventually_idle (s : Sys) (h : s.Reach) :
    ∃ n u, Sys.Steps s n u ∧ n ≤ s.measure ∧ (∀ pc ∈ u.pcs, pc.finished = true) ∧ u.lock = {} := by
  generalize hm : s.measure = m
  induction m using Nat.strongRecOn generalizing s with
  | _ m ih =>
    by_cases hs : ∃ t, s.Step t
    · obtain ⟨t, ht⟩ := hs
      have hlt := step_decreases s t ht
      obtain ⟨n, u, hsteps, hn, hfin, hl⟩ := ih t.measure (by omega) t (Sys.Reach.step h ht) rfl
      exact ⟨n + 1, u, Sys.Steps.cons ht hsteps, by omega, hfin, hl⟩
    · have hfin := stuck_all_finished s h hs
      have hq : ∀ pc ∈ s.pcs, pc.quiet = true := by
        intro pc hm'
        have := hfin pc hm'
        cases pc <;> simp_all [Pc.finished, Pc.quiet]
      have hl := idle_when_quiescent s h hq
      refine ⟨0, s, Sys.Steps.refl s, by omega, hfin, ?_⟩
      cases hlk : s.lock
      simp_all

/-- every maximal execution: if u is reached after n steps and cannot move, all threads are finished -/
theorem maximal_run_finishes {s u : Sys} {n : Nat} (h : s.Reach) (hs : Sys.Steps s n u) (hstuck : ¬ ∃ t, u.Step t) :
    n ≤ s.measure ∧ ∀ pc ∈ u.pcs, pc.finished = true :=
  ⟨by have := steps_bounded hs; omega, stuck_all_finished u (reach_steps h hs) hstuck⟩

/-- non-vacuity: one writer and one reader need at most 6 steps -/
example : (Sys.mk {} [.wIdle, .rIdle]).measure = 6 := by decide

end TxVerif
