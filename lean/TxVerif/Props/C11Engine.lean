/-
  C11 — space is conserved — at the level of the ENGINE model, over whole engine histories.

  "On a bounded file (maxPages > 0) that does not use the overflow area, at every quiescent point
   (between transactions): allocatable pages + live pages + meta-area pages + 2 header pages = maxPages,
   across any sequence of transactions, committed or rolled back (commits that fail roll back)."

  Props/C11History.lean proves this for disciplined histories of ALLOCATOR operations (`AOp`, ledger
  `(L, M)`, `TInv`, `Quiet`).  Here the bridge from the engine to the allocator is a theorem: every
  operation of the engine model (Model/Engine.lean: `txAlloc`, `txWrite`, `txLoad`, `txRead`, `txFree`,
  `Page.Flush`, `Tx.Flush`, `Tx.CheckpointWAL`, the final flush, `commitAfterFlush` with its own
  checkpoint / release of the old mapping and free-list pages / allocation of the new ones, `txAbort`,
  the failing commit) acts on the allocator component as allocator steps that respect the ledger
  discipline, for the ledger
      L = pages the client owns (`cur`) + committed pages freed by the running transaction,
      M = internal pages of the committed state + meta pages taken by the running transaction,
  so `tinv_regions`, `tinv_dataFree`, `tinv_walAlloc`, `tinv_metaFreeId`, `tinv_metaAllocRegions`,
  `tinv_commit_count`, `rollback_of_inv` of Proofs/Account.lean / Rollback.lean carry over.
  Definitions and proofs: TxVerif/Proofs/EngAccount.lean (`EAcc`, `EExact`, `eacc_step`, `eacc_commit`).

  History = the notion of Props/C03Refine.lean (`Txn`, `runTxn`, `runHistory`, used by
  `c03_history_partial`, `c04_history_alloc_fresh_partial`, `c10_history_nogap_partial`): every transaction
  is begun with `overflow = false` (the hypothesis of C11: the overflow area is not used), runs an
  arbitrary list of `EOp` (alloc / write / load / read / free / flush of one page / flush of any pages in
  any order / checkpoint; failing operations change nothing), then the final flush in any order; it
  commits if that flush succeeds and leaves nothing unflushed, the commit may fail (no space for the
  mapping / free-list pages: rollback), otherwise it is rolled back.  (`EOp` has no set-root operation:
  the root id is not part of the engine model's operations; it does not touch the allocator.)

  Quiescent invariant: `EngAcc f live` = `EngInv f live` (Proofs/Refine.lean) ∧
  `Quiet f.alloc live f.internal`: the ledger of the allocator is EXACTLY (the client's pages, the
  internal pages = overwrite pages of the mapping + mapping pages + free-list pages).  So besides the
  equation the theorems say that no page of the meta area leaks: `metaTotal = |meta free list| + |internal|`.

  Theorems
    engAcc_quiet / engAcc_accounted / engAcc_space_eq   the invariant gives `Quiet`, `Accounted`, the equation
    engAcc_meta_exact                                    metaTotal = meta free pages + internal pages
    engAcc_create                                        every created bounded file satisfies the invariant
    engAcc_run                                           the bridge: `TInv` (in `EAcc`) at every point of a transaction
    c11_engine_in_tx                                     the equation INSIDE a transaction (with the pending frees)
    c11_engine_tx_commit / _abort / _abort_flushed / _failed_commit   one transaction, by the way it ends
    c11_engine_runTxn, c11_engine_history                the invariant at every quiescent point of a history
    c11_engine_space_eq                                  **C11** for engine histories from any `EngAcc` state
    c11_engine_space_eq_created                          **C11** for engine histories of a created file
    runTxn_maxPages, runHistory_maxPages                 the page limit is a constant of the history
    c11_engine_space_eq_limit                            **C11** with the configured limit on the right-hand side

  Hypotheses: none beyond the invariant at the start (`EngAcc`, which holds for every created file with
  `2 + initMeta ≤ maxPages`, `engAcc_create`) and the notion of history (overflow = false). All are needed:
  see the examples at the end (overflow = true breaks the equation) and Props/C11History.lean.
-/
import TxVerif.Proofs.EngAccount
import TxVerif.Props.C03Refine
import TxVerif.Props.C11History
namespace TxVerif

/-- the quiescent invariant of the engine with page accounting: the invariant of a committed state, and
    the allocator's ledger is exactly (pages of the client, internal pages of the committed state) -/
structure EngAcc (f : FileSt) (live : List Nat) : Prop where
  inv : EngInv f live
  quiet : Quiet f.alloc live f.internal

/-- the intermediate statement: the quiescent engine invariant implies the quiescent ledger invariant
    of the allocator with `M = f.internal` -/
theorem engAcc_quiet {f : FileSt} {live : List Nat} (h : EngAcc f live) : Quiet f.alloc live f.internal := h.quiet

theorem engAcc_accounted {f : FileSt} {live : List Nat} (h : EngAcc f live) : Accounted f.alloc live.length :=
  h.quiet.acc

/-- the space equation at a state satisfying the quiescent invariant -/
theorem engAcc_space_eq {f : FileSt} {live : List Nat} (h : EngAcc f live) :
    f.alloc.dataAvail + live.length + f.alloc.metaTotal + 2 = f.alloc.maxPages :=
  space_eq _ _ h.quiet.maxPos h.quiet.dLim h.quiet.acc

/-- no page of the meta area leaks: every meta page is free or an internal page of the committed state
    (`EngInv.total` only has `≤`) -/
theorem engAcc_meta_exact {f : FileSt} {live : List Nat} (h : EngAcc f live) :
    f.alloc.metaTotal = f.alloc.mta.free.length + f.internal.length := h.quiet.mtot

/-! ### a created file -/

/-- every bounded file `FileSt.create` produces (with a limit that leaves room for the two header pages
    and the initial meta area) satisfies the quiescent invariant; the client owns no page yet -/
theorem engAcc_create (ps mp im : Nat) (hmp : 2 + im ≤ mp) : EngAcc (FileSt.create ps mp im) [] := by
  refine ⟨engInv_create_any ps mp im (Or.inr hmp), ?_⟩
  by_cases him : im = 0
  · subst him
    unfold FileSt.create
    rw [if_pos rfl]
    refine ⟨rfl, rfl, asc_nil, asc_nil, List.nodup_nil, List.nodup_nil, ?_, ?_, ?_, ?_, ?_, ?_, ?_, by dsimp only; omega,
      by dsimp only; omega, by dsimp only; omega, Or.inr ⟨rfl, rfl⟩⟩
    all_goals (intro x hx; cases hx)
  · unfold FileSt.create
    rw [if_neg him]
    show Quiet _ [] [2]
    refine ⟨by simp, ?_, asc_nil, asc_idRange _ _, List.nodup_nil, by simp, ?_, ?_, ?_, ?_, ?_, ?_, ?_,
      by dsimp only; omega, by dsimp only; omega, by dsimp only; omega, Or.inl (Nat.le_refl _)⟩
    · simp only [length_idRange, List.length_singleton]; omega
    · intro x hx; cases hx
    · intro x hx; cases hx
    · intro x hx
      dsimp only at hx ⊢
      rw [mem_idRange] at hx
      omega
    · intro x hx
      simp only [List.mem_singleton] at hx
      subst hx
      dsimp only; omega
    · intro x hx; cases hx
    · intro x hx; cases hx
    · intro x hx
      dsimp only at hx
      rw [mem_idRange] at hx
      simp only [List.mem_singleton]
      omega

example : EngAcc (FileSt.create 4096 64 4) [] := engAcc_create 4096 64 4 (by decide)
example : EngAcc (FileSt.create 4096 64 0) [] := engAcc_create 4096 64 0 (by decide)

/-! ### one transaction -/

/-- **the bridge**: at every point inside a write transaction on a state satisfying the quiescent
    invariant, after any list of engine operations, the allocator satisfies the ledger invariant `TInv`
    (part of `EAcc`) for a ledger `L` = owned pages + committed pages freed by the transaction,
    `M` = internal pages of the committed state + meta pages taken by the transaction; and nothing
    leaks from the meta area (`EExact`) -/
theorem engAcc_run (f : FileSt) (live : List Nat) (h : EngAcc f live) (g wl : Nat) (ops : List EOp) :
    (∃ L M, EAcc f (runEOps (ERunSt.start f live false g wl) ops).f (runEOps (ERunSt.start f live false g wl) ops).tx
      (runEOps (ERunSt.start f live false g wl) ops).cur L M) ∧
    EExact f (runEOps (ERunSt.start f live false g wl) ops).tx := by
  obtain ⟨b1, b2⟩ := eacc_begin f live h.quiet g wl
  exact eacc_ops h.inv ops _ (runInv_start f live h.inv false g wl) ⟨live, f.internal, b1⟩ b2

/-- **C11 inside a transaction**: after any operations of a write transaction (before its end):
    allocatable + pages the client owns now + committed pages the transaction freed (they are released
    by the commit) + meta area + 2 header pages = maxPages.  Pages allocated AND freed by the transaction
    are allocatable again at once. -/
theorem c11_engine_in_tx (f : FileSt) (live : List Nat) (h : EngAcc f live) (g wl : Nat) (ops : List EOp) :
    let s := runEOps (ERunSt.start f live false g wl) ops
    s.f.alloc.dataAvail + (s.cur.length + s.tx.ta.data.freed.length) + s.f.alloc.metaTotal + 2 =
      s.f.alloc.maxPages := by
  intro s
  obtain ⟨⟨L, M, ha⟩, -⟩ := engAcc_run f live h g wl ops
  have hr := runinv_ops h.inv ops _ (runInv_start f live h.inv false g wl)
  rw [← eacc_length hr.tx ha]
  exact space_eq _ _ ha.t.maxPos ha.t.dLim ha.t.acc

/-- a transaction that commits: the quiescent invariant holds again, for the pages the client owns now -/
theorem c11_engine_tx_commit (f : FileSt) (live : List Nat) (h : EngAcc f live) (g wl : Nat)
    (ops : List EOp) (order : List Nat) (f2 : FileSt) (tx2 : TxSt) (ws : List (Nat × Nat))
    (hflush : flushList (runEOps (ERunSt.start f live false g wl) ops).f
      (runEOps (ERunSt.start f live false g wl) ops).tx order = .ok (f2, tx2, ws))
    (hall : tx2.unflushed = []) (hok : (commitAfterFlush f2 tx2).2.1 = .ok) :
    EngAcc (commitAfterFlush f2 tx2).1 (runEOps (ERunSt.start f live false g wl) ops).cur := by
  have hr := runinv_ops h.inv ops _ (runInv_start f live h.inv false g wl)
  obtain ⟨h2, -⟩ := txinv_flushList h.inv order _ _ hr.tx f2 tx2 ws hflush
  obtain ⟨⟨L, M, ha⟩, hx⟩ := engAcc_run f live h g wl ops
  obtain ⟨⟨M2, ha2⟩, hx2⟩ := eacc_flushList h.inv order _ _ M hr.tx ha hx f2 tx2 ws hflush
  exact ⟨c03_commit_invariant_partial f live h.inv g wl ops order f2 tx2 ws hflush hall hok,
    eacc_commit h.inv h2 (allFlushed_of_unflushed tx2 hall) ha2 hx2 hok⟩

/-- a transaction that is rolled back at any point (also after flushes and checkpoints) -/
theorem c11_engine_tx_abort (f : FileSt) (live : List Nat) (h : EngAcc f live) (g wl : Nat) (ops : List EOp) :
    let s := runEOps (ERunSt.start f live false g wl) ops
    EngAcc (txAbort s.f s.tx) live := by
  intro s
  have hr := runinv_ops h.inv ops _ (runInv_start f live h.inv false g wl)
  obtain ⟨r1, r2, r3, -⟩ := abort_spec h.inv hr.tx
  exact ⟨r1, quiet_of_same h.quiet r2 r3 hr.tx.sameWP⟩

/-- the same for the state reached by the final flush -/
theorem c11_engine_tx_abort_flushed (f : FileSt) (live : List Nat) (h : EngAcc f live) (g wl : Nat)
    (ops : List EOp) (order : List Nat) (f2 : FileSt) (tx2 : TxSt) (ws : List (Nat × Nat))
    (hflush : flushList (runEOps (ERunSt.start f live false g wl) ops).f
      (runEOps (ERunSt.start f live false g wl) ops).tx order = .ok (f2, tx2, ws)) :
    EngAcc (txAbort f2 tx2) live := by
  have hr := runinv_ops h.inv ops _ (runInv_start f live h.inv false g wl)
  obtain ⟨h2, -⟩ := txinv_flushList h.inv order _ _ hr.tx f2 tx2 ws hflush
  obtain ⟨r1, r2, r3, -⟩ := abort_spec h.inv h2
  exact ⟨r1, quiet_of_same h.quiet r2 r3 h2.sameWP⟩

/-- a transaction whose commit fails (no space for the pages of the mapping or of the free lists —
    possibly after the commit's own checkpoint already released overwrite pages): rolled back -/
theorem c11_engine_tx_failed_commit (f : FileSt) (live : List Nat) (h : EngAcc f live) (g wl : Nat)
    (ops : List EOp) (order : List Nat) (f2 : FileSt) (tx2 : TxSt) (ws : List (Nat × Nat))
    (hflush : flushList (runEOps (ERunSt.start f live false g wl) ops).f
      (runEOps (ERunSt.start f live false g wl) ops).tx order = .ok (f2, tx2, ws))
    (hall : tx2.unflushed = []) (hfail : (commitAfterFlush f2 tx2).2.1 ≠ .ok) :
    EngAcc (commitAfterFlush f2 tx2).1 live := by
  have hr := runinv_ops h.inv ops _ (runInv_start f live h.inv false g wl)
  obtain ⟨h2, -⟩ := txinv_flushList h.inv order _ _ hr.tx f2 tx2 ws hflush
  obtain ⟨r1, r2, r3, -⟩ := (commit_data h.inv h2 (allFlushed_of_unflushed tx2 hall)).2 hfail
  have r4 : (commitAfterFlush f2 tx2).1.walPages = f.walPages :=
    (commit_fail_hdr f2 tx2 hfail).2.2.2.trans h2.sameWP
  exact ⟨r1, quiet_of_same h.quiet r2 r3 r4⟩

/-! ### histories -/

/-- one whole transaction of a history (`runTxn`: operations, final flush, commit / failing commit /
    rollback) keeps the quiescent invariant -/
theorem c11_engine_runTxn (s : FileSt × List Nat) (h : EngAcc s.1 s.2) (t : Txn) :
    EngAcc (runTxn s t).1 (runTxn s t).2 := by
  unfold runTxn
  dsimp only
  split
  · exact c11_engine_tx_abort s.1 s.2 h t.growPct t.walLimit t.ops
  · rename_i f2 tx2 ws hfl
    split
    · rename_i hall
      split
      · rename_i hok
        exact c11_engine_tx_commit s.1 s.2 h t.growPct t.walLimit t.ops t.order f2 tx2 ws hfl hall hok
      · rename_i hfail
        exact c11_engine_tx_failed_commit s.1 s.2 h t.growPct t.walLimit t.ops t.order f2 tx2 ws hfl hall hfail
    · exact c11_engine_tx_abort_flushed s.1 s.2 h t.growPct t.walLimit t.ops t.order f2 tx2 ws hfl

/-- along any engine history the quiescent invariant holds -/
theorem c11_engine_history (s : FileSt × List Nat) (h : EngAcc s.1 s.2) (ts : List Txn) :
    EngAcc (runHistory s ts).1 (runHistory s ts).2 := by
  induction ts generalizing s with
  | nil => exact h
  | cons t ts ih => exact ih (runTxn s t) (c11_engine_runTxn s h t)

/-- **C11 for the engine model**: at every quiescent point (after any number `k` of the transactions)
    of any engine history — arbitrary operations per transaction, every transaction committed, rolled
    back, or failing in its commit — of a bounded file that does not use the overflow area, starting
    from any state satisfying the quiescent invariant:
    allocatable pages + pages the client owns + meta-area pages + 2 header pages = maxPages. -/
theorem c11_engine_space_eq (s : FileSt × List Nat) (h : EngAcc s.1 s.2) (ts : List Txn) (k : Nat) :
    (runHistory s (ts.take k)).1.alloc.dataAvail + (runHistory s (ts.take k)).2.length +
      (runHistory s (ts.take k)).1.alloc.metaTotal + 2 = (runHistory s (ts.take k)).1.alloc.maxPages :=
  engAcc_space_eq (c11_engine_history s h (ts.take k))

/-- **C11 for the engine model, from file creation**: the same for every history of a created bounded
    file (page limit `mp` with room for the header pages and the initial meta area `im`); the limit
    never changes -/
theorem c11_engine_space_eq_created (ps mp im : Nat) (hmp : 2 + im ≤ mp) (ts : List Txn) (k : Nat) :
    (runHistory (FileSt.create ps mp im, []) (ts.take k)).1.alloc.dataAvail +
      (runHistory (FileSt.create ps mp im, []) (ts.take k)).2.length +
      (runHistory (FileSt.create ps mp im, []) (ts.take k)).1.alloc.metaTotal + 2 =
      (runHistory (FileSt.create ps mp im, []) (ts.take k)).1.alloc.maxPages :=
  c11_engine_space_eq (FileSt.create ps mp im, []) (engAcc_create ps mp im hmp) ts k

/-! ### the page limit is a constant of the history -/

theorem runTxn_maxPages (s : FileSt × List Nat) (h : EngInv s.1 s.2) (t : Txn) :
    (runTxn s t).1.alloc.maxPages = s.1.alloc.maxPages := by
  have hr := runinv_ops h t.ops _ (runInv_start s.1 s.2 h false t.growPct t.walLimit)
  unfold runTxn
  dsimp only
  split
  · rw [(abort_spec h hr.tx).2.1]
  · rename_i f2 tx2 ws hfl
    obtain ⟨h2, -⟩ := txinv_flushList h t.order _ _ hr.tx f2 tx2 ws hfl
    split
    · rename_i hall
      split
      · rename_i hok
        exact commit_ok_maxPages h h2 (allFlushed_of_unflushed tx2 hall) hok
      · rename_i hfail
        rw [((commit_data h h2 (allFlushed_of_unflushed tx2 hall)).2 hfail).2.1]
    · rw [(abort_spec h h2).2.1]

theorem runHistory_maxPages (s : FileSt × List Nat) (h : EngInv s.1 s.2) (ts : List Txn) :
    (runHistory s ts).1.alloc.maxPages = s.1.alloc.maxPages := by
  induction ts generalizing s with
  | nil => rfl
  | cons t ts ih =>
    show (runHistory (runTxn s t) ts).1.alloc.maxPages = _
    rw [ih (runTxn s t) (runTxn_inv s h t), runTxn_maxPages s h t]

/-- **C11, engine model, in terms of the configured limit**: at every quiescent point of every history
    of a file created with the page limit `mp`:
    allocatable + owned by the client + meta area + 2 = `mp` -/
theorem c11_engine_space_eq_limit (ps mp im : Nat) (hmp : 2 + im ≤ mp) (ts : List Txn) (k : Nat) :
    (runHistory (FileSt.create ps mp im, []) (ts.take k)).1.alloc.dataAvail +
      (runHistory (FileSt.create ps mp im, []) (ts.take k)).2.length +
      (runHistory (FileSt.create ps mp im, []) (ts.take k)).1.alloc.metaTotal + 2 = mp := by
  rw [c11_engine_space_eq_created ps mp im hmp ts k,
    runHistory_maxPages _ (engAcc_create ps mp im hmp).inv]
  show (FileSt.create ps mp im).alloc.maxPages = mp
  unfold FileSt.create
  split <;> rfl

/-! ### the hypotheses are satisfiable; concrete histories -/

/-- a bounded file in the middle of its life: limit 40, pages 2..11 in use —
    client pages 3 (redirected to the overwrite page 5), 4, 10, 11; free data page 9; meta area of 5 pages:
    overwrite page 5, mapping page 8, free-list page 2, free meta pages 6, 7 -/
def accFile : FileSt :=
  { alloc := { maxPages := 40, pageSize := 4096, data := { endMarker := 12, free := [9] },
               mta := { endMarker := 12, free := [6, 7] }, metaTotal := 5, freelistPages := [2] },
    walMap := [(3, 5)], walPages := [8], txid := 7,
    disk := [(3, Content.full 3 1), (4, Content.full 4 1), (5, Content.full 3 2)] }

example : accFile.internal = [5, 8, 2] := by decide

example : EngAcc accFile [3, 4, 10, 11] := by
  refine ⟨⟨allocWF_spec _ (by decide), by decide, ?_, ?_, ?_, ?_, ?_, by decide, by decide, by decide⟩, by decide⟩
  · simp [AscKeys, accFile]
  · intro id hid
    simp only [List.mem_cons, List.not_mem_nil, or_false] at hid
    rcases hid with rfl | rfl | rfl | rfl <;> simp [InUse, accFile]
  · intro k w hk
    simp only [accFile, Assoc.get?_cons, Assoc.get?_nil] at hk
    split at hk
    · simp_all
    · cases hk
  · intro k1 k2 w h1 h2
    simp only [accFile, Assoc.get?_cons, Assoc.get?_nil] at h1 h2
    split at h1 <;> split at h2 <;> simp_all
  · intro x hx
    simp only [FileSt.internal, accFile, List.map_cons, List.map_nil, List.cons_append,
      List.nil_append, List.mem_cons, List.not_mem_nil, or_false] at hx
    rcases hx with rfl | rfl | rfl <;> simp [InUse, accFile]

/-- the equation on that state: 29 allocatable + 4 owned + 5 meta + 2 = 40 -/
example : accFile.alloc.dataAvail = 29 ∧ accFile.alloc.metaTotal = 5 := by decide

/-- a history on a created file (limit 40, initial meta area 4):
    1. allocation of 3 pages, writes, commit;
    2. partial write of a committed page (flushed through a fresh overwrite page: the meta area grows
       from 4 to 8 pages), free of a committed page, allocations, commit;
    3. a transaction that ends with a dirty page not flushed: rolled back;
    4. a failing allocation, a free of a committed page, the freed page of transaction 2 allocated again,
       flush, an explicit checkpoint (releases the overwrite page 2), commit;
    5. a commit that runs its own checkpoint (`walLimit = 1`);
    6. an allocation that fills the file completely, a write that needs an overwrite page, commit. -/
def accHist : List Txn := [
  { ops := [.alloc 3, .write 6 .full 1, .write 7 .full 1, .write 8 .lo 1, .flushPage 7], order := [6, 8] },
  { ops := [.write 6 .lo 2, .free 7, .alloc 2, .flushPage 6, .write 9 .full 2], order := [9] },
  { ops := [.write 8 .full 3, .alloc 4, .free 6, .checkpoint], order := [] },
  { ops := [.write 8 .hi 4, .alloc 100, .free 9, .alloc 1, .free 11, .flushAll [8], .checkpoint], order := [] },
  { walLimit := 1, ops := [.write 10 .full 5, .write 8 .lo 5], order := [8, 10] },
  { ops := [.alloc 26, .write 6 .full 6], order := [6] } ]

/-- what the examples show of a quiescent point: allocatable, owned pages, meta area, mapping -/
def accShow (q : FileSt × List Nat) : Nat × Nat × Nat × List (Nat × Nat) :=
  (q.1.alloc.dataAvail, q.2.length, q.1.alloc.metaTotal, q.1.walMap)

/-- the seven quiescent points of the history -/
example : (List.range 7).map (fun k => accShow (runHistory (FileSt.create 4096 40 4, []) (accHist.take k))) =
    [(34, 0, 4, []), (31, 3, 4, []), (26, 4, 8, [(6, 2)]), (26, 4, 8, [(6, 2)]),
     (26, 4, 8, [(8, 3)]), (26, 4, 8, [(10, 2)]), (0, 30, 8, [(6, 12), (10, 2)])] := by decide

example : EngAcc (runHistory (FileSt.create 4096 40 4, []) accHist).1 (runHistory (FileSt.create 4096 40 4, []) accHist).2 :=
  c11_engine_history _ (engAcc_create 4096 40 4 (by decide)) accHist

/-- a commit that fails: the first transaction fills the file (limit 8, one meta page); its commit finds
    no page for the free lists (`allocOom`) and rolls back; the second transaction leaves room for the
    meta area to grow and commits -/
def accHistFail : List Txn :=
  [ { ops := [.alloc 5, .write 3 .full 1], order := [3] }, { ops := [.alloc 4, .write 3 .full 1], order := [3] } ]

example :
    (let r := runEOps (ERunSt.start (FileSt.create 4096 8 1) [] false 0 0) [.alloc 5, .write 3 .full 1]
     match flushList r.f r.tx [3] with
     | .ok (f2, tx2, _) => decide ((commitAfterFlush f2 tx2).2.1 = .allocOom) && decide (tx2.unflushed = [])
     | .error _ => false) = true := by decide

example : (List.range 3).map (fun k => accShow (runHistory (FileSt.create 4096 8 1, []) (accHistFail.take k))) =
    [(5, 0, 1, []), (5, 0, 1, []), (0, 4, 2, [])] := by decide

/-! ### the hypotheses are needed -/

/-- a full bounded file: limit 12, client pages 3 (redirected to 5), 4, 6, 7, 9, 10, 11, meta area 5, 8, 2 -/
def accFull : FileSt :=
  { alloc := { maxPages := 12, pageSize := 4096, data := { endMarker := 12, free := [] },
               mta := { endMarker := 12, free := [] }, metaTotal := 3, freelistPages := [2] },
    walMap := [(3, 5)], walPages := [8], txid := 7,
    disk := [(3, Content.full 3 1), (4, Content.full 4 1), (5, Content.full 3 2)] }

/-- with `overflow = true` the equation breaks (see also Props/C11History.lean): on the full file the
    overwrite page for a flush comes from beyond the limit (page 12), the meta area grows to 4 pages,
    nothing else shrinks: 0 + 7 + 4 + 2 ≠ 12 -/
example :
    Quiet accFull.alloc [3, 4, 6, 7, 9, 10, 11] accFull.internal ∧
    accFull.alloc.dataAvail + 7 + accFull.alloc.metaTotal + 2 = accFull.alloc.maxPages ∧
    accShow ((runEOps (ERunSt.start accFull [3, 4, 6, 7, 9, 10, 11] true 0 0) [.write 4 .full 9, .flushPage 4]).f,
             (runEOps (ERunSt.start accFull [3, 4, 6, 7, 9, 10, 11] true 0 0) [.write 4 .full 9, .flushPage 4]).cur) =
      (0, 7, 4, [(3, 5)]) ∧
    (runEOps (ERunSt.start accFull [3, 4, 6, 7, 9, 10, 11] true 0 0) [.write 4 .full 9, .flushPage 4]).tx.walNew
      = [(4, 12)] := by decide

end TxVerif
