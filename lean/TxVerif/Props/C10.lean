/-
  C10 — close and reopen is lossless.
  What is written to the file on commit is: the free lists (regions of the data and the meta
  area) through `writeFreeLists`, the overwrite mapping through `writeWal`, and the header.
  Props/C10Codec.lean proves that reading these structures back returns exactly what was
  written (`freelist_roundtrip`, `wal_roundtrip`, `region_roundtrip`, `wal_entry_roundtrip`);
  Props/C16 covers the header. On top of that the engine model treats reopening as the identity
  on the logical state (below); that this is what the implementation does is checked by the
  engine correspondence after every reopen of every generated history (snapshot = model).
-/
import TxVerif.Props.C10Codec
import TxVerif.Model.Engine
import TxVerif.Proofs.IdSet
namespace TxVerif

/-- reopening keeps root, contents of every page, both free lists, end markers, the meta area
    size and the mapping; only the derived statistic is recomputed -/
theorem reopen_identity (f : FileSt) :
    f.reopen.alloc = f.alloc ∧ f.reopen.walMap = f.walMap ∧ f.reopen.walPages = f.walPages ∧
    f.reopen.root = f.root ∧ f.reopen.txid = f.txid ∧ (∀ id, f.reopen.readPage id = f.readPage id) := by
  simp [FileSt.reopen, FileSt.readPage, FileSt.physOf, FileSt.diskAt]

/-- the regions written for an id set are its maximal runs; expanding them gives the ids back
    (the free list that is read back denotes the same set of pages) -/
theorem runs_denote (l : List Nat) (h : Asc l) : (runs l).flatMap (fun r => idRange r.1 r.2) = l :=
  runs_expand l h

end TxVerif
