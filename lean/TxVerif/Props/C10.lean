/-
  C10 — close and reopen is lossless.
  What is written to the file on commit is: the free lists (regions of the data and the meta
  area) through `writeFreeLists`, the overwrite mapping through `writeWal`, and the header.
  Props/C10Codec.lean proves that reading these structures back returns exactly what was
  written (`freelist_roundtrip`, `wal_roundtrip`, `region_roundtrip`, `wal_entry_roundtrip`);
  Props/C16 covers the header. On top of that the engine model treats reopening as the identity
  on the logical state (below); that this is what the implementation does is checked by the
  engine correspondence after every reopen of every generated history (snapshot = model).
-/
import TxVerif.Props.C10Codec
import TxVerif.Model.Engine
import TxVerif.Proofs.IdSet
namespace TxVerif

/-- reopening keeps root, contents of every page, both free lists, the meta area and the mapping;
    the derived statistic is recomputed, and the data end marker is raised over an overflow area
    if (and only if) the data area may still grow (`absorbOverflow`) -/
theorem reopen_identity (f : FileSt) :
    f.reopen.alloc = f.alloc.absorbOverflow ∧ f.reopen.walMap = f.walMap ∧ f.reopen.walPages = f.walPages ∧
    f.reopen.root = f.root ∧ f.reopen.txid = f.txid ∧ (∀ id, f.reopen.readPage id = f.readPage id) := by
  simp [FileSt.reopen, FileSt.readPage, FileSt.physOf, FileSt.diskAt]

/-- what `absorbOverflow` leaves alone: everything but the data end marker -/
theorem absorb_keeps (a : Alloc) :
    a.absorbOverflow.data.free = a.data.free ∧ a.absorbOverflow.mta = a.mta ∧ a.absorbOverflow.metaTotal = a.metaTotal ∧
    a.absorbOverflow.maxPages = a.maxPages ∧ a.absorbOverflow.freelistPages = a.freelistPages ∧
    a.data.endMarker ≤ a.absorbOverflow.data.endMarker := by
  unfold Alloc.absorbOverflow
  split
  · rename_i h; simp; omega
  · simp

/-- without an overflow area, or on a file that is at (or over) its limit, reopening changes nothing -/
theorem absorb_id (a : Alloc) (h : a.mta.endMarker ≤ a.data.endMarker ∨ (0 < a.maxPages ∧ a.maxPages ≤ a.data.endMarker)) :
    a.absorbOverflow = a := by
  unfold Alloc.absorbOverflow
  split
  · rename_i hc; omega
  · rfl

/-- after reopening, pages handed out from the end of the file can not collide with meta pages:
    whenever the data area may grow, its end marker is not below the meta end marker -/
theorem absorb_no_collision (a : Alloc) (hg : a.absorbOverflow.maxPages = 0 ∨ a.absorbOverflow.data.endMarker < a.absorbOverflow.maxPages) :
    a.mta.endMarker ≤ a.absorbOverflow.data.endMarker := by
  unfold Alloc.absorbOverflow at *
  split
  · simp
  · rename_i hc
    simp only [hc, if_false] at hg
    omega

/-- the regions written for an id set are its maximal runs; expanding them gives the ids back
    (the free list that is read back denotes the same set of pages) -/
theorem runs_denote (l : List Nat) (h : Asc l) : (runs l).flatMap (fun r => idRange r.1 r.2) = l :=
  runs_expand l h

end TxVerif
