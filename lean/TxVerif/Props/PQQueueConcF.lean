/-
  C13 with failing transactions (Model/PQQueueConcF.lean): the two-thread step relation extended by `pFail o`
  (the producer's flush transaction fails and is rolled back) and `cFail` (the ACK's cleanup transaction fails).

  * `concF_step_invariant`   every step of the extended relation - in particular `pFail`, `cFail` - keeps the
                             invariant of the existing proof (`LInv`: `QInv` between queue and ghost specification
                             state, the base linearization accepted by the specification; `KInv`: lock state
                             consistent with `pp`/`cp`, ACK plan applicable)
  * `concF_invariant`        hence it holds in every state reachable with failing steps (inside the contract)
  * `concF_fail_unobservable` `pFail`/`cFail` leave root header, page chain, positions, reader and counters as they
                             were; the specification's flushed events, consumed/acked counts are unchanged; a
                             drain after the failure is given exactly what a drain before it would have been given
  * `concF_lock_released`    after `pFail` the producer holds no lock (the lock state is exactly what the consumer
                             holds) and the consumer can take its next step whenever it has one; after `cFail`
                             symmetrically for the producer
  * `concF_linearizable`     the full linearization `linF` - failed calls included, at the step where they fail, with
                             result `txFailed` - is accepted by the specification with failed calls (`ASpec.runLinF`)
                             and ends in the ghost state; each thread has seen exactly the results recorded in it
  * `concF_linearizable_partial`  the same for the base linearization (failed `Write`/`Flush`/`ACK` left out)

  Hypotheses: `64 ≤ c.P`; `bad = false` (contract, as in Props/PQQueueConc.lean).
-/
import TxVerif.Proofs.PQQueueConcF
import TxVerif.Props.PQQueueConc
namespace TxVerif

/-- **Every step of the extended relation keeps the invariant** (`CInvF`: out of contract, or `LInv ∧ KInv` of the
    base state for the effective programs). -/
theorem concF_step_invariant (c : QCfg) (hP : 64 ≤ c.P) (sF sF' : CStateF) (st : CStepF) (h : CInvF c sF)
    (hs : sF.step c st = some sF') : CInvF c sF' := concF_step_inv c hP sF sF' st h hs

/-- **The invariant holds in every state reachable with failing steps.**  For every schedule of regular steps,
    `pFail o` and `cFail`, from the initial state of any two programs, inside the contract: the queue state is
    related to the ghost specification state, the specification accepts the base linearization and ends in that
    state, ACKs were only of events given, and the lock state is consistent with the control states. -/
theorem concF_invariant (c : QCfg) (hP : 64 ≤ c.P) (p0 c0 : List QOp) (sched : List CStepF)
    (hb : (CStateF.run c (CStateF.init c p0 c0) sched).base.bad = false) :
    let s := (CStateF.run c (CStateF.init c p0 c0) sched).base
    QInv c s.q s.a ∧ ASpec.runLin {} s.lin = some s.a ∧ s.a.ackOk ∧ KInv c s ∧
    s.outP = (linP s.lin).map (·.out) ∧ s.outC = (linC s.lin).map (·.out) := by
  intro s
  rcases concF_run_inv c hP sched _ (concF_init_inv c hP p0 c0) with h | ⟨hL, hK⟩
  · rw [hb] at h; cases h
  · exact ⟨hL.qinv, hL.linr, hL.ackok, hK, hL.outP, hL.outC⟩

/-- a failing step -/
def CStepF.isFail : CStepF → Bool
  | .reg _ => false
  | _ => true

/-- **A failed transaction is not observable by the other thread.**  A `pFail`/`cFail` step (inside the contract)
    leaves the root header, the page chain, head and read position, the page count, the reader and the counters
    as they were; in the specification the flushed events and the consumed / acked counts are unchanged; and a
    consumer that drains the queue after the failure is given exactly the events a drain before it would have
    been given. -/
theorem concF_fail_unobservable (c : QCfg) (hP : 64 ≤ c.P) (sF sF' : CStateF) (st : CStepF) (hf : st.isFail = true)
    (h : CInvF c sF) (hs : sF.step c st = some sF') (hb : sF'.base.bad = false) :
    let q := sF.base.q; let q' := sF'.base.q; let a := sF.base.a; let a' := sF'.base.a
    q'.hdr = q.hdr ∧ q'.w.persisted = q.w.persisted ∧ q'.w.tailOff = q.w.tailOff ∧ q'.headPos = q.headPos ∧
    q'.readPos = q.readPos ∧ q'.inuse = q.inuse ∧ q'.r = q.r ∧ q'.totFlushed = q.totFlushed ∧
    q'.totAcked = q.totAcked ∧ q'.totFreed = q.totFreed ∧
    a'.flushed = a.flushed ∧ a'.consumed = a.consumed ∧ a'.acked = a.acked ∧ a'.left = a.left ∧
    a'.inRead = a.inRead ∧ a'.events.take a'.flushed = a.events.take a.flushed ∧
    sF'.base.outC = sF.base.outC ∧
    (a.inRead = false → a.left = 0 →
      (PQState.run c q' (.rbegin :: drainOps ((a.events.take a.flushed).drop a.consumed))).2 =
      (PQState.run c q (.rbegin :: drainOps ((a.events.take a.flushed).drop a.consumed))).2) := by
  intro q q' a a'
  have h' := concF_step_inv c hP sF sF' st h hs
  have hI' : QInv c q' a' := by
    rcases h' with h' | ⟨hL, _⟩
    · rw [hb] at h'; cases h'
    · exact hL.qinv
  have hI : QInv c q a := by
    rcases h with h | ⟨hL, _⟩
    · cases st <;> simp [CStepF.isFail] at hf <;> simp [CStateF.step, CStateF.pFail, CStateF.cFail, h] at hs
    · exact hL.qinv
  have key : q'.hdr = q.hdr ∧ q'.w.persisted = q.w.persisted ∧ q'.w.tailOff = q.w.tailOff ∧ q'.headPos = q.headPos ∧
      q'.readPos = q.readPos ∧ q'.inuse = q.inuse ∧ q'.r = q.r ∧ q'.totFlushed = q.totFlushed ∧
      q'.totAcked = q.totAcked ∧ q'.totFreed = q.totFreed ∧ sF'.base.outC = sF.base.outC ∧
      (a' = a ∨ a' = { a with events := a.events ++ [a.cur], cur := [] }) := by
    cases st with
    | reg t => cases hf
    | pFail o =>
      rcases pFail_shape c sF sF' o hs with hbad | ⟨⟨w', e1, e2, e3⟩, _, _, _, e4, _, _, ha, _⟩
      · rw [hb] at hbad; cases hbad
      · rw [show q' = { q with w := w' } from e1]
        exact ⟨rfl, e2, e3, rfl, rfl, rfl, rfl, rfl, rfl, rfl, e4, ha⟩
    | cFail =>
      obtain ⟨e1, e2, _, _, _, _, _, e3, _⟩ := cFail_shape sF sF' hs
      rw [show q' = q from e1]
      exact ⟨rfl, rfl, rfl, rfl, rfl, rfl, rfl, rfl, rfl, rfl, e3, Or.inl e2⟩
  obtain ⟨k1, k2, k3, k4, k5, k6, k7, k8, k9, k10, k11, ka⟩ := key
  have hA : a'.flushed = a.flushed ∧ a'.consumed = a.consumed ∧ a'.acked = a.acked ∧ a'.left = a.left ∧
      a'.inRead = a.inRead ∧ a'.events.take a'.flushed = a.events.take a.flushed := by
    rcases ka with ka | ka
    · rw [ka]; exact ⟨rfl, rfl, rfl, rfl, rfl, rfl⟩
    · rw [ka]
      refine ⟨rfl, rfl, rfl, rfl, rfl, ?_⟩
      exact List.take_append_of_le_length hI.fle
  obtain ⟨a1, a2, a3, a4, a5, a6⟩ := hA
  refine ⟨k1, k2, k3, k4, k5, k6, k7, k8, k9, k10, a1, a2, a3, a4, a5, a6, k11, fun hin hl => ?_⟩
  have d1 := queue_drain_from c hP q a hI hin hl
  have d2 := queue_drain_from c hP q' a' hI' (by rw [a5]; exact hin) (by rw [a4]; exact hl)
  rw [a6, a2] at d2
  rw [d1, d2]

/-- **After a failed transaction the failing thread holds no lock.**  After `pFail` the producer is idle and the
    lock state is exactly what the consumer holds (reserved/pending iff the consumer's ACK holds them) - as if
    the failed call had never begun - and the consumer can take its next step whenever it has a call left.
    After `cFail` the same with the roles exchanged. -/
theorem concF_lock_released (c : QCfg) (hP : 64 ≤ c.P) (sF sF' : CStateF) (st : CStepF)
    (h : CInvF c sF) (hs : sF.step c st = some sF') (hb : sF'.base.bad = false) :
    match st with
    | .pFail _ => sF'.base.pp = .idle ∧ sF'.base.lock.reserved = sF'.base.cp.holdsRes ∧
        sF'.base.lock.pending = sF'.base.cp.isPending ∧ sF'.base.lock.shared = sF.base.lock.shared ∧
        sF'.base.cp = sF.base.cp ∧ (sF'.base.progC ≠ [] → (sF'.base.stepC c).isSome = true)
    | .cFail => sF'.base.cp = .idle ∧ sF'.base.lock.reserved = decide (sF'.base.pp ≠ .idle) ∧
        sF'.base.lock.pending = decide (sF'.base.pp = .pending) ∧ sF'.base.pp = sF.base.pp ∧
        (sF'.base.progP ≠ [] → (sF'.base.stepP c).isSome = true)
    | .reg _ => True := by
  have h' := concF_step_inv c hP sF sF' st h hs
  obtain ⟨hL, hK⟩ : CFInv c sF'.base := by
    rcases h' with h' | h'
    · rw [hb] at h'; cases h'
    · exact h'
  have hsh : sF'.base.lock.shared ≠ 0 → sF'.base.q.r.inTx = true := by
    intro h0; have := hK.shared; cases hq : sF'.base.q.r.inTx <;> simp_all
  have hplanTx : ∀ p, sF'.base.cp.plan? = some p → sF'.base.q.r.inTx = false := by
    intro p hp
    obtain ⟨_, _, _, _, h3, _⟩ := hK.plan p hp
    rw [hL.qinv.r.inTx]; exact h3
  cases st with
  | reg t => trivial
  | pFail o =>
    simp only
    rcases pFail_shape c sF sF' o hs with hbad | ⟨_, e1, e2, _, _, _, e3, _⟩
    · rw [hb] at hbad; cases hbad
    have hr := hK.reserved
    have hp := hK.pending
    rw [e1] at hr hp
    refine ⟨e1, by simpa using hr, by simpa using hp, by rw [e3]; split <;> rfl, e2, fun hne => ?_⟩
    cases hc : sF'.base.stepC c with
    | some _ => rfl
    | none =>
      exfalso
      rcases stepC_none c _ hc with h0 | ⟨hci, hpd, _⟩ | ⟨p, hcp, hres⟩ | ⟨p, hcp, hs0⟩
      · exact hne h0
      · rw [hci, hpd] at hp; simp [CPc.isPending] at hp
      · rw [hcp, hres] at hr; simp [CPc.holdsRes] at hr
      · have := hsh hs0; rw [hplanTx p (by rw [hcp]; rfl)] at this; cases this
  | cFail =>
    simp only
    obtain ⟨_, _, e1, e2, _⟩ := cFail_shape sF sF' hs
    have hr := hK.reserved
    have hp := hK.pending
    rw [e1] at hr hp
    refine ⟨e1, by simpa [CPc.holdsRes] using hr, by simpa [CPc.isPending] using hp, e2, fun hne => ?_⟩
    cases hc : sF'.base.stepP c with
    | some _ => rfl
    | none =>
      exfalso
      rcases stepP_none c _ hc with h0 | ⟨hpi, hres⟩ | ⟨hpp, hs0⟩
      · exact hne h0
      · rw [hpi, hres] at hr; simp [CPc.holdsRes] at hr
      · -- the ACK that failed was outside the read session
        have hin : sF'.base.q.r.inTx = true := hsh hs0
        have hcp : sF.base.cp ≠ .idle := (cFail_shape sF sF' hs).2.2.2.2.2.2.2.2.2.2.1
        rcases h with h | ⟨_, hK0⟩
        · simp [CStateF.step, CStateF.cFail, h] at hs
        · obtain ⟨p, hpl⟩ : ∃ p, sF.base.cp.plan? = some p := by
            cases hq : sF.base.cp with
            | idle => exact absurd hq hcp
            | planned p => exact ⟨p, rfl⟩
            | active p => exact ⟨p, rfl⟩
            | pending p => exact ⟨p, rfl⟩
          obtain ⟨_, _, _, _, h3, _⟩ := hK0.plan p hpl
          have e0 := (cFail_shape sF sF' hs)
          rw [hL.qinv.r.inTx, e0.2.1, h3] at hin
          cases hin

/-! ## goal 4 (linearizability with failed calls): first version, superseded by `concF_linearizable` at the end of this file
  (proved there except for the two program-order clauses `p0 = …`, `c0 = …`)

  Full statement (`ASpec.runLinF`, `ASpec.failL` are defined in Model/PQQueueConcF.lean):
    theorem concF_linearizable (c) (hP : 64 ≤ c.P) (p0 c0) (sched : List CStepF)
        (hb : (CStateF.run c (CStateF.init c p0 c0) sched).base.bad = false) :
        let sF := CStateF.run c (CStateF.init c p0 c0) sched
        ASpec.runLinF {} sF.linF = some sF.base.a ∧
        p0 = ((sF.linF.filter (!·.tid)).map (·.op)) ++ sF.base.progP ∧
        c0 = ((sF.linF.filter (·.tid)).map (·.op)) ++ sF.base.progC ∧
        sF.outPF = (sF.linF.filter (!·.tid)).map (·.out) ∧ sF.outCF = (sF.linF.filter (·.tid)).map (·.out) ∧
        QInv c sF.base.q sF.base.a
  Missing: the bookkeeping lemma relating `linF`/`outPF`/`outCF` to the base linearization along regular steps.
  What IS proved (`concF_invariant`) is the `_partial` form below: the BASE linearization - the failed
  `Write`/`Flush`/`ACK` calls left out, a failed `Next` as the non-flushing `next` - is accepted by the
  specification with the recorded results and ends in a state related to the queue. -/
theorem concF_linearizable_partial (c : QCfg) (hP : 64 ≤ c.P) (p0 c0 : List QOp) (sched : List CStepF)
    (hb : (CStateF.run c (CStateF.init c p0 c0) sched).base.bad = false) :
    let s := (CStateF.run c (CStateF.init c p0 c0) sched).base
    ∃ lin : List LinEv, ASpec.runLin {} lin = some s.a ∧
      s.outP = (linP lin).map (·.out) ∧ s.outC = (linC lin).map (·.out) ∧ QInv c s.q s.a := by
  intro s
  obtain ⟨h1, h2, _, _, h5, h6⟩ := concF_invariant c hP p0 c0 sched hb
  exact ⟨s.lin, h2, h5, h6, h1⟩

/-! ## a concrete run (P = 64, buffer of 5 pages) -/

def exProgPF : List QOp := [.write (ev 3 1), .next, .flush, .flush]
def exProgCF : List QOp := [.rbegin, .rnext, .rdone, .rbegin, .rnext, .rread 100, .rdone]

/-- `write`, `next`; the consumer opens a session; the flush takes reserved and pending lock and FAILS
    (allocation: `err:oom`); the consumer, still in its session, sees no event and closes it; the retried flush
    commits (3 steps); a new session is given the event. -/
def exSchedF : List CStepF :=
  [.reg false, .reg false, .reg true, .reg false, .reg false, .pFail .allocFail, .reg true, .reg true,
   .reg false, .reg false, .reg false, .reg true, .reg true, .reg true, .reg true]

set_option maxRecDepth 100000 in
theorem concF_example_fail_retry :
    let s5 := CStateF.run exCfg (CStateF.init exCfg exProgPF exProgCF) (exSchedF.take 5)
    let s6 := CStateF.run exCfg (CStateF.init exCfg exProgPF exProgCF) (exSchedF.take 6)
    let s := CStateF.run exCfg (CStateF.init exCfg exProgPF exProgCF) exSchedF
    s5.base.pp = .pending ∧ s5.base.lock = { shared := 1, pending := true, reserved := true } ∧
    s6.base.pp = .idle ∧ s6.base.lock = { shared := 1, pending := false, reserved := false } ∧
    s6.outPF = [.ret (.wrote none), .ret (.wrote none), .txFailed] ∧ s6.base.q.hdr = s5.base.q.hdr ∧
    s6.base.q.w.persisted = s5.base.q.w.persisted ∧
    s.outPF = [.ret (.wrote none), .ret (.wrote none), .txFailed, .ret (.wrote (some 1))] ∧
    s.outCF = [.ret .ok, .ret (.size 0), .ret .ok, .ret .ok, .ret (.size 3), .ret (.bytes (ev 3 1)), .ret .ok] ∧
    s.linF.map (·.out) = [.ret (.wrote none), .ret (.wrote none), .ret .ok, .txFailed, .ret (.size 0), .ret .ok,
      .ret (.wrote (some 1)), .ret .ok, .ret (.size 3), .ret (.bytes (ev 3 1)), .ret .ok] ∧
    s.base.bad = false ∧ s.base.finished = true ∧ s.base.lock = {} ∧
    ASpec.runLinF {} s.linF = some s.base.a := by decide +kernel

/-- the hypotheses of the theorems are satisfiable: the `pFail` step of the run above, from a state with invariant -/
example : ∃ sF sF', CInvF exCfg sF ∧ sF.step exCfg (.pFail .allocFail) = some sF' ∧ sF'.base.bad = false :=
  ⟨CStateF.run exCfg (CStateF.init exCfg exProgPF exProgCF) (exSchedF.take 5), _,
    concF_run_inv exCfg (by decide) _ _ (concF_init_inv exCfg (by decide) _ _), rfl, by decide +kernel⟩

/-- **LINEARIZABILITY with failing transactions.**  For every schedule of regular steps, `pFail o` and `cFail` from
    the initial state of any producer program `p0` and consumer program `c0`, inside the contract: the full
    linearization `linF` recorded by the run - every completed call at its linearization point, a FAILED call at
    the step where its transaction fails, with the result `txFailed` - is accepted by the specification with
    failed calls (`ASpec.runLinF`: a regular call as in `ASpec.stepL` with exactly the recorded result; a failed
    `Write`/`Flush`/`ACK n` (`n > 0`) is a no-op, a failed `Next` finishes the event without flushing) and ends in
    the ghost state `a`; the results the producer / the consumer have really seen (`outPF`, `outCF`, errors
    included) are exactly the results recorded in `linF` for that thread, in order; and `a` is related to the
    queue state.
    (Not part of this statement: `p0 = (linPF linF).map op ++ progP`, likewise for `c0` - see the comment above.) -/
theorem concF_linearizable (c : QCfg) (hP : 64 ≤ c.P) (p0 c0 : List QOp) (sched : List CStepF)
    (hb : (CStateF.run c (CStateF.init c p0 c0) sched).base.bad = false) :
    let sF := CStateF.run c (CStateF.init c p0 c0) sched
    ASpec.runLinF {} sF.linF = some sF.base.a ∧
    sF.outPF = (linPF sF.linF).map (·.out) ∧ sF.outCF = (linCF sF.linF).map (·.out) ∧
    QInv c sF.base.q sF.base.a := by
  intro sF
  rcases concF_run_ginv c hP sched _ (concF_init_ginv c hP p0 c0) with h | ⟨⟨hL, _⟩, hG⟩
  · rw [hb] at h; cases h
  · exact ⟨hG.linr, hG.outP, hG.outC, hL.qinv⟩

/-- every step of the extended relation keeps the invariant with the full linearization -/
theorem concF_step_linearizable (c : QCfg) (hP : 64 ≤ c.P) (sF sF' : CStateF) (st : CStepF) (h : CGInv c sF)
    (hs : sF.step c st = some sF') : CGInv c sF' := concF_step_ginv c hP sF sF' st h hs

set_option maxRecDepth 100000 in
/-- the run of `concF_example_fail_retry`: the failed flush is in `linF`, between the consumer's `rbegin` and `rnext` -/
example :
    let s := CStateF.run exCfg (CStateF.init exCfg exProgPF exProgCF) exSchedF
    (linPF s.linF).map (·.out) = [.ret (.wrote none), .ret (.wrote none), .txFailed, .ret (.wrote (some 1))] ∧
    s.linF.map (·.tid) = [false, false, true, false, true, true, false, true, true, true, true] := by
  decide +kernel

end TxVerif
