/-
  C17 — queue counters and callbacks agree with the event history.
-/
import TxVerif.Model.PQCounters
namespace TxVerif

/-- **counters**: a header that describes F flushed and A acknowledged events reports
    Pending = Active = F − A -/
theorem counters (h : QHdr) (F A : Nat) (hi : HdrInv h F A) : h.pending = F - A ∧ h.active = F - A := by
  obtain ⟨h1, h2, h3, h4, _, _⟩ := hi
  unfold QHdr.pending QHdr.active
  rw [h1, h2]
  refine ⟨rfl, ?_⟩
  cases ht : h.tailSet
  · have := h4 ht; simp; omega
  · simp

theorem inv_empty : HdrInv {} 0 0 := by decide

/-- a flush of k further events keeps the invariant with F + k (the first flushed event has id F) -/
theorem inv_flush (h : QHdr) (F A k : Nat) (hi : HdrInv h F A) (hA : h.headSet = false → A = 0 ∧ F = 0) :
    HdrInv (h.flush F k) (F + k) A := by
  unfold QHdr.flush
  by_cases hk : k = 0
  · subst hk; simpa using hi
  · simp only [hk, if_false]
    unfold HdrInv QHdr.startId at *
    obtain ⟨h1, h2, h3, h4, h5, h6⟩ := hi
    cases hh : h.headSet <;> cases hr : h.readSet <;> simp_all <;> omega

/-- an ACK of n ≤ F − A events keeps the invariant with A + n -/
theorem inv_ack (h : QHdr) (F A n newHead : Nat) (cleanAll : Bool) (hi : HdrInv h F A) (hn : A + n ≤ F)
    (hnh : newHead ≤ A + n) (hca : cleanAll = true → A + n = F) (hset : 0 < n → h.tailSet = true) :
    HdrInv (h.ack n newHead cleanAll) F (A + n) := by
  unfold QHdr.ack
  by_cases hk : n = 0
  · subst hk; simpa using hi
  · simp only [hk, if_false]
    have hts := hset (by omega)
    obtain ⟨h1, h2, h3, h4, h5, h6⟩ := hi
    cases cleanAll
    · simp only [Bool.false_eq_true, if_false]
      unfold HdrInv QHdr.startId at *
      simp_all
    · have := hca rfl
      simp only [if_true]
      unfold HdrInv QHdr.startId at *
      simp_all

/-- **Reader.Available**: with `endId` refreshed from the header and `id` = number of events
    consumed so far, Available = flushed − consumed -/
theorem available (r : RdSt) (F C : Nat) (h1 : r.endId = F) (h2 : r.id = C) : r.available = F - C := by
  unfold RdSt.available; rw [h1, h2]

/-- the Flushed / ACKed callbacks report the increments, so their totals are F and A:
    sums of the reported numbers along any history -/
theorem callback_totals (fl ack : List Nat) (F A : Nat) (hF : fl.sum = F) (hA : ack.sum = A) (k n : Nat) :
    (fl ++ [k]).sum = F + k ∧ (ack ++ [n]).sum = A + n := by
  simp [List.sum_append, hF, hA]

example : HdrInv ((({} : QHdr).flush 0 5).ack 2 1 false) 5 2 := by decide

end TxVerif
