/-
  C14 at engine level — the open-time maximum-size update (`Open` with `FlagUpdMaxSize`) on committed
  states of the engine model: `FileSt.resizeWith k n` / `FileSt.resize n` (Model/Resize.lean; the
  compiled driver replays every `resize-*` line of the implementation traces with these functions
  and compares the result with the implementation's next snapshot). Helpers: Proofs/ResizeEngine.lean.

  `FileSt.resize n` decides on page counts what `openWith` decides on byte sizes (`rkindPages`):
  same limit → plain open; header without limit, `n > 0` → open under `n`, then `shrinkFile`
  (`RKind.boundShrink`, /repo 51d10a6); `n = 0` or `n > old` → `growFile`; `0 < n < old` → `shrinkFile`.
  (`RKind.bound` — limit for this session only — is what `openWith` does WITHOUT the flag.)
  All theorems about `resizeWith` hold for EVERY decision `k` (also the one taken on unaligned byte sizes).

  (a) data and invariant
      c14e_resize_frame             root, mapping, mapping pages, disk, every page's content: untouched (no hypothesis)
      c14e_resize_invariant_partial `EngInv f live → ResizeOK f n → EngInvR (f.resize n) live`   (all of `EngInv` except the
                                    three clauses about the limit: `wf.limit`, `noOv`, `ends`). `ResizeOK` only
                                    restricts updates that LOWER the limit: no gap between the end markers, or the
                                    data area ends within `n`
      c14e_resize_invariant_grow / _noGap   full strength for raising / removing the limit, and for files without gap
      c14e_resizeWith_invariant     the same for every decision `k`
      c14e_live_pages_stay          every live page reads the same and its physical page is in no free list
      c14e_grow_keeps_invariant     raising / removing the limit keeps `EngInv` itself
      c14e_fits_keeps_invariant     … so does a shrink after which the file lies within the new limit
      c14e_shrink_breaks_limit      FULL `EngInv (f.resize n) live` is FALSE in general: concrete shrink with live
                                    pages beyond the new limit (the data end marker stays beyond the limit)
  (b) the limit
      c14e_limit                    `(f.resize n).alloc.maxPages = n`, kept by `reopenP`
      c14e_limit_persisted          the header carries `n` after EVERY update with the flag (`hdrMaxAfter … = n`),
      c14e_limit_later_open         and a later plain open runs under `n`
      c14e_unbounded_gets_limit     a header without limit: since /repo 51d10a6 `shrinkFile` runs (`RKind.boundShrink`)
      c14e_session_limit_without_flag   WITHOUT `FlagUpdMaxSize` a limit given for an unbounded file holds for this
                                    session only (`RKind.bound`; documented behaviour)
  (c) grow
      c14e_grow_exact               invariant states: allocatable pages grow exactly by `n - old` (no gap hypothesis any more)
      c14e_grow_exact_general       NO invariant (overflow area in use): `avail' + (dataEnd' - dataEnd) = avail + (n - old)`
  (n) no collision — the purpose of the (precise) absorb rule, Model/AbsorbP.lean
      c14e_no_collision(_every_decision)   after the update no meta page lies in [data end, limit)
      c14e_no_collision_absorb / _norelease   the same WITHOUT invariant for plain open / session limit / grow / shrink
                                    kinds without release transaction
      c14e_precise_rule_example     the repaired C10 case: an overflow area beyond the limit is not absorbed
  (d) shrink
      c14e_extent                   `Open` never raises an end marker above the larger of the end markers before
      c14e_alloc_no_extension       `Tx.Alloc` never returns a page at or beyond max(new limit, data end marker);
                                    once the data area reaches the limit, pages come from the free list only
      c14e_fits_within_limit        if both end markers are within the limit: every free page and every page
                                    handed out lies below `n`
      c14e_release_maximal_data     after a successful release the data area can not be released further
      c14e_free_page_beyond_limit   "no page ≥ n in a free list / handed out afterwards" is FALSE in general: witness
      c14e_release_pins_page_beyond_limit   the release transaction itself takes the highest free meta page for the
                                    new free list — possibly beyond the limit (seen on the implementation, too)
      live pages ≥ n stay readable: c14e_live_pages_stay
  (e) c14e_resize_reopen            `(f.resize n).reopenP = f.resize n` (whole state, statistic included)
      c14e_later_open_is_reopen     after EVERY update transaction the header carries limit and data end marker of the
                                    updating instance (`initTxMaxSize` stores both): a later open = that instance reopened
      c14e_reopen_from_header_grow  … which is the instance itself: grow — NO hypothesis at all;
      c14e_reopen_from_header_norelease   shrink kinds without release transaction — NO invariant;
      c14e_reopen_from_header_shrink / _boundShrink   shrink kinds on invariant states (with or without release)
      c14e_grow_then_shrink_agree   the history that diverged on the first version of the patch, now agreeing
-/
import TxVerif.Proofs.ResizeEngine
namespace TxVerif

/-! ## (a) data and invariant -/

/-- **C14, frame** (no hypothesis, every decision): the update touches neither the root, nor the overwrite
    mapping, nor the pages holding it, nor any page on disk — so every page (live or not) reads the same. -/
theorem c14e_resize_frame (f : FileSt) (k : RKind) (n : Nat) :
    (f.resizeWith k n).1.root = f.root ∧ (f.resizeWith k n).1.walMap = f.walMap ∧
    (f.resizeWith k n).1.walPages = f.walPages ∧ (f.resizeWith k n).1.disk = f.disk ∧
    (∀ id, (f.resizeWith k n).1.physOf id = f.physOf id) ∧
    (∀ id, (f.resizeWith k n).1.readPage id = f.readPage id) := by
  obtain ⟨h1, h2, h3, h4⟩ := rz_resizeWith_frame f k n
  refine ⟨h4, h1, h2, h3, ?_, ?_⟩
  · intro id; unfold FileSt.physOf; rw [h1]
  · intro id; unfold FileSt.readPage FileSt.diskAt FileSt.physOf; rw [h1, h3]

/-- **C14 (a), every decision**: the relaxed invariant holds afterwards. Hypothesis `k.pre f n` on the decision:
    `shrink` — bounded file, positive new limit; `boundShrink` (a file without limit gets one) — positive new
    limit; for both: no gap between the end markers, or the data area ends within the new limit; nothing for
    the other decisions. -/
theorem c14e_resizeWith_invariant (f : FileSt) (live : List Nat) (he : EngInv f live) (k : RKind) (n : Nat)
    (hk : k.pre f n) : EngInvR (f.resizeWith k n).1 live :=
  rz_resizeWith_engInvR he k n hk

/-- **C14 (a)** — PARTIAL in one corner. For every committed state satisfying the engine invariant and every new
    limit, the state after `Open` with `FlagUpdMaxSize` satisfies the invariant without its three limit
    clauses: free lists well formed and disjoint, every live page and every internal page (overwrite pages,
    mapping pages, NEW free-list pages) in use — in neither free list, below the meta end marker, below the
    data end marker or beyond the limit —, internal pages distinct and not live, mapping injective with live
    keys, meta area accounting `free + internal ≤ total`.

    Full statement: `EngInv f live → EngInvR (f.resize n) live`.
    Proved: with `ResizeOK f n`, which only restricts updates that LOWER the limit (`0 < n < old`, or no limit →
    `n`; both run `shrinkFile`): the file has no gap between its end markers (meta area ends inside the data
    area), or its data area ends within the new limit. Raising / removing the limit and files without gap
    satisfy it (`resizeOK_of_grow`, `resizeOK_of_noGap`, `resizeOK_of_fits`; corollaries
    `c14e_resize_invariant_grow`, `c14e_resize_invariant_noGap`).
    Missing: a file satisfying the invariant whose meta end marker lies above its data end marker with nothing
    in between (`c10_gap_example`; the precise absorb rule leaves such an EMPTY gap alone) whose limit is
    lowered below its data end marker while the last free data region ends at the data end marker: there the
    release transaction runs with the meta end marker above the data end marker, which the frame lemmas
    reused here (`AOK2.noOv` for the limit `data.endMarker`) exclude. -/
theorem c14e_resize_invariant_partial (f : FileSt) (live : List Nat) (he : EngInv f live) (n : Nat)
    (hg : ResizeOK f n) : EngInvR (f.resize n) live :=
  rz_resize_engInvR he n hg

/-- **C14 (a), raising / removing the limit**: full strength (no extra hypothesis). -/
theorem c14e_resize_invariant_grow (f : FileSt) (live : List Nat) (he : EngInv f live) (n : Nat)
    (hb : n = 0 ∨ (0 < f.alloc.maxPages ∧ f.alloc.maxPages ≤ n)) : EngInvR (f.resize n) live :=
  rz_resize_engInvR he n (resizeOK_of_grow f n hb)

/-- **C14 (a), files without gap**: full strength for every new limit. -/
theorem c14e_resize_invariant_noGap (f : FileSt) (live : List Nat) (he : EngInv f live) (n : Nat)
    (hb : f.alloc.mta.endMarker ≤ f.alloc.data.endMarker) : EngInvR (f.resize n) live :=
  rz_resize_engInvR he n (resizeOK_of_noGap f n hb)

/-- under the relaxed invariant the physical page of a live page is in use, and two live pages have
    different physical pages -/
theorem engInvR_phys {f : FileSt} {live : List Nat} (h : EngInvR f live) (k : Nat) (hk : k ∈ live) :
    InUse f.alloc (f.physOf k) ∧ (∀ j ∈ live, f.physOf k = f.physOf j → k = j) := by
  have hval : ∀ k w, Assoc.get? f.walMap k = some w → 2 ≤ w ∧ InUse f.alloc w ∧ w ∉ live := by
    intro k w hkw
    apply h.intOk
    unfold FileSt.internal
    rw [List.mem_append, List.mem_append, List.mem_map]
    exact Or.inl (Or.inl ⟨(k, w), Assoc.mem_of_get? _ _ _ hkw, rfl⟩)
  cases hg : Assoc.get? f.walMap k with
  | none =>
    rw [physOf_none f k hg]
    refine ⟨(h.liveOk k hk).2.2, ?_⟩
    intro j hj e
    cases hg2 : Assoc.get? f.walMap j with
    | none => rw [physOf_none f j hg2] at e; exact e
    | some w2 =>
      rw [physOf_some f j w2 hg2] at e
      exact absurd (e ▸ hk) (hval j w2 hg2).2.2
  | some w =>
    rw [physOf_some f k w hg]
    refine ⟨(hval k w hg).2.1, ?_⟩
    intro j hj e
    cases hg2 : Assoc.get? f.walMap j with
    | none =>
      rw [physOf_none f j hg2] at e
      exact absurd (e ▸ hj) (hval k w hg).2.2
    | some w2 =>
      rw [physOf_some f j w2 hg2] at e
      subst e
      exact h.mapInj k j w hg hg2

/-- **C14 (a), live pages**: after the update every live page is still a valid page id (below the data end
    marker), reads exactly what it read before from the same physical page, that physical page is in use
    (in neither free list, below the meta end marker) — also when it lies at or beyond the new limit —
    and no two live pages share a physical page. (`hg : ResizeOK f n`: see `c14e_resize_invariant_partial`;
    automatically true for bounded files, for `n = 0` and for files without gap.) -/
theorem c14e_live_pages_stay (f : FileSt) (live : List Nat) (he : EngInv f live) (n : Nat) (hg : ResizeOK f n)
    (id : Nat) (hid : id ∈ live) :
    2 ≤ id ∧ id < (f.resize n).alloc.data.endMarker ∧
    (f.resize n).readPage id = f.readPage id ∧ (f.resize n).physOf id = f.physOf id ∧
    InUse (f.resize n).alloc ((f.resize n).physOf id) ∧
    (f.resize n).physOf id ∉ (f.resize n).alloc.data.free ∧ (f.resize n).physOf id ∉ (f.resize n).alloc.mta.free ∧
    (∀ j ∈ live, (f.resize n).physOf id = (f.resize n).physOf j → id = j) := by
  have hr := c14e_resize_invariant_partial f live he n hg
  obtain ⟨-, -, -, -, h5, h6⟩ := c14e_resize_frame f (rkindPages f.alloc.maxPages n) n
  obtain ⟨p1, p2⟩ := engInvR_phys hr id hid
  obtain ⟨l1, l2, -⟩ := hr.liveOk id hid
  exact ⟨l1, l2, h6 id, h5 id, p1, p1.1, p1.2.1, p2⟩

/-- **C14 (a), grow / unbound**: raising (`old < n`) or removing (`n = 0`) the limit of a bounded file keeps
    the engine invariant itself — every theorem about transactions on `EngInv` states applies afterwards. -/
theorem c14e_grow_keeps_invariant (f : FileSt) (live : List Nat) (he : EngInv f live) (n : Nat)
    (hold : 0 < f.alloc.maxPages) (hn : n = 0 ∨ f.alloc.maxPages < n) : EngInv (f.resize n) live := by
  have hk : rkindPages f.alloc.maxPages n = .grow := by
    unfold rkindPages
    rw [if_neg (by omega), if_neg (by omega), if_neg (by omega)]
  unfold FileSt.resize
  rw [hk]
  exact rz_grow_engInv (rz_reopen_engInv he) n (by
    rw [rz_reopen_alloc he.toR]; omega)

/-- **C14 (a), a shrink that fits**: if after the update both end markers lie within the new limit (no page in
    use beyond it, everything beyond it was released) and are in order, the engine invariant itself holds. -/
theorem c14e_fits_keeps_invariant (f : FileSt) (live : List Nat) (he : EngInv f live) (n : Nat) (hg : ResizeOK f n)
    (hd : n = 0 ∨ (f.resize n).alloc.data.endMarker ≤ n) (hm : n = 0 ∨ (f.resize n).alloc.mta.endMarker ≤ n)
    (hends : (f.resize n).alloc.data.endMarker ≤ (f.resize n).alloc.mta.endMarker ∨ (f.resize n).alloc.data.endMarker ≤ 2) :
    EngInv (f.resize n) live := by
  apply (c14e_resize_invariant_partial f live he n hg).toEngInv
  · rw [rz_resize_max]; exact hd
  · rw [rz_resize_max]; exact hm
  · exact hends

/-! ## (b) the limit -/

/-- **C14 (b)**: the allocator's limit after the update is the requested one, for the instance that performed
    the update and after every later reopen of that state. (No hypothesis.) -/
theorem c14e_limit (f : FileSt) (n : Nat) :
    (f.resize n).alloc.maxPages = n ∧ (f.resize n).reopenP.alloc.maxPages = n := by
  refine ⟨rz_resize_max f n, ?_⟩
  show (f.resize n).absorbP.alloc.maxPages = n
  rw [(absorbP_keeps _).2.2.2.1]
  exact rz_resize_max f n

/-- the same for every decision of `openWith` (byte sizes): unless nothing is to be done, the limit is `n` -/
theorem c14e_limit_every_decision (f : FileSt) (k : RKind) (n : Nat) :
    (f.resizeWith k n).1.alloc.maxPages = (if k = .same then f.alloc.maxPages else n) :=
  rz_resizeWith_max f k n

/-- **C14 (b), persisted** (since /repo 51d10a6 for EVERY update with `FlagUpdMaxSize`): the limit the HEADER
    carries after `Open` with `FlagUpdMaxSize` and `MaxSize = n` pages (`hdrMaxAfter`: what `initTxMaxSize` wrote,
    or the old value if the sizes agreed) is `n` — also when the header carried no limit before: "the new
    limit is what a later plain open reports". -/
theorem c14e_limit_persisted (old n : Nat) : hdrMaxAfter old (rkindPages old n) n = n := by
  by_cases h0 : old = 0
  · by_cases hn : n = 0
    · have hk : rkindPages old n = .same := by unfold rkindPages; rw [if_pos h0, if_pos hn]
      rw [hk]; show old = n; omega
    · have hk : rkindPages old n = .boundShrink := by unfold rkindPages; rw [if_pos h0, if_neg hn]
      rw [hk]; rfl
  · by_cases he : n = old
    · have hk : rkindPages old n = .same := by unfold rkindPages; rw [if_neg h0, if_pos he]
      rw [hk]; exact he.symm
    · by_cases hs : 0 < n ∧ n < old
      · have hk : rkindPages old n = .shrink := by unfold rkindPages; rw [if_neg h0, if_neg he, if_pos hs]
        rw [hk]; rfl
      · have hk : rkindPages old n = .grow := by unfold rkindPages; rw [if_neg h0, if_neg he, if_neg hs]
        rw [hk]; rfl

/-- … and a later plain open from that header (whatever limit its options carry, if the header has one) runs
    under `n`: the state it computes has the limit `hdrMaxAfter … = n` -/
theorem c14e_limit_later_open (f : FileSt) (n d : Nat) :
    ((f.resize n).openAt (hdrMaxAfter f.alloc.maxPages (rkindPages f.alloc.maxPages n) n) d).alloc.maxPages = n := by
  rw [c14e_limit_persisted]; exact rz_openAt_max _ n d

/-- **a file without limit gets one, WITH the flag** (the repaired case): `openWith` reads the header under the
    new limit and then runs `shrinkFile`: at least the header-only transaction commits (txid + 1, or + 2 with a
    release), the limit is `n` in memory and in the header. -/
theorem c14e_unbounded_gets_limit (f : FileSt) (n : Nat) (h0 : f.alloc.maxPages = 0) (hn : 0 < n) :
    rkindPages f.alloc.maxPages n = .boundShrink ∧ (f.resize n).alloc.maxPages = n ∧
    f.txid + 1 ≤ (f.resize n).txid ∧ hdrMaxAfter f.alloc.maxPages (rkindPages f.alloc.maxPages n) n = n := by
  have hk : rkindPages f.alloc.maxPages n = .boundShrink := by
    unfold rkindPages; rw [if_pos h0, if_neg (by omega)]
  refine ⟨hk, rz_resize_max f n, ?_, c14e_limit_persisted _ _⟩
  unfold FileSt.resize
  rw [hk]
  have := rz_shrinkNew_txid (f.openAt n f.alloc.data.endMarker) n
  have e : (f.openAt n f.alloc.data.endMarker).txid = f.txid := rz_reopen_txid _
  rw [e] at this
  exact this

/-- **WITHOUT the flag a limit given for an unbounded file is session-only** (documented behaviour of
    `Options.MaxSize`, not a defect): `openWith` decides `bound` — the header is read under the limit of the
    options, no transaction runs (txid unchanged), the header keeps "no limit", and a later plain open
    without a limit in its options sees an unbounded file again. -/
theorem c14e_session_limit_without_flag (f : FileSt) (optMax n : Nat) (hn : 0 < optMax) :
    rkindBytes 0 optMax false = .bound ∧ (f.resizeWith .bound n).1.alloc.maxPages = n ∧
    (f.resizeWith .bound n).1.txid = f.txid ∧ (f.resizeWith .bound n).2 = .notRun ∧
    hdrMaxAfter 0 .bound n = 0 ∧
    ((f.resizeWith .bound n).1.openAt (hdrMaxAfter 0 .bound n) f.alloc.data.endMarker).alloc.maxPages = 0 := by
  refine ⟨?_, rz_openAt_max f n _, rz_reopen_txid _, rfl, rfl, rz_openAt_max _ 0 _⟩
  unfold rkindBytes
  rw [if_pos rfl, if_neg (by omega)]
  rfl

/-! ## (c) grow -/

theorem dataAvail_bounded (a : Alloc) (h : 0 < a.maxPages) : a.dataAvail =
    a.data.free.length + (if a.data.endMarker < a.maxPages then a.maxPages - a.data.endMarker else 0) := by
  unfold Alloc.dataAvail; rw [if_neg (by omega)]

/-- **C14 (c), exactly the additional pages**: growing a bounded file in a state satisfying the invariant (no
    overflow area in use) makes exactly `n - old` more pages allocatable. With the precise absorb rule no
    "no gap" hypothesis is needed any more: an EMPTY gap between the end markers is not absorbed. -/
theorem c14e_grow_exact (f : FileSt) (live : List Nat) (he : EngInv f live) (n : Nat)
    (hold : 0 < f.alloc.maxPages) (hn : f.alloc.maxPages < n) :
    (f.resize n).alloc.dataAvail = f.alloc.dataAvail + (n - f.alloc.maxPages) := by
  have hk : rkindPages f.alloc.maxPages n = .grow := by
    unfold rkindPages
    rw [if_neg (by omega), if_neg (by omega), if_neg (by omega)]
  have hend : f.alloc.data.endMarker ≤ f.alloc.maxPages := by have := he.wf.limit; omega
  have ha : (f.resize n).alloc = { f.alloc with maxPages := n } := by
    unfold FileSt.resize
    rw [hk]
    show (f.reopenP.resizeGrow n).alloc = _
    rw [rz_grow_eq (rz_reopen_engInv he) n]
    show ({ f.reopenP.alloc with maxPages := n } : Alloc) = _
    rw [rz_reopen_alloc he.toR]
  rw [ha, dataAvail_bounded _ (show 0 < ({ f.alloc with maxPages := n } : Alloc).maxPages by show 0 < n; omega),
    dataAvail_bounded _ hold]
  show f.alloc.data.free.length + (if f.alloc.data.endMarker < n then n - f.alloc.data.endMarker else 0) = _
  split <;> split <;> omega

/-- **C14 (c), general — NO invariant** (an overflow area may be in use, this is where `absorbOverflowArea`
    acts): growing a bounded file whose data area lies within the old limit to a limit that covers the
    whole file. The data end marker afterwards is the old one or — if a meta page lies behind it in front
    of the new limit — the meta end marker; the pages skipped that way are the only difference:
    `avail' + (dataEnd' - dataEnd) = avail + (n - old)`. -/
theorem c14e_grow_exact_general (f : FileSt) (n : Nat)
    (hold : 0 < f.alloc.maxPages) (hend : f.alloc.data.endMarker ≤ f.alloc.maxPages)
    (hn : f.alloc.maxPages < n) (hme : f.alloc.mta.endMarker ≤ n) :
    (f.resize n).alloc.dataAvail + ((f.resize n).alloc.data.endMarker - f.alloc.data.endMarker) =
      f.alloc.dataAvail + (n - f.alloc.maxPages) ∧
    ((f.resize n).alloc.data.endMarker = f.alloc.data.endMarker ∨
     (f.resize n).alloc.data.endMarker = f.alloc.mta.endMarker) := by
  have hk : rkindPages f.alloc.maxPages n = .grow := by
    unfold rkindPages
    rw [if_neg (by omega), if_neg (by omega), if_neg (by omega)]
  have hF : f.resize n = f.reopenP.resizeGrow n := by unfold FileSt.resize; rw [hk]; rfl
  obtain ⟨g1, -, -, g4, g5, g6⟩ := rz_grow_fields f n
  rw [hF]
  refine ⟨?_, g6⟩
  rw [dataAvail_bounded _ (by rw [g4]; omega), dataAvail_bounded _ hold, g4, g1]
  split <;> split <;> omega

/-! ## (d) shrink -/

/-- allocation on a bounded file whose data free pages lie below the data end marker: every page handed
    out lies below the larger of the limit and the data end marker, and the data end marker does not
    move beyond that bound — the file is not extended beyond max(limit, previous extent) -/
theorem alloc_no_extension (F : FileSt) (tx : TxSt) (k : Nat) (F' : FileSt) (tx' : TxSt) (ids : List Nat)
    (hpos : 0 < F.alloc.maxPages) (hdr : ∀ x ∈ F.alloc.data.free, x < F.alloc.data.endMarker)
    (h : txAlloc F tx k = .ok (F', tx', ids)) :
    (∀ x ∈ ids, x < max F.alloc.maxPages F.alloc.data.endMarker) ∧
    F'.alloc.data.endMarker ≤ max F.alloc.maxPages F.alloc.data.endMarker ∧
    (F.alloc.maxPages ≤ F.alloc.data.endMarker → F'.alloc.data.endMarker = F.alloc.data.endMarker ∧
      ∀ x ∈ ids, x ∈ F.alloc.data.free) := by
  unfold txAlloc at h
  cases hr : dataAllocRegions F.alloc tx.ta k with
  | none => rw [hr] at h; cases h
  | some r =>
    obtain ⟨a, ta, ids'⟩ := r
    rw [hr] at h
    simp only [Except.ok.injEq, Prod.mk.injEq] at h
    obtain ⟨hF, -, hids⟩ := h
    subst hF hids
    obtain ⟨j, rest, h1, h2, h3, h4, -, hids, -, e2, -⟩ := dataAllocRegions_spec F.alloc tx.ta k a ta ids' hr
    have hA : ({ F with alloc := a } : FileSt).alloc.data.endMarker = F.alloc.data.endMarker + rest := e2
    refine ⟨?_, ?_, ?_⟩
    · intro x hx
      rw [hids, List.mem_append, mem_idRange] at hx
      rcases hx with hx | hx
      · have := hdr x (List.mem_of_mem_take hx); omega
      · omega
    · rw [hA]; omega
    · intro hfull
      have hr0 : rest = 0 := by omega
      refine ⟨by rw [hA, hr0]; rfl, ?_⟩
      intro x hx
      rw [hids, hr0, idRange_zero, List.append_nil] at hx
      exact List.mem_of_mem_take hx

/-- **C14 (d), no extension**: after a shrink (any update to a positive limit), `Tx.Alloc` in a transaction —
    which never uses the overflow area for data pages — returns only pages below the larger of the new
    limit and the data end marker, which is never above the previous extent of the file (`c14e_extent`);
    when the data area already reaches the limit, the pages come from the free list only and the data
    end marker stays. -/
theorem c14e_alloc_no_extension (f : FileSt) (live : List Nat) (he : EngInv f live) (n : Nat) (hn : 0 < n)
    (hg : ResizeOK f n) (tx : TxSt) (k : Nat) (F' : FileSt) (tx' : TxSt) (ids : List Nat)
    (h : txAlloc (f.resize n) tx k = .ok (F', tx', ids)) :
    (∀ x ∈ ids, x < max n (f.resize n).alloc.data.endMarker) ∧
    F'.alloc.data.endMarker ≤ max n (f.resize n).alloc.data.endMarker ∧
    (n ≤ (f.resize n).alloc.data.endMarker → F'.alloc.data.endMarker = (f.resize n).alloc.data.endMarker ∧
      ∀ x ∈ ids, x ∈ (f.resize n).alloc.data.free) := by
  have hr := c14e_resize_invariant_partial f live he n hg
  have := alloc_no_extension (f.resize n) tx k F' tx' ids (by rw [rz_resize_max]; exact hn)
    (fun x hx => (hr.wfr.dataRange x hx).2) h
  rw [rz_resize_max] at this
  exact this

/-- **C14 (d), within the limit**: if after the update both end markers lie within the new limit, every page
    in a free list lies below the limit, and so does every page `Tx.Alloc` hands out later. -/
theorem c14e_fits_within_limit (f : FileSt) (live : List Nat) (he : EngInv f live) (n : Nat) (hn : 0 < n)
    (hg : ResizeOK f n) (hd : (f.resize n).alloc.data.endMarker ≤ n) (hm : (f.resize n).alloc.mta.endMarker ≤ n) :
    (∀ x ∈ (f.resize n).alloc.data.free, x < n) ∧ (∀ x ∈ (f.resize n).alloc.mta.free, x < n) ∧
    (∀ (tx : TxSt) (k : Nat) (F' : FileSt) (tx' : TxSt) (ids : List Nat),
      txAlloc (f.resize n) tx k = .ok (F', tx', ids) → (∀ x ∈ ids, x < n) ∧ F'.alloc.data.endMarker ≤ n) := by
  have hr := c14e_resize_invariant_partial f live he n hg
  refine ⟨?_, ?_, ?_⟩
  · intro x hx; have := (hr.wfr.dataRange x hx).2; omega
  · intro x hx; have := (hr.wfr.metaRange x hx).2.1; omega
  · intro tx k F' tx' ids h
    obtain ⟨a1, a2, -⟩ := c14e_alloc_no_extension f live he n hn hg tx k F' tx' ids h
    refine ⟨fun x hx => ?_, ?_⟩
    · have := a1 x hx; omega
    · omega

/-! ## (e) reopening afterwards -/

/-- **C14 (e)**: reopening the state the update leaves (`File.init` with the precise `absorbOverflowArea` +
    `reportOpen` on that state, `FileSt.reopenP`) changes nothing — the whole state, the statistic included. -/
theorem c14e_resize_reopen (f : FileSt) (live : List Nat) (he : EngInv f live) (n : Nat) (hg : ResizeOK f n) :
    (f.resize n).reopenP = f.resize n := by
  unfold FileSt.resize
  exact rz_resizeWith_reopen he _ n (rkindPages_pre f n hg)

/-- the same for every decision of `openWith` -/
theorem c14e_resizeWith_reopen (f : FileSt) (live : List Nat) (he : EngInv f live) (k : RKind) (n : Nat)
    (hk : k.pre f n) : (f.resizeWith k n).1.reopenP = (f.resizeWith k n).1 :=
  rz_resizeWith_reopen he k n hk

/-- **C14 (d), extent**: the update never raises an end marker above the larger of the end markers before — the
    file does not extend beyond its previous extent during `Open`; afterwards `c14e_alloc_no_extension` applies. -/
theorem c14e_extent (f : FileSt) (live : List Nat) (he : EngInv f live) (n : Nat) (hg : ResizeOK f n) :
    max (f.resize n).alloc.data.endMarker (f.resize n).alloc.mta.endMarker ≤
      max f.alloc.data.endMarker f.alloc.mta.endMarker := by
  have := rz_resizeWith_extent he (rkindPages f.alloc.maxPages n) n (rkindPages_pre f n hg)
  unfold FileSt.resize
  omega

/-! ## concrete states: the hypotheses are satisfiable, and what is NOT true

  `exRz`: limit 20 pages; meta area = pages 2 (free list), 3, 4 (free), 5 (mapping page), 6 (overwrite page of
  page 7); data pages 7, 8, 9 live, 10 and 11 free; both end markers 12. -/

def exRz : FileSt :=
  { alloc := { maxPages := 20, pageSize := 4096, data := { endMarker := 12, free := [10, 11] },
               mta := { endMarker := 12, free := [3, 4] }, metaTotal := 5, freelistPages := [2] },
    walMap := [(7, 6)], walPages := [5], txid := 9, root := 7,
    disk := [(6, Content.full 7 3), (7, Content.full 7 1), (8, Content.full 8 2), (9, Content.full 9 2)],
    statData := 3 }

theorem engInv_exRz : EngInv exRz [7, 8, 9] := by
  refine ⟨allocWF_spec _ (by decide), by decide, ?_, ?_, ?_, ?_, ?_, by decide, by decide, by decide⟩
  · simp [AscKeys, exRz]
  · intro id hid
    simp only [List.mem_cons, List.not_mem_nil, or_false] at hid
    rcases hid with rfl | rfl | rfl <;> simp [InUse, exRz]
  · intro k w hk
    simp only [exRz, Assoc.get?_cons, Assoc.get?_nil] at hk
    split at hk
    · simp_all
    · cases hk
  · intro k1 k2 w h1 h2
    simp only [exRz, Assoc.get?_cons, Assoc.get?_nil] at h1 h2
    split at h1 <;> split at h2 <;> simp_all
  · intro x hx
    simp only [FileSt.internal, exRz, List.map_cons, List.map_nil, List.cons_append,
      List.nil_append, List.mem_cons, List.not_mem_nil, or_false] at hx
    rcases hx with rfl | rfl | rfl <;> simp [InUse, exRz]

/-- shrink 20 → 10 pages: the release transaction runs (the free region 10-11 ends at the data end marker),
    takes page 4 for the new free list, releases 10 and 11, both end markers drop to 10; the old free-list
    page 2 is NOT returned to the meta free list (it is in no list afterwards: one page leaks per release,
    DESIGN 14.5 (iii)); txid + 2; everything live reads as before; the engine invariant itself holds. -/
example :
    (exRz.resizeWith .shrink 10).2 = .done ∧
    (exRz.resize 10).alloc = { maxPages := 10, pageSize := 4096, data := { endMarker := 10, free := [] },
                               mta := { endMarker := 10, free := [3] }, metaTotal := 5, freelistPages := [4] } ∧
    (exRz.resize 10).txid = exRz.txid + 2 ∧ (exRz.resize 10).statData = 3 ∧
    2 ∉ (exRz.resize 10).alloc.mta.free ∧ 2 ∉ (exRz.resize 10).internal ∧
    (exRz.resize 10).readPage 7 = Content.full 7 3 ∧ (exRz.resize 10).readPage 9 = Content.full 9 2 := by decide

example : EngInv (exRz.resize 10) [7, 8, 9] :=
  c14e_fits_keeps_invariant exRz _ engInv_exRz 10 (resizeOK_of_noGap _ _ (by decide)) (by decide) (by decide) (by decide)

/-- shrink 20 → 11: the free region is split at the limit -/
example : (exRz.resize 11).alloc.data = { endMarker := 11, free := [10] } ∧ (exRz.resize 11).alloc.mta.endMarker = 11 := by decide

/-- **`EngInv (f.resize n) live` is FALSE in general** (`c14e_shrink_breaks_limit`): shrink 20 → 8 pages with the
    live pages 8 and 9 at/beyond the new limit. The release transaction still runs and releases 10-11, the
    data end marker stays at 10 > 8: `wf.limit` and `noOv` fail — the relaxed invariant holds
    (`c14e_resize_invariant`), pages 8 and 9 read as before and are in no free list. -/
theorem c14e_shrink_breaks_limit :
    EngInv exRz [7, 8, 9] ∧ ¬ EngInv (exRz.resize 8) [7, 8, 9] ∧ EngInvR (exRz.resize 8) [7, 8, 9] ∧
    (exRz.resize 8).alloc.data.endMarker = 10 ∧ (exRz.resize 8).alloc.maxPages = 8 ∧
    (exRz.resize 8).readPage 8 = exRz.readPage 8 ∧ (exRz.resize 8).readPage 9 = exRz.readPage 9 := by
  refine ⟨engInv_exRz, ?_, c14e_resize_invariant_noGap _ _ engInv_exRz 8 (by decide), by decide, by decide, by decide, by decide⟩
  intro h
  have := h.wf.limit
  revert this
  decide

/-- grow 20 → 30: exactly 10 more allocatable pages, txid + 1, `EngInv` kept; unbound: no limit -/
example : (exRz.resize 30).alloc.dataAvail = exRz.alloc.dataAvail + 10 ∧ (exRz.resize 30).txid = exRz.txid + 1 ∧
    (exRz.resize 0).alloc.maxPages = 0 ∧ (exRz.resize 0).alloc.dataAvail = noLimit := by decide
example : EngInv (exRz.resize 30) [7, 8, 9] := c14e_grow_keeps_invariant exRz _ engInv_exRz 30 (by decide) (by decide)

/-- `exMid`: as `exRz`, but the free data pages are 8 and 10, page 11 is live: nothing at the end of the file is free -/
def exMid : FileSt :=
  { exRz with alloc := { exRz.alloc with data := { endMarker := 12, free := [8, 10] } },
              disk := [(6, Content.full 7 3), (7, Content.full 7 1), (9, Content.full 9 2), (11, Content.full 11 2)] }

theorem engInv_exMid : EngInv exMid [7, 9, 11] := by
  refine ⟨allocWF_spec _ (by decide), by decide, ?_, ?_, ?_, ?_, ?_, by decide, by decide, by decide⟩
  · simp [AscKeys, exMid, exRz]
  · intro id hid
    simp only [List.mem_cons, List.not_mem_nil, or_false] at hid
    rcases hid with rfl | rfl | rfl <;> simp [InUse, exMid, exRz]
  · intro k w hk
    simp only [exMid, exRz, Assoc.get?_cons, Assoc.get?_nil] at hk
    split at hk
    · simp_all
    · cases hk
  · intro k1 k2 w h1 h2
    simp only [exMid, exRz, Assoc.get?_cons, Assoc.get?_nil] at h1 h2
    split at h1 <;> split at h2 <;> simp_all
  · intro x hx
    simp only [FileSt.internal, exMid, exRz, List.map_cons, List.map_nil, List.cons_append,
      List.nil_append, List.mem_cons, List.not_mem_nil, or_false] at hx
    rcases hx with rfl | rfl | rfl <;> simp [InUse, exMid, exRz]

/-- **"after shrinking no page ≥ n is in a free list / handed out" is FALSE in general**
    (`c14e_free_page_beyond_limit`): shrink `exMid` 20 → 8. No free region ends at an end marker, so
    `shrinkFile` does not even start the release transaction; the free pages 8 and 10 (≥ 8) stay in the data
    free list and the next `Tx.Alloc` hands out page 8 — a page at the new limit. What holds is
    `c14e_alloc_no_extension`: the page lies below the data end marker (12), the file is not extended. -/
theorem c14e_free_page_beyond_limit :
    EngInv exMid [7, 9, 11] ∧ (exMid.resizeWith .shrink 8).2 = .notRun ∧
    (exMid.resize 8).alloc.maxPages = 8 ∧ (exMid.resize 8).alloc.data.free = [8, 10] ∧
    (txAlloc (exMid.resize 8) ((exMid.resize 8).beginTx false 0 0) 1).toOption.map (·.2.2) = some [8] ∧
    (txAlloc (exMid.resize 8) ((exMid.resize 8).beginTx false 0 0) 3).toOption.map (·.2.2) = none :=
  ⟨engInv_exMid, by decide, by decide, by decide, by decide, by decide⟩

/-! ## (d) the release is maximal for the data area; (e) the header the update leaves -/

/-- **C14 (d), nothing more to release in the data area**: after a shrink whose release transaction committed,
    the last free region of the data area does not end at the data end marker any more, or the data
    end marker lies within the new limit (`canReleaseRegions` is false for the data area). That does NOT
    mean that everything free beyond the limit was released — `c14e_release_pins_page_beyond_limit`. -/
theorem c14e_release_maximal_data (f : FileSt) (live : List Nat) (he : EngInv f live) (n : Nat)
    (hold : 0 < f.alloc.maxPages) (hn : 0 < n)
    (hgap : f.alloc.mta.endMarker ≤ f.alloc.data.endMarker ∨ f.alloc.data.endMarker ≤ n)
    (hd : (f.resizeWith .shrink n).2 = .done) :
    canRelease (f.resizeWith .shrink n).1.alloc.data n = false := by
  rw [rz_resizeWith_shrink_eq he n] at hd ⊢
  exact rz_shrink_maximal (rz_reopen_shrinkPre he n) (by rw [rz_reopen_alloc he.toR]; exact hgap) hn hd

/-- **C14 (e), from the header, every update**: `initTxMaxSize` stores the data end marker it computed together with
    the new limit (and a committed release writes the in-memory markers), so an instance opened later from
    the header is the updating instance reopened. (No hypothesis.) -/
theorem c14e_later_open_is_reopen (f : FileSt) (k : RKind) (n : Nat) (hk : k = .grow ∨ k = .shrink ∨ k = .boundShrink) :
    (f.resizeWith k n).1.openAt (hdrMaxAfter f.alloc.maxPages k n)
      (hdrDataEndAfter f.alloc.data.endMarker k (f.resizeWith k n)) = (f.resizeWith k n).1.reopenP := by
  have : hdrMaxAfter f.alloc.maxPages k n = n := by rcases hk with rfl | rfl | rfl <;> rfl
  rw [this]
  exact rz_from_header f k n _ hk

/-- **C14 (e), grow, from the header — NO hypothesis at all** (any state, any new limit, an overflow area may be
    in use): an instance opened later from the header computes exactly the state of the instance that performed
    the update. -/
theorem c14e_reopen_from_header_grow (f : FileSt) (n : Nat) :
    (f.resizeWith .grow n).1.openAt (hdrMaxAfter f.alloc.maxPages .grow n)
      (hdrDataEndAfter f.alloc.data.endMarker .grow (f.resizeWith .grow n)) = (f.resizeWith .grow n).1 := by
  rw [c14e_later_open_is_reopen f .grow n (Or.inl rfl)]
  exact rz_grow_reopen _ n (by rw [rz_reopen_openStat]; rfl)

/-- **C14 (e), shrink without release, from the header — NO invariant** (this is the case of the divergence found on
    the first version of the patch: grow over an overflow area, then shrink): if `shrinkFile` does not run the
    release transaction, an instance opened later from the header computes exactly the state of the instance
    that performed the update. -/
theorem c14e_reopen_from_header_norelease (f : FileSt) (k : RKind) (n : Nat) (hk : k = .shrink ∨ k = .boundShrink)
    (hr : (f.resizeWith k n).2 = .notRun) :
    (f.resizeWith k n).1.openAt (hdrMaxAfter f.alloc.maxPages k n)
      (hdrDataEndAfter f.alloc.data.endMarker k (f.resizeWith k n)) = (f.resizeWith k n).1 := by
  rw [c14e_later_open_is_reopen f k n (Or.inr hk)]
  rcases hk with rfl | rfl
  · exact rz_shrinkNew_notRun_reopen f.reopenP n (by rw [rz_reopen_openStat]; rfl) hr
  · exact rz_shrinkNew_notRun_reopen (f.openAt n f.alloc.data.endMarker) n (rz_openAt_stat f n _) hr

/-- **C14 (e), shrink, from the header** (invariant states, with or without release): an instance opened later from
    the header computes exactly the state of the instance that performed the update. `hgap` as in
    `c14e_resizeWith_invariant`. -/
theorem c14e_reopen_from_header_shrink (f : FileSt) (live : List Nat) (he : EngInv f live) (n : Nat)
    (hold : 0 < f.alloc.maxPages) (hn : 0 < n)
    (hgap : f.alloc.mta.endMarker ≤ f.alloc.data.endMarker ∨ f.alloc.data.endMarker ≤ n) :
    (f.resizeWith .shrink n).1.openAt (hdrMaxAfter f.alloc.maxPages .shrink n)
      (hdrDataEndAfter f.alloc.data.endMarker .shrink (f.resizeWith .shrink n)) = (f.resizeWith .shrink n).1 := by
  rw [c14e_later_open_is_reopen f .shrink n (Or.inr (Or.inl rfl))]
  exact rz_resizeWith_reopen he .shrink n ⟨hold, hn, hgap⟩

/-- **C14 (e), a file without limit gets one, from the header**: as for a shrink. -/
theorem c14e_reopen_from_header_boundShrink (f : FileSt) (live : List Nat) (he : EngInv f live) (n : Nat) (hn : 0 < n)
    (hgap : f.alloc.mta.endMarker ≤ f.alloc.data.endMarker ∨ f.alloc.data.endMarker ≤ n) :
    (f.resizeWith .boundShrink n).1.openAt (hdrMaxAfter f.alloc.maxPages .boundShrink n)
      (hdrDataEndAfter f.alloc.data.endMarker .boundShrink (f.resizeWith .boundShrink n)) = (f.resizeWith .boundShrink n).1 := by
  rw [c14e_later_open_is_reopen f .boundShrink n (Or.inr (Or.inr rfl))]
  exact rz_resizeWith_reopen he .boundShrink n ⟨hn, hgap⟩

/-- **C14 (d), nothing more to release in the data area** when a file without limit gets one -/
theorem c14e_release_maximal_data_bound (f : FileSt) (live : List Nat) (he : EngInv f live) (n : Nat) (hn : 0 < n)
    (hgap : f.alloc.mta.endMarker ≤ f.alloc.data.endMarker ∨ f.alloc.data.endMarker ≤ n)
    (hd : (f.resizeWith .boundShrink n).2 = .done) :
    canRelease (f.resizeWith .boundShrink n).1.alloc.data n = false := by
  rw [rz_resizeWith_boundShrink_eq he n] at hd ⊢
  exact rz_shrink_maximal (rz_openAt_shrinkPre he n) (by rw [rz_openAt_alloc he n]; exact hgap) hn hd

/-- `exUnb` = `exRz` without limit -/
def exUnb : FileSt := { exRz with alloc := { exRz.alloc with maxPages := 0 } }

theorem engInv_exUnb : EngInv exUnb [7, 8, 9] := by
  refine ⟨allocWF_spec _ (by decide), by decide, ?_, ?_, ?_, ?_, ?_, by decide, by decide, by decide⟩
  · simp [AscKeys, exUnb, exRz]
  · intro id hid
    simp only [List.mem_cons, List.not_mem_nil, or_false] at hid
    rcases hid with rfl | rfl | rfl <;> simp [InUse, exUnb, exRz]
  · intro k w hk
    simp only [exUnb, exRz, Assoc.get?_cons, Assoc.get?_nil] at hk
    split at hk
    · simp_all
    · cases hk
  · intro k1 k2 w h1 h2
    simp only [exUnb, exRz, Assoc.get?_cons, Assoc.get?_nil] at h1 h2
    split at h1 <;> split at h2 <;> simp_all
  · intro x hx
    simp only [FileSt.internal, exUnb, exRz, List.map_cons, List.map_nil, List.cons_append,
      List.nil_append, List.mem_cons, List.not_mem_nil, or_false] at hx
    rcases hx with rfl | rfl | rfl <;> simp [InUse, exUnb, exRz]

/-- the unbounded `exUnb` bounded to 10 pages WITH `FlagUpdMaxSize`: `boundShrink` — limit stored (txid + 2: max-size
    transaction + release), pages 10, 11 released, the invariant holds, reopening from the header (limit 10,
    data end marker 10) gives the same state; WITHOUT the flag: `bound` — same limit in memory, nothing
    released, no transaction, the header keeps "no limit". -/
theorem c14e_unbounded_example :
    EngInv exUnb [7, 8, 9] ∧ ResizeOK exUnb 10 ∧ rkindPages exUnb.alloc.maxPages 10 = .boundShrink ∧
    (exUnb.resizeWith .boundShrink 10).2 = .done ∧
    (exUnb.resize 10).alloc = { maxPages := 10, pageSize := 4096, data := { endMarker := 10, free := [] },
                                mta := { endMarker := 10, free := [3] }, metaTotal := 5, freelistPages := [4] } ∧
    (exUnb.resize 10).txid = exUnb.txid + 2 ∧ hdrMaxAfter 0 .boundShrink 10 = 10 ∧
    (exUnb.resize 10).openAt 10 (hdrDataEndAfter 12 .boundShrink (exUnb.resizeWith .boundShrink 10)) = exUnb.resize 10 ∧
    (exUnb.resizeWith .bound 10).1.alloc.data = { endMarker := 12, free := [10, 11] } ∧
    (exUnb.resizeWith .bound 10).1.alloc.maxPages = 10 ∧ (exUnb.resizeWith .bound 10).1.txid = exUnb.txid ∧
    hdrMaxAfter 0 .bound 10 = 0 :=
  ⟨engInv_exUnb, resizeOK_of_noGap _ _ (by decide), by decide, by decide, by decide, by decide, by decide,
    by decide, by decide, by decide, by decide, by decide⟩

example : EngInv (exUnb.resize 10) [7, 8, 9] :=
  c14e_fits_keeps_invariant exUnb _ engInv_exUnb 10 (resizeOK_of_noGap _ _ (by decide)) (by decide) (by decide) (by decide)

/-- `exTail` = `exRz` with two more free meta pages 8, 9 right below the free data pages 10, 11 (live: page 7) -/
def exTail : FileSt :=
  { exRz with alloc := { exRz.alloc with mta := { endMarker := 12, free := [3, 4, 8, 9] }, metaTotal := 7 },
              disk := [(6, Content.full 7 3), (7, Content.full 7 1)] }

theorem engInv_exTail : EngInv exTail [7] := by
  refine ⟨allocWF_spec _ (by decide), by decide, ?_, ?_, ?_, ?_, ?_, by decide, by decide, by decide⟩
  · simp [AscKeys, exTail, exRz]
  · intro id hid
    simp only [List.mem_cons, List.not_mem_nil, or_false] at hid
    subst hid; simp [InUse, exTail, exRz]
  · intro k w hk
    simp only [exTail, exRz, Assoc.get?_cons, Assoc.get?_nil] at hk
    split at hk
    · simp_all
    · cases hk
  · intro k1 k2 w h1 h2
    simp only [exTail, exRz, Assoc.get?_cons, Assoc.get?_nil] at h1 h2
    split at h1 <;> split at h2 <;> simp_all
  · intro x hx
    simp only [FileSt.internal, exTail, exRz, List.map_cons, List.map_nil, List.cons_append,
      List.nil_append, List.mem_cons, List.not_mem_nil, or_false] at hx
    rcases hx with rfl | rfl | rfl <;> simp [InUse, exTail, exRz]

/-- **the release transaction can itself pin a page beyond the new limit**: shrinking `exTail` 20 → 8. Everything
    from page 8 on is free (8, 9 meta; 10, 11 data), yet only page 11 is released: the transaction needs a
    page for the new free list, the meta area is grown for it (`Ensure` moves the free data page 10 into
    the meta area) and the page is taken from the TOP of the meta free list — page 10, beyond the limit.
    It is in use afterwards, both end markers stay at 11 > 8 and the free meta pages 8, 9 below it can not
    be released before a later commit moves the free list. (`EngInvR` holds, `EngInv.wf.limit` does not.) -/
theorem c14e_release_pins_page_beyond_limit :
    EngInv exTail [7] ∧ (exTail.resizeWith .shrink 8).2 = .done ∧
    (exTail.resize 8).alloc.data = { endMarker := 11, free := [] } ∧
    (exTail.resize 8).alloc.mta = { endMarker := 11, free := [3, 4, 8, 9] } ∧
    (exTail.resize 8).alloc.freelistPages = [10] ∧ (exTail.resize 8).alloc.metaTotal = 8 ∧
    canRelease (exTail.resize 8).alloc.data 8 = false ∧ canRelease (exTail.resize 8).alloc.mta 8 = false :=
  ⟨engInv_exTail, by decide, by decide, by decide, by decide, by decide, by decide, by decide⟩

/-- `exGapB`: a bounded file with a gap (data end marker 8, meta end marker 10, limit 20; nothing in pages 8, 9) -/
def exGapB : FileSt :=
  { alloc := { maxPages := 20, pageSize := 4096, data := { endMarker := 8, free := [] },
               mta := { endMarker := 10, free := [3] }, metaTotal := 2, freelistPages := [2] },
    walMap := [], walPages := [], txid := 3, disk := [(4, Content.full 4 1)] }

theorem engInv_exGapB : EngInv exGapB [4, 5, 6, 7] := by
  refine ⟨allocWF_spec _ (by decide), by decide, List.Pairwise.nil, ?_, ?_, ?_, ?_, by decide, by decide,
    by decide⟩
  · intro id hid
    simp only [List.mem_cons, List.not_mem_nil, or_false] at hid
    rcases hid with rfl | rfl | rfl | rfl <;> simp [InUse, exGapB]
  · intro k w hk; simp [exGapB, Assoc.get?] at hk
  · intro k1 k2 w hk; simp [exGapB, Assoc.get?] at hk
  · intro x hx
    simp only [FileSt.internal, exGapB, List.map_nil, List.nil_append, List.mem_cons, List.not_mem_nil,
      or_false] at hx
    subst hx; simp [InUse, exGapB]

/-- an EMPTY gap is left alone by the precise rule: shrinking `exGapB` 20 → 8 — the instance that performs the update
    and an instance opened later from the header agree (data end marker 8; the first absorb rule raised it to
    10 in the updating instance only) -/
theorem c14e_empty_gap_not_absorbed :
    EngInv exGapB [4, 5, 6, 7] ∧ (exGapB.resizeWith .shrink 8).2 = .notRun ∧
    (exGapB.resizeWith .shrink 8).1.alloc.data.endMarker = 8 ∧
    hdrDataEndAfter exGapB.alloc.data.endMarker .shrink (exGapB.resizeWith .shrink 8) = 8 ∧
    (exGapB.resizeWith .shrink 8).1.openAt 8 8 = (exGapB.resizeWith .shrink 8).1 :=
  ⟨engInv_exGapB, by decide, by decide, by decide, by decide⟩

/-! ## overflow area in use (outside `EngInv`): what the precise absorb rule does

  `exRzOv`: limit 10, data end marker 8, meta end marker 12; the overflow area [10, 12) holds the free-list page
  10 and the free meta page 11 — it lies completely BEYOND the limit, the data end marker has dropped below the
  limit (pages 8, 9 were freed and released). -/

def exRzOv : FileSt :=
  { alloc := { maxPages := 10, pageSize := 4096, data := { endMarker := 8, free := [] },
               mta := { endMarker := 12, free := [3, 11] }, metaTotal := 4, freelistPages := [10] },
    walMap := [], walPages := [], txid := 5, disk := [(4, Content.full 4 1)] }

/-- **the repaired case (C10)**: a plain reopen leaves the data end marker at 8 — pages 8, 9 stay allocatable —, the
    first rule (`FileSt.reopen`) raised it to 12 and lost them. Growing to 20 pages absorbs the area (pages 10, 11
    now lie in front of the limit): data end marker 12, no meta page in [12, 20) (`c14e_no_collision_absorb`),
    `Tx.Alloc` hands out page 12, not the free-list page 10. Growing only to 11: page 10 lies in front of the
    limit, absorbed as well. -/
theorem c14e_precise_rule_example :
    exRzOv.reopenP.alloc.data.endMarker = 8 ∧ exRzOv.reopenP.alloc.dataAvail = 2 ∧
    exRzOv.reopen.alloc.data.endMarker = 12 ∧ exRzOv.reopen.alloc.dataAvail = 0 ∧
    (exRzOv.resize 20).alloc.data.endMarker = 12 ∧ (exRzOv.resize 20).alloc.dataAvail = 8 ∧
    (txAlloc (exRzOv.resize 20) ((exRzOv.resize 20).beginTx false 0 0) 1).toOption.map (·.2.2) = some [12] ∧
    (exRzOv.resize 11).alloc.data.endMarker = 12 ∧ (exRzOv.resize 0).alloc.data.endMarker = 12 := by decide

/-- `exRzOv2`: a file at (beyond) its limit with an overflow area in use: limit 25, data end marker 26, meta end
    marker 28, mapping page 26 and free-list page 27 behind the data end marker. -/
def exRzOv2 : FileSt :=
  { alloc := { maxPages := 25, pageSize := 4096, data := { endMarker := 26, free := [] },
               mta := { endMarker := 28, free := [3] }, metaTotal := 3, freelistPages := [27] },
    walMap := [], walPages := [26], txid := 5, disk := [] }

/-- **grow over an overflow area, then shrink: the updating instance and every later instance agree** (the history of
    `vh resize -seed 5 -tier thorough`, program 206, which diverged on the first version of the patch: the grow
    absorbed the area in memory only, the header kept the old data end marker, and after the shrink a later
    open did not absorb any more). Now: grow 25 → 31 stores data end marker 28 WITH the limit; the shrink
    31 → 22 (opened from that header) keeps 28 and stores it again; an instance opened later from the header
    (limit 22, data end marker 28) is exactly the shrinking instance. Not an `EngInv` state. -/
theorem c14e_grow_then_shrink_agree :
    (exRzOv2.resize 31).alloc.data.endMarker = 28 ∧
    hdrDataEndAfter 26 .grow (exRzOv2.resizeWith .grow 31) = 28 ∧
    (exRzOv2.resize 31).openAt 31 28 = exRzOv2.resize 31 ∧
    ((exRzOv2.resize 31).resizeWith .shrink 22).2 = .notRun ∧
    ((exRzOv2.resize 31).resizeWith .shrink 22).1.alloc.data.endMarker = 28 ∧
    hdrDataEndAfter 28 .shrink ((exRzOv2.resize 31).resizeWith .shrink 22) = 28 ∧
    ((exRzOv2.resize 31).resizeWith .shrink 22).1.openAt 22 28 = ((exRzOv2.resize 31).resizeWith .shrink 22).1 := by
  decide

/-! ## no collision: what absorbing is for -/

/-- **C14, no collision (every decision)**: after the update no meta page — free meta page, free-list page, mapping
    page, overwrite page — lies at or behind the data end marker and in front of the (new) limit: whatever the
    data area hands out from the end of the file later is not a meta page. -/
theorem c14e_no_collision_every_decision (f : FileSt) (live : List Nat) (he : EngInv f live) (k : RKind) (n : Nat)
    (hk : k.pre f n) (p : Nat) (hp : p ∈ (f.resizeWith k n).1.metaPages) :
    ¬ ((f.resizeWith k n).1.alloc.data.endMarker ≤ p ∧
       ((f.resizeWith k n).1.alloc.maxPages = 0 ∨ p < (f.resizeWith k n).1.alloc.maxPages)) :=
  rz_no_collision (rz_resizeWith_engInvR he k n hk) p hp

/-- **C14, no collision** for `Open` with `FlagUpdMaxSize` and `MaxSize = n` pages (`ResizeOK`: see
    `c14e_resize_invariant_partial`) -/
theorem c14e_no_collision (f : FileSt) (live : List Nat) (he : EngInv f live) (n : Nat) (hg : ResizeOK f n)
    (p : Nat) (hp : p ∈ (f.resize n).metaPages) :
    ¬ ((f.resize n).alloc.data.endMarker ≤ p ∧ (n = 0 ∨ p < n)) := by
  have := rz_no_collision (c14e_resize_invariant_partial f live he n hg) p hp
  rw [rz_resize_max] at this
  exact this

/-- **C14, no collision, NO invariant** (overflow area in use; this is where `absorbOverflowArea` acts): for the
    decisions that end with the absorb step — plain open, session limit, grow / unbound — and ANY state whose
    meta pages lie below the meta end marker, no meta page lies at or behind the data end marker and in
    front of the limit afterwards. -/
theorem c14e_no_collision_absorb (f : FileSt) (k : RKind) (n : Nat) (hk : k = .same ∨ k = .bound ∨ k = .grow)
    (hm : ∀ p ∈ f.metaPages, p < f.alloc.mta.endMarker) (p : Nat) (hp : p ∈ (f.resizeWith k n).1.metaPages) :
    ¬ ((f.resizeWith k n).1.alloc.data.endMarker ≤ p ∧
       ((f.resizeWith k n).1.alloc.maxPages = 0 ∨ p < (f.resizeWith k n).1.alloc.maxPages)) := by
  rcases hk with rfl | rfl | rfl
  · exact rz_absorbP_no_collision f hm p hp
  · exact rz_absorbP_no_collision
      ({ f with alloc := { f.alloc with maxPages := n, data := { f.alloc.data with endMarker := f.alloc.data.endMarker } } } : FileSt)
      hm p hp
  · have h1 : ({ f.reopenP with alloc := { f.reopenP.alloc with maxPages := n }, txid := f.reopenP.txid + 1 } : FileSt).metaPages =
        f.metaPages := absorbP_metaPages f
    have h2 : ({ f.reopenP with alloc := { f.reopenP.alloc with maxPages := n }, txid := f.reopenP.txid + 1 } : FileSt).alloc.mta =
        f.alloc.mta := (absorbP_keeps f).2.1
    exact rz_absorbP_no_collision
      ({ f.reopenP with alloc := { f.reopenP.alloc with maxPages := n }, txid := f.reopenP.txid + 1 } : FileSt)
      (by rw [h1, h2]; exact hm) p hp

/-- the limit update `initTxMaxSize` leaves no meta page in front of the data area (any state) -/
theorem limitTx_no_collision (g : FileSt) (n : Nat) (hm : ∀ p ∈ g.metaPages, p < g.alloc.mta.endMarker) (p : Nat)
    (hp : p ∈ (g.limitTx n).metaPages) :
    ¬ ((g.limitTx n).alloc.data.endMarker ≤ p ∧ ((g.limitTx n).alloc.maxPages = 0 ∨ p < (g.limitTx n).alloc.maxPages)) :=
  rz_absorbP_no_collision ({ g with alloc := { g.alloc with maxPages := n }, txid := g.txid + 1 } : FileSt) hm p hp

/-- … and for the two decisions that run `shrinkFile`, when no release transaction runs (NO invariant) -/
theorem c14e_no_collision_norelease (f : FileSt) (k : RKind) (n : Nat) (hk : k = .shrink ∨ k = .boundShrink)
    (hr : (f.resizeWith k n).2 = .notRun)
    (hm : ∀ p ∈ f.metaPages, p < f.alloc.mta.endMarker) (p : Nat) (hp : p ∈ (f.resizeWith k n).1.metaPages) :
    ¬ ((f.resizeWith k n).1.alloc.data.endMarker ≤ p ∧
       ((f.resizeWith k n).1.alloc.maxPages = 0 ∨ p < (f.resizeWith k n).1.alloc.maxPages)) := by
  rcases hk with rfl | rfl
  · have e : (f.resizeWith .shrink n).1 = f.reopenP.limitTx n := rz_shrinkNew_notRun f.reopenP n hr
    rw [e] at hp ⊢
    have h1 : f.reopenP.metaPages = f.metaPages := absorbP_metaPages f
    have h2 : f.reopenP.alloc.mta = f.alloc.mta := (absorbP_keeps f).2.1
    exact limitTx_no_collision f.reopenP n (by rw [h1, h2]; exact hm) p hp
  · have e : (f.resizeWith .boundShrink n).1 = (f.openAt n f.alloc.data.endMarker).limitTx n :=
      rz_shrinkNew_notRun (f.openAt n f.alloc.data.endMarker) n hr
    rw [e] at hp ⊢
    have h1 : (f.openAt n f.alloc.data.endMarker).metaPages = f.metaPages := absorbP_metaPages _
    have h2 : (f.openAt n f.alloc.data.endMarker).alloc.mta = f.alloc.mta := (absorbP_keeps _).2.1
    exact limitTx_no_collision _ n (by rw [h1, h2]; exact hm) p hp

example : ∀ p ∈ exRzOv.metaPages, p < exRzOv.alloc.mta.endMarker := by decide

/-! ## the decision on byte sizes and on page counts -/

/-- for page aligned sizes and `FlagUpdMaxSize`, `openWith`'s decision on the byte sizes (`rkindBytes`, what the
    driver evaluates on the implementation's options and the header) is the decision of `FileSt.resize` on
    page counts; for unaligned sizes the theorems about `resizeWith` apply to whatever is decided -/
theorem c14e_decision_aligned (ps old n : Nat) (hps : 0 < ps) :
    rkindBytes (old * ps) (n * ps) true = rkindPages old n ∧ (n * ps) / ps = n := by
  have e0 : ∀ x : Nat, x * ps = 0 ↔ x = 0 := by
    intro x; rw [Nat.mul_eq_zero]; omega
  have e1 : n * ps = old * ps ↔ n = old := Nat.mul_right_cancel_iff hps
  have e2 : n * ps < old * ps ↔ n < old := Nat.mul_lt_mul_right hps
  have e3 : 0 < n * ps ↔ 0 < n := by
    rw [Nat.pos_iff_ne_zero, Nat.pos_iff_ne_zero, Ne, Ne, e0]
  refine ⟨?_, Nat.mul_div_cancel n hps⟩
  unfold rkindBytes rkindPages
  simp only [e0, e1, e2, e3, Bool.not_true, Bool.false_or, decide_eq_true_eq, if_true]

/-- without `FlagUpdMaxSize` nothing is updated: plain open (or the in-memory limit for a header without limit) -/
theorem c14e_decision_plain (hdrMax optMax : Nat) :
    rkindBytes hdrMax optMax false = .same ∨ (hdrMax = 0 ∧ 0 < optMax ∧ rkindBytes hdrMax optMax false = .bound) := by
  unfold rkindBytes
  by_cases h0 : hdrMax = 0
  · rw [if_pos h0]
    by_cases h1 : optMax = 0
    · rw [if_pos h1]; exact Or.inl rfl
    · rw [if_neg h1]; exact Or.inr ⟨h0, by omega, rfl⟩
  · rw [if_neg h0]
    left
    simp

end TxVerif
