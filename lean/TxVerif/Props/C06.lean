/-
  C06 — queue durability: flushed events survive, ACKed events never return.
  Every flush and every ACK is exactly one engine transaction (tie `Tie.pq_flush_is_one_tx`,
  `Tie.pq_ack_is_one_tx`), so C01 applies to the queue's operation log: after a crash at any
  instant the file holds the state of the last completed flush/ACK or, completely, of the one in
  progress (`queue_crash`). What the reader then delivers is determined by the persisted page
  chain and header: `queue_resume` (entering the chain at the page the header points to delivers
  exactly the events from that page's first id on, in order) and C17's header invariant.
-/
import TxVerif.Props.C01
import TxVerif.Props.C05Layout
import TxVerif.Props.C17
namespace TxVerif

/-- **queue_crash**: for every queue history whose operation log follows the commit discipline,
    every crash point and every subset of lost un-synced writes, recovery yields the committed
    state of the last completed flush/ACK or of the one in progress, complete on disk -/
theorem queue_crash (reachOf : Nat → List (Nat × Hash)) (c0 : Cfg) (h0 : Safe reachOf c0)
    (trace : List TOp) (cEnd : Cfg) (hacc : c0.run reachOf trace = some cEnd) (k : Nat) :
    ∃ ck, c0.run reachOf (trace.take k) = some ck ∧
      ∀ img, CrashImg ck.durable ck.pending img →
        ∃ st, recover img = some st ∧ (st = ck.aSt ∨ ck.inflight = some st) ∧
          ∀ p h, (p, h) ∈ reachOf st → img.pages p = some h :=
  crash_recovers reachOf c0 h0 trace cEnd hacc k

/-- **queue_resume**: the persisted chain of events `evs` (ids from `id0`): entering at any page
    that carries an event header delivers exactly the events from that page's `first` id to the
    end, in order and byte-identical — in particular from the head page after an ACK / reopen -/
theorem queue_resume (P : Nat) (hP : 64 ≤ P) (id0 : Nat) (evs : List (List UInt8))
    (hsz : ∀ e ∈ evs, e.length < 2^32) (k : Nat) (p : QPage)
    (hk : (layout P id0 evs)[k]? = some p) (hoff : p.off ≠ 0) :
    id0 ≤ p.first ∧ p.first < id0 + evs.length ∧
    parseChain P ((layout P id0 evs).drop k) (id0 + evs.length - p.first) = some (evs.drop (p.first - id0)) :=
  layout_entry P hP id0 evs hsz k p hk hoff

/-- after reopening, the header (which satisfies the header invariant for the flushed / ACKed
    totals of the recovered state) reports exactly the un-ACKed events -/
theorem queue_pending_after_reopen (h : QHdr) (F A : Nat) (hi : HdrInv h F A) : h.pending = F - A :=
  (counters h F A hi).1

end TxVerif
