/-
  C12 — the queue reclaims space, reports full without loss, and can always be drained.
  Props/C12Ack.lean (ACK planning over the layout model) proves what an ACK releases and what
  it keeps; the engine side ("a transaction with the overflow area enabled that only frees pages
  can always allocate its meta pages") is `cleanup_progress` below.
-/
import TxVerif.Props.C12Ack
import TxVerif.Model.Alloc
namespace TxVerif

/-- **ack_frees / space bound**: after acknowledging up to `endID`, the pages the queue holds are
    at most those spanned by the events from the kept page's first event on (the un-ACKed events
    plus the ACKed ones sharing that page) + 2 — independent of how many events ever passed -/
theorem ack_space_bound (P : Nat) (hP : 64 ≤ P) (id0 : Nat) (evs : List (List UInt8)) (hne : evs ≠ [])
    (hsz : ∀ e ∈ evs, e.length < 2^32) (endID : Nat) (h1 : id0 ≤ endID) (h2 : endID ≤ id0 + evs.length) :
    ∃ K, (layout P id0 evs)[(ackPlan (layout P id0 evs) endID).1]? = some K ∧ K.first ≤ endID ∧
      (layout P id0 evs).length - (ackPlan (layout P id0 evs) endID).1 ≤
        ((evs.drop (K.first - id0)).map fun e => 4 + e.length).sum / (P - 31) + 2 :=
  ackPlan_space_bound P hP id0 evs hne hsz endID h1 h2

/-- **ack never loses un-ACKed events**: everything from the kept page's first event on is still
    delivered, byte-identical, after the ACK -/
theorem ack_keeps_unacked (P : Nat) (hP : 64 ≤ P) (id0 : Nat) (evs : List (List UInt8)) (hne : evs ≠ [])
    (hsz : ∀ e ∈ evs, e.length < 2^32) (endID : Nat) (h1 : id0 ≤ endID) (h2 : endID ≤ id0 + evs.length) :
    ∃ K, (layout P id0 evs)[(ackPlan (layout P id0 evs) endID).1]? = some K ∧ K.off ≠ 0 ∧
      id0 ≤ K.first ∧ K.first ≤ endID ∧ K.first < id0 + evs.length ∧
      parseChain P ((layout P id0 evs).drop (ackPlan (layout P id0 evs) endID).1) (id0 + evs.length - K.first)
        = some (evs.drop (K.first - id0)) :=
  ackPlan_keeps_unacked P hP id0 evs hne hsz endID h1 h2

/-- the page the writer appends to (the last page of the chain) is never released -/
theorem ack_keeps_write_page (pages : List QPage) (endID : Nat) (hne : pages ≠ []) :
    (ackPlan pages endID).1 < pages.length := ackPlan_keeps_last pages endID hne

/-- **cleanup_progress**: with the overflow area enabled, growing the meta area never fails —
    the ACK's cleanup transaction (it only frees pages and rewrites the root) can always get the
    meta pages it needs, even with zero free data pages -/
theorem cleanup_progress (a : Alloc) (st : TxAlloc) (count : Nat) : (tryGrow a st count true).isSome = true := by
  unfold tryGrow
  simp only
  split
  · rfl
  · split
    · simp only [Bool.not_true, Bool.false_eq_true, if_false]
      cases h : dataAllocRegions a st a.dataAvail with
      | none =>
        -- allocating exactly the available number of pages cannot fail
        exfalso
        unfold dataAllocRegions at h
        simp at h
      | some r => obtain ⟨a1, st1, ids⟩ := r; simp
    · cases h1 : dataAllocContinuous a st count with
      | some r => simp
      | none =>
        rename_i hav
        cases h2 : dataAllocRegions a st count with
        | some r => simp
        | none =>
          exfalso
          unfold dataAllocRegions at h2
          simp only [Nat.not_lt] at hav
          split at h2
          · omega
          · simp at h2

theorem ensure_with_overflow (a : Alloc) (st : TxAlloc) (n : Nat) (hov : st.overflow = true) :
    (ensureMeta a st n).isSome = true := by
  unfold ensureMeta
  simp only
  split
  · rfl
  · cases h : tryGrow a st _ false with
    | some r => simp
    | none => simp only [hov]; exact cleanup_progress a st _

end TxVerif
