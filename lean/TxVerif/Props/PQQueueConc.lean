/-
  C13: one producer and one consumer on one queue, concurrently - linearizable to the abstract FIFO.

  Model/PQQueueConc.lean: two threads over `PQState` with txfile's transaction lock; the atomic steps are the
  ones of the implementation (a producer call without flush; `BeginWrite` / `pending.Lock` / commit of a
  flush; `Begin`/`Done` of the read session and the calls inside it; plan / `BeginWrite` / `pending.Lock` /
  commit of an ACK).  Every call linearizes at one of its own steps: a call without transaction at its step, a
  flushing call at its commit, an ACK at the commit of its cleanup transaction (a rejected ACK at the planning
  step).  `ASpec.stepL` is the specification: the sequential FIFO `ASpec` without the single-thread
  restriction "no producer call inside a read session".

  * `conc_linearizable`   for EVERY schedule of ANY producer program and ANY consumer program, as long as no thread
                          left its contract (`bad = false`): the linearization `lin` recorded by the run is accepted
                          by the specification with exactly the recorded results (`ASpec.runLin`), each thread's
                          part of `lin` is the executed prefix of its program in program order, each thread
                          has seen exactly the results the specification gives, and the queue state is related
                          (`QInv`) to the specification state
  * `conc_events`         the specification's event list is determined by the producer's calls alone
  * `conc_fifo`           whatever the schedule: the consumer is given the produced events in order, byte-exact,
                          each once (its next `rnext` returns the size of event number `consumed`, a drain
                          returns exactly the flushed events not consumed yet)
  * `conc_counters`       `Pending() = Active() = flushed - acked`, callback totals, at EVERY reachable state
  * `conc_ack_safe`       the reader's page is never freed; the last page (the page the writer links to) is never
                          freed; a stale plan frees fewer pages than the queue holds
  * `conc_no_deadlock`    some thread can step unless both programs are finished (or the consumer program ended
                          inside a read session, which blocks every later flush)
  * `conc_terminates`     every step decreases a measure: at most `3·|P| + 4·|C| + 1` steps in any schedule; a
                          schedule after which no thread can step has finished both programs

  Hypotheses: `64 ≤ c.P`; `bad = false` (contract: the calls belong to the thread's role, events of
  `1 … 2^32-1` bytes, ACK only of events given and outside the read session, no `counters` inside the session).
-/
import TxVerif.Proofs.PQQueueConcInv
namespace TxVerif

/-- the states a schedule reaches from the initial state satisfy the invariant -/
theorem conc_inv_init (c : QCfg) (hP : 64 ≤ c.P) (p0 c0 : List QOp) : CInv c p0 c0 (CState.init c p0 c0) := by
  right
  refine ⟨⟨queue_inv_init c hP, rfl, rfl, rfl, rfl, rfl, by simp [ASpec.ackOk, CState.init]⟩, ?_⟩
  exact ⟨rfl, rfl, rfl, Or.inl rfl, fun p hp => (by simp [CState.init, CPc.plan?] at hp), fun h => absurd rfl h⟩

theorem conc_inv_run (c : QCfg) (hP : 64 ≤ c.P) (p0 c0 : List QOp) : ∀ (sched : List Bool) (s : CState),
    CInv c p0 c0 s → CInv c p0 c0 (CState.run c s sched) := by
  intro sched
  induction sched with
  | nil => intro s h; exact h
  | cons t ts ih =>
    intro s h
    simp only [CState.run]
    cases hs : s.step c t with
    | none => exact ih s h
    | some s' => exact ih s' (step_inv c hP p0 c0 s s' t h hs)

theorem conc_inv (c : QCfg) (hP : 64 ≤ c.P) (p0 c0 : List QOp) (sched : List Bool) :
    CInv c p0 c0 (CState.run c (CState.init c p0 c0) sched) :=
  conc_inv_run c hP p0 c0 sched _ (conc_inv_init c hP p0 c0)

/-- **LINEARIZABILITY.**  For every schedule of a producer program `p0` and a consumer program `c0` (inside the
    contract), there is a linearization `lin` - the calls completed so far, each with the result it returned,
    in the order of their linearization points - such that
    * the sequential specification accepts `lin` from the empty queue and gives exactly these results,
    * the producer's calls in `lin` are, in program order, the executed part of `p0` (what is left is `progP`),
      likewise for the consumer,
    * the results the producer / the consumer have seen are the results in `lin`, in order,
    * the final specification state is related to the queue state. -/
theorem conc_linearizable (c : QCfg) (hP : 64 ≤ c.P) (p0 c0 : List QOp) (sched : List Bool)
    (hb : (CState.run c (CState.init c p0 c0) sched).bad = false) :
    let s := CState.run c (CState.init c p0 c0) sched
    ∃ lin : List LinEv,
      ASpec.runLin {} lin = some s.a ∧
      p0 = (linP lin).map (·.op) ++ s.progP ∧ c0 = (linC lin).map (·.op) ++ s.progC ∧
      s.outP = (linP lin).map (·.out) ∧ s.outC = (linC lin).map (·.out) ∧
      QInv c s.q s.a := by
  intro s
  rcases conc_inv c hP p0 c0 sched with h | ⟨hL, _⟩
  · rw [hb] at h; cases h
  · exact ⟨s.lin, hL.linr, hL.progP, hL.progC, hL.outP, hL.outC, hL.qinv⟩

/-- reachable, inside the contract -/
def CReach (c : QCfg) (p0 c0 : List QOp) (s : CState) : Prop :=
  ∃ sched, CState.run c (CState.init c p0 c0) sched = s ∧ s.bad = false

theorem CReach.inv {c : QCfg} (hP : 64 ≤ c.P) {p0 c0 : List QOp} {s : CState} (h : CReach c p0 c0 s) :
    LInv c p0 c0 s ∧ KInv c s := by
  obtain ⟨sched, h1, h2⟩ := h
  rcases conc_inv c hP p0 c0 sched with h | h
  · rw [h1, h2] at h; cases h
  · rw [h1] at h; exact h

/-- **C13, counters.**  At every reachable state - not only at quiescent points: the root header changes only
    at commit points, together with the specification state - `Pending()` and `Active()` are
    `flushed - acked`, and the callback totals are `flushed` and `acked`. -/
theorem conc_counters (c : QCfg) (hP : 64 ≤ c.P) (p0 c0 : List QOp) (s : CState) (hR : CReach c p0 c0 s) :
    s.q.hdr.pending = s.a.flushed - s.a.acked ∧ s.q.hdr.active = s.a.flushed - s.a.acked ∧
    s.q.totFlushed = s.a.flushed ∧ s.q.totAcked = s.a.acked ∧ s.a.acked ≤ s.a.flushed ∧
    s.a.flushed ≤ s.a.events.length := by
  have hI := (hR.inv hP).1.qinv
  have h1 := (queue_sim_step c hP s.q s.a s.a (.counters (s.a.flushed - s.a.acked) (s.a.flushed - s.a.acked) s.a.flushed s.a.acked)
    .counters hI (by simp [ASpec.step])).1
  simp only [PQState.step, PQState.counters, QOut.counters.injEq] at h1
  exact ⟨h1.1, h1.2.1, hI.h.totF, hI.h.totA, hI.h.le, hI.fle⟩

/-! ## the events are the producer's, the consumer gets them in order -/

/-- the events a producer program finishes, and the bytes of the event in progress -/
def prodStep (g : List (List UInt8) × List UInt8) : QOp → List (List UInt8) × List UInt8
  | .write p => (g.1, g.2 ++ p)
  | .next => (g.1 ++ [g.2], [])
  | _ => g

def prodEvents (ops : List QOp) : List (List UInt8) × List UInt8 := ops.foldl prodStep ([], [])

theorem stepL_events (a a' : ASpec) (tid : Bool) (op : QOp) (fl : Bool) (o : QOut)
    (h : a.stepL tid op fl = some (a', o)) :
    (a'.events, a'.cur) = if tid then (a.events, a.cur) else prodStep (a.events, a.cur) op := by
  simp only [ASpec.stepL] at h
  cases tid with
  | true =>
    simp only [if_true] at h ⊢
    split at h
    · rename_i hop
      cases op <;> simp [QOp.isConsumer] at hop <;> simp only [ASpec.step] at h <;> (repeat' split at h) <;>
        simp only [Option.some.injEq, Prod.mk.injEq, reduceCtorEq] at h <;>
        (try (obtain ⟨h1, _⟩ := h; subst h1; rfl))
    · cases h
  | false =>
    simp only [Bool.false_eq_true, if_false] at h ⊢
    split at h
    · rename_i hop
      simp only [ASpec.pstep, Option.map_eq_some_iff, Prod.mk.injEq] at h
      obtain ⟨r1, hr1, he1, _⟩ := h
      rw [← he1]
      cases op <;> simp [QOp.isProducer] at hop <;> simp only [ASpec.step, ASpec.doFlush] at hr1 <;>
        (repeat' split at hr1) <;> simp only [Option.some.injEq, reduceCtorEq] at hr1 <;>
        (try (subst hr1; rfl))
    · cases h

theorem runLin_events : ∀ (lin : List LinEv) (a a' : ASpec), ASpec.runLin a lin = some a' →
    (a'.events, a'.cur) = ((linP lin).map (·.op)).foldl prodStep (a.events, a.cur) := by
  intro lin
  induction lin with
  | nil =>
    intro a a' h
    simp only [ASpec.runLin, Option.some.injEq] at h
    subst h; rfl
  | cons e es ih =>
    intro a a' h
    simp only [ASpec.runLin] at h
    cases hs : a.stepL e.tid e.op e.fl with
    | none => rw [hs] at h; cases h
    | some r =>
      rw [hs] at h
      simp only at h
      split at h
      · have h1 := stepL_events a r.1 e.tid e.op e.fl r.2 hs
        have h2 := ih r.1 a' h
        rw [h2, h1]
        cases ht : e.tid <;> simp [linP, ht]
      · cases h

/-- **The events are the producer's.**  Whatever the schedule, the specification's list of finished events
    (what the consumer is given, in this order) is exactly what the producer's completed calls wrote, in
    program order - the consumer's calls and the interleaving have no influence on it. -/
theorem conc_events (c : QCfg) (hP : 64 ≤ c.P) (p0 c0 : List QOp) (s : CState) (hR : CReach c p0 c0 s) :
    (s.a.events, s.a.cur) = prodEvents ((linP s.lin).map (·.op)) ∧
    p0 = (linP s.lin).map (·.op) ++ s.progP := by
  have hL := (hR.inv hP).1
  exact ⟨runLin_events s.lin {} s.a hL.linr, hL.progP⟩

/-- **C13, FIFO whatever the schedule.**  In every reachable state:
    (1) inside the read session the consumer's next `Next` skips the unread rest of the current event and returns
        the size of the next flushed event not consumed yet (event number `k`), 0 if there is none;
    (2) `Read(n)` returns exactly the next `min n left` bytes of the current event;
    (3) outside a session with no event in progress, a new session that reads every event to its end is given
        exactly the flushed events not consumed yet, in order, byte-exact, each once. -/
theorem conc_fifo (c : QCfg) (hP : 64 ≤ c.P) (p0 c0 : List QOp) (s : CState) (hR : CReach c p0 c0 s) :
    (s.a.inRead = true →
      (s.q.step c .rnext).2 =
        (if (if s.a.left = 0 then s.a.consumed else s.a.consumed + 1) < s.a.flushed then
          QOut.size (s.a.events.getD (if s.a.left = 0 then s.a.consumed else s.a.consumed + 1) []).length
         else QOut.size 0)) ∧
    (s.a.inRead = true → ∀ n, (s.q.step c (.rread n)).2 =
      QOut.bytes (if s.a.left = 0 then [] else
        (((s.a.events.getD s.a.consumed []).drop ((s.a.events.getD s.a.consumed []).length - s.a.left)).take (min n s.a.left)))) ∧
    (s.a.inRead = false → s.a.left = 0 →
      (PQState.run c s.q (.rbegin :: drainOps ((s.a.events.take s.a.flushed).drop s.a.consumed))).2 =
        .ok :: drainOuts ((s.a.events.take s.a.flushed).drop s.a.consumed)) := by
  have hI := (hR.inv hP).1.qinv
  refine ⟨fun hin => ?_, fun hin n => ?_, fun hin hl => queue_drain_from c hP s.q s.a hI hin hl⟩
  · obtain ⟨a1, o, hs⟩ : ∃ a1 o, s.a.step .rnext false = some (a1, o) := by
      simp only [ASpec.step, hin, Bool.not_true, Bool.false_eq_true, if_false]
      split <;> (split <;> exact ⟨_, _, rfl⟩)
    rw [(queue_sim_step c hP s.q s.a a1 o .rnext hI hs).1]
    simp only [ASpec.step, hin, Bool.not_true, Bool.false_eq_true, if_false] at hs
    by_cases hk : (if s.a.left = 0 then s.a.consumed else s.a.consumed + 1) < s.a.flushed
    · simp only [hk, if_true, Option.some.injEq, Prod.mk.injEq] at hs ⊢; exact hs.2.symm
    · simp only [hk, if_false, Option.some.injEq, Prod.mk.injEq] at hs ⊢; exact hs.2.symm
  · obtain ⟨a1, o, hs⟩ : ∃ a1 o, s.a.step (.rread n) false = some (a1, o) := by
      simp only [ASpec.step, hin, Bool.not_true, Bool.false_eq_true, if_false]
      split
      · exact ⟨_, _, rfl⟩
      · split <;> exact ⟨_, _, rfl⟩
    rw [(queue_sim_step c hP s.q s.a a1 o (.rread n) hI hs).1]
    simp only [ASpec.step, hin, Bool.not_true, Bool.false_eq_true, if_false] at hs
    by_cases hl : s.a.left = 0
    · simp only [hl, if_true, Option.some.injEq, Prod.mk.injEq] at hs ⊢; exact hs.2.symm
    · simp only [hl, if_false] at hs ⊢
      split at hs <;> (simp only [Option.some.injEq, Prod.mk.injEq] at hs; exact hs.2.symm)

/-! ## ACK safety -/

/-- the reader's page is behind the head page (`queue_reader_page_live` for any related pair of states) -/
theorem reader_page_live_of_inv (c : QCfg) (hP : 64 ≤ c.P) (q : PQState) (a : ASpec) (hI : QInv c q a)
    (hok : a.ackOk) (i o : Nat) (hc : q.r.cur = some (i, o)) : q.headPos.1 ≤ i := by
  simp only [ASpec.ackOk] at hok
  have hH := hI.h
  by_cases hF0 : a.flushed = 0
  · have := CRel_length _ _ _ _ hI.crel
    rw [hF0] at this
    have hi := hH.inuse
    simp only [if_true] at this
    omega
  have hFpos : 0 < a.flushed := by omega
  obtain ⟨hS, h4⟩ := c.S_add hP
  obtain ⟨K, k1, k2, k3, k4, k5⟩ := hH.head hFpos
  obtain ⟨hq, hfF⟩ := page_is_qhdr c.S h4 a.events a.flushed _ hI.crel hI.fle hFpos _ K k1 k3
  rw [k4] at hq hfF
  have hhp : q.headPos.1 = (qhdr c.S a.events q.hdr.headId).1 := by rw [hq]
  have hcur := hI.r.cur
  rw [hc] at hcur
  obtain ⟨_, hat, hmid⟩ := hcur
  have hFl := hI.fle
  have hcons := hI.r.cons
  -- the header page of the head's first event is not behind the header page of any event `k ≥` it
  have hmono : ∀ k, q.hdr.headId ≤ k → k ≤ a.events.length →
      (qhdr c.S a.events q.hdr.headId).1 ≤ (qhdr c.S a.events k).1 := by
    intro k h1 h2
    rcases Nat.lt_or_ge q.hdr.headId k with h | h
    · exact Nat.le_trans (qhdr_le_qpos c.S a.events _ k h h2) (qpos_le_qhdr c.S a.events k)
    · have : k = q.hdr.headId := by omega
      rw [this]; exact Nat.le_refl _
  by_cases hl : a.left = 0
  · simp only [hl, if_true, Nat.add_zero] at hok
    have hcase : (qhdr c.S a.events q.hdr.headId).1 ≤ (qpos c.S a.events a.consumed).1 := by
      rcases Nat.lt_or_ge q.hdr.headId a.consumed with h | h
      · exact qhdr_le_qpos c.S a.events _ _ h (by omega)
      · -- head id = consumed = acked = 0
        have h0 : q.hdr.headId = 0 ∧ a.consumed = 0 := by
          rcases hH.headLt with h' | ⟨h1, h2⟩
          · omega
          · omega
        rw [h0.1, h0.2]
        have : ¬ qpad c.S a.events 0 := by
          simp only [qpad]
          have : (qc c.S a.events 0).payload.length = 0 := rfl
          omega
        simp [qhdr, this]
    rcases hat hl with h | ⟨_, h, _⟩
    · have := congrArg Prod.fst h; simp only at this; omega
    · have := congrArg Prod.fst h; simp only at this
      simp only [qpos] at hcase; omega
  · simp only [hl, if_false] at hok
    obtain ⟨hlt, _, hx⟩ := hmid (by omega)
    have hle : q.hdr.headId ≤ a.consumed := by
      rcases hH.headLt with h' | ⟨h1, h2⟩ <;> omega
    have := hmono a.consumed hle (by omega)
    have hx1 := congrArg Prod.fst hx
    simp only [qmid] at hx1
    omega


/-- **C13, an ACK never removes a page that is still in use.**  In every reachable state of the two-thread
    system: (1) the page the consumer's cursor is on belongs to the pages the queue holds (never freed, whatever
    the producer did between the planning and the commit of an ACK); (2) a non-empty queue's head page exists:
    the last page of the chain - the page the writer's buffer links its next flush to - is never freed;
    (3) a plan waiting to be applied, stale or not, keeps at least the last page and the page it makes the new
    head holds an event header. -/
theorem conc_ack_safe (c : QCfg) (hP : 64 ≤ c.P) (p0 c0 : List QOp) (s : CState) (hR : CReach c p0 c0 s) :
    (∀ i o, s.q.r.cur = some (i, o) → s.q.headPos.1 ≤ i) ∧
    (0 < s.a.flushed → s.q.headPos.1 < s.q.w.persisted.length) ∧
    (∀ p, s.cp.plan? = some p → p.headIdx < s.q.w.persisted.length ∧ p.headIdx = s.q.headPos.1 + p.freed ∧
      ∃ K, s.q.w.persisted[p.headIdx]? = some K ∧ K.off ≠ 0) := by
  obtain ⟨hL, hK⟩ := hR.inv hP
  refine ⟨fun i o hc => reader_page_live_of_inv c hP s.q s.a hL.qinv hL.ackok i o hc, fun h0 => ?_, fun p hp => ?_⟩
  · obtain ⟨K, k1, _⟩ := hL.qinv.h.head h0
    rcases Nat.lt_or_ge s.q.headPos.1 s.q.w.persisted.length with h | h
    · exact h
    · rw [List.getElem?_eq_none h] at k1; cases k1
  · obtain ⟨n, rest, _, hpl, _, _⟩ := hK.plan p hp
    obtain ⟨K, k1, _, k3, _⟩ := hpl.head
    exact ⟨hpl.hlt, hpl.hidx, K, k1, k3⟩

/-! ## progress -/

/-- when the consumer cannot step: its program is finished, or it waits for a lock -/
theorem stepC_none (c : QCfg) (s : CState) (h : s.stepC c = none) :
    s.progC = [] ∨ (s.cp = .idle ∧ s.lock.pending = true ∧ s.q.r.inTx = false) ∨
    (∃ p, s.cp = .planned p ∧ s.lock.reserved = true) ∨ (∃ p, s.cp = .pending p ∧ s.lock.shared ≠ 0) := by
  simp only [CState.stepC] at h
  cases hprog : s.progC with
  | nil => exact Or.inl rfl
  | cons op rest =>
    right
    rw [hprog] at h
    simp only at h
    split at h
    · cases h
    cases hcp : s.cp with
    | idle =>
      rw [hcp] at h
      left
      cases op <;> simp only at h <;> (repeat' split at h) <;> (try cases h) <;> simp_all
    | planned p =>
      rw [hcp] at h
      simp only at h
      split at h
      · rename_i hr; exact Or.inr (Or.inl ⟨p, rfl, hr⟩)
      · cases h
    | active p => rw [hcp] at h; cases h
    | pending p =>
      rw [hcp] at h
      simp only at h
      split at h
      · rename_i hr; exact Or.inr (Or.inr ⟨p, rfl, hr⟩)
      · split at h <;> cases h

/-- when the producer cannot step although it has calls left: it waits for a lock -/
theorem stepP_none (c : QCfg) (s : CState) (h : s.stepP c = none) :
    s.progP = [] ∨ (s.pp = .idle ∧ s.lock.reserved = true) ∨ (s.pp = .pending ∧ s.lock.shared ≠ 0) := by
  simp only [CState.stepP] at h
  cases hprog : s.progP with
  | nil => exact Or.inl rfl
  | cons op rest =>
    right
    rw [hprog] at h
    simp only at h
    split at h
    · cases h
    cases hpp : s.pp with
    | idle =>
      rw [hpp] at h
      simp only at h
      split at h
      · split at h
        · rename_i hr; exact Or.inl ⟨rfl, hr⟩
        · cases h
      · cases h
    | active => rw [hpp] at h; cases h
    | pending =>
      rw [hpp] at h
      simp only at h
      split at h
      · rename_i hr; exact Or.inr ⟨rfl, hr⟩
      · cases h

/-- **C13, no deadlock.**  In every reachable state in which not both programs are finished some thread can
    take a step - unless the consumer's program has ended inside an open read session (then every later flush
    waits for a `Done` that never comes: the consumer must close its sessions). -/
theorem conc_no_deadlock (c : QCfg) (hP : 64 ≤ c.P) (p0 c0 : List QOp) (s : CState) (hR : CReach c p0 c0 s)
    (hfin : s.finished = false) (hsess : ¬ (s.progC = [] ∧ s.q.r.inTx = true)) :
    ∃ t, (s.step c t).isSome = true := by
  obtain ⟨hL, hK⟩ := hR.inv hP
  have hbad : s.bad = false := hR.choose_spec.2
  have hstep : ∀ t, s.step c t = if t then s.stepC c else s.stepP c := by
    intro t; simp [CState.step, hbad]
  have hin := hL.qinv.r.inTx
  -- the shared lock is held exactly while the session is open
  have hsh : s.lock.shared ≠ 0 → s.q.r.inTx = true := by
    intro h; have := hK.shared; cases hq : s.q.r.inTx <;> simp_all
  -- a consumer in the middle of an ACK is outside its session
  have hplanTx : ∀ p, s.cp.plan? = some p → s.q.r.inTx = false := by
    intro p hp
    obtain ⟨_, _, _, _, h3, _⟩ := hK.plan p hp
    rw [hin]; exact h3
  cases hc : s.stepC c with
  | some _ => exact ⟨true, by rw [hstep, if_pos rfl, hc]; rfl⟩
  | none =>
    cases hp : s.stepP c with
    | some _ => exact ⟨false, by rw [hstep]; simp [hp]⟩
    | none =>
      exfalso
      rcases stepC_none c s hc with hc0 | ⟨hci, hpd, htx⟩ | ⟨p, hcp, hres⟩ | ⟨p, hcp, hs0⟩
      · -- the consumer is finished: the producer must be able to go on
        have hcpi : s.cp = .idle := by
          cases hcp : s.cp with
          | idle => rfl
          | planned p => obtain ⟨_, _, h, _⟩ := hK.plan p (by rw [hcp]; rfl); rw [hc0] at h; cases h
          | active p => obtain ⟨_, _, h, _⟩ := hK.plan p (by rw [hcp]; rfl); rw [hc0] at h; cases h
          | pending p => obtain ⟨_, _, h, _⟩ := hK.plan p (by rw [hcp]; rfl); rw [hc0] at h; cases h
        rcases stepP_none c s hp with hp0 | ⟨hpi, hres⟩ | ⟨hpp, hs0⟩
        · simp [CState.finished, hp0, hc0] at hfin
        · have := hK.reserved; rw [hpi, hcpi, hres] at this; simp [CPc.holdsRes] at this
        · exact hsess ⟨hc0, hsh hs0⟩
      · -- the consumer waits for a pending commit: that commit is the producer's, and it can proceed
        have hppp : s.pp = .pending := by
          have := hK.pending; rw [hci, hpd] at this
          simp only [CPc.isPending, Bool.or_false] at this
          exact of_decide_eq_true this.symm
        rcases stepP_none c s hp with hp0 | ⟨hpi, _⟩ | ⟨_, hs0⟩
        · exact hK.ppc (by rw [hppp]; simp) hp0
        · rw [hppp] at hpi; cases hpi
        · have := hsh hs0; rw [htx] at this; cases this
      · -- the consumer waits for the writer lock: the producer holds it and can proceed
        have hppn : s.pp ≠ .idle := by
          have := hK.reserved; rw [hcp, hres] at this
          simp only [CPc.holdsRes, Bool.or_false] at this
          exact of_decide_eq_true this.symm
        rcases stepP_none c s hp with hp0 | ⟨hpi, _⟩ | ⟨_, hs0⟩
        · exact hK.ppc hppn hp0
        · exact hppn hpi
        · have := hsh hs0; rw [hplanTx p (by rw [hcp]; rfl)] at this; cases this
      · have := hsh hs0; rw [hplanTx p (by rw [hcp]; rfl)] at this; cases this

/-! ## termination -/

/-- steps still to be taken: 3 per producer call, 4 per consumer call, minus the steps of the call in progress -/
def muP (s : CState) : Nat :=
  match s.pp with
  | .idle => 3 * s.progP.length
  | .active => 3 * s.progP.length - 1
  | .pending => 3 * s.progP.length - 2

def muC (s : CState) : Nat :=
  match s.cp with
  | .idle => 4 * s.progC.length
  | .planned _ => 4 * s.progC.length - 1
  | .active _ => 4 * s.progC.length - 2
  | .pending _ => 4 * s.progC.length - 3

def mu (s : CState) : Nat := muP s + muC s

theorem linearize_shape (c : QCfg) (s : CState) (tid : Bool) (op : QOp) (q' : PQState) (o : QOut) :
    (s.linearize c tid op q' o).bad = true ∨
    ((s.linearize c tid op q' o).pp = s.pp ∧ (s.linearize c tid op q' o).cp = s.cp ∧
      (s.linearize c tid op q' o).progP = (if tid then s.progP else s.progP.tail) ∧
      (s.linearize c tid op q' o).progC = (if tid then s.progC.tail else s.progC)) := by
  simp only [CState.linearize]
  cases s.a.stepL tid op (s.q.autoFlush c op) with
  | none => left; rfl
  | some r => right; cases tid <;> simp

theorem stepP_mu (c : QCfg) (s s' : CState) (h : s.stepP c = some s') : s'.bad = true ∨ mu s' < mu s := by
  simp only [CState.stepP] at h
  cases hprog : s.progP with
  | nil => rw [hprog] at h; cases h
  | cons op rest =>
    rw [hprog] at h
    simp only at h
    split at h
    · simp only [Option.some.injEq] at h; rw [← h]; exact Or.inl rfl
    cases hpp : s.pp with
    | idle =>
      rw [hpp] at h
      simp only at h
      split at h
      · split at h
        · cases h
        · simp only [Option.some.injEq] at h; rw [← h]; right
          simp [mu, muP, muC, hpp, hprog]; omega
      · simp only [Option.some.injEq] at h
        rcases linearize_shape c s false op (s.q.step c op).1 (s.q.step c op).2 with hb | ⟨e1, e2, e3, e4⟩
        · rw [← h]; exact Or.inl hb
        · rw [← h]; right
          simp only [Bool.false_eq_true, if_false] at e3 e4
          simp only [mu, muP, muC, e1, e2, e3, e4, hpp, hprog, List.tail_cons, List.length_cons]; omega
    | active =>
      rw [hpp] at h
      simp only [Option.some.injEq] at h; rw [← h]; right
      simp [mu, muP, muC, hpp, hprog]; omega
    | pending =>
      rw [hpp] at h
      simp only at h
      split at h
      · cases h
      · simp only [Option.some.injEq] at h
        rcases linearize_shape c _ false op (s.q.step c op).1 (s.q.step c op).2 with hb | ⟨e1, e2, e3, e4⟩
        · rw [← h]; exact Or.inl hb
        · rw [← h]; right
          simp only [Bool.false_eq_true, if_false] at e3 e4
          simp only [mu, muP, muC, e1, e2, e3, e4, hpp, hprog, List.tail_cons, List.length_cons]; omega

theorem stepC_mu (c : QCfg) (s s' : CState) (h : s.stepC c = some s') : s'.bad = true ∨ mu s' < mu s := by
  simp only [CState.stepC] at h
  cases hprog : s.progC with
  | nil => rw [hprog] at h; cases h
  | cons op rest =>
    rw [hprog] at h
    simp only at h
    split at h
    · simp only [Option.some.injEq] at h; rw [← h]; exact Or.inl rfl
    -- a linearized call of the consumer from `cp = idle`
    have lin_case : ∀ (s1 : CState) (q' : PQState) (o : QOut), s1.pp = s.pp → s1.cp = .idle → s.cp = .idle →
        s1.progP = s.progP → s1.progC = op :: rest →
        (s1.linearize c true op q' o).bad = true ∨ mu (s1.linearize c true op q' o) < mu s := by
      intro s1 q' o h1 h2 h2' h3 h4
      rcases linearize_shape c s1 true op q' o with hb | ⟨e1, e2, e3, e4⟩
      · exact Or.inl hb
      · right
        simp only [if_true] at e3 e4
        simp only [mu, muP, muC, e1, e2, e3, e4, h1, h2, h2', h3, h4, hprog, List.tail_cons, List.length_cons]
        cases s.pp <;> (try simp) <;> omega
    cases hcp : s.cp with
    | idle =>
      rw [hcp] at h
      cases op <;> simp only at h <;> (repeat' split at h) <;>
        simp only [Option.some.injEq, reduceCtorEq] at h <;>
        first
        | (rw [← h]; exact Or.inl rfl)
        | (rw [← h]; exact lin_case _ _ _ rfl (by first | rfl | exact hcp) hcp rfl (by first | rfl | exact hprog))
        | (rw [← h]; right; simp [mu, muP, muC, hcp, hprog]; cases s.pp <;> (try simp) <;> omega)
    | planned p =>
      rw [hcp] at h
      simp only at h
      split at h
      · cases h
      · simp only [Option.some.injEq] at h; rw [← h]; right
        simp [mu, muP, muC, hcp, hprog]; cases s.pp <;> (try simp) <;> omega
    | active p =>
      rw [hcp] at h
      simp only [Option.some.injEq] at h; rw [← h]; right
      simp [mu, muP, muC, hcp, hprog]; cases s.pp <;> (try simp) <;> omega
    | pending p =>
      rw [hcp] at h
      simp only at h
      split at h
      · cases h
      · split at h
        · simp only [Option.some.injEq] at h
          rcases linearize_shape c _ true _ (s.q.ackApply _ p) .ok with hb | ⟨e1, e2, e3, e4⟩
          · rw [← h]; exact Or.inl hb
          · rw [← h]; right
            simp only [if_true] at e3 e4
            simp only [mu, muP, muC, e1, e2, e3, e4, hcp, hprog, List.tail_cons, List.length_cons]
            cases s.pp <;> (try simp) <;> omega
        · simp only [Option.some.injEq] at h; rw [← h]; exact Or.inl rfl

theorem step_mu (c : QCfg) (s s' : CState) (t : Bool) (h : s.step c t = some s') : s'.bad = true ∨ mu s' < mu s := by
  simp only [CState.step] at h
  split at h
  · cases h
  · cases t with
    | true => exact stepC_mu c s s' h
    | false => exact stepP_mu c s s' h

/-- the number of steps a schedule really takes (a scheduled thread that cannot step is skipped) -/
def CState.effSteps (c : QCfg) : CState → List Bool → Nat
  | _, [] => 0
  | s, t :: ts =>
    match s.step c t with
    | some s' => CState.effSteps c s' ts + 1
    | none => CState.effSteps c s ts

theorem effSteps_bad (c : QCfg) : ∀ (sched : List Bool) (s : CState), s.bad = true → CState.effSteps c s sched = 0 := by
  intro sched
  induction sched with
  | nil => intro s _; rfl
  | cons t ts ih =>
    intro s hb
    simp only [CState.effSteps, CState.step, hb, if_true]
    exact ih s hb

theorem effSteps_le (c : QCfg) : ∀ (sched : List Bool) (s : CState), CState.effSteps c s sched ≤ mu s + 1 := by
  intro sched
  induction sched with
  | nil => intro s; simp [CState.effSteps]
  | cons t ts ih =>
    intro s
    simp only [CState.effSteps]
    cases hs : s.step c t with
    | none => exact ih s
    | some s' =>
      simp only
      rcases step_mu c s s' t hs with hb | hlt
      · rw [effSteps_bad c ts s' hb]; omega
      · have := ih s'; omega

/-- **C13, termination.**  Every schedule takes at most `3·|p0| + 4·|c0| + 1` steps (every step decreases the
    measure `mu`), and a schedule after which no thread can step any more - a maximal run - has finished
    both programs (inside the contract, and if the consumer closed its last session). -/
theorem conc_terminates (c : QCfg) (hP : 64 ≤ c.P) (p0 c0 : List QOp) (sched : List Bool) :
    CState.effSteps c (CState.init c p0 c0) sched ≤ 3 * p0.length + 4 * c0.length + 1 ∧
    (let s := CState.run c (CState.init c p0 c0) sched
     s.bad = false → (∀ t, s.step c t = none) → ¬ (s.progC = [] ∧ s.q.r.inTx = true) → s.finished = true) := by
  refine ⟨?_, ?_⟩
  · have := effSteps_le c sched (CState.init c p0 c0)
    simpa [mu, muP, muC, CState.init] using this
  · intro s hb hmax hsess
    cases hf : s.finished with
    | true => rfl
    | false =>
      obtain ⟨t, ht⟩ := conc_no_deadlock c hP p0 c0 s ⟨sched, rfl, hb⟩ hf hsess
      rw [hmax t] at ht
      cases ht

/-! ## concrete schedules (P = 64, buffer of 5 pages) -/

def exProgP : List QOp := [.write (ev 3 1), .next, .flush, .write (ev 40 2), .next, .flush]
def exProgC : List QOp := [.rbegin, .rnext, .rread 100, .rdone, .ack 1]

/-- first flush (5 producer steps), a read session and the PLANNING of `ack 1` (5 consumer steps), then the
    second flush commits (5 producer steps) - the plan is stale now - then the ACK's write transaction -/
def exSchedStale : List Bool :=
  [false, false, false, false, false, true, true, true, true, true, false, false, false, false, false, true, true, true]

set_option maxRecDepth 100000 in
/-- a stale ACK plan: planned when the chain had 1 page and 1 flushed event, applied when it has 2 pages and 2
    events; the results of both threads, the linearization order, the final root header -/
theorem conc_example_stale_plan :
    let s := CState.run exCfg (CState.init exCfg exProgP exProgC) exSchedStale
    (CState.run exCfg (CState.init exCfg exProgP exProgC) (exSchedStale.take 10)).cp =
        .planned ⟨0, 0, 28, 0, 0, 35, 1⟩ ∧
    (CState.run exCfg (CState.init exCfg exProgP exProgC) (exSchedStale.take 10)).q.w.persisted.length = 1 ∧
    (CState.run exCfg (CState.init exCfg exProgP exProgC) (exSchedStale.take 15)).q.w.persisted.length = 2 ∧
    s.outP = [.wrote none, .wrote none, .wrote (some 1), .wrote none, .wrote none, .wrote (some 1)] ∧
    s.outC = [.ok, .size 3, .bytes (ev 3 1), .ok, .ok] ∧
    s.lin.map (·.tid) = [false, false, false, true, true, true, true, false, false, false, true] ∧
    s.bad = false ∧ s.finished = true ∧ s.lock = {} ∧
    s.q.hdr = { headId := 0, readId := 1, tailId := 2, headSet := true, readSet := true, tailSet := true } ∧
    s.q.readPos = (0, 35) ∧ s.q.inuse = 2 := by decide +kernel

set_option maxRecDepth 100000 in
/-- blocking: with the consumer's session open the producer's flush reaches `pending` and then cannot commit
    (`step … false = none`) while the consumer goes on reading (it sees no event: the flush has not committed);
    after `rdone` the commit is enabled; a `rbegin` while the commit is pending is blocked -/
theorem conc_example_blocking :
    let s := CState.run exCfg (CState.init exCfg exProgP exProgC) [false, false, true, false, false]
    s.pp = .pending ∧ s.lock = { shared := 1, pending := true, reserved := true } ∧
    (s.step exCfg false).isNone = true ∧
    (CState.run exCfg s [true, true]).outC = [.ok, .size 0, .bytes []] ∧
    ((CState.run exCfg s [true, true]).step exCfg false).isNone = true ∧
    ((CState.run exCfg s [true, true, true]).step exCfg false).isSome = true ∧
    (CState.run exCfg (CState.init exCfg exProgP exProgC) [false, false, false, false]).lock.pending = true ∧
    ((CState.run exCfg (CState.init exCfg exProgP exProgC) [false, false, false, false]).step exCfg true).isNone = true := by
  decide +kernel

/-- the hypotheses of the theorems are satisfiable: a reachable state inside the contract -/
theorem conc_reach_example : CReach exCfg exProgP exProgC (CState.run exCfg (CState.init exCfg exProgP exProgC) exSchedStale) :=
  ⟨exSchedStale, rfl, conc_example_stale_plan.2.2.2.2.2.2.1⟩

end TxVerif
