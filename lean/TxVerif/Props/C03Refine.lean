/-
  C03 — commit-level refinement of the engine model to an abstract store.

  One write transaction = `beginTx`, any list of operations `EOp` (alloc / write / load / read / free /
  flush of one page / flush of any pages in any order / checkpoint), a final flush in any order that leaves
  no dirty page unflushed, and `commitAfterFlush`.  `runEOps` runs the engine and, next to it, the abstract
  store `σ : page id → Option content` which only follows the successful writes (`wr`) and allocations
  (`none` = fresh page not written yet).  Failing operations change nothing; the client only addresses
  pages it owns (`cur` = live + allocated − freed), see `EOp.step`.

  Definitions and all helper lemmas: TxVerif/Proofs/Refine.lean
    `EngInv f live`  : invariant of a committed state (allocator well-formed, overwrite mapping sane:
                       keys are owned pages, values are pairwise distinct in-use internal pages, …)
    `TxInv …`        : invariant inside a transaction,   `RunInv` = `TxInv` + "σ is what the transaction sees"

  Theorems
    c03_commit_publishes          3a+3b  successful commit: every owned page reads what σ holds
    c03_last_write(_full)         3a     explicit "last write wins"
    c03_untouched_kept            3b     explicit "untouched pages keep their content"
    c03_freed_gone                       freed pages are not owned any more
    c03_abort_restores            3d     abort at any point: all committed pages unchanged, allocator restored
    c03_failed_commit_restores    3d     failing commit (also after its checkpoint copied pages back): same
    c03_commit_invariant_partial  3c     `EngInv` again after a successful commit (overflow = false only)
    c03_history_partial                  `EngInv` along any history of such transactions
    engInv_create, examples              the invariant is satisfiable; the hypotheses are met by a concrete run

  3d and the checkpoint: `doCheckpoint` (explicit or inside a failing commit) copies an overwrite page `w`
  back to the page `k` it belongs to.  This is harmless for readers of the committed state because `k` has
  an entry in the committed mapping (it is read from `w`, not from `k`), no other owned page is mapped to
  `k` (mapping values are internal pages, never owned pages), and `w` itself is never written during the
  transaction (fresh overwrite pages are taken from the free lists).  No counterexample exists: 3d is proved.

  `FileSt.create` with `initMeta = 0` (meta end marker 0 < data end marker 2) is covered as well:
  `engInv_create_nometa` (`EngInv.ends` is `data.endMarker ≤ mta.endMarker ∨ data.endMarker ≤ 2`).
-/
import TxVerif.Proofs.Refine
namespace TxVerif

/-- the start of a write transaction on the committed state `f` whose client owns the pages `live` -/
def ERunSt.start (f : FileSt) (live : List Nat) (overflow : Bool) (growPct walLimit : Nat) : ERunSt :=
  { f, tx := f.beginTx overflow growPct walLimit, cur := live, σ := fun id => some (f.readPage id) }

theorem runInv_start (f : FileSt) (live : List Nat) (he : EngInv f live) (ov : Bool) (g wl : Nat) :
    RunInv f live (ERunSt.start f live ov g wl) :=
  ⟨txinv_begin f live he ov g wl, fun _ _ => by simp [ERunSt.start, txView, FileSt.beginTx, Assoc.get?]⟩

/-- **C03 (3a, 3b)**: a successful commit publishes exactly the abstract store of the transaction: every
    page the client owns afterwards (`cur` = live + allocated − freed) reads back the content the abstract
    store holds for it — the last write for written pages, the old committed content for untouched pages —
    whatever the order of flushes and checkpoints and however pages were redirected. -/
theorem c03_commit_publishes (f : FileSt) (live : List Nat) (he : EngInv f live) (ov : Bool) (g wl : Nat)
    (ops : List EOp) (order : List Nat) (f2 : FileSt) (tx2 : TxSt) (ws : List (Nat × Nat))
    (hflush : flushList (runEOps (ERunSt.start f live ov g wl) ops).f (runEOps (ERunSt.start f live ov g wl) ops).tx
      order = .ok (f2, tx2, ws))
    (hall : tx2.unflushed = []) (hok : (commitAfterFlush f2 tx2).2.1 = .ok) :
    ∀ id ∈ (runEOps (ERunSt.start f live ov g wl) ops).cur, ∀ c,
      (runEOps (ERunSt.start f live ov g wl) ops).σ id = some c → (commitAfterFlush f2 tx2).1.readPage id = c := by
  have hr := runinv_ops he ops _ (runInv_start f live he ov g wl)
  obtain ⟨h2, v2⟩ := txinv_flushList he order _ _ hr.tx f2 tx2 ws hflush
  intro id hid c hc
  apply (commit_data he h2 (allFlushed_of_unflushed tx2 hall)).1 hok id hid c
  rw [v2 id, ← hr.view id hid]; exact hc

/-- **C03 (3d), abort**: ending the transaction at any point without commit (after any operations, flushes
    and checkpoints) leaves every committed page as it was, restores the allocator exactly, and the
    invariant of the committed state still holds. -/
theorem c03_abort_restores (f : FileSt) (live : List Nat) (he : EngInv f live) (ov : Bool) (g wl : Nat)
    (ops : List EOp) :
    let s := runEOps (ERunSt.start f live ov g wl) ops
    EngInv (txAbort s.f s.tx) live ∧ (txAbort s.f s.tx).alloc = f.alloc ∧ (txAbort s.f s.tx).walMap = f.walMap ∧
    ∀ id ∈ live, (txAbort s.f s.tx).readPage id = f.readPage id :=
  abort_spec he (runinv_ops he ops _ (runInv_start f live he ov g wl)).tx

/-- **C03 (3d), failed commit**: if `commitAfterFlush` does not return `.ok` (out of space for the mapping
    or the free lists — possibly after the commit already ran a checkpoint that copied overwrite pages
    back), every committed page reads as before and the allocator is restored. -/
theorem c03_failed_commit_restores (f : FileSt) (live : List Nat) (he : EngInv f live) (ov : Bool) (g wl : Nat)
    (ops : List EOp) (order : List Nat) (f2 : FileSt) (tx2 : TxSt) (ws : List (Nat × Nat))
    (hflush : flushList (runEOps (ERunSt.start f live ov g wl) ops).f (runEOps (ERunSt.start f live ov g wl) ops).tx
      order = .ok (f2, tx2, ws))
    (hall : tx2.unflushed = []) (hfail : (commitAfterFlush f2 tx2).2.1 ≠ .ok) :
    EngInv (commitAfterFlush f2 tx2).1 live ∧ (commitAfterFlush f2 tx2).1.alloc = f.alloc ∧
    ∀ id ∈ live, (commitAfterFlush f2 tx2).1.readPage id = f.readPage id := by
  have hr := runinv_ops he ops _ (runInv_start f live he ov g wl)
  obtain ⟨h2, -⟩ := txinv_flushList he order _ _ hr.tx f2 tx2 ws hflush
  obtain ⟨r1, r2, -, r4⟩ := (commit_data he h2 (allFlushed_of_unflushed tx2 hall)).2 hfail
  exact ⟨r1, r2, r4⟩

/-- **C03 (3c)**, proved for transactions that do not use the overflow area (`overflow = false`):
    after a successful commit the invariant of a committed state holds again, for the pages the client
    owns now (live + allocated − freed) — so the theorems compose over histories.

    Full statement (NOT proved): the same with an arbitrary `ov : Bool` in `ERunSt.start f live ov g wl`.
    What is missing: with `ov = true` the meta area may grow past `maxPages`; `EngInv` demands
    `mta.endMarker ≤ maxPages` (field `noOv`) and `allocWF` (`data.endMarker ≤ maxPages`), and
    `fileCommitAlloc`/`releaseOverflow` can then leave `data.endMarker > maxPages` (the engine driver itself
    excludes such states from its `allocWF` check).  3a/3b/3d above do hold for `ov = true`. -/
theorem c03_commit_invariant_partial (f : FileSt) (live : List Nat) (he : EngInv f live) (g wl : Nat)
    (ops : List EOp) (order : List Nat) (f2 : FileSt) (tx2 : TxSt) (ws : List (Nat × Nat))
    (hflush : flushList (runEOps (ERunSt.start f live false g wl) ops).f
      (runEOps (ERunSt.start f live false g wl) ops).tx order = .ok (f2, tx2, ws))
    (hall : tx2.unflushed = []) (hok : (commitAfterFlush f2 tx2).2.1 = .ok) :
    EngInv (commitAfterFlush f2 tx2).1 (runEOps (ERunSt.start f live false g wl) ops).cur := by
  have hr := runinv_ops he ops _ (runInv_start f live he false g wl)
  obtain ⟨h2, -⟩ := txinv_flushList he order _ _ hr.tx f2 tx2 ws hflush
  have hov : tx2.ta.overflow = false := by
    rw [flushList_ovf order _ _ f2 tx2 ws hflush, runOps_ovf]; rfl
  exact commit_engInv he h2 (allFlushed_of_unflushed tx2 hall) hov hok


/-! ### 3a / 3b in explicit form -/

/-- **C03 (3b)**: a committed page that no operation of the transaction writes or frees keeps its content. -/
theorem c03_untouched_kept (f : FileSt) (live : List Nat) (he : EngInv f live) (ov : Bool) (g wl : Nat)
    (ops : List EOp) (order : List Nat) (f2 : FileSt) (tx2 : TxSt) (ws : List (Nat × Nat))
    (hflush : flushList (runEOps (ERunSt.start f live ov g wl) ops).f (runEOps (ERunSt.start f live ov g wl) ops).tx
      order = .ok (f2, tx2, ws))
    (hall : tx2.unflushed = []) (hok : (commitAfterFlush f2 tx2).2.1 = .ok)
    (id : Nat) (hid : id ∈ live) (hun : ∀ op ∈ ops, op.touches id = false) :
    (commitAfterFlush f2 tx2).1.readPage id = f.readPage id := by
  obtain ⟨h1, h2⟩ := runOps_untouched he ops _ (runInv_start f live he ov g wl) id hid hun
  exact c03_commit_publishes f live he ov g wl ops order f2 tx2 ws hflush hall hok id h2 _ h1

/-- **C03 (3a)**: a page whose last write in the transaction succeeded and which is not written or freed
    afterwards reads back, after the commit, what that write produced (`wr`: the full content, or the old
    content of the transaction's view with the written half replaced). -/
theorem c03_last_write (f : FileSt) (live : List Nat) (he : EngInv f live) (ov : Bool) (g wl : Nat)
    (pre post : List EOp) (id : Nat) (mode : WMode) (st : Nat) (tx' : TxSt)
    (hid : id ∈ (runEOps (ERunSt.start f live ov g wl) pre).cur)
    (hw : txWrite (runEOps (ERunSt.start f live ov g wl) pre).f (runEOps (ERunSt.start f live ov g wl) pre).tx
      id mode st = .ok tx')
    (hun : ∀ op ∈ post, op.touches id = false)
    (order : List Nat) (f2 : FileSt) (tx2 : TxSt) (ws : List (Nat × Nat))
    (hflush : flushList (runEOps (ERunSt.start f live ov g wl) (pre ++ [EOp.write id mode st] ++ post)).f
      (runEOps (ERunSt.start f live ov g wl) (pre ++ [EOp.write id mode st] ++ post)).tx order = .ok (f2, tx2, ws))
    (hall : tx2.unflushed = []) (hok : (commitAfterFlush f2 tx2).2.1 = .ok) :
    (commitAfterFlush f2 tx2).1.readPage id =
      wr mode id st (((runEOps (ERunSt.start f live ov g wl) pre).σ id).getD {}) := by
  have hr1 := runinv_ops he pre _ (runInv_start f live he ov g wl)
  obtain ⟨w1, w2⟩ := step_write_ok _ id mode st tx' hid hw
  have hr2 := runinv_step he _ (EOp.write id mode st) hr1
  obtain ⟨u1, u2⟩ := runOps_untouched he post _ hr2 id (w2 ▸ hid) hun
  have e : runEOps (ERunSt.start f live ov g wl) (pre ++ [EOp.write id mode st] ++ post) =
      runEOps ((EOp.write id mode st).step (runEOps (ERunSt.start f live ov g wl) pre)) post := by
    rw [runOps_append, runOps_append]; rfl
  apply c03_commit_publishes f live he ov g wl _ order f2 tx2 ws hflush hall hok id
  · rw [e]; exact u2
  · rw [e, u1, w1]

/-- special case: a full `SetBytes` -/
theorem c03_last_write_full (f : FileSt) (live : List Nat) (he : EngInv f live) (ov : Bool) (g wl : Nat)
    (pre post : List EOp) (id st : Nat) (tx' : TxSt)
    (hid : id ∈ (runEOps (ERunSt.start f live ov g wl) pre).cur)
    (hw : txWrite (runEOps (ERunSt.start f live ov g wl) pre).f (runEOps (ERunSt.start f live ov g wl) pre).tx
      id .full st = .ok tx')
    (hun : ∀ op ∈ post, op.touches id = false)
    (order : List Nat) (f2 : FileSt) (tx2 : TxSt) (ws : List (Nat × Nat))
    (hflush : flushList (runEOps (ERunSt.start f live ov g wl) (pre ++ [EOp.write id .full st] ++ post)).f
      (runEOps (ERunSt.start f live ov g wl) (pre ++ [EOp.write id .full st] ++ post)).tx order = .ok (f2, tx2, ws))
    (hall : tx2.unflushed = []) (hok : (commitAfterFlush f2 tx2).2.1 = .ok) :
    (commitAfterFlush f2 tx2).1.readPage id = Content.full id st :=
  c03_last_write f live he ov g wl pre post id .full st tx' hid hw hun order f2 tx2 ws hflush hall hok

/-- freed pages are gone: a page freed by the transaction (and not allocated again) is not owned afterwards -/
theorem c03_freed_gone (s : ERunSt) (id : Nat) (f' : FileSt) (tx' : TxSt) (hid : id ∈ s.cur)
    (hfree : txFree s.f s.tx id = .ok (f', tx')) : id ∉ ((EOp.free id).step s).cur := by
  simp only [EOp.step, hid, if_true, hfree]
  exact fun hc => ((mem_filter_ne _ _ _).mp hc).2 rfl

/-! ### the invariant is satisfiable -/

/-- a freshly created file with a meta area satisfies the invariant (no page is owned yet) -/
theorem engInv_create (ps mp im : Nat) (him : 0 < im) (hmp : mp = 0 ∨ 2 + im ≤ mp) :
    EngInv (FileSt.create ps mp im) [] := by
  have hne : im ≠ 0 := by omega
  unfold FileSt.create
  rw [if_neg hne]
  refine ⟨⟨asc_nil, asc_idRange _ _, (fun x hx => nomatch hx), ?_, (fun x hx => nomatch hx), by simp, hmp, ?_⟩,
    Or.inl (Nat.le_refl _), List.Pairwise.nil, (fun id hid => nomatch hid), ?_, ?_, ?_, ?_, ?_, hmp⟩
  · intro x hx
    dsimp only at hx ⊢
    rw [mem_idRange] at hx
    omega
  · simp only [length_idRange]; omega
  · intro k w hk; simp [Assoc.get?] at hk
  · intro k1 k2 w hk; simp [Assoc.get?] at hk
  · intro x hx
    simp only [FileSt.internal, List.map_nil, List.nil_append, List.mem_singleton] at hx
    subst hx
    refine ⟨Nat.le_refl _, ⟨by simp, ?_, by dsimp only; omega, Or.inl (by dsimp only; omega)⟩, by simp⟩
    dsimp only
    rw [mem_idRange]; omega
  · simp [FileSt.internal]
  · simp only [FileSt.internal, length_idRange, List.map_nil, List.nil_append, List.length_singleton]; omega

example : EngInv (FileSt.create 4096 0 4) [] := engInv_create 4096 0 4 (by decide) (Or.inl rfl)

/-- a freshly created file WITHOUT a meta area (`initMeta = 0`: data end marker 2, meta end marker 0)
    satisfies the invariant as well: `EngInv.ends` allows `data.endMarker ≤ 2` next to
    `data.endMarker ≤ mta.endMarker` (the first allocation from the end of the file raises the meta end
    marker to the data end marker, `bumpMetaEnd`) -/
theorem engInv_create_nometa (ps mp : Nat) (hmp : mp = 0 ∨ 2 ≤ mp) : EngInv (FileSt.create ps mp 0) [] := by
  unfold FileSt.create
  rw [if_pos rfl]
  refine ⟨⟨asc_nil, asc_nil, (fun x hx => nomatch hx), (fun x hx => nomatch hx), (fun x hx => nomatch hx),
      Nat.le_refl _, hmp, Nat.le_refl _⟩,
    Or.inr (Nat.le_refl _), List.Pairwise.nil, (fun id hid => nomatch hid), ?_, ?_, ?_, ?_, ?_,
    Or.inr (Nat.zero_le _)⟩
  · intro k w hk; simp [Assoc.get?] at hk
  · intro k1 k2 w hk; simp [Assoc.get?] at hk
  · intro x hx; simp [FileSt.internal] at hx
  · simp [FileSt.internal]
  · simp [FileSt.internal]

/-- every file `FileSt.create` produces (with a page limit that leaves room for it) satisfies the invariant -/
theorem engInv_create_any (ps mp im : Nat) (hmp : mp = 0 ∨ 2 + im ≤ mp) : EngInv (FileSt.create ps mp im) [] := by
  by_cases him : im = 0
  · subst him; exact engInv_create_nometa ps mp (by omega)
  · exact engInv_create ps mp im (by omega) hmp

example : EngInv (FileSt.create 4096 0 0) [] := engInv_create_nometa 4096 0 (Or.inl rfl)

/-- a committed state with two owned pages, one of them (3) redirected to the overwrite page 5 -/
def exFile : FileSt :=
  { alloc := { maxPages := 0, pageSize := 4096, data := { endMarker := 8, free := [] },
               mta := { endMarker := 8, free := [6, 7] }, metaTotal := 4, freelistPages := [2] },
    walMap := [(3, 5)], walPages := [], txid := 7,
    disk := [(3, Content.full 3 1), (4, Content.full 4 1), (5, Content.full 3 2)] }

example : exFile.readPage 3 = Content.full 3 2 ∧ exFile.readPage 4 = Content.full 4 1 := by decide

example : EngInv exFile [3, 4] := by
  refine ⟨allocWF_spec _ (by decide), by decide, ?_, ?_, ?_, ?_, ?_, by decide, by decide, by decide⟩
  · simp [AscKeys, exFile]
  · intro id hid
    simp only [List.mem_cons, List.not_mem_nil, or_false] at hid
    rcases hid with rfl | rfl <;> simp [InUse, exFile]
  · intro k w hk
    simp only [exFile, Assoc.get?_cons, Assoc.get?_nil] at hk
    split at hk
    · simp_all
    · cases hk
  · intro k1 k2 w h1 h2
    simp only [exFile, Assoc.get?_cons, Assoc.get?_nil] at h1 h2
    split at h1 <;> split at h2 <;> simp_all
  · intro x hx
    simp only [FileSt.internal, exFile, List.map_cons, List.map_nil, List.append_nil, List.cons_append,
      List.nil_append, List.mem_cons, List.not_mem_nil, or_false] at hx
    rcases hx with rfl | rfl <;> simp [InUse, exFile]
/-- the hypotheses of the theorems are met by a concrete transaction on `exFile` (write through the old
    overwrite page, partial write via a fresh overwrite page, allocation, flush of one page, checkpoint) -/
def exRun : ERunSt := runEOps (ERunSt.start exFile [3, 4] false 0 0)
  [.write 3 .full 9, .write 4 .lo 8, .alloc 1, .flushPage 4, .checkpoint, .read 3]

example :
    (match flushList exRun.f exRun.tx exRun.tx.unflushed with
     | .ok (f2, tx2, _) =>
       decide (tx2.unflushed = []) && decide ((commitAfterFlush f2 tx2).2.1 = .ok) &&
       decide ((commitAfterFlush f2 tx2).1.readPage 3 = Content.full 3 9) &&
       decide ((commitAfterFlush f2 tx2).1.readPage 4 = { lo := (4, 8), hi := (4, 1) }) &&
       decide ((commitAfterFlush f2 tx2).1.walMap = [(4, 6)]) && decide (exRun.cur = [3, 4, 8])
     | .error _ => false) = true := by decide

/-- the first transaction on a file without a meta area: the hypotheses of the theorems are met; the first
    allocation raises the meta end marker, the commit takes its free-list page from a grown meta area -/
def exRun0 : ERunSt := runEOps (ERunSt.start (FileSt.create 4096 0 0) [] false 0 0)
  [.alloc 2, .write 2 .full 1, .write 3 .lo 2]

example :
    (match flushList exRun0.f exRun0.tx exRun0.tx.unflushed with
     | .ok (f2, tx2, _) =>
       decide (tx2.unflushed = []) && decide ((commitAfterFlush f2 tx2).2.1 = .ok) &&
       decide ((commitAfterFlush f2 tx2).1.readPage 2 = Content.full 2 1) &&
       decide ((commitAfterFlush f2 tx2).1.readPage 3 = { lo := (3, 2), hi := (0, 0) }) &&
       decide (exRun0.cur = [2, 3]) &&
       decide ((commitAfterFlush f2 tx2).1.alloc.data.endMarker ≤ (commitAfterFlush f2 tx2).1.alloc.mta.endMarker)
     | .error _ => false) = true := by decide

/-! ### histories -/

/-- one write transaction of a history: its operations and the order of the final flush -/
structure Txn where
  growPct : Nat := 0
  walLimit : Nat := 0
  ops : List EOp := []
  order : List Nat := []

/-- run one transaction to its end: commit if the final flush succeeds and leaves nothing unflushed,
    rollback otherwise. Returns the committed state and the pages the client owns. -/
def runTxn (s : FileSt × List Nat) (t : Txn) : FileSt × List Nat :=
  let r := runEOps (ERunSt.start s.1 s.2 false t.growPct t.walLimit) t.ops
  match flushList r.f r.tx t.order with
  | .error _ => (txAbort r.f r.tx, s.2)
  | .ok (f2, tx2, _) =>
    if tx2.unflushed = [] then
      if (commitAfterFlush f2 tx2).2.1 = .ok then ((commitAfterFlush f2 tx2).1, r.cur)
      else ((commitAfterFlush f2 tx2).1, s.2)
    else (txAbort f2 tx2, s.2)

def runHistory (s : FileSt × List Nat) (ts : List Txn) : FileSt × List Nat := ts.foldl runTxn s

theorem runTxn_inv (s : FileSt × List Nat) (he : EngInv s.1 s.2) (t : Txn) : EngInv (runTxn s t).1 (runTxn s t).2 := by
  have hr := runinv_ops he t.ops _ (runInv_start s.1 s.2 he false t.growPct t.walLimit)
  unfold runTxn
  dsimp only
  split
  · exact (abort_spec he hr.tx).1
  · rename_i f2 tx2 ws hfl
    obtain ⟨h2, -⟩ := txinv_flushList he t.order _ _ hr.tx f2 tx2 ws hfl
    split
    · rename_i hall
      split
      · rename_i hok
        exact c03_commit_invariant_partial s.1 s.2 he t.growPct t.walLimit t.ops t.order f2 tx2 ws hfl hall hok
      · rename_i hfail
        exact ((commit_data he h2 (allFlushed_of_unflushed tx2 hall)).2 hfail).1
    · exact (abort_spec he h2).1

/-- **C03, histories** (partial in the same sense as 3c: every transaction of the history is begun with
    `overflow = false`): along any history of write transactions (committed, failed or rolled back) the
    invariant of the committed state holds, so `c03_commit_publishes` / `c03_abort_restores` /
    `c03_failed_commit_restores` apply to every transaction of the history. -/
theorem c03_history_partial (s : FileSt × List Nat) (he : EngInv s.1 s.2) (ts : List Txn) :
    EngInv (runHistory s ts).1 (runHistory s ts).2 := by
  induction ts generalizing s with
  | nil => exact he
  | cons t ts ih => exact ih (runTxn s t) (runTxn_inv s he t)

end TxVerif
