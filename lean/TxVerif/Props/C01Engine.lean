/-
  C01 for the ENGINE MODEL — the operation trace the engine model issues for any history of write
  transactions is accepted by the crash discipline `Cfg.step`; hence (`crash_recovers`) every crash image
  of every engine history recovers exactly the last committed state or the one whose header is in flight,
  with every page that state depends on intact.

  The trace (Model/EngineTrace.lean, Proofs/EngineTrace.lean):
    `EOp.trace`, `opsTrace`   writes of `Page.Flush` / `Tx.Flush` (`doFlush`: the page itself if new, a fresh
                              overwrite page, or the original page if the page was mapped) and of
                              `Tx.CheckpointWAL` (copy-backs), each with the hash of the bytes written
    `txnTraceCore`            operations, final flush, and - if nothing stays unflushed - `commitT`:
                              checkpoint copy-backs, mapping pages, free-list pages, sync, header into the
                              inactive slot with txid+1, sync.  Rolled back / failing transactions (failing
                              final flush - its writes issued before the failure stay in the trace -,
                              unflushed pages, commit out of space) leave their writes, no sync, no header.
    `TxnE`, `engTrace`        plus the optional truncate of `rollbackChanges` / of the successful commit
    `histTrace`               histories; `EngCS` = committed state + ghost data (active slot, the owned pages
                              with defined content `dfn`, the hash of the free-list pages, the file content)
    `engReach`, `histReach`   reach set of a committed state: physical pages of the defined owned pages
                              (through the mapping: overwrite pages for mapped pages) with the hash of
                              their content, mapping pages, free-list pages; state id = transaction id

  Theorems
    engine_txn_accepted      one transaction (any operations, any overflow flag, any outcome, with or
                             without the closing truncate): accepted from every configuration that
                             represents the committed state, ends in one that represents the next
    engine_history_accepted  histories
    engine_cfg_safe          the configuration of a committed state is `Safe`
    engine_crash_atomic      every prefix of the trace of every history, every crash image: recovery yields
                             the committed state or the one in flight - a state of the history -, and its
                             reach set is intact in the image
    engine_crash_reads       … so reading any defined owned page of the recovered state from the image
                             (through the recovered mapping) yields the content the model holds for it
    engine_commit_publishes  … which is what the abstract store of the committing transaction held
    engine_dfn_*, engine_crash_position, engine_crash_end, engine_crash_reads_committed
                             which pages are "defined", the crash theorem with positions (after `j` complete
                             transactions: state `j` or `j+1`, never an older one), end-to-end durability of
                             the pages a committed transaction wrote: see Props/C01EngineDfn.lean
    examples                 a 5-transaction history (alloc + overwrite with WAL + checkpoint in a commit and
                             explicit + rollback + free) is accepted; sabotaged traces are rejected

  Findings: no engine behaviour is rejected by `Cfg.step`.  The checkpoint (explicit or inside a commit,
  also a failing one) copies an overwrite page `w` back to `k`; `k` is an owned page that the committed
  state reads from `w`, so `k`'s own physical page is not in the committed reach set (`EtFree`, second
  alternative); the same holds for the flush of a mapped page, which writes to the original page.

  Not modelled (see DESIGN): failures at or after the header write (restoreMeta: Model/CrashFail*), the
  size of the file (the truncates fire or not: `TxnE.trunc` is an oracle), a failing `Tx.Flush` inside the
  operation list (a no-op in the engine model `EOp.step`, so it issues nothing here).
-/
import TxVerif.Proofs.EngineTraceF
namespace TxVerif

/-- **engine_txn_accepted** — for every committed state `e` with its invariant (`EngOk`: the engine
    invariant `EngInvO`, and the file holds what the reach set says), every configuration `c` of the
    acceptor that represents it (`EngRep`: nothing in flight, active header = that of `e`, file content once
    the pending operations are applied = that of `e`), and EVERY transaction `t` (any operation list, any
    overflow flag, any outcome, closing truncate or not): the trace of `t` is accepted by `Cfg.run`, and the
    configuration reached represents the committed state after `t`.
    `reachOf` only has to give the reach sets of the two committed states involved. -/
theorem engine_txn_accepted (reachOf : Nat → List (Nat × Hash)) (e : EngCS) (ok : EngOk e) (c : Cfg)
    (rep : EngRep e c) (t : TxnE) (h0 : reachOf e.f.txid = engReach e)
    (h1 : reachOf (engNext e t).f.txid = engReach (engNext e t)) :
    ∃ c', c.run reachOf (engTrace e t) = some c' ∧ EngRep (engNext e t) c' ∧ EngOk (engNext e t) := by
  obtain ⟨c', h, r⟩ := et_txn_accepted reachOf ok c rep t h0 h1
  exact ⟨c', h, r, engOk_next ok t⟩

/-- **engine_history_accepted** — the trace of every history of transactions, begun in the configuration
    `e0.cfg` of a committed state, is accepted under the reach sets `histReach` of the history's committed
    states; it ends in a configuration that represents the last committed state, whose invariant holds. -/
theorem engine_history_accepted (e0 : EngCS) (ok : EngOk e0) (ts : List TxnE) :
    ∃ cEnd, e0.cfg.run (histReach e0 ts) (histTrace e0 ts) = some cEnd ∧ EngRep (engRun e0 ts) cEnd ∧
      EngOk (engRun e0 ts) := by
  obtain ⟨c', h, r⟩ := et_history_accepted (histReach e0 ts) ts e0 e0.cfg ok (engRep_cfg e0) (histReach_spec ok ts)
  exact ⟨c', h, r, engOk_run ok ts⟩

/-- the same from any representing configuration and for any `reachOf` that knows the history's states -/
theorem engine_history_accepted_from (reachOf : Nat → List (Nat × Hash)) (e0 : EngCS) (ok : EngOk e0) (c : Cfg)
    (rep : EngRep e0 c) (ts : List TxnE) (hr : HistReachOK reachOf e0 ts) :
    ∃ cEnd, c.run reachOf (histTrace e0 ts) = some cEnd ∧ EngRep (engRun e0 ts) cEnd :=
  et_history_accepted reachOf ts e0 c ok rep hr

/-- `histReach` is what it should be: at the transaction id of the state after the first `k` transactions
    it is the reach set of that state -/
theorem engine_histReach (e0 : EngCS) (ok : EngOk e0) (ts : List TxnE) (k : Nat) (hk : k ≤ ts.length) :
    histReach e0 ts (engRun e0 (ts.take k)).f.txid = engReach (engRun e0 (ts.take k)) :=
  histReach_spec ok ts k hk

/-- **engine_cfg_safe** — the configuration of a committed state is a safe starting point (`Safe`) -/
theorem engine_cfg_safe (e0 : EngCS) (ok : EngOk e0) (ts : List TxnE) : Safe (histReach e0 ts) e0.cfg :=
  engCfg_safe _ ok (histReach_spec ok ts 0 (Nat.zero_le _))

/-- a committed state of the engine model (`EngInvO`) seen as a file is such a state -/
theorem engine_ofFile_ok (f : FileSt) (live : List Nat) (slot : Nat) (he : EngInvO f live) (hs : slot ≤ 1) :
    EngOk (EngCS.ofFile f live slot) := engOk_ofFile f live slot he hs

/-- **engine_crash_atomic** — run any history `ts` of transactions of the engine model from a committed
    state `e0`, stop after ANY number `k` of the operations of its trace, keep ANY subset of the operations
    issued since the last completed sync (a header write possibly torn). Then recovery selects a committed
    state of the history (the state after the first `j` transactions, identified by its transaction id):
    the committed state of the configuration at that point or - only while the header of a commit is in
    flight - the state of that commit; and every page of its reach set (physical pages of its defined owned
    pages, its mapping pages, its free-list pages) has in the image exactly the content of that state.
    Never a mixture, never an older state. -/
theorem engine_crash_atomic (e0 : EngCS) (ok : EngOk e0) (ts : List TxnE) (k : Nat) :
    ∃ ck, e0.cfg.run (histReach e0 ts) ((histTrace e0 ts).take k) = some ck ∧
      ∀ img, CrashImg ck.durable ck.pending img →
        ∃ j, j ≤ ts.length ∧ recover img = some (engRun e0 (ts.take j)).f.txid ∧
          ((engRun e0 (ts.take j)).f.txid = ck.aSt ∨ ck.inflight = some (engRun e0 (ts.take j)).f.txid) ∧
          ∀ p h, (p, h) ∈ engReach (engRun e0 (ts.take j)) → img.pages p = some h := by
  obtain ⟨cEnd, hacc, -, -⟩ := engine_history_accepted e0 ok ts
  obtain ⟨ck, hk, hcr⟩ := crash_recovers (histReach e0 ts) e0.cfg (engine_cfg_safe e0 ok ts) _ cEnd hacc k
  refine ⟨ck, hk, fun img hc => ?_⟩
  obtain ⟨st, h1, h2, h3⟩ := hcr img hc
  obtain ⟨n1, n2⟩ := run_named (histReach e0 ts) _ e0.cfg ck hk
  have hnamed : Named e0.cfg ((histTrace e0 ts).take k) st := by
    rcases h2 with h2 | h2
    · rw [h2]; exact n1
    · exact n2 st h2
  have hj : ∃ j, j ≤ ts.length ∧ st = (engRun e0 (ts.take j)).f.txid := by
    rcases hnamed with h | h | ⟨s, t, hm⟩
    · exact ⟨0, Nat.zero_le _, h⟩
    · simp [EngCS.cfg] at h
    · exact histTrace_hdr ts ok s t st (List.mem_of_mem_take hm)
  obtain ⟨j, hjl, rfl⟩ := hj
  refine ⟨j, hjl, h1, h2, fun p h hm => h3 p h ?_⟩
  rw [histReach_spec ok ts j hjl]; exact hm

/-- **engine_crash_reads** — in the situation of `engine_crash_atomic`: for the recovered state `E` (the
    state of the history after `j` transactions), reading any owned page `id` with defined content from the
    crash image - at the physical page the mapping of `E` sends it to - yields exactly the content the model
    holds for it in `E` (the content hash is injective: `contentHash_inj`); the mapping pages and free-list
    pages of `E` are intact as well (so the mapping itself is the recovered one). -/
theorem engine_crash_reads (e0 : EngCS) (ok : EngOk e0) (ts : List TxnE) (k : Nat) :
    ∃ ck, e0.cfg.run (histReach e0 ts) ((histTrace e0 ts).take k) = some ck ∧
      ∀ img, CrashImg ck.durable ck.pending img →
        ∃ j, j ≤ ts.length ∧ recover img = some (engRun e0 (ts.take j)).f.txid ∧
          (∀ id ∈ (engRun e0 (ts.take j)).dfn,
            img.pages ((engRun e0 (ts.take j)).f.physOf id) = some ((engRun e0 (ts.take j)).f.readPage id).hash ∧
            ∀ c : Content, img.pages ((engRun e0 (ts.take j)).f.physOf id) = some c.hash →
              c = (engRun e0 (ts.take j)).f.readPage id) ∧
          (∀ p ∈ (engRun e0 (ts.take j)).f.walPages, img.pages p = some (mapHash (engRun e0 (ts.take j)).f.walMap)) ∧
          (∀ p ∈ (engRun e0 (ts.take j)).f.alloc.freelistPages, img.pages p = some (engRun e0 (ts.take j)).flh) := by
  obtain ⟨ck, hk, hcr⟩ := engine_crash_atomic e0 ok ts k
  refine ⟨ck, hk, fun img hc => ?_⟩
  obtain ⟨j, hjl, h1, -, h3⟩ := hcr img hc
  refine ⟨j, hjl, h1, ?_, ?_, ?_⟩
  · intro id hid
    have := h3 _ _ ((engReach_mem _ _ _).mpr (Or.inl ⟨id, hid, rfl, rfl⟩))
    refine ⟨this, fun c hc2 => ?_⟩
    rw [this] at hc2
    exact (contentHash_inj _ _ (Option.some.inj hc2)).symm
  · intro p hp
    exact h3 _ _ ((engReach_mem _ _ _).mpr (Or.inr (Or.inl ⟨hp, rfl⟩)))
  · intro p hp
    exact h3 _ _ ((engReach_mem _ _ _).mpr (Or.inr (Or.inr ⟨hp, rfl⟩)))

/-- the order among writes that are clear of the committed state does not matter to the acceptor (the
    implementation issues the copy-backs of a checkpoint in the iteration order of a Go map, the model in the
    order of the mapping; their targets are pairwise distinct keys of the mapping): any permutation of a run
    of clear writes is accepted as well -/
theorem engine_clear_writes_any_order (reachOf : Nat → List (Nat × Hash)) (c : Cfg) (hi : c.inflight = none)
    (ws ws' : List TOp) (hp : ws.Perm ws') (hcl : ∀ op ∈ ws, ClearOf (reachOf c.aSt) op) :
    c.run reachOf ws' = some { c with pending := c.pending ++ ws' } :=
  run_clear reachOf ws' c hi (fun op hop => hcl op (hp.mem_iff.mpr hop))

/-- **engine_commit_publishes** — what the model holds for a page in a committed state produced by a
    committing transaction is what the abstract store `σ` of that transaction held for it
    (`c03o_commit_publishes` at the level of `EngCS`): together with `engine_crash_reads`, a crash image that
    recovers that state reads, for every defined owned page, the content the abstract store had at that commit. -/
theorem engine_commit_publishes (e : EngCS) (ok : EngOk e) (t : TxnE) (hc : t.t.commits (e.f, e.live)) :
    (engNext e t).live = (t.t.run (e.f, e.live)).cur ∧
    ∀ id ∈ (engNext e t).live, ∀ c, (t.t.run (e.f, e.live)).σ id = some c → (engNext e t).f.readPage id = c := by
  obtain ⟨f2, tx2, ws, hfl, hall, hok⟩ := hc
  have hrt := runTxnO_of_commits (e.f, e.live) t.t f2 tx2 ws hfl hall hok
  have hstep := engNext_of_commits e t ⟨f2, tx2, ws, hfl, hall, hok⟩
  rw [hstep]
  dsimp only
  rw [hrt]
  refine ⟨rfl, ?_⟩
  intro id hid c hcv
  exact c03o_commit_publishes e.f e.live ok.inv t.t.overflow t.t.growPct t.t.walLimit t.t.ops t.t.order f2 tx2 ws
    hfl hall hok id hid c hcv

end TxVerif

namespace TxVerif

/-! ## examples: the hypotheses are satisfiable, the acceptor accepts a real history and rejects sabotage -/

/-- a new unbounded file with 4 meta pages (pages 2..5), header slot 0 active -/
def c01E0 : EngCS := EngCS.ofFile (FileSt.create 4096 0 4) [] 0
/-- allocates 3 pages and writes them (the third only half) -/
def c01T1 : TxnE := { t := { ops := [.alloc 3, .write 6 .full 1, .write 7 .full 1, .write 8 .lo 1], order := [6, 7, 8] } }
/-- overwrites two committed pages: both go to fresh overwrite pages (WAL), one by an early `Page.Flush` -/
def c01T2 : TxnE := { t := { ops := [.write 6 .full 2, .flushPage 6, .write 7 .hi 2], order := [7] } }
/-- an explicit checkpoint (copies the two overwrite pages back) and one more overwrite; `walLimit = 1`
    makes the commit checkpoint as well; the file is truncated afterwards -/
def c01T3 : TxnE := { t := { walLimit := 1, ops := [.write 8 .full 3, .checkpoint], order := [8] }, trunc := some 0 }
/-- flushes a new and an overwritten page, then leaves a dirty page unflushed: rolled back, with the
    truncate of `rollbackChanges` -/
def c01T4 : TxnE :=
  { t := { ops := [.write 6 .full 4, .alloc 1, .write 21 .full 4, .flushAll [21, 6], .write 7 .full 4], order := [] },
    trunc := some 0 }
/-- overwrites one page, frees a mapped page -/
def c01T5 : TxnE := { t := { ops := [.write 7 .full 5, .free 8], order := [7] } }
def c01Ts : List TxnE := [c01T1, c01T2, c01T3, c01T4, c01T5]

theorem c01E0_ok : EngOk c01E0 := engine_ofFile_ok _ _ 0 (engInvO_create_any 4096 0 4 (Or.inl rfl)) (by decide)

/-- what happens in this history: commits 1, 2, 3, 5; transaction 4 is rolled back; after transaction 2 the
    pages 6 and 7 are read from the overwrite pages 2 and 3; transaction 3 checkpoints -/
example :
    c01T1.t.commitsB (c01E0.f, c01E0.live) = true ∧
    c01T4.t.commitsB ((engRun c01E0 [c01T1, c01T2, c01T3]).f, (engRun c01E0 [c01T1, c01T2, c01T3]).live) = false ∧
    (engRun c01E0 [c01T1, c01T2]).f.walMap = [(6, 2), (7, 3)] ∧ (engRun c01E0 [c01T1, c01T2]).f.walPages = [12] ∧
    (engRun c01E0 [c01T1, c01T2]).f.alloc.freelistPages = [11] ∧
    (engRun c01E0 [c01T1, c01T2, c01T3]).f.walMap = [(8, 4)] ∧
    (engRun c01E0 [c01T1, c01T2, c01T3, c01T4]).f.txid = 4 ∧ (engRun c01E0 c01Ts).f.txid = 5 ∧
    (engRun c01E0 c01Ts).live = [6, 7] ∧ (engRun c01E0 c01Ts).dfn = [6, 7] ∧
    (engRun c01E0 c01Ts).f.walMap = [(7, 5)] := by decide

/-- the trace of the second transaction: page 6 goes to the overwrite page 2, page 7 to 3, then the mapping
    page 12 and the free-list page 11, sync, header into slot 0 with txid 3, sync -/
example : engTrace (engRun c01E0 [c01T1]) c01T2 =
    [.write 2 8892, .write 3 10851, .write 12 242853718, .write 11 115095294551495138, .sync, .hdr 0 3 3, .sync] := by
  decide

/-- the third transaction: the explicit checkpoint copies 2 → 6 and 3 → 7, page 8 goes to the overwrite
    page 4, mapping page, free-list page, sync, header, sync, truncate -/
example : engTrace (engRun c01E0 [c01T1, c01T2]) c01T3 =
    [.write 6 8892, .write 7 10851, .write 4 28980, .write 10 21000313, .write 20 1020825488284997711,
     .sync, .hdr 1 4 4, .sync, .trunc 21] := by decide

/-- the rolled back transaction leaves its two flushed writes and the truncate, no sync, no header -/
example : engTrace (engRun c01E0 [c01T1, c01T2, c01T3]) c01T4 = [.write 21 651420, .write 5 21240, .trunc 21] := by
  decide

/-- **non-vacuity**: the trace of the whole history is accepted by the acceptor (computed, not by the theorem) -/
example : (c01E0.cfg.run (histReach c01E0 c01Ts) (histTrace c01E0 c01Ts)).isSome = true := by decide

/-- … as `engine_history_accepted` says for every history -/
example (ts : List TxnE) : ∃ cEnd, c01E0.cfg.run (histReach c01E0 ts) (histTrace c01E0 ts) = some cEnd ∧
    EngRep (engRun c01E0 ts) cEnd ∧ EngOk (engRun c01E0 ts) := engine_history_accepted c01E0 c01E0_ok ts

/-- **sabotage 1, header before the sync**: the first commit with the header issued before the sync -/
example : histTrace c01E0 [c01T1] =
    [.write 6 5220, .write 7 8436, .write 8 3243, .write 5 66489743344895438, .sync, .hdr 1 2 2, .sync] ∧
    (c01E0.cfg.run (histReach c01E0 [c01T1])
      [.write 6 5220, .write 7 8436, .write 8 3243, .write 5 66489743344895438, .hdr 1 2 2, .sync, .sync]).isSome = false := by
  decide

/-- **sabotage 2, overwrite in place**: the second transaction writing the new content of page 6 into page 6
    (a page of the committed state 2) instead of the overwrite page 2 -/
example :
    (c01E0.cfg.run (histReach c01E0 [c01T1, c01T2]) (histTrace c01E0 [c01T1] ++
      [.write 6 8892, .write 3 10851, .write 12 242853718, .write 11 115095294551495138, .sync, .hdr 0 3 3, .sync])).isSome
      = false ∧
    (c01E0.cfg.run (histReach c01E0 [c01T1, c01T2]) (histTrace c01E0 [c01T1] ++
      [.write 2 8892, .write 3 10851, .write 12 242853718, .write 11 115095294551495138, .sync, .hdr 0 3 3, .sync])).isSome
      = true := by decide

/-- **sabotage 3, header into the active slot / a checkpoint copy into the overwrite page's owner that is NOT
    mapped**: writing page 7's new content to page 7 while page 7 is read directly (state 4: only page 8 is
    mapped) is rejected; the header of the third commit into the active slot is rejected -/
example :
    ((engRun c01E0 [c01T1, c01T2, c01T3]).cfg.run (histReach c01E0 c01Ts) [.write 7 1]).isSome = false ∧
    ((engRun c01E0 [c01T1, c01T2, c01T3]).cfg.run (histReach c01E0 c01Ts) [.write 8 1]).isSome = true ∧
    ((engRun c01E0 [c01T1, c01T2]).cfg.run (histReach c01E0 c01Ts)
      [.write 6 8892, .write 7 10851, .write 4 28980, .write 10 21000313, .write 20 1020825488284997711,
       .sync, .hdr 0 4 4]).isSome = false := by decide

/-- a checkpoint inside a commit (`walLimit = 1`, no explicit checkpoint): the flush of page 8 goes to the
    overwrite page 4, then the commit copies 2 → 6 and 3 → 7 back, writes the mapping page, the free-list
    page, sync, header, sync -/
def c01TC : TxnE := { t := { walLimit := 1, ops := [.write 8 .full 3], order := [8] } }

example : engTrace (engRun c01E0 [c01T1, c01T2]) c01TC =
    [.write 4 28980, .write 6 8892, .write 7 10851, .write 10 21000313, .write 20 1020825488284997711,
     .sync, .hdr 1 4 4, .sync] ∧
    (c01E0.cfg.run (histReach c01E0 [c01T1, c01T2, c01TC]) (histTrace c01E0 [c01T1, c01T2, c01TC])).isSome = true := by
  decide

/-- failing transactions on a full bounded file (8 pages, see Props/C03History.lean `exFill`, `exOv`, `exNoOv`):
    * `exNoOv` (no overflow flag): the final flush fails at its second page for lack of an overwrite page;
      the write of the first page stays in the trace, nothing else;
    * a commit that checkpoints and THEN fails (no room for the new internal pages without the overflow
      flag): its flush and the two copy-backs of its checkpoint stay in the trace, then the truncate of the
      rollback; no sync, no header.
    Both traces are accepted, the committed state (transaction id 3) is still the recovered one. -/
def c01B0 : EngCS := EngCS.ofFile (FileSt.create 4096 8 2) [] 0
def c01BCk : TxnE :=
  { t := { overflow := false, walLimit := 1, ops := [.write 6 .full 7], order := [6] }, trunc := some 0 }

theorem c01B0_ok : EngOk c01B0 := engine_ofFile_ok _ _ 0 (engInvO_create_any 4096 8 2 (by decide)) (by decide)

example :
    engTrace (engRun c01B0 [{ t := exFill }]) { t := exNoOv } = [.write 2 3312] ∧
    (engRun c01B0 [{ t := exFill }, { t := exOv }]).f.walMap = [(4, 2), (5, 8)] ∧
    engTrace (engRun c01B0 [{ t := exFill }, { t := exOv }]) c01BCk =
      [.write 3 58212, .write 4 3312, .write 5 5580, .trunc 11] ∧
    c01BCk.t.commitsB ((engRun c01B0 [{ t := exFill }, { t := exOv }]).f,
      (engRun c01B0 [{ t := exFill }, { t := exOv }]).live) = false ∧
    (engRun c01B0 [{ t := exFill }, { t := exNoOv }, { t := exOv }, c01BCk]).f.txid = 3 ∧
    (c01B0.cfg.run (histReach c01B0 [{ t := exFill }, { t := exNoOv }, { t := exOv }, c01BCk])
      (histTrace c01B0 [{ t := exFill }, { t := exNoOv }, { t := exOv }, c01BCk])).isSome = true := by decide

end TxVerif
