/-
  C05 (queue is FIFO and returns exactly the bytes written), the writer side.

  For every sequence of `Write(chunk)` / `Next` / `Flush` calls on a new queue - events of any
  size written in any number of chunks, flushes at any point including in the middle of an event,
  the automatic flushes of `Write` and `Next` when the buffer is full - the pages the writer model
  (Model/PQWriter.lean, a transcription of buffer.go / writer.go) has persisted, read up to the
  persisted tail position, are `layout` of the events finished before the last effective flush.
  Together with Props/C05Layout.lean: a reader gets exactly those events, in order, byte-identical.

  Abstraction (`BufInv` in Proofs/PQWriter.lean): a writer state represents
    (persisted pages, events finished, bytes of the event in progress);
  `WState.visible` = persisted pages with the last page cut at the tail offset, `tailId - id0` =
  number of persisted events, the buffer holds the not yet released suffix of the page chain of
  all finished events followed by the pages of the event in progress (header reserved, zero).

  * `writer_persisted_prefix`   every reachable state: visible pages = layout of the first
                                `tailId - id0` finished events; tail offset
  * `writer_refines_layout`     after `Flush`: layout of all finished events
  * `writer_beyond_tail`        what the persisted pages hold beyond the tail position
  * `writer_fifo`, `writer_fifo_disk`, `writer_fifo_via`, `writer_fifo_ids`   a reader gets exactly
                                the events
  * `writer_output_events_only` the flushed output depends on the finished events only
  * `flush_mid_event_harmless`, `flush_anywhere_harmless`
  * `writer_chunking_independent`, `writer_chunks_flatten`
-/
import TxVerif.Proofs.PQWriter
namespace TxVerif

theorem finished_flush (ops : List WOp) : finished (ops ++ [.flush]) = finished ops := by
  simp [finished, ghost_append, gstep]

theorem runWriter_inv (P : Nat) (hP : 64 ≤ P) (pages id0 : Nat) (ops : List WOp) :
    BufInv (P - 28) id0 (runWriter P pages id0 ops) (ghost ops).1 (ghost ops).2 :=
  BufInv_reach (P - 28) pages id0 (by omega) ops

/-- **Every reachable state**: the persisted pages up to the tail are the layout of the first
    `tailId - id0` finished events; `tailId` never runs ahead of the finished events; `eventID`
    and `eventBytes` count the finished events / the bytes of the event in progress. -/
theorem writer_persisted_prefix (P : Nat) (hP : 64 ≤ P) (pages id0 : Nat) (ops : List WOp) :
    (runWriter P pages id0 ops).visible =
      layout P id0 ((finished ops).take ((runWriter P pages id0 ops).tailId - id0)) ∧
    id0 ≤ (runWriter P pages id0 ops).tailId ∧
    (runWriter P pages id0 ops).tailId ≤ id0 + (finished ops).length ∧
    (runWriter P pages id0 ops).eventID = id0 + (finished ops).length ∧
    (runWriter P pages id0 ops).eventBytes = (ghost ops).2.length := by
  have h := runWriter_inv P hP pages id0 ops
  exact ⟨by rw [layout_eq_layoutS]; exact h.vis, h.tail_ge, h.tail_le, h.id_eq, h.bytes_eq⟩

/-- **C05, writer side**: after a `Flush` (from any reachable state: `ops` is arbitrary) the
    persisted pages up to the tail are exactly `layout` of all finished events, and the persisted
    tail id is the id of the next event. -/
theorem writer_refines_layout (P : Nat) (hP : 64 ≤ P) (pages id0 : Nat) (ops : List WOp) :
    (runWriter P pages id0 (ops ++ [.flush])).visible = layout P id0 (finished ops) ∧
    (runWriter P pages id0 (ops ++ [.flush])).tailId = id0 + (finished ops).length := by
  have h := runWriter_inv P hP pages id0 ops
  have hf := BufInv_flush (P - 28) id0 _ _ _ h
  have e : runWriter P pages id0 (ops ++ [.flush]) = flushBuffer (P - 28) (runWriter P pages id0 ops) := by
    unfold runWriter; rw [run_append]; rfl
  rw [e]
  refine ⟨?_, hf.2⟩
  rw [hf.1.vis, hf.2, layout_eq_layoutS]
  have : id0 + (ghost ops).1.length - id0 = (ghost ops).1.length := by omega
  rw [this, List.take_length]; rfl

/-- The persisted tail offset is the end of the last visible page (0 while nothing is persisted). -/
theorem writer_tail_offset (P : Nat) (hP : 64 ≤ P) (pages id0 : Nat) (ops : List WOp) :
    ((runWriter P pages id0 ops).visible = [] ∧ (runWriter P pages id0 ops).tailOff = 0 ∧
      (runWriter P pages id0 ops).tailId = id0) ∨
    (∃ xs p, (runWriter P pages id0 ops).visible = xs ++ [p] ∧
      (runWriter P pages id0 ops).tailOff = 28 + p.payload.length ∧
      (runWriter P pages id0 ops).tailId ≠ id0) :=
  BufInv_tailOff (P - 28) id0 _ _ _ (runWriter_inv P hP pages id0 ops)

/-- What is on disk beyond the tail position: the persisted chain and the visible chain differ in
    the last page only, which on disk continues behind the tail offset (reserved header of the
    event in progress, the part of its bytes that was in that page at the flush, zeros). A reader
    stops at the tail (`tailId` events), it never looks at these bytes. -/
theorem writer_beyond_tail (s : WState) :
    (s.persisted = [] ∧ s.visible = []) ∨
    ∃ xs p, s.persisted = xs ++ [p] ∧
      s.visible = xs ++ [{ p with payload := p.payload.take (s.tailOff - 28) }] :=
  cutAt_shape s.persisted s.tailOff

/-- **C05, FIFO**: a reader over the persisted pages up to the tail gets exactly the finished
    events, in order, byte-identical (sizes = sum of the chunk sizes, bytes = the chunks
    concatenated: `finished`). -/
theorem writer_fifo (P : Nat) (hP : 64 ≤ P) (pages id0 : Nat) (ops : List WOp)
    (hsz : ∀ e ∈ finished ops, e.length < 2 ^ 32) :
    parseChain P (runWriter P pages id0 (ops ++ [.flush])).visible (finished ops).length =
      some (finished ops) := by
  rw [(writer_refines_layout P hP pages id0 ops).1]
  exact layout_roundtrip P hP id0 _ hsz

/-- the same on the pages as they are on disk (not cut at the tail): the reader, which stops
    after `tailId - id0` events, never looks at the bytes behind the tail position -/
theorem writer_fifo_disk (P : Nat) (hP : 64 ≤ P) (pages id0 : Nat) (ops : List WOp)
    (hsz : ∀ e ∈ finished ops, e.length < 2 ^ 32) :
    parseChain P (runWriter P pages id0 (ops ++ [.flush])).persisted
      ((runWriter P pages id0 (ops ++ [.flush])).tailId - id0) = some (finished ops) := by
  have e : (runWriter P pages id0 (ops ++ [.flush])).tailId - id0 = (finished ops).length := by
    rw [(writer_refines_layout P hP pages id0 ops).2]; omega
  rw [e]
  exact parseChain_mono P _ _ _ _ (cutAt_ext _ _) (writer_fifo P hP pages id0 ops hsz)

/-- the same for every consumer behaviour (per event: read to its end / skipped with `Next`) -/
theorem writer_fifo_via (P : Nat) (hP : 64 ≤ P) (pages id0 : Nat) (ops : List WOp) (modes : List Bool)
    (hm : modes.length = (finished ops).length)
    (hsz : ∀ e ∈ finished ops, e.length < 2 ^ 32) :
    parseChainVia P (runWriter P pages id0 (ops ++ [.flush])).visible modes = some (finished ops) := by
  rw [(writer_refines_layout P hP pages id0 ops).1]
  exact layout_roundtrip_via P hP id0 _ modes hm hsz

/-- the reader with event id bookkeeping (its "page start event id mismatch" check), for events of
    at least one byte (it fails on chains with empty events, see Props/C05Layout.lean) -/
theorem writer_fifo_ids (P : Nat) (hP : 64 ≤ P) (pages id0 : Nat) (ops : List WOp) (modes : List Bool)
    (hm : modes.length = (finished ops).length)
    (hsz : ∀ e ∈ finished ops, e.length < 2 ^ 32) (hpos : ∀ e ∈ finished ops, 0 < e.length) :
    parseChainIds P (runWriter P pages id0 (ops ++ [.flush])).visible modes = some (finished ops) := by
  rw [(writer_refines_layout P hP pages id0 ops).1]
  exact layout_roundtrip_ids P hP id0 _ modes hm hsz hpos

/-- The flushed output (visible pages and tail position) depends only on the finished events:
    not on how they were cut into chunks, where flushes (explicit or automatic, also with a
    different buffer size) happened, or on an unfinished event behind them. -/
theorem writer_output_events_only (P : Nat) (hP : 64 ≤ P) (pages1 pages2 id0 : Nat) (ops1 ops2 : List WOp)
    (he : finished ops1 = finished ops2) :
    (runWriter P pages1 id0 (ops1 ++ [.flush])).visible =
      (runWriter P pages2 id0 (ops2 ++ [.flush])).visible ∧
    (runWriter P pages1 id0 (ops1 ++ [.flush])).tailPos =
      (runWriter P pages2 id0 (ops2 ++ [.flush])).tailPos := by
  have h1 := runWriter_inv P hP pages1 id0 (ops1 ++ [.flush])
  have h2 := runWriter_inv P hP pages2 id0 (ops2 ++ [.flush])
  have e1 : (ghost (ops1 ++ [.flush])).1 = finished ops2 := by rw [← he]; exact finished_flush ops1
  have e2 : (ghost (ops2 ++ [.flush])).1 = finished ops2 := finished_flush ops2
  rw [e1] at h1
  rw [e2] at h2
  exact BufInv_flushed_eq (P - 28) id0 _ _ _ _ _ h1 h2
    (by rw [(writer_refines_layout P hP pages1 id0 ops1).2,
            (writer_refines_layout P hP pages2 id0 ops2).2, he])

/-- **Flush in the middle of an event is harmless**: with or without a `Flush` at any point
    (`ops1` may end inside an event) the same pages and tail position are persisted once the
    following calls `ops2` are done and flushed. -/
theorem flush_mid_event_harmless (P : Nat) (hP : 64 ≤ P) (pages id0 : Nat) (ops1 ops2 : List WOp) :
    (runWriter P pages id0 (ops1 ++ [.flush] ++ ops2 ++ [.flush])).visible =
      (runWriter P pages id0 (ops1 ++ ops2 ++ [.flush])).visible ∧
    (runWriter P pages id0 (ops1 ++ [.flush] ++ ops2 ++ [.flush])).tailPos =
      (runWriter P pages id0 (ops1 ++ ops2 ++ [.flush])).tailPos :=
  writer_output_events_only P hP pages pages id0 _ _ (by simp only [finished, ghost_flush_mid])

/-- all `Flush` calls removed: same result after the final flush -/
theorem flush_anywhere_harmless (P : Nat) (hP : 64 ≤ P) (pages id0 : Nat) (ops : List WOp) :
    (runWriter P pages id0 (ops ++ [.flush])).visible =
      (runWriter P pages id0 (dropFlushes ops ++ [.flush])).visible ∧
    (runWriter P pages id0 (ops ++ [.flush])).tailPos =
      (runWriter P pages id0 (dropFlushes ops ++ [.flush])).tailPos :=
  writer_output_events_only P hP pages pages id0 _ _ (by simp only [finished, ghost_dropFlushes])

/-- **Chunking independence**: an event (part) written as one chunk or as any number of chunks
    gives the same persisted pages and tail. -/
theorem writer_chunks_flatten (P : Nat) (hP : 64 ≤ P) (pages id0 : Nat) (ops1 ops2 : List WOp)
    (chunks : List (List UInt8)) :
    (runWriter P pages id0 (ops1 ++ chunks.map WOp.write ++ ops2 ++ [.flush])).visible =
      (runWriter P pages id0 (ops1 ++ [.write chunks.flatten] ++ ops2 ++ [.flush])).visible ∧
    (runWriter P pages id0 (ops1 ++ chunks.map WOp.write ++ ops2 ++ [.flush])).tailPos =
      (runWriter P pages id0 (ops1 ++ [.write chunks.flatten] ++ ops2 ++ [.flush])).tailPos :=
  writer_output_events_only P hP pages pages id0 _ _ (by simp only [finished, ghost_chunks])

theorem writer_chunking_independent (P : Nat) (hP : 64 ≤ P) (pages id0 : Nat) (ops1 ops2 : List WOp)
    (a b : List UInt8) :
    (runWriter P pages id0 (ops1 ++ [.write a, .write b] ++ ops2 ++ [.flush])).visible =
      (runWriter P pages id0 (ops1 ++ [.write (a ++ b)] ++ ops2 ++ [.flush])).visible ∧
    (runWriter P pages id0 (ops1 ++ [.write a, .write b] ++ ops2 ++ [.flush])).tailPos =
      (runWriter P pages id0 (ops1 ++ [.write (a ++ b)] ++ ops2 ++ [.flush])).tailPos := by
  have := writer_chunks_flatten P hP pages id0 ops1 ops2 [a, b]
  simpa using this

/-! ## concrete instances (P = 64: 36 payload bytes per page, buffer of 5 pages = 180 bytes) -/

/-- `Write` of `n` bytes `b` -/
def wrEv (n : Nat) (b : UInt8) : WOp := .write (ev n b)

-- an 80 byte event written in 3 chunks with a flush in the middle: covers 3 pages; the flush in the
-- middle persists nothing (no finished event), the final pages are `layout` of the one event
set_option maxRecDepth 100000 in
example : (runWriter 64 5 0 [wrEv 30 1, .flush, wrEv 25 1]).dump = ["tail 0:0:0"] ∧
    (runWriter 64 5 0 [wrEv 30 1, .flush, wrEv 25 1, wrEv 25 1, .next, .flush]).dump =
      ["0:0:28:36", "0:0:0:36", "0:0:0:12", "tail 2:40:1"] ∧
    (runWriter 64 5 0 [wrEv 30 1, .flush, wrEv 25 1, wrEv 25 1, .next, .flush]).visible = layout 64 0 [ev 80 1] ∧
    (runWriter 64 5 0 [wrEv 80 1, .next, .flush]).visible = layout 64 0 [ev 80 1] := by decide +kernel

-- flush in the middle of the second event: the page holding the finished event is persisted whole
-- (36 bytes: reserved header + 23 bytes of the unfinished event), the tail position (offset 37,
-- next id 1) hides them; the page is rewritten by the next flush
set_option maxRecDepth 100000 in
example : pageSummary (runWriter 64 5 0 [wrEv 5 7, .next, wrEv 40 1, .flush]).persisted = [(0, 0, 28, 36)] ∧
    (runWriter 64 5 0 [wrEv 5 7, .next, wrEv 40 1, .flush]).dump = ["0:0:28:9", "tail 0:37:1"] ∧
    (runWriter 64 5 0 [wrEv 5 7, .next, wrEv 40 1, .flush]).visible = layout 64 0 [ev 5 7] ∧
    (runWriter 64 5 0 [wrEv 5 7, .next, wrEv 40 1, .flush, wrEv 40 1, .next, .flush]).dump =
      ["0:1:28:36", "0:0:0:36", "0:0:0:21", "tail 2:49:2"] ∧
    (runWriter 64 5 0 [wrEv 5 7, .next, wrEv 40 1, .flush, wrEv 40 1, .next, .flush]).visible =
      layout 64 0 [ev 5 7, ev 80 1] := by decide +kernel

-- an event ending exactly at the page end (4 + 32 = 36): tail offset = page size; the header
-- reserved for the next event is on a new page that is not flushed before that event is finished
set_option maxRecDepth 100000 in
example : (runWriter 64 5 0 [wrEv 32 1, .next, .flush]).dump = ["0:0:28:36", "tail 0:64:1"] ∧
    (runWriter 64 5 0 [wrEv 32 1, .next, .flush, wrEv 1 2, .next, .flush]).dump =
      ["0:0:28:36", "1:1:28:5", "tail 1:33:2"] := by decide +kernel

-- events ending 3, 2, 1 bytes before the page end: the next header does not fit. Flushed alone the
-- page is not padded (tail offset 61); with the next event the rest of the page is padding
set_option maxRecDepth 100000 in
example : (runWriter 64 5 0 [wrEv 29 1, .next, .flush]).dump = ["0:0:28:33", "tail 0:61:1"] ∧
    (runWriter 64 5 0 [wrEv 29 1, .next, .flush, wrEv 1 2, .next, .flush]).dump =
      ["0:0:28:36", "1:1:28:5", "tail 1:33:2"] ∧
    (runWriter 64 5 0 [wrEv 30 1, .next, wrEv 1 2, .next, .flush]).visible = layout 64 0 [ev 30 1, ev 1 2] ∧
    (runWriter 64 5 0 [wrEv 31 1, .next, wrEv 1 2, .next, .flush]).dump =
      ["0:0:28:36", "1:1:28:5", "tail 1:33:2"] := by decide +kernel

-- 0 byte events: `Next` without a `Write` (or with empty chunks) finishes an event of size 0, a
-- header only; it gets an id and is persisted like any other event
set_option maxRecDepth 100000 in
example : (runWriter 64 5 0 [.flush]).dump = ["tail 0:0:0"] ∧
    (runWriter 64 5 0 [.next, .flush]).dump = ["0:0:28:4", "tail 0:32:1"] ∧
    finished [.next, .write [], .next, wrEv 2 3, .next] = [[], [], ev 2 3] ∧
    (runWriter 64 5 0 [.next, .write [], .next, wrEv 2 3, .next, .flush]).dump = ["0:2:28:14", "tail 0:42:3"] ∧
    parseChain 64 (runWriter 64 5 0 [.next, .write [], .next, wrEv 2 3, .next, .flush]).visible 3 =
      some [[], [], ev 2 3] := by decide +kernel

-- automatic flushes: in `Write` (avail 12 <= 20 before the last chunk) and in `Next` (avail 2 <= 4)
set_option maxRecDepth 100000 in
example : (runWriter 64 5 0 [wrEv 100 1, .next, wrEv 60 2]).dump = ["tail 0:0:0"] ∧
    (runWriter 64 5 0 [wrEv 100 1, .next, wrEv 60 2, wrEv 20 2]).dump =
      ["0:0:28:36", "0:0:0:36", "0:0:0:32", "tail 2:60:1"] ∧
    (runWriter 64 5 0 [wrEv 170 1]).avail = 6 ∧
    (runWriter 64 5 0 [wrEv 170 1, .next]).dump =
      ["0:0:28:36", "0:0:0:36", "0:0:0:36", "0:0:0:36", "0:0:0:30", "tail 4:58:1"] := by decide +kernel

end TxVerif
