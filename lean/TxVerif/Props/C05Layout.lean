/-
  C05 (queue delivers every flushed event exactly once, in order, byte-identical):
  the framing part.  What the writer lays out (`layout`, Model/PQLayout.lean) is what the reader
  parses (`parseChain` and its variants), for every page size ≥ 64, every start id and every list
  of events.

  Main results
  * `layout_roundtrip`       parseChain (consumer skips with `Next`), all sizes < 2^32
  * `layout_roundtrip_via`   every consumer behaviour (per event: read to the end / skipped)
  * `layout_roundtrip_read`  every event read to its end
  * `layout_roundtrip_ids`   reader with id bookkeeping and its invariant check, sizes ≥ 1
                             (false for empty events: see the `example` at the end)
  * `layout_pages_full`, `layout_last_le`   page fill
  * `layout_header_fields`, `IdRanges_count` header fields `first/last/off`
  * `layout_entry`           `off`/`first` of every page with a header is a valid entry point
  * `layout_page_bound`      number of pages
  * `layout_append`          writing in several rounds; a reader waiting at the tail
-/
import TxVerif.Model.PQLayout
namespace TxVerif

@[simp] theorem fresh_payload : QPage.fresh.payload = [] := rfl
@[simp] theorem fresh_off : QPage.fresh.off = 0 := rfl
@[simp] theorem fresh_first : QPage.fresh.first = 0 := rfl
@[simp] theorem fresh_last : QPage.fresh.last = 0 := rfl

theorem readData_zero (P : Nat) (pages : List QPage) (off : Nat) :
    readData P pages off 0 = some ([], pages, off) := by
  simp [readData]

/-- reading `k` bytes that lie inside the current page, then `m` more -/
theorem readData_within (P : Nat) (p : QPage) (ps : List QPage) :
    ∀ (k off m : Nat), 28 ≤ off → off + k ≤ P → off - 28 + k ≤ p.payload.length →
      readData P (p :: ps) off (k + m) =
        (readData P (p :: ps) (off + k) m).map fun r => ((p.payload.drop (off - 28)).take k ++ r.1, r.2) := by
  intro k
  induction k with
  | zero =>
    intro off m _ _ _
    simp
  | succ k ih =>
    intro off m h28 hP hlen
    have hne : ¬ (P - off = 0) := by omega
    have hlt : off - 28 < p.payload.length := by omega
    have e1 : k + 1 + m = (k + m) + 1 := by omega
    rw [e1, readData]
    simp only [hne, if_false]
    rw [List.getElem?_eq_getElem hlt]
    simp only
    rw [ih (off + 1) m (by omega) (by omega) (by omega)]
    have e2 : off + 1 - 28 = off - 28 + 1 := by omega
    have e3 : off + 1 + k = off + (k + 1) := by omega
    have e4 : List.take (k + 1) (List.drop (off - 28) p.payload)
        = p.payload[off - 28] :: List.take k (List.drop (off - 28 + 1) p.payload) := by
      rw [List.drop_eq_getElem_cons hlt, List.take_succ_cons]
    rw [e2, e3, e4]
    cases readData P (p :: ps) (off + (k + 1)) m <;> rfl

/-- page exhausted: follow the link, continue at offset 28 -/
theorem readData_advance (P : Nat) (p : QPage) (ps : List QPage) (off m : Nat)
    (h : P - off = 0) (h28 : ¬ (P - 28 = 0)) :
    readData P (p :: ps) off (m + 1) = readData P ps 28 (m + 1) := by
  rw [readData, readData]
  simp [h, h28]

/-! ## writer: shape of the produced chain -/

/-- page `h` of the final chain is a later stage of the writer's page `c`: the bytes written
    so far are still there and the `off` field, once set, is kept -/
def Ext (c h : QPage) : Prop :=
  c.payload <+: h.payload ∧ (c.off ≠ 0 → h.off = c.off ∧ h.first = c.first)

theorem Ext.refl (c : QPage) : Ext c c := ⟨List.prefix_refl _, fun _ => ⟨rfl, rfl⟩⟩

theorem Ext.trans {a b c : QPage} (h1 : Ext a b) (h2 : Ext b c) : Ext a c := by
  refine ⟨List.IsPrefix.trans h1.1 h2.1, fun h => ?_⟩
  have hb := h1.2 h
  have hc := h2.2 (by rw [hb.1]; exact h)
  exact ⟨by rw [hc.1, hb.1], by rw [hc.2, hb.2]⟩

theorem appendFuel_zero (S : Nat) (cur : QPage) (data : List UInt8) :
    appendFuel S 0 cur data = ([], cur) := rfl

theorem appendFuel_nil (S fuel : Nat) (cur : QPage) : appendFuel S fuel cur [] = ([], cur) := by
  cases fuel <;> simp [appendFuel]

theorem appendFuel_adv (S fuel : Nat) (cur : QPage) (data : List UInt8) (hd : data ≠ [])
    (h0 : S - cur.payload.length = 0) :
    appendFuel S (fuel + 1) cur data =
      (cur :: (appendFuel S fuel QPage.fresh data).1, (appendFuel S fuel QPage.fresh data).2) := by
  rw [appendFuel]; simp [hd, h0]

theorem appendFuel_copy (S fuel : Nat) (cur : QPage) (data : List UInt8) (hd : data ≠ [])
    (h0 : ¬ (S - cur.payload.length = 0)) :
    appendFuel S (fuel + 1) cur data =
      appendFuel S fuel { cur with payload := cur.payload ++ data.take (S - cur.payload.length) }
        (data.drop (S - cur.payload.length)) := by
  rw [appendFuel]; simp [hd, h0]

theorem appendFuel_len (S : Nat) : ∀ (fuel : Nat) (cur : QPage) (data : List UInt8),
    cur.payload.length ≤ S → (appendFuel S fuel cur data).2.payload.length ≤ S := by
  intro fuel
  induction fuel with
  | zero => intro cur data h; simpa [appendFuel] using h
  | succ fuel ih =>
    intro cur data h
    by_cases hd : data = []
    · subst hd; rw [appendFuel_nil]; exact h
    by_cases h0 : S - cur.payload.length = 0
    · rw [appendFuel_adv S fuel cur data hd h0]
      exact ih _ _ (by simp)
    · rw [appendFuel_copy S fuel cur data hd h0]
      apply ih
      simp only [List.length_append, List.length_take]
      omega

theorem appendFuel_full (S : Nat) : ∀ (fuel : Nat) (cur : QPage) (data : List UInt8),
    cur.payload.length ≤ S → ∀ p ∈ (appendFuel S fuel cur data).1, p.payload.length = S := by
  intro fuel
  induction fuel with
  | zero => intro cur data h p hp; simp [appendFuel] at hp
  | succ fuel ih =>
    intro cur data h p hp
    by_cases hd : data = []
    · subst hd; rw [appendFuel_nil] at hp; simp at hp
    by_cases h0 : S - cur.payload.length = 0
    · rw [appendFuel_adv S fuel cur data hd h0] at hp
      simp only [List.mem_cons] at hp
      rcases hp with rfl | hp
      · omega
      · exact ih _ _ (by simp) p hp
    · rw [appendFuel_copy S fuel cur data hd h0] at hp
      refine ih _ _ ?_ p hp
      simp only [List.length_append, List.length_take]
      omega

/-- the first page of what `Append` produces is the current page with more bytes -/
theorem appendFuel_head (S : Nat) : ∀ (fuel : Nat) (cur : QPage) (data : List UInt8) (h : QPage) (t : List QPage),
    Ext (appendFuel S fuel cur data).2 h →
    ∃ q qs, (appendFuel S fuel cur data).1 ++ h :: t = q :: qs ∧ Ext cur q := by
  intro fuel
  induction fuel with
  | zero => intro cur data h t hx; exact ⟨h, t, by simp [appendFuel], by simpa [appendFuel] using hx⟩
  | succ fuel ih =>
    intro cur data h t hx
    by_cases hd : data = []
    · subst hd; rw [appendFuel_nil] at hx ⊢; exact ⟨h, t, by simp, hx⟩
    by_cases h0 : S - cur.payload.length = 0
    · rw [appendFuel_adv S fuel cur data hd h0]
      exact ⟨cur, _, rfl, Ext.refl _⟩
    · rw [appendFuel_copy S fuel cur data hd h0] at hx ⊢
      obtain ⟨q, qs, e, hq⟩ := ih _ _ h t hx
      refine ⟨q, qs, e, Ext.trans ?_ hq⟩
      exact ⟨List.prefix_append _ _, fun _ => ⟨rfl, rfl⟩⟩

/-! ## reader meets writer: event data -/

theorem take_drop_mid (y pre x : List UInt8) :
    ((y ++ pre ++ x).drop y.length).take pre.length = pre := by
  simp

/-- the last `pre.length` bytes written to `cur` are read back from a later stage `h` of the page -/
theorem read_pre (P S : Nat) (hS : S + 28 = P) (cur h : QPage) (t : List QPage) (pre : List UInt8) (m : Nat)
    (hlen : cur.payload.length ≤ S) (hpre : pre <:+ cur.payload) (hx : cur.payload <+: h.payload) :
    readData P (h :: t) (28 + cur.payload.length - pre.length) (pre.length + m)
      = (readData P (h :: t) (28 + cur.payload.length) m).map fun r => (pre ++ r.1, r.2) := by
  obtain ⟨y, hy⟩ := hpre
  obtain ⟨x, hx⟩ := hx
  have hl : cur.payload.length = y.length + pre.length := by rw [← hy]; simp
  have hl2 : h.payload.length = y.length + pre.length + x.length := by rw [← hx, ← hy]; simp only [List.length_append]
  rw [readData_within P h t pre.length _ m (by omega) (by omega) (by omega)]
  have e1 : 28 + cur.payload.length - pre.length + pre.length = 28 + cur.payload.length := by omega
  have e2 : 28 + cur.payload.length - pre.length - 28 = y.length := by omega
  rw [e1, e2, ← hx, ← hy, take_drop_mid]

theorem read_appendFuel (P S : Nat) (hS : S + 28 = P) (hS1 : 1 ≤ S) :
    ∀ (fuel : Nat) (cur : QPage) (data pre : List UInt8) (h : QPage) (t : List QPage),
      cur.payload.length ≤ S →
      2 * data.length + (if S ≤ cur.payload.length then 1 else 0) ≤ fuel →
      pre <:+ cur.payload →
      (appendFuel S fuel cur data).2.payload <+: h.payload →
      readData P ((appendFuel S fuel cur data).1 ++ h :: t)
          (28 + cur.payload.length - pre.length) (pre.length + data.length)
        = some (pre ++ data, h :: t, 28 + (appendFuel S fuel cur data).2.payload.length) := by
  have hnil : ∀ (fuel : Nat) (cur : QPage) (pre : List UInt8) (h : QPage) (t : List QPage),
      cur.payload.length ≤ S → pre <:+ cur.payload →
      (appendFuel S fuel cur []).2.payload <+: h.payload →
      readData P ((appendFuel S fuel cur []).1 ++ h :: t)
          (28 + cur.payload.length - pre.length) (pre.length + ([] : List UInt8).length)
        = some (pre ++ [], h :: t, 28 + (appendFuel S fuel cur []).2.payload.length) := by
    intro fuel cur pre h t hlen hpre hx
    rw [appendFuel_nil] at hx ⊢
    simp only [List.nil_append, List.length_nil]
    rw [read_pre P S hS cur h t pre 0 hlen hpre hx, readData_zero]
    rfl
  intro fuel
  induction fuel with
  | zero =>
    intro cur data pre h t hlen hfuel hpre hx
    have hd : data = [] := by
      cases data with
      | nil => rfl
      | cons a l => simp at hfuel
    subst hd
    exact hnil 0 cur pre h t hlen hpre hx
  | succ fuel ih =>
    intro cur data pre h t hlen hfuel hpre hx
    by_cases hd : data = []
    · subst hd
      exact hnil _ cur pre h t hlen hpre hx
    have hdl : 1 ≤ data.length := by
      cases data with
      | nil => exact absurd rfl hd
      | cons a l => simp
    by_cases h0 : S - cur.payload.length = 0
    · rw [appendFuel_adv S fuel cur data hd h0] at hx ⊢
      have hfull : cur.payload.length = S := by omega
      simp only [List.cons_append]
      rw [read_pre P S hS cur cur _ pre data.length hlen hpre (List.prefix_refl _)]
      obtain ⟨m, hm⟩ : ∃ m, data.length = m + 1 := ⟨data.length - 1, by omega⟩
      have hih := ih QPage.fresh data [] h t (by simp)
        (by rw [fresh_payload, List.length_nil, if_neg (by omega)]; rw [if_pos (by omega)] at hfuel; omega)
        List.nil_suffix hx
      simp only [fresh_payload, List.length_nil, Nat.add_zero, Nat.sub_zero, Nat.zero_add, List.nil_append] at hih
      rw [hm] at hih ⊢
      rw [readData_advance P cur _ _ m (by omega) (by omega), hih]
      rfl
    · rw [appendFuel_copy S fuel cur data hd h0] at hx ⊢
      have hpre' : (pre ++ data.take (S - cur.payload.length)) <:+
          (cur.payload ++ data.take (S - cur.payload.length)) := by
        obtain ⟨y, hy⟩ := hpre
        exact ⟨y, by rw [← hy, List.append_assoc]⟩
      have hple : pre.length ≤ cur.payload.length := hpre.length_le
      have hih := ih { cur with payload := cur.payload ++ data.take (S - cur.payload.length) }
        (data.drop (S - cur.payload.length)) (pre ++ data.take (S - cur.payload.length)) h t
        (by simp only [List.length_append, List.length_take]; omega)
        (by
          simp only [List.length_append, List.length_take, List.length_drop]
          rw [if_neg (by omega)] at hfuel
          split <;> omega)
        hpre' hx
      simp only [List.length_append, List.length_take, List.length_drop, List.append_assoc,
        List.take_append_drop] at hih
      have e1 : 28 + (cur.payload.length + min (S - cur.payload.length) data.length)
          - (pre.length + min (S - cur.payload.length) data.length)
          = 28 + cur.payload.length - pre.length := by omega
      have e2 : pre.length + min (S - cur.payload.length) data.length
          + (data.length - (S - cur.payload.length)) = pre.length + data.length := by omega
      rw [e1, e2] at hih
      exact hih

theorem appendData_len (S : Nat) (cur : QPage) (data : List UInt8) (h : cur.payload.length ≤ S) :
    (appendData S cur data).2.payload.length ≤ S := appendFuel_len S _ cur data h

theorem appendData_full (S : Nat) (cur : QPage) (data : List UInt8) (h : cur.payload.length ≤ S) :
    ∀ p ∈ (appendData S cur data).1, p.payload.length = S := appendFuel_full S _ cur data h

theorem appendData_head (S : Nat) (cur : QPage) (data : List UInt8) (h : QPage) (t : List QPage)
    (hx : Ext (appendData S cur data).2 h) :
    ∃ q qs, (appendData S cur data).1 ++ h :: t = q :: qs ∧ Ext cur q :=
  appendFuel_head S _ cur data h t hx

theorem read_appendData (P S : Nat) (hS : S + 28 = P) (hS1 : 1 ≤ S) (cur : QPage) (data : List UInt8)
    (h : QPage) (t : List QPage) (hlen : cur.payload.length ≤ S)
    (hx : (appendData S cur data).2.payload <+: h.payload) :
    readData P ((appendData S cur data).1 ++ h :: t) (28 + cur.payload.length) data.length
      = some (data, h :: t, 28 + (appendData S cur data).2.payload.length) := by
  have := read_appendFuel P S hS hS1 (2 * data.length + 1) cur data [] h t hlen
    (by split <;> omega) List.nil_suffix hx
  simpa [appendData] using this

/-! ## reader meets writer: one event -/

theorem reserveHdr_pad (S : Nat) (cur : QPage) (h4 : S - cur.payload.length < 4) :
    reserveHdr S cur =
      ([{ cur with payload := cur.payload ++ List.replicate (S - cur.payload.length) 0 }], QPage.fresh) := by
  simp [reserveHdr, h4]

theorem reserveHdr_nopad (S : Nat) (cur : QPage) (h4 : ¬ (S - cur.payload.length < 4)) :
    reserveHdr S cur = ([], cur) := by
  simp [reserveHdr, h4]

theorem writeEvent_pad (S : Nat) (cur : QPage) (id : Nat) (e : List UInt8) (h4 : S - cur.payload.length < 4) :
    writeEvent S cur id e =
      ({ cur with payload := cur.payload ++ List.replicate (S - cur.payload.length) 0 } ::
          (appendData S (commitHdr QPage.fresh id e.length) e).1,
        (appendData S (commitHdr QPage.fresh id e.length) e).2) := by
  simp [writeEvent, reserveHdr_pad S cur h4]

theorem writeEvent_nopad (S : Nat) (cur : QPage) (id : Nat) (e : List UInt8) (h4 : ¬ (S - cur.payload.length < 4)) :
    writeEvent S cur id e = appendData S (commitHdr cur id e.length) e := by
  simp [writeEvent, reserveHdr_nopad S cur h4]

@[simp] theorem commitHdr_payload (c : QPage) (id sz : Nat) :
    (commitHdr c id sz).payload = c.payload ++ le32 sz := rfl

theorem commitHdr_off_ne (c : QPage) (id sz : Nat) : (commitHdr c id sz).off ≠ 0 := by
  simp only [commitHdr]; split <;> omega

theorem commitHdr_off_fresh (id sz : Nat) : (commitHdr QPage.fresh id sz).off = 28 := by
  simp [commitHdr]

theorem Ext_commitHdr (c : QPage) (id sz : Nat) : Ext c (commitHdr c id sz) := by
  refine ⟨List.prefix_append _ _, fun h => ?_⟩
  simp [commitHdr, h]

theorem le32_length (v : Nat) : (le32 v).length = 4 := by simp [le32]

theorem leDec_le32 (v : Nat) (h : v < 2 ^ 32) : leDec (le32 v) = v :=
  leDec_leEnc 4 v (by have : (256 : Nat) ^ 4 = 2 ^ 32 := by decide
                      omega)

/-- the event header written behind the bytes of `c` is found by `ReadEventHeader` -/
theorem readEventAt_written (P : Nat) (c q : QPage) (qs : List QPage) (sz : Nat) (hsz : sz < 2 ^ 32)
    (hx : c.payload ++ le32 sz <+: q.payload) :
    readEventAt P (q :: qs) (28 + c.payload.length) = readData P (q :: qs) (28 + c.payload.length + 4) sz := by
  obtain ⟨x, hx⟩ := hx
  have e : (q.payload.drop (28 + c.payload.length - 28)).take 4 = le32 sz := by
    have e1 : 28 + c.payload.length - 28 = c.payload.length := by omega
    rw [e1, ← hx]
    have := take_drop_mid c.payload (le32 sz) x
    rwa [le32_length] at this
  simp only [readEventAt, e, le32_length, if_true, leDec_le32 sz hsz]

theorem writeEvent_len (S : Nat) (h4 : 4 ≤ S) (cur : QPage) (id : Nat) (e : List UInt8)
    (hlen : cur.payload.length ≤ S) : (writeEvent S cur id e).2.payload.length ≤ S := by
  by_cases hp : S - cur.payload.length < 4
  · rw [writeEvent_pad S cur id e hp]
    exact appendData_len S _ e (by simp [le32_length]; omega)
  · rw [writeEvent_nopad S cur id e hp]
    exact appendData_len S _ e (by simp [le32_length]; omega)

theorem writeEvent_full (S : Nat) (h4 : 4 ≤ S) (cur : QPage) (id : Nat) (e : List UInt8)
    (hlen : cur.payload.length ≤ S) : ∀ p ∈ (writeEvent S cur id e).1, p.payload.length = S := by
  intro p hp'
  by_cases hp : S - cur.payload.length < 4
  · rw [writeEvent_pad S cur id e hp] at hp'
    simp only [List.mem_cons] at hp'
    rcases hp' with rfl | hp'
    · simp; omega
    · exact appendData_full S _ e (by simp [le32_length]; omega) p hp'
  · rw [writeEvent_nopad S cur id e hp] at hp'
    exact appendData_full S _ e (by simp [le32_length]; omega) p hp'

/-- first page of the chain produced for one event -/
theorem writeEvent_head (S : Nat) (cur : QPage) (id : Nat) (e : List UInt8) (h : QPage) (t : List QPage)
    (hx : Ext (writeEvent S cur id e).2 h) :
    ∃ q qs, (writeEvent S cur id e).1 ++ h :: t = q :: qs ∧ Ext cur q ∧
      (¬ (S - cur.payload.length < 4) → Ext (commitHdr cur id e.length) q) := by
  by_cases hp : S - cur.payload.length < 4
  · rw [writeEvent_pad S cur id e hp]
    refine ⟨_, _, rfl, ⟨List.prefix_append _ _, fun _ => ⟨rfl, rfl⟩⟩, fun h => absurd hp h⟩
  · rw [writeEvent_nopad S cur id e hp] at hx ⊢
    obtain ⟨q, qs, e1, hq⟩ := appendData_head S _ e h t hx
    exact ⟨q, qs, e1, Ext.trans (Ext_commitHdr cur id e.length) hq, fun _ => hq⟩

theorem readEvent_writeEvent (P S : Nat) (hS : S + 28 = P) (h4 : 4 ≤ S) (cur : QPage) (id : Nat)
    (e : List UInt8) (h : QPage) (t : List QPage) (hlen : cur.payload.length ≤ S) (hsz : e.length < 2 ^ 32)
    (hx : Ext (writeEvent S cur id e).2 h) :
    readEvent P ((writeEvent S cur id e).1 ++ h :: t) (28 + cur.payload.length)
      = some (e, h :: t, 28 + (writeEvent S cur id e).2.payload.length) := by
  by_cases hp : S - cur.payload.length < 4
  · -- padding: the header is the first thing in the next page
    rw [writeEvent_pad S cur id e hp] at hx ⊢
    obtain ⟨q, qs, e1, hq⟩ := appendData_head S _ e h t hx
    have hqoff : q.off = 28 := by
      rw [(hq.2 (commitHdr_off_ne _ _ _)).1, commitHdr_off_fresh]
    have hpos : nextHdrPos P (({ cur with payload := cur.payload ++ List.replicate (S - cur.payload.length) 0 } ::
        (appendData S (commitHdr QPage.fresh id e.length) e).1) ++ h :: t) (28 + cur.payload.length)
        = some (q :: qs, 28) := by
      have : P - (28 + cur.payload.length) < 4 := by omega
      simp [nextHdrPos, this, e1, hqoff]
    simp only [readEvent, hpos, Option.bind_some]
    have hw := readEventAt_written P QPage.fresh q qs e.length hsz (by simpa using hq.1)
    simp only [fresh_payload, List.length_nil, Nat.add_zero] at hw
    rw [hw, ← e1]
    have hr := read_appendData P S hS (by omega) (commitHdr QPage.fresh id e.length) e h t
      (by simp [le32_length]; omega) hx.1
    simpa [le32_length] using hr
  · rw [writeEvent_nopad S cur id e hp] at hx ⊢
    obtain ⟨q, qs, e1, hq⟩ := appendData_head S _ e h t hx
    have hpos : nextHdrPos P ((appendData S (commitHdr cur id e.length) e).1 ++ h :: t) (28 + cur.payload.length)
        = some (q :: qs, 28 + cur.payload.length) := by
      have : ¬ (P - (28 + cur.payload.length) < 4) := by omega
      simp [nextHdrPos, this, e1]
    simp only [readEvent, hpos, Option.bind_some]
    have hw := readEventAt_written P cur q qs e.length hsz (by simpa using hq.1)
    rw [hw, ← e1]
    have hr := read_appendData P S hS (by omega) (commitHdr cur id e.length) e h t
      (by simp [le32_length]; omega) hx.1
    simpa [le32_length, Nat.add_assoc] using hr

/-! ## reader meets writer: the chain -/

theorem layoutFrom_nil (S : Nat) (cur : QPage) (id : Nat) : layoutFrom S cur id [] = [cur] := rfl

theorem layoutFrom_cons (S : Nat) (cur : QPage) (id : Nat) (e : List UInt8) (es : List (List UInt8)) :
    layoutFrom S cur id (e :: es) =
      (writeEvent S cur id e).1 ++ layoutFrom S (writeEvent S cur id e).2 (id + 1) es := rfl

/-- the chain starts with (a later stage of) the current page -/
theorem layoutFrom_head (S : Nat) : ∀ (evs : List (List UInt8)) (cur : QPage) (id : Nat),
    ∃ h t, layoutFrom S cur id evs = h :: t ∧ Ext cur h := by
  intro evs
  induction evs with
  | nil => intro cur id; exact ⟨cur, [], rfl, Ext.refl _⟩
  | cons e es ih =>
    intro cur id
    obtain ⟨h, t, e1, hx⟩ := ih (writeEvent S cur id e).2 (id + 1)
    obtain ⟨q, qs, e2, hq, _⟩ := writeEvent_head S cur id e h t hx
    exact ⟨q, qs, by rw [layoutFrom_cons, e1, e2], hq⟩

theorem parseFrom_zero (P : Nat) (pages : List QPage) (off : Nat) : parseFrom P pages off 0 = some [] := by
  simp [parseFrom]

theorem parseFrom_layoutFrom (P S : Nat) (hS : S + 28 = P) (h4 : 4 ≤ S) :
    ∀ (evs : List (List UInt8)) (cur : QPage) (id : Nat), cur.payload.length ≤ S →
      (∀ e ∈ evs, e.length < 2 ^ 32) →
      parseFrom P (layoutFrom S cur id evs) (28 + cur.payload.length) evs.length = some evs := by
  intro evs
  induction evs with
  | nil => intro cur id _ _; exact parseFrom_zero _ _ _
  | cons e es ih =>
    intro cur id hlen hsz
    obtain ⟨h, t, e1, hx⟩ := layoutFrom_head S es (writeEvent S cur id e).2 (id + 1)
    have hre := readEvent_writeEvent P S hS h4 cur id e h t hlen (hsz e (by simp)) hx
    have hih := ih (writeEvent S cur id e).2 (id + 1) (writeEvent_len S h4 cur id e hlen)
      (fun e' he' => hsz e' (by simp [he']))
    rw [layoutFrom_cons, e1, List.length_cons, parseFrom, hre]
    simp only
    rw [← e1, hih]
    rfl

/-- **Round trip**: what the writer lays out is what the reader parses. -/
theorem layout_roundtrip (P : Nat) (hP : 64 ≤ P) (id0 : Nat) (evs : List (List UInt8))
    (hsz : ∀ e ∈ evs, e.length < 2^32) :
    parseChain P (layout P id0 evs) evs.length = some evs := by
  cases evs with
  | nil => simp [layout, parseChain]
  | cons e es =>
    have hS : (P - 28) + 28 = P := by omega
    have h4 : 4 ≤ P - 28 := by omega
    have hmain := parseFrom_layoutFrom P (P - 28) hS h4 (e :: es) QPage.fresh id0 (by simp) hsz
    -- the first page carries `off = 28`
    obtain ⟨h, t, e1, hx⟩ := layoutFrom_head (P - 28) es (writeEvent (P - 28) QPage.fresh id0 e).2 (id0 + 1)
    obtain ⟨q, qs, e2, _, hq⟩ := writeEvent_head (P - 28) QPage.fresh id0 e h t hx
    have hqoff : q.off = 28 := by
      have := hq (by simp; omega)
      rw [(this.2 (commitHdr_off_ne _ _ _)).1, commitHdr_off_fresh]
    have e3 : layoutFrom (P - 28) QPage.fresh id0 (e :: es) = q :: qs := by
      rw [layoutFrom_cons, e1, e2]
    have e4 : layout P id0 (e :: es) = q :: qs := by
      simp [layout, pqHdr, e3]
    rw [e3] at hmain
    rw [e4]
    simp only [parseChain, hqoff]
    simpa using hmain

/-! ## companion facts about `layout` -/

theorem layoutFrom_ne_nil (S : Nat) (evs : List (List UInt8)) (cur : QPage) (id : Nat) :
    layoutFrom S cur id evs ≠ [] := by
  obtain ⟨h, t, e, _⟩ := layoutFrom_head S evs cur id
  rw [e]; exact List.cons_ne_nil _ _

theorem getLast?_append_ne {α : Type} (l l' : List α) (h : l' ≠ []) : (l ++ l').getLast? = l'.getLast? := by
  rw [List.getLast?_append, List.getLast?_eq_some_getLast h]; simp

theorem layoutFrom_full (S : Nat) (h4 : 4 ≤ S) : ∀ (evs : List (List UInt8)) (cur : QPage) (id : Nat),
    cur.payload.length ≤ S →
    (∀ p ∈ (layoutFrom S cur id evs).dropLast, p.payload.length = S) ∧
    (∀ p ∈ (layoutFrom S cur id evs).getLast?, p.payload.length ≤ S) := by
  intro evs
  induction evs with
  | nil => intro cur id h; simpa [layoutFrom_nil] using h
  | cons e es ih =>
    intro cur id hlen
    have hne := layoutFrom_ne_nil S es (writeEvent S cur id e).2 (id + 1)
    have hih := ih (writeEvent S cur id e).2 (id + 1) (writeEvent_len S h4 cur id e hlen)
    rw [layoutFrom_cons, List.dropLast_append_of_ne_nil hne, getLast?_append_ne _ _ hne]
    refine ⟨fun p hp => ?_, hih.2⟩
    rcases List.mem_append.mp hp with hp | hp
    · exact writeEvent_full S h4 cur id e hlen p hp
    · exact hih.1 p hp

/-- every page except possibly the last one is full -/
theorem layout_pages_full (P : Nat) (hP : 64 ≤ P) (id0 : Nat) (evs : List (List UInt8)) :
    ∀ p ∈ (layout P id0 evs).dropLast, p.payload.length = P - 28 := by
  intro p hp
  cases evs with
  | nil => simp [layout] at hp
  | cons e es =>
    have : layout P id0 (e :: es) = layoutFrom (P - 28) QPage.fresh id0 (e :: es) := by simp [layout, pqHdr]
    rw [this] at hp
    exact (layoutFrom_full (P - 28) (by omega) (e :: es) QPage.fresh id0 (by simp)).1 p hp

/-- the last page holds at most a page full of bytes -/
theorem layout_last_le (P : Nat) (hP : 64 ≤ P) (id0 : Nat) (evs : List (List UInt8)) :
    ∀ p ∈ (layout P id0 evs).getLast?, p.payload.length ≤ P - 28 := by
  intro p hp
  cases evs with
  | nil => simp [layout] at hp
  | cons e es =>
    have : layout P id0 (e :: es) = layoutFrom (P - 28) QPage.fresh id0 (e :: es) := by simp [layout, pqHdr]
    rw [this] at hp
    exact (layoutFrom_full (P - 28) (by omega) (e :: es) QPage.fresh id0 (by simp)).2 p hp

/-! ### header fields -/

/-- header fields of one page: either no event header starts in the page (all fields zero) or
    `off` points at 4 bytes inside the written part of the payload and `first ≤ last` -/
def PgOK (p : QPage) : Prop :=
  (p.off = 0 ∧ p.first = 0 ∧ p.last = 0) ∨
  (28 ≤ p.off ∧ p.off + 4 ≤ 28 + p.payload.length ∧ p.first ≤ p.last)

/-- `IdRanges a pages b`: skipping the pages without event header (`off = 0`), the id ranges
    `[first, last]` of the pages are non-empty, consecutive, start with `a` and end with `b - 1` -/
def IdRanges : Nat → List QPage → Nat → Prop
  | a, [], b => a = b
  | a, p :: ps, b =>
    if p.off = 0 then IdRanges a ps b
    else p.first = a ∧ p.first ≤ p.last ∧ IdRanges (p.last + 1) ps b

theorem IdRanges_append : ∀ (xs ys : List QPage) (a m b : Nat),
    IdRanges a xs m → IdRanges m ys b → IdRanges a (xs ++ ys) b := by
  intro xs
  induction xs with
  | nil => intro ys a m b h1 h2; simp only [IdRanges] at h1; subst h1; simpa using h2
  | cons x xs ih =>
    intro ys a m b h1 h2
    simp only [IdRanges, List.cons_append] at h1 ⊢
    split
    · rename_i h0; rw [if_pos h0] at h1; exact ih ys a m b h1 h2
    · rename_i h0; rw [if_neg h0] at h1
      exact ⟨h1.1, h1.2.1, ih ys _ m b h1.2.2 h2⟩

/-- the ranges `[first, last]` of the pages with an event header account for exactly `b - a` ids -/
theorem IdRanges_count : ∀ (pages : List QPage) (a b : Nat), IdRanges a pages b →
    a ≤ b ∧ ((pages.filter fun p => p.off ≠ 0).map fun p => p.last + 1 - p.first).sum = b - a := by
  intro pages
  induction pages with
  | nil => intro a b h; simp only [IdRanges] at h; subst h; simp
  | cons x xs ih =>
    intro a b h
    simp only [IdRanges] at h
    by_cases h0 : x.off = 0
    · rw [if_pos h0] at h
      have := ih a b h
      simpa [List.filter_cons, h0] using this
    · rw [if_neg h0] at h
      obtain ⟨h1, h2, h3⟩ := h
      have := ih _ b h3
      simp only [List.filter_cons, h0, ne_eq, not_false_eq_true, decide_true, if_true, List.map_cons,
        List.sum_cons]
      simp only [ne_eq] at this
      omega

/-- writer invariant between events: `id` is the id of the next event -/
def WInv (S : Nat) (cur : QPage) (id : Nat) : Prop :=
  cur.payload.length ≤ S ∧ PgOK cur ∧ (cur.off ≠ 0 → cur.last + 1 = id)

/-- first id not yet accounted for by the completed pages -/
def startId (cur : QPage) (id : Nat) : Nat := if cur.off = 0 then id else cur.first

theorem WInv_fresh (S id : Nat) : WInv S QPage.fresh id :=
  ⟨by simp, Or.inl ⟨rfl, rfl, rfl⟩, fun h => absurd rfl h⟩

theorem IdRanges_emit (S : Nat) (cur : QPage) (id : Nat) (rest : List QPage) (b : Nat)
    (hinv : WInv S cur id) (h : IdRanges id rest b) : IdRanges (startId cur id) (cur :: rest) b := by
  simp only [IdRanges, startId]
  split
  · exact h
  · rename_i h0
    rcases hinv.2.1 with ⟨hz, _⟩ | ⟨_, _, hfl⟩
    · exact absurd hz h0
    · refine ⟨rfl, hfl, ?_⟩
      rw [hinv.2.2 h0]; exact h

theorem appendFuel_ids (S : Nat) : ∀ (fuel : Nat) (cur : QPage) (data : List UInt8) (id : Nat),
    WInv S cur id →
    WInv S (appendFuel S fuel cur data).2 id ∧
    IdRanges (startId cur id) (appendFuel S fuel cur data).1 (startId (appendFuel S fuel cur data).2 id) ∧
    ∀ p ∈ (appendFuel S fuel cur data).1, PgOK p := by
  intro fuel
  induction fuel with
  | zero => intro cur data id h; simp [appendFuel_zero, IdRanges, h]
  | succ fuel ih =>
    intro cur data id h
    by_cases hd : data = []
    · subst hd; simp [appendFuel_nil, IdRanges, h]
    by_cases h0 : S - cur.payload.length = 0
    · rw [appendFuel_adv S fuel cur data hd h0]
      obtain ⟨i1, i2, i3⟩ := ih QPage.fresh data id (WInv_fresh S id)
      refine ⟨i1, ?_, ?_⟩
      · have : startId QPage.fresh id = id := by simp [startId]
        rw [this] at i2
        exact IdRanges_emit S cur id _ _ h i2
      · intro p hp
        simp only [List.mem_cons] at hp
        rcases hp with rfl | hp
        · exact h.2.1
        · exact i3 p hp
    · rw [appendFuel_copy S fuel cur data hd h0]
      have hinv' : WInv S { cur with payload := cur.payload ++ data.take (S - cur.payload.length) } id := by
        refine ⟨?_, ?_, h.2.2⟩
        · simp only [List.length_append, List.length_take]; omega
        · rcases h.2.1 with hz | ⟨a, b, c⟩
          · exact Or.inl hz
          · refine Or.inr ⟨a, ?_, c⟩
            simp only [List.length_append]; omega
      exact ih _ _ id hinv'

theorem reserveHdr_ids (S : Nat) (h4 : 4 ≤ S) (cur : QPage) (id : Nat) (h : WInv S cur id) :
    WInv S (reserveHdr S cur).2 id ∧ ¬ (S - (reserveHdr S cur).2.payload.length < 4) ∧
    IdRanges (startId cur id) (reserveHdr S cur).1 (startId (reserveHdr S cur).2 id) ∧
    ∀ p ∈ (reserveHdr S cur).1, PgOK p := by
  by_cases hp : S - cur.payload.length < 4
  · rw [reserveHdr_pad S cur hp]
    refine ⟨WInv_fresh S id, by simp; omega, ?_, ?_⟩
    · have hinv' : WInv S { cur with payload := cur.payload ++ List.replicate (S - cur.payload.length) 0 } id := by
        refine ⟨?_, ?_, h.2.2⟩
        · simp only [List.length_append, List.length_replicate]; have := h.1; omega
        · rcases h.2.1 with hz | ⟨a, b, c⟩
          · exact Or.inl hz
          · refine Or.inr ⟨a, ?_, c⟩
            simp only [List.length_append]; omega
      have := IdRanges_emit S _ id [] id hinv' (by simp [IdRanges])
      simpa [startId] using this
    · intro p hp'
      simp only [List.mem_singleton] at hp'
      subst hp'
      rcases h.2.1 with hz | ⟨a, b, c⟩
      · exact Or.inl hz
      · refine Or.inr ⟨a, ?_, c⟩
        simp only [List.length_append]; omega
  · rw [reserveHdr_nopad S cur hp]
    exact ⟨h, hp, by simp [IdRanges], by simp⟩

theorem commitHdr_ids (S : Nat) (c : QPage) (id sz : Nat) (h : WInv S c id)
    (hroom : ¬ (S - c.payload.length < 4)) :
    WInv S (commitHdr c id sz) (id + 1) ∧ startId (commitHdr c id sz) (id + 1) = startId c id := by
  have hne := commitHdr_off_ne c id sz
  refine ⟨⟨by simp [le32_length]; omega, ?_, fun _ => rfl⟩, ?_⟩
  · refine Or.inr ?_
    simp only [commitHdr, List.length_append, le32_length]
    by_cases h0 : c.off = 0
    · simp only [h0, if_true]; omega
    · simp only [h0, if_false]
      rcases h.2.1 with hz | ⟨a, b, d⟩
      · exact absurd hz.1 h0
      · have := h.2.2 h0; omega
  · simp only [startId, if_neg hne]
    simp only [commitHdr]

theorem writeEvent_ids (S : Nat) (h4 : 4 ≤ S) (cur : QPage) (id : Nat) (e : List UInt8) (h : WInv S cur id) :
    WInv S (writeEvent S cur id e).2 (id + 1) ∧
    IdRanges (startId cur id) (writeEvent S cur id e).1 (startId (writeEvent S cur id e).2 (id + 1)) ∧
    ∀ p ∈ (writeEvent S cur id e).1, PgOK p := by
  obtain ⟨r1, r2, r3, r4⟩ := reserveHdr_ids S h4 cur id h
  obtain ⟨c1, c2⟩ := commitHdr_ids S (reserveHdr S cur).2 id e.length r1 r2
  obtain ⟨a1, a2, a3⟩ := appendFuel_ids S (2 * e.length + 1) _ e (id + 1) c1
  rw [c2] at a2
  refine ⟨a1, IdRanges_append _ _ _ _ _ r3 a2, ?_⟩
  intro p hp
  rcases List.mem_append.mp hp with hp | hp
  · exact r4 p hp
  · exact a3 p hp

theorem layoutFrom_ids (S : Nat) (h4 : 4 ≤ S) : ∀ (evs : List (List UInt8)) (cur : QPage) (id : Nat),
    WInv S cur id →
    IdRanges (startId cur id) (layoutFrom S cur id evs) (id + evs.length) ∧
    ∀ p ∈ layoutFrom S cur id evs, PgOK p := by
  intro evs
  induction evs with
  | nil =>
    intro cur id h
    rw [layoutFrom_nil]
    refine ⟨IdRanges_emit S cur id [] _ h (by simp [IdRanges]), ?_⟩
    intro p hp
    simp only [List.mem_singleton] at hp
    subst hp
    exact h.2.1
  | cons e es ih =>
    intro cur id h
    obtain ⟨w1, w2, w3⟩ := writeEvent_ids S h4 cur id e h
    obtain ⟨i1, i2⟩ := ih _ (id + 1) w1
    rw [layoutFrom_cons]
    refine ⟨IdRanges_append _ _ _ _ _ w2 ?_, ?_⟩
    · have : id + (e :: es).length = id + 1 + es.length := by simp; omega
      rw [this]; exact i1
    · intro p hp
      rcases List.mem_append.mp hp with hp | hp
      · exact w3 p hp
      · exact i2 p hp

theorem mem_dropLast_or_getLast {α : Type} (l : List α) (a : α) (h : a ∈ l) :
    a ∈ l.dropLast ∨ a ∈ l.getLast? := by
  have hne : l ≠ [] := List.ne_nil_of_mem h
  rw [← List.dropLast_concat_getLast hne] at h
  rcases List.mem_append.mp h with h | h
  · exact Or.inl h
  · right
    simp only [List.mem_singleton] at h
    rw [List.getLast?_eq_some_getLast hne, h]
    rfl

/-- Header fields of the pages the writer produces.
    * a page in which no event header starts has `first = last = off = 0`; otherwise `off` is the
      page offset of 4 bytes inside the written payload (`28 ≤ off`, `off + 4 ≤ P`) and `first ≤ last`;
    * the id ranges of the pages with headers are consecutive and cover exactly
      `id0 … id0 + evs.length - 1` (`IdRanges`). -/
theorem layout_header_fields (P : Nat) (hP : 64 ≤ P) (id0 : Nat) (evs : List (List UInt8)) :
    (∀ p ∈ layout P id0 evs,
        (p.off = 0 ∧ p.first = 0 ∧ p.last = 0) ∨
        (28 ≤ p.off ∧ p.off + 4 ≤ 28 + p.payload.length ∧ p.off + 4 ≤ P ∧ p.first ≤ p.last)) ∧
    IdRanges id0 (layout P id0 evs) (id0 + evs.length) := by
  cases evs with
  | nil => simp [layout, IdRanges]
  | cons e es =>
    have e0 : layout P id0 (e :: es) = layoutFrom (P - 28) QPage.fresh id0 (e :: es) := by simp [layout, pqHdr]
    obtain ⟨i1, i2⟩ := layoutFrom_ids (P - 28) (by omega) (e :: es) QPage.fresh id0 (WInv_fresh _ _)
    have hf := layoutFrom_full (P - 28) (by omega) (e :: es) QPage.fresh id0 (by simp)
    rw [e0]
    refine ⟨fun p hp => ?_, by simpa [startId] using i1⟩
    have hl : p.payload.length ≤ P - 28 := by
      rcases mem_dropLast_or_getLast _ p hp with h | h
      · rw [hf.1 p h]; exact Nat.le_refl _
      · exact hf.2 p h
    rcases i2 p hp with hz | ⟨a, b, c⟩
    · exact Or.inl hz
    · exact Or.inr ⟨a, b, by omega, c⟩

/-! ### number of pages -/

/-- bytes of the framed events: 4 byte header + data each -/
def framedBytes (evs : List (List UInt8)) : Nat := (evs.map fun e => 4 + e.length).sum

theorem appendFuel_count (S K : Nat) (hK : K ≤ S) : ∀ (fuel : Nat) (cur : QPage) (data : List UInt8),
    cur.payload.length ≤ S →
    (appendFuel S fuel cur data).1.length * K + (appendFuel S fuel cur data).2.payload.length
      ≤ cur.payload.length + data.length := by
  intro fuel
  induction fuel with
  | zero => intro cur data _; simp [appendFuel_zero]
  | succ fuel ih =>
    intro cur data hlen
    by_cases hd : data = []
    · subst hd; simp [appendFuel_nil]
    by_cases h0 : S - cur.payload.length = 0
    · rw [appendFuel_adv S fuel cur data hd h0]
      have := ih QPage.fresh data (by simp)
      simp only [fresh_payload, List.length_nil, Nat.zero_add] at this
      simp only [List.length_cons, Nat.succ_mul]
      omega
    · rw [appendFuel_copy S fuel cur data hd h0]
      have := ih { cur with payload := cur.payload ++ data.take (S - cur.payload.length) }
        (data.drop (S - cur.payload.length))
        (by simp only [List.length_append, List.length_take]; omega)
      simp only [List.length_append, List.length_take, List.length_drop] at this
      omega

theorem writeEvent_count (S : Nat) (h4 : 4 ≤ S) (cur : QPage) (id : Nat) (e : List UInt8)
    (hlen : cur.payload.length ≤ S) :
    (writeEvent S cur id e).1.length * (S - 3) + (writeEvent S cur id e).2.payload.length
      ≤ cur.payload.length + (4 + e.length) := by
  by_cases hp : S - cur.payload.length < 4
  · rw [writeEvent_pad S cur id e hp]
    have := appendFuel_count S (S - 3) (by omega) (2 * e.length + 1) (commitHdr QPage.fresh id e.length) e
      (by simp [le32_length]; omega)
    simp only [commitHdr_payload, fresh_payload, List.nil_append, le32_length] at this
    simp only [List.length_cons, Nat.succ_mul]
    simp only [appendData]
    omega
  · rw [writeEvent_nopad S cur id e hp]
    have := appendFuel_count S (S - 3) (by omega) (2 * e.length + 1) (commitHdr cur id e.length) e
      (by simp [le32_length]; omega)
    simp only [commitHdr_payload, List.length_append, le32_length] at this
    simp only [appendData]
    omega

theorem layoutFrom_count (S : Nat) (h4 : 4 ≤ S) : ∀ (evs : List (List UInt8)) (cur : QPage) (id : Nat),
    cur.payload.length ≤ S →
    (layoutFrom S cur id evs).length * (S - 3) ≤ cur.payload.length + framedBytes evs + (S - 3) := by
  intro evs
  induction evs with
  | nil => intro cur id _; simp [layoutFrom_nil]
  | cons e es ih =>
    intro cur id hlen
    have h1 := writeEvent_count S h4 cur id e hlen
    have h2 := ih (writeEvent S cur id e).2 (id + 1) (writeEvent_len S h4 cur id e hlen)
    rw [layoutFrom_cons, List.length_append, Nat.add_mul]
    have : framedBytes (e :: es) = (4 + e.length) + framedBytes es := by simp [framedBytes]
    rw [this]
    omega

/-- number of pages is at most (total bytes incl. 4-byte headers) / (P-28-3) + 1:
    every page but the last carries at least `P - 28 - 3` bytes of framed events -/
theorem layout_page_bound (P : Nat) (hP : 64 ≤ P) (id0 : Nat) (evs : List (List UInt8)) :
    (layout P id0 evs).length ≤ (evs.map fun e => 4 + e.length).sum / (P - 28 - 3) + 1 := by
  cases evs with
  | nil => simp [layout]
  | cons e es =>
    have e0 : layout P id0 (e :: es) = layoutFrom (P - 28) QPage.fresh id0 (e :: es) := by simp [layout, pqHdr]
    have h := layoutFrom_count (P - 28) (by omega) (e :: es) QPage.fresh id0 (by simp)
    rw [e0]
    simp only [fresh_payload, List.length_nil, Nat.zero_add, framedBytes] at h
    generalize (layoutFrom (P - 28) QPage.fresh id0 (e :: es)).length = n at h ⊢
    generalize (List.map (fun e => 4 + e.length) (e :: es)).sum = T at h ⊢
    have hK : 0 < P - 28 - 3 := by omega
    generalize P - 28 - 3 = K at h hK ⊢
    cases n with
    | zero => exact Nat.zero_le _
    | succ n =>
      rw [Nat.succ_mul] at h
      have : n ≤ T / K := (Nat.le_div_iff_mul_le hK).mpr (by omega)
      omega

/-! ## the consumer dependent reader -/

/-- behind a page without room for a header the next page starts with a header (`off = 28`),
    so it does not matter whether `readInto` (offset 28) or `Next` (`off` field) leaves the page -/
theorem readEvent_settle (P S : Nat) (hS : S + 28 = P) (h4 : 4 ≤ S) (cur : QPage) (id : Nat)
    (e : List UInt8) (es : List (List UInt8)) (hlen : cur.payload.length ≤ S) :
    readEvent P (settle P (layoutFrom S cur id (e :: es)) (28 + cur.payload.length)).1
        (settle P (layoutFrom S cur id (e :: es)) (28 + cur.payload.length)).2
      = readEvent P (layoutFrom S cur id (e :: es)) (28 + cur.payload.length) := by
  by_cases hp : S - cur.payload.length < 4
  · obtain ⟨h, t, e1, hx⟩ := layoutFrom_head S es (writeEvent S cur id e).2 (id + 1)
    rw [layoutFrom_cons, e1]
    rw [writeEvent_pad S cur id e hp] at hx ⊢
    obtain ⟨q, qs, e2, hq⟩ := appendData_head S _ e h t hx
    have hqoff : q.off = 28 := by
      rw [(hq.2 (commitHdr_off_ne _ _ _)).1, commitHdr_off_fresh]
    have hP : P - (28 + cur.payload.length) < 4 := by omega
    have hP2 : ¬ (P - 28 < 4) := by omega
    simp only [List.cons_append, e2]
    simp [settle, readEvent, nextHdrPos, hP, hP2, hqoff]
  · have hP : ¬ (P - (28 + cur.payload.length) < 4) := by omega
    simp [settle, hP]

theorem parseFromVia_layoutFrom (P S : Nat) (hS : S + 28 = P) (h4 : 4 ≤ S) :
    ∀ (evs : List (List UInt8)) (modes : List Bool) (cur : QPage) (id : Nat), cur.payload.length ≤ S →
      modes.length = evs.length →
      (∀ e ∈ evs, e.length < 2 ^ 32) →
      parseFromVia P (layoutFrom S cur id evs) (28 + cur.payload.length) modes = some evs := by
  intro evs
  induction evs with
  | nil =>
    intro modes cur id _ hm _
    have : modes = [] := List.eq_nil_of_length_eq_zero hm
    subst this
    simp [parseFromVia]
  | cons e es ih =>
    intro modes cur id hlen hm hsz
    cases modes with
    | nil => simp at hm
    | cons m ms =>
      have hm' : ms.length = es.length := by simpa using hm
      obtain ⟨h, t, e1, hx⟩ := layoutFrom_head S es (writeEvent S cur id e).2 (id + 1)
      have hre := readEvent_writeEvent P S hS h4 cur id e h t hlen (hsz e (by simp)) hx
      have hlen' := writeEvent_len S h4 cur id e hlen
      have hih := ih ms (writeEvent S cur id e).2 (id + 1) hlen' hm' (fun e' he' => hsz e' (by simp [he']))
      rw [layoutFrom_cons, e1, parseFromVia, readEventVia, hre]
      simp only [Option.map_some]
      rw [← e1]
      split
      · -- read to the end: `settle`
        cases es with
        | nil =>
          have : ms = [] := List.eq_nil_of_length_eq_zero hm'
          subst this
          simp [parseFromVia]
        | cons e' es' =>
          cases ms with
          | nil => simp at hm'
          | cons m' ms' =>
            rw [parseFromVia, readEventVia, readEvent_settle P S hS h4 _ _ e' es' hlen']
            rw [parseFromVia, readEventVia] at hih
            rw [hih]
            rfl
      · rw [hih]; rfl

/-- **Round trip** for every consumer behaviour (each event either read to its end or skipped by `Next`). -/
theorem layout_roundtrip_via (P : Nat) (hP : 64 ≤ P) (id0 : Nat) (evs : List (List UInt8)) (modes : List Bool)
    (hm : modes.length = evs.length) (hsz : ∀ e ∈ evs, e.length < 2^32) :
    parseChainVia P (layout P id0 evs) modes = some evs := by
  cases evs with
  | nil =>
    have : modes = [] := List.eq_nil_of_length_eq_zero hm
    subst this
    simp [layout, parseChainVia]
  | cons e es =>
    have hS : (P - 28) + 28 = P := by omega
    have h4 : 4 ≤ P - 28 := by omega
    have hmain := parseFromVia_layoutFrom P (P - 28) hS h4 (e :: es) modes QPage.fresh id0 (by simp) hm hsz
    obtain ⟨h, t, e1, hx⟩ := layoutFrom_head (P - 28) es (writeEvent (P - 28) QPage.fresh id0 e).2 (id0 + 1)
    obtain ⟨q, qs, e2, _, hq⟩ := writeEvent_head (P - 28) QPage.fresh id0 e h t hx
    have hqoff : q.off = 28 := by
      have := hq (by simp; omega)
      rw [(this.2 (commitHdr_off_ne _ _ _)).1, commitHdr_off_fresh]
    have e3 : layoutFrom (P - 28) QPage.fresh id0 (e :: es) = q :: qs := by
      rw [layoutFrom_cons, e1, e2]
    have e4 : layout P id0 (e :: es) = q :: qs := by
      simp [layout, pqHdr, e3]
    rw [e3] at hmain
    rw [e4]
    simp only [parseChainVia, hqoff]
    simpa using hmain

/-- **Round trip** when every event is read to its end. -/
theorem layout_roundtrip_read (P : Nat) (hP : 64 ≤ P) (id0 : Nat) (evs : List (List UInt8))
    (hsz : ∀ e ∈ evs, e.length < 2^32) :
    parseChainRead P (layout P id0 evs) evs.length = some evs :=
  layout_roundtrip_via P hP id0 evs _ (by simp) hsz

theorem parseFromVia_false (P : Nat) : ∀ (n : Nat) (pages : List QPage) (off : Nat),
    parseFromVia P pages off (List.replicate n false) = parseFrom P pages off n := by
  intro n
  induction n with
  | zero => intro pages off; simp [parseFromVia, parseFrom]
  | succ n ih =>
    intro pages off
    rw [List.replicate_succ, parseFromVia, parseFrom, readEventVia]
    cases readEvent P pages off with
    | none => rfl
    | some r => simp [ih]

/-- `parseChain` is the consumer that never reads an event to its end -/
theorem parseChain_eq_via (P : Nat) (pages : List QPage) (n : Nat) :
    parseChain P pages n = parseChainVia P pages (List.replicate n false) := by
  cases pages with
  | nil => cases n <;> simp [parseChain, parseChainVia, List.replicate_succ]
  | cons p ps => simp [parseChain, parseChainVia, parseFromVia_false]

/-! ## writing in several rounds (flushes), reader waiting at the tail -/

theorem layoutFrom_eq_writeEvents (S : Nat) : ∀ (evs : List (List UInt8)) (cur : QPage) (id : Nat),
    layoutFrom S cur id evs = (writeEvents S cur id evs).1 ++ [(writeEvents S cur id evs).2] := by
  intro evs
  induction evs with
  | nil => intro cur id; rfl
  | cons e es ih =>
    intro cur id
    rw [layoutFrom_cons, ih]
    simp [writeEvents]

theorem layoutFrom_append (S : Nat) : ∀ (pre suf : List (List UInt8)) (cur : QPage) (id : Nat),
    layoutFrom S cur id (pre ++ suf) =
      (writeEvents S cur id pre).1 ++
        layoutFrom S (writeEvents S cur id pre).2 (id + pre.length) suf := by
  intro pre
  induction pre with
  | nil => intro suf cur id; simp [writeEvents]
  | cons e es ih =>
    intro suf cur id
    rw [List.cons_append, layoutFrom_cons, ih]
    have : id + 1 + es.length = id + (e :: es).length := by simp; omega
    simp [writeEvents, this]

theorem writeEvents_len (S : Nat) (h4 : 4 ≤ S) : ∀ (evs : List (List UInt8)) (cur : QPage) (id : Nat),
    cur.payload.length ≤ S → (writeEvents S cur id evs).2.payload.length ≤ S := by
  intro evs
  induction evs with
  | nil => intro cur id h; exact h
  | cons e es ih =>
    intro cur id h
    exact ih _ _ (writeEvent_len S h4 cur id e h)

/-- Writing `pre` and later `suf` (e.g. two flushes): the chain written for `pre` is `done ++ [last]`
    with tail position `(last, 28 + last.payload.length)`. Appending `suf` keeps `done`, replaces
    `last` by a page `h` that extends it (same bytes, more behind them; `off`/`first` kept once set)
    and adds pages behind it; a reader waiting at the old tail position reads exactly `suf`. -/
theorem layout_append (P : Nat) (hP : 64 ≤ P) (id0 : Nat) (pre suf : List (List UInt8)) (hne : pre ≠ [])
    (hsz : ∀ e ∈ suf, e.length < 2^32) :
    ∃ (done : List QPage) (last h : QPage) (t : List QPage),
      layout P id0 pre = done ++ [last] ∧
      layout P id0 (pre ++ suf) = done ++ h :: t ∧
      last.payload <+: h.payload ∧ (last.off ≠ 0 → h.off = last.off ∧ h.first = last.first) ∧
      (suf = [] → h = last ∧ t = []) ∧
      parseFrom P (h :: t) (28 + last.payload.length) suf.length = some suf := by
  have hS : (P - 28) + 28 = P := by omega
  have h4 : 4 ≤ P - 28 := by omega
  have e1 : layout P id0 pre = layoutFrom (P - 28) QPage.fresh id0 pre := by
    cases pre with
    | nil => exact absurd rfl hne
    | cons a l => simp [layout, pqHdr]
  have e2 : layout P id0 (pre ++ suf) = layoutFrom (P - 28) QPage.fresh id0 (pre ++ suf) := by
    cases pre with
    | nil => exact absurd rfl hne
    | cons a l => simp [layout, pqHdr]
  obtain ⟨h, t, e3, hx⟩ := layoutFrom_head (P - 28) suf (writeEvents (P - 28) QPage.fresh id0 pre).2 (id0 + pre.length)
  refine ⟨(writeEvents (P - 28) QPage.fresh id0 pre).1, (writeEvents (P - 28) QPage.fresh id0 pre).2, h, t, ?_, ?_, hx.1, hx.2, ?_, ?_⟩
  · rw [e1, layoutFrom_eq_writeEvents]
  · rw [e2, layoutFrom_append, e3]
  · intro hs
    subst hs
    rw [layoutFrom_nil] at e3
    simp only [List.cons.injEq] at e3
    exact ⟨e3.1.symm, e3.2.symm⟩
  · rw [← e3]
    exact parseFrom_layoutFrom P (P - 28) hS h4 suf _ _ (writeEvents_len (P - 28) h4 pre _ _ (by simp)) hsz

/-! ## entry points: the `off`/`first` fields of every page -/

/-- `Append` does not touch header fields: the first page keeps those of the current page,
    all pages started by `Append` have none -/
theorem appendFuel_offs (S : Nat) : ∀ (fuel : Nat) (cur : QPage) (data : List UInt8) (k : Nat) (p : QPage),
    ((appendFuel S fuel cur data).1 ++ [(appendFuel S fuel cur data).2])[k]? = some p →
    (k = 0 ∧ p.off = cur.off ∧ p.first = cur.first) ∨ (1 ≤ k ∧ p.off = 0) := by
  intro fuel
  induction fuel with
  | zero =>
    intro cur data k p h
    rw [appendFuel_zero] at h
    cases k with
    | zero => simp at h; subst h; exact Or.inl ⟨rfl, rfl, rfl⟩
    | succ k => simp at h
  | succ fuel ih =>
    intro cur data k p h
    by_cases hd : data = []
    · subst hd
      rw [appendFuel_nil] at h
      cases k with
      | zero => simp at h; subst h; exact Or.inl ⟨rfl, rfl, rfl⟩
      | succ k => simp at h
    by_cases h0 : S - cur.payload.length = 0
    · rw [appendFuel_adv S fuel cur data hd h0] at h
      cases k with
      | zero => simp at h; subst h; exact Or.inl ⟨rfl, rfl, rfl⟩
      | succ k =>
        simp only [List.cons_append, List.getElem?_cons_succ] at h
        rcases ih QPage.fresh data k p h with ⟨_, h2, _⟩ | ⟨_, h2⟩
        · exact Or.inr ⟨by omega, by rw [h2]; rfl⟩
        · exact Or.inr ⟨by omega, h2⟩
    · rw [appendFuel_copy S fuel cur data hd h0] at h
      exact ih { cur with payload := cur.payload ++ data.take (S - cur.payload.length) } _ k p h

/-- the only page that gets its `off`/`first` set by an event is the one with the header -/
theorem writeEvent_offs (S : Nat) (cur : QPage) (id : Nat) (e : List UInt8) (k : Nat) (p : QPage)
    (h : ((writeEvent S cur id e).1 ++ [(writeEvent S cur id e).2])[k]? = some p)
    (hoff : p.off ≠ 0) (hk : k = 0 → cur.off = 0) :
    p.first = id ∧
    ((S - cur.payload.length < 4 ∧ k = 1 ∧ p.off = 28) ∨
     (¬ (S - cur.payload.length < 4) ∧ k = 0 ∧ p.off = 28 + cur.payload.length)) := by
  by_cases hp : S - cur.payload.length < 4
  · rw [writeEvent_pad S cur id e hp] at h
    cases k with
    | zero =>
      simp at h
      subst h
      exact absurd (hk rfl) hoff
    | succ k =>
      simp only [List.cons_append, List.getElem?_cons_succ] at h
      rcases appendFuel_offs S _ _ e k p h with ⟨h1, h2, h3⟩ | ⟨_, h2⟩
      · subst h1
        rw [commitHdr_off_fresh] at h2
        exact ⟨by rw [h3]; simp [commitHdr], Or.inl ⟨hp, rfl, h2⟩⟩
      · exact absurd h2 hoff
  · rw [writeEvent_nopad S cur id e hp] at h
    rcases appendFuel_offs S _ _ e k p h with ⟨h1, h2, h3⟩ | ⟨_, h2⟩
    · have hc := hk h1
      refine ⟨by rw [h3]; simp [commitHdr, hc], Or.inr ⟨hp, h1, ?_⟩⟩
      rw [h2]; simp [commitHdr, hc]
    · exact absurd h2 hoff

theorem parseFrom_skip_pad (P : Nat) (p0 q : QPage) (qs : List QPage) (off n : Nat)
    (h1 : P - off < 4) (h2 : ¬ (P - 28 < 4)) (hq : q.off = 28) :
    parseFrom P (p0 :: q :: qs) off (n + 1) = parseFrom P (q :: qs) 28 (n + 1) := by
  have : readEvent P (p0 :: q :: qs) off = readEvent P (q :: qs) 28 := by
    simp [readEvent, nextHdrPos, h1, h2, hq]
  rw [parseFrom, parseFrom, this]

theorem entry_layoutFrom (P S : Nat) (hS : S + 28 = P) (h4 : 4 ≤ S) :
    ∀ (evs : List (List UInt8)) (cur : QPage) (id : Nat), cur.payload.length ≤ S →
      (∀ e ∈ evs, e.length < 2 ^ 32) →
      ∀ (k : Nat) (p : QPage), (layoutFrom S cur id evs)[k]? = some p → p.off ≠ 0 →
        (k = 0 → cur.off = 0) →
        id ≤ p.first ∧ p.first - id < evs.length ∧
        parseFrom P ((layoutFrom S cur id evs).drop k) p.off (evs.length - (p.first - id))
          = some (evs.drop (p.first - id)) := by
  intro evs
  induction evs with
  | nil =>
    intro cur id _ _ k p h hoff hk
    rw [layoutFrom_nil] at h
    cases k with
    | zero => simp at h; subst h; exact absurd (hk rfl) hoff
    | succ k => simp at h
  | cons e es ih =>
    intro cur id hlen hsz k p h hoff hk
    have hmain := parseFrom_layoutFrom P S hS h4 (e :: es) cur id hlen hsz
    have hlen' := writeEvent_len S h4 cur id e hlen
    have hsz' : ∀ e' ∈ es, e'.length < 2 ^ 32 := fun e' he' => hsz e' (by simp [he'])
    obtain ⟨hd, tl, e1, hx⟩ := layoutFrom_head S es (writeEvent S cur id e).2 (id + 1)
    -- case (A): `p` is the page holding the header of `e`
    have caseA : ∀ p' : QPage, ((writeEvent S cur id e).1 ++ [(writeEvent S cur id e).2])[k]? = some p' →
        p'.off = p.off → p'.first = p.first →
        id ≤ p.first ∧ p.first - id < (e :: es).length ∧
        parseFrom P ((layoutFrom S cur id (e :: es)).drop k) p.off ((e :: es).length - (p.first - id))
          = some ((e :: es).drop (p.first - id)) := by
      intro p' hp' ho hf
      obtain ⟨w1, w2⟩ := writeEvent_offs S cur id e k p' hp' (by rw [ho]; exact hoff) hk
      have hfirst : p.first = id := by rw [← hf]; exact w1
      have e0 : p.first - id = 0 := by omega
      refine ⟨by omega, by simp; omega, ?_⟩
      rw [e0, Nat.sub_zero, List.drop_zero]
      rcases w2 with ⟨hp, hk1, ho'⟩ | ⟨hp, hk0, ho'⟩
      · subst hk1
        have hpo : p.off = 28 := by rw [← ho]; exact ho'
        rw [hpo]
        -- the chain is `padded :: p :: …`
        generalize hL : layoutFrom S cur id (e :: es) = L at hmain h
        match L, h with
        | p0 :: q :: qs, h =>
          simp at h
          subst h
          rw [List.length_cons, parseFrom_skip_pad P p0 q qs _ _ (by omega) (by omega) hpo] at hmain
          simpa using hmain
      · subst hk0
        have hpo : p.off = 28 + cur.payload.length := by rw [← ho]; exact ho'
        rw [hpo, List.drop_zero]
        exact hmain
    rw [layoutFrom_cons] at h
    by_cases hlt : k < (writeEvent S cur id e).1.length
    · rw [List.getElem?_append_left hlt] at h
      exact caseA p (by rw [List.getElem?_append_left hlt]; exact h) rfl rfl
    · have hle : (writeEvent S cur id e).1.length ≤ k := by omega
      rw [List.getElem?_append_right hle] at h
      by_cases hA : k = (writeEvent S cur id e).1.length ∧ (writeEvent S cur id e).2.off ≠ 0
      · obtain ⟨hk', hc3⟩ := hA
        have hp : p = hd := by
          rw [e1, hk', Nat.sub_self] at h
          simpa using h.symm
        have hxe := hx.2 hc3
        refine caseA (writeEvent S cur id e).2 ?_ (by rw [hp, hxe.1]) (by rw [hp, hxe.2])
        rw [List.getElem?_append_right hle, hk', Nat.sub_self]
        rfl
      · -- case (B): a page of the rest of the chain
        have hk'' : k - (writeEvent S cur id e).1.length = 0 → (writeEvent S cur id e).2.off = 0 := by
          intro hz
          have : k = (writeEvent S cur id e).1.length := by omega
          exact Decidable.byContradiction fun hne => hA ⟨this, hne⟩
        obtain ⟨i1, i2, i3⟩ := ih (writeEvent S cur id e).2 (id + 1) hlen' hsz' _ p h hoff hk''
        refine ⟨by omega, by simp; omega, ?_⟩
        rw [layoutFrom_cons, List.drop_append, List.drop_eq_nil_of_le hle, List.nil_append]
        have e2 : (e :: es).length - (p.first - id) = es.length - (p.first - (id + 1)) := by simp; omega
        have e3 : p.first - id = (p.first - (id + 1)) + 1 := by omega
        rw [e2, e3, List.drop_succ_cons]
        exact i3

/-- **Entry points.** For every page of the chain in which an event header starts (`off ≠ 0`):
    `first` is the id of one of the events, and a reader that enters the chain at this page at
    offset `off` delivers exactly the events `first, first + 1, …` up to the last one.
    (With `k = 0` this is `layout_roundtrip`.) -/
theorem layout_entry (P : Nat) (hP : 64 ≤ P) (id0 : Nat) (evs : List (List UInt8))
    (hsz : ∀ e ∈ evs, e.length < 2^32) (k : Nat) (p : QPage)
    (hk : (layout P id0 evs)[k]? = some p) (hoff : p.off ≠ 0) :
    id0 ≤ p.first ∧ p.first < id0 + evs.length ∧
    parseChain P ((layout P id0 evs).drop k) (id0 + evs.length - p.first) = some (evs.drop (p.first - id0)) := by
  cases evs with
  | nil => simp [layout] at hk
  | cons e es =>
    have e0 : layout P id0 (e :: es) = layoutFrom (P - 28) QPage.fresh id0 (e :: es) := by simp [layout, pqHdr]
    rw [e0] at hk ⊢
    obtain ⟨h1, h2, h3⟩ := entry_layoutFrom P (P - 28) (by omega) (by omega) (e :: es) QPage.fresh id0 (by simp) hsz
      k p hk hoff (fun _ => rfl)
    refine ⟨h1, by omega, ?_⟩
    have hd : ((layoutFrom (P - 28) QPage.fresh id0 (e :: es)).drop k).head? = some p := by
      rw [List.head?_drop]; exact hk
    have e4 : id0 + (e :: es).length - p.first = (e :: es).length - (p.first - id0) := by omega
    rw [e4]
    generalize (layoutFrom (P - 28) QPage.fresh id0 (e :: es)).drop k = D at hd h3 ⊢
    cases D with
    | nil => simp at hd
    | cons d ds =>
      simp at hd
      subst hd
      exact h3

/-! ## the reader with id bookkeeping -/

theorem nextHdrPosId_eq (P : Nat) (pages : List QPage) (off id : Nat)
    (h : P - off < 4 → ∃ q qs, pages.tail = q :: qs ∧ q.first = id) :
    nextHdrPosId P pages off id = nextHdrPos P pages off := by
  by_cases hp : P - off < 4
  · obtain ⟨q, qs, e, hf⟩ := h hp
    simp [nextHdrPosId, nextHdrPos, hp, e, hf]
  · simp [nextHdrPosId, nextHdrPos, hp]

theorem readEventIds_eq (P : Nat) (full : Bool) (pages : List QPage) (off id : Nat)
    (h : P - off < 4 → ∃ q qs, pages.tail = q :: qs ∧ q.first = id) (r : List UInt8 × List QPage × Nat)
    (hr : readEvent P pages off = some r) :
    readEventIds P full pages off id =
      some (r.1, (if full && decide (0 < r.1.length) then settle P r.2.1 r.2.2 else r.2).1,
        (if full && decide (0 < r.1.length) then settle P r.2.1 r.2.2 else r.2).2,
        if 0 < r.1.length then id + 1 else id) := by
  rw [readEventIds, nextHdrPosId_eq P pages off id h]
  rw [readEvent] at hr
  cases hn : nextHdrPos P pages off with
  | none => rw [hn] at hr; simp at hr
  | some st =>
    rw [hn] at hr
    simp only [Option.bind_some] at hr ⊢
    rw [hr]
    rfl

/-- behind a page without room for a header the chain continues with the page that starts with
    the header of the next event -/
theorem layoutFrom_pad_next (S : Nat) (cur : QPage) (id : Nat) (e : List UInt8) (es : List (List UInt8))
    (hp : S - cur.payload.length < 4) :
    ∃ p0 q qs, layoutFrom S cur id (e :: es) = p0 :: q :: qs ∧ q.off = 28 ∧ q.first = id := by
  obtain ⟨h, t, e1, hx⟩ := layoutFrom_head S es (writeEvent S cur id e).2 (id + 1)
  rw [layoutFrom_cons, e1]
  rw [writeEvent_pad S cur id e hp] at hx ⊢
  obtain ⟨q, qs, e2, hq⟩ := appendData_head S _ e h t hx
  have := hq.2 (commitHdr_off_ne _ _ _)
  refine ⟨{ cur with payload := cur.payload ++ List.replicate (S - cur.payload.length) 0 }, q, qs, ?_, ?_, ?_⟩
  · simp only [List.cons_append, e2]
  · rw [this.1, commitHdr_off_fresh]
  · rw [this.2]; simp [commitHdr]

/-- reader cursor that corresponds to the writer state `cur`: the tail position, or the position
    `readInto` moves to when no header fits behind the tail position -/
def AtTail (P S : Nat) (cur : QPage) (id : Nat) (evs : List (List UInt8)) (pgs : List QPage) (o : Nat) : Prop :=
  (pgs, o) = (layoutFrom S cur id evs, 28 + cur.payload.length) ∨
  (pgs, o) = settle P (layoutFrom S cur id evs) (28 + cur.payload.length)

theorem readEvent_atTail (P S : Nat) (hS : S + 28 = P) (h4 : 4 ≤ S) (cur : QPage) (id : Nat)
    (e : List UInt8) (es : List (List UInt8)) (hlen : cur.payload.length ≤ S) (hsz : e.length < 2 ^ 32)
    (pgs : List QPage) (o : Nat) (hpos : AtTail P S cur id (e :: es) pgs o) :
    readEvent P pgs o = some (e, layoutFrom S (writeEvent S cur id e).2 (id + 1) es,
        28 + (writeEvent S cur id e).2.payload.length) ∧
    (P - o < 4 → ∃ q qs, pgs.tail = q :: qs ∧ q.first = id) := by
  obtain ⟨h, t, e1, hx⟩ := layoutFrom_head S es (writeEvent S cur id e).2 (id + 1)
  have hre := readEvent_writeEvent P S hS h4 cur id e h t hlen hsz hx
  rw [← e1, ← layoutFrom_cons] at hre
  have hcond : P - (28 + cur.payload.length) < 4 →
      ∃ q qs, (layoutFrom S cur id (e :: es)).tail = q :: qs ∧ q.first = id := by
    intro hp
    obtain ⟨p0, q, qs, e2, _, hf⟩ := layoutFrom_pad_next S cur id e es (by omega)
    exact ⟨q, qs, by rw [e2]; rfl, hf⟩
  rcases hpos with hpos | hpos
  · have h1 : pgs = layoutFrom S cur id (e :: es) := congrArg Prod.fst hpos
    have h2 : o = 28 + cur.payload.length := congrArg Prod.snd hpos
    subst h1 h2
    exact ⟨hre, hcond⟩
  · have h1 : pgs = (settle P (layoutFrom S cur id (e :: es)) (28 + cur.payload.length)).1 := congrArg Prod.fst hpos
    have h2 : o = (settle P (layoutFrom S cur id (e :: es)) (28 + cur.payload.length)).2 := congrArg Prod.snd hpos
    refine ⟨by rw [h1, h2, readEvent_settle P S hS h4 cur id e es hlen]; exact hre, ?_⟩
    intro hp
    by_cases hpad : S - cur.payload.length < 4
    · -- the cursor has left the page: offset 28, a header fits
      obtain ⟨p0, q, qs, e2, _, _⟩ := layoutFrom_pad_next S cur id e es hpad
      have : o = 28 := by
        rw [h2, e2]
        have : P - (28 + cur.payload.length) < 4 := by omega
        simp [settle, this]
      omega
    · have hs : settle P (layoutFrom S cur id (e :: es)) (28 + cur.payload.length)
          = (layoutFrom S cur id (e :: es), 28 + cur.payload.length) := by
        have : ¬ (P - (28 + cur.payload.length) < 4) := by omega
        simp [settle, this]
      rw [hs] at h1 h2
      subst h1 h2
      exact hcond hp

theorem parseFromIds_layoutFrom (P S : Nat) (hS : S + 28 = P) (h4 : 4 ≤ S) :
    ∀ (evs : List (List UInt8)) (modes : List Bool) (cur : QPage) (id : Nat) (pgs : List QPage) (o : Nat),
      cur.payload.length ≤ S → modes.length = evs.length →
      (∀ e ∈ evs, e.length < 2 ^ 32) → (∀ e ∈ evs, 0 < e.length) →
      AtTail P S cur id evs pgs o →
      parseFromIds P pgs o id modes = some evs := by
  intro evs
  induction evs with
  | nil =>
    intro modes cur id pgs o _ hm _ _ _
    have : modes = [] := List.eq_nil_of_length_eq_zero hm
    subst this
    simp [parseFromIds]
  | cons e es ih =>
    intro modes cur id pgs o hlen hm hsz hpos' hpos
    cases modes with
    | nil => simp at hm
    | cons m ms =>
      have hm' : ms.length = es.length := by simpa using hm
      have hepos : 0 < e.length := hpos' e (by simp)
      obtain ⟨hre, hcond⟩ := readEvent_atTail P S hS h4 cur id e es hlen (hsz e (by simp)) pgs o hpos
      have hlen' := writeEvent_len S h4 cur id e hlen
      rw [parseFromIds, readEventIds_eq P m pgs o id hcond _ hre]
      simp only [if_pos hepos]
      have hih := ih ms (writeEvent S cur id e).2 (id + 1)
        (if m && decide (0 < e.length) then settle P (layoutFrom S (writeEvent S cur id e).2 (id + 1) es)
            (28 + (writeEvent S cur id e).2.payload.length)
          else (layoutFrom S (writeEvent S cur id e).2 (id + 1) es,
            28 + (writeEvent S cur id e).2.payload.length)).1
        (if m && decide (0 < e.length) then settle P (layoutFrom S (writeEvent S cur id e).2 (id + 1) es)
            (28 + (writeEvent S cur id e).2.payload.length)
          else (layoutFrom S (writeEvent S cur id e).2 (id + 1) es,
            28 + (writeEvent S cur id e).2.payload.length)).2
        hlen' hm' (fun e' he' => hsz e' (by simp [he'])) (fun e' he' => hpos' e' (by simp [he']))
        (by split
            · exact Or.inr rfl
            · exact Or.inl rfl)
      rw [hih]
      rfl

/-- **Round trip with id bookkeeping**, for events with at least one byte: the reader's ids agree
    with the `first` fields at every page advance (the invariant check never fires). -/
theorem layout_roundtrip_ids (P : Nat) (hP : 64 ≤ P) (id0 : Nat) (evs : List (List UInt8)) (modes : List Bool)
    (hm : modes.length = evs.length) (hsz : ∀ e ∈ evs, e.length < 2^32) (hpos : ∀ e ∈ evs, 0 < e.length) :
    parseChainIds P (layout P id0 evs) modes = some evs := by
  cases evs with
  | nil =>
    have : modes = [] := List.eq_nil_of_length_eq_zero hm
    subst this
    simp [layout, parseChainIds]
  | cons e es =>
    have hS : (P - 28) + 28 = P := by omega
    have h4 : 4 ≤ P - 28 := by omega
    obtain ⟨h, t, e1, hx⟩ := layoutFrom_head (P - 28) es (writeEvent (P - 28) QPage.fresh id0 e).2 (id0 + 1)
    obtain ⟨q, qs, e2, _, hq⟩ := writeEvent_head (P - 28) QPage.fresh id0 e h t hx
    have hq' := (hq (by simp; omega)).2 (commitHdr_off_ne _ _ _)
    have hqoff : q.off = 28 := by rw [hq'.1, commitHdr_off_fresh]
    have hqfirst : q.first = id0 := by rw [hq'.2]; simp [commitHdr]
    have e3 : layoutFrom (P - 28) QPage.fresh id0 (e :: es) = q :: qs := by
      rw [layoutFrom_cons, e1, e2]
    have e4 : layout P id0 (e :: es) = q :: qs := by
      simp [layout, pqHdr, e3]
    have hmain := parseFromIds_layoutFrom P (P - 28) hS h4 (e :: es) modes QPage.fresh id0 (q :: qs) 28
      (by simp) hm hsz hpos (Or.inl (by rw [e3]; rfl))
    rw [e4]
    simp only [parseChainIds, hqoff, hqfirst]
    exact hmain

/-! ## concrete instances (P = 64, 36 payload bytes per page) -/

/-- `n` bytes `b` -/
def ev (n : Nat) (b : UInt8) : List UInt8 := List.replicate n b

-- sizes 1, 31, 32, 33, 70, 3: events split over pages, the 70 byte event covers parts of 3 pages,
-- the page in the middle of it has no event header
set_option maxRecDepth 100000 in
example : pageSummary (layout 64 10 [ev 1 1, ev 31 2, ev 32 3, ev 33 4, ev 70 5, ev 3 6])
    = [(10, 11, 28, 36), (12, 12, 32, 36), (13, 13, 32, 36), (14, 14, 33, 36), (0, 0, 0, 36), (15, 15, 35, 14)] := by
  decide +kernel

set_option maxRecDepth 100000 in
example : parseChain 64 (layout 64 10 [ev 1 1, ev 31 2, ev 32 3, ev 33 4, ev 70 5, ev 3 6]) 6
    = some [ev 1 1, ev 31 2, ev 32 3, ev 33 4, ev 70 5, ev 3 6] := by decide +kernel

set_option maxRecDepth 100000 in
example : parseChainRead 64 (layout 64 10 [ev 1 1, ev 31 2, ev 32 3, ev 33 4, ev 70 5, ev 3 6]) 6
    = some [ev 1 1, ev 31 2, ev 32 3, ev 33 4, ev 70 5, ev 3 6] := by decide +kernel

-- padding: 4 + 30 bytes leave 2 bytes in the page, the next header goes to the next page
set_option maxRecDepth 100000 in
example : layout 64 0 [ev 30 1, ev 5 2] =
    [⟨0, 0, 28, le32 30 ++ ev 30 1 ++ [0, 0]⟩, ⟨1, 1, 28, le32 5 ++ ev 5 2⟩] := by decide +kernel

set_option maxRecDepth 100000 in
example : parseChain 64 (layout 64 0 [ev 30 1, ev 5 2]) 2 = some [ev 30 1, ev 5 2] := by decide +kernel

-- event ends exactly at the end of the page / header ends exactly at the end of the page / empty event
set_option maxRecDepth 100000 in
example : pageSummary (layout 64 0 [ev 32 1, ev 1 2]) = [(0, 0, 28, 36), (1, 1, 28, 5)] ∧
    parseChain 64 (layout 64 0 [ev 32 1, ev 1 2]) 2 = some [ev 32 1, ev 1 2] := by decide +kernel

set_option maxRecDepth 100000 in
example : pageSummary (layout 64 0 [ev 28 1, ev 1 2]) = [(0, 1, 28, 36), (0, 0, 0, 1)] ∧
    parseChain 64 (layout 64 0 [ev 28 1, ev 1 2]) 2 = some [ev 28 1, ev 1 2] := by decide +kernel

set_option maxRecDepth 100000 in
example : pageSummary (layout 64 7 [[], ev 26 1, ev 1 2]) = [(7, 8, 28, 36), (9, 9, 28, 5)] ∧
    parseChain 64 (layout 64 7 [[], ev 26 1, ev 1 2]) 3 = some [[], ev 26 1, ev 1 2] := by decide +kernel

-- an empty event makes the reader's id bookkeeping lag behind: the page advance in `Next` fails
-- ("page start event id mismatch"), although the framing itself is fine.
-- Confirmed on the implementation: page size 1024, event sizes 985, 0, 1 panic in Reader.Next.
set_option maxRecDepth 100000 in
example : pageSummary (layout 64 0 [ev 25 1, [], ev 1 2]) = [(0, 1, 28, 36), (2, 2, 28, 5)] ∧
    parseChain 64 (layout 64 0 [ev 25 1, [], ev 1 2]) 3 = some [ev 25 1, [], ev 1 2] ∧
    parseChainIds 64 (layout 64 0 [ev 25 1, [], ev 1 2]) [true, true, true] = none ∧
    parseChainIds 64 (layout 64 0 [ev 25 1, [], ev 1 2]) [false, false, false] = none ∧
    parseChainIds 64 (layout 64 0 [ev 25 1, ev 1 9, ev 1 2]) [true, true, true]
      = some [ev 25 1, ev 1 9, ev 1 2] := by decide +kernel

-- a chain that ends early is rejected
set_option maxRecDepth 100000 in
example : parseChain 64 ((layout 64 0 [ev 70 5]).dropLast) 1 = none := by decide +kernel

end TxVerif
