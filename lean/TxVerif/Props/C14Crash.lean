/-
  C14 "transactionally" + C01 over whole LIFETIMES of the engine model — the operation trace of any lifetime
  (write transactions with any outcome, close + reopen, `Open` with `FlagUpdMaxSize` in both directions, in any
  order) is accepted by the crash discipline `Cfg.step`; hence a crash ANYWHERE, also inside an `Open` that changes
  the limit, recovers a committed state of the lifetime with its reach set intact.

  Trace (Proofs/LifeTrace.lean):
    `LStepE`              `LStep` with the oracles of the file-system layer (closing truncate of a transaction,
                          truncate of the rollback of a failing release transaction)
    `MStep`, `stepMicro`  micro steps; `resize n` = reopen | openAt n (in memory), `limit n` (`initTxMaxSize`: the
                          header-only transaction: header into the inactive slot with txid + 1, sync; NO page write
                          and NO sync before the header), `release n` (`initTxReleaseRegions`, only if regions can be
                          released: new free-list pages, data sync, header txid + 1, sync; or it fails for lack of
                          meta pages and writes nothing but, possibly, the truncate of its rollback) — the
                          composition is `FileSt.resize` (`life_run_is_runLife`)
    `lifeTrace`, `lifeRun`, `lifeReach`   traces, committed states with ghost data (`EngCS`), reach sets by state id =
                          transaction id; the state after `initTxMaxSize` has the reach set of the state before it
                          (only the header differs), the released state has new free-list pages

  FINDINGS. None against the implementation: `initTxReleaseRegions` DOES sync its free-list pages before it writes
  the header (file.go: `fileCommitSerialize`, `writer.Sync(syncDataOnly)`, `syncNewMeta`), exactly like
  `tryCommitChangesToFile`; without that sync the acceptor rejects the trace (example below: a crash could recover
  a header whose free-list pages are not on disk). `initTxMaxSize` writes its header WITHOUT a preceding sync while
  operations of earlier transactions may still be pending (flushed pages of a rolled back transaction, a
  truncate); this is accepted because everything pending is clear of the committed state, whose pages are the
  pages of the state the header names (`run_limit`; the clause of `Cfg.step` written for it).

  The proofs of Props/C01Engine.lean are ported from `EngInvO` to the lifetime invariant `EngInvU`
  (Proofs/LifeTrace[B-G].lean, namespace `LT`), since `EngInvO` does not survive a shrink.

  Theorems
    life_ofFile_ok, life_step_ok     committed states of the model (`EngInvU`) as starting points; `LT.EngOk` along lifetimes
    life_trace_accepted              every valid lifetime: trace accepted, ends in a configuration representing the
                                     last state; the states are those of `runLife`
    life_cfg_safe                    the starting configuration is `Safe`
    life_crash_atomic                every lifetime, every prefix, every crash image: recovery yields a state the
                                     lifetime passed (the committed one or the one in flight), reach set intact
    life_crash_reads                 … every defined owned page of that state reads its content from the image
    resize_crash_atomic              a crash inside `resize n` (after any lifetime): the state before the limit
                                     update, the state after it, or the released state (transaction ids t, t+1, t+2),
                                     reach set intact, and ALL defined owned pages read in the image - at the
                                     physical pages of the state before the resize - what they read before
    life_crash_end                   after the whole trace: the last state
    examples                         lifetimes with shrink + release, bound + grow, pending truncate before the limit
                                     header: accepted; sabotage: release header without the data sync, limit header
                                     into the active slot: rejected
-/
import TxVerif.Proofs.LifeTraceH
namespace TxVerif

/-- a committed state of the model at any point of a lifetime (`EngInvU`) seen as a file is a starting point -/
theorem life_ofFile_ok (f : FileSt) (live : List Nat) (slot : Nat) (he : EngInvU f live) (hs : slot ≤ 1) :
    LT.EngOk (EngCS.ofFile f live slot) := LT.engOk_ofFile f live slot he hs

/-- the invariant of the committed states with ghost data holds along every valid lifetime -/
theorem life_step_ok (e0 : EngCS) (ok : LT.EngOk e0) (steps : List LStepE) (hv : ∀ s ∈ steps, s.erase.valid) :
    LT.EngOk (lifeRun e0 steps) :=
  LT.engOk_mrun ok _ (LT.lifeMicro_valid steps e0 hv)

/-- the committed states of a lifetime with ghost data are exactly those of `runLife` (Props/Lifetime.lean) -/
theorem life_run_is_runLife (e0 : EngCS) (steps : List LStepE) :
    ((lifeRun e0 steps).f, (lifeRun e0 steps).live) = runLife (e0.f, e0.live) (steps.map LStepE.erase) :=
  LT.lifeRun_state steps e0

/-- `lifeReach`: at the transaction id of every committed state the lifetime passes (also the states between
    the transactions of a resize) it is the reach set of that state -/
theorem life_reach_spec (e0 : EngCS) (ok : LT.EngOk e0) (steps : List LStepE) (hv : ∀ s ∈ steps, s.erase.valid)
    (k : Nat) (hk : k ≤ (lifeMicro e0 steps).length) :
    lifeReach e0 steps (mRun e0 ((lifeMicro e0 steps).take k)).f.txid = engReach (mRun e0 ((lifeMicro e0 steps).take k)) :=
  LT.mHistReach_spec ok _ (LT.lifeMicro_valid steps e0 hv) k hk

/-- **life_trace_accepted** — the trace of every valid lifetime (write transactions with any operations, overflow
    flags and outcomes, closing truncates; close + reopen; `Open` with a new limit, grow / shrink / bound / remove,
    release transaction committed, failed or not run), begun in the configuration of a committed state, is
    accepted by `Cfg.run` under the reach sets `lifeReach`; it ends in a configuration that represents the last
    committed state. -/
theorem life_trace_accepted (e0 : EngCS) (ok : LT.EngOk e0) (steps : List LStepE) (hv : ∀ s ∈ steps, s.erase.valid) :
    ∃ cEnd, e0.cfg.run (lifeReach e0 steps) (lifeTrace e0 steps) = some cEnd ∧
      LT.EngRep (lifeRun e0 steps) cEnd ∧ LT.EngOk (lifeRun e0 steps) := by
  have hvm := LT.lifeMicro_valid steps e0 hv
  obtain ⟨c', h, r⟩ := LT.m_history_accepted (lifeReach e0 steps) (lifeMicro e0 steps) e0 e0.cfg ok (LT.engRep_cfg e0)
    hvm (LT.mHistReach_spec ok _ hvm)
  exact ⟨c', h, r, life_step_ok e0 ok steps hv⟩

/-- … from `EngInvU`: every committed state of the model, as a file -/
theorem life_trace_accepted_ofFile (f : FileSt) (live : List Nat) (slot : Nat) (he : EngInvU f live) (hs : slot ≤ 1)
    (steps : List LStepE) (hv : ∀ s ∈ steps, s.erase.valid) :
    ∃ cEnd, (EngCS.ofFile f live slot).cfg.run (lifeReach (EngCS.ofFile f live slot) steps)
        (lifeTrace (EngCS.ofFile f live slot) steps) = some cEnd ∧
      LT.EngRep (lifeRun (EngCS.ofFile f live slot) steps) cEnd :=
  let ⟨c, h, r, _⟩ := life_trace_accepted _ (life_ofFile_ok f live slot he hs) steps hv
  ⟨c, h, r⟩

/-- **life_cfg_safe** -/
theorem life_cfg_safe (e0 : EngCS) (ok : LT.EngOk e0) (steps : List LStepE) (hv : ∀ s ∈ steps, s.erase.valid) :
    Safe (lifeReach e0 steps) e0.cfg :=
  LT.engCfg_safe _ ok (life_reach_spec e0 ok steps hv 0 (Nat.zero_le _))

/-- **life_crash_atomic** — run any valid lifetime, stop after ANY number `k` of the operations of its trace (inside
    a transaction, between the two transactions of a shrinking `Open`, anywhere), keep any subset of the
    operations issued since the last completed sync (a header possibly torn): recovery yields a committed state
    the lifetime passed - the committed state of the configuration or the one whose header is in flight -,
    identified by its transaction id, and every page of its reach set is intact in the image. -/
theorem life_crash_atomic (e0 : EngCS) (ok : LT.EngOk e0) (steps : List LStepE) (hv : ∀ s ∈ steps, s.erase.valid)
    (k : Nat) :
    ∃ ck, e0.cfg.run (lifeReach e0 steps) ((lifeTrace e0 steps).take k) = some ck ∧
      ∀ img, CrashImg ck.durable ck.pending img →
        ∃ j, j ≤ (lifeMicro e0 steps).length ∧
          recover img = some (mRun e0 ((lifeMicro e0 steps).take j)).f.txid ∧
          ((mRun e0 ((lifeMicro e0 steps).take j)).f.txid = ck.aSt ∨
            ck.inflight = some (mRun e0 ((lifeMicro e0 steps).take j)).f.txid) ∧
          ∀ p h, (p, h) ∈ engReach (mRun e0 ((lifeMicro e0 steps).take j)) → img.pages p = some h := by
  have hvm := LT.lifeMicro_valid steps e0 hv
  obtain ⟨cEnd, hacc, -, -⟩ := life_trace_accepted e0 ok steps hv
  obtain ⟨ck, hk, hcr⟩ := crash_recovers (lifeReach e0 steps) e0.cfg (life_cfg_safe e0 ok steps hv) _ cEnd hacc k
  refine ⟨ck, hk, fun img hc => ?_⟩
  obtain ⟨st, h1, h2, h3⟩ := hcr img hc
  obtain ⟨n1, n2⟩ := LT.run_named (lifeReach e0 steps) _ e0.cfg ck hk
  have hnamed : LT.Named e0.cfg ((lifeTrace e0 steps).take k) st := by
    rcases h2 with h2 | h2
    · rw [h2]; exact n1
    · exact n2 st h2
  have hj : ∃ j, j ≤ (lifeMicro e0 steps).length ∧ st = (mRun e0 ((lifeMicro e0 steps).take j)).f.txid := by
    rcases hnamed with h | h | ⟨s, t, hm⟩
    · exact ⟨0, Nat.zero_le _, h⟩
    · simp [EngCS.cfg] at h
    · exact LT.mHistTrace_hdr _ ok hvm s t st (List.mem_of_mem_take hm)
  obtain ⟨j, hjl, rfl⟩ := hj
  refine ⟨j, hjl, h1, h2, fun p h hm => h3 p h ?_⟩
  rw [life_reach_spec e0 ok steps hv j hjl]; exact hm

/-- **life_crash_reads** — in the situation of `life_crash_atomic`: every defined owned page of the recovered state
    reads, at the physical page its mapping gives, the content the model holds for it (content hash injective) -/
theorem life_crash_reads (e0 : EngCS) (ok : LT.EngOk e0) (steps : List LStepE) (hv : ∀ s ∈ steps, s.erase.valid)
    (k : Nat) :
    ∃ ck, e0.cfg.run (lifeReach e0 steps) ((lifeTrace e0 steps).take k) = some ck ∧
      ∀ img, CrashImg ck.durable ck.pending img →
        ∃ j, j ≤ (lifeMicro e0 steps).length ∧
          recover img = some (mRun e0 ((lifeMicro e0 steps).take j)).f.txid ∧
          ∀ id ∈ (mRun e0 ((lifeMicro e0 steps).take j)).dfn,
            img.pages ((mRun e0 ((lifeMicro e0 steps).take j)).f.physOf id) =
              some ((mRun e0 ((lifeMicro e0 steps).take j)).f.readPage id).hash := by
  obtain ⟨ck, hk, hcr⟩ := life_crash_atomic e0 ok steps hv k
  refine ⟨ck, hk, fun img hc => ?_⟩
  obtain ⟨j, hjl, h1, -, h3⟩ := hcr img hc
  exact ⟨j, hjl, h1, fun id hid => h3 _ _ ((LT.engReach_mem _ _ _).mpr (Or.inl ⟨id, hid, rfl, rfl⟩))⟩

/-- **life_crash_end** — once the whole trace is issued every crash image recovers the last state of the lifetime -/
theorem life_crash_end (e0 : EngCS) (ok : LT.EngOk e0) (steps : List LStepE) (hv : ∀ s ∈ steps, s.erase.valid) :
    ∃ ck, e0.cfg.run (lifeReach e0 steps) (lifeTrace e0 steps) = some ck ∧
      ∀ img, CrashImg ck.durable ck.pending img →
        recover img = some (lifeRun e0 steps).f.txid ∧
        ∀ p h, (p, h) ∈ engReach (lifeRun e0 steps) → img.pages p = some h := by
  obtain ⟨cEnd, hacc, rep, -⟩ := life_trace_accepted e0 ok steps hv
  refine ⟨cEnd, hacc, fun img hc => ?_⟩
  have hsafe := safe_run (lifeReach e0 steps) _ e0.cfg cEnd (life_cfg_safe e0 ok steps hv) hacc
  obtain ⟨st, h1, h2, h3⟩ := safe_crash (lifeReach e0 steps) cEnd hsafe img hc
  have e : st = (lifeRun e0 steps).f.txid := by
    rcases h2 with h2 | h2
    · rw [h2, rep.st]
    · rw [rep.infl] at h2; cases h2
  subst e
  refine ⟨h1, fun p h hm => h3 p h ?_⟩
  have := life_reach_spec e0 ok steps hv (lifeMicro e0 steps).length (Nat.le_refl _)
  rw [List.take_length] at this
  rw [show lifeReach e0 steps (lifeRun e0 steps).f.txid = engReach (lifeRun e0 steps) from this]; exact hm

/-- **resize_crash_atomic** — C14 "the limit change is transactional", with crashes: after any valid lifetime
    `pre` let `Open` with `FlagUpdMaxSize` and the new limit `n` run (`resize n`; it is decided as in `openWith`:
    plain open, grow, shrink, bound + shrink) and crash after ANY number `m` of its operations, keeping any subset
    of what is not synced. Then recovery yields one of the states the resize passes - `S`, the state after `j` of
    its micro steps -: the state BEFORE the limit update (transaction id `t`), the state AFTER it (`t + 1`: the
    header-only transaction), or - only if the release transaction committed - the RELEASED state (`t + 2`);
    the reach set of `S` is intact in the image; `S` owns the same pages and has the same defined pages as the
    state `E` before the resize, reads every page through the same physical page with the same content
    (cf. `lstep_frame`), and so every defined owned page reads from the image, at the physical page `E` gives, the
    content it had before the resize. -/
theorem resize_crash_atomic (e0 : EngCS) (ok : LT.EngOk e0) (pre : List LStepE) (hvp : ∀ s ∈ pre, s.erase.valid)
    (n : Nat) (tr : Option Nat) (hn : n = 0 ∨ 2 ≤ n) (m : Nat) :
    ∃ ck, e0.cfg.run (lifeReach e0 (pre ++ [.resize n tr]))
        (lifeTrace e0 pre ++ (stepTrace (lifeRun e0 pre) (.resize n tr)).take m) = some ck ∧
      ∀ img, CrashImg ck.durable ck.pending img →
        ∃ j, j ≤ (stepMicro (lifeRun e0 pre).f (.resize n tr)).length ∧
          recover img = some (mRun (lifeRun e0 pre) ((stepMicro (lifeRun e0 pre).f (.resize n tr)).take j)).f.txid ∧
          ((mRun (lifeRun e0 pre) ((stepMicro (lifeRun e0 pre).f (.resize n tr)).take j)).f.txid = (lifeRun e0 pre).f.txid ∨
           (mRun (lifeRun e0 pre) ((stepMicro (lifeRun e0 pre).f (.resize n tr)).take j)).f.txid = (lifeRun e0 pre).f.txid + 1 ∨
           (mRun (lifeRun e0 pre) ((stepMicro (lifeRun e0 pre).f (.resize n tr)).take j)).f.txid = (lifeRun e0 pre).f.txid + 2) ∧
          (∀ p h, (p, h) ∈ engReach (mRun (lifeRun e0 pre) ((stepMicro (lifeRun e0 pre).f (.resize n tr)).take j)) →
            img.pages p = some h) ∧
          (mRun (lifeRun e0 pre) ((stepMicro (lifeRun e0 pre).f (.resize n tr)).take j)).live = (lifeRun e0 pre).live ∧
          (mRun (lifeRun e0 pre) ((stepMicro (lifeRun e0 pre).f (.resize n tr)).take j)).dfn = (lifeRun e0 pre).dfn ∧
          (∀ id, (mRun (lifeRun e0 pre) ((stepMicro (lifeRun e0 pre).f (.resize n tr)).take j)).f.physOf id =
              (lifeRun e0 pre).f.physOf id ∧
            (mRun (lifeRun e0 pre) ((stepMicro (lifeRun e0 pre).f (.resize n tr)).take j)).f.readPage id =
              (lifeRun e0 pre).f.readPage id) ∧
          ∀ id ∈ (lifeRun e0 pre).dfn,
            img.pages ((lifeRun e0 pre).f.physOf id) = some ((lifeRun e0 pre).f.readPage id).hash := by
  have hv : ∀ s ∈ pre ++ [LStepE.resize n tr], s.erase.valid := by
    intro s hs
    rcases List.mem_append.mp hs with h | h
    · exact hvp s h
    · simp only [List.mem_singleton] at h; subst h; exact hn
  have hvm := LT.lifeMicro_valid _ e0 hv
  have hspec := LT.mHistReach_spec ok _ hvm
  have hmic : lifeMicro e0 (pre ++ [LStepE.resize n tr]) =
      lifeMicro e0 pre ++ stepMicro (lifeRun e0 pre).f (.resize n tr) := by
    rw [LT.lifeMicro_append]
    show _ ++ (stepMicro (lifeRun e0 pre).f (.resize n tr) ++ []) = _
    rw [List.append_nil]
  have hR : lifeReach e0 (pre ++ [LStepE.resize n tr]) =
      mHistReach e0 (lifeMicro e0 pre ++ stepMicro (lifeRun e0 pre).f (.resize n tr)) := by
    unfold lifeReach; rw [hmic]
  have hvP : ∀ x ∈ lifeMicro e0 pre, x.valid := LT.lifeMicro_valid pre e0 hvp
  have okE := life_step_ok e0 ok pre hvp
  have hvL : ∀ x ∈ stepMicro (lifeRun e0 pre).f (.resize n tr), x.valid := LT.stepMicro_valid _ _ hn
  -- the reach sets of the states of `pre` and of the states inside the resize
  have hspecP : LT.MReachOK (lifeReach e0 (pre ++ [.resize n tr])) e0 (lifeMicro e0 pre) := by
    rw [hR]
    have := LT.mreachOK_take hspec (lifeMicro e0 pre).length
    rw [hmic, List.take_left'] at this
    · exact this
    · rfl
  have hspecL : LT.MReachOK (lifeReach e0 (pre ++ [.resize n tr])) (lifeRun e0 pre)
      (stepMicro (lifeRun e0 pre).f (.resize n tr)) := by
    rw [hR]
    intro k hk
    have := hspec ((lifeMicro e0 pre).length + k) (by rw [hmic, List.length_append]; omega)
    rw [hmic, List.take_append, List.take_of_length_le (by omega), LT.mRun_append] at this
    have e1 : (lifeMicro e0 pre).length + k - (lifeMicro e0 pre).length = k := by omega
    rw [e1] at this
    exact this
  -- run `pre`, then the resize
  obtain ⟨cE, hrunE, repE⟩ := LT.m_history_accepted _ (lifeMicro e0 pre) e0 e0.cfg ok (LT.engRep_cfg e0) hvP hspecP
  obtain ⟨c1, hrun1, -⟩ := LT.m_history_accepted _ (stepMicro (lifeRun e0 pre).f (.resize n tr)) (lifeRun e0 pre) cE
    okE repE hvL hspecL
  have hsplit : stepTrace (lifeRun e0 pre) (.resize n tr) =
      (stepTrace (lifeRun e0 pre) (.resize n tr)).take m ++ (stepTrace (lifeRun e0 pre) (.resize n tr)).drop m :=
    (List.take_append_drop m _).symm
  have hrun1' : cE.run (lifeReach e0 (pre ++ [.resize n tr])) (stepTrace (lifeRun e0 pre) (.resize n tr)) = some c1 := hrun1
  rw [hsplit] at hrun1'
  obtain ⟨ck, hrunk, -⟩ := LT.cfgRun_prefix_some _ _ _ _ _ hrun1'
  have hrunAll := cfgRun_append_some _ _ _ _ _ _ hrunE hrunk
  refine ⟨ck, hrunAll, fun img hc => ?_⟩
  have hsafe0 : Safe (lifeReach e0 (pre ++ [.resize n tr])) e0.cfg := life_cfg_safe e0 ok _ hv
  have hsafe := safe_run _ _ e0.cfg ck hsafe0 hrunAll
  obtain ⟨st, h1, h2, h3⟩ := safe_crash _ ck hsafe img hc
  obtain ⟨n1, n2⟩ := LT.run_named _ _ cE ck hrunk
  have hnamed : LT.Named cE ((stepTrace (lifeRun e0 pre) (.resize n tr)).take m) st := by
    rcases h2 with h2 | h2
    · rw [h2]; exact n1
    · exact n2 st h2
  have hj : ∃ j, j ≤ (stepMicro (lifeRun e0 pre).f (.resize n tr)).length ∧
      st = (mRun (lifeRun e0 pre) ((stepMicro (lifeRun e0 pre).f (.resize n tr)).take j)).f.txid := by
    rcases hnamed with h | h | ⟨s, t, hm⟩
    · exact ⟨0, Nat.zero_le _, h.trans repE.st⟩
    · rw [repE.infl] at h; cases h
    · exact LT.mHistTrace_hdr _ okE hvL s t st (List.mem_of_mem_take hm)
  obtain ⟨j, hjl, rfl⟩ := hj
  have hnt : ∀ x ∈ (stepMicro (lifeRun e0 pre).f (.resize n tr)).take j, x.isTxn = false :=
    fun x hx => LT.stepMicro_resize_noTxn _ n tr x (List.mem_of_mem_take hx)
  obtain ⟨f1, f2, f3, f4⟩ := LT.mrun_frame _ okE (fun x hx => hvL x (List.mem_of_mem_take hx)) hnt
  have hreach : ∀ p h, (p, h) ∈ engReach (mRun (lifeRun e0 pre) ((stepMicro (lifeRun e0 pre).f (.resize n tr)).take j)) →
      img.pages p = some h := by
    intro p h hm
    apply h3
    rw [hspecL j hjl]; exact hm
  refine ⟨j, hjl, h1, LT.resize_txids okE n tr hn j, hreach, f1, f2, fun id => ⟨f3 id, f4 id⟩, ?_⟩
  intro id hid
  have := hreach _ _ ((LT.engReach_mem _ _ _).mpr (Or.inl ⟨id, f2 ▸ hid, rfl, rfl⟩))
  rw [f3, f4] at this
  exact this

/-! ## examples -/

/-- the bounded file of Props/C03History.lean (8 pages, 2 of them meta pages), header slot 0 active -/
def c14B0 : EngCS := EngCS.ofFile (FileSt.create 4096 8 2) [] 0

theorem c14B0_ok : LT.EngOk c14B0 := life_ofFile_ok _ _ 0 (engInvU_create_any 4096 8 2 (by decide)) (by decide)

/-- fill the file; free the pages 7 and 6 (truncate afterwards); a transaction that flushes an overwritten page
    (overwrite page 3) and is then rolled back, with the truncate of the rollback: its write and the two
    truncates are still PENDING when the next `Open` runs -/
def c14Pre : List LStepE :=
  [.txn { t := exFill }, .txn { t := exFree [7, 6], trunc := some 0 },
   .txn { t := { ops := [.write 4 .full 9, .flushPage 4, .write 5 .full 9], order := [] }, trunc := some 0 }]

/-- … then: shrink to 6 pages (the free region 6-7 ends at the data end marker beyond the new limit: the release
    transaction runs), reopen, remove the limit, a transaction, bound to 12 pages, the same limit again -/
def c14Life : List LStepE :=
  c14Pre ++ [.resize 6 none, .reopen, .resize 0 none,
    .txn { t := { ops := [.alloc 2, .write 8 .full 1], order := [8] } }, .resize 12 none, .resize 12 none]

example : ∀ s ∈ c14Life, s.erase.valid := by decide

/-- what is pending before the shrinking `Open`: the write of the rolled back transaction and two truncates -/
example : (lifeTrace c14B0 c14Pre).drop 12 = [.trunc 8, .write 3 60600, .trunc 8] := by decide

/-- **the trace of the shrinking `Open`**: the header-only transaction (`initTxMaxSize`: header into slot 1 with
    transaction id 4, sync - no page, no sync before it), then the release transaction (`initTxReleaseRegions`:
    the new free-list page 7, the data sync, header into slot 0 with transaction id 5, sync) -/
example : stepTrace (lifeRun c14B0 c14Pre) (.resize 6 none) =
    [.hdr 1 4 4, .sync, .write 7 3167254077208763, .sync, .hdr 0 5 5, .sync] := by decide

/-- the states: after the resize the limit is 6, the transaction id 5, the free-list page is 7; the owned pages and
    what they read are unchanged -/
example :
    let a := lifeRun c14B0 c14Pre
    let b := lifeRun c14B0 (c14Pre ++ [.resize 6 none])
    a.f.txid = 3 ∧ a.f.alloc.maxPages = 8 ∧ a.f.alloc.freelistPages = [2] ∧ a.f.alloc.data.free = [6, 7] ∧
    b.f.txid = 5 ∧ b.f.alloc.maxPages = 6 ∧ b.f.alloc.freelistPages = [7] ∧ b.f.alloc.data.free = [] ∧
    b.live = [4, 5] ∧ b.dfn = [4, 5] ∧ b.f.readPage 4 = a.f.readPage 4 ∧ b.f.readPage 5 = a.f.readPage 5 := by decide

/-- **accepted** (computed): the trace of the whole lifetime; it ends with slot 1, transaction id 8 -/
example : (c14B0.cfg.run (lifeReach c14B0 c14Life) (lifeTrace c14B0 c14Life)).map
    (fun c => (c.aSlot, c.aTx, c.aSt, c.inflight)) = some (1, 8, 8, none) := by decide

/-- the traces of the later resizes: removing the limit and bounding the file again are header-only
    transactions; the same limit again is a plain open and writes nothing -/
example : (lifeTrace c14B0 c14Life).drop 21 =
    [.hdr 1 6 6, .sync, .write 8 12972, .write 6 3167254215062036, .sync, .hdr 0 7 7, .sync, .hdr 1 8 8, .sync] := by
  decide

/-- … as `life_trace_accepted` says for every valid lifetime -/
example (steps : List LStepE) (hv : ∀ s ∈ steps, s.erase.valid) :
    ∃ cEnd, c14B0.cfg.run (lifeReach c14B0 steps) (lifeTrace c14B0 steps) = some cEnd ∧
      LT.EngRep (lifeRun c14B0 steps) cEnd ∧ LT.EngOk (lifeRun c14B0 steps) :=
  life_trace_accepted c14B0 c14B0_ok steps hv

/-- the lifetime `exLife` of Props/Lifetime.lean (overflow commit, shrink BELOW live pages, frees, checkpoint,
    same limit, grow, reopen, allocate): accepted -/
def c14LifeA : List LStepE :=
  [.txn { t := exFill }, .txn { t := exOv }, .resize 6 none, .txn { t := exFree [7, 6] true }, .txn { t := exCkpt },
   .resize 6 none, .resize 12 none, .reopen, .txn { t := { ops := [.alloc 3] } }]

example : c14LifeA.map LStepE.erase = exLife := rfl

example : (c14B0.cfg.run (lifeReach c14B0 c14LifeA) (lifeTrace c14B0 c14LifeA)).isSome = true := by decide

/-- **sabotage 1, the release transaction WITHOUT its data sync** (what the brief asked to check: the
    implementation does sync, file.go `initTxReleaseRegions`): header 0 5 5 right after the write of the new
    free-list page 7 - rejected, because page 7 of the state the header names is not durable; a crash there could
    recover a header whose free-list page is not on disk -/
example :
    ((lifeRun c14B0 c14Pre).cfg.run (lifeReach c14B0 c14Life)
      [.hdr 1 4 4, .sync, .write 7 3167254077208763, .hdr 0 5 5]).isSome = false ∧
    ((lifeRun c14B0 c14Pre).cfg.run (lifeReach c14B0 c14Life)
      [.hdr 1 4 4, .sync, .write 7 3167254077208763, .sync, .hdr 0 5 5, .sync]).isSome = true := by decide

/-- **sabotage 2**: the header of the limit update into the ACTIVE slot, or with a pending write to a page of the
    committed state (page 4) - rejected; with the pending write to the free page 3 (the rolled back transaction's
    overwrite page) it is accepted -/
example :
    ((lifeRun c14B0 c14Pre).cfg.run (lifeReach c14B0 c14Life) [.hdr 0 4 4]).isSome = false ∧
    ((lifeRun c14B0 c14Pre).cfg.run (lifeReach c14B0 c14Life) [.write 4 1, .hdr 1 4 4]).isSome = false ∧
    ((lifeRun c14B0 c14Pre).cfg.run (lifeReach c14B0 c14Life) [.write 3 1, .trunc 8, .hdr 1 4 4, .sync]).isSome = true := by
  decide

end TxVerif
