/-
  C10: round-trip theorems for the free list / overwrite mapping codecs.
-/
import TxVerif.Model.Codec
namespace TxVerif

/-! ### fixed size little endian fields -/

theorem take_leEnc_append (n v : Nat) (rest : Bytes) : (leEnc n v ++ rest).take n = leEnc n v :=
  List.take_left' (leEnc_length n v)

theorem drop_leEnc_append (n v : Nat) (rest : Bytes) : (leEnc n v ++ rest).drop n = rest :=
  List.drop_left' (leEnc_length n v)

theorem leDec_take_leEnc_append (n v : Nat) (rest : Bytes) (h : v < 256 ^ n) :
    leDec ((leEnc n v ++ rest).take n) = v := by
  rw [take_leEnc_append, leDec_leEnc n v h]

/-! ### region entries -/

/-- on well-formed fields the or-ed entry word is the sum of its bit fields -/
theorem regionWord_eq_add (isMeta : Bool) (cf id : Nat) (hcf : cf < 256) (hid : id < 2^55) :
    regionWord isMeta cf id = (if isMeta then 2^63 else 0) + cf * 2^55 + id := by
  unfold regionWord
  rw [Nat.or_assoc, ← Nat.shiftLeft_add_eq_or_of_lt hid cf, Nat.shiftLeft_eq]
  cases isMeta with
  | false => simp
  | true =>
    have hlt : cf * 2^55 + id < 2^63 := by omega
    have := Nat.two_pow_add_eq_or_of_lt hlt 1
    simp only [Nat.mul_one] at this
    simp only [if_true]
    omega

theorem region_enc_size (isMeta : Bool) (r : Region) : (encodeRegion isMeta r).length = regionEncSize r.count := by
  unfold encodeRegion regionEncSize le64 le32
  split <;> simp

theorem region_roundtrip (isMeta : Bool) (r : Region) (hid : r.id < 2^55) (hc1 : 1 ≤ r.count) (hc2 : r.count < 2^32) (rest : Bytes) :
    decodeRegion (encodeRegion isMeta r ++ rest) = (isMeta, r, (encodeRegion isMeta r).length) := by
  obtain ⟨id, count⟩ := r
  simp only at hid hc1 hc2
  rw [region_enc_size]
  unfold encodeRegion regionEncSize decodeRegion le64 le32
  by_cases hc : count < 255
  · simp only [hc, if_true]
    rw [regionWord_eq_add isMeta count id (by omega) hid]
    have hv : (if isMeta then 2^63 else 0) + count * 2^55 + id < 256 ^ 8 := by
      cases isMeta <;> simp <;> omega
    rw [leDec_take_leEnc_append _ _ _ hv]
    cases isMeta
    · simp only [Bool.false_eq_true, if_false]
      have h1 : (0 + count * 2^55 + id) % 2^55 = id := by omega
      have h2 : (0 + count * 2^55 + id) / 2^55 % 256 = count := by omega
      have h3 : ¬ ((0 + count * 2^55 + id) / 2^63 % 2 = 1) := by omega
      rw [h1, h2]
      simp only [h3, decide_false]
      rw [if_neg (by omega), if_neg (by omega)]
    · simp only [if_true]
      have h1 : (2^63 + count * 2^55 + id) % 2^55 = id := by omega
      have h2 : (2^63 + count * 2^55 + id) / 2^55 % 256 = count := by omega
      have h3 : ((2^63 + count * 2^55 + id) / 2^63 % 2 = 1) := by omega
      rw [h1, h2]
      simp only [h3, decide_true]
      rw [if_neg (by omega), if_neg (by omega)]
  · simp only [hc, if_false]
    rw [regionWord_eq_add isMeta 255 id (by omega) hid]
    have hv : (if isMeta then 2^63 else 0) + 255 * 2^55 + id < 256 ^ 8 := by
      cases isMeta <;> simp <;> omega
    rw [List.append_assoc, leDec_take_leEnc_append _ _ _ hv, drop_leEnc_append,
      leDec_take_leEnc_append _ _ _ (by omega)]
    cases isMeta
    · simp only [Bool.false_eq_true, if_false]
      have h1 : (0 + 255 * 2^55 + id) % 2^55 = id := by omega
      have h2 : (0 + 255 * 2^55 + id) / 2^55 % 256 = 255 := by omega
      have h3 : ¬ ((0 + 255 * 2^55 + id) / 2^63 % 2 = 1) := by omega
      rw [h1, h2]
      simp only [h3, decide_false]
      rw [if_neg (by omega)]; rfl
    · simp only [if_true]
      have h1 : (2^63 + 255 * 2^55 + id) % 2^55 = id := by omega
      have h2 : (2^63 + 255 * 2^55 + id) / 2^55 % 256 = 255 := by omega
      have h3 : ((2^63 + 255 * 2^55 + id) / 2^63 % 2 = 1) := by omega
      rw [h1, h2]
      simp only [h3, decide_true]
      rw [if_neg (by omega)]; rfl

/-- the hypotheses of `region_roundtrip` are satisfiable: overflow encoding (count 300, meta) … -/
example : decodeRegion (encodeRegion true ⟨5, 300⟩ ++ [1, 2, 3]) = (true, ⟨5, 300⟩, 12) :=
  region_roundtrip true ⟨5, 300⟩ (by decide) (by decide) (by decide) [1, 2, 3]
/-- … and the compact encoding (count 1, largest id), checked by evaluation -/
example : decodeRegion (encodeRegion false ⟨2^55 - 1, 1⟩) = (false, ⟨2^55 - 1, 1⟩, 8) := by decide
example : (encodeRegion true ⟨5, 300⟩).length = 12 ∧ (encodeRegion true ⟨5, 254⟩).length = 8 ∧
    (encodeRegion true ⟨5, 255⟩).length = 12 := by decide
/-- `hc1` is necessary: a region of count 0 is read back with count 1 (decodeRegion `case 0`) -/
example : decodeRegion (encodeRegion false ⟨7, 0⟩) = (false, ⟨7, 1⟩, 8) := by decide
/-- `hid` is necessary: id bits ≥ 55 are or-ed into the count field / meta flag -/
example : encodeRegion false ⟨2^55, 2⟩ = encodeRegion false ⟨0, 3⟩ := by decide

/-! ### overwrite mapping entries -/

theorem wal_entry_roundtrip (k v : Nat) (hk : k < 2^56) (hv : v < 2^56) (rest : Bytes) :
    decodeWalEntry (encodeWalEntry k v ++ rest) = (k, v) := by
  unfold decodeWalEntry encodeWalEntry
  rw [List.append_assoc, leDec_take_leEnc_append _ _ _ (by omega), drop_leEnc_append,
    leDec_take_leEnc_append _ _ _ (by omega)]

example : decodeWalEntry (encodeWalEntry (2^56 - 1) 12345 ++ [9]) = (2^56 - 1, 12345) :=
  wal_entry_roundtrip (2^56 - 1) 12345 (by decide) (by decide) [9]
example : decodeWalEntry (encodeWalEntry 77 (2^56 - 2)) = (77, 2^56 - 2) := by decide
/-- only 7 bytes are stored per page id -/
example : decodeWalEntry (encodeWalEntry (2^56 + 3) 1) = (3, 1) := by decide

theorem wal_entry_length (k v : Nat) : (encodeWalEntry k v).length = 14 := by
  simp [encodeWalEntry]

/-! ### list pages -/

theorem pageNext_encode (ps next cnt : Nat) (p : Bytes) (h : next < 2^64) :
    pageNext (encodeListPage ps next cnt p) = next := by
  unfold pageNext encodeListPage le64
  exact leDec_take_leEnc_append _ _ _ (by omega)

theorem pageCount_encode (ps next cnt : Nat) (p : Bytes) (h : cnt < 2^32) :
    pageCount (encodeListPage ps next cnt p) = cnt := by
  unfold pageCount encodeListPage le64 le32
  rw [drop_leEnc_append]
  exact leDec_take_leEnc_append _ _ _ (by omega)

theorem pagePayload_encode (ps next cnt : Nat) (p : Bytes) :
    pagePayload (encodeListPage ps next cnt p) = p ++ List.replicate (ps - listHdrSize - p.length) 0 := by
  unfold pagePayload encodeListPage le64 le32
  rw [← List.append_assoc]
  exact List.drop_left' (by simp [listHdrSize])

/-! ### page chains -/

/-- every page links to its successor in the list, the last one to 0 -/
def Linked : List (Nat × Bytes) → Prop
  | [] => True
  | p :: t => pageNext p.2 = (t.map (·.1)).headD 0 ∧ Linked t

theorem lookup_append_of_not_mem (pre suf : List (Nat × Bytes)) (k : Nat)
    (h : ∀ p ∈ pre, p.1 ≠ k) : (pre ++ suf).lookup k = suf.lookup k := by
  induction pre with
  | nil => rfl
  | cons a pre ih =>
    obtain ⟨a1, a2⟩ := a
    have hne : a1 ≠ k := h (a1, a2) (by simp)
    have hbeq : (k == a1) = false := by simp; omega
    rw [List.cons_append, List.lookup_cons, hbeq]
    exact ih (fun p hp => h p (by simp [hp]))

theorem readChain_zero (pages : List (Nat × Bytes)) (fuel : Nat) : readChain pages fuel 0 = some [] := by
  cases fuel <;> rfl

/-- following a correctly linked chain of distinct non-zero pages visits exactly that chain -/
theorem readChain_linked (out : List (Nat × Bytes)) :
    ∀ (pre : List (Nat × Bytes)) (fuel : Nat), Linked out → (out.map (·.1)).Nodup →
      (∀ i ∈ out.map (·.1), i ≠ 0) → (∀ p ∈ pre, p.1 ∉ out.map (·.1)) → out.length ≤ fuel →
      readChain (pre ++ out) fuel ((out.map (·.1)).headD 0) = some out := by
  induction out with
  | nil => intro pre fuel _ _ _ _ _; exact readChain_zero _ _
  | cons a t ih =>
    intro pre fuel hl hnd hnz hpre hfuel
    obtain ⟨id, pg⟩ := a
    simp only [List.map_cons, List.headD_cons, List.nodup_cons] at hnd hnz hpre ⊢
    have hid0 : id ≠ 0 := hnz id (by simp)
    obtain ⟨j, rfl⟩ : ∃ j, id = j + 1 := ⟨id - 1, by omega⟩
    obtain ⟨f, rfl⟩ : ∃ f, fuel = f + 1 := ⟨fuel - 1, by simp at hfuel; omega⟩
    have hlook : (pre ++ (j + 1, pg) :: t).lookup (j + 1) = some pg := by
      rw [lookup_append_of_not_mem _ _ _ (fun p hp h => hpre p hp (by simp [h]))]
      simp
    have hrec : readChain (pre ++ (j + 1, pg) :: t) f (pageNext pg) = some t := by
      have := ih (pre ++ [(j + 1, pg)]) f hl.2 hnd.2 (fun i hi => hnz i (by simp [hi]))
        (by
          intro p hp
          rcases List.mem_append.mp hp with hp | hp
          · intro hmem; exact hpre p hp (List.mem_cons_of_mem _ hmem)
          · simp at hp; subst hp; exact hnd.1)
        (by simp at hfuel; omega)
      rw [List.append_assoc] at this
      rw [hl.1]; exact this
    simp only [readChain, hlook, hrec, Option.map_some]

/-! ### the paging writer -/

theorem flushPages_ids (ps : Nat) (rest : List Nat) : (flushPages ps rest).map (·.1) = rest := by
  induction rest with
  | nil => rfl
  | cons a t ih => simp [flushPages, ih]

theorem flushPages_linked (ps : Nat) (rest : List Nat) (h64 : ∀ i ∈ rest, i < 2^64) :
    Linked (flushPages ps rest) := by
  induction rest with
  | nil => trivial
  | cons a t ih =>
    refine ⟨?_, ih (fun i hi => h64 i (by simp [hi]))⟩
    simp only [flushPages_ids]
    apply pageNext_encode
    cases t with
    | nil => simp
    | cons b t => exact h64 b (by simp)

theorem chainEntries_cons {α : Type} (decN : Nat → Bytes → List α) (p : Nat × Bytes) (t : List (Nat × Bytes)) :
    chainEntries decN (p :: t) = decN (pageCount p.2) (pagePayload p.2) ++ chainEntries decN t := by
  simp [chainEntries]

theorem flushPages_entries {α : Type} (decN : Nat → Bytes → List α) (hdec0 : ∀ b, decN 0 b = [])
    (ps : Nat) (rest : List Nat) : chainEntries decN (flushPages ps rest) = [] := by
  induction rest with
  | nil => rfl
  | cons a t ih =>
    rw [flushPages, chainEntries_cons, ih]
    simp only [pageCount_encode ps _ 0 [] (by omega), hdec0, List.append_nil]

/-- the writer uses exactly the pre-allocated pages, in order, correctly linked -/
theorem writeAux_chain (ps : Nat) (es : List Bytes) :
    ∀ (id : Nat) (rest : List Nat) (cur : Bytes) (cnt : Nat) (out : List (Nat × Bytes)),
      (∀ i ∈ rest, i < 2^64) → writeAux ps id rest cur cnt es = some out →
      out.map (·.1) = id :: rest ∧ Linked out := by
  induction es with
  | nil =>
    intro id rest cur cnt out h64 hw
    simp only [writeAux, Option.some.injEq] at hw
    subst hw
    refine ⟨by simp [flushPages_ids], ?_, flushPages_linked ps rest h64⟩
    simp only [flushPages_ids]
    apply pageNext_encode
    cases rest with
    | nil => simp
    | cons b t => exact h64 b (by simp)
  | cons e es ih =>
    intro id rest cur cnt out h64 hw
    simp only [writeAux] at hw
    split at hw
    · cases rest with
      | nil => simp at hw
      | cons id' rest' =>
        simp only [Option.map_eq_some_iff] at hw
        obtain ⟨out', hw', rfl⟩ := hw
        obtain ⟨h1, h2⟩ := ih id' rest' _ _ out' (fun i hi => h64 i (by simp [hi])) hw'
        refine ⟨by simp [h1], ?_, h2⟩
        simp only [h1, List.headD_cons]
        exact pageNext_encode _ _ _ _ (h64 id' (by simp))
    · exact ih id rest _ _ out h64 hw

/-- reading back the entries written by the paging writer -/
theorem writeAux_entries {α : Type} (decN : Nat → Bytes → List α) (enc : α → Bytes)
    (hdec0 : ∀ b, decN 0 b = []) (ps : Nat) (hps : ps - listHdrSize < 2^32) (xs : List α) :
    ∀ (id : Nat) (rest : List Nat) (cur : Bytes) (cnt : Nat) (ys : List α) (out : List (Nat × Bytes)),
      (∀ x ∈ xs, 1 ≤ (enc x).length ∧ (enc x).length ≤ ps - listHdrSize) →
      (∀ x ∈ xs, ∀ n tail, decN (n + 1) (enc x ++ tail) = x :: decN n tail) →
      cnt ≤ cur.length → cur.length ≤ ps - listHdrSize →
      (∀ m tail, decN (cnt + m) (cur ++ tail) = ys ++ decN m tail) →
      writeAux ps id rest cur cnt (xs.map enc) = some out →
      chainEntries decN out = ys ++ xs := by
  induction xs with
  | nil =>
    intro id rest cur cnt ys out _ _ hcnt hcur hys hw
    simp only [List.map_nil, writeAux, Option.some.injEq] at hw
    subst hw
    rw [chainEntries_cons, flushPages_entries decN hdec0]
    simp only [pageCount_encode ps _ cnt cur (by omega), pagePayload_encode]
    have := hys 0 (List.replicate (ps - listHdrSize - cur.length) 0)
    simp only [Nat.add_zero, hdec0] at this
    simp [this]
  | cons x xs ih =>
    intro id rest cur cnt ys out hlen hdec hcnt hcur hys hw
    have hlx := hlen x (by simp)
    have hdx := hdec x (by simp)
    have hlen' : ∀ y ∈ xs, 1 ≤ (enc y).length ∧ (enc y).length ≤ ps - listHdrSize :=
      fun y hy => hlen y (by simp [hy])
    have hdec' : ∀ y ∈ xs, ∀ n tail, decN (n + 1) (enc y ++ tail) = y :: decN n tail :=
      fun y hy => hdec y (by simp [hy])
    simp only [List.map_cons, writeAux] at hw
    split at hw
    · cases rest with
      | nil => simp at hw
      | cons id' rest' =>
        simp only [Option.map_eq_some_iff] at hw
        obtain ⟨out', hw', rfl⟩ := hw
        rw [List.take_of_length_le hlx.2] at hw'
        have hrec := ih id' rest' (enc x) 1 [x] out' hlen' hdec' hlx.1 hlx.2
          (by intro m tail; rw [Nat.add_comm 1 m, hdx]; rfl) hw'
        rw [chainEntries_cons, hrec]
        simp only [pageCount_encode ps _ cnt cur (by omega), pagePayload_encode]
        have := hys 0 (List.replicate (ps - listHdrSize - cur.length) 0)
        simp only [Nat.add_zero, hdec0] at this
        simp [this]
    · rename_i hfit
      have hrec := ih id rest (cur ++ enc x) (cnt + 1) (ys ++ [x]) out hlen' hdec'
        (by simp; omega) (by simp; omega)
        (by
          intro m tail
          rw [Nat.add_assoc, Nat.add_comm 1 m, List.append_assoc, hys (m + 1), hdx]
          simp) hw
      rw [hrec]; simp

/-- generic round trip of `writePages` followed by chain reading -/
theorem writePages_read {α : Type} (decN : Nat → Bytes → List α) (enc : α → Bytes)
    (hdec0 : ∀ b, decN 0 b = []) (ps : Nat) (hps : ps - listHdrSize < 2^32)
    (ids : List Nat) (hne : ids ≠ []) (hids : ids.Nodup) (hnz : ∀ i ∈ ids, i ≠ 0) (h64 : ∀ i ∈ ids, i < 2^64)
    (xs : List α)
    (hlen : ∀ x ∈ xs, 1 ≤ (enc x).length ∧ (enc x).length ≤ ps - listHdrSize)
    (hdec : ∀ x ∈ xs, ∀ n tail, decN (n + 1) (enc x ++ tail) = x :: decN n tail)
    (pages : List (Nat × Bytes)) (hw : writePages ps ids (xs.map enc) = some pages) :
    readChain pages pages.length (ids.headD 0) = some pages ∧ pages.map (·.1) = ids ∧
      chainEntries decN pages = xs := by
  cases ids with
  | nil => exact absurd rfl hne
  | cons id rest =>
    simp only [writePages] at hw
    obtain ⟨h1, h2⟩ := writeAux_chain ps _ id rest [] 0 pages (fun i hi => h64 i (by simp [hi])) hw
    have h3 := writeAux_entries decN enc hdec0 ps hps xs id rest [] 0 [] pages hlen hdec
      (by simp) (by simp) (by intro m tail; simp) hw
    refine ⟨?_, h1, by simpa using h3⟩
    have := readChain_linked pages [] pages.length h2 (by rw [h1]; exact hids)
      (by rw [h1]; exact hnz) (by simp) (Nat.le_refl _)
    simpa [h1] using this

/-! ### free list round trip -/

theorem decodeRegions_zero (b : Bytes) : decodeRegions 0 b = [] := rfl

theorem decodeRegions_step (x : Bool × Region) (hid : x.2.id < 2^55) (hc1 : 1 ≤ x.2.count) (hc2 : x.2.count < 2^32)
    (n : Nat) (tail : Bytes) :
    decodeRegions (n + 1) (encodeRegion x.1 x.2 ++ tail) = x :: decodeRegions n tail := by
  simp only [decodeRegions, region_roundtrip x.1 x.2 hid hc1 hc2 tail, List.drop_left]

theorem filter_flag_meta (ml dl : List Region) :
    ((ml.map (fun r => (true, r)) ++ dl.map (fun r => (false, r))).filter (fun e => e.1)).map (·.2) = ml := by
  rw [List.filter_append]
  have h1 : ∀ l : List Region, ((l.map (fun r => (true, r))).filter (fun e => e.1)).map (·.2) = l := by
    intro l; induction l with
    | nil => rfl
    | cons a t ih => simpa using ih
  have h2 : ∀ l : List Region, (l.map (fun r => (false, r))).filter (fun e => e.1) = [] := by
    intro l; induction l with
    | nil => rfl
    | cons a t ih => simp
  rw [h2, List.append_nil, h1]

theorem filter_flag_data (ml dl : List Region) :
    ((ml.map (fun r => (true, r)) ++ dl.map (fun r => (false, r))).filter (fun e => !e.1)).map (·.2) = dl := by
  rw [List.filter_append]
  have h1 : ∀ l : List Region, ((l.map (fun r => (false, r))).filter (fun e => !e.1)).map (·.2) = l := by
    intro l; induction l with
    | nil => rfl
    | cons a t ih => simpa using ih
  have h2 : ∀ l : List Region, (l.map (fun r => (true, r))).filter (fun e => !e.1) = [] := by
    intro l; induction l with
    | nil => rfl
    | cons a t ih => simp
  rw [h2, List.nil_append, h1]

/-- reading back what writeFreeLists wrote yields the same region lists (in order) and the page ids in chain order.

    Compared to the naive statement three hypotheses are needed, each of them
    reflecting a real limit of the on-disk format / the Go code:
    * `hps2`: the per page entry counter is a u32 (page sizes are ≤ MaxUint32 in go-txfile),
    * `h64` : page ids are u64 (the `next` pointer),
    * `hne` : without any pre-allocated page `newPagingWriter` returns a nil
      writer whose Write/Flush silently succeed, i.e. the lists are dropped
      (see `freelist_nopages_drops`). -/
theorem freelist_roundtrip (pageSize : Nat) (hps : 64 ≤ pageSize) (hps2 : pageSize ≤ 2^32)
    (ids : List Nat) (hids : ids.Nodup) (hnz : ∀ i ∈ ids, i ≠ 0) (h64 : ∀ i ∈ ids, i < 2^64)
    (metaList dataList : List Region)
    (hne : ids = [] → metaList = [] ∧ dataList = [])
    (hwf : ∀ r ∈ metaList ++ dataList, r.id < 2^55 ∧ 1 ≤ r.count ∧ r.count < 2^32)
    (pages : List (Nat × Bytes)) (hw : writeFreeLists pageSize ids metaList dataList = some pages) :
    readFreeList pages (ids.headD 0) = some (metaList, dataList, ids) := by
  by_cases hnil : ids = []
  · obtain ⟨rfl, rfl⟩ := hne hnil
    subst hnil
    simp only [writeFreeLists, writePages, Option.some.injEq] at hw
    subst hw
    rfl
  · let enc : Bool × Region → Bytes := fun x => encodeRegion x.1 x.2
    let xs : List (Bool × Region) := metaList.map (fun r => (true, r)) ++ dataList.map (fun r => (false, r))
    have hxs : xs.map enc = metaList.map (encodeRegion true) ++ dataList.map (encodeRegion false) := by
      simp [xs, enc, List.map_append, List.map_map, Function.comp_def]
    have hwfx : ∀ x ∈ xs, x.2.id < 2^55 ∧ 1 ≤ x.2.count ∧ x.2.count < 2^32 := by
      intro x hx
      simp only [xs, List.mem_append, List.mem_map] at hx
      rcases hx with ⟨r, hr, rfl⟩ | ⟨r, hr, rfl⟩
      · exact hwf r (List.mem_append_left _ hr)
      · exact hwf r (List.mem_append_right _ hr)
    unfold writeFreeLists at hw
    rw [← hxs] at hw
    obtain ⟨h1, h2, h3⟩ := writePages_read decodeRegions enc decodeRegions_zero pageSize
      (by simp only [listHdrSize]; omega) ids hnil hids hnz h64 xs
      (by
        intro x _
        have := region_enc_size x.1 x.2
        simp only [enc, listHdrSize, this, regionEncSize]
        split <;> omega)
      (by
        intro x hx n tail
        obtain ⟨a, b, c⟩ := hwfx x hx
        exact decodeRegions_step x a b c n tail)
      pages hw
    simp only [readFreeList, h1, Option.map_some, h2, h3, xs, filter_flag_meta, filter_flag_data]

/-- example lists: 12+8+8 bytes of meta entries, 12+8+8+12 bytes of data entries;
    the 52 byte payload of a 64 byte page holds the first five entries -/
def exMeta : List Region := [⟨5, 300⟩, ⟨400, 1⟩, ⟨500, 2⟩]
def exData : List Region := [⟨1000, 70000⟩, ⟨2000, 1⟩, ⟨3000, 254⟩, ⟨4000, 255⟩]

/-- the hypotheses of `freelist_roundtrip` are satisfiable (two pages, both used) -/
example : ∃ pages, writeFreeLists 64 [3, 9] exMeta exData = some pages ∧
    readFreeList pages 3 = some (exMeta, exData, [3, 9]) := by
  have hs : (writeFreeLists 64 [3, 9] exMeta exData).isSome = true := by decide
  obtain ⟨pages, hw⟩ := Option.isSome_iff_exists.mp hs
  exact ⟨pages, hw, freelist_roundtrip 64 (by decide) (by decide) [3, 9] (by decide) (by decide) (by decide)
    exMeta exData (by decide) (by decide) pages hw⟩
/-- the same instance by evaluation, with the page structure: page 3 → 9 → 0, 5 + 2 entries -/
example : (writeFreeLists 64 [3, 9] exMeta exData).bind (readFreeList · 3) = some (exMeta, exData, [3, 9]) := by
  decide
example : ((writeFreeLists 64 [3, 9] exMeta exData).map fun ps =>
    ps.map fun p => (p.1, pageNext p.2, pageCount p.2, p.2.length)) = some [(3, 9, 5, 64), (9, 0, 2, 64)] := by
  decide
/-- a third, unused page is written as an empty page and still part of the chain -/
example : (writeFreeLists 64 [3, 9, 4] exMeta exData).bind (readFreeList · 3) = some (exMeta, exData, [3, 9, 4]) := by
  decide
/-- "Not enough pages pre-allocated" -/
example : writeFreeLists 64 [3] exMeta exData = none := by decide

/-- the nil-writer quirk: without pre-allocated pages the free lists are
    silently dropped by `writeFreeLists` (no error), so nothing can be read back -/
theorem freelist_nopages_drops (pageSize : Nat) (metaList dataList : List Region) :
    writeFreeLists pageSize [] metaList dataList = some [] ∧
      readFreeList [] 0 = some ([], [], []) := ⟨rfl, rfl⟩

/-- `h64` is necessary: the `next` pointer is a u64, a larger page id is truncated (to 5 here) -/
example : (writeFreeLists 64 [1, 2^64 + 5] exMeta exData).bind (readFreeList · 1) = none := by decide

/-! ### overwrite mapping round trip -/

theorem decodeWalEntries_zero (b : Bytes) : decodeWalEntries 0 b = [] := rfl

theorem decodeWalEntries_step (x : Nat × Nat) (hk : x.1 < 2^56) (hv : x.2 < 2^56) (n : Nat) (tail : Bytes) :
    decodeWalEntries (n + 1) (encodeWalEntry x.1 x.2 ++ tail) = x :: decodeWalEntries n tail := by
  simp only [decodeWalEntries, wal_entry_roundtrip x.1 x.2 hk hv tail]
  rw [List.drop_left' (by simp [wal_entry_length, walEntrySize])]

/-- reading back what writeWal wrote yields the same key/value pairs (in the
    order written) and the page ids in chain order; extra hypotheses as in
    `freelist_roundtrip` -/
theorem wal_roundtrip (pageSize : Nat) (hps : 64 ≤ pageSize) (hps2 : pageSize ≤ 2^32)
    (ids : List Nat) (hids : ids.Nodup) (hnz : ∀ i ∈ ids, i ≠ 0) (h64 : ∀ i ∈ ids, i < 2^64)
    (mapping : List (Nat × Nat))
    (hne : ids = [] → mapping = [])
    (hwf : ∀ kv ∈ mapping, kv.1 < 2^56 ∧ kv.2 < 2^56)
    (pages : List (Nat × Bytes)) (hw : writeWal pageSize ids mapping = some pages) :
    readWal pages (ids.headD 0) = some (mapping, ids) := by
  by_cases hnil : ids = []
  · have := hne hnil
    subst this; subst hnil
    simp only [writeWal, writePages, Option.some.injEq] at hw
    subst hw
    rfl
  · unfold writeWal at hw
    obtain ⟨h1, h2, h3⟩ := writePages_read decodeWalEntries (fun kv => encodeWalEntry kv.1 kv.2)
      decodeWalEntries_zero pageSize
      (by simp only [listHdrSize]; omega) ids hnil hids hnz h64 mapping
      (by
        intro x _
        simp only [wal_entry_length, listHdrSize]
        omega)
      (by
        intro x hx n tail
        obtain ⟨a, b⟩ := hwf x hx
        exact decodeWalEntries_step x a b n tail)
      pages hw
    simp only [readWal, h1, Option.map_some, h2, h3]

def exMapping : List (Nat × Nat) := [(10, 100), (11, 2^56 - 1), (12, 102), (13, 103), (14, 104)]

/-- the hypotheses of `wal_roundtrip` are satisfiable (64 byte pages hold three entries each: 3 + 2 entries, the third page stays empty) -/
example : ∃ pages, writeWal 64 [7, 2, 5] exMapping = some pages ∧
    readWal pages 7 = some (exMapping, [7, 2, 5]) := by
  have hs : (writeWal 64 [7, 2, 5] exMapping).isSome = true := by decide
  obtain ⟨pages, hw⟩ := Option.isSome_iff_exists.mp hs
  exact ⟨pages, hw, wal_roundtrip 64 (by decide) (by decide) [7, 2, 5] (by decide) (by decide) (by decide)
    exMapping (by decide) (by decide) pages hw⟩
example : ((writeWal 64 [7, 2, 5] exMapping).map fun ps =>
    ps.map fun p => (p.1, pageNext p.2, pageCount p.2, p.2.length)) = some [(7, 2, 3, 64), (2, 5, 2, 64), (5, 0, 0, 64)] := by
  decide
/-- 40 byte pages hold two entries each: all three pages are used -/
example : (writeWal 40 [7, 2, 5] exMapping).bind (readWal · 7) = some (exMapping, [7, 2, 5]) := by decide
example : writeWal 40 [7, 2] exMapping = none := by decide

theorem wal_nopages_drops (pageSize : Nat) (mapping : List (Nat × Nat)) :
    writeWal pageSize [] mapping = some [] ∧ readWal [] 0 = some ([], []) := ⟨rfl, rfl⟩

end TxVerif
