/-
  C14 — changing the maximum size on open preserves data and leaves the file usable.
  The max-size update is a header-only transaction (`initTxMaxSize`): it writes a copy of the
  active header with the new limit into the inactive slot and then sets the allocator's limit.
  Model: `FileSt.setMax`. Lock side: `Tie.withInitTx_balanced` (every path of `withInitTx`
  restores the pending and exclusive locks and closes its transaction) + C09.
-/
import TxVerif.Model.Engine
import TxVerif.Tie.Skeleton
namespace TxVerif

/-- `growFile` / step 1+2 of `shrinkFile`: only the limit (and the header's txid) change -/
def FileSt.setMax (f : FileSt) (newMax : Nat) : FileSt :=
  { f with alloc := ({ f.alloc with maxPages := newMax } : Alloc).absorbOverflow, txid := f.txid + 1 }

/-- resize_preserves: root, every page's content, the mapping, both free lists, the meta area and
    its end marker are untouched by the max-size update; the data end marker can only be raised
    (over the overflow area, when the data area may grow again) -/
theorem resize_preserves (f : FileSt) (newMax : Nat) :
    (f.setMax newMax).root = f.root ∧ (∀ id, (f.setMax newMax).readPage id = f.readPage id) ∧
    (f.setMax newMax).walMap = f.walMap ∧ (f.setMax newMax).alloc.data.free = f.alloc.data.free ∧
    f.alloc.data.endMarker ≤ (f.setMax newMax).alloc.data.endMarker ∧
    (f.setMax newMax).alloc.mta = f.alloc.mta ∧ (f.setMax newMax).alloc.metaTotal = f.alloc.metaTotal := by
  unfold FileSt.setMax Alloc.absorbOverflow
  by_cases hc : f.alloc.data.endMarker < f.alloc.mta.endMarker ∧ (newMax = 0 ∨ f.alloc.data.endMarker < newMax)
  · rw [if_pos hc]
    refine ⟨rfl, fun _ => rfl, rfl, rfl, ?_, rfl, rfl⟩
    show f.alloc.data.endMarker ≤ f.alloc.mta.endMarker
    omega
  · rw [if_neg hc]
    exact ⟨rfl, fun _ => rfl, rfl, rfl, Nat.le_refl _, rfl, rfl⟩

/-- resize_no_collision: after the update, whenever pages can be taken from the end of the file
    they lie behind every meta page (on the pinned tree raising or removing the limit of a file with
    an overflow area in use let the data area grow INTO the overflow area: pages of the free list /
    the mapping were handed out as data pages) -/
theorem resize_no_collision (f : FileSt) (newMax : Nat)
    (hg : newMax = 0 ∨ (f.setMax newMax).alloc.data.endMarker < newMax) :
    f.alloc.mta.endMarker ≤ (f.setMax newMax).alloc.data.endMarker := by
  unfold FileSt.setMax Alloc.absorbOverflow at *
  by_cases hc : f.alloc.data.endMarker < f.alloc.mta.endMarker ∧ (newMax = 0 ∨ f.alloc.data.endMarker < newMax)
  · rw [if_pos hc]
    exact Nat.le_refl _
  · rw [if_neg hc] at hg ⊢
    show f.alloc.mta.endMarker ≤ f.alloc.data.endMarker
    have hg' : newMax = 0 ∨ f.alloc.data.endMarker < newMax := hg
    omega

/-- limit_persisted: the new limit is what the allocator (and the header) carry afterwards -/
theorem limit_persisted (f : FileSt) (newMax : Nat) : (f.setMax newMax).alloc.maxPages = newMax := by
  unfold FileSt.setMax Alloc.absorbOverflow; split <;> rfl

/-- grow_exact: growing a bounded file whose data area lies within the old limit (and that has no
    overflow area) makes exactly the additional pages allocatable -/
theorem grow_exact (f : FileSt) (newMax : Nat) (hold : 0 < f.alloc.maxPages)
    (hend : f.alloc.data.endMarker ≤ f.alloc.maxPages) (hgrow : f.alloc.maxPages ≤ newMax)
    (hnov : f.alloc.mta.endMarker ≤ f.alloc.data.endMarker) :
    (f.setMax newMax).alloc.dataAvail = f.alloc.dataAvail + (newMax - f.alloc.maxPages) := by
  have hid : (({ f.alloc with maxPages := newMax } : Alloc)).absorbOverflow = { f.alloc with maxPages := newMax } := by
    unfold Alloc.absorbOverflow
    rw [if_neg]
    intro hc
    have := hc.1
    simp only at this
    omega
  unfold FileSt.setMax
  rw [hid]
  simp only [Alloc.dataAvail]
  have h1 : ¬ newMax = 0 := by omega
  have h2 : ¬ f.alloc.maxPages = 0 := by omega
  simp only [h1, h2, if_false]
  by_cases c1 : f.alloc.data.endMarker < newMax <;> by_cases c2 : f.alloc.data.endMarker < f.alloc.maxPages <;>
    simp only [c1, c2, if_true, if_false] <;> omega

/-- shrink_extent (allocation from the end of the file): once the end marker is at or beyond the
    limit, allocations are served from the free list only — the data area does not grow, so the
    file never extends beyond the larger of its previous extent and the new limit -/
theorem shrink_no_growth (a : Alloc) (st : TxAlloc) (n : Nat) (a' : Alloc) (st' : TxAlloc) (ids : List Nat)
    (hmax : 0 < a.maxPages) (hover : a.maxPages ≤ a.data.endMarker)
    (h : dataAllocRegions a st n = some (a', st', ids)) : a'.data.endMarker = a.data.endMarker := by
  unfold dataAllocRegions at h
  split at h
  · simp at h
  · rename_i hav
    simp only [Option.some.injEq, Prod.mk.injEq] at h
    obtain ⟨rfl, _, _⟩ := h
    have hne : ¬ a.maxPages = 0 := by omega
    have hlt : ¬ a.data.endMarker < a.maxPages := by omega
    simp only [Alloc.dataAvail, hne, hlt, if_false, Nat.add_zero, Nat.not_lt] at hav
    have hk : n - min n a.data.free.length = 0 := by omega
    simp only [hk, gt_iff_lt, Nat.lt_irrefl, if_false, Nat.add_zero]

/-- the same for the continuous allocation used to grow the meta area (this is the subtraction
    that used to wrap around: alloc.go `maxPages - endMarker`) -/
theorem shrink_no_growth_continuous (a : Alloc) (st : TxAlloc) (n : Nat) (a' : Alloc) (st' : TxAlloc) (ids : List Nat)
    (hn : 0 < n) (hmax : 0 < a.maxPages) (hover : a.maxPages ≤ a.data.endMarker)
    (h : dataAllocContinuous a st n = some (a', st', ids)) : a'.data.endMarker = a.data.endMarker := by
  unfold dataAllocContinuous at h
  split at h
  · simp at h
  · split at h
    · simp only [Option.some.injEq, Prod.mk.injEq] at h
      obtain ⟨rfl, _, _⟩ := h; rfl
    · have hlt : ¬ a.data.endMarker < a.maxPages := by omega
      simp only [hlt, if_false] at h
      split at h
      · simp at h
      · rename_i hc
        exfalso; apply hc; exact ⟨hmax, hn⟩

/-- within the limit: a bounded file whose free pages and end marker are within the limit never
    hands out a page beyond it -/
theorem alloc_within_limit_c14 (a : Alloc) (st : TxAlloc) (n : Nat) (a' : Alloc) (st' : TxAlloc) (ids : List Nat)
    (hmax : 0 < a.maxPages) (hend : a.data.endMarker ≤ a.maxPages)
    (h : dataAllocRegions a st n = some (a', st', ids)) : a'.data.endMarker ≤ a.maxPages := by
  unfold dataAllocRegions at h
  split at h
  · simp at h
  · rename_i hav
    simp only [Option.some.injEq, Prod.mk.injEq] at h
    obtain ⟨rfl, _, _⟩ := h
    have hne : ¬ a.maxPages = 0 := by omega
    simp only [Alloc.dataAvail, hne, if_false, Nat.not_lt] at hav
    have : n - min n a.data.free.length ≤ a.maxPages - a.data.endMarker := by
      split at hav <;> omega
    split
    · simp only [bumpMetaEnd]; split <;> (show a.data.endMarker + _ ≤ a.maxPages; omega)
    · show a.data.endMarker + _ ≤ a.maxPages; omega

end TxVerif
