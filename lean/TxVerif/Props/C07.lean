/-
  C07 — Rollback, Close without Commit and a failed Commit leave no trace.
  All three end in `allocator.Rollback` (tie: Tie.commitChanges_rollback, Tie.finishWith_closes,
  skeletons of Tx.Rollback / Tx.Close). `rollback_restores`: whatever sequence of allocator
  operations the transaction performed (allocations from the free list and from the end of the
  file, frees of old and of just-allocated pages, overwrite pages that grow the meta area,
  growth into the overflow area, meta pages for a commit that then fails), rolling back yields
  EXACTLY the allocator state the transaction started from. `abort_keeps_committed`: root,
  mapping, transaction id and every page read through the committed mapping are untouched.
-/
import TxVerif.Proofs.Rollback
import TxVerif.Props.C08
namespace TxVerif

/-- **abort_is_identity (allocator)**: for every well-formed start state, every option set and
    every operation sequence, rollback restores the start state — same free lists (hence the same
    pages available for allocation, in the same order), same end markers, same meta area. -/
theorem abort_is_identity (a0 : Alloc) (hwf : allocWF a0 = true) (overflow : Bool) (growPct : Nat) (ops : List AOp) :
    let s := runAOps (a0, a0.beginTx overflow growPct) ops
    s.1.rollback s.2 = a0 := rollback_restores a0 hwf overflow growPct ops

/-- consequently the next transaction starts from the very same allocator state as if the
    aborted one had never begun: every allocation returns the same pages -/
theorem next_tx_identical (a0 : Alloc) (hwf : allocWF a0 = true) (ov : Bool) (pct : Nat) (ops : List AOp)
    (ov' : Bool) (pct' : Nat) (ops' : List AOp) :
    let s := runAOps (a0, a0.beginTx ov pct) ops
    let a1 := s.1.rollback s.2
    runAOps (a1, a1.beginTx ov' pct') ops' = runAOps (a0, a0.beginTx ov' pct') ops' := by
  simp only [rollback_restores a0 hwf ov pct ops]

/-- engine level: the abort changes nothing a reader of the committed state can observe -/
theorem abort_invisible (f : FileSt) (tx : TxSt) :
    (txAbort f tx).root = f.root ∧ (txAbort f tx).walMap = f.walMap ∧ (∀ id, (txAbort f tx).readPage id = f.readPage id) := by
  have h := abort_keeps_committed f tx
  exact ⟨h.1, h.2.1, h.2.2.2.2.1⟩

/-- non-vacuity: a well-formed state with fragmented free lists and a meta area -/
example : allocWF { maxPages := 40, pageSize := 1024, data := { endMarker := 30, free := [3, 4, 5, 9, 10, 20, 29] },
                    mta := { endMarker := 30, free := [6, 7, 15] }, metaTotal := 5, freelistPages := [8] } = true := by decide

/-- the defect that was repaired (rollback used to leave a page freed past the old end marker in
    the free list): on the repaired model the witness history is restored exactly -/
example :
    let a0 : Alloc := { maxPages := 0, pageSize := 1024, data := { endMarker := 3, free := [] }, mta := {}, metaTotal := 0 }
    let s := runAOps (a0, a0.beginTx false 80) [.allocData 1, .allocData 1, .allocData 1, .freeData 4]
    s.1.rollback s.2 = a0 := by decide

end TxVerif
