/-
  Tie: control skeletons of the functions repaired by `fix:` commits in /repo, regenerated from the
  sources on every run (harness/cmd/extract `flow`). The models (Model/Engine, Resize, AbsorbP,
  CrashFailOpt, PQAck, PQWriterFail) assume these shapes; a lost half of a repair, a moved block or a
  changed comparison breaks one of these theorems at once, after which the check searches the
  implementation for a failing input.
-/
import TxVerif.Gen.Facts
namespace TxVerif.Tie
open TxVerif

/-- the header write of a commit refreshes the in-memory copy of the meta page (aada337) -/
theorem fix_syncNewMeta :
    Facts.fix_syncNewMeta = ["meta.Finalize", "tx.file.writer.Schedule", "tx.file.writer.Sync", "tx.updateMetaCopy"] := by decide

/-- `restoreMeta` writes the old header back, syncs and refreshes the copy (42e3ef9, aada337) -/
theorem fix_restoreMeta :
    Facts.fix_restoreMeta = ["tx.file.writer.Schedule", "tx.file.writer.Sync", "tx.updateMetaCopy"] := by decide

/-- rollback: wait for the transaction's writes and reset the writer's error BEFORE the early return for
    unbounded files (c55b1a6); truncate to the larger of the two end markers (5fbf914) -/
theorem fix_rollbackChanges :
    Facts.fix_rollbackChanges =
      ["tx.writeSync.Wait", "tx.file.writer.Sync", "tx.writeSync.Wait", "tx.file.allocator.Rollback",
       "if(maxPages == 0)", "if(dataEnd > endMarker)", "tx.file.file.Size", "tx.file.file.Truncate"] := by decide

/-- open: mapping, then allocator state, then the precise absorb rule (0babf54) -/
theorem fix_fileInit :
    Facts.fix_fileInit = ["readWALMapping", "readAllocatorState", "f.absorbOverflowArea"] := by decide

/-- the limit update stores the adjusted data end marker with the new limit and waits for the sync (0babf54) -/
theorem fix_initTxMaxSize :
    Facts.fix_initTxMaxSize =
      ["tx.prepareMetaBuffer", "newMeta.maxSize.Set", "f.allocator.dataEndWithOverflowArea", "newMeta.dataEndMarker.Set",
       "tx.syncNewMeta", "tx.writeSync.Wait", "if(err != nil)", "if(err == nil)"] := by decide

/-- the release transaction of a shrinking Open checks every step, in particular the sync of its header -/
theorem fix_initTxReleaseRegions :
    Facts.fix_initTxReleaseRegions =
      ["if(err != nil)", "tx.file.allocator.fileCommitAlloc", "if(err != nil)", "tx.file.allocator.fileCommitSerialize",
       "tx.file.allocator.fileCommitMeta", "tx.syncNewMeta", "if(err != nil)", "tx.writeSync.Wait",
       "tx.file.allocator.Commit"] := by decide

/-- the precise absorb rule: a meta page at or behind the data end, below the meta end and in front of the limit -/
theorem fix_absorb_rule :
    Facts.fix_dataEndWithOverflowArea =
      ["if(dataEnd >= metaEnd)", "if(end <= dataEnd)", "if(id < dataEnd)", "if(id < first)",
       "if(first < metaEnd && (maxPages == 0 || uint(first) < maxPages))"] := by decide

/-- Open compares the requested limit with the limit STORED IN THE HEADER (51d10a6) -/
theorem fix_openWith :
    Facts.fix_openWith =
      ["if(maxSize == 0 && opts.MaxSize > 0)", "if(maxSize > uint64(maxUint))", "newFile",
       "if((!isNew && opts.Flags.check(FlagUpdMaxSize)) && opts.MaxSize != fileMaxSize)",
       "if(opts.MaxSize > 0 && (fileMaxSize == 0 || opts.MaxSize < fileMaxSize))"] := by decide

/-- a page the mapping does not cover is read from the file (f144e6e) -/
theorem fix_txAccess : Facts.fix_txAccess = ["tx.file.mmapedPage", "tx.file.readPage"] := by decide

/-- unmapping switches the meta pages to copies first (aada337) -/
theorem fix_munmap :
    Facts.fix_munmap = ["if(f.mapped != nil && f.meta[0] != nil && f.meta[1] != nil)", "f.file.MUnmap"] := by decide

/-- the ACK bound compares counts (e5d261b) -/
theorem pq_fix_initACK : Facts.pq_fix_initACK = ["if(uint64(n) > pending)"] := by decide

/-- a failed flush with nothing to unassign returns at once (e0c65ae) -/
theorem pq_fix_unassignPages : Facts.pq_fix_unassignPages = ["if(start == nil)"] := by decide

end TxVerif.Tie
