/-
  Tie: facts regenerated from /repo's sources equal what the model assumes.
-/
import TxVerif.Gen.Facts
import TxVerif.Model.Meta
namespace TxVerif.Tie
open TxVerif

theorem meta_layout : Facts.layout_metaPage = metaLayout := by decide
theorem meta_magic : Facts.const_magic = metaMagic := by decide
theorem meta_version : Facts.const_version = metaVersion := by decide
/-- the checksum covers exactly the bytes before the `checksum` field, with FNV-1a/32 -/
theorem checksum_coverage : Facts.checksumCoversUpTo = "checksum" := by decide
/-- `Validate` checks magic, version and checksum (in this order) and nothing else -/
theorem validate_checks :
    Facts.validateChecks = ["m.magic.Get() != magic", "m.version.Get() != version",
                            "m.checksum.Get() != m.computeChecksum()"] := by decide

end TxVerif.Tie
