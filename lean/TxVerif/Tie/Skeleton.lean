/-
  Tie: on the skeletons regenerated from /repo's sources, every path through
  the functions that take and release locks has the net effect the protocol
  model (Model/Lock.lean) assumes. Finite checks by `decide`.
-/
import TxVerif.Gen.Facts
import TxVerif.Model.Skeleton
namespace TxVerif.Tie
open TxVerif

/-- named cleanups that release a lock -/
def normalize (es : List Eff) : List Eff := es.map fun e =>
  match e with
  | .did "file.Unlock" => .rel "pathlock"
  | .did "lock.Unlock" => .rel "txlock"
  | e => e

/-- `beginTx`: takes the transaction lock exactly once (or returns before, for a write
    transaction on a read-only file) and does not release it when it succeeds -/
theorem beginTx_ops : ∀ b ∈ behaviours Facts.ev_File_beginTx,
    lockOps (normalize b) = [] ∨ lockOps (normalize b) = [.acq "txlock"] := by decide

/-- `Tx.close` releases the transaction lock -/
theorem txClose_ops : ∀ b ∈ behaviours Facts.ev_Tx_close, lockOps b = [.rel "txlock"] := by decide

/-- `finishWith` (Commit, Rollback, Close): `tx.close` runs exactly once on every path
    except the first one (transaction already finished), where nothing happens -/
theorem finishWith_closes : ∀ b ∈ behaviours Facts.ev_Tx_finishWith,
    didCount "tx.close" b = 1 ∨ b = [] := by decide

/-- `commitChanges`: `rollbackChanges` runs iff `tryCommitChanges` failed -/
theorem commitChanges_rollback : behaviours Facts.ev_Tx_commitChanges =
    [[.did "tx.tryCommitChanges"], [.did "tx.tryCommitChanges", .did "tx.rollbackChanges"],
     [.did "tx.tryCommitChanges"], [.did "tx.tryCommitChanges", .did "tx.rollbackChanges"]] := by decide

/-- `tryCommitChanges`: on every path pending is set first and cleared last; the exclusive
    lock, if taken, is taken after pending and released before it -/
theorem tryCommit_lock_ops : ∀ b ∈ behaviours Facts.ev_Tx_tryCommitChanges,
    lockOps b = [.acq "pending", .rel "pending"] ∨
    lockOps b = [.acq "pending", .acq "exclusive", .rel "exclusive", .rel "pending"] := by decide

/-- `withInitTx` (open-time max-size update): every path restores the pending and exclusive
    locks and closes the transaction it began -/
theorem withInitTx_balanced : ∀ b ∈ behaviours Facts.ev_withInitTx,
    net "pending" b = 0 ∧ net "exclusive" b = 0 ∧ (didCount "tx.close" b = 1 ∨ lockOps b = []) := by decide

/-- `File.Close`: reserved, pending, exclusive are taken in this order and released in reverse
    order; the path lock is released and the file closed in between -/
theorem fileClose_ops : ∀ b ∈ behaviours Facts.ev_File_Close,
    lockOps b = [.acq "reserved", .acq "pending", .acq "exclusive", .rel "pathlock",
                 .rel "exclusive", .rel "pending", .rel "reserved"] ∧ didCount "file.Close" b = 1 := by decide

/-- `Open` (C18): the path lock is held after Open iff Open succeeded: every failing path
    that acquired it releases it again (and closes the file) -/
theorem open_pathlock : ∀ b ∈ behaviours Facts.ev_Open,
    (net "pathlock" (normalize b) = 1 ∧ didCount "openWith" b = 1 ∧ didCount "file.Close" b = 0) ∨
    (net "pathlock" (normalize b) = 0 ∧ (didCount "file.Close" b = 1 ∨ b = [] ∨ b = [.did "osfs.Open"])) := by decide

/-- there is a path on which Open keeps the lock (the success path) -/
theorem open_success_path : ∃ b ∈ behaviours Facts.ev_Open, net "pathlock" (normalize b) = 1 := by decide

/-- the failing max-size update inside `openWith` closes the File (which releases the path lock) -/
theorem openWith_resize_cleanup : ∃ e ∈ Facts.ev_openWith, e = Ev.deferIfNot "ok" "f.Close" := by decide

end TxVerif.Tie
