/-
  Tie: order of the commit steps and the sort used by the background writer,
  regenerated from /repo's sources.
-/
import TxVerif.Gen.Facts
namespace TxVerif.Tie
open TxVerif

/-- the in-memory switch to the new mapping / meta page happens after `exclusive.Lock`,
    which comes after `pending.Lock` and after the wait for the final sync (C02, C01) -/
theorem switch_after_exclusive :
    Facts.order_switch = ["pending.Lock", "wait-synced", "commit-alloc", "exclusive.Lock", "switch-wal", "switch-meta"] := by
  decide

/-- commit to file: allocate meta pages, serialise mapping and free lists, sync the data,
    only then fill in and write the new header (C01: header after data sync) -/
theorem commit_to_file_order :
    Facts.order_tryCommitChangesToFile =
      ["tx.file.wal.fileCommitAlloc", "tx.file.allocator.fileCommitAlloc", "tx.file.wal.fileCommitSerialize",
       "tx.file.allocator.fileCommitSerialize", "tx.file.writer.Sync", "tx.file.wal.fileCommitMeta",
       "tx.file.allocator.fileCommitMeta", "tx.syncNewMeta"] := by decide

/-- the header is finalised (checksum), scheduled and followed by a sync -/
theorem sync_new_meta_order :
    Facts.order_syncNewMeta = ["meta.Finalize", "tx.file.writer.Schedule", "tx.file.writer.Sync"] := by decide

/-- the writer sorts each batch with the stable sort (writer_order needs stability) -/
theorem writer_sort_stable : Facts.writerSort = "sort.SliceStable" := by decide

/-- `tryCommitChanges`: pending lock; (deferred cleanup: wait / reset sync); flush; prepare WAL and
    allocator; commit to file; wait for the final sync; commit the allocator in memory; exclusive lock;
    switch the mapping; file size / mmap update -/
theorem try_commit_order :
    Facts.order_tryCommitChanges =
      ["pending.Lock", "tx.writeSync.Wait", "tx.file.writer.Sync", "tx.writeSync.Wait", "tx.flushPages",
       "tx.commitPrepareWAL", "tx.commitPrepareAlloc", "tx.tryCommitChangesToFile", "tx.writeSync.Wait",
       "tx.file.allocator.Commit", "exclusive.Lock", "tx.file.wal.Commit", "tx.file.truncate",
       "tx.file.mmapUpdate"] := by decide

end TxVerif.Tie
