/-
  Tie: the transaction structure of the queue operations, regenerated from /repo/pq.
-/
import TxVerif.Gen.Facts
namespace TxVerif.Tie
open TxVerif

/-- a flush is ONE write transaction: allocate, write pages, update the root header, commit -/
theorem pq_flush_is_one_tx :
    Facts.pq_order_doFlush = ["w.accessor.BeginWrite", "tx.Close", "w.accessor.LoadRootPage", "allocatePages",
                              "flushPages", "w.updateRootHdr", "tx.Commit"] := by decide

/-- an ACK plans in a read transaction and applies in ONE cleanup transaction; the callback
    runs after the commit -/
theorem pq_ack_is_one_tx :
    Facts.pq_order_cleanup = ["a.initACK", "a.accessor.BeginCleanup", "tx.Close", "page.Free",
                              "a.accessor.LoadRootPage", "tx.Commit", "a.ackCB"] ∧
    Facts.pq_order_initACK = ["a.accessor.BeginRead", "tx.Close"] := by decide

/-- the Flushed callback runs after the flush (and only if it succeeded: it follows doFlush) -/
theorem pq_flush_callback_after : Facts.pq_order_flushBuffer = ["w.doFlush", "w.flushCB"] := by decide

theorem pq_layout_facts :
    Facts.pq_layout_eventPage = [("next", 8), ("first", 8), ("last", 8), ("off", 4)] ∧
    Facts.pq_layout_eventHeader = [("sz", 4)] ∧
    Facts.pq_layout_queuePage = [("version", 4), ("head", 16), ("tail", 16), ("read", 16), ("inuse", 8)] ∧
    Facts.pq_layout_pos = [("offset", 8), ("id", 8)] := by decide

end TxVerif.Tie
