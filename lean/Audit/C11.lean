import TxVerif.Props.C11
import TxVerif.Tie.Skeleton
import TxVerif.Props.C11History
import TxVerif.Props.C11Engine
open TxVerif
#print axioms space_eq
#print axioms alloc_accounting
#print axioms alloc_reduces_avail
#print axioms free_returns
#print axioms rollback_accounting
#print axioms extent_bounded
#print axioms transfer_accounting
#print axioms op_keeps_invariant
#print axioms live_count
#print axioms ops_keep_invariant
#print axioms commit_accounting
#print axioms commit_accounting_min
#print axioms rollback_accounting_ledger
#print axioms quiet_allocWF
#print axioms tx_keeps_quiet
#print axioms history_accounted
#print axioms history_space_eq
#print axioms quiet_congr_sets
#print axioms eacc_begin
#print axioms eacc_eff
#print axioms eexact_eff
#print axioms eacc_alloc
#print axioms eacc_free
#print axioms doFlush_eff
#print axioms eacc_flushList
#print axioms eacc_flushPageOp
#print axioms eacc_doCheckpoint
#print axioms eacc_step
#print axioms eacc_ops
#print axioms eacc_fileCommit
#print axioms cWalUpd_cAllocUpd
#print axioms eacc_commit
#print axioms eacc_length
#print axioms commit_ok_maxPages
#print axioms engAcc_quiet
#print axioms engAcc_accounted
#print axioms engAcc_space_eq
#print axioms engAcc_meta_exact
#print axioms engAcc_create
#print axioms engAcc_run
#print axioms c11_engine_in_tx
#print axioms c11_engine_tx_commit
#print axioms c11_engine_tx_abort
#print axioms c11_engine_tx_abort_flushed
#print axioms c11_engine_tx_failed_commit
#print axioms c11_engine_runTxn
#print axioms c11_engine_history
#print axioms c11_engine_space_eq
#print axioms c11_engine_space_eq_created
#print axioms runTxn_maxPages
#print axioms runHistory_maxPages
#print axioms c11_engine_space_eq_limit
