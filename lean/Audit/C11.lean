import TxVerif.Props.C11
import TxVerif.Tie.Skeleton
import TxVerif.Props.C11History
open TxVerif
#print axioms space_eq
#print axioms alloc_accounting
#print axioms alloc_reduces_avail
#print axioms free_returns
#print axioms rollback_accounting
#print axioms extent_bounded
#print axioms transfer_accounting
#print axioms op_keeps_invariant
#print axioms live_count
#print axioms ops_keep_invariant
#print axioms commit_accounting
#print axioms commit_accounting_min
#print axioms rollback_accounting_ledger
#print axioms quiet_allocWF
#print axioms tx_keeps_quiet
#print axioms history_accounted
#print axioms history_space_eq
