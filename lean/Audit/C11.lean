import TxVerif.Props.C11
import TxVerif.Tie.Skeleton
open TxVerif
#print axioms space_eq
#print axioms alloc_accounting
#print axioms alloc_reduces_avail
#print axioms free_returns
#print axioms rollback_accounting
#print axioms extent_bounded
#print axioms transfer_accounting
