import TxVerif.Props.C16
import TxVerif.Tie.Layout
open TxVerif
#print axioms single_byte_damage_detected
#print axioms choose_only_slot0
#print axioms choose_only_slot1
#print axioms choose_none
#print axioms chosen_is_valid
#print axioms txNewer_succ
#print axioms newest_wins_slot0
#print axioms newest_wins_slot1
#print axioms exists_valid_garbage
#print axioms Meta.encode_eq_layout
#print axioms metaLayout_checksumOff
#print axioms Tie.meta_layout
#print axioms Tie.meta_magic
#print axioms Tie.meta_version
#print axioms Tie.checksum_coverage
#print axioms Tie.validate_checks
