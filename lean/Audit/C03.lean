import TxVerif.Props.C03
import TxVerif.Tie.Order
open TxVerif
#print axioms writer_order
#print axioms writer_order_last
#print axioms stableSort_filter
#print axioms applyWrites_stableSort
#print axioms getPage_spec
#print axioms read_after_write
#print axioms read_untouched
#print axioms Tie.writer_sort_stable
