import TxVerif.Props.C03
import TxVerif.Tie.Order
import TxVerif.Props.C03Refine
import TxVerif.Props.C04C07Engine
open TxVerif
#print axioms writer_order
#print axioms writer_order_last
#print axioms stableSort_filter
#print axioms applyWrites_stableSort
#print axioms getPage_spec
#print axioms read_after_write
#print axioms read_untouched
#print axioms Tie.writer_sort_stable
#print axioms c03_commit_publishes
#print axioms c03_abort_restores
#print axioms c03_failed_commit_restores
#print axioms c03_commit_invariant_partial
#print axioms c03_untouched_kept
#print axioms c03_last_write
#print axioms c03_last_write_full
#print axioms c03_freed_gone
#print axioms engInv_create
#print axioms runTxn_inv
#print axioms c03_history_partial
#print axioms runInv_start
#print axioms engInv_create_nometa
#print axioms engInv_create_any
