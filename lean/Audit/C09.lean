import TxVerif.Props.C09
import TxVerif.Props.C09Live
import TxVerif.Tie.Skeleton
import TxVerif.Props.C02Conc
open TxVerif
#print axioms lockInv_step
#print axioms lockInv_reach
#print axioms fire_is_ops
#print axioms one_writer
#print axioms shared_count_exact
#print axioms idle_when_quiescent
#print axioms switch_only_without_readers
#print axioms reader_excludes_switch
#print axioms no_deadlock
#print axioms holders_progress
#print axioms step_decreases
#print axioms steps_bounded
#print axioms stuck_all_finished
#print axioms eventually_idle
#print axioms maximal_run_finishes
#print axioms Tie.beginTx_ops
#print axioms Tie.txClose_ops
#print axioms Tie.finishWith_closes
#print axioms Tie.commitChanges_rollback
#print axioms Tie.tryCommit_lock_ops
#print axioms Tie.withInitTx_balanced
#print axioms Tie.fileClose_ops
#print axioms conc_invariant
#print axioms econc_no_deadlock
#print axioms econc_terminates
