import TxVerif.Props.C02
import TxVerif.Tie.Order
import TxVerif.Tie.Skeleton
open TxVerif
#print axioms isoInv_step
#print axioms isoInv_reach
#print axioms reader_view_stable
#print axioms version_changes_only_by_publish
#print axioms switch_only_without_readers
#print axioms reader_excludes_switch
#print axioms Tie.switch_after_exclusive
#print axioms Tie.tryCommit_lock_ops
#print axioms Tie.beginTx_ops
#print axioms Tie.txClose_ops
