import TxVerif.Props.C02
import TxVerif.Tie.Order
import TxVerif.Tie.Skeleton
import TxVerif.Props.C10C02Engine
import TxVerif.Props.C02Conc
open TxVerif
#print axioms isoInv_step
#print axioms isoInv_reach
#print axioms reader_view_stable
#print axioms version_changes_only_by_publish
#print axioms switch_only_without_readers
#print axioms reader_excludes_switch
#print axioms Tie.switch_after_exclusive
#print axioms Tie.tryCommit_lock_ops
#print axioms Tie.beginTx_ops
#print axioms Tie.txClose_ops
#print axioms c02_writer_invisible
#print axioms c02_reader_root
#print axioms c02_reader_view
#print axioms c02_writer_invisible_flush
#print axioms c02_writer_invisible_end
#print axioms conc_invariant
#print axioms conc_engInvU
#print axioms conc_engInvO
#print axioms conc_snapshot_isolation
#print axioms conc_reader_view_stable
#print axioms conc_reader_pages_never_written
#print axioms reader_never_spans_commit
#print axioms conc_publish_atomic
#print axioms conc_version_counts_commits
#print axioms conc_writer_is_sequential
#print axioms conc_final_state
#print axioms runWHistory_commit_only
#print axioms econc_no_deadlock
#print axioms econc_terminates
#print axioms cinv_init
#print axioms run_cinv
#print axioms step_cinv
#print axioms cur_r0
#print axioms read_ok
#print axioms U.commit_disk
#print axioms stepW_frame
#print axioms stepR_frame
#print axioms run_engInvO
#print axioms cinv_no_deadlock
#print axioms estep_mu
#print axioms ec_effSteps_le
#print axioms stepW_seq
#print axioms run_seqInv
