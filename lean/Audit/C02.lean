import TxVerif.Props.C02
import TxVerif.Tie.Order
import TxVerif.Tie.Skeleton
import TxVerif.Props.C10C02Engine
open TxVerif
#print axioms isoInv_step
#print axioms isoInv_reach
#print axioms reader_view_stable
#print axioms version_changes_only_by_publish
#print axioms switch_only_without_readers
#print axioms reader_excludes_switch
#print axioms Tie.switch_after_exclusive
#print axioms Tie.tryCommit_lock_ops
#print axioms Tie.beginTx_ops
#print axioms Tie.txClose_ops
#print axioms c02_writer_invisible
#print axioms c02_reader_root
#print axioms c02_reader_view
#print axioms c02_writer_invisible_flush
#print axioms c02_writer_invisible_end
