import TxVerif.Props.C07
import TxVerif.Tie.Skeleton
open TxVerif
#print axioms abort_is_identity
#print axioms next_tx_identical
#print axioms abort_invisible
#print axioms rollback_restores
#print axioms inv_apply
#print axioms rollback_of_inv
#print axioms Tie.commitChanges_rollback
#print axioms Tie.finishWith_closes
