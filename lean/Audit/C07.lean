import TxVerif.Props.C07
import TxVerif.Tie.Skeleton
import TxVerif.Props.C04C07Engine
import TxVerif.Props.C03History
import TxVerif.Props.Lifetime
import TxVerif.Tie.Fixes
open TxVerif
#print axioms abort_is_identity
#print axioms next_tx_identical
#print axioms abort_invisible
#print axioms rollback_restores
#print axioms inv_apply
#print axioms rollback_of_inv
#print axioms Tie.commitChanges_rollback
#print axioms Tie.finishWith_closes
#print axioms c07_abort_identity_engine
#print axioms c07_failed_commit_identity_engine
#print axioms c07_next_tx_identical
#print axioms c07_next_tx_identical_failed
#print axioms c07_next_tx_reads
#print axioms c07_next_tx_allocs
#print axioms c07_next_tx_commit
#print axioms engInvO_of_engInv
#print axioms c03o_abort_restores
#print axioms c03o_failed_commit_restores
#print axioms runTxnO_inv
#print axioms c03_history
#print axioms c07o_abort_identity_engine
#print axioms c07o_failed_commit_identity_engine
#print axioms c07o_next_tx_identical
#print axioms c07o_next_tx_identical_failed
#print axioms c03_history_publishes
#print axioms c03_history_untouched
#print axioms c07_history_restored
#print axioms c07_history_next_identical
#print axioms lifetime_invariant
#print axioms lifetime_invariant_created
#print axioms c07u_abort_identity_engine
#print axioms c07u_failed_commit_identity_engine
#print axioms c07u_next_tx_identical
#print axioms c07u_next_tx_identical_failed
#print axioms runTxnO_of_not_commitsU
#print axioms lifetime_abort_restores
#print axioms Tie.fix_rollbackChanges
#print axioms Tie.fix_restoreMeta
