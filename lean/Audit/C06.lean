import TxVerif.Props.C06
import TxVerif.Tie.PQ
open TxVerif
#print axioms queue_crash
#print axioms queue_resume
#print axioms queue_pending_after_reopen
#print axioms crash_recovers
#print axioms layout_entry
#print axioms Tie.pq_flush_is_one_tx
#print axioms Tie.pq_ack_is_one_tx
#print axioms Tie.pq_layout_facts
