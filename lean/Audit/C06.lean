import TxVerif.Props.C06
import TxVerif.Tie.PQ
import TxVerif.Props.PQQueueCrash
open TxVerif
#print axioms queue_crash
#print axioms queue_resume
#print axioms queue_pending_after_reopen
#print axioms crash_recovers
#print axioms layout_entry
#print axioms Tie.pq_flush_is_one_tx
#print axioms Tie.pq_ack_is_one_tx
#print axioms Tie.pq_layout_facts
#print axioms BufInv_reopen_of
#print axioms sim_crash
#print axioms queue_sim_cstep
#print axioms queue_refines_from_crash
#print axioms queue_refines_fifo_crash
#print axioms QCReach.inv
#print axioms QCReach.step
#print axioms queue_drain_from
#print axioms durable_events_index
#print axioms queue_crash_durable
#print axioms queue_crash_no_acked_again
#print axioms queue_crashDuring_drain
#print axioms queue_crash_flush_atomic
#print axioms queue_crash_ack_atomic
#print axioms queue_crash_write_atomic
#print axioms queue_crash_next_atomic
#print axioms spec_write_next_flush
#print axioms queue_crash_writer_continues
#print axioms queue_crash_example
#print axioms queue_crash_reach_example
