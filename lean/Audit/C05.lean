import TxVerif.Props.C05Layout
import TxVerif.Props.C05Writer
open TxVerif
#print axioms layout_roundtrip
#print axioms layout_roundtrip_via
#print axioms layout_roundtrip_read
#print axioms layout_roundtrip_ids
#print axioms layout_pages_full
#print axioms layout_header_fields
#print axioms layout_entry
#print axioms layout_page_bound
#print axioms layout_append
#print axioms writer_persisted_prefix
#print axioms writer_refines_layout
#print axioms writer_tail_offset
#print axioms writer_beyond_tail
#print axioms writer_fifo
#print axioms writer_fifo_disk
#print axioms writer_fifo_via
#print axioms writer_fifo_ids
#print axioms writer_output_events_only
#print axioms flush_mid_event_harmless
#print axioms flush_anywhere_harmless
#print axioms writer_chunks_flatten
#print axioms writer_chunking_independent
