import TxVerif.Props.C05Layout
open TxVerif
#print axioms layout_roundtrip
#print axioms layout_roundtrip_via
#print axioms layout_roundtrip_read
#print axioms layout_roundtrip_ids
#print axioms layout_pages_full
#print axioms layout_header_fields
#print axioms layout_entry
#print axioms layout_page_bound
#print axioms layout_append
