import TxVerif.Props.C12
import TxVerif.Tie.PQ
open TxVerif
#print axioms ack_space_bound
#print axioms ack_keeps_unacked
#print axioms ack_keeps_write_page
#print axioms cleanup_progress
#print axioms ensure_with_overflow
#print axioms ackPlan_cleanAll
#print axioms ackInit_layout
#print axioms ackPlan_freed_acked
