import TxVerif.Props.C12
import TxVerif.Tie.PQ
import TxVerif.Props.C12Writer
import TxVerif.Props.PQQueueRefine
import TxVerif.Tie.Fixes
import TxVerif.Props.PQQueueSpace
import TxVerif.Proofs.PQQueueConcFail
open TxVerif
#print axioms ack_space_bound
#print axioms ack_keeps_unacked
#print axioms ack_keeps_write_page
#print axioms cleanup_progress
#print axioms ensure_with_overflow
#print axioms ackPlan_cleanAll
#print axioms ackInit_layout
#print axioms ackPlan_freed_acked
#print axioms failed_flush_keeps_state
#print axioms failed_write_keeps_state
#print axioms failed_next_finishes_event
#print axioms failed_flush_identity
#print axioms assigned_only_head
#print axioms writer_persisted_prefix_fail
#print axioms flush_success_delivers
#print axioms writer_refines_layout_fail
#print axioms next_autoflush_delivers
#print axioms no_loss_no_duplicate
#print axioms no_loss_no_duplicate_via
#print axioms retry_succeeds_equal
#print axioms retry_succeeds_equal_ok
#print axioms writer_output_events_only_fail
#print axioms failed_flush_range_monotone
#print axioms flush_reports_delivered_count
#print axioms effOps_eq
#print axioms runF_liftOk
#print axioms queue_sim_step
#print axioms queue_refines_fifo
#print axioms queue_pages_in_use
#print axioms queue_ack_frees
#print axioms queue_reach_example
#print axioms ack_plan_C
#print axioms queue_reader_page_live
#print axioms Tie.pq_fix_unassignPages
#print axioms Tie.fix_rollbackChanges
#print axioms hdr_page_fields
#print axioms ack_head_ge
#print axioms layoutFrom_reserve
#print axioms chain_pages_from
#print axioms chain_pages_bound
#print axioms queue_space_inv
#print axioms queue_space_bound_inv
#print axioms queue_space_bound
#print axioms queue_space_bound_crash
#print axioms queue_space_bound_conc
#print axioms queue_drained_small
#print axioms queue_ack_monotone
#print axioms queue_flush_pages
#print axioms space_bound_tight
#print axioms space_small_tight
#print axioms space_last_acked_needed
#print axioms space_divisor
#print axioms QInv_sameBuf
#print axioms sim_flush_failed
#print axioms sim_next_failed
