import TxVerif.Props.C15
import TxVerif.Tie.Skeleton
import TxVerif.Tie.Fixes
open TxVerif
#print axioms finished_tx_rejects
#print axioms close_idempotent
#print axioms readonly_rejects_writes
#print axioms finished_page_rejects
#print axioms readonly_page_rejects
#print axioms freed_or_flushed_rejects
#print axioms free_dirty_rejects
#print axioms oversize_rejects
#print axioms read_fresh_rejects
#print axioms page_out_of_range
#print axioms page_freed_rejected
#print axioms Tie.guards_present
#print axioms Tie.close_keeps_file
#print axioms Tie.pq_guards_present
#print axioms Tie.pq_fix_initACK
