import TxVerif.Props.C15
import TxVerif.Tie.Skeleton
import TxVerif.Tie.Fixes
import TxVerif.Props.C15Engine
open TxVerif
#print axioms finished_tx_rejects
#print axioms close_idempotent
#print axioms readonly_rejects_writes
#print axioms finished_page_rejects
#print axioms readonly_page_rejects
#print axioms freed_or_flushed_rejects
#print axioms free_dirty_rejects
#print axioms oversize_rejects
#print axioms read_fresh_rejects
#print axioms page_out_of_range
#print axioms page_freed_rejected
#print axioms Tie.guards_present
#print axioms Tie.close_keeps_file
#print axioms Tie.pq_guards_present
#print axioms Tie.pq_fix_initACK
#print axioms c15e_eop_error_no_change
#print axioms c15e_alloc_oom_no_change
#print axioms c15e_flush_oom_partial
#print axioms c15e_kind_pageid
#print axioms c15e_kind_freed
#print axioms c15e_kind_flushed
#print axioms c15e_kind_free_dirty
#print axioms c15e_kind_read_fresh
#print axioms c15e_kind_alloc_oom
#print axioms c15e_kind_flush_oom
#print axioms c15e_kinds_complete
#print axioms c15e_guard_matrix_consistent
#print axioms c15e_rejected_ops_invisible
#print axioms c15e_rejected_op_invisible
#print axioms c15e_rejected_op_invisible_traced
#print axioms c15e_rejected_keeps_invariant
#print axioms c15e_flush_oom_changes
#print axioms stepT_step
#print axioms stepT_error_step
#print axioms stepT_error_state
#print axioms stepT_flushAll_error
#print axioms flushListSt_spec
#print axioms inserted_run
#print axioms runinv_stepT
#print axioms rejected_of_error
#print axioms getPage_ok
#print axioms result_not_error
