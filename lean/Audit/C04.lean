import TxVerif.Props.C04
import TxVerif.Tie.Skeleton
import TxVerif.Props.C04C07Engine
import TxVerif.Props.C03History
import TxVerif.Props.Lifetime
open TxVerif
#print axioms alloc_fresh_c04
#print axioms alloc_not_in_use
#print axioms allocs_disjoint
#print axioms alloc_within_limit_c04
#print axioms free_list_wellformed_in_tx
#print axioms rollback_restores
#print axioms c04_alloc_fresh
#print axioms c04_owned_never_returned
#print axioms c04_content_only_by_write
#print axioms c04_content_only_by_write_abort
#print axioms c04_content_only_by_write_failed
#print axioms c04_history_alloc_fresh_partial
#print axioms engInvO_of_engInv
#print axioms engInvO_create_any
#print axioms c03o_commit_invariant
#print axioms runTxnO_inv
#print axioms c04o_alloc_fresh
#print axioms c04o_owned_never_returned
#print axioms c04o_alloc_below_limit
#print axioms c04_history_alloc_fresh
#print axioms lifetime_invariant
#print axioms lifetime_invariant_created
#print axioms c04u_alloc_fresh
#print axioms c04u_owned_never_returned
#print axioms c04u_alloc_no_extension
#print axioms lifetime_alloc_fresh
#print axioms lifetime_alloc_no_extension
