import TxVerif.Props.C04
import TxVerif.Tie.Skeleton
open TxVerif
#print axioms alloc_fresh_c04
#print axioms alloc_not_in_use
#print axioms allocs_disjoint
#print axioms alloc_within_limit_c04
#print axioms free_list_wellformed_in_tx
#print axioms rollback_restores
