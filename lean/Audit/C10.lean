import TxVerif.Props.C10
open TxVerif
#print axioms region_roundtrip
#print axioms region_enc_size
#print axioms wal_entry_roundtrip
#print axioms writePages_read
#print axioms freelist_roundtrip
#print axioms wal_roundtrip
#print axioms freelist_nopages_drops
#print axioms reopen_identity
#print axioms runs_denote
#print axioms absorb_keeps
#print axioms absorb_id
#print axioms absorb_no_collision
