import TxVerif.Props.C10
import TxVerif.Props.C10C02Engine
open TxVerif
#print axioms region_roundtrip
#print axioms region_enc_size
#print axioms wal_entry_roundtrip
#print axioms writePages_read
#print axioms freelist_roundtrip
#print axioms wal_roundtrip
#print axioms freelist_nopages_drops
#print axioms reopen_identity
#print axioms runs_denote
#print axioms absorb_keeps
#print axioms absorb_id
#print axioms absorb_no_collision
#print axioms c10_reopen_keeps_invariant
#print axioms c10_reopen_logical
#print axioms c10_reopen_state
#print axioms c10_reopen_alloc_iff
#print axioms c10_reopen_exact
#print axioms c10_reopen_run
#print axioms c10_reopen_observational
#print axioms c10_reopen_observational_truthful
#print axioms c10_reopen_reads
#print axioms c10_reopen_allocs
#print axioms c10_reopen_commit
#print axioms c10_allocatable_same
#print axioms c10_history_reopen
#print axioms c10_history_insert_reopen
#print axioms c10_history_nogap_partial
#print axioms c10_history_reopen_anywhere_partial
#print axioms c10_history_reopen_created_partial
#print axioms noGap_create
#print axioms c10_gap_example
