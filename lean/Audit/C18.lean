import TxVerif.Props.C18
import TxVerif.Tie.Skeleton
open TxVerif
#print axioms lock_iff_open
#print axioms second_open_fails
#print axioms reopen_after_close_or_failure
#print axioms failed_open_changes_nothing
#print axioms Tie.open_pathlock
#print axioms Tie.open_success_path
#print axioms Tie.openWith_resize_cleanup
#print axioms Tie.fileClose_ops
