import TxVerif.Props.C14
import TxVerif.Tie.Skeleton
import TxVerif.Props.C14Release
open TxVerif
#print axioms resize_preserves
#print axioms resize_no_collision
#print axioms limit_persisted
#print axioms grow_exact
#print axioms shrink_no_growth
#print axioms shrink_no_growth_continuous
#print axioms alloc_within_limit_c14
#print axioms Tie.withInitTx_balanced
#print axioms Tie.beginTx_ops
#print axioms releaseOverflow_subset
#print axioms releaseOverflow_contiguous
#print axioms releaseOverflow_maximal
#print axioms commit_keeps_live_data
#print axioms commit_keeps_data_pages
#print axioms commit_lists_prefix
#print axioms commit_keeps_live_meta
#print axioms commit_ends_bounded
#print axioms absorb_meta_below_end
#print axioms absorb_meta_below_end_grown
#print axioms absorb_end_fresh
#print axioms absorb_alloc_fresh
