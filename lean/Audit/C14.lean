import TxVerif.Props.C14
import TxVerif.Tie.Skeleton
open TxVerif
#print axioms resize_preserves
#print axioms limit_persisted
#print axioms grow_exact
#print axioms shrink_no_growth
#print axioms shrink_no_growth_continuous
#print axioms alloc_within_limit_c14
#print axioms Tie.withInitTx_balanced
#print axioms Tie.beginTx_ops
