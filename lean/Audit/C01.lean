import TxVerif.Props.C01
import TxVerif.Tie.Order
import TxVerif.Tie.Layout
open TxVerif
#print axioms safe_step
#print axioms safe_run
#print axioms safe_crash
#print axioms run_prefix
#print axioms crash_recovers
#print axioms recovered_operational
#print axioms safe_init
#print axioms Tie.commit_to_file_order
#print axioms Tie.sync_new_meta_order
#print axioms Tie.try_commit_order
#print axioms Tie.writer_sort_stable
#print axioms Tie.meta_layout
