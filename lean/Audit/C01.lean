import TxVerif.Props.C01
import TxVerif.Tie.Order
import TxVerif.Tie.Layout
import TxVerif.Props.C01Engine
import TxVerif.Props.C01EngineDfn
import TxVerif.Tie.Fixes
import TxVerif.Props.C14Crash
open TxVerif
#print axioms safe_step
#print axioms safe_run
#print axioms safe_crash
#print axioms run_prefix
#print axioms crash_recovers
#print axioms recovered_operational
#print axioms safe_init
#print axioms Tie.commit_to_file_order
#print axioms Tie.sync_new_meta_order
#print axioms Tie.try_commit_order
#print axioms Tie.writer_sort_stable
#print axioms Tie.meta_layout
#print axioms natPair_inj
#print axioms contentHash_inj
#print axioms hash_kinds
#print axioms run_clear
#print axioms run_flat
#print axioms run_commit
#print axioms run_named
#print axioms et_doFlush
#print axioms et_ops
#print axioms et_commit_ok
#print axioms et_txn_shape
#print axioms engOk_next
#print axioms et_txn_accepted
#print axioms histReach_spec
#print axioms et_history_accepted
#print axioms histTrace_hdr
#print axioms engine_txn_accepted
#print axioms engine_history_accepted
#print axioms engine_history_accepted_from
#print axioms engine_histReach
#print axioms engine_cfg_safe
#print axioms engine_ofFile_ok
#print axioms engine_crash_atomic
#print axioms engine_crash_reads
#print axioms engine_commit_publishes
#print axioms c01E0_ok
#print axioms etTrack_step
#print axioms etTrack_commit
#print axioms dirtyAt_ops
#print axioms engNext_dfn_complete
#print axioms txnDirty_of_write
#print axioms engRun_dfn_mono
#print axioms engine_dfn_complete
#print axioms txnDirty_owned
#print axioms engine_dfn_written
#print axioms engine_dfn_history
#print axioms engine_dfn_ofFile
#print axioms engine_crash_reads_state
#print axioms engine_crash_reads_committed
#print axioms txnDirty_iff
#print axioms et_position
#print axioms engine_crash_position
#print axioms engine_crash_end
#print axioms engine_history_is_runHistoryO
#print axioms engine_clear_writes_any_order
#print axioms c01B0_ok
#print axioms Tie.fix_rollbackChanges
#print axioms Tie.fix_syncNewMeta
#print axioms Tie.fix_restoreMeta
#print axioms life_trace_accepted
#print axioms life_trace_accepted_ofFile
#print axioms life_crash_atomic
#print axioms life_crash_reads
#print axioms life_crash_end
#print axioms resize_crash_atomic
