import TxVerif.Props.C13
import TxVerif.Tie.PQ
import TxVerif.Props.C13Stale
import TxVerif.Props.PQQueueConc
import TxVerif.Proofs.PQQueueConcFail
import TxVerif.Props.PQQueueConcF
open TxVerif
#print axioms pq_writers_exclusive
#print axioms pq_no_deadlock
#print axioms pq_ack_keeps_write_page
#print axioms pq_ack_only_acked
#print axioms pq_append_preserves_prefix
#print axioms reader_view_stable
#print axioms ackInit_layout
#print axioms Tie.pq_flush_is_one_tx
#print axioms Tie.pq_ack_is_one_tx
#print axioms stale_plan_prefix
#print axioms stale_plan_eq
#print axioms stale_no_leak
#print axioms stale_cleanAll
#print axioms stale_cleanAll_beyond_tail
#print axioms stale_cleanAll_shape
#print axioms stale_positions_valid
#print axioms stale_ack_delivers
#print axioms layoutFrom_extends
#print axioms chainExt_iff_flush
#print axioms Extends.chainExt
#print axioms sim_pstep
#print axioms pstep_facts
#print axioms ack_decomp
#print axioms planOK_init
#print axioms planOK_grow
#print axioms sim_ackApply
#print axioms linearize_inv
#print axioms stepP_inv
#print axioms stepC_inv
#print axioms step_inv
#print axioms conc_inv
#print axioms conc_linearizable
#print axioms CReach.inv
#print axioms conc_counters
#print axioms runLin_events
#print axioms conc_events
#print axioms conc_fifo
#print axioms reader_page_live_of_inv
#print axioms conc_ack_safe
#print axioms conc_no_deadlock
#print axioms step_mu
#print axioms effSteps_le
#print axioms conc_terminates
#print axioms conc_example_stale_plan
#print axioms conc_example_blocking
#print axioms conc_reach_example
#print axioms QInv_sameBuf
#print axioms sim_flush_failed
#print axioms sim_next_failed
#print axioms concF_step_invariant
#print axioms concF_invariant
#print axioms concF_fail_unobservable
#print axioms concF_lock_released
#print axioms concF_linearizable_partial
#print axioms concF_linearizable
#print axioms concF_step_linearizable
#print axioms concF_example_fail_retry
#print axioms concF_pFail_inv
#print axioms concF_cFail_inv
