import TxVerif.Props.C13
import TxVerif.Tie.PQ
import TxVerif.Props.C13Stale
open TxVerif
#print axioms pq_writers_exclusive
#print axioms pq_no_deadlock
#print axioms pq_ack_keeps_write_page
#print axioms pq_ack_only_acked
#print axioms pq_append_preserves_prefix
#print axioms reader_view_stable
#print axioms ackInit_layout
#print axioms Tie.pq_flush_is_one_tx
#print axioms Tie.pq_ack_is_one_tx
#print axioms stale_plan_prefix
#print axioms stale_plan_eq
#print axioms stale_no_leak
#print axioms stale_cleanAll
#print axioms stale_cleanAll_beyond_tail
#print axioms stale_cleanAll_shape
#print axioms stale_positions_valid
#print axioms stale_ack_delivers
#print axioms layoutFrom_extends
#print axioms chainExt_iff_flush
#print axioms Extends.chainExt
