import TxVerif.Props.C13
import TxVerif.Tie.PQ
open TxVerif
#print axioms pq_writers_exclusive
#print axioms pq_no_deadlock
#print axioms pq_ack_keeps_write_page
#print axioms pq_ack_only_acked
#print axioms pq_append_preserves_prefix
#print axioms reader_view_stable
#print axioms ackInit_layout
#print axioms Tie.pq_flush_is_one_tx
#print axioms Tie.pq_ack_is_one_tx
