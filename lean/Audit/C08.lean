import TxVerif.Props.C08
import TxVerif.Tie.Skeleton
import TxVerif.Props.C08Crash
import TxVerif.Props.C08CrashOpt
open TxVerif
#print axioms writer_releases_all
#print axioms reset_clears_error
#print axioms io_resumes_after_reset
#print axioms no_io_while_error
#print axioms header_skipped_after_failure
#print axioms abort_keeps_committed
#print axioms failed_commit_keeps_txid
#print axioms Tie.tryCommit_lock_ops
#print axioms Tie.commitChanges_rollback
#print axioms Tie.finishWith_closes
#print axioms fsafe_step
#print axioms fsafe_crash
#print axioms crash_recovers_fail
#print axioms crash_committed_only
#print axioms syncFail_keeps_committed
#print axioms failure_path_locked
#print axioms restore_completes
#print axioms failed_attempt_never_resurfaces
#print axioms recover_tie
#print axioms no_txid_tie
#print axioms continuation_crash_safe
#print axioms continuation_accepted
#print axioms fsafe_preserved
#print axioms fsafe_start
#print axioms recovered_operational_fail
#print axioms fxInit_safe
#print axioms lax_discipline_not_crash_safe
#print axioms no_restore_not_crash_safe
#print axioms osafe_step
#print axioms osafe_crash
#print axioms reapply_after_failed_sync
#print axioms completed_sync_exact
#print axioms crash_recovers_opt
#print axioms crash_committed_only_opt
#print axioms pattern1_accepted
#print axioms failure_path_locked_opt
#print axioms restore_completes_opt
#print axioms failed_attempt_never_resurfaces_opt
#print axioms continuation_crash_safe_opt
#print axioms cfg_traces_accepted
#print axioms osafe_preserved
#print axioms osafe_start
#print axioms recovered_operational_opt
#print axioms oxInit_safe
#print axioms lax_opt_not_crash_safe
