import TxVerif.Props.C08
import TxVerif.Tie.Skeleton
open TxVerif
#print axioms writer_releases_all
#print axioms reset_clears_error
#print axioms io_resumes_after_reset
#print axioms no_io_while_error
#print axioms header_skipped_after_failure
#print axioms abort_keeps_committed
#print axioms failed_commit_keeps_txid
#print axioms Tie.tryCommit_lock_ops
#print axioms Tie.commitChanges_rollback
#print axioms Tie.finishWith_closes
