import TxVerif.Props.C17
import TxVerif.Tie.PQ
import TxVerif.Props.PQQueueRefine
open TxVerif
#print axioms counters
#print axioms inv_empty
#print axioms inv_flush
#print axioms inv_ack
#print axioms available
#print axioms callback_totals
#print axioms Tie.pq_flush_callback_after
#print axioms Tie.pq_ack_is_one_tx
#print axioms queue_sim_step
#print axioms queue_refines_fifo
#print axioms queue_counters
#print axioms queue_available
#print axioms queue_misuse_errors
#print axioms queue_reach_example
