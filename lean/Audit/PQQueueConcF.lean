import TxVerif.Props.PQQueueConcF
open TxVerif
#print axioms concF_step_invariant
#print axioms concF_invariant
#print axioms concF_fail_unobservable
#print axioms concF_lock_released
#print axioms concF_linearizable_partial
#print axioms concF_linearizable
#print axioms concF_step_linearizable
#print axioms concF_example_fail_retry
#print axioms concF_pFail_inv
#print axioms concF_cFail_inv
