package pqrun

import (
	"encoding/binary"
	"fmt"
	"strings"

	txfile "github.com/elastic/go-txfile"

	"verifharness/engine"
	"verifharness/simdisk"
)

// LayoutCase writes events of the given sizes to a fresh queue (random
// chunking, flushes at random points incl. in the middle of events), decodes
// the page chain from the file and renders it for the Lean layout model:
// `first:last:off:payloadLen` per page.
func LayoutCase(r *engine.RNG, P int, sizes []int) (line string, fails []Failure) {
	line, _, fails = LayoutAckCase(r, P, sizes, false)
	return line, fails
}

// LayoutFaultPct > 0: that percentage of the writer calls of a LayoutAckCase runs with failing I/O.
var LayoutFaultPct int

// LayoutCallsFailed: writer calls of the most recent LayoutAckCase that returned an error.
var LayoutCallsFailed int

// LastWriterOps is the request line for the Lean writer model of the most recent LayoutAckCase
// (the expected result is the decoded page chain plus the tail position).
var LastWriterOps string

// LayoutAckCase is LayoutCase followed (optionally) by one or two ACKs; the second line is
// `ackplan P sizes n => freed false headFirst` for the Lean ACK plan model.
func LayoutAckCase(r *engine.RNG, P int, sizes []int, withAck bool) (line, ackLine string, fails []Failure) {
	wb := uint(r.Intn(6 * P))
	s := New(Config{PageSize: uint32(P), MaxPages: 0, WriteBuffer: wb})
	if s.Open() != "ok" {
		return "", "", []Failure{{Prop: "C05", Kind: "open", Msg: "open failed"}}
	}
	var ops []string // the calls, for the Lean writer model: w<n> (Write of n bytes), n (Next), f (Flush); "!" = under an I/O fault
	var errs []byte  // per call: '1' = the call returned an error
	faulty := LayoutFaultPct > 0
	LayoutCallsFailed = 0
	// call runs fn, under LayoutFaultPct percent of the calls with every write (or every sync) failing
	// for the duration of the call: a flush transaction started by the call fails in flushPages / Commit
	call := func(tok string, fn func() string) string {
		inject := faulty && r.Chance(LayoutFaultPct)
		if inject {
			kind := []string{"write", "sync"}[r.Intn(2)]
			s.Disk.SetFault(func(k string, n, total int) simdisk.Action {
				if k == kind {
					return simdisk.ActErr
				}
				return simdisk.ActOK
			})
			tok += "!"
		}
		res := fn()
		if inject {
			s.Disk.SetFault(nil)
		}
		ops = append(ops, tok)
		if res == "ok" {
			errs = append(errs, '0')
		} else {
			errs = append(errs, '1')
			LayoutCallsFailed++
		}
		return res
	}
	for _, sz := range sizes {
		left := sz
		for tries := 0; left > 0; {
			n := left
			if r.Chance(50) {
				n = 1 + r.Intn(left)
			}
			if call(fmt.Sprintf("w%d", n), func() string { return s.WriteChunk(n) }) != "ok" {
				if !faulty || tries > 50 {
					return "", "", append(s.Failures, Failure{Prop: "C05", Kind: "write", Msg: "write failed on an unbounded file"})
				}
				tries++
				continue // a failed Write appended nothing: write the chunk again
			}
			left -= n
			if left > 0 && r.Chance(10) {
				call("f", s.Flush)
			}
		}
		call("n", s.Next) // the event is finished whether the implicit flush failed or not
		if r.Chance(30) {
			call("f", s.Flush)
		}
	}
	if s.Flush() != "ok" {
		return "", "", append(s.Failures, Failure{Prop: "C05", Kind: "flush", Msg: "final flush failed"})
	}
	ops = append(ops, "f")
	errs = append(errs, '0')
	bufPages := int(wb) / P
	if bufPages <= 5 { // pq defaultMinPages
		bufPages = 5
	}
	LastWriterOps = fmt.Sprintf("writerops %d %d %s", P, bufPages, strings.Join(ops, ","))
	if faulty {
		// the writer model with failing flushes (Model/PQWriterFail.lean): also predicts which calls fail
		LastWriterOps = fmt.Sprintf("writeropsf %d %d %s", P, bufPages, strings.Join(ops, ","))
	}
	// decode the chain
	var pages []string
	var tailID uint64
	tailIdx, tailInPage := 0, 0
	func() {
		defer func() {
			if rec := recover(); rec != nil {
				s.fail("C05", "decode-panic", "decoding the page chain panicked: %v", rec)
			}
		}()
		tx, err := s.F.BeginReadonly()
		if err != nil {
			s.fail("C05", "decode", "BeginReadonly: %v", err)
			return
		}
		defer tx.Close()
		rp, err := tx.Page(tx.Root())
		if err != nil {
			s.fail("C05", "decode", "root page: %v", err)
			return
		}
		rb, _ := rp.Bytes()
		headOff := binary.LittleEndian.Uint64(rb[4:])
		tailOff := binary.LittleEndian.Uint64(rb[20:])
		tailID = binary.LittleEndian.Uint64(rb[28:])
		if headOff == 0 {
			return
		}
		id := headOff / uint64(P)
		tailPage := tailOff / uint64(P)
		tailIn := int(tailOff % uint64(P))
		if tailIn == 0 {
			tailIn = P
		}
		for steps := 0; id != 0 && steps < 100000; steps++ {
			p, err := tx.Page(txfile.PageID(id))
			if err != nil {
				s.fail("C05", "decode", "page %d: %v", id, err)
				return
			}
			b, _ := p.Bytes()
			next := binary.LittleEndian.Uint64(b[0:])
			plen := P - 28
			if id == tailPage {
				plen = tailIn - 28
				tailIdx, tailInPage = len(pages), tailIn
				if next != 0 {
					s.fail("C05", "tail-successor", "the tail page %d has a successor %d", id, next)
				}
			}
			pages = append(pages, fmt.Sprintf("%d:%d:%d:%d", binary.LittleEndian.Uint64(b[8:]), binary.LittleEndian.Uint64(b[16:]), binary.LittleEndian.Uint32(b[24:]), plen))
			id = next
		}
	}()
	// read everything back with the real reader
	s.drainAll()
	if s.Consumed != len(sizes) {
		s.fail("C05", "layout-readback", "reader delivered %d of %d events", s.Consumed, len(sizes))
	}
	ss := make([]string, len(sizes))
	for i, x := range sizes {
		ss[i] = fmt.Sprint(x)
	}
	if withAck && s.Consumed == len(sizes) && len(sizes) > 0 {
		n := 1 + r.Intn(len(sizes))
		before := s.cbPages
		ok := true
		if r.Chance(40) && n > 1 {
			a := 1 + r.Intn(n-1)
			ok = s.ACK(a) == "ok" && s.ACK(n-a) == "ok"
		} else {
			ok = s.ACK(n) == "ok"
		}
		if ok {
			hd, _, _, _, okh := s.rootHeader()
			if okh {
				ackLine = fmt.Sprintf("ackplan %d %s %d => %d false %d", P, strings.Join(ss, ","), n, s.cbPages-before, hd[1])
			}
		}
		s.Counters()
	}
	s.Close()
	res := strings.Join(pages, " ")
	if len(pages) == 0 {
		res = "-"
	}
	if len(pages) > 0 {
		if faulty {
			LastWriterOps += fmt.Sprintf(" => errs %s %s tail %d:%d:%d", errs, res, tailIdx, tailInPage, tailID)
		} else {
			LastWriterOps += fmt.Sprintf(" => %s tail %d:%d:%d", res, tailIdx, tailInPage, tailID)
		}
	} else {
		LastWriterOps = ""
	}
	return fmt.Sprintf("layoutsizes %d %s => %s", P, strings.Join(ss, ","), res), ackLine, s.Failures
}

// drainAll reads all flushed events completely.
func (s *Session) drainAll() {
	if s.Begin() != "ok" {
		return
	}
	for {
		if s.RNext() <= 0 {
			break
		}
		for s.curRead >= 0 {
			if s.RRead(s.curLeft) != "ok" {
				break
			}
		}
	}
	s.Done()
}
