package pqrun

import (
	"fmt"

	"verifharness/engine"
	"verifharness/simdisk"
)

// Params steer the queue program generator.
type Params struct {
	Steps    int
	Reopen   int // percent per step group
	BigEvent int // percent of events spanning several pages
	Lag      int // how far the consumer may lag before the generator prefers consuming
	Fault    int // percent of the explicit flushes / ACKs that run with an injected I/O fault
}

// RandomConfig draws a queue configuration.
func RandomConfig(r *engine.RNG) Config {
	c := Config{PageSize: 1024}
	if r.Chance(25) {
		c.PageSize = 4096
	}
	min := uint64(65536 / c.PageSize)
	switch r.Intn(3) {
	case 0:
		c.MaxPages = 0
	case 1:
		c.MaxPages = min + uint64(r.Intn(16))
	default:
		c.MaxPages = 2 * min
	}
	switch r.Intn(3) {
	case 0:
		c.WriteBuffer = 0
	case 1:
		c.WriteBuffer = uint(c.PageSize) * uint(1+r.Intn(8))
	default:
		c.WriteBuffer = uint(r.Intn(20000))
	}
	return c
}

// eventSize draws an event size with emphasis on page/header boundaries.
func eventSize(r *engine.RNG, ps int, big int) int {
	S := ps - 28
	if r.Chance(big) {
		k := 1 + r.Intn(6)
		return k*S + r.Intn(9) - 4
	}
	switch r.Intn(6) {
	case 0:
		return 1 + r.Intn(8)
	case 1:
		b := []int{S - 9, S - 8, S - 5, S - 4, S - 3, S - 1, S, S + 1, S + 4, 2*S - 8, 2*S - 4, 2 * S}
		return b[r.Intn(len(b))]
	case 2:
		return 1 + r.Intn(S)
	default:
		return 1 + r.Intn(300)
	}
}

// Run executes a random producer/consumer program.
func Run(r *engine.RNG, cfg Config, p Params) *Session {
	s := New(cfg)
	if s.Open() != "ok" {
		s.fail("C05", "open", "opening the queue failed")
		return s
	}
	ps := int(cfg.PageSize)
	for step := 0; step < p.Steps && s.Q != nil; step++ {
		if len(s.Failures) > 0 && s.Failures[len(s.Failures)-1].Kind == "panic" {
			return s
		}
		lag := s.Finished - s.Acked
		w := r.Intn(100)
		switch {
		case w < 45 && lag < p.Lag:
			// produce one event, possibly in several chunks
			sz := eventSize(r, ps, p.BigEvent)
			left := sz
			failed, abandoned := false, false
			for left > 0 && !failed {
				n := left
				if r.Chance(50) {
					n = 1 + r.Intn(left)
				}
				if r.Chance(10) && n > 4 {
					n = 1 + r.Intn(4)
				}
				if res := s.WriteChunk(n); res != "ok" {
					failed = true
					if res == "panic" {
						return s
					}
					break
				}
				left -= n
				if left > 0 && r.Chance(8) {
					s.Flush() // flush in the middle of an event
					s.mark("flush-mid-event")
				}
				if left > 0 && r.Chance(3) {
					// close and reopen with an event in progress: the partial event is dropped
					s.Close()
					s.mark("reopen-mid-event")
					if s.Open() != "ok" {
						s.fail("C06", "reopen", "reopening the queue failed")
						return s
					}
					abandoned = true
					break
				}
			}
			if abandoned {
				continue
			}
			if failed {
				s.mark("write-failed")
				// make room: consume and ack, then retry the rest of the event later
				s.drain(r, 1+r.Intn(8))
				for tries := 0; left > 0 && tries < 6; tries++ {
					if res := s.WriteChunk(left); res == "ok" {
						left = 0
					} else {
						s.drain(r, 4+r.Intn(8))
					}
				}
				if left > 0 {
					continue
				}
			}
			if sz > ps-28 {
				s.mark("event-spans-pages")
			}
			s.Next()
		case w < 55:
			if r.Chance(p.Fault) {
				// an I/O error inside the flush transaction: the events stay buffered, a later flush delivers them
				s.withFault(r, func() { s.Flush() })
				s.mark("flush-under-fault")
				if r.Chance(60) {
					s.Flush()
				}
			} else {
				s.Flush()
			}
		case w < 85:
			s.drain(r, 1+r.Intn(5))
		case w < 92:
			if s.Consumed > s.Acked && r.Chance(p.Fault) {
				s.withFault(r, func() { s.ACK(1 + r.Intn(s.Consumed-s.Acked)) })
				s.mark("ack-under-fault")
			} else if s.Consumed > s.Acked {
				s.ACK(1 + r.Intn(s.Consumed-s.Acked))
			} else if r.Chance(20) {
				s.ACK(0)
			}
		default:
			if r.Chance(25) {
				s.MisuseProbe()
				s.mark("misuse-probe")
			}
			if r.Chance(p.Reopen) {
				if r.Chance(30) {
					s.ClosedProbe()
					s.mark("closed-probe")
				} else {
					s.Close()
				}
				s.mark("reopen")
				if s.Open() != "ok" {
					s.fail("C06", "reopen", "reopening the queue failed")
					return s
				}
				s.Counters() // counters and Available of a reader initialised from the file
			}
		}
		if r.Chance(40) {
			s.Counters()
		}
	}
	// final: flush, read everything, ack everything
	if s.Q != nil {
		if s.curBytes > 0 {
			s.Next()
		}
		for tries := 0; tries < 8 && s.Flushed < s.Finished; tries++ {
			if s.Flush() != "ok" {
				s.drain(r, 8)
			}
		}
		s.drain(r, 1<<30)
		s.Counters()
		if s.Flushed == s.Finished && s.Consumed != s.Flushed {
			s.fail("C05", "final-drain", "after draining, %d of %d flushed events were delivered", s.Consumed, s.Flushed)
		}
	}
	return s
}

// drain reads up to n events (with random partial reads) and ACKs them.
func (s *Session) drain(r *engine.RNG, n int) {
	if s.Begin() != "ok" {
		return
	}
	read := 0
	for read < n {
		sz := s.RNext()
		if sz <= 0 {
			break
		}
		read++
		if r.Chance(12) {
			// partial read, the rest is skipped by the next Next
			s.RRead(1 + r.Intn(sz))
			continue
		}
		for s.curRead >= 0 {
			k := s.curLeft
			if r.Chance(40) {
				k = 1 + r.Intn(s.curLeft+3)
			}
			if s.RRead(k) != "ok" {
				break
			}
		}
		if r.Chance(10) {
			s.Counters()
		}
	}
	// a partially read current event counts as consumed only after the next Next; finish it
	if s.curRead >= 0 {
		s.RNext0()
	}
	s.Done()
	if s.Consumed > s.Acked && r.Chance(70) {
		s.ACK(s.Consumed - s.Acked)
	}
}

// RNext0 calls Next to skip the rest of a partially read event but pushes back
// nothing: it is only used at the end of a drain when an event is half read.
func (s *Session) RNext0() {
	sz := s.RNext()
	if sz > 0 {
		// an event was started; read it fully so accounting stays simple
		for s.curRead >= 0 {
			if s.RRead(s.curLeft) != "ok" {
				break
			}
		}
	}
}

// MisuseProbe checks the documented errors of the queue API (C15): ACK of more
// than is pending, reading without a session, and every call on a closed queue.
func (s *Session) MisuseProbe() {
	expect := func(what, got string, want ...string) {
		for _, w := range want {
			if got == w {
				return
			}
		}
		s.fail("C15", "pq-misuse", "%s: result %s, documented: %v", what, got, want)
	}
	if s.Q == nil {
		return
	}
	pending := s.Flushed - s.Acked
	before := s.Flushed
	res := s.guard("ack-too-many", func() error { return s.Q.ACK(uint(pending + 1 + len(s.Sizes))) })
	if pending == 0 && s.Acked == 0 && s.Flushed == 0 {
		expect("ACK on an empty queue", res, "err:ackempty", "err:acktoomany")
	} else {
		expect("ACK of more events than pending", res, "err:acktoomany", "err:ackempty")
	}
	// one more than is pending (the boundary), and counts that overflow the id arithmetic
	for _, n := range []uint{uint(pending + 1), 1 << 63, ^uint(0), ^uint(0) - uint(pending)} {
		n := n
		r2 := s.guard("ack-too-many", func() error { return s.Q.ACK(n) })
		if pending == 0 && s.Acked == 0 && s.Flushed == 0 {
			expect(fmt.Sprintf("ACK(%d) on an empty queue", n), r2, "err:ackempty", "err:acktoomany")
		} else {
			expect(fmt.Sprintf("ACK(%d) with %d pending events", n, pending), r2, "err:acktoomany", "err:ackempty")
		}
	}
	if !s.inRead {
		expect("Reader.Next without Begin", s.guard("next-nosession", func() error { _, err := s.R.Next(); return err }), "err:inactivetx")
		expect("Reader.Read without Begin", s.guard("read-nosession", func() error { _, err := s.R.Read(make([]byte, 4)); return err }), "err:inactivetx")
		expect("Reader.Available without Begin", s.guard("avail-nosession", func() error { _, err := s.R.Available(); return err }), "err:inactivetx")
	} else {
		expect("Reader.Begin inside a session", s.guard("begin-twice", func() error { return s.R.Begin() }), "err:activetx")
	}
	if s.Flushed != before {
		s.fail("C15", "pq-misuse-state", "rejected calls changed the queue state")
	}
	s.Counters()
}

// ClosedProbe checks every call on a closed queue.
func (s *Session) ClosedProbe() {
	q, w, r := s.Q, s.W, s.R
	if q == nil {
		return
	}
	if s.inRead {
		s.Done()
	}
	qerr := q.Close()
	if qerr == nil {
		s.Flushed = s.Finished
	} else {
		s.Sizes = s.Sizes[:s.Flushed]
		s.Finished = s.Flushed
	}
	s.curBytes = 0
	chk := func(what string, fn func() error, want ...string) {
		got := s.guard("closed-"+what, fn)
		for _, x := range want {
			if got == x {
				return
			}
		}
		s.fail("C15", "pq-closed", "%s on a closed queue: result %s, documented: %v", what, got, want)
	}
	if qerr == nil { // a Close whose final flush failed leaves the (dropped) writer object active
		chk("Writer.Write", func() error { _, err := w.Write([]byte{1}); return err }, "err:writerclosed")
		chk("Writer.Next", func() error { return w.Next() }, "err:writerclosed")
		chk("Writer.Flush", func() error { return w.Flush() }, "err:writerclosed")
	}
	chk("Queue.Writer", func() error { _, err := q.Writer(); return err }, "err:queueclosed")
	chk("Queue.Reader().Begin", func() error { return q.Reader().Begin() }, "err:readerclosed")
	chk("Reader.Begin", func() error { return r.Begin() }, "err:readerclosed")
	chk("Reader.Next", func() error { _, err := r.Next(); return err }, "err:readerclosed")
	chk("Reader.Read", func() error { _, err := r.Read(make([]byte, 2)); return err }, "err:readerclosed")
	chk("ACK(1)", func() error { return q.ACK(1) }, "err:queueclosed")
	chk("ACK(0)", func() error { return q.ACK(0) }, "ok")
	chk("Close again", func() error { return q.Close() }, "ok")
	// the file is still usable: reopen the queue on it
	s.guard("close-file", func() error { return s.F.Close() })
	s.markState()
	s.Q, s.W, s.R, s.F = nil, nil, nil, nil
	s.Consumed = s.Acked
	s.curRead, s.curLeft = -1, 0
	s.emit("closedprobe")
}

// ExactFill fills a fresh bounded file with ONE flush of single-page events that uses up
// (almost) every allocatable page, then reads and ACKs everything and goes on writing: the ACK
// has to commit on a file without free data pages and with a minimal, fully used meta area
// (C12: a full queue can always be drained).
func ExactFill(r *engine.RNG, cfg Config, slack int) *Session {
	if cfg.MaxPages == 0 {
		cfg.MaxPages = 65536 / uint64(cfg.PageSize)
	}
	cfg.WriteBuffer = uint(cfg.PageSize) * uint(cfg.MaxPages+8) // nothing is flushed before the explicit Flush
	s := New(cfg)
	if s.Open() != "ok" {
		s.fail("C12", "open", "opening the queue failed")
		return s
	}
	fs := s.F.VerifSnapshot()
	alloc := int(fs.DataAvail)
	if fs.DataEnd < fs.MaxPages {
		alloc += int(fs.MaxPages - fs.DataEnd)
	}
	k := alloc - slack
	if k < 1 {
		return s
	}
	sz := int(cfg.PageSize) - 28 - 4 // one event = exactly one queue page
	for i := 0; i < k; i++ {
		if s.WriteChunk(sz) != "ok" || s.Next() != "ok" {
			s.mark("exact-fill-buffer-refused")
			return s
		}
	}
	if s.Flush() != "ok" {
		s.mark("exact-fill-flush-oom")
		return s
	}
	after := s.F.VerifSnapshot()
	free := int(after.DataAvail)
	if after.DataEnd < after.MaxPages {
		free += int(after.MaxPages - after.DataEnd)
	}
	s.mark(fmt.Sprintf("exact-fill-free-%d", min(free, 3)))
	// buffer a few more events; flushing them needs the space the ACK frees
	extra := 1 + r.Intn(4)
	for i := 0; i < extra; i++ {
		if s.WriteChunk(1+r.Intn(sz)) != "ok" || s.Next() != "ok" {
			break
		}
	}
	// read everything and ACK it in one go: must succeed whatever the fill level
	if s.Begin() == "ok" {
		for {
			n := s.RNext()
			if n <= 0 {
				break
			}
			for s.curRead >= 0 {
				if s.RRead(s.curLeft) != "ok" {
					break
				}
			}
		}
		s.Done()
	}
	if s.Consumed != s.Flushed {
		s.fail("C12", "exact-fill-read", "full file: %d of %d flushed events delivered", s.Consumed, s.Flushed)
	}
	if s.Consumed-s.Acked > 8 && r.Chance(50) {
		// "reports full without loss, can always be drained" across a restart: ACK a few events only (on a full
		// file the ACK transaction uses the overflow area), let a flush of more events than that freed pages for
		// fail, restart, and everything flushed and not ACKed must still be there
		s.ACK(2 + r.Intn(3))
		for i := 0; i < 6; i++ {
			if s.WriteChunk(sz) != "ok" || s.Next() != "ok" {
				break
			}
		}
		if s.Flush() != "ok" {
			s.mark("exact-fill-flush-fails-after-partial-ack")
		}
		s.Close()
		if s.Open() != "ok" {
			s.fail("C12", "exact-fill-restart", "full file: the queue can not be opened again after a partial ACK and a flush that failed for lack of space")
			return s
		}
		s.mark("exact-fill-restart")
		s.drain(r, 1<<30)
		if s.Consumed != s.Flushed {
			s.fail("C12", "exact-fill-restart", "full file after a restart: %d of %d flushed events delivered", s.Consumed, s.Flushed)
		}
	}
	if s.Consumed > s.Acked {
		s.ACK(s.Consumed - s.Acked) // a failure is reported by ACK itself (C12 ack-failed)
	}
	if s.Flush() != "ok" {
		s.fail("C12", "exact-fill-drain", "after reading and ACKing all %d events of a full file the buffered events still cannot be flushed", s.Acked)
	}
	s.drain(r, 1<<30)
	s.Counters()
	return s
}

// withFault runs fn while one kind of I/O call fails (the n-th next call of that kind, burst 1-2).
func (s *Session) withFault(r *engine.RNG, fn func()) {
	kinds := []string{"write", "write", "sync", "sync"}
	kind := kinds[r.Intn(len(kinds))]
	base, _ := s.Disk.CallCounts()
	from := base[kind] + r.Intn(3)
	burst := 1 + r.Intn(2)
	s.Disk.SetFault(func(k string, n, total int) simdisk.Action {
		if k == kind && n >= from && n < from+burst {
			s.ioFault = true
			return simdisk.ActErr
		}
		return simdisk.ActOK
	})
	s.ioFault = false
	fn()
	s.Disk.SetFault(nil)
}
