package pqrun

import (
	"strings"
	"bytes"
	"fmt"

	"verifharness/engine"
	"verifharness/sched"
)

// ConcResult summarises a controlled producer/consumer run.
type ConcResult struct {
	Produced, Flushed, Delivered, Acked int
	Events                              int
}

// RunConcurrent drives one producer and one consumer goroutine on the same
// queue under a controlled schedule (C13).
func RunConcurrent(r *engine.RNG, cfg Config, events int) (*Session, *sched.Sys, ConcResult) {
	s := New(cfg)
	s.NoReach = true
	var res ConcResult
	if s.Open() != "ok" {
		s.fail("C13", "open", "opening the queue failed")
		return s, nil, res
	}
	sys := sched.NewEmptySys(r, s.F, s.Disk, engine.Config{PageSize: cfg.PageSize})
	ps := int(cfg.PageSize)
	pr := &engine.RNG{S: r.Next()}
	cr := &engine.RNG{S: r.Next()}
	producerDone := false
	// the queue calls and their results, in completion order, between the scheduler's lock events
	// (thread 0 = producer: write / next / flush; thread 1 = consumer)
	s.OnEmit = func(line string) {
		tid := 1
		if strings.HasPrefix(line, "write ") || strings.HasPrefix(line, "next ") || strings.HasPrefix(line, "flush ") {
			tid = 0
		}
		sys.Note(tid, "ret "+line)
	}

	producer := func(t *sched.Thread) {
		sys.SetTx(t, false, 1)
		for i := 0; i < events; i++ {
			sz := eventSize(pr, ps, 15)
			left := sz
			tries := 0
			for left > 0 && tries < 50 {
				n := left
				if pr.Chance(50) {
					n = 1 + pr.Intn(left)
				}
				if s.WriteChunk(n) == "ok" {
					left -= n
				} else {
					tries++
					sys.Yield(t) // full: let the consumer make room
				}
				if pr.Chance(20) {
					sys.Yield(t)
				}
			}
			if left > 0 {
				break
			}
			s.Next()
			if pr.Chance(25) {
				s.Flush()
			}
			sys.Yield(t)
		}
		for k := 0; k < 20 && s.Flushed < s.Finished; k++ {
			if s.Flush() != "ok" {
				sys.Yield(t)
			}
		}
		producerDone = true
		sys.SetTx(t, false, 0)
	}

	consumer := func(t *sched.Thread) {
		sys.SetTx(t, false, 1)
		idle := 0
		for idle < 200 {
			if producerDone && s.Consumed >= s.Flushed && s.Acked >= s.Consumed {
				break
			}
			sys.Yield(t)
			if s.Begin() != "ok" {
				idle++
				continue
			}
			sys.Yield(t) // a reader woken by a finishing flush runs concurrently with it until both are parked
			got := 0
			for k := 0; k < 1+cr.Intn(4); k++ {
				sz := s.RNext()
				if sz <= 0 {
					break
				}
				got++
				for s.curRead >= 0 {
					n := s.curLeft
					if cr.Chance(40) {
						n = 1 + cr.Intn(s.curLeft)
					}
					if s.RRead(n) != "ok" {
						break
					}
					if cr.Chance(15) {
						sys.Yield(t)
					}
				}
			}
			s.Done()
			if got == 0 {
				idle++
			} else {
				idle = 0
			}
			if s.Consumed > s.Acked && cr.Chance(70) {
				sys.Yield(t)
				n := 1 + cr.Intn(s.Consumed-s.Acked)
				s.ACK(n)
			}
		}
		if s.Consumed > s.Acked {
			s.ACK(s.Consumed - s.Acked)
		}
		sys.SetTx(t, false, 0)
	}

	sys.AddThread("producer", 1)
	sys.AddThread("consumer", 1)
	ok := sys.Run([]func(*sched.Thread){producer, consumer})
	res = ConcResult{Produced: s.Finished, Flushed: s.Flushed, Delivered: s.Consumed, Acked: s.Acked, Events: len(sys.Events)}
	for _, f := range sys.Failures {
		f.Prop = "C13"
		s.Failures = append(s.Failures, f)
	}
	if ok {
		if s.Flushed == s.Finished && s.Consumed != s.Flushed {
			s.fail("C13", "not-drained", "consumer received %d of %d flushed events", s.Consumed, s.Flushed)
		}
		s.Counters()
	}
	for i := range s.Failures {
		if s.Failures[i].Prop != "C17" && s.Failures[i].Prop != "C12" {
			s.Failures[i].Prop = "C13"
		}
	}
	_ = bytes.Equal
	_ = fmt.Sprint
	return s, sys, res
}
