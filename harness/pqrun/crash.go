package pqrun

import (
	"bytes"
	"fmt"
	"hash/fnv"
	"strings"

	txfile "github.com/elastic/go-txfile"
	"github.com/elastic/go-txfile/pq"

	"verifharness/engine"
	"verifharness/simdisk"
)

// CrashStats counts what the queue crash enumeration covered.
type CrashStats struct {
	Boundaries, Images, Distinct, InProgress, MaxPending int
}

type qstate struct{ A, F int }

// drainImage opens a disk image as a queue and reads everything the reader delivers.
func (s *Session) drainImage(img []byte, hints ...int) (first int, n int, errStr string) {
	if engine.Progress != nil {
		engine.Progress() // hang watchdog: every image is progress
	}
	d := simdisk.FromImage("qimage", img)
	d.KeepLog = false
	defer func() {
		if r := recover(); r != nil {
			errStr = "panic: " + fmt.Sprint(r)
		}
	}()
	f, err := txfile.VerifOpen(d, txfile.Options{MaxSize: s.Cfg.MaxPages * uint64(s.Cfg.PageSize), PageSize: s.Cfg.PageSize})
	if err != nil {
		return 0, 0, "open: " + engine.ErrKind(err)
	}
	defer f.Close()
	dg, err := pq.NewStandaloneDelegate(f)
	if err != nil {
		return 0, 0, "delegate: " + ErrKind(err)
	}
	q, err := pq.New(dg, pq.Settings{WriteBuffer: s.Cfg.WriteBuffer})
	if err != nil {
		return 0, 0, "pq.New: " + ErrKind(err)
	}
	defer q.Close()
	pend, err := q.Pending()
	if err != nil {
		return 0, 0, "Pending: " + ErrKind(err)
	}
	r := q.Reader()
	if err := r.Begin(); err != nil {
		return 0, 0, "Begin: " + ErrKind(err)
	}
	defer r.Done()
	first = -1
	for {
		sz, err := r.Next()
		if err != nil {
			return first, n, "Next: " + ErrKind(err)
		}
		if sz <= 0 {
			break
		}
		buf := make([]byte, sz)
		got := 0
		for got < sz {
			k, err := r.Read(buf[got:])
			if err != nil {
				return first, n, "Read: " + ErrKind(err)
			}
			if k == 0 {
				return first, n, fmt.Sprintf("Read returned 0 with %d bytes left", sz-got)
			}
			got += k
		}
		// identify the event by content: try the expected position
		idx := -1
		if first >= 0 {
			idx = first + n
		} else {
			// tiny events are not unique by content: the positions the specification allows are tried first
			for _, c := range hints {
				if c >= 0 && c < len(s.Sizes) && s.Sizes[c] == sz && bytes.Equal(EventBytes(c, 0, sz), buf) {
					idx = c
					break
				}
			}
			for c := 0; idx < 0 && c < len(s.Sizes); c++ {
				if s.Sizes[c] == sz && bytes.Equal(EventBytes(c, 0, sz), buf) {
					idx = c
				}
			}
			first = idx
		}
		if idx < 0 || idx >= len(s.Sizes) || s.Sizes[idx] != sz || !bytes.Equal(EventBytes(idx, 0, sz), buf) {
			return first, n, fmt.Sprintf("delivered event #%d (%d bytes) is not event %d of the history", n, sz, idx)
		}
		n++
	}
	if pend != n {
		return first, n, fmt.Sprintf("Pending()=%d but the reader delivered %d events", pend, n)
	}
	return first, n, ""
}

// CrashCheck enumerates crash images of the queue history (C06).
func CrashCheck(s *Session, r *engine.RNG, maxBits, maxImages int) ([]Failure, CrashStats) {
	var fails []Failure
	var st CrashStats
	log := s.Disk.LogCopy()
	// states at each mark
	var marks []int
	states := map[int]qstate{}
	for i, op := range log {
		if op.Kind == simdisk.OpMark && strings.HasPrefix(op.Label, "pq ") {
			var q qstate
			fmt.Sscanf(op.Label, "pq %d %d", &q.A, &q.F)
			marks = append(marks, i)
			states[i] = q
		}
	}
	if len(marks) == 0 {
		return nil, st
	}
	nextMark := func(k int) (qstate, bool) {
		for _, m := range marks {
			if m > k {
				return states[m], true
			}
		}
		return qstate{}, false
	}
	var durable []byte
	var pend []simdisk.Op
	cur := qstate{}
	started := false
	seen := map[uint64]bool{}
	check := func(k int, img []byte, desc string) {
		if maxImages > 0 && st.Images >= maxImages {
			return
		}
		allowed := []qstate{cur}
		if nx, ok := nextMark(k); ok && nx != cur {
			allowed = append(allowed, nx)
			st.InProgress++
		}
		st.Images++
		h := fnv.New64a()
		h.Write(img)
		key := h.Sum64() ^ uint64(cur.A*7919+cur.F)
		if seen[key] {
			return
		}
		seen[key] = true
		st.Distinct++
		var hints []int
		for _, a := range allowed {
			hints = append(hints, a.A)
		}
		first, n, e := s.drainImage(img, hints...)
		if e != "" {
			fails = append(fails, Failure{Prop: "C06", Kind: "crash-drain", Step: k, Msg: fmt.Sprintf("log index %d (%s): %s", k, desc, e)})
			return
		}
		ok := false
		for _, a := range allowed {
			if n == a.F-a.A && (n == 0 || first == a.A) {
				ok = true
			}
		}
		if !ok {
			fails = append(fails, Failure{Prop: "C06", Kind: "crash-queue", Step: k,
				Msg: fmt.Sprintf("log index %d (%s): recovered queue delivers events [%d,%d), allowed (acked,flushed) states: %v", k, desc, first, first+n, allowed)})
		}
	}
	build := func(mask func(i int) bool) []byte {
		img := append([]byte(nil), durable...)
		for i, op := range pend {
			if mask(i) {
				img = simdisk.Apply(img, op)
			}
		}
		return img
	}
	for k, op := range log {
		switch op.Kind {
		case simdisk.OpMark:
			if q, ok := states[k]; ok {
				cur = q
				started = true
			}
			continue
		case simdisk.OpSync:
			for _, p := range pend {
				durable = simdisk.Apply(durable, p)
			}
			pend = pend[:0]
			if started {
				st.Boundaries++
				check(k, append([]byte(nil), durable...), "after sync")
			}
			continue
		default:
			pend = append(pend, op)
		}
		if !started || len(fails) > 3 {
			continue
		}
		st.Boundaries++
		n := len(pend)
		if n > st.MaxPending {
			st.MaxPending = n
		}
		if n <= maxBits {
			for m := 0; m < 1<<uint(n); m++ {
				mm := m
				check(k, build(func(i int) bool { return mm>>uint(i)&1 == 1 }), fmt.Sprintf("subset %b of %d pending", mm, n))
			}
		} else {
			check(k, build(func(i int) bool { return true }), "all pending")
			for j := 0; j < n; j++ {
				jj := j
				check(k, build(func(i int) bool { return i != jj }), fmt.Sprintf("all but pending #%d", jj))
				check(k, build(func(i int) bool { return i == jj }), fmt.Sprintf("only pending #%d", jj))
			}
			for j := 0; j < 12; j++ {
				bits := r.Next()
				check(k, build(func(i int) bool { return bits>>uint(i%64)&1 == 1 }), "random subset")
			}
		}
	}
	return fails, st
}
