// Package pqrun runs producer/consumer programs against the real persistent
// queue (pq) on a simulated disk, next to the FIFO specification, and emits an
// annotated trace for the Lean queue model.
package pqrun

import (
	"bytes"
	"encoding/binary"
	"fmt"
	"runtime/debug"
	"sort"
	"strings"
	"sync"

	txfile "github.com/elastic/go-txfile"
	"github.com/elastic/go-txfile/pq"

	"verifharness/engine"
	"verifharness/simdisk"
)

// Config of one queue session.
type Config struct {
	PageSize    uint32
	MaxPages    uint64
	WriteBuffer uint
}

// Failure mirrors engine.Failure.
type Failure = engine.Failure

// Session is a queue on a simulated disk with its specification.
type Session struct {
	Cfg  Config
	Disk *simdisk.Disk
	F    *txfile.File
	Q    *pq.Queue
	W    *pq.Writer
	R    *pq.Reader

	// specification
	Sizes     []int // sizes of all finished events, index = event number
	Finished  int   // events finished by Next (incl. buffered)
	Flushed   int   // events covered by a successful flush
	Acked     int
	Consumed  int // events consumed by the reader (read completely or skipped)
	curBytes  int // bytes written to the open event
	cbFlushed int // total reported by the Flushed callback
	cbAcked   int // total reported by the ACKed callback
	cbPages   int

	inRead    bool
	curRead   int // index of event currently being read, -1 none
	curLeft   int // unread bytes of it
	writerErr bool
	ioFault   bool // an injected I/O fault hit during the current call
	OnEmit    func(line string) // receives every trace line (concurrent runs: merged into the scheduler's trace)

	Reach     map[uint64]string // committed txid -> reach set
	Reach0    string
	StartTxid uint64 // header active when tracing starts (after the first Open)
	StartSlot int
	NoReach   bool // concurrent runs: do not read engine internals from a second goroutine

	mu       sync.Mutex
	Trace    bytes.Buffer
	Step     int
	Failures []Failure
	Markers  map[string]int
	OpCount  map[string]int
	ErrCount map[string]int
}

// New creates a session.
func New(cfg Config) *Session {
	return &Session{Cfg: cfg, Disk: simdisk.New("simqueue"), Markers: map[string]int{}, OpCount: map[string]int{}, ErrCount: map[string]int{}, curRead: -1}
}

func (s *Session) fail(prop, kind, format string, a ...interface{}) {
	s.mu.Lock()
	defer s.mu.Unlock()
	s.Failures = append(s.Failures, Failure{Prop: prop, Kind: kind, Msg: fmt.Sprintf(format, a...), Step: s.Step})
}

// markState records the specification counters in the disk log (for the crash
// enumeration of C06): every queue call is bracketed by two such marks.
func (s *Session) markState() {
	s.Disk.Mark(fmt.Sprintf("pq %d %d", s.Acked, s.Flushed))
	s.recordReach()
}

// recordReach stores, per committed transaction id, the physical pages (with content hashes)
// the committed state depends on: used by the Lean crash acceptor (C06 via C01).
func (s *Session) recordReach() {
	if s.F == nil || s.NoReach {
		return
	}
	defer func() { recover() }()
	fs := s.F.VerifSnapshot()
	txid := fs.Meta[fs.MetaActive].Txid
	if s.Reach == nil {
		s.Reach = map[uint64]string{}
	}
	if _, ok := s.Reach[txid]; ok {
		return
	}
	img := s.Disk.Contents()
	ps := uint64(s.Cfg.PageSize)
	phys := map[uint64]uint64{}
	for _, e := range fs.Mapping {
		phys[e[0]] = e[1]
	}
	pages := map[uint64]bool{}
	for _, id := range engine.LiveFromSnap(fs) {
		if w, ok := phys[id]; ok {
			pages[w] = true
		} else {
			pages[id] = true
		}
	}
	for _, id := range engine.RegionIDs(fs.FreelistPages) {
		pages[id] = true
	}
	for _, id := range engine.RegionIDs(fs.WalPages) {
		pages[id] = true
	}
	ids := make([]uint64, 0, len(pages))
	for id := range pages {
		ids = append(ids, id)
	}
	sort.Slice(ids, func(i, j int) bool { return ids[i] < ids[j] })
	var sb strings.Builder
	for i, id := range ids {
		if i > 0 {
			sb.WriteByte(',')
		}
		buf := make([]byte, ps)
		if id*ps < uint64(len(img)) {
			copy(buf, img[id*ps:])
		}
		fmt.Fprintf(&sb, "%d:%d", id, engine.PageHash(buf))
	}
	if len(ids) == 0 {
		sb.WriteString("-")
	}
	s.Reach[txid] = sb.String()
	if s.StartTxid == 0 {
		s.StartTxid, s.StartSlot, s.Reach0 = txid, fs.MetaActive, sb.String()
	}
}

// CrashTrace renders the vfs operation log for the Lean crash acceptor.
func (s *Session) CrashTrace() string {
	var sb strings.Builder
	ps := int64(s.Cfg.PageSize)
	fmt.Fprintf(&sb, "start %d %d\ninit %s\n", s.StartSlot, s.StartTxid, s.Reach0)
	txids := make([]uint64, 0, len(s.Reach))
	for t := range s.Reach {
		txids = append(txids, t)
	}
	sort.Slice(txids, func(i, j int) bool { return txids[i] < txids[j] })
	for _, t := range txids {
		fmt.Fprintf(&sb, "state %d %s\n", t, s.Reach[t])
	}
	started := false
	for _, op := range s.Disk.LogCopy() {
		switch op.Kind {
		case simdisk.OpMark:
			if strings.HasPrefix(op.Label, "pq ") {
				started = true // the file exists once the first queue call returned
			}
		case simdisk.OpSync:
			if started {
				sb.WriteString("s\n")
			}
		case simdisk.OpTruncate:
			if started {
				fmt.Fprintf(&sb, "t %d\n", (op.Off+ps-1)/ps)
			}
		case simdisk.OpWrite:
			if !started {
				continue
			}
			if len(op.Data) == 84 && (op.Off == 0 || op.Off == ps) {
				m := txfile.VerifDecodeMeta(op.Data)
				fmt.Fprintf(&sb, "h %d %d %d\n", op.Off/ps, m.Txid, m.Txid)
				continue
			}
			buf := make([]byte, ps)
			copy(buf, op.Data)
			fmt.Fprintf(&sb, "w %d %d\n", op.Off/ps, engine.PageHash(buf))
		}
	}
	return sb.String()
}

func (s *Session) emit(format string, a ...interface{}) {
	s.mu.Lock()
	defer s.mu.Unlock()
	s.Step++
	fmt.Fprintf(&s.Trace, format, a...)
	s.Trace.WriteByte('\n')
	if s.OnEmit != nil {
		s.OnEmit(fmt.Sprintf(format, a...))
	}
}

func (s *Session) mark(m string) { s.mu.Lock(); s.Markers[m]++; s.mu.Unlock() }

// EventByte is the content of byte j of event i.
func EventByte(i, j int) byte {
	x := uint32(i)*2654435761 + uint32(j)*40503 + 17
	x ^= x >> 13
	return byte(x)
}

// EventBytes renders bytes [from, from+n) of event i.
func EventBytes(i, from, n int) []byte {
	b := make([]byte, n)
	for k := range b {
		b[k] = EventByte(i, from+k)
	}
	return b
}

func (s *Session) guard(op string, fn func() error) (res string) {
	defer func() {
		if r := recover(); r != nil {
			msg := fmt.Sprint(r)
			if len(msg) > 200 {
				msg = msg[:200]
			}
			s.fail("C05", "panic", "%s panicked: %s | %s", op, msg, panicSite())
			res = "panic"
		}
	}()
	s.mu.Lock()
	s.OpCount[op]++
	step := s.Step
	s.mu.Unlock()
	engine.LastOp.Store(fmt.Sprintf("pq %s (step %d)", op, step))
	res = ErrKind(fn())
	if res != "ok" {
		s.mu.Lock()
		s.ErrCount[op+"="+res]++
		s.mu.Unlock()
	}
	return res
}

// ErrKind maps queue errors to a canonical enum.
func ErrKind(err error) string {
	if err == nil {
		return "ok"
	}
	msg := err.Error()
	kinds := []struct {
		k error
		n string
	}{
		{pq.ACKTooMany, "acktoomany"}, {pq.ACKEmptyQueue, "ackempty"}, {pq.QueueClosed, "queueclosed"},
		{pq.ReaderClosed, "readerclosed"}, {pq.WriterClosed, "writerclosed"}, {pq.InactiveTx, "inactivetx"},
		{pq.UnexpectedActiveTx, "activetx"}, {txfile.OutOfMemory, "oom"}, {pq.SeekFail, "seekfail"}, {pq.ReadFail, "readfail"},
	}
	for _, k := range kinds {
		if isKind(err, k.k) {
			return "err:" + k.n
		}
	}
	if strings.Contains(msg, "injected") {
		return "err:io"
	}
	return "err:other(" + engine.ErrKind(err) + ")"
}

func isKind(err error, kind error) bool {
	type wk interface{ Kind() error }
	type wc interface{ Cause() error }
	for err != nil {
		if k, ok := err.(wk); ok && k.Kind() == kind {
			return true
		}
		c, ok := err.(wc)
		if !ok {
			return false
		}
		err = c.Cause()
	}
	return false
}

// Open opens file and queue (creating them if needed).
func (s *Session) Open() string {
	s.Disk.Reopen()
	res := s.guard("open", func() error {
		f, err := txfile.VerifOpen(s.Disk, txfile.Options{MaxSize: s.Cfg.MaxPages * uint64(s.Cfg.PageSize), PageSize: s.Cfg.PageSize})
		if err != nil {
			return err
		}
		s.F = f
		d, err := pq.NewStandaloneDelegate(f)
		if err != nil {
			return err
		}
		q, err := pq.New(d, pq.Settings{
			WriteBuffer: s.Cfg.WriteBuffer,
			Flushed:     func(n uint) { s.cbFlushed += int(n) },
			ACKed:       func(ev, pages uint) { s.cbAcked += int(ev); s.cbPages += int(pages) },
		})
		if err != nil {
			return err
		}
		s.Q = q
		s.R = q.Reader()
		w, err := q.Writer()
		if err != nil {
			return err
		}
		s.W = w
		return nil
	})
	s.emit("open ps=%d max=%d wb=%d => %s", s.Cfg.PageSize, s.Cfg.MaxPages, s.Cfg.WriteBuffer, res)
	s.markState()
	return res
}

// Close closes queue and file. Buffered events are flushed by Queue.Close.
func (s *Session) Close() string {
	if s.inRead {
		s.Done()
	}
	var qerr error
	res := s.guard("close", func() error {
		qerr = s.Q.Close()
		return s.F.Close()
	})
	qres := ErrKind(qerr)
	if res == "ok" && qres == "ok" {
		s.Flushed = s.Finished
	} else if res == "ok" {
		// a failed close drops the writer: buffered, unflushed events are gone
		s.mark("close-flush-failed")
		s.Sizes = s.Sizes[:s.Flushed]
		s.Finished = s.Flushed
	}
	s.curBytes = 0
	s.emit("close => %s %s", res, qres)
	s.markState()
	s.Q, s.W, s.R, s.F = nil, nil, nil, nil
	// reopening resets the reader to the first un-ACKed event
	s.Consumed = s.Acked
	s.curRead, s.curLeft = -1, 0
	return res
}

// WriteChunk appends n bytes to the open event.
func (s *Session) WriteChunk(n int) string {
	idx := s.Finished
	p := EventBytes(idx, s.curBytes, n)
	before := s.cbFlushed
	finishedBefore := s.Finished
	res := s.guard("write", func() error {
		k, err := s.W.Write(p)
		if err == nil && k != n {
			return fmt.Errorf("short write %d of %d", k, n)
		}
		return err
	})
	s.emit("write %d => %s", n, res)
	if res == "ok" {
		s.curBytes += n
	}
	s.afterProducer(before, finishedBefore, res, "write")
	s.markState()
	return res
}

// afterProducer accounts for an implicit flush (observed through the callback).
func (s *Session) afterProducer(cbBefore, finishedAtFlush int, res, op string) {
	if s.cbFlushed != cbBefore {
		// a flush succeeded inside the call: it covers every event finished at that time
		if s.cbFlushed != finishedAtFlush {
			s.fail("C17", "flush-callback", "Flushed callback total %d after %s, but %d events were finished at the time of the flush", s.cbFlushed, op, finishedAtFlush)
		}
		s.Flushed = finishedAtFlush
		s.mark("implicit-flush")
	}
	if strings.Contains(res, "oom") {
		s.mark("producer-oom")
	}
}

// Next finishes the open event.
func (s *Session) Next() string {
	before := s.cbFlushed
	res := s.guard("next", func() error { return s.W.Next() })
	s.emit("next => %s", res)
	// the event is finished (committed to the buffer) even if the implicit flush failed
	if res != "panic" && res != "err:writerclosed" {
		s.Sizes = append(s.Sizes, s.curBytes)
		s.Finished++
		s.curBytes = 0
	}
	s.afterProducer(before, s.Finished, res, "next")
	s.markState()
	return res
}

// Flush flushes the write buffer.
func (s *Session) Flush() string {
	before := s.cbFlushed
	res := s.guard("flush", func() error { return s.W.Flush() })
	s.emit("flush => %s", res)
	s.afterProducer(before, s.Finished, res, "flush")
	if res == "ok" {
		if s.Flushed != s.Finished {
			// no callback (nothing to flush) is fine only if nothing was pending
			s.fail("C05", "flush-incomplete", "Flush returned success but only %d of %d finished events are flushed", s.Flushed, s.Finished)
		}
	}
	s.markState()
	return res
}

// Begin starts a read session.
func (s *Session) Begin() string {
	res := s.guard("begin", func() error { return s.R.Begin() })
	s.emit("rbegin => %s", res)
	if res == "ok" {
		s.inRead = true
	}
	return res
}

// Done ends the read session.
func (s *Session) Done() {
	s.guard("done", func() error { s.R.Done(); return nil })
	s.inRead = false
	s.emit("rdone => ok")
}

// RNext moves to the next event; returns its size or -1.
func (s *Session) RNext() int {
	var sz int
	res := s.guard("rnext", func() error {
		var err error
		sz, err = s.R.Next()
		return err
	})
	// a partially read event is skipped by Next
	if s.curRead >= 0 && res != "panic" {
		if s.curLeft > 0 {
			s.mark("skip-partial")
		}
		s.Consumed = s.curRead + 1
		s.curRead, s.curLeft = -1, 0
	}
	s.emit("rnext => %s %d", res, sz)
	if res != "ok" {
		s.fail("C05", "reader-next", "Reader.Next failed: %s", res)
		return -1
	}
	avail := s.Flushed - s.Consumed
	if sz <= 0 {
		if avail > 0 {
			s.fail("C05", "reader-missing", "Reader.Next reports no event (%d) but %d flushed events are unread (flushed=%d consumed=%d)", sz, avail, s.Flushed, s.Consumed)
			s.fail("C06", "flushed-lost", "%d events of flushes that returned success are not in the queue (flushed=%d consumed=%d acked=%d)", avail, s.Flushed, s.Consumed, s.Acked)
		}
		return -1
	}
	if avail <= 0 {
		s.fail("C05", "reader-extra", "Reader.Next delivered an event of %d bytes but no flushed event is unread (flushed=%d consumed=%d finished=%d)", sz, s.Flushed, s.Consumed, s.Finished)
		s.fail("C06", "unexpected-event", "the queue delivers an event beyond the flushed ones (an ACKed event again, or an event of no successful flush): flushed=%d consumed=%d acked=%d", s.Flushed, s.Consumed, s.Acked)
		return -1
	}
	idx := s.Consumed
	if sz != s.Sizes[idx] {
		s.fail("C05", "reader-size", "event %d has size %d, reader reports %d", idx, s.Sizes[idx], sz)
	}
	s.curRead, s.curLeft = idx, sz
	return sz
}

// RRead reads up to n bytes of the current event and compares them.
func (s *Session) RRead(n int) string {
	buf := make([]byte, n)
	var k int
	res := s.guard("rread", func() error {
		var err error
		k, err = s.R.Read(buf)
		return err
	})
	s.emit("rread %d => %s %d", n, res, k)
	if res != "ok" {
		s.fail("C05", "reader-read", "Reader.Read failed: %s", res)
		return res
	}
	if s.curRead < 0 {
		if k != 0 {
			s.fail("C05", "reader-read-extra", "Read returned %d bytes without a current event", k)
		}
		return res
	}
	want := n
	if want > s.curLeft {
		want = s.curLeft
	}
	if k != want {
		s.fail("C05", "reader-read-len", "event %d: Read(%d) returned %d bytes, expected %d (left %d)", s.curRead, n, k, want, s.curLeft)
		return res
	}
	off := s.Sizes[s.curRead] - s.curLeft
	if exp := EventBytes(s.curRead, off, k); !bytes.Equal(exp, buf[:k]) {
		j := 0
		for j < k && exp[j] == buf[j] {
			j++
		}
		s.fail("C05", "reader-bytes", "event %d (size %d): bytes differ at offset %d (read of %d bytes at %d)", s.curRead, s.Sizes[s.curRead], off+j, k, off)
	}
	s.curLeft -= k
	if s.curLeft == 0 {
		s.Consumed = s.curRead + 1
		s.curRead = -1
	}
	return res
}

// ACK acknowledges n events.
func (s *Session) ACK(n int) string {
	before := s.cbAcked
	res := s.guard("ack", func() error { return s.Q.ACK(uint(n)) })
	s.emit("ack %d => %s", n, res)
	if res == "ok" {
		if n > 0 && s.cbAcked != before+n {
			s.fail("C17", "ack-callback", "ACKed callback reported %d events for ACK(%d)", s.cbAcked-before, n)
		}
		s.Acked += n
		s.mark("ack")
	} else if n <= s.Flushed-s.Acked && n > 0 && !s.ioFault {
		s.fail("C12", "ack-failed", "ACK(%d) with %d pending events failed: %s", n, s.Flushed-s.Acked, res)
	}
	s.markState()
	return res
}

// rootHeader parses the queue root page through a read transaction.
func (s *Session) rootHeader() (head, tail, read [2]uint64, inuse uint64, ok bool) {
	tx, err := s.F.BeginReadonly()
	if err != nil {
		return
	}
	defer tx.Close()
	p, err := tx.Page(tx.Root())
	if err != nil {
		return
	}
	b, err := p.Bytes()
	if err != nil || len(b) < 60 {
		return
	}
	u := binary.LittleEndian.Uint64
	head = [2]uint64{u(b[4:]), u(b[12:])}
	tail = [2]uint64{u(b[20:]), u(b[28:])}
	read = [2]uint64{u(b[36:]), u(b[44:])}
	inuse = u(b[52:])
	return head, tail, read, inuse, true
}

// Counters checks C17 and the space accounting of C12 at a quiescent point.
func (s *Session) Counters() {
	if s.Q == nil {
		return
	}
	var pend int
	var act uint
	r1 := s.guard("pending", func() error {
		var err error
		pend, err = s.Q.Pending()
		return err
	})
	r2 := s.guard("active", func() error {
		var err error
		act, err = s.Q.Active()
		return err
	})
	want := s.Flushed - s.Acked
	s.emit("counters => %s %d %s %d", r1, pend, r2, act)
	if r1 != "ok" || r2 != "ok" {
		s.fail("C17", "counter-err", "Pending/Active failed: %s %s", r1, r2)
		return
	}
	if pend != want || int(act) != want {
		s.fail("C17", "pending", "Pending=%d Active=%d, expected flushed(%d)-acked(%d)=%d", pend, act, s.Flushed, s.Acked, want)
	}
	if s.cbFlushed != s.Flushed {
		s.fail("C17", "flushed-total", "Flushed callbacks reported %d events in total, %d are flushed", s.cbFlushed, s.Flushed)
	}
	if s.cbAcked != s.Acked {
		s.fail("C17", "acked-total", "ACKed callbacks reported %d events in total, %d are acked", s.cbAcked, s.Acked)
	}
	probe := false
	if !s.inRead && s.R != nil && s.curRead < 0 {
		// Available needs a read session: open one just for the question
		probe = s.Begin() == "ok"
	}
	if probe {
		defer s.Done()
	}
	if s.inRead {
		var av uint
		r3 := s.guard("available", func() error {
			var err error
			av, err = s.R.Available()
			return err
		})
		s.emit("available => %s %d", r3, av)
		// consumed counts fully read/skipped events; an event being read is not consumed yet
		if r3 == "ok" && int(av) != s.Flushed-s.Consumed {
			s.fail("C17", "available", "Reader.Available=%d, expected flushed(%d)-consumed(%d)=%d", av, s.Flushed, s.Consumed, s.Flushed-s.Consumed)
		}
	}
	// header ids for the Lean header model (C17)
	if hd, tl, rd, _, okh := s.rootHeader(); okh {
		b := func(x uint64) int {
			if x != 0 {
				return 1
			}
			return 0
		}
		s.emit("hdr h=%d:%d r=%d:%d t=%d:%d f=%d a=%d p=%d act=%d", hd[1], b(hd[0]), rd[1], b(rd[0]), tl[1], b(tl[0]), s.Flushed, s.Acked, pend, act)
	}
	// space: pages held by the queue
	_, _, _, inuse, ok := s.rootHeader()
	fs := s.F.VerifSnapshot()
	if ok {
		// pages neither free nor internal (FileStats is not used: it drifts once the overflow area was used, outside C11/C12)
		if live := uint64(len(engine.LiveFromSnap(fs))); live != inuse+1 {
			s.fail("C12", "inuse", "queue header counts %d pages in use (+1 root), the file has %d data pages allocated", inuse, live)
		}
		payload := int(s.Cfg.PageSize) - 28
		bytes := 0
		from := s.Acked - 1
		if from < 0 {
			from = 0
		}
		for i := from; i < s.Flushed; i++ {
			bytes += s.Sizes[i] + 4
		}
		bound := uint64(bytes/payload) + 4
		if inuse > bound {
			s.fail("C12", "space-held", "queue holds %d pages for %d un-ACKed events (%d bytes incl. the last ACKed one): more than the bound %d", inuse, s.Flushed-s.Acked, bytes, bound)
		}
	}
}

var _ = strings.Contains

// panicSite names the library frames of the panic being recovered (for the failure message).
func panicSite() string {
	st := string(debug.Stack())
	var frames []string
	lines := strings.Split(st, "\n")
	for i := 0; i+1 < len(lines) && len(frames) < 6; i++ {
		if strings.Contains(lines[i+1], "/repo/") && !strings.Contains(lines[i+1], "verif_") {
			f := strings.TrimSpace(lines[i+1])
			if k := strings.Index(f, " +0x"); k > 0 {
				f = f[:k]
			}
			frames = append(frames, strings.TrimPrefix(f, "/repo/"))
		}
	}
	return strings.Join(frames, " <- ")
}
