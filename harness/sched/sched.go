// Package sched runs several goroutines against one txfile.File under a
// controlled schedule: goroutines park at the trace points of the verif hooks
// and at operation boundaries, one thread runs at a time, and threads that the
// lock state says must block are released and expected back only once the
// state allows them to proceed. Used for C02, C09, C13.
package sched

import (
	"bytes"
	"fmt"
	"runtime"
	"sort"
	"strconv"
	"strings"
	"sync"
	"time"

	txfile "github.com/elastic/go-txfile"

	"verifharness/engine"
	"verifharness/simdisk"
)

func goid() uint64 {
	var buf [64]byte
	n := runtime.Stack(buf[:], false)
	// "goroutine 123 ["
	f := bytes.Fields(buf[:n])
	id, _ := strconv.ParseUint(string(f[1]), 10, 64)
	return id
}

type tstate int

const (
	tParked tstate = iota
	tRunning
	tBlocked
	tDone
)

// Thread is one controlled goroutine.
type Thread struct {
	ID    int
	Kind  string // reader | writer | closer
	point string // where it is parked / what it waits for
	arg   uint64
	state tstate
	wake  chan struct{}
	gid   uint64
	gen   int // number of times the thread parked (or finished)
	rel   int // gen at the time of its last release

	// reader/writer bookkeeping
	snap    *engine.SpecState // what a reader must see
	snapEnd uint64            // committed data end marker when the reader's snapshot was taken
	inTx    bool              // currently holds a transaction
	txStack []bool            // open transactions of this goroutine (true = write)
	moreTx  int               // transactions still to begin
}

// Event is one step of the recorded schedule.
type Event struct {
	Thread int
	Point  string
	Lock   string // lock snapshot after the step
}

// Sys is the system under a controlled schedule.
type Sys struct {
	mu      sync.Mutex
	evMu    sync.Mutex // Events (thread bodies add their calls' results)
	fresh   map[uint64]bool // pages allocated by the running write transaction
	arrived chan *Thread
	threads []*Thread
	byGid   map[uint64]*Thread

	F    *txfile.File
	Disk *simdisk.Disk
	Cfg  engine.Config

	committed engine.SpecState // spec: last completed commit
	stamp     uint64
	writers   int // active write transactions (between begin-locked and close)
	readers   int // active read transactions
	closing   bool // File.Close was released: the File is zeroed when it returns, so the lock is not probed any more

	Events   []Event
	Failures []engine.Failure
	Markers  map[string]int
	rng      *engine.RNG
	closed   bool
}

func (s *Sys) fail(prop, kind, format string, a ...interface{}) {
	s.mu.Lock()
	s.Failures = append(s.Failures, engine.Failure{Prop: prop, Kind: kind, Msg: fmt.Sprintf(format, a...), Step: len(s.Events)})
	s.mu.Unlock()
}

// parkPoints are the hook points at which controlled goroutines stop.
// txStack entries: true = write transaction
var parkPoints = map[string]bool{"begin-wait": true, "commit-pending": true, "commit-wait-exclusive": true, "commit-exclusive": true, "op": true, "close-wait": true}

// hook is installed as engine.PointHook.
func (s *Sys) hook(name string, args ...uint64) {
	if name == "begin-locked" || name == "tx-close" {
		s.mu.Lock()
		if t := s.byGid[goid()]; t != nil {
			if name == "begin-locked" {
				rw := len(args) > 0 && args[0] == 0
				t.txStack = append(t.txStack, rw)
				if !rw {
					s.readers++
				}
				if rw {
					s.writers++
					if s.writers > 1 {
						s.Failures = append(s.Failures, engine.Failure{Prop: "C09", Kind: "two-writers", Msg: fmt.Sprintf("%d write transactions hold the reserved lock at once", s.writers)})
					}
				}
			} else if n := len(t.txStack); n > 0 {
				if t.txStack[n-1] {
					s.writers--
				} else {
					s.readers--
				}
				t.txStack = t.txStack[:n-1]
			}
		}
		s.mu.Unlock()
		return
	}
	if !parkPoints[name] {
		return
	}
	s.mu.Lock()
	t := s.byGid[goid()]
	s.mu.Unlock()
	if t == nil {
		return
	}
	var a uint64
	if len(args) > 0 {
		a = args[0]
	}
	s.park(t, name, a)
}

func (s *Sys) park(t *Thread, point string, arg uint64) {
	s.mu.Lock()
	t.point, t.arg, t.state = point, arg, tParked
	t.gen++
	s.mu.Unlock()
	s.arrived <- t
	<-t.wake
}

func (s *Sys) lockStr() string {
	s.mu.Lock()
	closed, closing := s.closed, s.closing
	s.mu.Unlock()
	if closed {
		return "closed"
	}
	if closing {
		return "closing"
	}
	sh, p, rf := s.F.VerifLockState()
	return fmt.Sprintf("shared=%d pending=%v reserved=%v", sh, p, !rf)
}

// wouldBlock predicts from the real lock state whether releasing t blocks it.
func (s *Sys) wouldBlock(t *Thread) bool {
	s.mu.Lock()
	point, arg, closing, readers := t.point, t.arg, s.closing, s.readers
	s.mu.Unlock()
	var sh uint64
	var p, rf bool
	if closing {
		// Close runs (or waits) concurrently and zeroes the File on return: use the harness' own counts
		sh, p, rf = uint64(readers), true, false
	} else {
		sh, p, rf = s.F.VerifLockState()
	}
	switch point {
	case "begin-wait":
		if arg == 1 { // readonly
			return p
		}
		// the reserved lock is held by an active writer; once this thread got
		// it itself the snapshot shows it taken too, so use the writer count
		_ = rf
		s.mu.Lock()
		w := s.writers
		for _, rw := range t.txStack { // not the one this thread may have acquired meanwhile
			if rw {
				w--
			}
		}
		s.mu.Unlock()
		return w > 0
	case "commit-wait-exclusive":
		return sh > 0
	case "close-wait":
		// reserved is held by an active writer (once Close has it itself, the
		// snapshot shows it taken too - use the harness' writer count instead)
		s.mu.Lock()
		w := s.writers
		s.mu.Unlock()
		return w > 0 || sh > 0
	}
	return false
}

func (s *Sys) arrivedSince(t *Thread) bool {
	s.mu.Lock()
	defer s.mu.Unlock()
	return t.gen > t.rel
}

// waitFor waits until thread t parked again (or finished) after its last release.
func (s *Sys) waitFor(t *Thread, what string) bool {
	deadline := time.After(5 * time.Second)
	for !s.arrivedSince(t) {
		select {
		case <-s.arrived: // a wake-up only; who arrived is read from the thread states
		case <-deadline:
			var sb strings.Builder
			for _, o := range s.threads {
				fmt.Fprintf(&sb, " t%d(%s):%s@%d", o.ID, o.Kind, o.point, o.state)
			}
			s.fail("C09", "stuck", "thread %d did not arrive within 5s (%s); lock %s; threads%s", t.ID, what, s.lockStr(), sb.String())
			return false
		}
	}
	return true
}

func (s *Sys) release(t *Thread, blocked bool) {
	s.mu.Lock()
	t.rel = t.gen
	if t.point == "close-wait" {
		s.closing = true
	}
	if blocked {
		t.state = tBlocked
	} else {
		t.state = tRunning
	}
	s.mu.Unlock()
	t.wake <- struct{}{}
}

// Run starts the thread bodies and drives them until all are done or stuck.
func (s *Sys) Run(bodies []func(t *Thread)) bool {
	s.arrived = make(chan *Thread, 4096)
	s.byGid = map[uint64]*Thread{}
	engine.PointHook = s.hook
	defer func() { engine.PointHook = nil }()
	for i, b := range bodies {
		t := s.threads[i]
		body := b
		go func() {
			s.mu.Lock()
			t.gid = goid()
			s.byGid[t.gid] = t
			s.mu.Unlock()
			defer func() {
				if r := recover(); r != nil {
					s.fail("C09", "panic", "thread %d (%s) panicked: %v", t.ID, t.Kind, r)
				}
				s.mu.Lock()
				t.state, t.point = tDone, "done"
				t.gen++
				s.mu.Unlock()
				s.arrived <- t
			}()
			s.park(t, "op", 0) // start parked
			body(t)
		}()
	}
	for _, t := range s.threads {
		t.rel = 0
		if !s.waitFor(t, "thread start") {
			return false
		}
	}
	for steps := 0; steps < 10000; steps++ {
		// threads whose blocking condition cleared are running now: collect them
		for {
			progressed := false
			for _, t := range s.threads {
				s.mu.Lock()
				blocked := t.state == tBlocked || (t.state != tDone && t.gen == t.rel && t.state != tParked)
				s.mu.Unlock()
				if blocked && !s.wouldBlock(t) {
					if !s.waitFor(t, "unblocked") {
						return false
					}
					progressed = true
					s.record(t.ID, "unblocked->"+t.point)
				}
			}
			if !progressed {
				break
			}
		}
		var parked []*Thread
		alive := 0
		for _, t := range s.threads {
			s.mu.Lock()
			st := t.state
			s.mu.Unlock()
			if st != tDone {
				alive++
			}
			if st == tParked && s.eligible(t) {
				parked = append(parked, t)
			}
		}
		if alive == 0 {
			return true
		}
		if len(parked) == 0 {
			var sb strings.Builder
			for _, t := range s.threads {
				if t.state != tDone {
					fmt.Fprintf(&sb, " t%d(%s) blocked at %s", t.ID, t.Kind, t.point)
				}
			}
			s.fail("C09", "deadlock", "no thread can run and not all are done: lock %s;%s", s.lockStr(), sb.String())
			return false
		}
		t := parked[s.rng.Intn(len(parked))]
		blocks := s.wouldBlock(t)
		from := t.point
		lockBefore := s.lockStr()
		s.release(t, blocks)
		if blocks {
			s.Markers["blocked-"+from]++
			// give it a moment: it must NOT get through
			time.Sleep(300 * time.Microsecond)
			if s.arrivedSince(t) {
				s.fail("C09", "not-blocked", "thread %d (%s) released at %s was expected to block (lock %s) but reached %s", t.ID, t.Kind, from, lockBefore, t.point)
				return false
			}
			s.record(t.ID, "blocked@"+from)
			continue
		}
		if !s.waitFor(t, "released at "+from) {
			return false
		}
		s.record(t.ID, from+"->"+t.point)
	}
	s.fail("C09", "livelock", "schedule did not finish within 10000 steps")
	return false
}

// eligible: File.Close may only be called once no other thread will begin a
// transaction any more (Close zeroes the File; a Begin racing with it is out
// of contract). Transactions still open are fine: Close has to wait for them.
func (s *Sys) eligible(t *Thread) bool {
	s.mu.Lock()
	defer s.mu.Unlock()
	if t.point != "close-wait" {
		return true
	}
	for _, o := range s.threads {
		if o == t || o.state == tDone {
			continue
		}
		if o.moreTx > 0 || !o.inTx {
			return false
		}
	}
	return true
}

func (s *Sys) record(tid int, what string) {
	l := s.lockStr()
	s.evMu.Lock()
	s.Events = append(s.Events, Event{Thread: tid, Point: what, Lock: l})
	s.evMu.Unlock()
}

// Note adds a line of a thread body (a completed library call and its result) to the event trace.
func (s *Sys) Note(tid int, what string) { s.record(tid, what) }

// yield parks the calling thread at an operation boundary.
func (s *Sys) yield(t *Thread) { s.park(t, "op", 0) }

// Yield is yield for thread bodies defined outside this package.
func (s *Sys) Yield(t *Thread) { s.yield(t) }

// Fail records a failure from a thread body.
func (s *Sys) Fail(prop, kind, format string, a ...interface{}) { s.fail(prop, kind, format, a...) }

// SetTx updates the bookkeeping used to decide when File.Close may be scheduled.
func (s *Sys) SetTx(t *Thread, inTx bool, more int) {
	s.mu.Lock()
	t.inTx, t.moreTx = inTx, more
	s.mu.Unlock()
}

// NewEmptySys creates a system around an already opened file.
func NewEmptySys(r *engine.RNG, f *txfile.File, d *simdisk.Disk, cfg engine.Config) *Sys {
	return &Sys{F: f, Disk: d, Cfg: cfg, Markers: map[string]int{}, rng: r, committed: engine.SpecState{Pages: map[uint64]engine.Content{}}}
}

// ---------------------------------------------------------------------------
// thread bodies

func (s *Sys) specCopy() *engine.SpecState {
	m := map[uint64]engine.Content{}
	for k, v := range s.committed.Pages {
		m[k] = v
	}
	return &engine.SpecState{Root: s.committed.Root, Pages: m}
}

func (s *Sys) verifyView(t *Thread, tx *txfile.Tx, when string) {
	st := t.snap
	if uint64(tx.Root()) != st.Root {
		s.fail("C02", "reader-root", "reader %d %s: root %d, snapshot root %d", t.ID, when, tx.Root(), st.Root)
	}
	ids := make([]uint64, 0, len(st.Pages))
	for id := range st.Pages {
		ids = append(ids, id)
	}
	sort.Slice(ids, func(i, j int) bool { return ids[i] < ids[j] })
	for _, id := range ids {
		p, err := tx.Page(txfile.PageID(id))
		if err != nil {
			s.fail("C02", "reader-page", "reader %d %s: page %d of its snapshot: %s", t.ID, when, id, engine.ErrKind(err))
			continue
		}
		b, err := p.Bytes()
		if err != nil {
			s.fail("C02", "reader-bytes", "reader %d %s: page %d: %s", t.ID, when, id, engine.ErrKind(err))
			continue
		}
		got, ok := engine.Parse(b)
		if want := st.Pages[id]; !ok || got != want {
			s.fail("C02", "reader-view", "reader %d %s: page %d reads %s, its snapshot has %s", t.ID, when, id, got, want)
			return
		}
	}
	// pages a running writer has allocated past the committed end of this reader's snapshot are
	// outside the reader's bounds (Tx.dataEndID is a copy taken at Begin), flushed or not
	s.mu.Lock()
	var fresh []uint64
	for id := range s.fresh {
		if _, in := st.Pages[id]; !in && id >= t.snapEnd {
			fresh = append(fresh, id)
		}
	}
	s.mu.Unlock()
	sort.Slice(fresh, func(i, j int) bool { return fresh[i] < fresh[j] })
	for _, id := range fresh {
		s.Markers["reader-probes-writer-page"]++
		if p, err := tx.Page(txfile.PageID(id)); err == nil {
			what := "unreadable"
			if b, err := p.Bytes(); err == nil {
				c, _ := engine.Parse(b)
				what = fmt.Sprintf("reads %s", c)
			}
			s.fail("C02", "reader-bound", "reader %d %s: opens page %d, allocated by the running writer past the committed end %d of the reader's snapshot (%s)", t.ID, when, id, t.snapEnd, what)
			return
		}
	}
}

// ReaderBody: begin, verify, yield..., verify, close.
func (s *Sys) ReaderBody(checks int) func(t *Thread) {
	return func(t *Thread) {
		s.yield(t)
		tx, err := s.F.BeginReadonly()
		if err != nil {
			s.fail("C09", "begin-ro", "BeginReadonly failed: %s", engine.ErrKind(err))
			return
		}
		s.mu.Lock()
		t.inTx, t.moreTx = true, 0
		s.mu.Unlock()
		// A reader woken up by a finishing commit runs concurrently with the
		// committing thread until both are parked again: park first, then take the
		// snapshot. No commit can complete while this reader holds the shared
		// lock, so the spec state at that point is the last commit completed
		// before the lock was granted.
		s.yield(t)
		s.mu.Lock()
		t.snap = s.specCopy()
		s.mu.Unlock()
		if fs := s.F.VerifSnapshot(); fs.MappedLen > 0 {
			t.snapEnd = fs.Meta[fs.MetaActive].DataEnd
		} else {
			t.snapEnd = ^uint64(0)
		}
		s.verifyView(t, tx, "at begin")
		for i := 0; i < checks; i++ {
			s.yield(t)
			s.verifyView(t, tx, fmt.Sprintf("check %d", i+1))
		}
		s.yield(t)
		tx.Close()
	}
}

// WriterBody: a write transaction with random page updates, optional flush /
// checkpoint, ending in commit, rollback or close.
func (s *Sys) WriterBody(r *engine.RNG, txs int) func(t *Thread) {
	return func(t *Thread) {
		ps := int(s.Cfg.PageSize)
		for n := 0; n < txs; n++ {
			s.yield(t)
			tx, err := s.F.Begin()
			if err != nil {
				s.fail("C09", "begin-rw", "Begin failed: %s", engine.ErrKind(err))
				return
			}
			s.mu.Lock()
			t.inTx, t.moreTx = true, txs-n-1
			s.mu.Unlock()
			s.yield(t) // woken by a finishing writer: wait until it has published its commit
			s.mu.Lock()
			base := s.specCopy()
			s.mu.Unlock()
			next := &engine.SpecState{Root: base.Root, Pages: base.Pages}
			var ids []uint64
			for id := range base.Pages {
				ids = append(ids, id)
			}
			sort.Slice(ids, func(i, j int) bool { return ids[i] < ids[j] })
			ops := 1 + r.Intn(5)
			failed := false
			for k := 0; k < ops && !failed; k++ {
				switch w := r.Intn(10); {
				case w < 4 || len(ids) == 0:
					p, err := tx.Alloc()
					if err != nil {
						failed = true
						break
					}
					id := uint64(p.ID())
					s.mu.Lock()
					s.stamp++
					c := engine.Content{ID: id, S1: s.stamp, S2: s.stamp}
					s.mu.Unlock()
					if err := p.SetBytes(engine.Render(c, ps)); err != nil {
						failed = true
						break
					}
					next.Pages[id] = c
					ids = append(ids, id)
					s.mu.Lock()
					if s.fresh == nil {
						s.fresh = map[uint64]bool{}
					}
					s.fresh[id] = true
					s.mu.Unlock()
				case w < 8:
					id := ids[r.Intn(len(ids))]
					p, err := tx.Page(txfile.PageID(id))
					if err != nil {
						break
					}
					s.mu.Lock()
					s.stamp++
					c := engine.Content{ID: id, S1: s.stamp, S2: s.stamp}
					s.mu.Unlock()
					if err := p.SetBytes(engine.Render(c, ps)); err == nil {
						next.Pages[id] = c
					}
				case w < 9:
					id := ids[r.Intn(len(ids))]
					if p, err := tx.Page(txfile.PageID(id)); err == nil && !p.Dirty() {
						if p.Free() == nil {
							delete(next.Pages, id)
							for i, x := range ids {
								if x == id {
									ids = append(ids[:i], ids[i+1:]...)
									break
								}
							}
						}
					}
				default:
					tx.SetRoot(txfile.PageID(ids[r.Intn(len(ids))]))
					next.Root = uint64(tx.Root())
				}
				if r.Chance(30) {
					s.yield(t)
				}
				if r.Chance(25) {
					tx.Flush()
					s.Markers["flush-before-end"]++
					s.yield(t)
				}
				if r.Chance(10) {
					tx.CheckpointWAL()
					s.yield(t)
				}
			}
			end := r.Intn(10)
			var cerr error
			switch {
			case failed || end < 2:
				cerr = tx.Rollback()
				s.Markers["rollback"]++
			case end < 3:
				cerr = tx.Close()
				s.Markers["close"]++
			default:
				cerr = tx.Commit()
				if cerr == nil {
					s.mu.Lock()
					s.committed = *next
					s.mu.Unlock()
					s.Markers["commit"]++
				} else {
					s.Markers["commit-failed"]++
				}
			}
			_ = cerr
			s.mu.Lock()
			t.inTx = false
			s.fresh = nil
			s.mu.Unlock()
		}
	}
}

// CloserBody closes the file once (it must wait for all active transactions).
func (s *Sys) CloserBody() func(t *Thread) {
	return func(t *Thread) {
		s.yield(t)
		s.park(t, "close-wait", 0)
		f := s.F
		if err := f.Close(); err != nil {
			s.fail("C09", "close", "File.Close failed: %v", err)
		}
		s.mu.Lock()
		s.closed = true
		s.mu.Unlock()
	}
}

// NewSys creates a system on a fresh file with some committed pages.
func NewSys(r *engine.RNG, cfg engine.Config) (*Sys, error) {
	s := &Sys{Disk: simdisk.New("sched"), Cfg: cfg, Markers: map[string]int{}, rng: r}
	s.committed = engine.SpecState{Pages: map[uint64]engine.Content{}}
	f, err := txfile.VerifOpen(s.Disk, cfg.Options())
	if err != nil {
		return nil, err
	}
	s.F = f
	tx, err := f.Begin()
	if err != nil {
		return nil, err
	}
	ps := int(cfg.PageSize)
	for i := 0; i < 4+r.Intn(6); i++ {
		p, err := tx.Alloc()
		if err != nil {
			return nil, err
		}
		s.stamp++
		c := engine.Content{ID: uint64(p.ID()), S1: s.stamp, S2: s.stamp}
		p.SetBytes(engine.Render(c, ps))
		s.committed.Pages[c.ID] = c
	}
	if err := tx.Commit(); err != nil {
		return nil, err
	}
	return s, nil
}

// AddThread registers a thread; bodies are passed to Run in the same order.
func (s *Sys) AddThread(kind string, txs int) *Thread {
	t := &Thread{ID: len(s.threads), Kind: kind, wake: make(chan struct{}, 1), moreTx: txs}
	s.threads = append(s.threads, t)
	return t
}

// TraceLines renders the schedule for the Lean lock model.
func (s *Sys) TraceLines() string {
	var sb strings.Builder
	for _, t := range s.threads {
		fmt.Fprintf(&sb, "thread %d %s\n", t.ID, t.Kind)
	}
	for _, e := range s.Events {
		fmt.Fprintf(&sb, "step %d %s => %s\n", e.Thread, e.Point, e.Lock)
	}
	return sb.String()
}
