module verifharness

go 1.21

require github.com/elastic/go-txfile v0.0.0

require (
	github.com/gofrs/flock v0.7.1 // indirect
	github.com/urso/go-bin v0.0.0-20180220135811-781c575c9f0e // indirect
	golang.org/x/sys v0.0.0-20200102141924-c96a22e43c9c // indirect
)

replace github.com/elastic/go-txfile => /repo
