package engine

import (
	"fmt"
	"strings"
	"time"

	txfile "github.com/elastic/go-txfile"
)

// MisuseStats counts matrix cells.
type MisuseStats struct{ Cells, ErrorCells, OkCells int }

type misuseCtx struct {
	tx    *txfile.Tx
	page  *txfile.Page
	live  uint64 // id of a live committed page
	live2 uint64
}

// txState prepares a transaction in a given lifecycle state.
var txStates = []string{"active-rw", "active-ro", "committed", "rolledback", "closed-rw", "closed-ro"}

// pageStates prepares a page (in a writable transaction unless stated).
var pageStates = []string{"clean", "new-empty", "new-written", "dirty", "flushed", "freed", "freed-new", "of-finished-tx", "of-ro-tx",
	// pages that carry a private write buffer: after Load, after a partial SetBytes (old and new page)
	"loaded", "partial", "new-partial"}

func (s *Session) mkTx(state string) (*txfile.Tx, error) {
	ro := strings.HasSuffix(state, "-ro")
	var tx *txfile.Tx
	var err error
	if ro {
		tx, err = s.F.BeginReadonly()
	} else {
		tx, err = s.F.Begin()
	}
	if err != nil {
		return nil, err
	}
	switch state {
	case "committed":
		err = tx.Commit()
	case "rolledback":
		err = tx.Rollback()
	case "closed-rw", "closed-ro":
		err = tx.Close()
	}
	return tx, err
}

// MisuseMatrix enumerates method x lifecycle-state cells on the real code after
// the session's prefix history (C15). Every call runs under recover and a
// watchdog; invalid calls must return the documented error kind and leave the
// committed state and the running transaction unchanged.
func (s *Session) MisuseMatrix() MisuseStats {
	var st MisuseStats
	ids := s.LiveIDs()
	var written []uint64
	for _, id := range ids {
		if s.Committed[id].ID != ^uint64(0) {
			written = append(written, id)
		}
	}
	if len(written) < 3 || s.F == nil {
		return st
	}
	ps := int(s.Cfg.PageSize)
	outOfRange := uint64(1 << 40)

	type call struct {
		name   string
		fn     func(c *misuseCtx) error
		expect func(state string) []string // allowed outcomes for a tx state
	}
	fin := func(state string) bool {
		return state == "committed" || state == "rolledback" || strings.HasPrefix(state, "closed")
	}
	ro := func(state string) bool { return strings.HasSuffix(state, "-ro") }
	writeExp := func(state string) []string {
		switch {
		case ro(state) && fin(state):
			return []string{"err:readonly", "err:finished"}
		case ro(state):
			return []string{"err:readonly"}
		case fin(state):
			return []string{"err:finished"}
		}
		return []string{"ok"}
	}
	readExp := func(state string) []string {
		if fin(state) {
			return []string{"err:finished"}
		}
		return []string{"ok"}
	}
	txCalls := []call{
		{"Commit", func(c *misuseCtx) error { return c.tx.Commit() }, func(st string) []string {
			if fin(st) {
				return []string{"err:commitfail/finished"}
			}
			return []string{"ok"}
		}},
		{"Rollback", func(c *misuseCtx) error { return c.tx.Rollback() }, func(st string) []string {
			if fin(st) {
				return []string{"err:rollbackfail/finished"}
			}
			return []string{"ok"}
		}},
		{"Close", func(c *misuseCtx) error { return c.tx.Close() }, func(st string) []string { return []string{"ok"} }},
		{"CheckpointWAL", func(c *misuseCtx) error { return c.tx.CheckpointWAL() }, writeExp},
		{"Flush", func(c *misuseCtx) error { return c.tx.Flush() }, func(st string) []string {
			e := writeExp(st)
			if e[0] == "ok" {
				return []string{"ok", "err:oom"}
			}
			return e
		}},
		{"Alloc", func(c *misuseCtx) error { _, err := c.tx.Alloc(); return err }, func(st string) []string {
			e := writeExp(st)
			if e[0] == "ok" {
				return []string{"ok", "err:oom"}
			}
			return e
		}},
		{"AllocN(2)", func(c *misuseCtx) error { _, err := c.tx.AllocN(2); return err }, func(st string) []string {
			e := writeExp(st)
			if e[0] == "ok" {
				return []string{"ok", "err:oom"}
			}
			return e
		}},
		{"AllocN(0)", func(c *misuseCtx) error {
			p, err := c.tx.AllocN(0)
			if err == nil && len(p) != 0 {
				return fmt.Errorf("AllocN(0) returned pages")
			}
			return err
		}, writeExp},
		{"AllocN(-1)", func(c *misuseCtx) error {
			p, err := c.tx.AllocN(-1)
			if err == nil && len(p) != 0 {
				return fmt.Errorf("AllocN(-1) returned pages")
			}
			return err
		}, writeExp},
		{"Page(live)", func(c *misuseCtx) error { _, err := c.tx.Page(txfile.PageID(c.live)); return err }, readExp},
		{"Page(0)", func(c *misuseCtx) error { _, err := c.tx.Page(0); return err }, func(st string) []string {
			if fin(st) {
				return []string{"err:finished"}
			}
			return []string{"err:pageid"}
		}},
		{"Page(1)", func(c *misuseCtx) error { _, err := c.tx.Page(1); return err }, func(st string) []string {
			if fin(st) {
				return []string{"err:finished"}
			}
			return []string{"err:pageid"}
		}},
		{"Page(out-of-range)", func(c *misuseCtx) error { _, err := c.tx.Page(txfile.PageID(outOfRange)); return err }, func(st string) []string {
			if fin(st) {
				return []string{"err:finished"}
			}
			return []string{"err:pageid"}
		}},
		{"RootPage", func(c *misuseCtx) error { _, err := c.tx.RootPage(); return err }, func(st string) []string {
			if fin(st) && s.Root >= 2 {
				return []string{"err:finished"}
			}
			return []string{"ok"}
		}},
		{"SetRoot+getters", func(c *misuseCtx) error {
			_ = c.tx.Root()
			_ = c.tx.Active()
			_ = c.tx.Readonly()
			_ = c.tx.Writable()
			_ = c.tx.PageSize()
			return nil
		}, func(st string) []string { return []string{"ok"} }},
	}

	run := func(desc string, fn func() error, allowed []string, invalid bool, tx *txfile.Tx) {
		st.Cells++
		var before string
		if invalid && tx != nil && tx.Active() {
			before = s.snapWith(tx)
		}
		done := make(chan string, 1)
		go func() {
			defer func() {
				if r := recover(); r != nil {
					done <- "panic: " + firstLine(fmt.Sprint(r))
				}
			}()
			done <- ErrKind(fn())
		}()
		var res string
		select {
		case res = <-done:
		case <-time.After(3 * time.Second):
			s.fail("C15", "misuse-blocks", "%s: call did not return within 3s", desc)
			return
		}
		if strings.HasPrefix(res, "panic") {
			s.fail("C15", "misuse-panic", "%s: %s", desc, res)
			return
		}
		ok := false
		for _, a := range allowed {
			if res == a {
				ok = true
			}
		}
		if !ok {
			s.fail("C15", "misuse-kind", "%s: result %s, documented: %s", desc, res, strings.Join(allowed, " or "))
			return
		}
		if res == "ok" {
			st.OkCells++
		} else {
			st.ErrorCells++
		}
		if before != "" && res != "ok" {
			if after := s.snapWith(tx); after != before {
				s.fail("C15", "misuse-state", "%s: rejected call changed the transaction state:\n before %s\n after  %s", desc, before, after)
			}
		}
	}

	// transaction methods x transaction states
	for _, state := range txStates {
		for _, c := range txCalls {
			tx, err := s.mkTx(state)
			if err != nil {
				s.fail("C15", "misuse-setup", "preparing tx state %s failed: %v", state, err)
				continue
			}
			ctx := &misuseCtx{tx: tx, live: written[0], live2: written[1]}
			allowed := c.expect(state)
			run(fmt.Sprintf("Tx.%s on %s transaction", c.name, state), func() error { return c.fn(ctx) }, allowed, allowed[0] != "ok", tx)
			if tx.Active() {
				tx.Close()
			}
		}
		s.ReadCheck("C15")
	}

	// page methods x page states
	type pcall struct {
		name   string
		fn     func(p *txfile.Page) error
		expect func(state string) []string
	}
	noWrite := func(kind string) func(string) []string {
		return func(state string) []string {
			switch state {
			case "freed", "freed-new", "flushed":
				return []string{"err:invalidop"}
			case "of-finished-tx":
				return []string{"err:finished"}
			case "of-ro-tx":
				return []string{"err:readonly"}
			}
			if kind != "" {
				return []string{kind}
			}
			return []string{"ok"}
		}
	}
	pageCalls := []pcall{
		{"MarkDirty", func(p *txfile.Page) error { return p.MarkDirty() }, noWrite("")},
		{"Load", func(p *txfile.Page) error { return p.Load() }, noWrite("")},
		{"SetBytes(full)", func(p *txfile.Page) error { return p.SetBytes(Render(Content{ID: 9, S1: 9, S2: 9}, ps)) }, noWrite("")},
		{"SetBytes(partial)", func(p *txfile.Page) error { return p.SetBytes(make([]byte, 10)) }, noWrite("")},
		{"SetBytes(oversize)", func(p *txfile.Page) error { return p.SetBytes(make([]byte, ps+1)) }, noWrite("err:param")},
		{"Flush", func(p *txfile.Page) error { return p.Flush() }, func(state string) []string {
			e := noWrite("")(state)
			if (state == "dirty" || state == "partial") && e[0] == "ok" {
				return []string{"ok", "err:oom"} // flushing an overwritten page needs an overwrite page: a full file may refuse
			}
			return e
		}},
		{"Free", func(p *txfile.Page) error { return p.Free() }, func(state string) []string {
			switch state {
			case "dirty", "new-written", "partial", "new-partial":
				return []string{"err:invalidop"}
			}
			return noWrite("")(state)
		}},
		{"Bytes", func(p *txfile.Page) error { _, err := p.Bytes(); return err }, func(state string) []string {
			switch state {
			case "new-empty":
				return []string{"err:invalidop"}
			case "freed", "freed-new":
				return []string{"ok", "err:invalidop"} // reading through a handle obtained before the free
			case "of-finished-tx":
				return []string{"err:finished"}
			}
			return []string{"ok"}
		}},
		{"getters", func(p *txfile.Page) error { _ = p.ID(); _ = p.Dirty(); _ = p.Readonly(); _ = p.Writable(); return nil },
			func(string) []string { return []string{"ok"} }},
	}
	for _, state := range pageStates {
		for _, c := range pageCalls {
			var tx *txfile.Tx
			var p *txfile.Page
			var err error
			setup := func() error {
				if state == "of-ro-tx" {
					tx, err = s.F.BeginReadonly()
				} else {
					tx, err = s.F.Begin()
				}
				if err != nil {
					return err
				}
				switch state {
				case "new-empty", "new-written", "freed-new", "new-partial":
					p, err = tx.Alloc()
					if err != nil {
						return err
					}
					if state == "new-partial" {
						return p.SetBytes(make([]byte, 10))
					}
					if state == "new-written" {
						return p.SetBytes(Render(Content{ID: 5, S1: 5, S2: 5}, ps))
					}
					if state == "freed-new" {
						return p.Free()
					}
					return nil
				}
				p, err = tx.Page(txfile.PageID(written[0]))
				if err != nil {
					return err
				}
				switch state {
				case "loaded":
					return p.Load()
				case "partial":
					return p.SetBytes(make([]byte, 10))
				case "dirty":
					return p.SetBytes(Render(Content{ID: written[0], S1: 5, S2: 5}, ps))
				case "flushed":
					if err := p.SetBytes(Render(Content{ID: written[0], S1: 5, S2: 5}, ps)); err != nil {
						return err
					}
					return p.Flush()
				case "freed":
					return p.Free()
				case "of-finished-tx":
					return tx.Rollback()
				}
				return nil
			}
			if err := setup(); err != nil {
				if ErrKind(err) == "err:oom" || strings.Contains(ErrKind(err), "oom") {
					if tx != nil && tx.Active() {
						tx.Close()
					}
					continue // full file: cell not reachable from this prefix
				}
				s.fail("C15", "misuse-setup", "preparing page state %s failed: %v", state, err)
				if tx != nil && tx.Active() {
					tx.Close()
				}
				continue
			}
			allowed := c.expect(state)
			run(fmt.Sprintf("Page.%s on %s page", c.name, state), func() error { return c.fn(p) }, allowed, allowed[0] != "ok", tx)
			if tx.Active() {
				tx.Close()
			}
		}
		s.ReadCheck("C15")
	}

	// access to pages freed in the running transaction
	for _, newPage := range []bool{false, true} {
		tx, err := s.F.Begin()
		if err != nil {
			break
		}
		var id txfile.PageID
		var p *txfile.Page
		if newPage {
			p, err = tx.Alloc()
		} else {
			p, err = tx.Page(txfile.PageID(written[1]))
		}
		if err == nil {
			id = p.ID()
			err = p.Free()
		}
		if err == nil {
			run(fmt.Sprintf("Tx.Page(id) of a page freed in this transaction (new=%v)", newPage),
				func() error { _, err := tx.Page(id); return err }, []string{"err:invalidop"}, true, tx)
		}
		tx.Close()
	}
	s.ReadCheck("C15")

	// a reader begun while a writer has allocated pages past the committed end: those ids are out of
	// range for the reader (its bounds are those of the committed state, not of the running writer)
	if wtx, err := s.F.Begin(); err == nil {
		var fresh []txfile.PageID
		if pages, err := wtx.AllocN(3); err == nil {
			committedEnd := s.F.VerifSnapshot().Meta[s.F.VerifSnapshot().MetaActive].DataEnd
			for _, p := range pages {
				if uint64(p.ID()) >= committedEnd {
					fresh = append(fresh, p.ID())
				}
			}
		}
		if len(fresh) > 0 {
			if rtx, err := s.F.BeginReadonly(); err == nil {
				for _, id := range fresh {
					id := id
					run(fmt.Sprintf("read-only Tx.Page(%d) of a page past the committed end, allocated by a running writer", id),
						func() error { _, err := rtx.Page(id); return err }, []string{"err:pageid"}, true, nil)
				}
				rtx.Close()
				s.mark("misuse-reader-vs-writer-bounds")
			}
		}
		wtx.Close()
	}
	s.ReadCheck("C15")
	return st
}

// snapWith renders the allocator and transaction state for a foreign tx handle.
func (s *Session) snapWith(tx *txfile.Tx) string {
	save := s.Tx
	s.Tx = tx
	defer func() { s.Tx = save }()
	return s.SnapLine()
}
