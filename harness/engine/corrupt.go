package engine

import (
	"fmt"

	txfile "github.com/elastic/go-txfile"
)

// CorruptStats counts header damage cases.
type CorruptStats struct {
	Images, Flips, Tears, Garbage, Both, Fallbacks int
}

// CorruptCheck damages the header pages of the final image of a session
// (taken right after a completed commit, file closed) and checks that opening
// restores the state of the other header (C16).
func CorruptCheck(s *Session, r *RNG, flipStep int) ([]Failure, CorruptStats) {
	var fails []Failure
	var st CorruptStats
	if len(s.History) < 2 {
		return nil, st
	}
	img := s.Disk.Contents()
	ps := int(s.Cfg.PageSize)
	opts := s.Cfg.Options()
	cur := s.History[len(s.History)-1]
	prev := s.History[len(s.History)-2]
	hdr := [2][]byte{append([]byte(nil), img[0:84]...), append([]byte(nil), img[ps:ps+84]...)}
	m0, m1 := txfile.VerifDecodeMeta(hdr[0]), txfile.VerifDecodeMeta(hdr[1])
	if !m0.Valid || !m1.Valid {
		return nil, st // a header was left invalid by the history itself (not expected without faults)
	}
	active := 0
	if int64(m1.Txid-m0.Txid) > 0 {
		active = 1
	}
	off := [2]int{0, ps}

	try := func(desc string, slot int, dmg []byte, slot2 int, dmg2 []byte) {
		im := append([]byte(nil), img...)
		copy(im[off[slot]:], dmg)
		valid := txfile.VerifValidateMeta(im[off[slot] : off[slot]+84])
		same := string(im[off[slot]:off[slot]+84]) == string(hdr[slot])
		both := dmg2 != nil
		if both {
			copy(im[off[slot2]:], dmg2)
		}
		st.Images++
		var allowed []SpecState
		expectErr := false
		switch {
		case both:
			expectErr = true
		case same:
			allowed = []SpecState{cur}
		case valid:
			return // undetectable damage (checksum collision): outside the provable claim
		case slot == active:
			allowed = []SpecState{prev}
			st.Fallbacks++
		default:
			allowed = []SpecState{cur}
		}
		res := CheckImage(im, opts, allowed, st.Images%5 == 0)
		switch {
		case res.Panic != "":
			fails = append(fails, Failure{Prop: "C16", Kind: "corrupt-panic", Msg: fmt.Sprintf("%s: open panicked: %s", desc, res.Panic)})
		case expectErr:
			if res.Opened {
				fails = append(fails, Failure{Prop: "C16", Kind: "corrupt-both-opened", Msg: fmt.Sprintf("%s: both headers damaged but Open succeeded", desc)})
			}
		case !res.Opened:
			fails = append(fails, Failure{Prop: "C16", Kind: "corrupt-open", Msg: fmt.Sprintf("%s (active slot %d): open failed although the other header is intact: %s", desc, active, res.OpenErr)})
		case res.Match < 0:
			fails = append(fails, Failure{Prop: "C16", Kind: "corrupt-state", Msg: fmt.Sprintf("%s (active slot %d): wrong state exposed: %s", desc, active, res.Diff)})
		case res.Probe != "":
			fails = append(fails, Failure{Prop: "C16", Kind: "corrupt-probe", Msg: fmt.Sprintf("%s: file not operational afterwards: %s", desc, res.Probe)})
		}
	}

	for slot := 0; slot < 2; slot++ {
		for bit := r.Intn(flipStep); bit < 84*8; bit += flipStep {
			d := append([]byte(nil), hdr[slot]...)
			d[bit/8] ^= 1 << uint(bit%8)
			st.Flips++
			try(fmt.Sprintf("slot %d bit flip %d", slot, bit), slot, d, 0, nil)
		}
		for k := 1; k < 84; k += 1 + r.Intn(3) {
			// torn write: first k bytes of a different (newer) header over the old one
			nm := m0
			if slot == 1 {
				nm = m1
			}
			nm.Txid += 2
			nm.Root += 3
			nm.DataEnd += 5
			nb := txfile.VerifEncodeMeta(nm)
			d := append([]byte(nil), hdr[slot]...)
			copy(d[:k], nb[:k])
			st.Tears++
			try(fmt.Sprintf("slot %d prefix tear %d", slot, k), slot, d, 0, nil)
		}
		z := make([]byte, ps)
		st.Garbage++
		try(fmt.Sprintf("slot %d zeroed page", slot), slot, z, 0, nil)
		for j := 0; j < 6; j++ {
			g := make([]byte, ps)
			for i := range g {
				g[i] = byte(r.Next())
			}
			if j%2 == 0 { // keep most of the header, damage several bytes
				copy(g, img[off[slot]:off[slot]+ps])
				for q := 0; q < 2+r.Intn(8); q++ {
					g[r.Intn(84)] = byte(r.Next())
				}
			}
			st.Garbage++
			try(fmt.Sprintf("slot %d garbage %d", slot, j), slot, g, 0, nil)
		}
	}
	// both damaged
	for j := 0; j < 4; j++ {
		d0 := append([]byte(nil), hdr[0]...)
		d1 := append([]byte(nil), hdr[1]...)
		d0[r.Intn(84)] ^= byte(1 + r.Intn(255))
		d1[r.Intn(84)] ^= byte(1 + r.Intn(255))
		st.Both++
		try("both slots damaged", 0, d0, 1, d1)
	}
	return fails, st
}
