package engine

import (
	"fmt"
	"reflect"
	"sort"
	"strings"

	txfile "github.com/elastic/go-txfile"
)

// Params steer the program generator.
type Params struct {
	Txs        int  // number of write transactions
	MaxOps     int  // max operations per transaction
	Reopen     int  // percent chance of a reopen after a transaction
	Overflow   int  // percent chance a transaction enables the overflow area
	AbortPct   int  // percent chance a transaction is rolled back / closed
	SmallWAL   int  // percent chance of a small WAL limit
	BigAlloc   int  // percent chance of a large AllocN
	FreePct    int  // relative weight of frees
	NoQuiesce  bool // skip the quiescent checks (used by callers that do their own)
	OnQuiesce  func(s *Session) // extra probe at quiescent points
	BeforeEnd  func(s *Session, commit bool) // called right before commit/abort
	MinAlloc   int  // allocate (and write) this many pages first
	FreeTop    int  // percent of the frees that take the highest live page (releases the end of the data area)
	KeepFill   int  // try to keep at most this percent of a bounded file live (0 = default 60)
	FreeRun    int  // after the second transaction: leave a free region of exactly this many pages between two live pages, then reopen (0 = off)
}

// DefaultParams returns the standard mix.
func DefaultParams() Params {
	return Params{Txs: 12, MaxOps: 14, Reopen: 12, Overflow: 0, AbortPct: 25, SmallWAL: 40, BigAlloc: 10, FreePct: 20}
}

// RandomConfig draws a file configuration.
func RandomConfig(r *RNG) Config {
	c := Config{}
	if r.Chance(70) {
		c.PageSize = 1024
	} else {
		c.PageSize = 4096
	}
	minPages := uint64(65536 / c.PageSize)
	switch r.Intn(4) {
	case 0:
		c.MaxPages = 0
	case 1:
		c.MaxPages = minPages
	case 2:
		c.MaxPages = minPages + uint64(r.Intn(40))
	default:
		c.MaxPages = minPages * 3
	}
	switch r.Intn(4) {
	case 0:
		c.InitMeta = 0
	case 1:
		c.InitMeta = 1
	case 2:
		c.InitMeta = uint32(2 + r.Intn(6))
	default:
		c.InitMeta = 16
	}
	if c.MaxPages > 0 && uint64(c.InitMeta) >= c.MaxPages-2 {
		c.InitMeta = 4
	}
	c.Prealloc = c.MaxPages > 0 && r.Chance(30)
	if c.MaxPages > 0 && r.Chance(20) {
		// a configured limit that is no multiple of the page size: the file holds floor(limit/pageSize) pages
		c.MaxSlack = uint64(1 + r.Intn(int(c.PageSize)-1))
	}
	return c
}

// EverOverflow is set once a transaction enabled the overflow area.
func (s *Session) everOverflow() bool { return s.Markers["overflow-tx"] > 0 }

// Quiesce runs the checks that must hold between transactions.
func (s *Session) Quiesce() {
	s.ReadCheck("C03")
	s.AccountCheck()
}

// AccountCheck: page accounting, statistics, lock state and ownership (C11, C09, C04) at a
// point between transactions; reads allocator state only (no I/O).
func (s *Session) AccountCheck() {
	fs := s.F.VerifSnapshot()
	live := uint64(len(s.Committed))
	if !s.everOverflow() && !s.resized && fs.MetaEnd <= fs.DataEnd {
		// page accounting: every page below the data end is free, live or meta
		if fs.DataEnd != 2+fs.DataAvail+live+fs.MetaTotal {
			s.fail("C11", "space", "page accounting broken: dataEnd=%d but 2+free(%d)+live(%d)+metaTotal(%d)=%d",
				fs.DataEnd, fs.DataAvail, live, fs.MetaTotal, 2+fs.DataAvail+live+fs.MetaTotal)
		}
		if s.Cfg.MaxPages > 0 && !s.resized && s.boundPages == 0 {
			if s.Cfg.MaxSlack > 0 {
				s.mark("unaligned-max-size")
			}
			if fs.MaxPages != s.Cfg.MaxPages {
				s.fail("C11", "max-pages", "the allocator works with %d pages, the configured max size %d (page size %d) allows %d", fs.MaxPages, s.Cfg.Options().MaxSize, fs.PageSize, s.Cfg.MaxPages)
			}
			if ext := uint64(s.Disk.MaxExtent); ext > s.Cfg.Options().MaxSize {
				s.fail("C11", "extent", "file extent %d beyond the configured max size %d", ext, s.Cfg.Options().MaxSize)
			}
		}
		if fs.MaxPages > 0 {
			if fs.DataEnd > fs.MaxPages && !s.resized {
				s.fail("C11", "end-beyond-max", "data end marker %d beyond max pages %d", fs.DataEnd, fs.MaxPages)
			}
			// (a preallocated file extends to the configured size, which need not be a multiple of the page size)
			if ext := uint64(s.Disk.MaxExtent); ext > fs.MaxPages*fs.PageSize && ext > fs.MaxSize && !s.resized {
				s.fail("C11", "extent", "file extent %d beyond max size %d", ext, fs.MaxPages*fs.PageSize)
			}
		}
		if uint64(fs.Stats.DataAllocated) != live {
			s.fail("C11", "stats-data", "FileStats.DataAllocated=%d, live pages=%d", fs.Stats.DataAllocated, live)
		}
		if uint64(fs.Stats.MetaArea) != fs.MetaTotal || uint64(fs.Stats.MetaAllocated) != fs.MetaTotal-fs.MetaAvail {
			s.fail("C11", "stats-meta", "FileStats meta=%d/%d, actual %d/%d", fs.Stats.MetaArea, fs.Stats.MetaAllocated, fs.MetaTotal, fs.MetaTotal-fs.MetaAvail)
		}
	}
	if fs.SharedCount != 0 || fs.PendingSet || !fs.ReservedFree {
		s.fail("C09", "lock-not-idle", "lock not idle between transactions: shared=%d pending=%v reservedFree=%v", fs.SharedCount, fs.PendingSet, fs.ReservedFree)
	}
	if !s.everOverflow() && !s.resized {
		if live, want := LiveFromSnap(fs), s.LiveIDs(); fmt.Sprint(live) != fmt.Sprint(want) {
			s.fail("C04", "live-set", "pages neither free nor internal are %s, the live pages are %s", runsOf(live), runsOf(want))
		}
	}
	// the available-page counters of the free lists are the number of pages in them
	if n := uint64(len(RegionIDs(fs.DataFree))); n != fs.DataAvail {
		s.fail("C04", "avail-mismatch", "data free list holds %d pages but reports %d available", n, fs.DataAvail)
	}
	if n := uint64(len(RegionIDs(fs.MetaFree))); n != fs.MetaAvail {
		s.fail("C04", "avail-mismatch", "meta free list holds %d pages but reports %d available", n, fs.MetaAvail)
	}
	for _, e := range append(append([][2]uint64(nil), fs.DataFree...), fs.MetaFree...) {
		if e[1] == 0 {
			s.fail("C10", "empty-region", "free list holds an empty region at page %d (it is read back as one page)", e[0])
		}
	}
	// internal pages in use (overwrite pages, free-list pages, mapping pages) lie below the end markers:
	// what lies beyond is cut off by the next truncate / not mapped after reopen (C04; C14 after a resize)
	{
		prop := "C04"
		if s.resized {
			prop = "C14"
		}
		end := fs.MetaEnd
		if fs.DataEnd > end {
			end = fs.DataEnd
		}
		bad := func(what string, id uint64) {
			if id >= end {
				s.fail(prop, "internal-beyond-end", "%s page %d is in use but lies beyond the end markers (data end %d, meta end %d, max pages %d)", what, id, fs.DataEnd, fs.MetaEnd, fs.MaxPages)
			}
		}
		for _, e := range fs.Mapping {
			bad("overwrite", e[1])
		}
		for _, id := range RegionIDs(fs.FreelistPages) {
			bad("free-list", id)
		}
		for _, id := range RegionIDs(fs.WalPages) {
			bad("mapping", id)
		}
	}
	// free lists must not contain live pages or overlap (C04)
	df, mf := RegionIDs(fs.DataFree), RegionIDs(fs.MetaFree)
	seen := map[uint64]string{}
	for _, id := range df {
		seen[id] = "datafree"
		if _, ok := s.Committed[id]; ok {
			s.fail("C04", "free-live", "live page %d is in the data free list", id)
		}
		if id >= fs.DataEnd {
			s.fail("C04", "free-beyond-end", "data free list holds page %d beyond the end marker %d", id, fs.DataEnd)
		}
	}
	for _, id := range mf {
		if seen[id] != "" {
			s.fail("C04", "free-overlap", "page %d in both free lists", id)
		}
		seen[id] = "metafree"
		if _, ok := s.Committed[id]; ok {
			s.fail("C04", "metafree-live", "live page %d is in the meta free list", id)
		}
	}
	for _, e := range fs.Mapping {
		if _, ok := s.Committed[e[0]]; !ok {
			s.fail("C04", "wal-dead", "overwrite mapping for page %d which is not live", e[0])
		}
		if _, ok := s.Committed[e[1]]; ok || seen[e[1]] != "" {
			s.fail("C04", "wal-target", "overwrite page %d (for %d) is live or free (%s)", e[1], e[0], seen[e[1]])
		}
	}
}

// CompareSnap compares the fields that must survive a reopen.
func CompareSnap(a, b txfile.VerifSnap, stats ...bool) string {
	var diffs []string
	chk := func(name string, x, y interface{}) {
		if !reflect.DeepEqual(x, y) {
			diffs = append(diffs, fmt.Sprintf("%s: %v != %v", name, x, y))
		}
	}
	chk("dataEnd", a.DataEnd, b.DataEnd)
	chk("metaEnd", a.MetaEnd, b.MetaEnd)
	chk("metaTotal", a.MetaTotal, b.MetaTotal)
	chk("dataFree", RegionIDs(a.DataFree), RegionIDs(b.DataFree))
	chk("metaFree", RegionIDs(a.MetaFree), RegionIDs(b.MetaFree))
	chk("dataAvail", a.DataAvail, b.DataAvail)
	chk("metaAvail", a.MetaAvail, b.MetaAvail)
	chk("freelistPages", RegionIDs(a.FreelistPages), RegionIDs(b.FreelistPages))
	chk("walPages", RegionIDs(a.WalPages), RegionIDs(b.WalPages))
	chk("mapping", fmt.Sprint(a.Mapping), fmt.Sprint(b.Mapping))
	chk("maxPages", a.MaxPages, b.MaxPages)
	chk("root", a.Meta[a.MetaActive].Root, b.Meta[b.MetaActive].Root)
	chk("txid", a.Meta[a.MetaActive].Txid, b.Meta[b.MetaActive].Txid)
	if len(stats) == 0 || stats[0] {
		chk("stats.data", a.Stats.DataAllocated, b.Stats.DataAllocated)
		chk("stats.meta", a.Stats.MetaArea, b.Stats.MetaArea)
		chk("stats.metaalloc", a.Stats.MetaAllocated, b.Stats.MetaAllocated)
	}
	return strings.Join(diffs, "; ")
}

// ReopenCheck reopens the file and checks it is the same logical file (C10).
func (s *Session) ReopenCheck() {
	before := s.F.VerifSnapshot()
	if r := s.Reopen(); r != "ok" {
		s.fail("C10", "reopen-failed", "reopen failed: %s", r)
		return
	}
	after := s.F.VerifSnapshot()
	if d := CompareSnap(before, after, !s.resized && !s.everOverflow()); d != "" {
		s.fail("C10", "reopen-state", "state differs after reopen: %s", d)
	}
	s.ReadCheck("C10")
}

func (s *Session) txLive() []uint64 {
	m := map[uint64]bool{}
	for id := range s.Committed {
		if !s.Freed[id] {
			m[id] = true
		}
	}
	for id := range s.Alloced {
		m[id] = true
	}
	ids := make([]uint64, 0, len(m))
	for id := range m {
		ids = append(ids, id)
	}
	sort.Slice(ids, func(i, j int) bool { return ids[i] < ids[j] })
	return ids
}

func pick(r *RNG, ids []uint64) (uint64, bool) {
	if len(ids) == 0 {
		return 0, false
	}
	return ids[r.Intn(len(ids))], true
}

// RunTx runs one random write transaction. Returns "commit-ok", "commit-err", "abort" or "begin-err".
func (s *Session) RunTx(r *RNG, p Params) string {
	o := TxOpts{}
	if r.Chance(p.Overflow) {
		o.Overflow = true
	}
	if r.Chance(p.SmallWAL) {
		o.WAL = uint(1 + r.Intn(4))
	}
	if r.Chance(10) {
		o.Grow = 10 + r.Intn(90)
	}
	if s.Begin(o) != "ok" {
		return "begin-err"
	}
	if p.MinAlloc > 0 {
		if ids, res := s.Alloc(p.MinAlloc); res == "ok" {
			for _, id := range ids {
				s.Write(id, "full")
			}
		}
	}
	nops := 1 + r.Intn(p.MaxOps)
	keep := p.KeepFill
	if keep == 0 {
		keep = 60
	}
	for i := 0; i < nops && s.Tx != nil && s.Tx.Active(); i++ {
		live := s.txLive()
		full := s.Cfg.MaxPages > 0 && uint64(len(live))*100 > s.Cfg.MaxPages*uint64(keep)
		w := r.Intn(100)
		switch {
		case w < 2 && !full:
			// allocate a few pages and free all of them again, in ascending or descending order
			// (the end of the data area moves forth and back inside one transaction)
			ids, res := s.Alloc(2 + r.Intn(4))
			if res == "ok" {
				if r.Chance(50) {
					for i := len(ids) - 1; i >= 0; i-- {
						s.Free(ids[i])
					}
				} else {
					for _, id := range ids {
						s.Free(id)
					}
				}
				s.mark("alloc-free-all")
			}
		case w < 22 && !full:
			n := 1 + r.Intn(3)
			if r.Chance(p.BigAlloc) {
				n = 4 + r.Intn(20)
			}
			ids, res := s.Alloc(n)
			if res == "ok" {
				for _, id := range ids {
					if r.Chance(85) {
						s.Write(id, "full")
					} else if r.Chance(50) {
						s.Load(id)
					}
				}
			}
		case w < 50:
			if id, ok := pick(r, live); ok && !s.Flushed[id] {
				mode := "full"
				switch r.Intn(5) {
				case 0:
					mode = "lo"
				case 1:
					mode = "hi"
				}
				s.Write(id, mode)
			}
		case w < 50+p.FreePct || full:
			if id, ok := pick(r, live); ok {
				if r.Chance(p.FreeTop) {
					id = live[len(live)-1]
				}
				s.Free(id)
			}
		case w < 78:
			if id, ok := pick(r, live); ok {
				s.Read(id)
			}
		case w < 84:
			if id, ok := pick(r, live); ok {
				s.FlushPage(id)
			}
		case w < 89:
			s.Flush()
		case w < 92:
			s.Checkpoint()
		case w < 95:
			if id, ok := pick(r, live); ok {
				s.SetRoot(id)
			}
		default:
			// probes of invalid ids (errors expected, must not change anything)
			s.page(uint64(1_000_000 + r.Intn(5)))
		}
	}
	if s.Tx == nil || !s.Tx.Active() {
		s.endTx()
		return "abort"
	}
	if r.Chance(p.AbortPct) {
		if p.BeforeEnd != nil {
			p.BeforeEnd(s, false)
		}
		how := "rollback"
		if r.Chance(40) {
			how = "close"
		}
		s.Rollback(how)
		return "abort"
	}
	// make sure unwritten fresh pages are defined most of the time
	for _, id := range s.txLive() {
		if c, ok := s.Overlay[id]; ok && c == nil && r.Chance(90) && !s.Flushed[id] {
			s.Write(id, "full")
		}
	}
	if p.BeforeEnd != nil {
		p.BeforeEnd(s, true)
	}
	if s.Commit() == "ok" {
		return "commit-ok"
	}
	return "commit-err"
}

// RunProgram runs a whole random program on a fresh file.
func RunProgram(r *RNG, cfg Config, p Params) *Session {
	s := NewSession(cfg)
	if res := s.Open(); res != "ok" {
		s.fail("C03", "open", "creating the file failed: %s", res)
		return s
	}
	s.Continue(r, p)
	return s
}

// Continue runs p.Txs further transactions on an open session.
func (s *Session) Continue(r *RNG, p Params) {
	for t := 0; t < p.Txs && s.F != nil; t++ {
		s.RunTx(r, p)
		if len(s.Failures) > 0 && s.Failures[len(s.Failures)-1].Kind == "panic" {
			return
		}
		if !p.NoQuiesce {
			s.Quiesce()
		}
		if p.OnQuiesce != nil {
			p.OnQuiesce(s)
		}
		if r.Chance(p.Reopen) {
			s.ReopenCheck()
		}
		if p.FreeRun > 0 && t == 1 && s.F != nil {
			s.FreeRun(p.FreeRun)
		}
	}
}

// FreeRun commits n+2 adjacent fresh pages, frees the n inner ones in a second transaction (the
// free list then holds a region of exactly n pages, fenced by two live pages) and reopens the
// file, so that the following transactions allocate from the recovered free list.
func (s *Session) FreeRun(n int) {
	if s.Begin(TxOpts{}) != "ok" {
		return
	}
	ids, res := s.Alloc(n + 2)
	adjacent := res == "ok"
	for i := 1; adjacent && i < len(ids); i++ {
		adjacent = ids[i] == ids[i-1]+1
	}
	if !adjacent {
		s.Rollback("rollback")
		return
	}
	for _, id := range ids {
		s.Write(id, "full")
	}
	if s.Commit() != "ok" || s.Begin(TxOpts{}) != "ok" {
		return
	}
	for _, id := range ids[1 : n+1] {
		s.Free(id)
	}
	if s.Commit() != "ok" {
		return
	}
	s.mark(fmt.Sprintf("free-run-%d", n))
	s.Quiesce()
	s.ReopenCheck()
}

// Finish closes the file.
func (s *Session) Finish() {
	if s.Tx != nil {
		s.Rollback("close")
	}
	if s.F != nil {
		s.CloseFile()
	}
	Current = nil
}
