package engine

import (
	"sort"
	"fmt"
	"strings"
	"time"

	txfile "github.com/elastic/go-txfile"

	"verifharness/simdisk"
)

// ---------------------------------------------------------------------------
// C07: an aborted transaction leaves no trace

// AbortProbe runs one transaction that is forced to end without a successful
// commit and compares the complete allocator state, the committed contents and
// (optionally) the state after a reopen with the state before the transaction.
func (s *Session) AbortProbe(r *RNG, p Params, how string) {
	before := s.F.VerifSnapshot()
	p.AbortPct = 100
	switch how {
	case "fault-commit":
		p.AbortPct = 0
		kinds := []string{"write", "sync"}
		kind := kinds[r.Intn(len(kinds))]
		nth := r.Intn(4)
		if kind == "sync" {
			// the data sync or the final sync. A failing final sync leaves the new header on disk;
			// restoreMeta (42e3ef9) writes the old one back, so this attempt leaves no trace either
			nth = r.Intn(2)
			if nth == 1 {
				s.mark("abort-final-sync-fails")
			}
		}
		p.BeforeEnd = func(s *Session, commit bool) {
			if !commit {
				return
			}
			base, _ := s.Disk.CallCounts()
			from := base[kind] + nth
			s.Disk.SetFault(func(k string, n, total int) simdisk.Action {
				if k == kind && n >= from && n < from+1 {
					s.IOFault = true
					return simdisk.ActErr
				}
				return simdisk.ActOK
			})
		}
	case "flush-fault-abort":
		// writes scheduled by Tx.Flush fail in the background writer; the transaction is then aborted
		p.BeforeEnd = func(s *Session, commit bool) {
			base, _ := s.Disk.CallCounts()
			from := base["write"]
			burst := 1 + r.Intn(3)
			s.Disk.SetFault(func(k string, n, total int) simdisk.Action {
				if k == "write" && n >= from && n < from+burst {
					s.IOFault = true
					return simdisk.ActErr
				}
				return simdisk.ActOK
			})
			s.Flush()
		}
	}
	res := s.RunTx(r, p)
	s.Disk.SetFault(nil)
	if res == "commit-ok" {
		return // the fault did not hit; a normal commit
	}
	if how == "flush-fault-abort" {
		defer s.followUpCommits(r, how)
	}
	s.mark("abort-probe-" + how + "-" + res)
	after := s.F.VerifSnapshot()
	if d := CompareSnap(before, after, !s.everOverflow() && !s.resized); d != "" {
		s.fail("C07", "abort-state", "state after aborted transaction (%s, %s) differs from the state before it: %s", how, res, d)
	}
	s.ReadCheck("C07")
	if r.Chance(30) {
		if rr := s.Reopen(); rr != "ok" {
			s.fail("C07", "abort-reopen", "reopen after aborted transaction failed: %s", rr)
			return
		}
		re := s.F.VerifSnapshot()
		if d := CompareSnap(before, re, !s.everOverflow() && !s.resized); d != "" {
			s.fail("C07", "abort-reopen-state", "state after abort (%s) and reopen differs from the state before the transaction: %s (live pages: %d)", how, d, len(s.Committed))
		}
		s.ReadCheck("C07")
	}
}

// followUpCommits: after an aborted transaction the next transaction behaves as if the
// aborted one had never run: on a file with room it commits.
func (s *Session) followUpCommits(r *RNG, how string) {
	if s.F == nil || s.Tx != nil {
		return
	}
	fs := s.F.VerifSnapshot()
	if fs.MaxPages > 0 {
		room := fs.DataAvail + fs.MetaAvail
		if fs.DataEnd < fs.MaxPages {
			room += fs.MaxPages - fs.DataEnd
		}
		if room < 8 {
			return // a commit on a (nearly) full file may fail for lack of space
		}
	}
	if s.Begin(TxOpts{}) != "ok" {
		s.fail("C07", "abort-followup", "Begin after aborted transaction (%s) failed", how)
		return
	}
	if ids, res := s.Alloc(1 + r.Intn(3)); res == "ok" {
		for _, id := range ids {
			s.Write(id, "full")
		}
	}
	if res := s.Commit(); res != "ok" && !strings.Contains(res, "oom") {
		s.fail("C07", "abort-followup", "the transaction after an aborted one (%s) did not commit: %s — the aborted transaction left a trace", how, res)
		if strings.Contains(how, "fault") {
			// the aborted transaction ran under injected I/O failures, which have stopped: C08's recovery clause
			s.fail("C08", "no-recovery", "first transaction after the I/O failures stopped (%s) did not commit: %s", how, res)
		}
	}
	s.mark("abort-followup")
}

// BigStalledCommit commits one transaction with more page writes than the background
// writer takes in one batch (1024) while the disk is slow: the writes are held back until
// the commit has queued everything including both of its sync requests.
func (s *Session) BigStalledCommit(r *RNG) string {
	if s.F == nil || s.Tx != nil || s.Cfg.MaxPages != 0 {
		return "skip"
	}
	n := 1030 + r.Intn(700)
	if s.Begin(TxOpts{}) != "ok" {
		return "skip"
	}
	ids, res := s.Alloc(n)
	if res != "ok" {
		s.Rollback("rollback")
		return "skip"
	}
	for _, id := range ids {
		s.Write(id, "full")
	}
	s.Disk.Stall()
	stop := make(chan struct{})
	go func() {
		for i := 0; i < 5000 && s.Disk.Stalled() == 0; i++ {
			select {
			case <-stop:
				s.Disk.Release()
				return
			default:
			}
			time.Sleep(time.Millisecond)
		}
		time.Sleep(40 * time.Millisecond) // the commit queues the rest (it never waits before its final Wait)
		s.Disk.Release()
	}()
	res = s.Commit()
	close(stop)
	s.Disk.Release()
	s.mark("big-stalled-commit")
	return res
}

// FillAndOverflow fills a bounded file completely and then overwrites pages in a transaction with the
// overflow area enabled: the overwrite / free-list / mapping pages land beyond the limit.
func (s *Session) FillAndOverflow(r *RNG) {
	if s.F == nil || s.Tx != nil || s.Cfg.MaxPages == 0 {
		return
	}
	fs := s.F.VerifSnapshot()
	avail := int(fs.DataAvail)
	if fs.DataEnd < fs.MaxPages {
		avail += int(fs.MaxPages - fs.DataEnd)
	}
	if avail > 0 && avail < 400 {
		if s.Begin(TxOpts{Overflow: true}) != "ok" {
			return
		}
		if ids, res := s.Alloc(avail); res == "ok" {
			for _, id := range ids {
				s.Write(id, "full")
			}
		}
		if s.Commit() != "ok" {
			return
		}
	}
	live := s.LiveIDs()
	if len(live) == 0 || s.Begin(TxOpts{Overflow: true}) != "ok" {
		return
	}
	for k := 0; k < 2+r.Intn(6); k++ {
		s.Write(live[r.Intn(len(live))], "full")
	}
	s.Commit()
	if fs := s.F.VerifSnapshot(); fs.MetaEnd > fs.DataEnd && fs.MetaEnd > fs.MaxPages {
		s.mark("overflow-area-beyond-limit")
	}
}

// OverflowGap drives a bounded file into the state "overflow area beyond the limit, data end
// below the limit": one overflow transaction fills the file, overwrites (and flushes) old pages
// until overwrite pages come from the overflow area, then frees the pages at the end of the data
// area again. Closing and reopening such a file must change nothing (C10): followed by a reopen
// compare and an allocation.
func (s *Session) OverflowGap(r *RNG) {
	if s.F == nil || s.Tx != nil || s.Cfg.MaxPages == 0 {
		return
	}
	fs := s.F.VerifSnapshot()
	avail := int(fs.DataAvail)
	if fs.DataEnd < fs.MaxPages {
		avail += int(fs.MaxPages - fs.DataEnd)
	}
	live := s.LiveIDs()
	if avail < 4 || avail > 400 || len(live) < 4 {
		return
	}
	if s.Begin(TxOpts{Overflow: true}) != "ok" {
		return
	}
	ids, res := s.Alloc(avail)
	if res != "ok" {
		s.Rollback("rollback")
		return
	}
	for _, id := range ids[:len(ids)-3] {
		s.Write(id, "full")
	}
	// overwrites of committed pages, flushed at once: each takes an overwrite page from the meta area
	n := 4 + r.Intn(8)
	for k := 0; k < n && k < len(live); k++ {
		if s.Write(live[k], "full") == "ok" {
			s.FlushPage(live[k])
		}
	}
	// give back the end of the data area
	sort.Slice(ids, func(i, j int) bool { return ids[i] < ids[j] })
	for i := len(ids) - 1; i >= len(ids)-3; i-- {
		s.Free(ids[i])
	}
	if s.Commit() != "ok" {
		return
	}
	if fs := s.F.VerifSnapshot(); fs.MetaEnd > fs.MaxPages && fs.DataEnd < fs.MaxPages {
		s.mark("overflow-gap-below-limit")
	}
	s.AccountCheck()
	s.ReopenCheck()
	if s.F != nil && s.Begin(TxOpts{}) == "ok" {
		if ids, res := s.Alloc(1 + r.Intn(3)); res == "ok" {
			for _, id := range ids {
				s.Write(id, "full")
			}
		}
		s.Commit()
		s.Quiesce()
	}
}

// FreeTail leaves a free region at the end of the data area of a bounded file.
func (s *Session) FreeTail(r *RNG) {
	if s.F == nil || s.Tx != nil {
		return
	}
	if s.Begin(TxOpts{}) != "ok" {
		return
	}
	ids, res := s.Alloc(8 + r.Intn(12))
	if res == "ok" {
		for _, id := range ids {
			s.Write(id, "full")
		}
	}
	if s.Commit() != "ok" || res != "ok" {
		return
	}
	if s.Begin(TxOpts{}) != "ok" {
		return
	}
	k := 3 + r.Intn(6)
	for i := len(ids) - 1; i >= 0 && k > 0; i, k = i-1, k-1 {
		s.Free(ids[i])
	}
	s.Commit()
	s.mark("free-tail")
}

// ShrinkBelowFileSize lowers the limit of a preallocated file below its size (but above everything in
// use): the next commit truncates the file, which replaces the memory mapping.
func (s *Session) ShrinkBelowFileSize(r *RNG) bool {
	if s.F == nil || s.Cfg.MaxPages == 0 {
		return false
	}
	if s.Tx != nil {
		s.Rollback("close")
	}
	fs := s.F.VerifSnapshot()
	ps := uint64(s.Cfg.PageSize)
	need := fs.DataEnd
	if fs.MetaEnd > need {
		need = fs.MetaEnd
	}
	need += 2
	if min := uint64(65536) / ps; need < min {
		need = min
	}
	if need >= fs.MaxPages {
		return false
	}
	newMax := need + uint64(r.Intn(int(fs.MaxPages-need)))
	if n := len(fs.DataFree); n > 0 && (r.Chance(50) || s.intoFreeTail) {
		// a limit INSIDE a free region that reaches the end of the data area: Open releases the excess pages
		// in a transaction of its own (initTxReleaseRegions), later commits release what is left
		last := fs.DataFree[n-1]
		min := uint64(65536) / ps
		if lo := last[0] + 1; last[0]+last[1] == fs.DataEnd && fs.MetaEnd <= fs.DataEnd && last[1] > 1 && fs.DataEnd > min+1 {
			if lo < min {
				lo = min
			}
			if lo < fs.DataEnd {
				newMax = lo + uint64(r.Intn(int(fs.DataEnd-lo)))
				s.mark("shrink-into-free-tail")
			}
		}
	}
	s.CloseFile()
	s.Cfg.InitMeta = 0
	opts := s.Cfg.Options()
	opts.Flags |= txfile.FlagUpdMaxSize
	opts.MaxSize = newMax * ps
	s.resized = true // from here on the limit on disk may be the new one, whatever Open reports
	if res := s.OpenWith(opts, "resize-shrink"); res != "ok" {
		s.fail("C14", "resize-open", "shrinking a preallocated file from %d to %d pages failed: %s", fs.MaxPages, newMax, res)
		if s.OpenWith(s.Cfg.Options(), "open") == "ok" {
			s.Cfg.MaxPages = s.F.VerifSnapshot().MaxPages
		}
		return false
	}
	s.Cfg.MaxPages = newMax
	return true
}

// GrowTail makes the data area longer than the smallest possible limit (64 KiB) and
// leaves a free region at its end (set-up for SessionBound).
func (s *Session) GrowTail(r *RNG) {
	if s.F == nil || s.Cfg.MaxPages != 0 || s.Tx != nil {
		return
	}
	fs := s.F.VerifSnapshot()
	minPages := uint64(65536) / uint64(s.Cfg.PageSize)
	need := 0
	if fs.DataEnd < minPages+8 {
		need = int(minPages + 8 - fs.DataEnd)
	}
	need += 4 + r.Intn(12)
	if s.Begin(TxOpts{}) != "ok" {
		return
	}
	ids, res := s.Alloc(need)
	if res == "ok" {
		for _, id := range ids {
			s.Write(id, "full")
		}
	}
	if s.Commit() != "ok" || res != "ok" {
		return
	}
	// free the last pages of the data area
	if s.Begin(TxOpts{}) != "ok" {
		return
	}
	k := 3 + r.Intn(10)
	for i := len(ids) - 1; i >= 0 && k > 0; i, k = i-1, k-1 {
		s.Free(ids[i])
	}
	s.Commit()
	s.mark("grow-tail")
}

// SessionBound reopens an unbounded file with Options.MaxSize set (no
// FlagUpdMaxSize): the limit holds for this session only and usually lies below
// the end of the data area, so every commit runs the release of excess pages.
func (s *Session) SessionBound(r *RNG) bool {
	if s.F == nil || s.Cfg.MaxPages != 0 {
		return false
	}
	if s.Tx != nil {
		s.Rollback("close")
	}
	fs := s.F.VerifSnapshot()
	ps := uint64(s.Cfg.PageSize)
	minPages := uint64(65536) / ps
	if fs.DataEnd <= minPages+2 {
		return false
	}
	newMax := minPages + uint64(r.Intn(int(fs.DataEnd-minPages)))
	if n := len(fs.DataFree); n > 0 && r.Chance(70) {
		// prefer a limit inside a free region that reaches the end of the data area
		last := fs.DataFree[n-1]
		if lo := last[0] + 1; last[0]+last[1] == fs.DataEnd && last[1] > 1 && fs.DataEnd > minPages+1 {
			if lo < minPages {
				lo = minPages
			}
			if lo < fs.DataEnd {
				newMax = lo + uint64(r.Intn(int(fs.DataEnd-lo)))
				s.mark("session-bound-straddle")
			}
		}
	}
	s.CloseFile()
	s.Cfg.InitMeta = 0
	opts := s.Cfg.Options()
	opts.MaxSize = newMax * ps
	if res := s.OpenWith(opts, "resize-shrink"); res != "ok" {
		s.mark("session-bound-refused")
		s.boundPages = 0
		s.OpenWith(s.Cfg.Options(), "open")
		return false
	}
	s.mark("session-bound")
	s.resized = true
	s.boundPages = newMax
	return true
}

// ---------------------------------------------------------------------------
// C11: capacity probe

// CapacityProbe allocates exactly the advertised number of free pages in a
// transaction that is rolled back, and checks one more page is refused.
func (s *Session) CapacityProbe() {
	fs := s.F.VerifSnapshot()
	if fs.MaxPages == 0 || s.everOverflow() {
		return
	}
	avail := fs.DataAvail
	if fs.DataEnd < fs.MaxPages {
		avail += fs.MaxPages - fs.DataEnd
	}
	live := uint64(len(s.Committed))
	if fs.MetaEnd <= fs.DataEnd && avail+live+fs.MetaTotal+2 != fs.MaxPages {
		s.fail("C11", "space-eq", "avail(%d)+live(%d)+meta(%d)+2 != maxPages(%d)", avail, live, fs.MetaTotal, fs.MaxPages)
	}
	noTrace := s.NoTrace
	s.NoTrace = true
	defer func() { s.NoTrace = noTrace }()
	if s.Begin(TxOpts{}) != "ok" {
		return
	}
	s.mark("capacity-probe")
	if avail > 0 {
		ids, res := s.Alloc(int(avail))
		if res != "ok" {
			s.fail("C11", "capacity-short", "%d pages advertised as allocatable, AllocN(%d) failed: %s", avail, avail, res)
		} else {
			for _, id := range ids {
				if id >= fs.MaxPages {
					s.fail("C11", "capacity-beyond", "capacity probe received page %d beyond max pages %d", id, fs.MaxPages)
					break
				}
			}
		}
	}
	if _, res := s.Alloc(1); res == "ok" {
		s.fail("C11", "capacity-over", "allocation beyond the advertised capacity (%d) succeeded", avail)
	}
	s.Rollback("rollback")
	after := s.F.VerifSnapshot()
	if d := CompareSnap(fs, after); d != "" {
		s.fail("C07", "abort-state", "state after capacity probe rollback differs: %s", d)
	}
}

// ---------------------------------------------------------------------------
// C14: changing the maximum size on open

// beginROWithTimeout checks that a read transaction can be started promptly.
func (s *Session) beginROWithTimeout(prop string) {
	done := make(chan string, 1)
	f := s.F
	go func() {
		defer func() {
			if r := recover(); r != nil {
				done <- fmt.Sprint("panic: ", r)
			}
		}()
		tx, err := f.BeginReadonly()
		if err != nil {
			done <- ErrKind(err)
			return
		}
		tx.Close()
		done <- "ok"
	}()
	select {
	case r := <-done:
		if r != "ok" {
			s.fail(prop, "beginro", "BeginReadonly after open: %s", r)
		}
	case <-time.After(10 * time.Second):
		s.fail(prop, "beginro-blocks", "BeginReadonly blocks after open (pending lock left set)")
		// unblock the goroutine: a write commit clears the flag
	}
}

// ResizeProbe reopens the file with a new maximum size and checks C14.
func (s *Session) ResizeProbe(r *RNG) {
	if s.Tx != nil {
		s.Rollback("close")
	}
	before := s.F.VerifSnapshot()
	ps := uint64(s.Cfg.PageSize)
	minPages := uint64(65536) / ps
	oldMax := before.MaxPages
	var newMax uint64
	kind := r.Intn(4)
	ovfArea := before.MaxPages > 0 && before.MetaEnd > before.DataEnd
	if ovfArea && r.Chance(70) {
		kind = []int{0, 2, 3}[r.Intn(3)] // overflow area in use: raise or remove the limit (the data area may grow again)
	}
	switch {
	case kind == 0 && oldMax > 0: // unbounded
		newMax = 0
	case kind == 1 || oldMax == 0: // shrink (or bound an unbounded file)
		newMax = minPages + uint64(r.Intn(int(minPages)))
		if oldMax > 0 && oldMax > minPages {
			newMax = minPages + uint64(r.Intn(int(oldMax-minPages)))
		}
	default: // grow
		newMax = oldMax + 1 + uint64(r.Intn(int(oldMax)))
	}
	if newMax == oldMax {
		newMax = oldMax + 7
	}
	prealloc := r.Chance(30)
	s.CloseFile() // also waits for the background writer: queued writes of aborted transactions are done or dropped
	extentBefore := uint64(s.Disk.MaxExtent)
	sizeBefore := uint64(len(s.Disk.Contents()))
	s.Cfg.InitMeta = 0 // only meaningful when creating the file
	opts := s.Cfg.Options()
	opts.Flags |= txfile.FlagUpdMaxSize
	opts.MaxSize = newMax*ps + uint64(r.Intn(int(ps))) // not necessarily page aligned
	opts.Prealloc = prealloc
	label := "resize-grow"
	if newMax == 0 {
		opts.MaxSize = 0
		label = "resize-unbound"
	} else if oldMax == 0 || newMax < oldMax {
		label = "resize-shrink"
	}
	res := s.OpenWith(opts, label)
	s.mark(label)
	if res != "ok" {
		s.fail("C14", "resize-open", "%s from %d to %d pages failed: %s", label, oldMax, newMax, res)
		s.OpenWith(s.Cfg.Options(), "open")
		return
	}
	s.resized = true
	s.Cfg.MaxPages = newMax
	s.boundPages = 0
	s.Cfg.Prealloc = prealloc
	after := s.F.VerifSnapshot()
	if after.PendingSet || after.SharedCount != 0 || !after.ReservedFree {
		s.fail("C14", "resize-lock", "lock not idle after %s: shared=%d pending=%v reservedFree=%v (BeginReadonly would block)", label, after.SharedCount, after.PendingSet, after.ReservedFree)
		s.fail("C09", "lock-not-idle", "lock not idle after open-time max-size update: shared=%d pending=%v reservedFree=%v", after.SharedCount, after.PendingSet, after.ReservedFree)
		// a write commit clears the pending flag again; do that so the run can go on
		if tx, err := s.F.Begin(); err == nil {
			tx.Commit()
		}
	}
	s.beginROWithTimeout("C14")
	s.ReadCheck("C14")
	if after.MaxPages != newMax {
		s.fail("C14", "resize-limit", "%s: max pages is %d, expected %d", label, after.MaxPages, newMax)
	}
	// the limit a later plain open reports is the one in the file header (an open that passes the
	// limit again in its options would only impose it for its own session)
	if hm := after.Meta[after.MetaActive].MaxSize; after.MappedLen > 0 && hm != newMax*ps {
		s.fail("C14", "resize-persist", "%s from %d to %d pages: the file header stores max size %d (%d pages), a later plain open reports that instead of %d", label, oldMax, newMax, hm, hm/ps, newMax*ps)
	}
	if oldMax == 0 && newMax > 0 {
		s.mark("resize-bound-unbounded")
	}
	availOf := func(fs txfile.VerifSnap) uint64 {
		a := fs.DataAvail
		if fs.DataEnd < fs.MaxPages {
			a += fs.MaxPages - fs.DataEnd
		}
		return a
	}
	if label == "resize-grow" && oldMax > 0 && before.MetaEnd <= oldMax && before.DataEnd <= oldMax {
		if got, want := availOf(after), availOf(before)+(newMax-oldMax); got != want {
			s.fail("C14", "resize-avail", "grow %d -> %d pages: allocatable pages %d, expected %d", oldMax, newMax, got, want)
		}
	}
	// the new limit is what a later plain open reports (half of the time: otherwise the session goes on
	// with the instance that performed the update, whose allocator state was set up during that Open)
	if ovfArea && label != "resize-shrink" {
		s.mark("grow-with-overflow-area")
	}
	if r.Chance(50) || (ovfArea && label != "resize-shrink" && r.Chance(60)) {
		s.mark("resize-continue-same-instance")
		if ovfArea && label != "resize-shrink" && s.F != nil {
			// allocate from the end of the file right away: the pages must lie behind the overflow area
			if s.Begin(TxOpts{}) == "ok" {
				if ids, res := s.Alloc(2 + r.Intn(6)); res == "ok" {
					for _, id := range ids {
						s.Write(id, "full")
					}
				}
				s.Commit()
				s.AccountCheck()
			}
		}
	} else if rr := s.Reopen(); rr == "ok" {
		re := s.F.VerifSnapshot()
		if re.MaxPages != newMax {
			s.fail("C14", "resize-persist", "plain reopen after %s reports %d max pages, expected %d", label, re.MaxPages, newMax)
		}
	} else {
		s.fail("C14", "resize-reopen", "plain reopen after %s failed: %s", label, rr)
	}
	if label == "resize-shrink" {
		lim := newMax * ps
		if extentBefore > lim {
			lim = extentBefore
		}
		if sizeBefore > lim {
			lim = sizeBefore
		}
		// pages below the end markers belong to the file even if they were never written
		if e := before.DataEnd * ps; e > lim {
			lim = e
		}
		if e := before.MetaEnd * ps; e > lim {
			lim = e
		}
		s.extentLimit = lim
	} else {
		s.extentLimit = 0
	}
}

// CheckExtent verifies the shrink extent bound of C14.
func (s *Session) CheckExtent() {
	if s.extentLimit == 0 || s.everOverflow() {
		return
	}
	if ext := uint64(s.Disk.MaxExtent); ext > s.extentLimit {
		s.fail("C14", "shrink-extent", "after shrinking to %d pages the file was extended to %d bytes (limit: max(previous extent, new limit) = %d)", s.Cfg.MaxPages, ext, s.extentLimit)
		s.extentLimit = 0
	}
}

// ---------------------------------------------------------------------------
// ShrinkUnderFault lowers the limit of a preallocated file below its size (Open with
// FlagUpdMaxSize), with openFault: while one write or sync inside that Open fails. Whatever the
// Open reports, the file must open again, show the committed data and have a sane allocator.
// Returns false if the session can not go on.
func (s *Session) ShrinkUnderFault(r *RNG, openFault bool, prop string) bool {
	// (resize run, two of three programs: aim at the release transaction - the limit is lowered into a free
	// region at the end of the data area, the fault hits the second transaction of the Open)
	aimed := prop == "C14" && r.Chance(66)
	if aimed || r.Chance(60) {
		s.FreeTail(r)
	}
	s.intoFreeTail = aimed
	defer func() { s.intoFreeTail = false }()
	if openFault {
		// an I/O error inside the shrinking Open itself (max-size update / release of the excess pages)
		k := []string{"write", "write", "sync"}[r.Intn(3)]
		base, _ := s.Disk.CallCounts()
		from := base[k] + r.Intn(4)
		if aimed {
			// the header-only update is one write and two syncs; what follows belongs to the release transaction
			from = base[k] + 1 + r.Intn(2)
			if k == "sync" {
				from = base[k] + 2 + r.Intn(2)
			}
		}
		s.Disk.SetFault(func(kk string, n, total int) simdisk.Action {
			if kk == k && n == from {
				s.IOFault = true
				return simdisk.ActErr
			}
			return simdisk.ActOK
		})
		s.mark("fault-in-shrinking-open")
		// The acceptor follows ONE engine instance through the commit protocol of ordinary
		// transactions. An Open failing under a fault ends the instance in the middle of the header-only
		// max-size transaction (no restore: the header names the unchanged state), its cleanup
		// truncates, and the next instance re-reads the headers: the log is not walked past this point
		// (the oracles below check the outcome).
		s.Disk.Mark("acceptor-stop")
	}
	noFail := len(s.Failures)
	ok := s.ShrinkBelowFileSize(r)
	s.Disk.SetFault(nil)
	if ok {
		s.mark("shrink-below-file-size")
	} else if openFault {
		// the Open may fail under the fault; that is an error result, not a violation: the file must open again
		s.Failures = s.Failures[:noFail]

		if s.F == nil && s.Open() != "ok" {
			s.fail(prop, "fault-open", "the file can not be opened after an Open that failed with an I/O error")
			return false
		}
	}
	if s.F == nil {
		return false
	}
	s.ReadCheck(prop)
	s.AccountCheck()
	if ok && prop == "C14" {
		// the Open reported success: the new limit is in the header, and it is still there after the next commit
		// and for a later open (a release transaction whose I/O failed must have been rolled back completely)
		want := s.Cfg.MaxPages * uint64(s.Cfg.PageSize)
		hdr := func(when string) {
			if fs := s.F.VerifSnapshot(); fs.MappedLen > 0 && fs.Meta[fs.MetaActive].MaxSize != want {
				s.fail("C14", "resize-persist", "shrink with an I/O fault inside Open (reported ok): %s the active header stores max size %d, expected %d", when, fs.Meta[fs.MetaActive].MaxSize, want)
			}
		}
		hdr("after the Open")
		if s.Begin(TxOpts{}) == "ok" {
			if live := s.LiveIDs(); len(live) > 0 {
				s.Write(live[0], "full")
			}
			s.Commit()
			hdr("after the next commit")
		}
		s.ReopenCheck()
		if s.F == nil {
			return false
		}
		hdr("after a later open")
	}
	return true
}

// C08: I/O faults

// FaultStats summarise a fault run.
type FaultStats struct {
	Plans, FailedOps, FailedCommits, Recovered int
}

// RunFaultProgram runs a history with one fault window and checks containment.
func RunFaultProgram(r *RNG, cfg Config, p Params) (*Session, FaultStats) {
	var st FaultStats
	// fault kind first: mapping faults need a file whose mapping has to grow
	kinds := []string{"write", "write", "sync", "sync", "mmap", "truncate", "size"}
	kind := kinds[r.Intn(len(kinds))]
	growMap := (kind == "mmap" || kind == "size") && r.Chance(60)
	// the other way the mapping is replaced: a commit truncates a file that is larger than its (reduced) limit
	truncPath := !growMap && (kind == "mmap" || kind == "size" || kind == "truncate") && r.Chance(70)
	if growMap {
		cfg.MaxPages, cfg.Prealloc = 0, false // only unbounded files are remapped when they grow
	}
	if truncPath {
		cfg.Prealloc = true
		if min := uint64(65536 / cfg.PageSize); cfg.MaxPages < min+24 {
			cfg.MaxPages = min + 24 + uint64(r.Intn(40))
		}
		if uint64(cfg.InitMeta) >= cfg.MaxPages-2 {
			cfg.InitMeta = 4
		}
	}
	s := NewSession(cfg)
	if s.Open() != "ok" {
		return s, st
	}
	warm := p
	warm.Txs = 1 + r.Intn(6)
	warm.Reopen = 0
	s.Continue(r, warm)
	if s.F == nil {
		return s, st
	}
	if truncPath {
		if !s.ShrinkUnderFault(r, r.Chance(40), "C08") {
			return s, st
		}
	}
	// fault window
	act := simdisk.ActErr
	if kind == "write" && r.Chance(30) {
		act = simdisk.ActShort
	}
	if kind == "sync" && r.Chance(30) {
		act = simdisk.ActAfter
	}
	first := r.Intn(8)
	if growMap || truncPath {
		first = r.Intn(2)
	}
	burst := 1 + r.Intn(3)
	base, _ := s.Disk.CallCounts()
	from := base[kind] + first
	hits := 0
	var hitSyncIdx []int // sync call numbers that failed
	s.Disk.SetFault(func(k string, n, total int) simdisk.Action {
		if k == kind && n >= from && n < from+burst {
			hits++
			s.IOFault = true
			if k == "sync" {
				hitSyncIdx = append(hitSyncIdx, n)
			}
			return act
		}
		return simdisk.ActOK
	})
	st.Plans++
	s.emit("# fault plan kind=%s act=%d first=%d burst=%d", kind, act, first, burst)
	s.FaultKind = kind
	s.mark("fault-" + kind)

	// transactions under faults: a failed commit must not change what readers see
	var maybe []SpecState // states of commit attempts that may legitimately be on disk after reopen
	for t := 0; t < 6 && s.F != nil; t++ {
		hitsBefore := hits
		syncHitsBefore := len(hitSyncIdx)
		syncBase := 0
		commitLogStart := 0
		pre := s.specState(-1)
		fp := p
		fp.AbortPct = 10
		fp.NoQuiesce = true
		if growMap && t == 0 {
			// this transaction's commit grows the file past the mapped region: the remap is what fails
			fs := s.F.VerifSnapshot()
			if mp := uint64(fs.MappedLen) / uint64(s.Cfg.PageSize); mp >= fs.DataEnd {
				fp.MinAlloc = int(mp-fs.DataEnd) + 1 + r.Intn(8)
				fp.AbortPct = 0
				s.mark("grow-past-mapping")
			}
		}
		var attempted *SpecState
		fp.BeforeEnd = func(s *Session, commit bool) {
			if commit {
				cc, _ := s.Disk.CallCounts()
				syncBase = cc["sync"]
				commitLogStart = s.Disk.LogLen()
				// what the commit would produce
				save := s.Committed
				saveRoot := s.Root
				cp := map[uint64]Content{}
				for k, v := range save {
					cp[k] = v
				}
				s.Committed = cp
				s.applyCommit()
				a := s.specState(-2)
				attempted = &a
				s.Committed, s.Root = save, saveRoot
			}
		}
		res := s.RunTx(r, fp)
		if len(s.Failures) > 0 && s.Failures[len(s.Failures)-1].Kind == "panic" {
			return s, st
		}
		if res == "commit-err" {
			st.FailedCommits++
			// only failure was the final (second) sync of the commit?
			if hits == hitsBefore+1 && len(hitSyncIdx) == syncHitsBefore+1 && hitSyncIdx[len(hitSyncIdx)-1] == syncBase+1 && attempted != nil {
				maybe = append(maybe, *attempted)
				s.mark("final-sync-failed")
				s.finalSyncFailAt = commitLogStart
			}
			s.mark("commit-failed-under-fault")
		}
		_ = pre
		// readers keep seeing the last successfully committed state
		s.ReadCheck("C08")
		s.AccountCheck() // and the failed attempt left no trace in the allocator (C11, C04)
		fs := s.F.VerifSnapshot()
		if fs.SharedCount != 0 || fs.PendingSet || !fs.ReservedFree {
			s.fail("C08", "lock-not-idle", "lock not idle after operation under faults: shared=%d pending=%v reservedFree=%v", fs.SharedCount, fs.PendingSet, fs.ReservedFree)
		}
		if hits >= burst {
			break
		}
	}
	s.Disk.SetFault(nil)
	if hits == 0 {
		s.mark("fault-not-hit")
	}
	// reopen after the failures: last committed state, or a later attempt whose only failure was its final sync
	if s.F != nil && r.Chance(40) {
		if r.Chance(50) {
			ap := p
			ap.AbortPct, ap.NoQuiesce, ap.MaxOps = 100, true, 8
			s.RunTx(r, ap)
			s.mark("abort-before-fault-reopen")
		}
		s.CloseFile()
		// A clean close + reopen shows the last committed state. An attempt that failed only in its
		// final sync is NOT allowed here: no fault hit its restoreMeta, which has put the old header
		// back (a crash before that restore is durable is the business of the acceptor, not of this check).
		allowed := []SpecState{s.specState(-1)}
		if s.resized {
			for i := range allowed {
				allowed[i].LeakOK = true
			}
		}
		res := CheckImage(s.Disk.Contents(), s.Cfg.Options(), allowed, false)
		// A commit whose final sync failed leaves a valid newer header in the
		// inactive slot while the process goes on with the old state and re-uses
		// the pages that header refers to (repaired by restoreMeta, 42e3ef9). Keep that case apart.
		sfx := ""
		if len(maybe) > 0 && s.writesSinceFinalSyncFailure() {
			sfx = "-after-final-sync-failure"
		}
		switch {
		case res.Panic != "":
			s.fail("C08", "fault-reopen-panic"+sfx, "reopen after I/O failures panicked: %s", res.Panic)
		case !res.Opened:
			s.fail("C08", "fault-reopen"+sfx, "reopen after I/O failures failed: %s", res.OpenErr)
		case res.Match < 0:
			s.fail("C08", "fault-reopen-state"+sfx, "reopen after I/O failures (%d attempts failed only in their final sync) shows neither the last committed state nor such an attempt: %s", len(maybe), res.Diff)
		case res.Match > 0:
			a := allowed[res.Match]
			s.Committed, s.Root = a.Pages, a.Root
			s.mark("reopen-shows-final-sync-attempt")
		}
		if res.Match < 0 {
			return s, st // the file is not in a known state any more
		}
		if s.Open() != "ok" {
			return s, st
		}
	}
	// failures stopped: new transactions commit successfully
	rp := p
	rp.AbortPct = 0
	rp.NoQuiesce = true
	rp.MaxOps = 4
	okAfter := false
	for t := 0; t < 2 && s.F != nil; t++ {
		res := s.RunTx(r, rp)
		if res == "commit-ok" {
			okAfter = true
			st.Recovered++
			break
		}
		roomy := true
		if fs := s.F.VerifSnapshot(); fs.MaxPages > 0 {
			room := fs.DataAvail + fs.MetaAvail
			if fs.DataEnd < fs.MaxPages {
				room += fs.MaxPages - fs.DataEnd
			}
			roomy = room >= 8 // a commit on a (nearly) full file may fail for lack of space
		}
		if t == 0 && res == "commit-err" && roomy && !strings.Contains(s.LastCommit, "oom") {
			s.fail("C08", "no-recovery", "first transaction after the I/O failures stopped did not commit: %s", s.LastCommit)
		}
	}
	_ = okAfter
	if s.F != nil {
		s.ReadCheck("C08")
		s.Quiesce()
	}
	return s, st
}

// writesSinceFinalSyncFailure reports whether any page write was issued after
// the most recent commit that failed only in its final sync.
func (s *Session) writesSinceFinalSyncFailure() bool {
	if s.finalSyncFailAt == 0 {
		return false
	}
	log := s.Disk.LogCopy()
	hdr := -1
	for i := s.finalSyncFailAt; i < len(log); i++ {
		if op := log[i]; op.Kind == simdisk.OpWrite && len(op.Data) == 84 {
			hdr = i
			break
		}
	}
	if hdr < 0 {
		return false
	}
	for _, op := range log[hdr+1:] {
		if op.Kind == simdisk.OpWrite || op.Kind == simdisk.OpTruncate {
			return true
		}
	}
	return false
}
